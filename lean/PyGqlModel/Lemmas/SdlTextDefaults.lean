/-
  C12 text level — LAYER (iii): default values (`litText`) against the values of the denoted document.
-/
import PyGqlModel.Lemmas.SdlTextMembers
import PyGqlModel.Lemmas.PrintLayTokens
namespace PyGql.SdlText
open PyGql PyGql.Ast PyGql.Sdl PyGql.Spec PyGql.PrintLex PyGql.PrintTokens PyGql.PrintMatch PyGql.PrintString PyGql.SdlPrint PyGql.Parse

/-! ### the characters of a number lexeme -/

def numChar (c : Nat) : Bool := Spec.Lexical.isDigit c || c == 43 || c == 45 || c == 46 || c == 101 || c == 69

theorem numChar_notWs (c : Nat) (h : numChar c = true) : SdlPrintT.isWs c = false := by
  have hlt : c < 128 := by simp [numChar, Spec.Lexical.isDigit] at h; omega
  have key : ∀ c, c < 128 → numChar c = true → SdlPrintT.isWs c = false := by decide
  exact key c hlt h

theorem digits_numChar {ds : Text} (h : ds.all Spec.Lexical.isDigit = true) : ∀ c ∈ ds, numChar c = true := by
  intro c hc; simp [numChar, (List.all_eq_true.1 h) c hc]

theorem integerPart_numChar {w : Text} (h : Spec.Lexical.isIntegerPart w = true) : ∀ c ∈ w, numChar c = true := by
  have key : ∀ (d : Nat) (ds : Text),
      ((d == 48 && ds.isEmpty) || (Spec.Lexical.isNonZeroDigit d && ds.all Spec.Lexical.isDigit)) = true →
      ∀ c ∈ d :: ds, numChar c = true := by
    intro d ds h c hc
    simp only [Bool.or_eq_true, Bool.and_eq_true, beq_iff_eq, List.isEmpty_iff] at h
    simp only [List.mem_cons] at hc
    rcases h with ⟨rfl, rfl⟩ | ⟨hd, hds⟩
    · rcases hc with rfl | hc
      · decide
      · cases hc
    · rcases hc with rfl | hc
      · simp [Spec.Lexical.isNonZeroDigit] at hd; simp [numChar, Spec.Lexical.isDigit]; omega
      · exact digits_numChar hds c hc
  simp only [Spec.Lexical.isIntegerPart] at h
  by_cases hneg : ∃ t, w = 45 :: t
  · obtain ⟨t, rfl⟩ := hneg
    simp only [Spec.Lexical.stripNegativeSign] at h
    cases t with
    | nil => simp at h
    | cons d ds =>
      intro c hc
      simp only [List.mem_cons] at hc
      rcases hc with rfl | hc
      · decide
      · exact key d ds h c (by simpa using hc)
  · cases w with
    | nil => simp [Spec.Lexical.stripNegativeSign] at h
    | cons d ds =>
      have hs : Spec.Lexical.stripNegativeSign (d :: ds) = d :: ds := by
        unfold Spec.Lexical.stripNegativeSign
        split
        · rename_i heq; simp at heq; exact absurd ⟨ds, by rw [heq.1]⟩ hneg
        · rfl
      rw [hs] at h
      exact key d ds h

theorem float_numChar {w : Text} (h : Spec.Lexical.isFloatValue w = true) : ∀ c ∈ w, numChar c = true := by
  obtain ⟨ip, frac, exp, rfl, hip, hf, he, _⟩ := floatShape_of_isFloatValue w h
  intro c hc
  simp only [List.mem_append] at hc
  rcases hc with hc | hc | hc
  · exact integerPart_numChar hip c hc
  · rcases hf with rfl | hf
    · cases hc
    · match frac, hf, hc with
      | 46 :: d :: ds, hf, hc =>
        simp only [Spec.Lexical.isFractionalPart, Bool.and_eq_true] at hf
        simp only [List.mem_cons] at hc
        rcases hc with rfl | rfl | hc
        · decide
        · simp [numChar, hf.1]
        · exact digits_numChar hf.2 c hc
  · rcases he with rfl | he
    · cases hc
    · cases exp with
      | nil => cases hc
      | cons i rest =>
        simp only [Spec.Lexical.isExponentPart, Bool.and_eq_true, Bool.or_eq_true, beq_iff_eq] at he
        obtain ⟨hi, hrest⟩ := he
        simp only [List.mem_cons] at hc
        rcases hc with rfl | hc
        · rcases hi with h | h <;> subst h <;> decide
        · have key : ∀ (d : Nat) (ds : Text), (Spec.Lexical.isDigit d && ds.all Spec.Lexical.isDigit) = true →
              ∀ c ∈ d :: ds, numChar c = true := by
            intro d ds h c hc
            simp only [Bool.and_eq_true] at h
            simp only [List.mem_cons] at hc
            rcases hc with rfl | hc
            · simp [numChar, h.1]
            · exact digits_numChar h.2 c hc
          cases rest with
          | nil => cases hc
          | cons x u =>
            by_cases hx : x = 43 ∨ x = 45
            · have hs : Spec.Lexical.stripSign (x :: u) = u := by rcases hx with rfl | rfl <;> rfl
              rw [hs] at hrest
              simp only [List.mem_cons] at hc
              rcases hc with rfl | hc
              · rcases hx with h | h <;> subst h <;> decide
              · cases u with
                | nil => cases hc
                | cons d ds => exact key d ds hrest c hc
            · have hs : Spec.Lexical.stripSign (x :: u) = x :: u := by
                unfold Spec.Lexical.stripSign
                split
                · rename_i heq; simp at heq; exact absurd (Or.inl heq.1) hx
                · rename_i heq; simp at heq; exact absurd (Or.inr heq.1) hx
                · rfl
              rw [hs] at hrest
              exact key x u hrest c hc

theorem endsNW_of_numChars {w : Text} (hne : w ≠ []) (h : ∀ c ∈ w, numChar c = true) : EndsNW w := by
  cases hl : w.getLast? with
  | none => exact absurd (List.getLast?_eq_none_iff.1 hl) hne
  | some c => exact ⟨c, hl, numChar_notWs c (h c (List.mem_of_getLast? hl))⟩

/-! ### `litText` is the AST printer's value printer on the denoted value -/

mutual
theorem okValue_valueOf (ind : Text) : ∀ (l : Lit), litOK l = true → okValue ind (valueOf l)
  | .null, _ => by simp [valueOf, okValue]
  | .int v _, h => by simpa [valueOf, okValue, litOK] using h
  | .float v _, h => by simpa [valueOf, okValue, litOK] using h
  | .str x, _ => by simp [valueOf, okValue]
  | .bool b, _ => by simp [valueOf, okValue]
  | .enum v, h => by simp only [litOK, Bool.and_eq_true, nameOK] at h; simpa [valueOf, okValue] using h.1
  | .list l, h => by simp only [litOK] at h; simpa [valueOf, okValue] using okValues_valuesOf ind l h
  | .obj fs, h => by simp only [litOK] at h; simpa [valueOf, okValue] using okFields_fieldsOf ind fs h
theorem okValues_valuesOf (ind : Text) : ∀ (l : List Lit), litsOK l = true → okValues ind (valuesOf l)
  | [], _ => by simp [valuesOf, okValues]
  | v :: vs, h => by
    simp only [litsOK, Bool.and_eq_true] at h
    simp only [valuesOf, okValues]; exact ⟨okValue_valueOf ind v h.1, okValues_valuesOf ind vs h.2⟩
theorem okFields_fieldsOf (ind : Text) : ∀ (fs : List (String × Lit)), fieldsOK fs = true → okFields ind (fieldsOf fs)
  | [], _ => by simp [fieldsOf, okFields]
  | (k, v) :: fs, h => by
    simp only [fieldsOK, Bool.and_eq_true, nameOK] at h
    simp only [fieldsOf, okFields, okField, nameOf]
    exact ⟨⟨h.1.1, okValue_valueOf ind v h.1.2⟩, okFields_fieldsOf ind fs h.2⟩
end

mutual
theorem litText_eq (c : Print.Cfg) : ∀ (l : Lit), litOK l = true → SdlPrintT.litText l = Print.printValue c (valueOf l)
  | .null, _ => by simp [SdlPrintT.litText, valueOf, Print.printValue]; decide
  | .int v _, _ => rfl
  | .float v _, _ => rfl
  | .str x, _ => rfl
  | .bool b, _ => by cases b <;> simp [SdlPrintT.litText, valueOf, Print.printValue] <;> decide
  | .enum v, _ => rfl
  | .list l, h => by
    simp only [litOK] at h
    have hne := printValues_ne' c (valuesOf l) (okValues_valuesOf c.indent l h)
    simp only [SdlPrintT.litText, valueOf, Print.printValue, join_eq_joinSep _ _ hne, joinSep_eq, litTexts_eq c l h]
  | .obj fs, h => by
    simp only [litOK] at h
    have hne := printObjectFields_ne c (fieldsOf fs)
    simp only [SdlPrintT.litText, valueOf, Print.printValue, join_eq_joinSep _ _ hne, joinSep_eq, fieldTexts_eq c fs h]
theorem litTexts_eq (c : Print.Cfg) : ∀ (l : List Lit), litsOK l = true → SdlPrintT.litTexts l = Print.printValues c (valuesOf l)
  | [], _ => rfl
  | v :: vs, h => by
    simp only [litsOK, Bool.and_eq_true] at h
    simp [SdlPrintT.litTexts, valuesOf, Print.printValues, litText_eq c v h.1, litTexts_eq c vs h.2]
theorem fieldTexts_eq (c : Print.Cfg) : ∀ (fs : List (String × Lit)), fieldsOK fs = true →
    SdlPrintT.fieldTexts fs = Print.printObjectFields c (fieldsOf fs)
  | [], _ => rfl
  | (k, v) :: fs, h => by
    simp only [fieldsOK, Bool.and_eq_true] at h
    simp [SdlPrintT.fieldTexts, fieldsOf, Print.printObjectFields, Print.printObjectField, nameOf, litText_eq c v h.1.2,
      fieldTexts_eq c fs h.2]
end

theorem lay_litText (l : Lit) (h : litOK l = true) : Lay (SdlPrintT.litText l) (valueV (valueOf l)).yield := by
  rw [litText_eq (Print.mkCfg) l h]
  exact lay_value _ _ (okValue_valueOf _ l h)

theorem endsNW_litText (l : Lit) (h : litOK l = true) : EndsNW (SdlPrintT.litText l) := by
  cases l with
  | null => exact endsNW_name (w := T "null") (by decide)
  | int v f =>
    simp only [litOK] at h
    refine endsNW_of_numChars ?_ (integerPart_numChar h)
    intro e
    have e' : T v = [] := by simpa [SdlPrintT.litText] using e
    rw [e'] at h
    simp [Spec.Lexical.isIntValue, Spec.Lexical.isIntegerPart, Spec.Lexical.stripNegativeSign] at h
  | float v f =>
    simp only [litOK] at h
    exact endsNW_of_numChars (floatLexeme_of_isFloatValue _ h).1 (float_numChar h)
  | str x => exact endsNW_snoc (34 :: jsonEscape (T x)) 34 (by decide)
  | bool b => cases b <;> simp only [SdlPrintT.litText] <;> first | exact endsNW_name (w := T "true") (by decide) | exact endsNW_name (w := T "false") (by decide)
  | «enum» v => simp only [litOK, Bool.and_eq_true, nameOK] at h; exact endsNW_name h.1
  | list l => exact endsNW_snoc (91 :: SdlPrintT.joinSep [44, 32] (SdlPrintT.litTexts l)) 93 (by decide)
  | obj fs => exact endsNW_snoc (123 :: SdlPrintT.joinSep [44, 32] (SdlPrintT.fieldTexts fs)) 125 (by decide)

/-- LAYER (iii): the default value part of an argument that satisfies `argOKT` -/
theorem defaultPart_of_ok (s : SchemaD) (w : Nat) (a : ArgD) (h : argOKT s w a = true) : DefaultPart s a := by
  simp only [argOKT, Bool.and_eq_true] at h
  obtain ⟨_, hd⟩ := h
  by_cases hh : a.hasDefault = true
  · simp only [hh, ↓reduceIte] at hd
    cases hv : valueLit s valueFuel a.default a.type with
    | none => rw [hv] at hd; cases hd
    | some l =>
      rw [hv] at hd
      have et : defaultTxt s a = 32 :: 61 :: 32 :: SdlPrintT.litText l := by
        simp [defaultTxt, hh, SdlPrintT.valueText, hv]
      have ed : dfltOf s a = some (valueOf l) := by simp [dfltOf, argToDef, hh, hv]
      rw [DefaultPart, et, ed]
      refine ⟨?_, Or.inr (endsNW_append (a := [32, 61, 32]) (endsNW_litText l hd))⟩
      have := lay_space_cons (lay_equals (lay_space_cons (lay_litText l hd)))
      simpa [defaultV, Item.yieldAll, Item.yield] using this
  · exact defaultPart_none s a (by simpa using hh)

end PyGql.SdlText

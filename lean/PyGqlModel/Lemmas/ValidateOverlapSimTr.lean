/-
  `OvSim` for `Tr` (order of selections, order of arguments, injective renaming of fragments): the document `T.doc d`
  simulates `d` for the clause of 5.3.2, provided the argument names of every field of `d` are pairwise different
  (the clause of UniqueArgumentNames - without it `_same_arguments` depends on the order of the arguments).
-/
import PyGqlModel.Lemmas.ValidateOverlapSimTable
import PyGqlModel.Lemmas.ValidateCtxTr
import PyGqlModel.Lemmas.TypedEqView
namespace PyGql.Validate
open PyGql PyGql.Validate.Spec

namespace Tr
variable (T : Tr)

/-- selection lists under `Tr` -/
def sig (sels : List Sel) : List Sel := T.sels (T.selList sels)

/-- collected fields under `Tr` -/
def ent (e : FEntry) : FEntry := { e with args := T.args e.args, sub := T.sig e.sub }

theorem mem_sig {x : Sel} {sels : List Sel} : x ∈ T.sig sels ↔ ∃ y ∈ sels, x = T.sel y := by
  unfold sig
  rw [(T.sels_perm _).mem_iff, T.selList_eq_map, List.mem_map]
  constructor
  · rintro ⟨y, hy, rfl⟩; exact ⟨y, hy, rfl⟩
  · rintro ⟨y, hy, rfl⟩; exact ⟨y, hy, rfl⟩

theorem collD_fwd (s : SchemaD) {p : Option String} {sels : List Sel} {rn : String} {e : FEntry}
    (hc : CollD s p sels rn e) : CollD s p (T.sig sels) rn (T.ent e) := by
  induction hc with
  | @field parent sels alias name args dirs hasSub ssid sub hm =>
    exact CollD.field (dirs := dirs.map T.dir) (T.mem_sig.mpr ⟨_, hm, rfl⟩)
  | @inline parent sels on dirs id sub rn e hm _ ih =>
    exact CollD.inline (dirs := dirs.map T.dir) (id := id) (T.mem_sig.mpr ⟨_, hm, rfl⟩) ih

theorem collD_bwd (s : SchemaD) {p : Option String} {sels' : List Sel} {rn : String} {e' : FEntry}
    (hc : CollD s p sels' rn e') : ∀ sels, sels' = T.sig sels → ∃ e, e' = T.ent e ∧ CollD s p sels rn e := by
  induction hc with
  | @field parent sels' alias name args dirs hasSub ssid sub hm =>
    rintro sels rfl
    obtain ⟨y, hy, e⟩ := T.mem_sig.mp hm
    cases y with
    | field al n a ds hs i sb =>
      simp only [Tr.sel, Sel.field.injEq] at e
      obtain ⟨rfl, rfl, rfl, rfl, rfl, rfl, rfl⟩ := e
      exact ⟨_, rfl, CollD.field hy⟩
    | spread n ds => simp [Tr.sel] at e
    | inline on ds i sb => simp [Tr.sel] at e
  | @inline parent sels' on dirs id sub rn e hm _ ih =>
    rintro sels rfl
    obtain ⟨y, hy, e⟩ := T.mem_sig.mp hm
    cases y with
    | field al n a ds hs i sb => simp [Tr.sel] at e
    | spread n ds => simp [Tr.sel] at e
    | inline on0 ds i sb =>
      simp only [Tr.sel, Sel.inline.injEq] at e
      obtain ⟨rfl, rfl, rfl, rfl⟩ := e
      obtain ⟨e0, he0, hc0⟩ := ih sb rfl
      exact ⟨e0, he0, CollD.inline hy hc0⟩

theorem spreadD_fwd {sels : List Sel} {g : String} (h : SpreadD sels g) : SpreadD (T.sig sels) (T.frag g) := by
  induction h with
  | @spread sels name dirs hm => exact SpreadD.spread (dirs := dirs.map T.dir) (T.mem_sig.mpr ⟨_, hm, rfl⟩)
  | @inline sels on dirs id sub name hm _ ih =>
    exact SpreadD.inline (dirs := dirs.map T.dir) (id := id) (on := on) (T.mem_sig.mpr ⟨_, hm, rfl⟩) ih

theorem spreadD_bwd {sels' : List Sel} {g' : String} (h : SpreadD sels' g') :
    ∀ sels, sels' = T.sig sels → ∃ g, g' = T.frag g ∧ SpreadD sels g := by
  induction h with
  | @spread sels' name dirs hm =>
    rintro sels rfl
    obtain ⟨y, hy, e⟩ := T.mem_sig.mp hm
    cases y with
    | field al n a ds hs i sb => simp [Tr.sel] at e
    | spread n ds =>
      simp only [Tr.sel, Sel.spread.injEq] at e
      obtain ⟨rfl, rfl⟩ := e
      exact ⟨n, rfl, SpreadD.spread hy⟩
    | inline on ds i sb => simp [Tr.sel] at e
  | @inline sels' on dirs id sub name hm _ ih =>
    rintro sels rfl
    obtain ⟨y, hy, e⟩ := T.mem_sig.mp hm
    cases y with
    | field al n a ds hs i sb => simp [Tr.sel] at e
    | spread n ds => simp [Tr.sel] at e
    | inline on0 ds i sb =>
      simp only [Tr.sel, Sel.inline.injEq] at e
      obtain ⟨rfl, rfl, rfl, rfl⟩ := e
      obtain ⟨g, hg, h0⟩ := ih sb rfl
      exact ⟨g, hg, SpreadD.inline hy h0⟩

theorem selSet_fwd {d : Doc} {i : Nat} {sels : List Sel} (h : SelSet d i sels) : SelSet (T.doc d) i (T.sig sels) := by
  unfold SelSet at h ⊢
  exact (nodes_tr T d).mem_iff.mpr (List.mem_map.mpr ⟨_, h, rfl⟩)

theorem selSet_bwd {d : Doc} {i : Nat} {sels' : List Sel} (h : SelSet (T.doc d) i sels') :
    ∃ sels, SelSet d i sels ∧ sels' = T.sig sels := by
  unfold SelSet at h
  obtain ⟨m, hm, e⟩ := List.mem_map.mp ((nodes_tr T d).mem_iff.mp h)
  cases m <;> simp [Tr.node] at e
  rename_i j sels
  obtain ⟨rfl, rfl⟩ := e
  exact ⟨sels, hm, rfl⟩

theorem view_enter (s : SchemaD) (n : Node) (v : View) : View.enter s (T.node n) v = View.enter s n v := by
  cases n with
  | inline on dirs => cases on <;> rfl
  | _ => rfl

theorem mem_typed (s : SchemaD) (d : Doc) (q : Node × View) :
    q ∈ typedNodes s (T.doc d) ↔ ∃ q0 ∈ typedNodes s d, q = (T.node q0.1, q0.2) := by
  rw [typedNodes_eq_viewNodes, typedNodes_eq_viewNodes]
  unfold viewNodes
  rw [(gnDoc_tr T (View.enter s) (T.view_enter s) d {}).mem_iff, List.mem_map]
  constructor
  · rintro ⟨q0, h, rfl⟩; exact ⟨q0, h, rfl⟩
  · rintro ⟨q0, h, rfl⟩; exact ⟨q0, h, rfl⟩

theorem walkP (s : SchemaD) (d : Doc) (i : Nat) (p : Option String) : WalkP s d i p ↔ WalkP s (T.doc d) i p := by
  constructor
  · rintro ⟨sels, v, hm, rfl⟩
    exact ⟨T.sig sels, v, (T.mem_typed s d _).mpr ⟨_, hm, rfl⟩, rfl⟩
  · rintro ⟨sels', v, hm, rfl⟩
    obtain ⟨⟨n, v0⟩, h0, e⟩ := (T.mem_typed s d _).mp hm
    simp only [Prod.mk.injEq] at e
    obtain ⟨e1, rfl⟩ := e
    cases n <;> simp [Tr.node] at e1
    rename_i j sels
    obtain ⟨rfl, rfl⟩ := e1
    exact ⟨sels, v, h0, rfl⟩

theorem fragDefs_doc (d : Doc) : fragDefs (T.doc d) = (fragDefs d).map (mapFragDef T.frag T.sig) := by
  simp only [fragDefs, Tr.doc]
  induction d.defs with
  | nil => rfl
  | cons x xs ih => cases x <;> simp_all [Tr.defn, mapFragDef, sig]

/-- **`T.doc d` simulates `d`** (injective renaming of fragments, pairwise different argument names) -/
def ovSim (hinj : ∀ a b, T.frag a = T.frag b → a = b) (s : SchemaD) (d : Doc) (hu : Spec.uniqueArgumentNames d) :
    OvSim s d (T.doc d) where
  σ := T.sig
  φ := T.frag
  ρ := id
  ε := T.ent
  Good := fun e => (e.args.map (·.name)).Nodup
  ρ_inj := fun _ _ h => h
  φ_inj := hinj
  sets_fwd := fun _ _ h => T.selSet_fwd h
  sets_bwd := fun _ _ h => T.selSet_bwd h
  walk := T.walkP s d
  frags_fwd := fragTable_image_fwd (T.fragDefs_doc d) hinj
  frags_bwd := fragTable_image_bwd (T.fragDefs_doc d) hinj
  collD_fwd := fun _ _ _ _ _ _ h => T.collD_fwd s h
  collD_bwd := fun _ _ _ _ rn' _ h => by
    obtain ⟨e, he, hc⟩ := T.collD_bwd s h _ rfl
    exact ⟨rn', e, rfl, he, hc⟩
  spreadD_fwd := fun _ _ _ _ h => T.spreadD_fwd h
  spreadD_bwd := fun _ _ _ _ h => T.spreadD_bwd h _ rfl
  good_of := fun _ he => entD_args_nodup hu he
  ε_parent := fun _ => rfl
  ε_name := fun _ => rfl
  ε_hasSub := fun _ => rfl
  ε_ssid := fun _ => rfl
  ε_fdef := fun _ => rfl
  ε_sub := fun _ => rfl
  ε_args := fun e1 e2 g1 g2 => sameArguments_perm (T.args_perm e1.args) (T.args_perm e2.args) g1 g2

/-- selection-set identities are untouched by `Tr` -/
theorem wfIds (d : Doc) : WfIds (T.doc d) ↔ WfIds d := by
  unfold WfIds selSetIds idsOf
  have h : ((nodes (T.doc d)).filterMap ssidOf?).Perm ((nodes d).filterMap ssidOf?) := by
    refine ((nodes_tr T d).filterMap _).trans ?_
    rw [List.filterMap_map]
    have : (ssidOf? ∘ T.node) = ssidOf? := by
      funext n; cases n <;> rfl
    rw [this]
  exact h.nodup_iff

theorem fragNames_doc (d : Doc) : fragNames (T.doc d) = (fragNames d).map T.frag := by
  simp only [fragNames, Tr.doc]
  induction d.defs with
  | nil => rfl
  | cons x xs ih => cases x <;> simp_all [Tr.defn]

end Tr
end PyGql.Validate

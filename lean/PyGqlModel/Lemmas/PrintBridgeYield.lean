/-
  THE BRIDGE, part 2 (matcher): every class of the canonical yield of a matched view is the class of a matched token.
-/
import PyGqlModel.Lemmas.PrintBridgeTok
import PyGqlModel.Lemmas.ParseCore
namespace PyGql.PrintTokens
open PyGql PyGql.Ast PyGql.Parse PyGql.Spec

mutual
theorem check_yield_mem (fl : Flags) : ∀ (i : Item) (l l' : Tok) (ts rest : List Tok),
    i.check fl l ts = some (l', rest) → ∀ c ∈ i.yield, ∃ t ∈ ts, cls t = c
  | .tok k v, l, l', ts, rest, h => by
    rw [check_tok] at h
    obtain ⟨t, rfl, hc, _⟩ := h
    intro c hc'
    simp only [Item.yield, List.mem_singleton] at hc'
    subst hc'
    exact ⟨t, by simp, hc⟩
  | .optTok k v, _, _, _, _, _ => by intro c hc; simp [Item.yield] at hc
  | .nla k, _, _, _, _, _ => by intro c hc; simp [Item.yield] at hc
  | .node loc is, l, l', ts, rest, h => by
    rw [check_node] at h
    obtain ⟨f, tl, rfl, hall, _⟩ := h
    simpa [Item.yield] using checkAll_yield_mem fl is l l' (f :: tl) rest hall
theorem checkAll_yield_mem (fl : Flags) : ∀ (is : List Item) (l l' : Tok) (ts rest : List Tok),
    Item.checkAll fl is l ts = some (l', rest) → ∀ c ∈ Item.yieldAll is, ∃ t ∈ ts, cls t = c
  | [], _, _, _, _, _ => by intro c hc; simp [Item.yieldAll] at hc
  | i :: is, l, l', ts, rest, h => by
    rw [checkAll_cons] at h
    obtain ⟨l1, ts1, h1, h2⟩ := h
    obtain ⟨pre, hpre, _, _⟩ := check_spans fl i l l1 ts ts1 h1
    intro c hc
    simp only [Item.yieldAll, List.mem_append] at hc
    rcases hc with hc | hc
    · exact check_yield_mem fl i l l1 ts ts1 h1 c hc
    · obtain ⟨t, ht, hct⟩ := checkAll_yield_mem fl is l1 l' ts1 rest h2 c hc
      exact ⟨t, by rw [hpre]; simp [ht], hct⟩
end

/-- every leaf of a matched view is the class of a token of the list -/
theorem yield_classOK (fl : Flags) (items : List Item) (toks : List Tok) (hm : matchesAll fl items toks = true)
    (hok : ∀ t ∈ toks, ClassOK (cls t)) : ∀ c ∈ Item.yieldAll items, ClassOK c := by
  unfold matchesAll at hm
  split at hm
  · rename_i l' h
    intro c hc
    obtain ⟨t, ht, rfl⟩ := checkAll_yield_mem fl items default l' toks [] h c hc
    exact hok t ht
  · cases hm

end PyGql.PrintTokens

/-
  `OverlappingFieldsCanBeMergedChecker`, part 7: the rule run alone over a document satisfying the clause adds no
  error (typed relational walk: every selection set is entered with the parent type of its static context).
-/
import PyGqlModel.Lemmas.ValidateOverlapWalk
import PyGqlModel.Lemmas.ValidateCtx
namespace PyGql.Validate
open PyGql PyGql.Validate.Spec

theorem typedNodes_fst (s : SchemaD) (d : Doc) : (typedNodes s d).map (·.1) = d.defs.flatMap defNodes := by
  unfold typedNodes
  induction d.defs with
  | nil => rfl
  | cons x xs ih => rw [List.flatMap_cons, List.flatMap_cons, List.map_append, ih, tnDef_fst]

theorem selSet_of_typed {s : SchemaD} {d : Doc} {i : Nat} {sels : List Sel} {v : View}
    (h : (Node.selectionSet i sels, v) ∈ typedNodes s d) : SelSet d i sels := by
  unfold SelSet nodes
  apply List.mem_cons_of_mem
  rw [← typedNodes_fst s d]
  exact List.mem_map.mpr ⟨_, h, rfl⟩

private theorem enter_ov (s : SchemaD) (fx : Fixes) (n : Node) (st : St) :
    enter ⟨s, fx, [.overlappingFieldsCanBeMerged]⟩ n st =
      ({ ti := tiEnter s n st.ti, rs := (enterRule s fx .overlappingFieldsCanBeMerged n (tiEnter s n st.ti) st.rs).1 },
       (enterRule s fx .overlappingFieldsCanBeMerged n (tiEnter s n st.ti) st.rs).2) := by
  simp only [enter, enterRules]
  generalize enterRule s fx .overlappingFieldsCanBeMerged n (tiEnter s n st.ti) st.rs = p
  obtain ⟨a, b⟩ := p
  cases b <;> simp

private theorem leave_ov (s : SchemaD) (fx : Fixes) (n : Node) (st : St) :
    leave ⟨s, fx, [.overlappingFieldsCanBeMerged]⟩ n st = { ti := tiLeave n st.ti, rs := st.rs } := by
  simp only [leave, List.reverse_cons, List.reverse_nil, List.nil_append, List.foldl_cons, List.foldl_nil]
  congr 1

/-- the rule never raises SkipNode -/
theorem ov_noskip (s : SchemaD) (fx : Fixes) (n : Node) (ti : TI) (rs : RS) :
    (enterRule s fx .overlappingFieldsCanBeMerged n ti rs).2 = false := by
  cases n with
  | selectionSet i sels => simp only [enterRule]
  | _ => rfl

/-- at a selection set it runs the search -/
theorem ov_enter_sel (s : SchemaD) (fx : Fixes) (i : Nat) (sels : List Sel) (ti : TI) (rs : RS) :
    (enterRule s fx .overlappingFieldsCanBeMerged (.selectionSet i sels) ti rs).1.octx =
      (withinSelectionSet s fx ti.parentType i sels rs.octx).2 ∧
    (enterRule s fx .overlappingFieldsCanBeMerged (.selectionSet i sels) ti rs).1.errs.length =
      rs.errs.length + (withinSelectionSet s fx ti.parentType i sels rs.octx).1 := by
  simp only [enterRule]
  constructor
  · split <;> rfl
  · split <;> simp [RS.errN, Nat.add_comm]

/-- elsewhere below the document it does nothing -/
theorem ov_enter_other (s : SchemaD) (fx : Fixes) (n : Node) (ti : TI) (rs : RS) (hn : n.isDoc = false)
    (hs : n.isSelSet = false) : (enterRule s fx .overlappingFieldsCanBeMerged n ti rs).1 = rs := by
  cases n with
  | document d => cases hn
  | selectionSet i sels => cases hs
  | _ => rfl

/-- what a visit keeps, when the clause holds: balanced stacks, a sane search context, no error -/
def OW (s : SchemaD) (d : Doc) (l : List (Node × View)) (st st' : St) : Prop :=
  st'.ti = st.ti ∧
  ((∀ p ∈ l, p ∈ typedNodes s d) → CI s d st.rs.octx → E st = 0 → CI s d st'.rs.octx ∧ E st' = 0)

theorem ov_alg (s : SchemaD) (fx : Fixes) (d : Doc) (h7 : fx.v7 = true) (H : Spec.overlappingFieldsCanBeMerged s d) :
    TAlg ⟨s, fx, [.overlappingFieldsCanBeMerged]⟩ (OW s d) where
  ti h := h.1
  nil st := ⟨rfl, fun _ hc he => ⟨hc, he⟩⟩
  append h1 h2 := ⟨h2.1.trans h1.1, fun hm hc he => by
    obtain ⟨c2, e2⟩ := h1.2 (fun p hp => hm p (List.mem_append_left _ hp)) hc he
    exact h2.2 (fun p hp => hm p (List.mem_append_right _ hp)) c2 e2⟩
  node n body l st hn hd hb := by
    have hsk : (enter ⟨s, fx, [.overlappingFieldsCanBeMerged]⟩ n st).2 = false := by rw [enter_ov]; exact ov_noskip ..
    rw [visitNode_false hsk, leave_ov]
    have hti : (enter ⟨s, fx, [.overlappingFieldsCanBeMerged]⟩ n st).1.ti = tiEnter s n st.ti := by rw [enter_ov]
    obtain ⟨b1, b2⟩ := hb _ hti
    refine ⟨?_, fun hm hc he => ?_⟩
    · show tiLeave n (body _).ti = st.ti
      rw [b1, hti, tiLeave_tiEnter _ _ _ hd]
    · have hmem : (n, View.enter s n st.ti.view) ∈ typedNodes s d := hm _ (List.mem_cons_self ..)
      have hst1 : CI s d (enter ⟨s, fx, [.overlappingFieldsCanBeMerged]⟩ n st).1.rs.octx ∧
          E (enter ⟨s, fx, [.overlappingFieldsCanBeMerged]⟩ n st).1 = 0 := by
        rw [enter_ov]
        simp only [E] at he ⊢
        by_cases hs : n.isSelSet = true
        · cases n with
          | selectionSet i sels =>
            obtain ⟨k1, k2⟩ := ov_enter_sel s fx i sels (tiEnter s (.selectionSet i sels) st.ti) st.rs
            have hadm : Adm s d i (tiEnter s (.selectionSet i sels) st.ti).parentType := by
              have := Adm.walk hmem
              rwa [← view_enter] at this
            obtain ⟨w1, w2⟩ := within_sound s fx d h7 _ i sels st.rs.octx hc (selSet_of_typed hmem) hadm
            rw [k1, k2, he]
            refine ⟨w1, ?_⟩
            by_cases h0 : 0 < (withinSelectionSet s fx (tiEnter s (.selectionSet i sels) st.ti).parentType i sels
                st.rs.octx).1
            · obtain ⟨p', rn, e1, e2, z1, z2, z3, z4⟩ := w2 h0
              exact absurd z4 (H i sels (selSet_of_typed hmem) p' z1 rn e1 e2 z2 z3)
            · omega
          | _ => cases hs
        · rw [ov_enter_other s fx n _ _ hn (by simpa using hs)]
          exact ⟨hc, he⟩
      exact b2 (fun p hp => hm p (List.mem_cons_of_mem _ hp)) hst1.1 hst1.2

/-- **the clause implies silence**: on a document in which no selection set contains two conflicting fields the
    rule, run alone, adds no error -/
theorem ov_document (s : SchemaD) (fx : Fixes) (d : Doc) (h7 : fx.v7 = true) (H : Spec.overlappingFieldsCanBeMerged s d) :
    E (visitDocument ⟨s, fx, [.overlappingFieldsCanBeMerged]⟩ d {}) = 0 := by
  have he : enter ⟨s, fx, [.overlappingFieldsCanBeMerged]⟩ (.document d) {} =
      (({ ti := {}, rs := { ({} : RS) with octx := { ({} : OCtx) with frags := fragTable d } } } : St), false) := by
    rw [enter_ov]; simp [enterRule, tiEnter, fragTable]
  rw [visitDocument]
  unfold visitNode
  rw [he]
  simp only [Bool.false_eq_true, ↓reduceIte, leave_ov]
  have hw := visitDefsR (ov_alg s fx d h7 H) d.defs
    ({ ti := {}, rs := { ({} : RS) with octx := { ({} : OCtx) with frags := fragTable d } } } : St) rfl
  exact (hw.2 (fun p hp => hp) ⟨rfl, fun _ h => nomatch h⟩ rfl).2

end PyGql.Validate

/-
  C14 — member-level provenance through clone-based transforms: the fields / arguments / input fields of every type of the
  result are, IN ORDER, copies of a sub-list of the source type's members with the same attributes (name converted by the
  camel-case renaming), and nothing else.
-/
import PyGqlModel.Lemmas.HeapOrigin

set_option linter.unusedSimpArgs false
set_option linter.unusedVariables false
set_option linter.unnecessarySimpa false

namespace PyGql.Heap.Own
open PyGql.Heap

/-- `bs` is, in order, the image of a sub-list of `as` under `R` (elements of `as` may be skipped; nothing is added) -/
inductive Sub2 {α β : Type} (R : α → β → Prop) : List α → List β → Prop
  | nil : Sub2 R [] []
  | skip {a : α} {as : List α} {bs : List β} : Sub2 R as bs → Sub2 R (a :: as) bs
  | cons {a : α} {b : β} {as : List α} {bs : List β} : R a b → Sub2 R as bs → Sub2 R (a :: as) (b :: bs)

theorem Sub2.imp {α β : Type} {R S : α → β → Prop} (hrs : ∀ a b, R a b → S a b) {l1 : List α} {l2 : List β} (h : Sub2 R l1 l2) : Sub2 S l1 l2 := by
  induction h with
  | nil => exact Sub2.nil
  | skip _ ih => exact Sub2.skip ih
  | cons hd _ ih => exact Sub2.cons (hrs _ _ hd) ih

theorem Sub2.nil_right {α β : Type} {R : α → β → Prop} : ∀ (l : List α), Sub2 R l []
  | [] => Sub2.nil
  | _ :: l => Sub2.skip (Sub2.nil_right l)

/-- taking a sub-list of the image keeps the relation -/
theorem Sub2.sublist_right {α β : Type} {R : α → β → Prop} {l1 : List α} {l2 l2' : List β} (h : Sub2 R l1 l2) (hs : List.Sublist l2' l2) :
    Sub2 R l1 l2' := by
  induction h generalizing l2' with
  | nil => cases hs; exact Sub2.nil
  | skip _ ih => exact Sub2.skip (ih hs)
  | @cons a b as bs hd _ ih =>
    cases hs with
    | cons _ hs' => exact Sub2.skip (ih hs')
    | cons_cons _ hs' => exact Sub2.cons hd (ih hs')

/-- element-wise copies of the whole list are in particular a `Sub2` -/
theorem Sub2.of_all {α β : Type} {R : α → β → Prop} : ∀ {l1 : List α} {l2 : List β}, l1.length = l2.length →
    (∀ i (h1 : i < l1.length) (h2 : i < l2.length), R l1[i] l2[i]) → Sub2 R l1 l2
  | [], [], _, _ => Sub2.nil
  | [], _ :: _, h, _ => by simp at h
  | _ :: _, [], h, _ => by simp at h
  | a :: as, b :: bs, h, hr =>
    Sub2.cons (hr 0 (by simp) (by simp)) (Sub2.of_all (by simpa using h) (fun i h1 h2 => hr (i + 1) (by simp; omega) (by simp; omega)))

/-! ### attribute relations (name converted by `ρ`) -/

def AAttr (ρ : String → String) (g g' : ArgO) : Prop :=
  g'.name = ρ g.name ∧ g'.py = g.py ∧ g'.dflt = g.dflt ∧ g'.desc = g.desc ∧ sameNames g.ty g'.ty

def FAttr (ρ : String → String) (f f' : FieldO) : Prop :=
  f'.name = ρ f.name ∧ f'.desc = f.desc ∧ f'.depr = f.depr ∧ f'.res = f.res ∧ f'.sub = f.sub ∧ f'.py = f.py ∧ sameNames f.ty f'.ty

/-- argument `c` (heap `h`) is a copy of argument `a` of the source (heap `h0`) -/
def ARel (ρ : String → String) (h0 h : Heap) (a c : Addr) : Prop :=
  ∃ g g', h0.readArg a = some g ∧ h.readArg c = some g' ∧ AAttr ρ g g'

/-- field `c` is a copy of field `a` of the source; its arguments are, in order, copies of a sub-list of the source field's -/
def FRel (ρ : String → String) (h0 h : Heap) (a c : Addr) : Prop :=
  ∃ f f', h0.readField a = some f ∧ h.readField c = some f' ∧ FAttr ρ f f' ∧ Sub2 (ARel ρ h0 h) f.args f'.args

/-- the members of a type, by kind -/
def MRel (ρ : String → String) (h0 h : Heap) (k : Kind) (src res : List Addr) : Prop :=
  match k with
  | .input => Sub2 (ARel ρ h0 h) src res
  | .object | .interface => Sub2 (FRel ρ h0 h) src res
  | _ => True

/-- the type object at `a'` is a copy of the source type `t0`: attributes, and members by kind -/
def TRel (ρ : String → String) (h0 h : Heap) (t0 : TypeO) (a' : Addr) : Prop :=
  ∃ t', h.readType a' = some t' ∧ TAttr t0 t' ∧ MRel ρ h0 h t0.kind t0.fields t'.fields

/-! ### kept by steps -/

theorem ARel.keep {ρ : String → String} {h0 h h' : Heap} (st : StepImp chkT h h') {a c : Addr} (r : ARel ρ h0 h a c) : ARel ρ h0 h' a c := by
  obtain ⟨g, g', h1, h2, k⟩ := r
  obtain ⟨o', hr', hd, _, _⟩ := st c _ (readArg_read h2)
  cases o' with
  | arg g'' =>
    simp only [SameHead] at hd
    obtain ⟨k1, k2, k3, k4, k5⟩ := k
    exact ⟨g, g'', h1, readArg_of_read hr', hd.1.trans k1, hd.2.1.trans k2, hd.2.2.1.trans k3, hd.2.2.2.1.trans k4, sameNames_trans k5 hd.2.2.2.2⟩
  | type _ => simp [SameHead] at hd
  | field _ => simp [SameHead] at hd
  | dir _ => simp [SameHead] at hd

theorem FRel.keep {ρ : String → String} {h0 h h' : Heap} (st : StepImp chkT h h') {a c : Addr} (r : FRel ρ h0 h a c) : FRel ρ h0 h' a c := by
  obtain ⟨f, f', h1, h2, k, hargs⟩ := r
  obtain ⟨o', hr', hd, hk, _⟩ := st c _ (readField_read h2)
  cases o' with
  | field f'' =>
    simp only [SameHead] at hd
    obtain ⟨k1, k2, k3, k4, k5, k6, k7⟩ := k
    refine ⟨f, f'', h1, readField_of_read hr', ⟨hd.1.trans k1, hd.2.1.trans k2, hd.2.2.1.trans k3, hd.2.2.2.1.trans k4, hd.2.2.2.2.1.trans k5,
      hd.2.2.2.2.2.1.trans k6, sameNames_trans k7 hd.2.2.2.2.2.2⟩, ?_⟩
    exact (hargs.imp fun _ _ r => r.keep st).sublist_right (by simpa [kids] using hk)
  | type _ => simp [SameHead] at hd
  | arg _ => simp [SameHead] at hd
  | dir _ => simp [SameHead] at hd

theorem MRel.keep {ρ : String → String} {h0 h h' : Heap} (st : StepImp chkT h h') {k : Kind} {src res : List Addr}
    (r : MRel ρ h0 h k src res) : MRel ρ h0 h' k src res := by
  cases k <;> simp only [MRel] at r ⊢
  · exact r.imp fun _ _ x => x.keep st
  · exact r.imp fun _ _ x => x.keep st
  · exact r.imp fun _ _ x => x.keep st

theorem MRel.sublist {ρ : String → String} {h0 h : Heap} {k : Kind} {src res res' : List Addr} (r : MRel ρ h0 h k src res)
    (hs : List.Sublist res' res) : MRel ρ h0 h k src res' := by
  cases k <;> simp only [MRel] at r ⊢
  · exact r.sublist_right hs
  · exact r.sublist_right hs
  · exact r.sublist_right hs

theorem TRel.keep {ρ : String → String} {h0 h h' : Heap} (st : StepImp chkT h h') {t0 : TypeO} {a' : Addr} (r : TRel ρ h0 h t0 a') :
    TRel ρ h0 h' t0 a' := by
  obtain ⟨t', ht', hat, hm⟩ := r
  obtain ⟨o', hr', hd, hk, _⟩ := st a' _ (readType_read ht')
  cases o' with
  | type t'' => exact ⟨t'', readType_of_read hr', hat.trans hd, (hm.keep st).sublist (by simpa [kids] using hk)⟩
  | field _ => simp [SameHead] at hd
  | arg _ => simp [SameHead] at hd
  | dir _ => simp [SameHead] at hd

/-- `map_and_filter` over related members: the result is, in order, the image of a sub-list -/
theorem mapFilter_sub2 {Rin Rout : Heap → Addr → Addr → Prop} {f : Heap → Addr → Heap × Option Addr}
    (keepIn : ∀ h h' x c, StepImp chkT h h' → Rin h x c → Rin h' x c)
    (keepOut : ∀ h h' x c, StepImp chkT h h' → Rout h x c → Rout h' x c)
    (hstep : ∀ h a, StepImp chkT h (f h a).1)
    (hest : ∀ h x a, Rin h x a → ∀ a', (f h a).2 = some a' → Rout (f h a).1 x a') :
    ∀ (src as : List Addr) (h : Heap), Sub2 (Rin h) src as → Sub2 (Rout (mapFilter f h as).1) src (mapFilter f h as).2 := by
  have hsteps : ∀ (as : List Addr) (h : Heap), StepImp chkT h (mapFilter f h as).1 := by
    intro as
    induction as with
    | nil => intro h; exact StepImp.refl chkT h
    | cons a as ih => intro h; simp only [mapFilter]; exact (hstep h a).trans (ih _)
  intro src
  induction src with
  | nil =>
    intro as h hs
    cases hs
    simp only [mapFilter]; exact Sub2.nil
  | cons x xs ih =>
    intro as h hs
    cases hs with
    | skip hrest => exact Sub2.skip (ih _ h hrest)
    | @cons _ a _ as' hxa hrest =>
      simp only [mapFilter]
      have hrest' : Sub2 (Rin (f h a).1) xs as' := hrest.imp fun p q r => keepIn _ _ p q (hstep h a) r
      have ih' := ih _ (f h a).1 hrest'
      cases hr : (f h a).2 with
      | none => exact Sub2.skip ih'
      | some a' => exact Sub2.cons (keepOut _ _ x a' (hsteps as' _) (hest h x a hxa a' hr)) ih'

end PyGql.Heap.Own

/-
  `Spec.typedNodes` (phase 3) and `Spec.viewNodes` (generic context enumeration with `View.enter`) are the same list.
-/
import PyGqlModel.Spec.CtxNodes
namespace PyGql.Validate.Spec
open PyGql PyGql.Validate

theorem withView_nil' (v : View) : withView v [] = [] := rfl
theorem withView_cons' (v : View) (n : Node) (ns : List Node) : withView v (n :: ns) = (n, v) :: withView v ns := rfl
theorem withView_append' (v : View) (a b : List Node) : withView v (a ++ b) = withView v a ++ withView v b := by
  simp [withView]

mutual
theorem gnValue_view (s : SchemaD) : ∀ (x : Value) (v : View), gnValue (View.enter s) v x = withView v (valueNodes x)
  | .list vs, v => by rw [gnValue, valueNodes, withView_cons', gnValues_view s vs]; rfl
  | .obj fs, v => by rw [gnValue, valueNodes, withView_cons', gnObjFields_view s fs]; rfl
  | .var a, v => by rw [gnValue]; rfl
  | .int a, v => by rw [gnValue]; rfl
  | .float a, v => by rw [gnValue]; rfl
  | .str a, v => by rw [gnValue]; rfl
  | .bool a, v => by rw [gnValue]; rfl
  | .null, v => by rw [gnValue]; rfl
  | .enum a, v => by rw [gnValue]; rfl
theorem gnValues_view (s : SchemaD) : ∀ (xs : List Value) (v : View), gnValues (View.enter s) v xs = withView v (valuesNodes xs)
  | [], v => by rw [gnValues, valuesNodes]; rfl
  | x :: xs, v => by rw [gnValues, valuesNodes, withView_append', gnValue_view s x, gnValues_view s xs]
theorem gnObjField_view (s : SchemaD) : ∀ (f : ObjField) (v : View), gnObjField (View.enter s) v f = withView v (objFieldNodes f)
  | .mk n x, v => by rw [gnObjField, objFieldNodes, withView_cons', gnValue_view s x]; rfl
theorem gnObjFields_view (s : SchemaD) : ∀ (fs : List ObjField) (v : View), gnObjFields (View.enter s) v fs = withView v (objFieldsNodes fs)
  | [], v => by rw [gnObjFields, objFieldsNodes]; rfl
  | f :: fs, v => by rw [gnObjFields, objFieldsNodes, withView_append', gnObjField_view s f, gnObjFields_view s fs]
end

theorem gnArgs_view (s : SchemaD) (as : List Arg) (v : View) : gnArgs (View.enter s) v as = withView v (argsNodes as) := by
  induction as with
  | nil => rfl
  | cons a as ih =>
    simp only [gnArgs, argsNodes, List.flatMap_cons, withView_append'] at ih ⊢
    rw [ih, gnArg, argNodes, withView_cons', gnValue_view]; rfl

theorem gnDir_view (s : SchemaD) (d : Dir) (v : View) : gnDir (View.enter s) v d = tnDir s v d := by
  rw [gnDir, tnDir, gnArgs_view]

theorem gnDirs_view (s : SchemaD) (ds : List Dir) (v : View) : gnDirs (View.enter s) v ds = tnDirs s v ds := by
  simp only [gnDirs, tnDirs]
  congr 1
  funext d
  exact gnDir_view s d v

mutual
theorem gnSel_view (s : SchemaD) : ∀ (x : Sel) (v : View), gnSel (View.enter s) v x = tnSel s v x
  | .field al name args dirs true id sub, v => by
    rw [gnSel, tnSel]; simp only [↓reduceIte, gnArgs_view, gnDirs_view, gnSels_view s sub]
  | .field al name args dirs false id sub, v => by
    rw [gnSel, tnSel]; simp only [Bool.false_eq_true, ↓reduceIte, gnArgs_view, gnDirs_view]
  | .spread name dirs, v => by
    rw [gnSel, tnSel, gnDirs_view]; rfl
  | .inline on dirs id sub, v => by
    rw [gnSel, tnSel]; simp only [gnDirs_view, gnSels_view s sub]
theorem gnSels_view (s : SchemaD) : ∀ (xs : List Sel) (v : View), gnSels (View.enter s) v xs = tnSels s v xs
  | [], v => by rw [gnSels, tnSels]
  | x :: xs, v => by rw [gnSels, tnSels, gnSel_view s x, gnSels_view s xs]
end

theorem gnVarDefs_view (s : SchemaD) (vars : List VarDef) (v : View) :
    vars.flatMap (gnVarDef (View.enter s) v) = vars.flatMap (tnVarDef s v) := by
  induction vars with
  | nil => rfl
  | cons x xs ih =>
    simp only [List.flatMap_cons, ih]
    congr 1
    have e1 : View.enter s (.varDef x) v = v := rfl
    have e2 : View.enter s (.typeNode x.type) v = v := rfl
    rw [gnVarDef, tnVarDef, withView_cons', withView_append', gnDirs_view, e1, e2]
    cases x.default with
    | none => simp [withView]
    | some dv => simp only [gnValue_view]; simp [withView]

theorem gnDef_view (s : SchemaD) (d : Def) : gnDef (View.enter s) {} d = tnDef s d := by
  cases d with
  | op kind name vars dirs id sels => simp only [gnDef, tnDef, gnVarDefs_view, gnDirs_view, gnSels_view]
  | frag name on dirs id sels => simp only [gnDef, tnDef, gnDirs_view, gnSels_view]
  | ts a b => rfl

/-- the two enumerations of output-side static contexts coincide -/
theorem typedNodes_eq_viewNodes (s : SchemaD) (d : Doc) : typedNodes s d = viewNodes s d := by
  simp only [typedNodes, viewNodes, gnDoc]
  congr 1
  funext x
  exact (gnDef_view s x).symm

end PyGql.Validate.Spec

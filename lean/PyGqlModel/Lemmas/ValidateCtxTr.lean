/-
  The context enumeration under the transformations of C06 (`Tr`: re-ordering of selections and arguments, renaming
  of fragments): if the context function does not look at what `Tr` changes (`down (T.node n) x = down n x`), the
  (node, context) pairs of the transformed document are, up to order, the pairs of the document with the node
  transformed and the context UNCHANGED.
-/
import PyGqlModel.Lemmas.ValidateTr
import PyGqlModel.Spec.CtxNodes
namespace PyGql.Validate.Spec
open PyGql PyGql.Validate

section
variable {X : Type} (T : Tr) (down : Node → X → X)

def trP (p : Node × X) : Node × X := (T.node p.1, p.2)

mutual
theorem gnValue_trP : ∀ (v : Value) (x : X), (gnValue down x v).map (trP T) = gnValue down x v
  | .list vs, x => by rw [gnValue, List.map_cons, gnValues_trP vs]; rfl
  | .obj fs, x => by rw [gnValue, List.map_cons, gnObjFields_trP fs]; rfl
  | .var a, x => by rw [gnValue]; rfl
  | .int a, x => by rw [gnValue]; rfl
  | .float a, x => by rw [gnValue]; rfl
  | .str a, x => by rw [gnValue]; rfl
  | .bool a, x => by rw [gnValue]; rfl
  | .null, x => by rw [gnValue]; rfl
  | .enum a, x => by rw [gnValue]; rfl
theorem gnValues_trP : ∀ (vs : List Value) (x : X), (gnValues down x vs).map (trP T) = gnValues down x vs
  | [], x => by rw [gnValues]; rfl
  | v :: vs, x => by rw [gnValues, List.map_append, gnValue_trP v, gnValues_trP vs]
theorem gnObjField_trP : ∀ (f : ObjField) (x : X), (gnObjField down x f).map (trP T) = gnObjField down x f
  | .mk n v, x => by rw [gnObjField, List.map_cons, gnValue_trP v]; rfl
theorem gnObjFields_trP : ∀ (fs : List ObjField) (x : X), (gnObjFields down x fs).map (trP T) = gnObjFields down x fs
  | [], x => by rw [gnObjFields]; rfl
  | f :: fs, x => by rw [gnObjFields, List.map_append, gnObjField_trP f, gnObjFields_trP fs]
end

theorem gnArg_trP (a : Arg) (x : X) : (gnArg down x a).map (trP T) = gnArg down x a := by
  rw [gnArg, List.map_cons, gnValue_trP]; rfl

theorem gnArgs_trP (as : List Arg) (x : X) : (gnArgs down x as).map (trP T) = gnArgs down x as := by
  induction as with
  | nil => rfl
  | cons a as ih => simp only [gnArgs, List.flatMap_cons, List.map_append] at ih ⊢; rw [gnArg_trP, ih]

theorem gnArgs_perm (as : List Arg) (x : X) : (gnArgs down x (T.args as)).Perm (gnArgs down x as) :=
  (T.args_perm as).flatMap_right _

theorem gnDir_tr (hd : ∀ n x, down (T.node n) x = down n x) (d : Dir) (x : X) : (gnDir down x (T.dir d)).Perm ((gnDir down x d).map (trP T)) := by
  have e : down (.directive (T.dir d)) x = down (.directive d) x := hd (.directive d) x
  simp only [gnDir, List.map_cons, gnArgs_trP, e]
  exact List.Perm.cons _ (gnArgs_perm T down d.args _)

theorem gnDirs_tr (hd : ∀ n x, down (T.node n) x = down n x) (ds : List Dir) (x : X) : (gnDirs down x (ds.map T.dir)).Perm ((gnDirs down x ds).map (trP T)) := by
  induction ds with
  | nil => exact List.Perm.refl _
  | cons d ds ih =>
    simp only [gnDirs, List.map_cons, List.flatMap_cons, List.map_append] at ih ⊢
    exact (gnDir_tr T down hd d x).append ih

theorem gnSels_eq_flatMap (ss : List Sel) (x : X) : gnSels down x ss = ss.flatMap (gnSel down x) := by
  induction ss with
  | nil => rfl
  | cons s ss ih => rw [gnSels, ih]; rfl

mutual
theorem gnSel_tr (hd : ∀ n x, down (T.node n) x = down n x) : ∀ (s : Sel) (x : X), (gnSel down x (T.sel s)).Perm ((gnSel down x s).map (trP T))
  | .field al name args dirs true id sub, x => by
    have e : down (.field name (T.args args) (dirs.map T.dir) true) x = down (.field name args dirs true) x :=
      hd (.field name args dirs true) x
    have e2 : ∀ y, down (.selectionSet id (T.sels (T.selList sub))) y = down (.selectionSet id sub) y :=
      fun y => hd (.selectionSet id sub) y
    simp only [Tr.sel, gnSel, ↓reduceIte, List.map_cons, List.map_append, gnArgs_trP, e, e2]
    refine List.Perm.cons _ (((gnArgs_perm T down args _).append (gnDirs_tr T down hd dirs _)).append (List.Perm.cons _ ?_))
    rw [gnSels_eq_flatMap]
    refine ((T.sels_perm _).flatMap_right _).trans ?_
    rw [← gnSels_eq_flatMap]
    exact gnSels_tr hd sub _
  | .field al name args dirs false id sub, x => by
    have e : down (.field name (T.args args) (dirs.map T.dir) false) x = down (.field name args dirs false) x :=
      hd (.field name args dirs false) x
    simp only [Tr.sel, gnSel, Bool.false_eq_true, ↓reduceIte, List.map_cons, List.map_append, gnArgs_trP, e,
      List.append_nil]
    exact List.Perm.cons _ ((gnArgs_perm T down args _).append (gnDirs_tr T down hd dirs _))
  | .spread n dirs, x => by
    have e : down (.spread (T.frag n) (dirs.map T.dir)) x = down (.spread n dirs) x := hd (.spread n dirs) x
    simp only [Tr.sel, gnSel, List.map_cons, e]
    exact List.Perm.cons _ (gnDirs_tr T down hd dirs _)
  | .inline on dirs id sub, x => by
    have e : down (.inline on (dirs.map T.dir)) x = down (.inline on dirs) x := hd (.inline on dirs) x
    have e2 : ∀ y, down (.selectionSet id (T.sels (T.selList sub))) y = down (.selectionSet id sub) y :=
      fun y => hd (.selectionSet id sub) y
    simp only [Tr.sel, gnSel, List.map_cons, List.map_append, e, e2]
    refine List.Perm.cons _ ((gnDirs_tr T down hd dirs _).append (List.Perm.cons _ ?_))
    rw [gnSels_eq_flatMap]
    refine ((T.sels_perm _).flatMap_right _).trans ?_
    rw [← gnSels_eq_flatMap]
    exact gnSels_tr hd sub _
theorem gnSels_tr (hd : ∀ n x, down (T.node n) x = down n x) : ∀ (ss : List Sel) (x : X), (gnSels down x (T.selList ss)).Perm ((gnSels down x ss).map (trP T))
  | [], x => by simp [Tr.selList, gnSels]
  | s :: ss, x => by
    simp only [Tr.selList, gnSels, List.map_append]
    exact (gnSel_tr hd s x).append (gnSels_tr hd ss x)
end

theorem gnSelsTop_tr (hd : ∀ n x, down (T.node n) x = down n x) (sels : List Sel) (x : X) :
    (gnSels down x (T.sels (T.selList sels))).Perm ((gnSels down x sels).map (trP T)) := by
  rw [gnSels_eq_flatMap]
  refine ((T.sels_perm _).flatMap_right _).trans ?_
  rw [← gnSels_eq_flatMap]
  exact gnSels_tr T down hd sels x

theorem gnVarDef_tr (hd : ∀ n x, down (T.node n) x = down n x) (v : VarDef) (x : X) :
    (gnVarDef down x (T.varDef v)).Perm ((gnVarDef down x v).map (trP T)) := by
  have e : down (.varDef (T.varDef v)) x = down (.varDef v) x := hd (.varDef v) x
  simp only [gnVarDef, List.map_cons, List.map_append, e]
  refine List.Perm.cons _ (List.Perm.append ?_ (List.Perm.cons _ (gnDirs_tr T down hd v.dirs _)))
  show (match v.default with | some dv => gnValue down (down (.varDef v) x) dv | none => []).Perm _
  cases v.default with
  | none => exact List.Perm.refl _
  | some dv => simp only [gnValue_trP]; exact List.Perm.refl _

theorem gnVarDefs_tr (hd : ∀ n x, down (T.node n) x = down n x) (vars : List VarDef) (x : X) :
    ((vars.map T.varDef).flatMap (gnVarDef down x)).Perm ((vars.flatMap (gnVarDef down x)).map (trP T)) := by
  induction vars with
  | nil => exact List.Perm.refl _
  | cons v vs ih =>
    simp only [List.map_cons, List.flatMap_cons, List.map_append]
    exact (gnVarDef_tr T down hd v x).append ih

theorem gnDef_tr (hd : ∀ n x, down (T.node n) x = down n x) (d : Def) (x : X) : (gnDef down x (T.defn d)).Perm ((gnDef down x d).map (trP T)) := by
  cases d with
  | op k nm vars dirs id sels =>
    have e : down (.operation k nm (vars.map T.varDef) (dirs.map T.dir) (T.sels (T.selList sels))) x =
        down (.operation k nm vars dirs sels) x :=
      hd (.operation k nm vars dirs sels) x
    have e2 : ∀ y, down (.selectionSet id (T.sels (T.selList sels))) y = down (.selectionSet id sels) y :=
      fun y => hd (.selectionSet id sels) y
    simp only [Tr.defn, gnDef, List.map_cons, List.map_append, e, e2]
    exact List.Perm.cons _ (((gnVarDefs_tr T down hd vars _).append (gnDirs_tr T down hd dirs _)).append
      (List.Perm.cons _ (gnSelsTop_tr T down hd sels _)))
  | frag n on dirs id sels =>
    have e : down (.fragmentDef (T.frag n) on (dirs.map T.dir)) x = down (.fragmentDef n on dirs) x :=
      hd (.fragmentDef n on dirs) x
    have e2 : ∀ y, down (.selectionSet id (T.sels (T.selList sels))) y = down (.selectionSet id sels) y :=
      fun y => hd (.selectionSet id sels) y
    simp only [Tr.defn, gnDef, List.map_cons, List.map_append, e, e2]
    exact List.Perm.cons _ ((gnDirs_tr T down hd dirs _).append (List.Perm.cons _ (gnSelsTop_tr T down hd sels _)))
  | ts a b => exact List.Perm.refl _

/-- **the contexts are untouched by `Tr`** -/
theorem gnDoc_tr (hd : ∀ n x, down (T.node n) x = down n x) (d : Doc) (x : X) : (gnDoc down x (T.doc d)).Perm ((gnDoc down x d).map (trP T)) := by
  simp only [gnDoc, Tr.doc]
  induction d.defs with
  | nil => exact List.Perm.refl _
  | cons y ys ih =>
    simp only [List.map_cons, List.flatMap_cons, List.map_append]
    exact (gnDef_tr T down hd y x).append ih

theorem forall_gnDoc_tr (hd : ∀ n x, down (T.node n) x = down n x) (d : Doc) (x : X) (P : Node × X → Prop) :
    (∀ p ∈ gnDoc down x (T.doc d), P p) ↔ (∀ q ∈ gnDoc down x d, P (T.node q.1, q.2)) := by
  constructor
  · intro h q hq
    exact h _ ((gnDoc_tr T down hd d x).mem_iff.mpr (List.mem_map_of_mem hq))
  · intro h p hp
    obtain ⟨q, hq, rfl⟩ := List.mem_map.mp ((gnDoc_tr T down hd d x).mem_iff.mp hp)
    exact h q hq

end

end PyGql.Validate.Spec

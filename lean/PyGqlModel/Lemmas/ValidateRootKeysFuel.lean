/-
  The fuel `SingleFieldSubscriptionsChecker` hands to its collection (`sfsBound d`) suffices for every root selection set
  of the document: hypothesis `hf` of `mem_rootKeys_iff` (Lemmas/ValidateRootKeys.lean) always holds.
-/
import PyGqlModel.Lemmas.ValidateRootKeys
import PyGqlModel.Lemmas.ValidateVarsAL
namespace PyGql.Validate
open PyGql

/-- total size of the fragment bodies of a table -/
def tableSum (m : AL (List Sel)) : Nat := (m.map fun p => selsSize p.2 + 1).sum

theorem unvisited_nil (frs : AL (List Sel)) : unvisited frs [] = tableSum frs := by
  unfold unvisited tableSum
  congr 2
  exact List.filter_eq_self.mpr (fun _ _ => rfl)

theorem tableSum_map_set (m : AL (List Sel)) (h : AL.WF m) (k : String) (v : List Sel) :
    tableSum (m.map fun p => if p.1 == k then (k, v) else p) ≤ tableSum m + (selsSize v + 1) := by
  induction m with
  | nil => simp [tableSum]
  | cons p ps ih =>
    have hps : AL.WF ps := by unfold AL.WF AL.keys at h ⊢; exact (List.nodup_cons.mp h).2
    have := ih hps
    unfold tableSum at this ⊢
    simp only [List.map_cons, List.sum_cons]
    by_cases hk : (p.1 == k) = true
    · -- no other entry has this key: the rest is unchanged
      have hrest : (ps.map fun q => if q.1 == k then (k, v) else q) = ps := by
        refine (List.map_congr_left (g := id) fun q hq => ?_).trans (List.map_id _)
        have hne : (q.1 == k) = false := by
          rw [beq_eq_false_iff_ne]
          intro e
          unfold AL.WF AL.keys at h
          have hnot := (List.nodup_cons.mp h).1
          exact hnot (List.mem_map.mpr ⟨q, hq, by show q.1 = p.1; rw [e, eq_of_beq hk]⟩)
        simp [hne]
      rw [hrest]
      simp only [hk, ↓reduceIte]
      omega
    · simp only [hk, Bool.false_eq_true, ↓reduceIte]
      omega

theorem tableSum_set (m : AL (List Sel)) (h : AL.WF m) (k : String) (v : List Sel) :
    tableSum (AL.set m k v) ≤ tableSum m + (selsSize v + 1) := by
  unfold AL.set
  split
  · exact tableSum_map_set m h k v
  · unfold tableSum; simp

/-- sizes of the definitions: what `sfsBound` adds up -/
def defsSum (ds : List Def) : Nat :=
  (ds.map fun | .frag _ _ _ _ sels => selsSize sels + 1 | .op _ _ _ _ _ sels => selsSize sels + 1 | _ => 0).sum

theorem sfsBound_eq (d : Doc) : sfsBound d = 1 + defsSum d.defs := by
  obtain ⟨ds⟩ := d
  unfold sfsBound
  have key : ∀ (l : List Def) (n : Nat),
      l.foldl (fun n x => match x with | .frag _ _ _ _ sels => n + selsSize sels + 1 | .op _ _ _ _ _ sels => n + selsSize sels + 1 | _ => n) n =
        n + defsSum l := by
    intro l
    induction l with
    | nil => intro n; simp [defsSum]
    | cons x xs ih =>
      intro n
      rw [List.foldl_cons, ih]
      cases x <;> simp [defsSum] <;> omega
  exact key ds 1

def fragsSum (ds : List Def) : Nat :=
  (ds.map fun | .frag _ _ _ _ sels => selsSize sels + 1 | _ => 0).sum

theorem sfsTable_sum (d : Doc) : AL.WF (sfsTable d) ∧ tableSum (sfsTable d) ≤ fragsSum d.defs := by
  obtain ⟨ds⟩ := d
  unfold sfsTable
  have key : ∀ (l : List Def) (m : AL (List Sel)), AL.WF m →
      AL.WF (l.foldl (fun m x => match x with | .frag n _ _ _ sels => AL.set m n sels | _ => m) m) ∧
      tableSum (l.foldl (fun m x => match x with | .frag n _ _ _ sels => AL.set m n sels | _ => m) m) ≤
        tableSum m + fragsSum l := by
    intro l
    induction l with
    | nil => intro m hm; exact ⟨hm, by simp [fragsSum]⟩
    | cons x xs ih =>
      intro m hm
      rw [List.foldl_cons]
      cases x with
      | frag n on dirs id sels =>
        obtain ⟨h1, h2⟩ := ih (AL.set m n sels) (AL.wf_set hm n sels)
        refine ⟨h1, ?_⟩
        have := tableSum_set m hm n sels
        simp only [fragsSum, List.map_cons, List.sum_cons] at h2 ⊢
        omega
      | op =>
        obtain ⟨h1, h2⟩ := ih m hm
        refine ⟨h1, ?_⟩
        simp only [fragsSum, List.map_cons, List.sum_cons] at h2 ⊢
        omega
      | ts =>
        obtain ⟨h1, h2⟩ := ih m hm
        refine ⟨h1, ?_⟩
        simp only [fragsSum, List.map_cons, List.sum_cons] at h2 ⊢
        omega
  obtain ⟨a, b⟩ := key ds [] AL.wf_nil
  refine ⟨a, ?_⟩
  have e : tableSum ([] : AL (List Sel)) = 0 := rfl
  rw [e, Nat.zero_add] at b
  exact b

theorem op_frags_le_defsSum : ∀ (ds : List Def) {k : String} {nm : Option String} {vs : List VarDef} {dr : List Dir}
    {i : Nat} {sels : List Sel}, Def.op k nm vs dr i sels ∈ ds → selsSize sels + 1 + fragsSum ds ≤ defsSum ds
  | [], _, _, _, _, _, _, h => by cases h
  | x :: xs, k, nm, vs, dr, i, sels, h => by
    simp only [fragsSum, defsSum, List.map_cons, List.sum_cons]
    rcases List.mem_cons.mp h with e | h'
    · subst e
      have : fragsSum xs ≤ defsSum xs := by
        unfold fragsSum defsSum
        clear h
        induction xs with
        | nil => simp
        | cons y ys ih => simp only [List.map_cons, List.sum_cons]; cases y <;> simp <;> omega
      unfold fragsSum defsSum at this
      simp only
      omega
    · have := op_frags_le_defsSum xs h'
      unfold fragsSum defsSum at this
      cases x <;> simp <;> omega

/-- **the fuel always suffices** -/
theorem sfsBound_suffices (d : Doc) {k : String} {nm : Option String} {vs : List VarDef} {dr : List Dir} {i : Nat}
    {sels : List Sel} (h : Def.op k nm vs dr i sels ∈ d.defs) :
    selsSize sels + unvisited (sfsTable d) [] < sfsBound d := by
  rw [unvisited_nil, sfsBound_eq]
  have h1 := (sfsTable_sum d).2
  have h2 := op_frags_le_defsSum d.defs h
  omega

end PyGql.Validate

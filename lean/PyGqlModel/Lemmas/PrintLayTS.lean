/-
  `Lay` for the members of type-system definitions: input values, argument definitions, field definitions, enum values,
  operation types.  The printed text lexes to the yield of the view of the tree WITHOUT member descriptions (R4).
-/
import PyGqlModel.Lemmas.PrintLayGen
import PyGqlModel.Lemmas.PrintStrip
namespace PyGql.PrintTokens
open PyGql PyGql.Ast PyGql.Parse PyGql.Spec PyGql.Print PyGql.PrintLex PyGql.PrintMatch PyGql.PrintString PyGql.Lex

theorem wrap_space_eq (x : Text) : wrap [32] x = wrapS x := by
  unfold wrap wrapS; split <;> simp

def okInputValue (ind : Text) (d : InputValueDefinition) : Prop :=
  Spec.Lexical.isName d.name.value = true ∧ lexOkType d.type = true ∧
  (match d.defaultValue with | some v => okValue ind v | none => True) ∧ okDirectives ind d.directives

theorem printInputValueDefinition_eq (c : Cfg) (d : InputValueDefinition) :
    printInputValueDefinition c d =
      d.name.value ++ 58 :: 32 :: (printType d.type ++ (defaultText c d.defaultValue ++ wrapS (printDirectives c d.directives))) := by
  unfold printInputValueDefinition
  simp only [join_nosep_cons, join_nosep_nil, wrap_space_eq, defaultText]
  simp

theorem lay_inputValue (c : Cfg) (d : InputValueDefinition) (h : okInputValue c.indent d) :
    Lay (printInputValueDefinition c d) (inputValueV (stripIV d)).yield ∧ printInputValueDefinition c d ≠ [] := by
  obtain ⟨hn, ht, hv, hd⟩ := h
  obtain ⟨ldef, ddef⟩ := lay_defaultText c d.defaultValue hv
  have ltail := lay_append ldef (lay_wrapS (lay_directives c d.directives hd)) (delimHead_wrapS _)
  have h1 := lay_append (lay_name hn) (lay_colon (lay_space_cons
    (lay_append (lay_type d.type ht) ltail (delimHead_append ddef (delimHead_wrapS _))))) (delimHead_cons (by decide))
  rw [printInputValueDefinition_eq]
  refine ⟨?_, by simp⟩
  simpa [inputValueV, stripIV, descV, optV, nameV, Item.yield, Item.yieldAll, yieldAll_append, List.append_assoc] using h1

def okInputValues (ind : Text) (ds : List InputValueDefinition) : Prop := ∀ d ∈ ds, okInputValue ind d

/-- the pairs (printed text, classes) of a list of input values -/
def ivPairs (c : Cfg) (ds : List InputValueDefinition) : List LP :=
  ds.map fun d => (printInputValueDefinition c d, (inputValueV (stripIV d)).yield)

theorem ivPairs_lay (c : Cfg) (ds : List InputValueDefinition) (h : okInputValues c.indent ds) :
    (∀ p ∈ ivPairs c ds, Lay p.1 p.2) ∧ (∀ p ∈ ivPairs c ds, p.1 ≠ []) := by
  constructor <;> intro p hp <;> simp only [ivPairs, List.mem_map] at hp <;> obtain ⟨d, hd, rfl⟩ := hp
  · exact (lay_inputValue c d (h d hd)).1
  · exact (lay_inputValue c d (h d hd)).2

theorem ivPairs_fst (c : Cfg) (ds : List InputValueDefinition) :
    (ivPairs c ds).map Prod.fst = ds.map (printInputValueDefinition c) := by
  simp [ivPairs, List.map_map, Function.comp_def]
theorem ivPairs_snd (c : Cfg) (ds : List InputValueDefinition) :
    (ivPairs c ds).flatMap Prod.snd = Item.yieldAll ((ds.map stripIV).map inputValueV) := by
  simp [ivPairs, yieldAll_map, List.flatMap_map]

/-- `print_argument_definitions`: both layouts (one line / one argument per line) lex to `( InputValueDefinition+ )` -/
theorem lay_argumentDefinitions (c : Cfg) (hind : Blank c.indent) (ds : List InputValueDefinition)
    (h : okInputValues c.indent ds) :
    Lay (printArgumentDefinitions c ds) (Item.yieldAll (groupV .parenL .parenR inputValueV (ds.map stripIV))) ∧
    DelimHead (printArgumentDefinitions c ds) := by
  cases ds with
  | nil =>
    have : printArgumentDefinitions c [] = [] := by simp [printArgumentDefinitions, join, joinSep, wrap]
    rw [this]
    exact ⟨by simpa [groupV, Item.yieldAll] using lay_nil, delimHead_nil⟩
  | cons d ds =>
    obtain ⟨hl, hnn⟩ := ivPairs_lay c (d :: ds) h
    have hne : ∀ x ∈ (d :: ds).map (printInputValueDefinition c), x ≠ [] := by
      intro x hx; rw [← ivPairs_fst] at hx
      simp only [List.mem_map] at hx; obtain ⟨p, hp, rfl⟩ := hx; exact hnn p hp
    have hy : Item.yieldAll (groupV .parenL .parenR inputValueV ((d :: ds).map stripIV)) =
        (.parenL, []) :: ((ivPairs c (d :: ds)).flatMap Prod.snd ++ [(.parenR, [])]) := by
      rw [ivPairs_snd]; simp [groupV, Item.yieldAll, yieldAll_append, Item.yield]
    rw [hy]
    unfold printArgumentDefinitions
    simp only
    split
    · -- one line
      have l1 := lay_joinSep [44, 32] [] sep_comma (fun b => delimHead_cons (by decide)) (ivPairs c (d :: ds)) hl
      rw [joinCls_nil, ivPairs_fst] at l1
      have hj := joinSep_ne_nil [44, 32] _ (by simp) hne
      have hw : wrap [40] (join ((d :: ds).map (printInputValueDefinition c)) [44, 32]) [41] =
          40 :: (joinSep [44, 32] ((d :: ds).map (printInputValueDefinition c)) ++ [41]) := by
        rw [join_eq_joinSep _ _ hne]; unfold wrap
        cases hh : joinSep [44, 32] ((d :: ds).map (printInputValueDefinition c)) with
        | nil => exact absurd hh hj
        | cons x y => simp
      rw [hw]
      exact ⟨by simpa using lay_parenL (lay_append l1 (lay_parenR lay_nil) (delimHead_cons (by decide))),
        delimHead_cons (by decide)⟩
    · -- one argument per line, indented
      have l1 := lay_joinSep [10] [] sep_lf (fun b => delimHead_cons (by decide)) (ivPairs c (d :: ds)) hl
      rw [joinCls_nil, ivPairs_fst] at l1
      have hj := joinSep_ne_nil [10] _ (by simp) hne
      have l2 := lay_indentText hind l1
      have hi := indentText_ne _ c.indent hj
      have hw : wrap [40, 10] (indentText (join ((d :: ds).map (printInputValueDefinition c)) [10]) c.indent) [10, 41] =
          40 :: 10 :: (indentText (joinSep [10] ((d :: ds).map (printInputValueDefinition c))) c.indent ++ [10, 41]) := by
        rw [join_eq_joinSep _ _ hne]; unfold wrap
        cases hh : indentText (joinSep [10] ((d :: ds).map (printInputValueDefinition c))) c.indent with
        | nil => exact absurd hh hi
        | cons x y => simp
      rw [hw]
      exact ⟨by simpa using lay_parenL (lay_lf_cons (lay_append l2 (lay_lf_cons (lay_parenR lay_nil)) (delimHead_cons (by decide)))),
        delimHead_cons (by decide)⟩

/-! ### field definitions -/

def okFieldDef (ind : Text) (d : FieldDefinition) : Prop :=
  Spec.Lexical.isName d.name.value = true ∧ okInputValues ind d.arguments ∧ lexOkType d.type = true ∧
  okDirectives ind d.directives

theorem printFieldDefinition_eq (c : Cfg) (d : FieldDefinition) :
    printFieldDefinition c d = d.name.value ++ (printArgumentDefinitions c d.arguments ++
      58 :: 32 :: (printType d.type ++ wrapS (printDirectives c d.directives))) := by
  unfold printFieldDefinition
  simp only [join_nosep_cons, join_nosep_nil, wrap_space_eq]
  simp

theorem lay_fieldDef (c : Cfg) (hind : Blank c.indent) (d : FieldDefinition) (h : okFieldDef c.indent d) :
    Lay (printFieldDefinition c d) (fieldDefinitionV (stripFD d)).yield ∧ printFieldDefinition c d ≠ [] := by
  obtain ⟨hn, ha, ht, hd⟩ := h
  obtain ⟨largs, dargs⟩ := lay_argumentDefinitions c hind d.arguments ha
  have l1 := lay_colon (lay_space_cons (lay_append (lay_type d.type ht) (lay_wrapS (lay_directives c d.directives hd))
    (delimHead_wrapS _)))
  have h1 := lay_append (lay_name hn) (lay_append largs l1 (delimHead_cons (by decide)))
    (delimHead_append dargs (delimHead_cons (by decide)))
  rw [printFieldDefinition_eq]
  refine ⟨?_, by simp [isName_ne_nil hn]⟩
  simpa [fieldDefinitionV, stripFD, descV, optV, nameV, Item.yield, Item.yieldAll, yieldAll_append, List.append_assoc] using h1

/-! ### enum values, operation types -/

def okEnumValue (ind : Text) (d : EnumValueDefinition) : Prop :=
  Spec.Lexical.isName d.name.value = true ∧ okDirectives ind d.directives

theorem lay_enumValue (c : Cfg) (d : EnumValueDefinition) (h : okEnumValue c.indent d) :
    Lay (printEnumValueDefinition c d) (enumValueDefinitionV (stripEV d)).yield ∧ printEnumValueDefinition c d ≠ [] := by
  have hnn := isName_ne_nil h.1
  have e : printEnumValueDefinition c d = d.name.value ++ wrapS (printDirectives c d.directives) := by
    unfold printEnumValueDefinition; rw [join_cons_ne _ _ _ hnn, tailJoin_space1]
  rw [e]
  refine ⟨?_, by simp [hnn]⟩
  have h1 := lay_append (lay_name h.1) (lay_wrapS (lay_directives c d.directives h.2)) (delimHead_wrapS _)
  simpa [enumValueDefinitionV, stripEV, descV, optV, nameV, Item.yield, Item.yieldAll, yieldAll_append] using h1

def okOperationType (d : OperationTypeDefinition) : Prop :=
  (d.operation = K.query ∨ d.operation = K.mutation ∨ d.operation = K.subscription) ∧
  Spec.Lexical.isName d.type.name.value = true

theorem lay_operationType (d : OperationTypeDefinition) (h : okOperationType d) :
    Lay (printOperationTypeDefinition d) (operationTypeV d).yield ∧ printOperationTypeDefinition d ≠ [] := by
  have hop := operation_isName h.1
  have h1 := lay_append (lay_name hop) (lay_colon (lay_space_cons (lay_name h.2))) (delimHead_cons (by decide))
  refine ⟨?_, by simp [printOperationTypeDefinition]⟩
  simpa [printOperationTypeDefinition, printNamedType, operationTypeV, namedTypeV, nameV, kw, Item.yield, Item.yieldAll] using h1

end PyGql.PrintTokens

/-
  C14 — closedness of what `extend_schema` BUILDS: members added by the extension document (`_build_field`, `_build_argument`,
  `_build_input_field` resolve names through the registry of the result) and the rebuilt members, in a form that is stable
  under everything `extend_schema` does afterwards (`ArgC` / `FieldC`: closed, and allocated at or after `lo`).
-/
import PyGqlModel.Lemmas.HeapExtClosed

set_option linter.unusedSimpArgs false
set_option linter.unusedVariables false

namespace PyGql.Heap.Own
open PyGql.Heap

def tnBase : TN → String
  | .named n => n
  | .list t => tnBase t
  | .nonNull t => tnBase t

theorem tnRef_base (N : List (String × Addr)) (t : TN) : (tnRef N t).base = ⟨tnBase t, (lookup N (tnBase t)).getD 0⟩ := by
  induction t with
  | named n => simp [tnRef, TRef.base, tnBase]
  | list t ih => simpa [tnRef, TRef.base, tnBase] using ih
  | nonNull t ih => simpa [tnRef, TRef.base, tnBase] using ih

theorem refOK_tnRef (N : List (String × Addr)) (t : TN) (hs : (lookup N (tnBase t)).isSome = true) : refOK N (tnRef N t).base = true := by
  rw [tnRef_base]
  obtain ⟨a, ha⟩ := Option.isSome_iff_exists.mp hs
  simp [refOK, ha]

/-- argument / input field `c`: allocated at or after `lo`, its type reference is the registered object -/
def ArgC (lo : Nat) (hout : Heap) (N : List (String × Addr)) (c : Addr) : Prop :=
  lo ≤ c ∧ ∃ g, hout.readArg c = some g ∧ refOK N g.ty.base = true

/-- field `c`: allocated at or after `lo`, its type reference and those of its arguments are the registered objects -/
def FieldC (lo : Nat) (hout : Heap) (N : List (String × Addr)) (c : Addr) : Prop :=
  lo ≤ c ∧ ∃ f, hout.readField c = some f ∧ refOK N f.ty.base = true ∧ ∀ x, x ∈ f.args → ArgC lo hout N x

theorem ArgC.keep {lo : Nat} {h1 h2 : Heap} {N : List (String × Addr)} (kf : KeepsFrom lo h1 h2) {c : Addr} (r : ArgC lo h1 N c) : ArgC lo h2 N c := by
  obtain ⟨hc, g, hg, hr⟩ := r
  refine ⟨hc, g, ?_, hr⟩
  simp only [Heap.readArg, kf.2 c hc (read_lt h1 c _ (readArg_read hg)), readArg_read hg]

theorem FieldC.keep {lo : Nat} {h1 h2 : Heap} {N : List (String × Addr)} (kf : KeepsFrom lo h1 h2) {c : Addr} (r : FieldC lo h1 N c) : FieldC lo h2 N c := by
  obtain ⟨hc, f, hf, hr, ha⟩ := r
  refine ⟨hc, f, ?_, hr, fun x hx => (ha x hx).keep kf⟩
  simp only [Heap.readField, kf.2 c hc (read_lt h1 c _ (readField_read hf)), readField_read hf]

theorem ArgC.weaken {lo lo' : Nat} (hl : lo' ≤ lo) {h : Heap} {N : List (String × Addr)} {c : Addr} (r : ArgC lo h N c) : ArgC lo' h N c :=
  ⟨Nat.le_trans hl r.1, r.2⟩

theorem FieldC.weaken {lo lo' : Nat} (hl : lo' ≤ lo) {h : Heap} {N : List (String × Addr)} {c : Addr} (r : FieldC lo h N c) : FieldC lo' h N c := by
  obtain ⟨hc, f, hf, hr, ha⟩ := r
  exact ⟨Nat.le_trans hl hc, f, hf, hr, fun x hx => (ha x hx).weaken hl⟩

theorem ArgC.shape {lo : Nat} {h : Heap} {N : List (String × Addr)} {c : Addr} (r : ArgC lo h N c) : argShape (refOK N) h c = true := by
  obtain ⟨_, g, hg, hr⟩ := r
  simp [argShape, hg, hr]

theorem FieldC.shape {lo : Nat} {h : Heap} {N : List (String × Addr)} {c : Addr} (r : FieldC lo h N c) : fieldShape (refOK N) h c = true := by
  obtain ⟨_, f, hf, hr, ha⟩ := r
  simp only [fieldShape, hf, hr, Bool.true_and, List.all_eq_true]
  exact fun x hx => (ha x hx).shape

theorem readArg_alloc_new' (h : Heap) (g : ArgO) : (h.alloc (.arg g)).1.readArg h.size = some g := by
  simp [Heap.readArg, Heap.alloc, Heap.read, Heap.size]

theorem readField_alloc_new' (h : Heap) (g : FieldO) : (h.alloc (.field g)).1.readField h.size = some g := by
  simp [Heap.readField, Heap.alloc, Heap.read, Heap.size]

/-- `_build_argument` / `_build_input_field` of the extension document -/
theorem buildArgs_closed (N : List (String × Addr)) : ∀ (gs : List ExtArg) (h : Heap),
    (∀ g, g ∈ gs → (lookup N (tnBase g.ty)).isSome = true) → ∀ c, c ∈ (buildArgs N h gs).2 → ArgC h.size (buildArgs N h gs).1 N c := by
  intro gs
  induction gs with
  | nil => intro h _ c hc; simp [buildArgs] at hc
  | cons g gs ih =>
    intro h hs c hc
    simp only [buildArgs, List.mem_cons] at hc ⊢
    have kf : KeepsFrom h.size (h.alloc (.arg { name := g.name, ty := tnRef N g.ty, py := g.name, dflt := none, desc := none })).1
        (buildArgs N (h.alloc (.arg { name := g.name, ty := tnRef N g.ty, py := g.name, dflt := none, desc := none })).1 gs).1 :=
      keepsFrom_of_frameX (buildArgsX _ N gs _)
    rcases hc with rfl | hc
    · apply ArgC.keep kf
      exact ⟨Nat.le_refl _, _, readArg_alloc_new' h _, refOK_tnRef N g.ty (hs g (by simp))⟩
    · have := ih _ (fun g' hg' => hs g' (by simp [hg'])) c hc
      rw [size_alloc] at this
      exact this.weaken (Nat.le_succ _)

/-- `_extend_field(_build_field(…))` of the extension document -/
theorem buildFields_closed (N : List (String × Addr)) : ∀ (fs : List ExtField) (h : Heap),
    (∀ f, f ∈ fs → (lookup N (tnBase f.ty)).isSome = true ∧ ∀ g, g ∈ f.args → (lookup N (tnBase g.ty)).isSome = true) →
    ∀ c, c ∈ (buildFields N h fs).2 → FieldC h.size (buildFields N h fs).1 N c := by
  intro fs
  induction fs with
  | nil => intro h _ c hc; simp [buildFields] at hc
  | cons f fs ih =>
    intro h hs c hc
    obtain ⟨hty, hargs⟩ := hs f (by simp)
    simp only [buildFields, List.mem_cons] at hc ⊢
    have kA : KeepsFrom h.size h (buildArgs N h f.args).1 := keepsFrom_of_frameX (buildArgsX _ N f.args h)
    have k1 := keepsFrom_alloc h.size (buildArgs N h f.args).1
      (.field { name := f.name, ty := tnRef N f.ty, args := (buildArgs N h f.args).2, desc := none, depr := none, res := f.res, sub := none, py := f.name })
    have k2 : KeepsFrom h.size ((buildArgs N h f.args).1.alloc
        (.field { name := f.name, ty := tnRef N f.ty, args := (buildArgs N h f.args).2, desc := none, depr := none, res := f.res, sub := none, py := f.name })).1
        (buildFields N ((buildArgs N h f.args).1.alloc
          (.field { name := f.name, ty := tnRef N f.ty, args := (buildArgs N h f.args).2, desc := none, depr := none, res := f.res, sub := none, py := f.name })).1 fs).1 :=
      keepsFrom_of_frameX (buildFieldsX _ N fs _)
    rcases hc with rfl | hc
    · apply FieldC.keep k2
      refine ⟨kA.1, _, readField_alloc_new' _ _, refOK_tnRef N f.ty hty, ?_⟩
      intro x hx
      exact (buildArgs_closed N f.args h hargs x hx).keep k1
    · have := ih _ (fun f' hf' => hs f' (by simp [hf'])) c hc
      exact this.weaken (Nat.le_trans kA.1 k1.1)

/-- a rebuilt argument of a closed source argument is closed -/
theorem argRelB_C {k : Bool} {N : List (String × Addr)} {h0 hout : Heap} {lo : Nat} {chk0 : Ref → Bool}
    (hreg : ∀ r, chk0 r = true → (lookup N r.name).isSome = true) {a c : Addr} (ha : argShape chk0 h0 a = true)
    (r : ArgRelB k N h0 hout lo a c) : ArgC lo hout N c := by
  obtain ⟨hlo, g, g', e1, e2, _, _, _, hty, _⟩ := r
  simp only [argShape, e1] at ha
  exact ⟨hlo, g', e2, by rw [hty]; exact refOK_repoint N g.ty (hreg _ ha)⟩

theorem all2_argRelB_C {k : Bool} {N : List (String × Addr)} {h0 hout : Heap} {lo : Nat} {chk0 : Ref → Bool}
    (hreg : ∀ r, chk0 r = true → (lookup N r.name).isSome = true) {as cs : List Addr} (hs : ∀ a, a ∈ as → argShape chk0 h0 a = true)
    (r : All2 (ArgRelB k N h0 hout lo) as cs) : ∀ c, c ∈ cs → ArgC lo hout N c := by
  intro c hc
  obtain ⟨a, ha, rac⟩ := forall2_mem_right r c hc
  exact argRelB_C hreg (hs a ha) rac

theorem fieldRelB_C {cfg : Cfg} {N : List (String × Addr)} {h0 hout : Heap} {lo : Nat} {chk0 : Ref → Bool}
    (hreg : ∀ r, chk0 r = true → (lookup N r.name).isSome = true) {a c : Addr} (ha : fieldShape chk0 h0 a = true)
    (r : FieldRelB cfg N h0 hout lo a c) : FieldC lo hout N c := by
  obtain ⟨hlo, f, f', e1, e2, ⟨_, _, _, _, hty, _, _⟩, hargs⟩ := r
  simp only [fieldShape, e1, Bool.and_eq_true, List.all_eq_true] at ha
  exact ⟨hlo, f', e2, by rw [hty]; exact refOK_repoint N f.ty (hreg _ ha.1), all2_argRelB_C hreg ha.2 hargs⟩

/-- the members of one type, by kind -/
def KidsC (lo : Nat) (hout : Heap) (N : List (String × Addr)) (k : Kind) (kids : List Addr) : Prop :=
  match k with
  | .input => ∀ c, c ∈ kids → ArgC lo hout N c
  | .object | .interface => ∀ c, c ∈ kids → FieldC lo hout N c
  | _ => kids = []

theorem KidsC.keep {lo : Nat} {h1 h2 : Heap} {N : List (String × Addr)} (kf : KeepsFrom lo h1 h2) {k : Kind} {kids : List Addr}
    (r : KidsC lo h1 N k kids) : KidsC lo h2 N k kids := by
  cases k <;> simp only [KidsC] at r ⊢
  · exact fun c hc => (r c hc).keep kf
  · exact fun c hc => (r c hc).keep kf
  · exact r
  · exact r
  · exact fun c hc => (r c hc).keep kf
  · exact r

theorem KidsC.membersOK {lo : Nat} {h : Heap} {N : List (String × Addr)} {t : TypeO} (r : KidsC lo h N t.kind t.fields) :
    typeMembersOK (refOK N) h t = true := by
  simp only [typeMembersOK]
  cases hk : t.kind <;> simp only [hk, KidsC, List.all_eq_true] at r ⊢
  · exact fun c hc => (r c hc).shape
  · exact fun c hc => (r c hc).shape
  · exact fun c hc => (r c hc).shape

/-- the names a list of field / argument definitions of the document uses are registered -/
def FieldsOK (N : List (String × Addr)) (fs : List ExtField) : Prop :=
  ∀ f, f ∈ fs → (lookup N (tnBase f.ty)).isSome = true ∧ ∀ g, g ∈ f.args → (lookup N (tnBase g.ty)).isSome = true
def ArgsOK (N : List (String × Addr)) (gs : List ExtArg) : Prop := ∀ g, g ∈ gs → (lookup N (tnBase g.ty)).isSome = true

/-- ALL members `_extend_*_type` passes to the constructor — rebuilt and added — are closed -/
theorem extendKids_closed (cfg : Cfg) (ext : Ext) (N : List (String × Addr)) (h0 h : Heap) (t : TypeO) {chk0 : Ref → Bool}
    (hreg : ∀ r, chk0 r = true → (lookup N r.name).isSome = true)
    (fr : FrameX (fun x => h0.size ≤ x) h0 h) (hsh : typeMembersOK chk0 h0 t = true)
    (hf : FieldsOK N (assocD ext.fields t.name)) (hi : ArgsOK N (assocD ext.inputFields t.name)) :
    KidsC h.size (extendKids cfg ext N N h t).1 N t.kind (extendKids cfg ext N N h t).2 := by
  simp only [extendKids, KidsC, typeMembersOK] at hsh ⊢
  cases hk : t.kind <;> simp only [hk, List.all_eq_true] at hsh ⊢
  · intro c hc
    have hread : ∀ a, a ∈ t.fields → ∃ f, h0.readField a = some f ∧ ∀ x, x ∈ f.args → ∃ g, h0.readArg x = some g := by
      intro a ha
      obtain ⟨f, hf', _, hargs⟩ := (fieldShape_iff chk0 h0 a).mp (hsh a ha)
      exact ⟨f, hf', fun x hx => by obtain ⟨g, hg, _⟩ := (argShape_iff chk0 h0 x).mp (hargs x hx); exact ⟨g, hg⟩⟩
    have kB := keepsFrom_of_frameX (lo := h.size) (buildFieldsX (fun x => x < h.size) N (assocD ext.fields t.name) (extendFields cfg N h t.fields).1)
    have kE : h.size ≤ (extendFields cfg N h t.fields).1.size := (extendFieldsX (fun _ => False) cfg N t.fields h).1
    rcases List.mem_append.mp hc with hc | hc
    · obtain ⟨a, ha, rac⟩ := forall2_mem_right (extendFields_forall2 cfg N t.fields h0 h fr hread) c hc
      exact (fieldRelB_C hreg (hsh a ha) rac).keep kB
    · exact (buildFields_closed N _ _ hf c hc).weaken kE
  · intro c hc
    have hread : ∀ a, a ∈ t.fields → ∃ f, h0.readField a = some f ∧ ∀ x, x ∈ f.args → ∃ g, h0.readArg x = some g := by
      intro a ha
      obtain ⟨f, hf', _, hargs⟩ := (fieldShape_iff chk0 h0 a).mp (hsh a ha)
      exact ⟨f, hf', fun x hx => by obtain ⟨g, hg, _⟩ := (argShape_iff chk0 h0 x).mp (hargs x hx); exact ⟨g, hg⟩⟩
    have kB := keepsFrom_of_frameX (lo := h.size) (buildFieldsX (fun x => x < h.size) N (assocD ext.fields t.name) (extendFields cfg N h t.fields).1)
    have kE : h.size ≤ (extendFields cfg N h t.fields).1.size := (extendFieldsX (fun _ => False) cfg N t.fields h).1
    rcases List.mem_append.mp hc with hc | hc
    · obtain ⟨a, ha, rac⟩ := forall2_mem_right (extendFields_forall2 cfg N t.fields h0 h fr hread) c hc
      exact (fieldRelB_C hreg (hsh a ha) rac).keep kB
    · exact (buildFields_closed N _ _ hf c hc).weaken kE
  · intro c hc
    have hread : ∀ a, a ∈ t.fields → ∃ g, h0.readArg a = some g := by
      intro a ha
      obtain ⟨g, hg, _⟩ := (argShape_iff chk0 h0 a).mp (hsh a ha)
      exact ⟨g, hg⟩
    have kB := keepsFrom_of_frameX (lo := h.size) (buildArgsX (fun x => x < h.size) N (assocD ext.inputFields t.name) (extendArgs cfg.extInputPy N h t.fields).1)
    have kE : h.size ≤ (extendArgs cfg.extInputPy N h t.fields).1.size := (extendArgsX (fun _ => False) cfg.extInputPy N t.fields h).1
    rcases List.mem_append.mp hc with hc | hc
    · obtain ⟨a, ha, rac⟩ := forall2_mem_right (extendArgs_forall2 cfg.extInputPy N t.fields h0 h fr hread) c hc
      exact (argRelB_C hreg (hsh a ha) rac).keep kB
    · exact (buildArgs_closed N _ _ hi c hc).weaken kE

end PyGql.Heap.Own

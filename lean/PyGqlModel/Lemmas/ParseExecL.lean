/-
  Layer 3: variable definitions (with constant directives), operations (shorthand and long form),
  fragment definitions (with / without the experimental fragment variables), executable definitions.
-/
import PyGqlModel.Lemmas.ParseSelC
namespace PyGql.Parse
open PyGql PyGql.Ast PyGql.Spec

theorem followType_of_notK {t : TypeRef} {rest : List Tok} (h : NotK [.bang] rest) : FollowType t rest := by
  obtain ⟨t0, tl, rfl, hk⟩ := h
  cases t <;> simp [FollowType] <;> simpa using hk

theorem firstIn_defaultV (fl : Flags) (o : Option Value) : FirstIn fl [.equals] (defaultV o) := by
  cases o with
  | none => simpa [defaultV] using FirstIn.nil fl [.equals]
  | some v => simpa [defaultV] using FirstIn.tok fl .equals [] _

/-! ### the shared tail `: Type DefaultValue? Directives[Const]?` of variable and input-value definitions -/

/-- the parser of the tail -/
def typeDefaultDirs (fl : Flags) (fuel : Nat) : P (TypeRef × Option Value × List Directive) := do
  let _ ← expect .colon
  let type_ ← parseTypeReference fl fuel
  let defaultValue ←
    (do if (← skip .equals) then do
          let v ← parseValueLiteral fl fuel true
          pure (some v)
        else pure none : P (Option Value))
  let directives ← parseDirectives fl fuel true
  pure (type_, defaultValue, directives)

theorem typeDefaultDirs_sound (fl : Flags) (fuel : Nat) (s : PS) (t : TypeRef) (dv : Option Value) (ds : List Directive)
    (s' : PS) (h : typeDefaultDirs fl fuel s = .ok ((t, dv, ds), s')) :
    (wfType t = true ∧ wfDefault dv = true ∧ wfDirectives true ds = true) ∧
      Item.checkAll fl (p .colon :: typeV t :: (defaultV dv ++ directivesV ds)) s.last s.toks =
        some (s'.last, s'.toks) := by
  simp only [typeDefaultDirs, bind_ok, expect_ok, skip_ok, ite_ok, pure_ok] at h
  obtain ⟨col, s1, ⟨ts1, h1, hk1, hs1⟩, ty, s2, hty, dv', s3, hdv, ds', s4, hds, hfin⟩ := h
  cases hfin
  obtain ⟨wt, ct⟩ := parseTypeReference_sound fl _ _ _ _ hty
  obtain ⟨wd, cd⟩ := parseDirectives_sound fl _ _ _ _ _ hds
  have hdef : wfDefault dv = true ∧ Item.checkAll fl (defaultV dv) s2.last s2.toks = some (s3.last, s3.toks) := by
    obtain ⟨b, s5, ⟨t5, ts5, h5, hb⟩, hx⟩ := hdv
    rcases hb with ⟨hk, rfl, rfl⟩ | ⟨hk, rfl, rfl⟩
    · simp only [true_and, not_true_eq_false, false_and, or_false] at hx
      obtain ⟨v, s6, hv, hfin⟩ := hx
      cases hfin
      obtain ⟨wv, cv⟩ := parseValueLiteral_sound fl _ _ _ _ _ hv
      simp only at cv
      simp [wfDefault, wv, defaultV, Item.checkAll, Item.check, h5, cls_const hk rfl, cv]
    · simp only [Bool.false_eq_true, false_and, not_false_eq_true, true_and, false_or] at hx
      cases hx
      simp [wfDefault, defaultV, Item.checkAll]
  obtain ⟨wdv, cdv⟩ := hdef
  subst hs1
  refine ⟨⟨wt, wdv, wd⟩, ?_⟩
  rw [checkAll_cons]
  refine ⟨col, ts1, by simp [h1, Item.check, cls_const hk1 rfl], ?_⟩
  rw [checkAll_cons]
  refine ⟨_, _, ct, ?_⟩
  rw [checkAll_append]
  exact ⟨_, _, cdv, cd⟩

/-- what follows a variable / input-value definition -/
abbrev FollowTDD (rest : List Tok) : Prop := NotK [.bang, .equals, .atSign, .parenL] rest

theorem typeDefaultDirs_complete (fl : Flags) (fuel : Nat) (t : TypeRef) (dv : Option Value) (ds : List Directive)
    (l l' : Tok) (ts rest : List Tok) (wt : wfType t = true) (wdv : wfDefault dv = true)
    (wd : wfDirectives true ds = true) (hf : ts.length ≤ fuel) (hfol : FollowTDD rest)
    (h : Item.checkAll fl (p .colon :: typeV t :: (defaultV dv ++ directivesV ds)) l ts = some (l', rest)) :
    typeDefaultDirs fl fuel ⟨ts, l⟩ = .ok ((t, dv, ds), ⟨rest, l'⟩) := by
  simp only [checkAll_cons, check_tok] at h
  obtain ⟨l1, ts1, ⟨col, rfl, hc, rfl⟩, l2, ts2, hty, hall⟩ := h
  have hall0 := hall
  rw [checkAll_append] at hall
  obtain ⟨l3, ts3, hdv, hds⟩ := hall
  have len2 : ts2.length ≤ ts1.length := check_len hty
  have len3 : ts3.length ≤ ts2.length := checkAll_len hdv
  have f2 : NotK [.bang] ts2 :=
    ((firstIn_defaultV fl dv).append (firstIn_directivesV fl ds)).use hall0 (hfol.mono (by simp)) (by simp)
  have f3 : FollowDirs rest := hfol.mono (ks' := [.atSign, .parenL]) (by simp)
  have hwt : width (typeV t) ≤ fuel := by
    have := check_width fl _ _ _ _ _ hty
    simp [width] at *; omega
  have ct := parseTypeReference_complete fl fuel t l1 l2 ts1 ts2 wt hwt hty (followType_of_notK f2)
  have cd := parseDirectives_complete fl fuel true ds l3 l' ts3 rest wd (by simp at hf; omega) f3 hds
  cases dv with
  | none =>
    simp only [defaultV, checkAll_nil] at hdv
    cases hdv
    have f : NotK [.equals] ts2 := (firstIn_directivesV fl ds).use hds (hfol.mono (by simp)) (by simp)
    obtain ⟨t2, tl2, rfl, hk2⟩ := f
    have hk2' : t2.kind ≠ .equals := by simpa using hk2
    simp [typeDefaultDirs, bind_eq, expect_pos (cls_kind hc), ct, skip_neg hk2', cd, pure_eq]
  | some v =>
    simp only [defaultV, checkAll_cons, checkAll_nil, check_tok] at hdv
    obtain ⟨l4, ts4, ⟨eq, h4, hc4, rfl⟩, l5, ts5, hv, hfin⟩ := hdv
    cases hfin; subst h4
    have hwv : width (valueV v) ≤ fuel := by
      have := check_width fl _ _ _ _ _ hv
      simp [width] at *; omega
    have cv := parseValueLiteral_complete fl fuel true v l4 l3 ts4 ts3 (by simpa [wfDefault] using wdv) hwv hv
    simp [typeDefaultDirs, bind_eq, expect_pos (cls_kind hc), ct, skip_pos (cls_kind hc4), cv, cd, pure_eq]


/-! ### monad laws (used to factor shared tails out of the parser functions) -/

theorem bind_assoc' {α β γ} (m : P α) (f : α → P β) (g : β → P γ) :
    (m >>= f) >>= g = m >>= fun a => f a >>= g := by
  funext s
  simp only [bind_eq]
  cases h : m s with
  | error e => rfl
  | ok r => rcases r with ⟨a, s1⟩; rfl

theorem pure_bind' {α β} (a : α) (f : α → P β) : (pure a : P α) >>= f = f a := by
  funext s; rfl

/-! ### `parse_variable_definition(s)` -/

theorem parseVariableDefinition_eq (fl : Flags) (fuel : Nat) :
    parseVariableDefinition fl fuel = (do
      let start ← peek
      let v ← parseVariable fl
      let r ← typeDefaultDirs fl fuel
      pure { var := v, type := r.1, defaultValue := r.2.1, directives := r.2.2, loc := ← mkLoc fl start }) := by
  simp only [parseVariableDefinition, typeDefaultDirs, bind_assoc', pure_bind']

theorem parseVariableDefinition_sound (fl : Flags) (fuel : Nat) (s : PS) (d : VariableDefinition) (s' : PS)
    (h : parseVariableDefinition fl fuel s = .ok (d, s')) :
    wfVariableDefinition d = true ∧ (variableDefinitionV d).check fl s.last s.toks = some (s'.last, s'.toks) := by
  rw [parseVariableDefinition_eq] at h
  simp only [bind_ok, peek_ok, mkLoc_ok, pure_ok] at h
  obtain ⟨st, s1, ⟨ts, h1, hs1⟩, v, s2, hv, ⟨t, dv, ds⟩, s3, htd, loc, s4, ⟨hloc, hs4⟩, hfin⟩ := h
  subst hs1
  have cv := parseVariable_sound fl _ _ _ hv
  obtain ⟨⟨wt, wdv, wd⟩, ctd⟩ := typeDefaultDirs_sound fl fuel _ _ _ _ _ htd
  cases hfin; subst hs4; subst hloc
  refine ⟨by simp [wfVariableDefinition, wt, wdv, wd], ?_⟩
  simp only [variableDefinitionV, check_node]
  refine ⟨_, _, h1, ?_, rfl⟩
  rw [checkAll_cons]
  exact ⟨_, _, cv, ctd⟩

theorem parseVariableDefinition_complete (fl : Flags) (fuel : Nat) (d : VariableDefinition) (l l' : Tok)
    (ts rest : List Tok) (w : wfVariableDefinition d = true) (hf : ts.length ≤ fuel) (hfol : FollowTDD rest)
    (h : (variableDefinitionV d).check fl l ts = some (l', rest)) :
    parseVariableDefinition fl fuel ⟨ts, l⟩ = .ok (d, ⟨rest, l'⟩) := by
  rcases d with ⟨v, t, dv, ds, loc⟩
  simp only [variableDefinitionV, check_node] at h
  obtain ⟨f, tl, rfl, hall, rfl⟩ := h
  rw [checkAll_cons] at hall
  obtain ⟨l1, ts1, hv, htd⟩ := hall
  simp only [wfVariableDefinition, Bool.and_eq_true] at w
  have cv := parseVariable_complete fl _ _ _ _ _ hv
  have ctd := typeDefaultDirs_complete fl fuel t dv ds l1 l' ts1 rest w.1.1 w.1.2 w.2
    (Nat.le_trans (check_len hv) hf) hfol htd
  rw [parseVariableDefinition_eq]
  simp [bind_eq, peek_cons, cv, ctd, mkLoc_eq, pure_eq]

theorem parseVariableDefinitions_eq (fl : Flags) (fuel : Nat) :
    parseVariableDefinitions fl fuel = optMany fuel .parenL (parseVariableDefinition fl fuel) .parenR := rfl

theorem variableDefinitionV_first {fl : Flags} {d : VariableDefinition} {l : Tok} {ts : List Tok} {r : Tok × List Tok}
    (h : (variableDefinitionV d).check fl l ts = some r) : ∃ t tl, ts = t :: tl ∧ t.kind = .dollar := by
  rcases r with ⟨l', rest⟩
  simp only [variableDefinitionV, variableV, check_node, checkAll_cons, check_tok] at h
  obtain ⟨f, tl, rfl, ⟨l1, ts1, ⟨f2, tl2, e, ⟨l3, ts3, ⟨t, h3, hc, _⟩, _⟩, _⟩, _⟩, _⟩ := h
  cases e; cases h3; exact ⟨_, _, rfl, cls_kind hc⟩

theorem variableDefinitionV_width (d : VariableDefinition) : 1 ≤ (variableDefinitionV d).yield.length := by
  simp [variableDefinitionV, variableV, Item.yield, Item.yieldAll]

theorem parseVariableDefinitions_sound (fl : Flags) (fuel : Nat) (s : PS) (ds : List VariableDefinition) (s' : PS)
    (h : parseVariableDefinitions fl fuel s = .ok (ds, s')) :
    (∀ d ∈ ds, wfVariableDefinition d = true) ∧
      Item.checkAll fl (variableDefinitionsV ds) s.last s.toks = some (s'.last, s'.toks) := by
  rw [parseVariableDefinitions_eq] at h
  obtain ⟨q, c, _⟩ := optMany_sound fl _ .parenL .parenR rfl rfl (fun d => wfVariableDefinition d = true)
    variableDefinitionV (parseVariableDefinition_sound fl fuel) _ _ _ _ h
  exact ⟨q, c⟩

theorem parseVariableDefinitions_complete (fl : Flags) (fuel : Nat) (ds : List VariableDefinition) (l l' : Tok)
    (ts rest : List Tok) (w : ∀ d ∈ ds, wfVariableDefinition d = true) (hf : ts.length ≤ fuel)
    (hempty : ds = [] → NotK [.parenL] rest)
    (h : Item.checkAll fl (variableDefinitionsV ds) l ts = some (l', rest)) :
    parseVariableDefinitions fl fuel ⟨ts, l⟩ = .ok (ds, ⟨rest, l'⟩) := by
  rw [parseVariableDefinitions_eq]
  apply optMany_complete fl _ .parenL .parenR variableDefinitionV FollowTDD fuel ds l l' ts rest
  · exact Nat.le_trans (groupV_len variableDefinitionV_width h) hf
  · intro d hd l ts' l' rest hl hc hfo
    exact parseVariableDefinition_complete fl fuel d l l' ts' rest (w d hd) (by omega) hfo hc
  · intro d _ l ts r hc
    obtain ⟨t, tl, rfl, hk⟩ := variableDefinitionV_first hc
    exact ⟨NotK.cons (by simp [hk]), NotK.cons (by simp [hk])⟩
  · intro t tl hk; exact NotK.cons (by simp [hk])
  · exact hempty
  · exact h


/-! ### operations -/

theorem parseOperationType_ok (s : PS) (v : Text) (s' : PS) :
    parseOperationType s = .ok (v, s') ↔
      ∃ t ts, s.toks = t :: ts ∧ t.kind = .name ∧ t.value = v ∧ v ∈ Generated.ParserTables.operationTypeTuple ∧
        s' = ⟨ts, t⟩ := by
  simp only [parseOperationType, bind_ok, expect_ok, ite_ok, pure_ok, failAt_ok, and_false, or_false]
  constructor
  · rintro ⟨t, s1, ⟨ts, h1, hk, rfl⟩, hm, hfin⟩
    cases hfin
    exact ⟨t, ts, h1, hk, rfl, hm, rfl⟩
  · rintro ⟨t, ts, h1, hk, rfl, hm, rfl⟩
    exact ⟨t, _, ⟨ts, h1, hk, rfl⟩, hm, rfl⟩

theorem query_mem : K.query ∈ Generated.ParserTables.operationTypeTuple := by decide

theorem parseOperationDefinition_sound (fl : Flags) (fuel : Nat) (s : PS) (d : OperationDefinition) (s' : PS)
    (h : parseOperationDefinition fl fuel s = .ok (d, s')) :
    wfOperation d = true ∧ (operationV d).check fl s.last s.toks = some (s'.last, s'.toks) := by
  simp only [parseOperationDefinition, bind_ok, peek_ok, ite_ok, mkLoc_ok, pure_ok, parseOperationType_ok] at h
  obtain ⟨st, s1, ⟨ts, h1, hs1⟩, h⟩ := h
  subst hs1
  rcases h with ⟨hk, ss, s2, hss, loc, s3, ⟨hloc, hs3⟩, hfin⟩ |
    ⟨hk, op, s2, ⟨t, ts2, h2, hkn, hv, hm, hs2⟩, nm, s3, hnm, vds, s4, hvd, ds, s5, hd, ss, s6, hss, loc, s7,
      ⟨hloc, hs7⟩, hfin⟩
  · -- shorthand
    obtain ⟨wss, css⟩ := parseSelectionSet_sound fl fuel _ _ _ hss
    cases hfin; subst hs3; subst hloc
    refine ⟨by simp [wfOperation, query_mem, wfDirectives, wss], ?_⟩
    have hne : cls st ≠ (.name, K.query) := by
      intro e; rw [cls_kind e] at hk; cases hk
    simp only [operationV, isShorthand, Option.isNone_none, List.isEmpty_nil, and_self, decide_true, if_true,
      check_node]
    refine ⟨_, _, h1, ?_, rfl⟩
    rw [checkAll_cons]
    refine ⟨s1.last, s1.toks, ?_, by simp [Item.checkAll, css]⟩
    rw [h1, check_optTok]
    exact Or.inr ⟨rfl, rfl, fun t tl e => by cases e; exact hne⟩
  · -- long form
    rw [h1] at h2; cases h2
    subst hs2
    obtain ⟨wv, cvd⟩ := parseVariableDefinitions_sound fl fuel _ _ _ hvd
    obtain ⟨wd, cd⟩ := parseDirectives_sound fl _ _ _ _ _ hd
    obtain ⟨wss, css⟩ := parseSelectionSet_sound fl fuel _ _ _ hss
    have hname : Item.checkAll fl (optV nameV nm) st ts = some (s3.last, s3.toks) := by
      obtain ⟨t, s8, ⟨ts8, h8, hs8⟩, hx⟩ := hnm
      subst hs8
      rcases hx with ⟨_, n, s9, hn, hfin⟩ | ⟨_, hfin⟩
      · cases hfin
        have := parseName_sound fl _ _ _ hn
        simp only at this
        simp [optV, Item.checkAll, this]
      · cases hfin
        simp [optV, Item.checkAll]
    cases hfin; subst hs7; subst hloc; subst hv
    refine ⟨by simp [wfOperation, hm, wd, wss]; exact wv, ?_⟩
    have htail : Item.checkAll fl (optV nameV nm ++ variableDefinitionsV vds ++ directivesV ds ++ [selectionSetV ss])
        st ts = some (s'.last, s'.toks) := by
      rw [List.append_assoc, List.append_assoc, checkAll_append]
      refine ⟨_, _, hname, ?_⟩
      rw [checkAll_append]
      refine ⟨_, _, cvd, ?_⟩
      rw [checkAll_append]
      refine ⟨_, _, cd, ?_⟩
      simp [Item.checkAll, css]
    by_cases hsh : isShorthand ⟨st.value, nm, vds, ds, ss, locOf fl st s'.last⟩ = true
    · -- `query { … }` written in long form: the optional keyword is present
      simp only [isShorthand, Bool.and_eq_true, decide_eq_true_eq, Option.isNone_iff_eq_none,
        List.isEmpty_iff] at hsh
      obtain ⟨hq, hn0, hv0, hd0⟩ := hsh
      subst hn0; subst hv0; subst hd0
      simp only [operationV, isShorthand, hq, Option.isNone_none, List.isEmpty_nil, and_self, decide_true, if_true,
        check_node]
      refine ⟨_, _, h1, ?_, rfl⟩
      rw [checkAll_cons]
      refine ⟨st, ts, ?_, ?_⟩
      · rw [h1, check_optTok]
        exact Or.inl ⟨st, rfl, by simp [cls, hkn, hasValue, hq], rfl⟩
      · simpa [optV, variableDefinitionsV, groupV, directivesV] using htail
    · simp only [operationV, hsh, Bool.false_eq_true, if_false, check_node]
      refine ⟨_, _, h1, ?_, rfl⟩
      rw [checkAll_cons]
      exact ⟨st, ts, by simp [h1, Item.check, cls, hkn, hasValue], htail⟩


theorem parseOperationType_pos {t : Tok} (hk : t.kind = .name) (hm : t.value ∈ Generated.ParserTables.operationTypeTuple)
    (ts : List Tok) (l : Tok) : parseOperationType ⟨t :: ts, l⟩ = .ok (t.value, ⟨ts, t⟩) := by
  rw [parseOperationType_ok]
  exact ⟨t, ts, rfl, hk, rfl, hm, rfl⟩

/-- the long form after the operation type: `Name? VariableDefinitions? Directives? SelectionSet` -/
theorem operationTail_complete (fl : Flags) (fuel : Nat) (nm : Option Name) (vds : List VariableDefinition)
    (ds : List Directive) (ss : SelectionSet) (l l' : Tok) (ts rest : List Tok)
    (wv : ∀ d ∈ vds, wfVariableDefinition d = true) (wd : wfDirectives false ds = true)
    (wss : wfSelectionSet ss = true) (hf : ts.length ≤ fuel)
    (h : Item.checkAll fl (optV nameV nm ++ variableDefinitionsV vds ++ directivesV ds ++ [selectionSetV ss]) l ts =
      some (l', rest)) :
    (do let name ← (do if (← peek).kind = .name then do
                          let n ← parseName fl
                          pure (some n)
                        else pure none : P (Option Name))
        let variableDefinitions ← parseVariableDefinitions fl fuel
        let directives ← parseDirectives fl fuel false
        let selectionSet ← parseSelectionSet fl fuel
        pure (name, variableDefinitions, directives, selectionSet) :
          P (Option Name × List VariableDefinition × List Directive × SelectionSet)) ⟨ts, l⟩ =
      .ok ((nm, vds, ds, ss), ⟨rest, l'⟩) := by
  rw [List.append_assoc, List.append_assoc, checkAll_append] at h
  obtain ⟨l1, ts1, hn, hall⟩ := h
  have hall0 := hall
  rw [checkAll_append] at hall
  obtain ⟨l2, ts2, hv, hall⟩ := hall
  have hall1 := hall
  rw [checkAll_append] at hall
  obtain ⟨l3, ts3, hd, hs⟩ := hall
  simp only [checkAll_cons, checkAll_nil] at hs
  obtain ⟨l4, ts4, hs, hfin⟩ := hs
  cases hfin
  obtain ⟨t3, tl3, rfl, hk3⟩ := selectionSetV_first hs
  have len1 : ts1.length ≤ ts.length := checkAll_len hn
  have len2 : ts2.length ≤ ts1.length := checkAll_len hv
  have len3 : (t3 :: tl3).length ≤ ts2.length := checkAll_len hd
  have f3 : FollowDirs (t3 :: tl3) := NotK.cons (by simp [hk3])
  have f2 : NotK [.parenL] ts2 := (firstIn_directivesV fl ds).use hd (NotK.cons (by simp [hk3])) (by simp)
  have f1 : NotK [.name] ts1 :=
    ((firstIn_groupV fl .parenL .parenR variableDefinitionV vds).append (firstIn_directivesV fl ds)).use
      (by rw [checkAll_append]; exact ⟨_, _, hv, hd⟩) (NotK.cons (by simp [hk3])) (by simp)
  have cv := parseVariableDefinitions_complete fl fuel vds l1 l2 ts1 ts2 wv (by omega) (fun _ => f2) hv
  have cd := parseDirectives_complete fl fuel false ds l2 l3 ts2 (t3 :: tl3) wd (by omega) f3 hd
  have cs := parseSelectionSet_complete fl fuel ss l3 l' (t3 :: tl3) rest (by omega) wss hs
  cases nm with
  | none =>
    simp only [optV, checkAll_nil] at hn
    cases hn
    obtain ⟨t1, tl1, rfl, hk1⟩ := f1
    have hk1' : t1.kind ≠ .name := by simpa using hk1
    simp [bind_eq, peek_cons, hk1', cv, cd, cs, pure_eq]
  | some n =>
    simp only [optV, checkAll_cons, checkAll_nil] at hn
    obtain ⟨l5, ts5, hn, hfin⟩ := hn
    cases hfin
    obtain ⟨t0, tl0, rfl, hk0⟩ := nameV_first hn
    have cn := parseName_complete fl _ _ _ _ _ hn
    simp [bind_eq, peek_cons, hk0, cn, cv, cd, cs, pure_eq]

theorem parseOperationDefinition_long_eq (fl : Flags) (fuel : Nat) (st : Tok) (ts : List Tok) (l : Tok)
    (hk : st.kind ≠ .curlyL) :
    parseOperationDefinition fl fuel ⟨st :: ts, l⟩ =
      (do let operation ← parseOperationType
          let r ← (do
            let name ← (do if (← peek).kind = .name then do
                              let n ← parseName fl
                              pure (some n)
                            else pure none : P (Option Name))
            let variableDefinitions ← parseVariableDefinitions fl fuel
            let directives ← parseDirectives fl fuel false
            let selectionSet ← parseSelectionSet fl fuel
            pure (name, variableDefinitions, directives, selectionSet) :
              P (Option Name × List VariableDefinition × List Directive × SelectionSet))
          pure { operation := operation, name := r.1, variableDefinitions := r.2.1, directives := r.2.2.1,
                 selectionSet := r.2.2.2, loc := ← mkLoc fl st } : P OperationDefinition) ⟨st :: ts, l⟩ := by
  simp only [parseOperationDefinition, bind_assoc', pure_bind']
  rw [bind_eq, peek_cons]
  simp only [hk, if_false]

theorem parseOperationDefinition_complete (fl : Flags) (fuel : Nat) (d : OperationDefinition) (l l' : Tok)
    (ts rest : List Tok) (w : wfOperation d = true) (hf : ts.length ≤ fuel)
    (h : (operationV d).check fl l ts = some (l', rest)) :
    parseOperationDefinition fl fuel ⟨ts, l⟩ = .ok (d, ⟨rest, l'⟩) := by
  rcases d with ⟨op, nm, vds, ds, ss, loc⟩
  simp only [wfOperation, Bool.and_eq_true, List.all_eq_true] at w
  obtain ⟨⟨⟨wop, wv⟩, wd⟩, wss⟩ := w
  by_cases hsh : isShorthand ⟨op, nm, vds, ds, ss, loc⟩ = true
  · have hsh' := hsh
    simp only [isShorthand, Bool.and_eq_true, decide_eq_true_eq, Option.isNone_iff_eq_none, List.isEmpty_iff] at hsh'
    obtain ⟨hq, hn0, hv0, hd0⟩ := hsh'
    subst hq; subst hn0; subst hv0; subst hd0
    simp only [operationV, hsh, if_true, check_node] at h
    obtain ⟨f, tl, rfl, hall, rfl⟩ := h
    rw [checkAll_cons] at hall
    obtain ⟨l1, ts1, hopt, hs⟩ := hall
    simp only [checkAll_cons, checkAll_nil] at hs
    obtain ⟨l2, ts2, hs, hfin⟩ := hs
    cases hfin
    rw [check_optTok] at hopt
    rcases hopt with ⟨t, e, hc, rfl⟩ | ⟨rfl, rfl, _⟩
    · -- `query { … }`
      cases e
      have hk := cls_kind hc
      have hv : f.value = K.query := by simpa [cls, hk, hasValue] using hc
      have hkc : f.kind ≠ .curlyL := by simp [hk]
      have ct := operationTail_complete fl fuel none [] [] ss f l' tl rest (by simp) (by simp [wfDirectives]) wss
        (by simp at hf; omega) (by simp [optV, variableDefinitionsV, groupV, directivesV, Item.checkAll, hs])
      rw [parseOperationDefinition_long_eq fl fuel f tl l hkc]
      rw [bind_eq, parseOperationType_pos hk (hv ▸ query_mem)]
      simp only []
      rw [bind_eq, ct]
      simp [bind_eq, mkLoc_eq, pure_eq, hv]
    · -- `{ … }`
      obtain ⟨t, tl', e, hk⟩ := selectionSetV_first hs
      cases e
      have cs := parseSelectionSet_complete fl fuel ss l1 l' (f :: tl) rest hf wss hs
      simp [parseOperationDefinition, bind_eq, peek_cons, hk, cs, mkLoc_eq, pure_eq]
  · simp only [operationV, hsh, Bool.false_eq_true, if_false, check_node, checkAll_cons, check_tok] at h
    obtain ⟨f, tl, rfl, ⟨l1, ts1, ⟨t, e, hc, rfl⟩, hall⟩, rfl⟩ := h
    cases e
    have hk := cls_kind hc
    have hv : f.value = op := by simpa [cls, hk, hasValue] using hc
    have hkc : f.kind ≠ .curlyL := by simp [hk]
    have ct := operationTail_complete fl fuel nm vds ds ss f l' tl rest wv wd wss (by simp at hf; omega) hall
    rw [parseOperationDefinition_long_eq fl fuel f tl l hkc]
    rw [bind_eq, parseOperationType_pos hk (hv ▸ (by simpa using wop))]
    simp only []
    rw [bind_eq, ct]
    simp [bind_eq, mkLoc_eq, pure_eq, hv]

end PyGql.Parse

/-
  `OverlappingFieldsCanBeMergedChecker`: FUEL SUFFICIENCY, part 2: fields against a fragment, fragment against
  fragment, sub-selection against sub-selection; all five together by induction on the fuel.
-/
import PyGqlModel.Lemmas.ValidateOverlapFuel
import PyGqlModel.Lemmas.ValidateOverlapComplete
namespace PyGql.Validate
open PyGql PyGql.Validate.Spec

section
variable (s : SchemaD) (fx : Fixes) (d : Doc) (ρ : Nat → Nat)

/-- `_fields_and_fragments` on a selection set: ranks of what it returns -/
theorem ff_rank (hR : RankOk s d ρ) {c : OCtx} (hc : CI s d c) {p : Option String} {i : Nat} {sels : List Sel}
    (h1 : SelSet d i sels) (h2 : Adm s d i p) :
    CI s d (fieldsAndFragments s p i sels c).2 ∧
    EntOK (fun _ e => Ent s d e) (fieldsAndFragments s p i sels c).1.1 ∧
    RkB ρ (ρ i - 2) (fieldsAndFragments s p i sels c).1.1 ∧
    (∀ g ∈ (fieldsAndFragments s p i sels c).1.2, fragRank ρ d g + 2 ≤ ρ i) ∧
    (fieldsAndFragments s p i sels c).2.crash = c.crash := by
  obtain ⟨⟨p', a1, a2⟩, a3, a4, a5⟩ := fieldsAndFragments_sound s d p i sels c hc.cache h2
  refine ⟨⟨a5.trans hc.frags, a4⟩, entOK_ent a2 h1 a1, ?_, ?_, ff_crash s p i sels c⟩
  · intro q hq e he
    have := hR.sub i sels p' q.1 e h1 (a2 q hq e he)
    show entryRank ρ e ≤ ρ i - 2
    omega
  · intro g hg
    exact hR.spr i sels g h1 (a3 g hg)

theorem fragRank_eq {c : OCtx} (hc : CI s d c) {name on : String} {fid : Nat} {fsels : List Sel}
    (hg : AL.get? c.frags name = some (on, fid, fsels)) : fragRank ρ d name = ρ fid := by
  rw [hc.frags] at hg
  simp only [fragRank, hg]

theorem ff_frag_rank (hR : RankOk s d ρ) {c : OCtx} (hc : CI s d c) {name on : String} {fid : Nat} {fsels : List Sel}
    (hg : AL.get? c.frags name = some (on, fid, fsels)) :
    CI s d (fieldsAndFragments s ((typeFromAst s (.named on)).map (·.base)) fid fsels c).2 ∧
    EntOK (fun _ e => Ent s d e) (fieldsAndFragments s ((typeFromAst s (.named on)).map (·.base)) fid fsels c).1.1 ∧
    RkB ρ (fragRank ρ d name - 2) (fieldsAndFragments s ((typeFromAst s (.named on)).map (·.base)) fid fsels c).1.1 ∧
    (∀ g ∈ (fieldsAndFragments s ((typeFromAst s (.named on)).map (·.base)) fid fsels c).1.2,
      fragRank ρ d g + 2 ≤ fragRank ρ d name) ∧
    2 ≤ fragRank ρ d name ∧
    (fieldsAndFragments s ((typeFromAst s (.named on)).map (·.base)) fid fsels c).2.crash = c.crash := by
  have hg' : AL.get? (fragTable d) name = some (on, fid, fsels) := by rw [← hc.frags]; exact hg
  have hadm : Adm s d fid (fragParent s on) := .frag hg'
  rw [fragRank_eq s d ρ hc hg]
  obtain ⟨a, b, c', e, f⟩ := ff_rank s d ρ hR hc (fragTable_selSet hg') hadm
  exact ⟨a, b, c', e, hR.two _ _ (fragTable_selSet hg'), f⟩

theorem nstep_ff (hR : RankOk s d ρ) (h7 : fx.v7 = true) (fuel : Nat) (hcb : NCb s fx d ρ fuel)
    (hff : NFf s fx d ρ fuel) : NFf s fx d ρ (fuel + 1) := by
  intro me ssid fm name c m hc h1 hm hr
  simp only [betweenFieldsAndFragment]
  by_cases hcm : c.cmp.contains name = true
  · rw [if_pos hcm]
  · rw [if_neg hcm]
    have hc1 : CI s d { c with cmp := name :: c.cmp } := hc.cmp _
    cases hg : c.frags.get? name with
    | none => rfl
    | some v =>
      obtain ⟨on, fid, fsels⟩ := v
      simp only
      obtain ⟨b1, b2, b3, b4, b5, b6⟩ := ff_frag_rank s d ρ hR hc1 (name := name) hg
      generalize fieldsAndFragments s ((typeFromAst s (.named on)).map (·.base)) fid fsels
        { c with cmp := name :: c.cmp } = r at b1 b2 b3 b4 b6 ⊢
      obtain ⟨⟨fm2, fr2⟩, c2⟩ := r
      simp only at b1 b2 b3 b4 b6 ⊢
      by_cases hid : (ssid == fid) = true
      · rw [if_pos hid]; exact b6
      · rw [if_neg hid]
        have k0 := hcb me fm fm2 c2 m _ b1 h1 b2 hm b3 (by omega)
        have k0c := ((search_sound s fx d h7 fuel).2.1 me fm fm2 c2 b1 h1 b2).1
        obtain ⟨-, k1⟩ := sumLoop_crash fr2 (fun fr c => betweenFieldsAndFragment s fx fuel me ssid fm fr c) (CI s d)
          (fun fr hfr c hc => ⟨((search_sound s fx d h7 fuel).2.2.1 me ssid fm fr c hc h1).1,
            hff me ssid fm fr c m hc h1 hm (by have := b4 fr hfr; omega)⟩) _ k0c
        exact k1.trans (k0.trans b6)

theorem nstep_fr (hR : RankOk s d ρ) (h7 : fx.v7 = true) (fuel : Nat) (hcb : NCb s fx d ρ fuel)
    (hfr : NFr s fx d ρ fuel) : NFr s fx d ρ (fuel + 1) := by
  intro me f1 f2 c hc hr
  simp only [betweenFragments, h7, ↓reduceIte]
  split
  · rfl
  · split
    · rfl
    · generalize (sortedPair f1 f2) = key
      have hc1 : CI s d { c with pairs := (key.1, key.2, me) :: c.pairs } := hc.pairs _
      cases hg1 : c.frags.get? f1 with
      | none => rfl
      | some v1 =>
        cases hg2 : c.frags.get? f2 with
        | none => rfl
        | some v2 =>
          obtain ⟨on1, id1, sels1⟩ := v1
          obtain ⟨on2, id2, sels2⟩ := v2
          simp only
          obtain ⟨a1, a2, a3, a4, a5, a6⟩ := ff_frag_rank s d ρ hR hc1 (name := f1) hg1
          generalize fieldsAndFragments s ((typeFromAst s (.named on1)).map (·.base)) id1 sels1
            { c with pairs := (key.1, key.2, me) :: c.pairs } = ra at a1 a2 a3 a4 a6 ⊢
          obtain ⟨⟨fma, fra⟩, ca⟩ := ra
          simp only at a1 a2 a3 a4 a6 ⊢
          have hg2' : ca.frags.get? f2 = some (on2, id2, sels2) := by
            rw [a1.frags, ← hc.frags]; exact hg2
          obtain ⟨b1, b2, b3, b4, b5, b6⟩ := ff_frag_rank s d ρ hR a1 (name := f2) hg2'
          generalize fieldsAndFragments s ((typeFromAst s (.named on2)).map (·.base)) id2 sels2 ca = rb
            at b1 b2 b3 b4 b6 ⊢
          obtain ⟨⟨fmb, frb⟩, cb⟩ := rb
          simp only at b1 b2 b3 b4 b6 ⊢
          have k0 := hcb me fma fmb cb _ _ b1 a2 b2 a3 b3 (by omega)
          have k0c := ((search_sound s fx d h7 fuel).2.1 me fma fmb cb b1 a2 b2).1
          obtain ⟨k1c, k1⟩ := sumLoop_crash fra (fun fr c => betweenFragments s fx fuel me (some fr) (some f2) c) (CI s d)
            (fun fr hfr' c hc => ⟨((search_sound s fx d h7 fuel).2.2.2.1 me (some fr) (some f2) c hc).1,
              hfr me fr f2 c hc (by have := a4 fr hfr'; omega)⟩) _ k0c
          obtain ⟨-, k2⟩ := sumLoop_crash frb (fun fr c => betweenFragments s fx fuel me (some f1) (some fr) c) (CI s d)
            (fun fr hfr' c hc => ⟨((search_sound s fx d h7 fuel).2.2.2.1 me (some f1) (some fr) c hc).1,
              hfr me f1 fr c hc (by have := b4 fr hfr'; omega)⟩) _ k1c
          exact k2.trans (k1.trans (k0.trans (b6.trans a6)))

theorem withFreshCmp_crash (f : OCtx → Nat × OCtx)
    (hf : ∀ c, CI s d c → CI s d (f c).2 ∧ (f c).2.crash = c.crash) (c : OCtx) (hc : CI s d c) :
    CI s d (withFreshCmp f c).2 ∧ (withFreshCmp f c).2.crash = c.crash := by
  unfold withFreshCmp
  obtain ⟨a, b⟩ := hf { c with cmp := [] } (hc.cmp _)
  exact ⟨a.cmp _, b⟩

theorem nstep_ss (hR : RankOk s d ρ) (h7 : fx.v7 = true) (fuel : Nat) (hcb : NCb s fx d ρ fuel)
    (hff : NFf s fx d ρ fuel) (hfr : NFr s fx d ρ fuel) : NSs s fx d ρ (fuel + 1) := by
  intro me p1 id1 sels1 p2 id2 sels2 c hc s1 a1 s2 a2 hr
  simp only [betweenSubselections]
  have t1 := hR.two _ _ s1
  have t2 := hR.two _ _ s2
  obtain ⟨x1, x2, x3, x4, x5⟩ := ff_rank s d ρ hR hc s1 a1
  generalize fieldsAndFragments s p1 id1 sels1 c = ra at x1 x2 x3 x4 x5 ⊢
  obtain ⟨⟨fma, fra⟩, ca⟩ := ra
  simp only at x1 x2 x3 x4 x5 ⊢
  obtain ⟨y1, y2, y3, y4, y5⟩ := ff_rank s d ρ hR x1 s2 a2
  generalize fieldsAndFragments s p2 id2 sels2 ca = rb at y1 y2 y3 y4 y5 ⊢
  obtain ⟨⟨fmb, frb⟩, cb⟩ := rb
  simp only at y1 y2 y3 y4 y5 ⊢
  have S := search_sound s fx d h7 fuel
  have k0 := hcb me fma fmb cb _ _ y1 x2 y2 x3 y3 (by omega)
  have k0c := (S.2.1 me fma fmb cb y1 x2 y2).1
  obtain ⟨k1c, k1⟩ := sumLoop_crash frb
    (fun fr c => withFreshCmp (betweenFieldsAndFragment s fx fuel me id1 fma fr) c) (CI s d)
    (fun fr hfr' c hc => withFreshCmp_crash s d _ (fun c hc => ⟨(S.2.2.1 me id1 fma fr c hc x2).1,
      hff me id1 fma fr c _ hc x2 x3 (by have := y4 fr hfr'; omega)⟩) c hc) _ k0c
  obtain ⟨k2c, k2⟩ := sumLoop_crash fra
    (fun fr c => withFreshCmp (betweenFieldsAndFragment s fx fuel me id2 fmb fr) c) (CI s d)
    (fun fr hfr' c hc => withFreshCmp_crash s d _ (fun c hc => ⟨(S.2.2.1 me id2 fmb fr c hc y2).1,
      hff me id2 fmb fr c _ hc y2 y3 (by have := x4 fr hfr'; omega)⟩) c hc) _ k1c
  obtain ⟨-, k3⟩ := sumLoop_crash fra
    (fun f1 c => sumLoop frb (fun f2 c => betweenFragments s fx fuel me (some f1) (some f2) c) c) (CI s d)
    (fun f1 hf1 c hc => sumLoop_crash frb (fun f2 c => betweenFragments s fx fuel me (some f1) (some f2) c) (CI s d)
      (fun f2 hf2 c hc => ⟨(S.2.2.2.1 me (some f1) (some f2) c hc).1,
        hfr me f1 f2 c hc (by have := x4 f1 hf1; have := y4 f2 hf2; omega)⟩) c hc) _ k2c
  exact k3.trans (k2.trans (k1.trans (k0.trans (y5.trans x5))))

/-- **the search never runs out of fuel** when the fuel covers the ranks of what it is called on -/
theorem search_fuel (hR : RankOk s d ρ) (h7 : fx.v7 = true) : ∀ fuel,
    NFind s fx d ρ fuel ∧ NCb s fx d ρ fuel ∧ NFf s fx d ρ fuel ∧ NFr s fx d ρ fuel ∧ NSs s fx d ρ fuel := by
  intro fuel
  induction fuel with
  | zero =>
    refine ⟨?_, ?_, ?_, ?_, ?_⟩
    · intro _ _ _ _ _ _ _ h; omega
    · intro _ _ _ _ _ _ _ _ _ _ _ h; omega
    · intro _ _ _ _ _ _ _ _ _ h; omega
    · intro _ _ _ _ _ h; omega
    · intro _ _ _ _ _ _ _ _ _ _ _ _ _ h; omega
  | succ fuel ih =>
    obtain ⟨i1, i2, i3, i4, i5⟩ := ih
    exact ⟨nstep_find s fx d ρ fuel i5, nstep_cb s fx d ρ h7 fuel i1, nstep_ff s fx d ρ hR h7 fuel i2 i3,
      nstep_fr s fx d ρ hR h7 fuel i2 i4, nstep_ss s fx d ρ hR h7 fuel i2 i3 i4⟩

end
end PyGql.Validate

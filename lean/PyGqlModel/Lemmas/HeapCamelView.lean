/-
  C14 — CamelCaseSchemaTransform, BY-NAME VIEW of one `on_schema` round: every hook allocates (never writes), every member is
  rebuilt under its converted name and NONE IS DROPPED: the view (`typeV`, Lemmas/HeapCloneExact.lean) of every visited type is
  the view before with the field / argument / input-field names converted (`renV`), python names, defaults, descriptions,
  deprecations, resolvers, types by name and ORDER unchanged.
-/
import PyGqlModel.Lemmas.HeapCopyView
import PyGqlModel.Lemmas.HeapClosedHooks

set_option linter.unusedSimpArgs false
set_option linter.unusedVariables false

namespace PyGql.Heap.Own
open PyGql.Heap

def renA (ren : String → String) (g : ArgO) : ArgO := { g with name := ren g.name }

def renF (ren : String → String) (p : FieldO × List (Option ArgO)) : FieldO × List (Option ArgO) :=
  ({ p.1 with name := ren p.1.name }, p.2.map (Option.map (renA ren)))

/-- the by-name view of a type with its member names converted (nothing else changes; none for union / enum / scalar types) -/
def renV (ren : String → String) (v : TypeO × List (Option (FieldO × List (Option ArgO))) × List (Option ArgO)) :
    TypeO × List (Option (FieldO × List (Option ArgO))) × List (Option ArgO) :=
  (v.1, v.2.1.map (Option.map (renF ren)), v.2.2.map (Option.map (renA ren)))

theorem ShowsSrc.readArg {h h' : Heap} (s : ShowsSrc h h') {a : Addr} {g : ArgO} (hr : h.readArg a = some g) : h'.readArg a = some g := by
  have ha := read_lt h a _ (readArg_read hr)
  simp only [Heap.readArg, s.2 a ha]; exact hr

theorem ShowsSrc.readField {h h' : Heap} (s : ShowsSrc h h') {a : Addr} {g : FieldO} (hr : h.readField a = some g) : h'.readField a = some g := by
  have ha := read_lt h a _ (readField_read hr)
  simp only [Heap.readField, s.2 a ha]; exact hr

theorem ShowsSrc.readType {h h' : Heap} (s : ShowsSrc h h') {a : Addr} {g : TypeO} (hr : h.readType a = some g) : h'.readType a = some g := by
  have ha := read_lt h a _ (readType_read hr)
  simp only [Heap.readType, s.2 a ha]; exact hr

theorem ShowsSrc.readDir {h h' : Heap} (s : ShowsSrc h h') {a : Addr} {g : DirO} (hr : h.readDir a = some g) : h'.readDir a = some g := by
  have ha := read_lt h a _ (readDir_read hr)
  simp only [Heap.readDir, s.2 a ha]; exact hr

theorem argV_of_read {h : Heap} {a : Addr} {g : ArgO} (hr : h.readArg a = some g) : argV h a = some { g with ty := eraseT g.ty } := by
  simp only [argV, hr, Option.map_some]

/-! ### arguments / input fields -/

/-- a hook that rebuilds the argument under its converted name -/
def CamelArgHook (ren : String → String) (f : Heap → Addr → Heap × Option Addr) : Prop :=
  ∀ h a g, h.readArg a = some g → f h a = ((h.alloc (.arg (renA ren g))).1, some h.size)

theorem onArgument_camelHook (ren : String → String) (reg : List (String × Addr)) : CamelArgHook ren (onArgument (.camel ren) reg) := by
  intro h a g hg
  simp only [onArgument, hg, Heap.alloc, Heap.size, renA]

theorem onInputField_camelHook (ren : String → String) (reg : List (String × Addr)) : CamelArgHook ren (onInputField (.camel ren) reg) := by
  intro h a g hg
  simp only [onInputField, hg, Heap.alloc, Heap.size, renA]

theorem args_camel_view {ren : String → String} {f : Heap → Addr → Heap × Option Addr} (hf : CamelArgHook ren f) :
    ∀ (as : List Addr) (h : Heap), (∀ a, a ∈ as → ∃ g, h.readArg a = some g) →
      ShowsSrc h (mapFilter f h as).1 ∧
      (mapFilter f h as).2.map (argV (mapFilter f h as).1) = as.map (fun a => (argV h a).map (renA ren)) ∧
      (∀ c, c ∈ (mapFilter f h as).2 → h.size ≤ c ∧ c < (mapFilter f h as).1.size) := by
  intro as
  induction as with
  | nil => intro h _; exact ⟨ShowsSrc.refl' h, rfl, by simp [mapFilter]⟩
  | cons a as ih =>
    intro h hall
    obtain ⟨g, hg⟩ := hall a (by simp)
    have g1 : ShowsSrc h (h.alloc (.arg (renA ren g))).1 := (ShowsSrc.refl' h).alloc _
    have hall1 : ∀ x, x ∈ as → ∃ g', (h.alloc (.arg (renA ren g))).1.readArg x = some g' := by
      intro x hx
      obtain ⟨g', hg'⟩ := hall x (by simp [hx])
      exact ⟨g', g1.readArg hg'⟩
    obtain ⟨s2, v2, b2⟩ := ih _ hall1
    simp only [mapFilter, hf h a g hg]
    have hsz : (h.alloc (.arg (renA ren g))).1.size = h.size + 1 := size_alloc _ _
    refine ⟨g1.trans' s2, ?_, ?_⟩
    · simp only [List.map_cons]
      congr 1
      · have hnew : (h.alloc (.arg (renA ren g))).1.readArg h.size = some (renA ren g) := readArg_alloc_new h _
        rw [argV_of_read (s2.readArg hnew), argV_of_read hg]
        rfl
      · rw [v2]
        apply List.map_congr_left
        intro x hx
        obtain ⟨g', hg'⟩ := hall x (by simp [hx])
        rw [argV_of_read (g1.readArg hg'), argV_of_read hg']
    · intro c hc
      simp only [List.mem_cons] at hc
      rcases hc with rfl | hc
      · exact ⟨Nat.le_refl _, Nat.lt_of_lt_of_le (by omega) s2.1⟩
      · obtain ⟨k1, k2⟩ := b2 c hc
        exact ⟨by omega, k2⟩

theorem argsV_congr {h h' : Heap} (g : ShowsSrc h h') (as : List Addr) (hb : ∀ c, c ∈ as → c < h.size) : as.map (argV h') = as.map (argV h) :=
  List.map_congr_left fun x hx => argV_grow g (hb x hx)

/-! ### fields -/

theorem onFieldBase_camel_view (ren : String → String) (reg : List (String × Addr)) (h : Heap) (a : Addr) (f' : FieldO)
    (hr : h.readField a = some f') (hargs : ∀ x, x ∈ f'.args → ∃ g, h.readArg x = some g) :
    ShowsSrc h (onFieldBase (.camel ren) reg h a f').1 ∧
    fieldV (onFieldBase (.camel ren) reg h a f').1 (onFieldBase (.camel ren) reg h a f').2 =
      some ({ f' with ty := eraseT f'.ty, args := [] }, f'.args.map (fun x => (argV h x).map (renA ren))) ∧
    (onFieldBase (.camel ren) reg h a f').2 < (onFieldBase (.camel ren) reg h a f').1.size ∧
    ((onFieldBase (.camel ren) reg h a f').2 = a ∨ h.size ≤ (onFieldBase (.camel ren) reg h a f').2) := by
  obtain ⟨s1, v1, b1⟩ := args_camel_view (onArgument_camelHook ren reg) f'.args h hargs
  simp only [onFieldBase]
  split
  · have g2 : ShowsSrc (mapFilter (onArgument (.camel ren) reg) h f'.args).1
        ((mapFilter (onArgument (.camel ren) reg) h f'.args).1.alloc (.field { f' with args := (mapFilter (onArgument (.camel ren) reg) h f'.args).2 })).1 :=
      (ShowsSrc.refl' _).alloc _
    refine ⟨s1.trans' g2, ?_, by rw [alloc_addr, size_alloc]; exact Nat.lt_succ_self _, Or.inr (by rw [alloc_addr]; exact s1.1)⟩
    simp only [fieldV, readField_alloc_new, Option.map_some, Option.some.injEq, Prod.mk.injEq, true_and]
    rw [argsV_congr g2 _ (fun c hc => (b1 c hc).2), v1]
  · rename_i hne
    have heq := bne_false_eq hne
    refine ⟨s1, ?_, Nat.lt_of_lt_of_le (read_lt h a _ (readField_read hr)) s1.1, Or.inl rfl⟩
    simp only [fieldV, s1.readField hr, Option.map_some, Option.some.injEq, Prod.mk.injEq, true_and]
    have hcg := congrArg (List.map (argV (mapFilter (onArgument (.camel ren) reg) h f'.args).1)) heq
    rw [← hcg, v1]

theorem onField_camel_view (ren : String → String) (reg : List (String × Addr)) (tn : String) (h : Heap) (a : Addr) (f : FieldO)
    (hr : h.readField a = some f) (hargs : ∀ x, x ∈ f.args → ∃ g, h.readArg x = some g) :
    ∃ a', (onField (.camel ren) reg tn h a).2 = some a' ∧ ShowsSrc h (onField (.camel ren) reg tn h a).1 ∧
      fieldV (onField (.camel ren) reg tn h a).1 a' = (fieldV h a).map (renF ren) ∧
      h.size ≤ a' ∧ a' < (onField (.camel ren) reg tn h a).1.size := by
  have g1 : ShowsSrc h (h.alloc (.field { f with name := ren f.name })).1 := (ShowsSrc.refl' h).alloc _
  have hargs1 : ∀ x, x ∈ ({ f with name := ren f.name } : FieldO).args → ∃ g, (h.alloc (.field { f with name := ren f.name })).1.readArg x = some g := by
    intro x hx
    obtain ⟨g, hg⟩ := hargs x hx
    exact ⟨g, g1.readArg hg⟩
  obtain ⟨s2, v2, l2, p2⟩ := onFieldBase_camel_view ren reg _ _ { f with name := ren f.name } (readField_alloc_new h _) hargs1
  simp only [onField, hr]
  refine ⟨_, rfl, g1.trans' s2, ?_, ?_, l2⟩
  · rw [v2]
    simp only [fieldV, hr, Option.map_some, renF, List.map_map, Option.some.injEq, Prod.mk.injEq, true_and]
    apply List.map_congr_left
    intro x hx
    obtain ⟨g, hg⟩ := hargs x hx
    simp only [Function.comp, argV_of_read (g1.readArg hg), argV_of_read hg]
  · rcases p2 with p2 | p2
    · rw [p2, alloc_addr]; exact Nat.le_refl _
    · rw [size_alloc] at p2; omega

theorem fieldV_full_of_readable {h : Heap} {a : Addr} {f : FieldO} (hr : h.readField a = some f) (hargs : ∀ x, x ∈ f.args → ∃ g, h.readArg x = some g) :
    ∃ p, fieldV h a = some p ∧ fullF p := by
  refine ⟨({ f with ty := eraseT f.ty, args := [] }, f.args.map (argV h)), by simp only [fieldV, hr, Option.map_some], ?_⟩
  intro v hv
  simp only [List.mem_map] at hv
  obtain ⟨x, hx, rfl⟩ := hv
  obtain ⟨g, hg⟩ := hargs x hx
  simp [argV_of_read hg]

theorem fullF_ren {ren : String → String} {p : FieldO × List (Option ArgO)} (hf : fullF p) : fullF (renF ren p) := by
  intro v hv
  simp only [renF, List.mem_map] at hv
  obtain ⟨o, ho, rfl⟩ := hv
  have := hf o ho
  cases o <;> simp_all

theorem fields_camel_view (ren : String → String) (reg : List (String × Addr)) (tn : String) :
    ∀ (as : List Addr) (h : Heap), (∀ a, a ∈ as → ∃ f, h.readField a = some f ∧ ∀ x, x ∈ f.args → ∃ g, h.readArg x = some g) →
      ShowsSrc h (mapFilter (onField (.camel ren) reg tn) h as).1 ∧
      (mapFilter (onField (.camel ren) reg tn) h as).2.map (fieldV (mapFilter (onField (.camel ren) reg tn) h as).1) =
        as.map (fun a => (fieldV h a).map (renF ren)) ∧
      (∀ c, c ∈ (mapFilter (onField (.camel ren) reg tn) h as).2 → h.size ≤ c ∧ c < (mapFilter (onField (.camel ren) reg tn) h as).1.size) := by
  intro as
  induction as with
  | nil => intro h _; exact ⟨ShowsSrc.refl' h, rfl, by simp [mapFilter]⟩
  | cons a as ih =>
    intro h hall
    obtain ⟨f, hf, hargs⟩ := hall a (by simp)
    obtain ⟨a', e1, g1, v1, lo1, hi1⟩ := onField_camel_view ren reg tn h a f hf hargs
    have hall1 : ∀ x, x ∈ as → ∃ f', (onField (.camel ren) reg tn h a).1.readField x = some f' ∧
        ∀ y, y ∈ f'.args → ∃ g, (onField (.camel ren) reg tn h a).1.readArg y = some g := by
      intro x hx
      obtain ⟨f', hf', ha'⟩ := hall x (by simp [hx])
      exact ⟨f', g1.readField hf', fun y hy => by obtain ⟨g, hg⟩ := ha' y hy; exact ⟨g, g1.readArg hg⟩⟩
    obtain ⟨s2, v2, b2⟩ := ih _ hall1
    simp only [mapFilter, e1]
    refine ⟨g1.trans' s2, ?_, ?_⟩
    · simp only [List.map_cons]
      congr 1
      · obtain ⟨p, hp, hfull⟩ := fieldV_full_of_readable hf hargs
        rw [hp] at v1 ⊢
        simp only [Option.map_some] at v1 ⊢
        exact fieldV_grow s2 v1 (fullF_ren hfull)
      · rw [v2]
        apply List.map_congr_left
        intro x hx
        obtain ⟨f', hf', ha'⟩ := hall x (by simp [hx])
        obtain ⟨p, hp, hfull⟩ := fieldV_full_of_readable hf' ha'
        rw [fieldV_grow g1 hp hfull, hp]
    · intro c hc
      simp only [List.mem_cons] at hc
      rcases hc with rfl | hc
      · exact ⟨lo1, Nat.lt_of_lt_of_le hi1 s2.1⟩
      · obtain ⟨k1, k2⟩ := b2 c hc
        exact ⟨Nat.le_trans g1.1 k1, k2⟩

theorem fieldsV_congr {h h' : Heap} (g : ShowsSrc h h') (as : List Addr) (hfull : ∀ c, c ∈ as → ∃ p, fieldV h c = some p ∧ fullF p) :
    as.map (fieldV h') = as.map (fieldV h) :=
  List.map_congr_left fun x hx => by obtain ⟨p, hp, hf⟩ := hfull x hx; rw [fieldV_grow g hp hf, hp]

/-! ### types -/

/-- a type object whose members can all be read -/
def TypeReadable (h : Heap) (a : Addr) : Prop := ∃ t, h.readType a = some t ∧ MembersReadable h t

theorem TypeReadable.grow {h h' : Heap} (g : ShowsSrc h h') {a : Addr} (r : TypeReadable h a) : TypeReadable h' a := by
  obtain ⟨t, ht, hm⟩ := r
  refine ⟨t, g.readType ht, ?_⟩
  simp only [MembersReadable] at hm ⊢
  cases hk : t.kind <;> simp only [hk] at hm ⊢
  · exact fun x hx => by obtain ⟨f, hf, ha⟩ := hm x hx; exact ⟨f, g.readField hf, fun y hy => by obtain ⟨q, hq⟩ := ha y hy; exact ⟨q, g.readArg hq⟩⟩
  · exact fun x hx => by obtain ⟨f, hf, ha⟩ := hm x hx; exact ⟨f, g.readField hf, fun y hy => by obtain ⟨q, hq⟩ := ha y hy; exact ⟨q, g.readArg hq⟩⟩
  · exact fun x hx => by obtain ⟨q, hq⟩ := hm x hx; exact ⟨q, g.readArg hq⟩

theorem typeV_full_of_readable {h : Heap} {a : Addr} (r : TypeReadable h a) : ∃ v, typeV h a = some v ∧ fullT v := by
  obtain ⟨t, ht, hm⟩ := r
  refine ⟨tview h t, typeV_of_read ht, ?_⟩
  simp only [MembersReadable] at hm
  simp only [fullT, tview]
  cases hk : t.kind <;> simp only [hk] at hm ⊢ <;> refine ⟨?_, ?_⟩ <;> try (intro o ho; cases ho)
  · intro o ho
    simp only [List.mem_map] at ho
    obtain ⟨x, hx, rfl⟩ := ho
    obtain ⟨f, hf, ha⟩ := hm x hx
    exact fieldV_full_of_readable hf ha
  · intro o ho
    simp only [List.mem_map] at ho
    obtain ⟨x, hx, rfl⟩ := ho
    obtain ⟨f, hf, ha⟩ := hm x hx
    exact fieldV_full_of_readable hf ha
  · intro o ho
    simp only [List.mem_map] at ho
    obtain ⟨x, hx, rfl⟩ := ho
    obtain ⟨g, hg⟩ := hm x hx
    simp [argV_of_read hg]

theorem fullT_ren {ren : String → String} {v : TypeO × List (Option (FieldO × List (Option ArgO))) × List (Option ArgO)} (hf : fullT v) :
    fullT (renV ren v) := by
  refine ⟨?_, ?_⟩
  · intro o ho
    simp only [renV, List.mem_map] at ho
    obtain ⟨o0, ho0, rfl⟩ := ho
    obtain ⟨p, rfl, hp⟩ := hf.1 o0 ho0
    exact ⟨renF ren p, rfl, fullF_ren hp⟩
  · intro o ho
    simp only [renV, List.mem_map] at ho
    obtain ⟨o0, ho0, rfl⟩ := ho
    have := hf.2 o0 ho0
    cases o0 <;> simp_all

/-- `on_object` / `on_interface` / `on_input_object` / `on_union` / `on_enum` / `on_scalar` of the camel-case visitor -/
theorem onType_camel_view (ren : String → String) (reg : List (String × Addr)) (h : Heap) (a : Addr) (r : TypeReadable h a) :
    ∃ a', (onType (.camel ren) reg h a).2 = some a' ∧ ShowsSrc h (onType (.camel ren) reg h a).1 ∧
      typeV (onType (.camel ren) reg h a).1 a' = (typeV h a).map (renV ren) := by
  obtain ⟨t, ht, hm⟩ := r
  simp only [onType, ht]
  rw [typeV_of_read ht]
  simp only [MembersReadable] at hm
  cases hk : t.kind <;> simp only [hk] at hm ⊢
  · -- object
    simp only [onComposite, compositeRest, rebuiltOrSame]
    obtain ⟨s1, v1, b1⟩ := fields_camel_view ren reg t.name t.fields h hm
    split
    · refine ⟨_, rfl, s1.trans' ((ShowsSrc.refl' _).alloc _), ?_⟩
      rw [typeV_of_read (readType_alloc_new _ _)]
      simp only [tview, hk, renV, Option.map_some, Option.some.injEq, Prod.mk.injEq, List.map_nil, and_true, true_and, List.map_map]
      rw [fieldsV_congr ((ShowsSrc.refl' _).alloc _) _ (fun c hc => by
        have hc' := List.mem_map_of_mem (f := fieldV (mapFilter (onField (.camel ren) reg t.name) h t.fields).1) hc
        rw [v1] at hc'
        simp only [List.mem_map] at hc'
        obtain ⟨x, hx, hxe⟩ := hc'
        obtain ⟨f, hf, ha⟩ := hm x hx
        obtain ⟨p, hp, hfull⟩ := fieldV_full_of_readable hf ha
        rw [hp] at hxe
        exact ⟨renF ren p, hxe.symm, fullF_ren hfull⟩), v1]
      rfl
    · rename_i hne
      have heq := bne_false_eq hne
      refine ⟨_, rfl, s1, ?_⟩
      rw [typeV_of_read (s1.readType ht)]
      simp only [tview, hk, renV, Option.map_some, Option.some.injEq, Prod.mk.injEq, List.map_nil, and_true, true_and, List.map_map]
      have hcg := congrArg (List.map (fieldV (mapFilter (onField (.camel ren) reg t.name) h t.fields).1)) heq
      rw [← hcg, v1]
      rfl
  · -- interface
    simp only [onComposite, compositeRest, rebuiltOrSame]
    obtain ⟨s1, v1, b1⟩ := fields_camel_view ren reg t.name t.fields h hm
    split
    · refine ⟨_, rfl, s1.trans' ((ShowsSrc.refl' _).alloc _), ?_⟩
      rw [typeV_of_read (readType_alloc_new _ _)]
      simp only [tview, hk, renV, Option.map_some, Option.some.injEq, Prod.mk.injEq, List.map_nil, and_true, true_and, List.map_map]
      rw [fieldsV_congr ((ShowsSrc.refl' _).alloc _) _ (fun c hc => by
        have hc' := List.mem_map_of_mem (f := fieldV (mapFilter (onField (.camel ren) reg t.name) h t.fields).1) hc
        rw [v1] at hc'
        simp only [List.mem_map] at hc'
        obtain ⟨x, hx, hxe⟩ := hc'
        obtain ⟨f, hf, ha⟩ := hm x hx
        obtain ⟨p, hp, hfull⟩ := fieldV_full_of_readable hf ha
        rw [hp] at hxe
        exact ⟨renF ren p, hxe.symm, fullF_ren hfull⟩), v1]
      rfl
    · rename_i hne
      have heq := bne_false_eq hne
      refine ⟨_, rfl, s1, ?_⟩
      rw [typeV_of_read (s1.readType ht)]
      simp only [tview, hk, renV, Option.map_some, Option.some.injEq, Prod.mk.injEq, List.map_nil, and_true, true_and, List.map_map]
      have hcg := congrArg (List.map (fieldV (mapFilter (onField (.camel ren) reg t.name) h t.fields).1)) heq
      rw [← hcg, v1]
      rfl
  · -- union
    exact ⟨a, by simp [onUnion], by simp only [onUnion]; exact ShowsSrc.refl' h, by
      simp only [onUnion]; rw [typeV_of_read ht]; simp [tview, hk, renV]⟩
  · -- enum
    exact ⟨a, by simp [onLeaf], by simp only [onLeaf]; exact ShowsSrc.refl' h, by
      simp only [onLeaf]; rw [typeV_of_read ht]; simp [tview, hk, renV]⟩
  · -- input
    simp only [onInputObject, inputRest, rebuiltOrSame]
    obtain ⟨s1, v1, b1⟩ := args_camel_view (onInputField_camelHook ren reg) t.fields h hm
    split
    · refine ⟨_, rfl, s1.trans' ((ShowsSrc.refl' _).alloc _), ?_⟩
      rw [typeV_of_read (readType_alloc_new _ _)]
      simp only [tview, hk, renV, Option.map_some, Option.some.injEq, Prod.mk.injEq, List.map_nil, and_true, true_and, List.map_map]
      rw [argsV_congr ((ShowsSrc.refl' _).alloc _) _ (fun c hc => (b1 c hc).2), v1]
      rfl
    · rename_i hne
      have heq := bne_false_eq hne
      refine ⟨_, rfl, s1, ?_⟩
      rw [typeV_of_read (s1.readType ht)]
      simp only [tview, hk, renV, Option.map_some, Option.some.injEq, Prod.mk.injEq, List.map_nil, and_true, true_and, List.map_map]
      have hcg := congrArg (List.map (argV (mapFilter (onInputField (.camel ren) reg) h t.fields).1)) heq
      rw [← hcg, v1]
      rfl
  · -- scalar
    exact ⟨a, by simp [onLeaf], by simp only [onLeaf]; exact ShowsSrc.refl' h, by
      simp only [onLeaf]; rw [typeV_of_read ht]; simp [tview, hk, renV]⟩

/-! ### the loops of `on_schema` -/

theorem typeV_keep_readable {h h' : Heap} (g : ShowsSrc h h') {a : Addr} (r : TypeReadable h a) : typeV h' a = typeV h a := by
  obtain ⟨v, hv, hf⟩ := typeV_full_of_readable r
  rw [typeV_grow g hv hf, hv]

theorem typeV_ren_grow {ren : String → String} {h0 h h' : Heap} (g : ShowsSrc h h') {a0 a : Addr} (r : TypeReadable h0 a0)
    (hv : typeV h a = (typeV h0 a0).map (renV ren)) : typeV h' a = (typeV h0 a0).map (renV ren) := by
  obtain ⟨v, hv0, hf⟩ := typeV_full_of_readable r
  rw [hv0] at hv ⊢
  simp only [Option.map_some] at hv ⊢
  exact typeV_grow g hv (fullT_ren hf)

theorem visitTypes_camel_view (ren : String → String) (reg : List (String × Addr)) :
    ∀ (l : List (String × Addr)) (h : Heap), (∀ e, e ∈ l → isProtected e.1 = false → TypeReadable h e.2) →
      ShowsSrc h (visitTypes (.camel ren) reg h l).1 ∧
      (∀ x, x ∈ (visitTypes (.camel ren) reg h l).2 → ∃ a', x.2 = some a' ∧ ∃ e, e ∈ l ∧ e.1 = x.1 ∧ isProtected e.1 = false ∧
        typeV (visitTypes (.camel ren) reg h l).1 a' = (typeV h e.2).map (renV ren)) ∧
      (∀ e, e ∈ l → isProtected e.1 = false → (∃ x, x ∈ (visitTypes (.camel ren) reg h l).2 ∧ x.1 = e.1) ∨
        typeV (visitTypes (.camel ren) reg h l).1 e.2 = (typeV h e.2).map (renV ren)) := by
  intro l
  induction l with
  | nil => intro h _; exact ⟨ShowsSrc.refl' h, by simp [visitTypes], by simp⟩
  | cons e0 rest ih =>
    intro h hall
    obtain ⟨n, a⟩ := e0
    have hrest : ∀ e, e ∈ rest → isProtected e.1 = false → TypeReadable h e.2 := fun e he => hall e (by simp [he])
    simp only [visitTypes]
    split
    · rename_i hp
      obtain ⟨s2, c2, d2⟩ := ih h hrest
      refine ⟨s2, ?_, ?_⟩
      · intro x hx
        obtain ⟨a', e1, e, he, k1, k2, k3⟩ := c2 x hx
        exact ⟨a', e1, e, by simp [he], k1, k2, k3⟩
      · intro e he hnp
        simp only [List.mem_cons] at he
        rcases he with rfl | he
        · simp at hnp; simp [hnp] at hp
        · exact d2 e he hnp
    · rename_i hp
      have hnp0 : isProtected n = false := by simpa using hp
      have r0 : TypeReadable h a := hall (n, a) (by simp) hnp0
      obtain ⟨a', e1, g1, v1⟩ := onType_camel_view ren reg h a r0
      obtain ⟨s2, c2, d2⟩ := ih (onType (.camel ren) reg h a).1 (fun e he hnp => (hrest e he hnp).grow g1)
      refine ⟨g1.trans' s2, ?_, ?_⟩
      · intro x hx
        split at hx
        · simp only [List.mem_cons] at hx
          rcases hx with rfl | hx
          · exact ⟨a', e1, (n, a), by simp, rfl, hnp0, typeV_ren_grow s2 r0 v1⟩
          · obtain ⟨a'', e2, e, he, k1, k2, k3⟩ := c2 x hx
            exact ⟨a'', e2, e, by simp [he], k1, k2, by rw [k3, typeV_keep_readable g1 (hrest e he k2)]⟩
        · obtain ⟨a'', e2, e, he, k1, k2, k3⟩ := c2 x hx
          exact ⟨a'', e2, e, by simp [he], k1, k2, by rw [k3, typeV_keep_readable g1 (hrest e he k2)]⟩
      · intro e he hnp
        simp only [List.mem_cons] at he
        rcases he with rfl | he
        · split
          · exact Or.inl ⟨(n, (onType (.camel ren) reg h a).2), List.mem_cons_self, rfl⟩
          · rename_i hne
            have hsame : (onType (.camel ren) reg h a).2 = some a := by simpa using hne
            rw [e1] at hsame
            cases hsame
            exact Or.inr (typeV_ren_grow s2 r0 v1)
        · rcases d2 e he hnp with ⟨x, hx, hxe⟩ | hv
          · left
            refine ⟨x, ?_, hxe⟩
            split
            · simp [hx]
            · exact hx
          · exact Or.inr (by rw [hv, typeV_keep_readable g1 (hrest e he hnp)])

theorem visitDirs_camel_grow (ren : String → String) (reg : List (String × Addr)) :
    ∀ (l : List (String × Addr)) (h : Heap), (∀ e, e ∈ l → ∃ d, h.readDir e.2 = some d ∧ ∀ x, x ∈ d.args → ∃ g, h.readArg x = some g) →
      ShowsSrc h (visitDirs (.camel ren) reg h l).1 := by
  intro l
  induction l with
  | nil => intro h _; exact ShowsSrc.refl' h
  | cons e0 rest ih =>
    intro h hall
    obtain ⟨n, a⟩ := e0
    obtain ⟨d, hd, hargs⟩ := hall (n, a) (by simp)
    have g1 : ShowsSrc h (onDirective (.camel ren) reg h a).1 := by
      simp only [onDirective, hd, dirHidden, Bool.false_eq_true, if_false]
      obtain ⟨s1, _, _⟩ := args_camel_view (onArgument_camelHook ren reg) d.args h hargs
      split
      · exact s1.trans' ((ShowsSrc.refl' _).alloc _)
      · exact s1
    simp only [visitDirs]
    refine g1.trans' (ih _ ?_)
    intro e he
    obtain ⟨d', hd', ha'⟩ := hall e (by simp [he])
    exact ⟨d', g1.readDir hd', fun x hx => by obtain ⟨q, hq⟩ := ha' x hx; exact ⟨q, g1.readArg hq⟩⟩

end PyGql.Heap.Own

/-
  C05 / C04 — the executor model reads the schema ONLY through `kindOf`, `fieldOf`, `isPossibleType`, `rootType`,
  `serializeLeaf` and the `query` root name: two descriptions that agree on these give the SAME response to every
  request (`execute_congr`). Instance: `withBuiltins s` (the built-in scalars listed - the form the validator model and
  the bridge theorems need) and `s` (the form the driver executes): `execute_withBuiltins`. Hence the evaluated
  `schema_checks` (on `withBuiltins s`) and the theorems they feed speak about the responses the driver computes.
-/
import PyGqlModel.Lemmas.C05Builtins

set_option linter.unusedSimpArgs false
set_option linter.unusedVariables false

namespace PyGql.Props.C05
open PyGql PyGql.Exec PyGql.Spec

/-- the two descriptions are read identically by every accessor `Exec.lean` uses -/
structure SameReads (s s' : SchemaD) : Prop where
  kind : ∀ n, kindOf s n = kindOf s' n
  field : ∀ T f, fieldOf s T f = fieldOf s' T f
  poss : ∀ a o, isPossibleType s a o = isPossibleType s' a o
  root : ∀ k, rootType s k = rootType s' k
  ser : ∀ n j, serializeLeaf s n j = serializeLeaf s' n j
  query : s.query = s'.query

private theorem fta_congr {s s' : SchemaD} (h : SameReads s s') (obj : String) (c : Option String) :
    fragmentTypeApplies s obj c = fragmentTypeApplies s' obj c := by
  cases c with
  | none => rfl
  | some c => simp only [fragmentTypeApplies, isAbstract, h.kind, h.poss]

private theorem collectStep_congr {s s' : SchemaD} (h : SameReads s s') (doc : Doc) (vars : Vars)
    (rec : String → List Sel → List String → R (Grouped × List String)) (obj : String) :
    ∀ (sels : List Sel) (seen : List String) (g : Grouped),
      collectStep s doc vars rec obj sels seen g = collectStep s' doc vars rec obj sels seen g := by
  intro sels
  induction sels with
  | nil => intro seen g; simp only [collectStep]
  | cons sel rest ih =>
    intro seen g
    cases sel with
    | field key name loc dirs args hs sub => simp only [collectStep, ih]
    | inline on dirs sub => simp only [collectStep, ih, fta_congr h]
    | spread name dirs => simp only [collectStep, ih, fta_congr h]

private theorem collectFields_congr {s s' : SchemaD} (h : SameReads s s') (doc : Doc) (vars : Vars) :
    ∀ n, collectFields s doc vars n = collectFields s' doc vars n := by
  intro n
  induction n with
  | zero => rfl
  | succ n ih =>
    funext obj sels seen
    simp only [collectFields, ih]
    exact collectStep_congr h doc vars _ obj sels seen []

private theorem completeValue_congr {s s' : SchemaD} (h : SameReads s s') (e : String → Path → List Sel → R (Data × List Err))
    (nodes : List FNode) : ∀ t, completeValue s e nodes t = completeValue s' e nodes t := by
  intro t
  induction t with
  | named n =>
    funext path v
    cases v <;> simp only [completeValue, h.kind, h.ser, h.poss]
  | list t ih =>
    funext path v
    cases v <;> simp only [completeValue, ih]
  | nonNull t ih =>
    funext path v
    simp only [completeValue, ih]

private theorem executeGroups_congr {s s' : SchemaD} (h : SameReads s s') (w : World) (e : String → Path → List Sel → R (Data × List Err))
    (parent : String) (path : Path) : ∀ g, executeGroups s w e parent path g = executeGroups s' w e parent path g := by
  intro g
  induction g with
  | nil => simp only [executeGroups]
  | cons kv rest ih =>
    obtain ⟨key, nodes⟩ := kv
    cases nodes with
    | nil => simp only [executeGroups]
    | cons node more => simp only [executeGroups, resolveField, h.field, h.query, completeValue_congr h, ih]

private theorem executeFields_congr {s s' : SchemaD} (h : SameReads s s') (doc : Doc) (vars : Vars) (w : World) (cf : Nat) :
    ∀ n, executeFields s doc vars w cf n = executeFields s' doc vars w cf n := by
  intro n
  induction n with
  | zero => rfl
  | succ n ih =>
    funext parent path sels
    simp only [executeFields, collectFields_congr h, ih]
    congr 1
    funext p
    rw [executeGroups_congr h]

/-- **execute_congr**: descriptions read identically answer every request identically -/
theorem execute_congr {s s' : SchemaD} (h : SameReads s s') (doc : Doc) (vars : Vars) (w : World) (op : Option String) (fuel cf : Nat) :
    execute s doc vars w op fuel cf = execute s' doc vars w op fuel cf := by
  simp only [execute, h.root, executeFields_congr h]

theorem sameReads_withBuiltins (s : SchemaD) : SameReads (withBuiltins s) s where
  kind := kindOf_withBuiltins s
  field := fieldOf_withBuiltins s
  poss := isPossibleType_withBuiltins s
  root := rootType_withBuiltins s
  ser := serializeLeaf_withBuiltins s
  query := rfl

/-- **execute_withBuiltins**: listing the built-in scalars in the description changes no response of the executor model -/
theorem execute_withBuiltins (s : SchemaD) (doc : Doc) (vars : Vars) (w : World) (op : Option String) (fuel cf : Nat) :
    execute (withBuiltins s) doc vars w op fuel cf = execute s doc vars w op fuel cf :=
  execute_congr (sameReads_withBuiltins s) doc vars w op fuel cf

end PyGql.Props.C05

/-
  Error positions: every `GraphQLSyntaxError` raised by the token-level parser is at the start of a token of the
  input (or at the end of the last consumed token), hence inside the text whenever the tokens are.
  `Safe n p`: on states whose tokens lie within `[0, n]`, `p` either fails with a position ≤ n or succeeds in such a
  state.  A small calculus (`bind`, `ite`, `pure`, the primitives, the loops) + one line per parser function.
-/
import PyGqlModel.ParseDoc
import PyGqlModel.Lemmas.ParseCore
namespace PyGql.Parse
open PyGql PyGql.Ast

/-- the token lies inside a text of length `n` -/
def TokR (n : Nat) (t : Tok) : Prop := t.start ≤ n ∧ t.stop ≤ n

/-- all tokens of the state (remaining, and the last consumed one) lie inside a text of length `n` -/
def InR (n : Nat) (s : PS) : Prop := (∀ t ∈ s.toks, TokR n t) ∧ s.last.stop ≤ n

structure Safe (n : Nat) {α : Type} (p : P α) : Prop where
  out : ∀ s, InR n s → match p s with
    | .ok (_, s') => InR n s'
    | .error e => e.pos ≤ n

/-- for parsers returning a token: it is one of the input's tokens -/
structure SafeT (n : Nat) (p : P Tok) : Prop where
  out : ∀ s, InR n s → match p s with
    | .ok (t, s') => InR n s' ∧ TokR n t
    | .error e => e.pos ≤ n

class SafeC (n : Nat) {α : Type} (p : P α) : Prop where
  safe : Safe n p

theorem Safe.bind {n : Nat} {α β} {p : P α} {f : α → P β} (hp : Safe n p) (hf : ∀ a, Safe n (f a)) :
    Safe n (p >>= f) := by
  refine ⟨fun s hs => ?_⟩
  have := hp.out s hs
  simp only [bind_eq]
  cases h : p s with
  | error e => simpa [h] using this
  | ok r =>
    rcases r with ⟨a, s1⟩
    rw [h] at this
    exact (hf a).out s1 this

theorem Safe.bindT {n : Nat} {β} {p : P Tok} {f : Tok → P β} (hp : SafeT n p) (hf : ∀ t, TokR n t → Safe n (f t)) :
    Safe n (p >>= f) := by
  refine ⟨fun s hs => ?_⟩
  have := hp.out s hs
  simp only [bind_eq]
  cases h : p s with
  | error e => simpa [h] using this
  | ok r =>
    rcases r with ⟨a, s1⟩
    rw [h] at this
    exact (hf a this.2).out s1 this.1

theorem SafeT.bind {n : Nat} {α} {p : P α} {f : α → P Tok} (hp : Safe n p) (hf : ∀ a, SafeT n (f a)) :
    SafeT n (p >>= f) := by
  refine ⟨fun s hs => ?_⟩
  have := hp.out s hs
  simp only [bind_eq]
  cases h : p s with
  | error e => simpa [h] using this
  | ok r =>
    rcases r with ⟨a, s1⟩
    rw [h] at this
    exact (hf a).out s1 this

theorem SafeT.bindT {n : Nat} {p : P Tok} {f : Tok → P Tok} (hp : SafeT n p) (hf : ∀ t, TokR n t → SafeT n (f t)) :
    SafeT n (p >>= f) := by
  refine ⟨fun s hs => ?_⟩
  have := hp.out s hs
  simp only [bind_eq]
  cases h : p s with
  | error e => simpa [h] using this
  | ok r =>
    rcases r with ⟨a, s1⟩
    rw [h] at this
    exact (hf a this.2).out s1 this.1

theorem SafeT.toSafe {n : Nat} {p : P Tok} (h : SafeT n p) : Safe n p := by
  refine ⟨fun s hs => ?_⟩
  have := h.out s hs
  cases hp : p s with
  | error e => simpa [hp] using this
  | ok r => rcases r with ⟨a, s1⟩; rw [hp] at this; exact this.1

theorem Safe.pure {n : Nat} {α} (a : α) : Safe n (pure a : P α) := ⟨fun s hs => hs⟩
theorem SafeT.pure {n : Nat} {t : Tok} (h : TokR n t) : SafeT n (pure t : P Tok) := ⟨fun s hs => ⟨hs, h⟩⟩

theorem Safe.ite {n : Nat} {α} {c : Prop} [Decidable c] {p q : P α} (hp : Safe n p) (hq : Safe n q) :
    Safe n (if c then p else q) := by
  split <;> assumption

theorem SafeT.ite {n : Nat} {c : Prop} [Decidable c] {p q : P Tok} (hp : SafeT n p) (hq : SafeT n q) :
    SafeT n (if c then p else q) := by
  split <;> assumption

theorem Safe.fail {n : Nat} {α} (msg : String) : Safe n (fail msg : P α) := by
  refine ⟨fun s hs => ?_⟩
  rcases s with ⟨_ | ⟨t, ts⟩, l⟩
  · exact hs.2
  · exact (hs.1 t (by simp)).1

theorem Safe.failTok {n : Nat} {α} (msg : String) : Safe n (failTok msg : P α) := by
  refine ⟨fun s hs => ?_⟩
  rcases s with ⟨_ | ⟨t, ts⟩, l⟩
  · exact hs.2
  · exact (hs.1 t (by simp)).1

theorem Safe.failAt {n : Nat} {α} {t : Tok} (h : TokR n t) (msg : String) : Safe n (failAt t msg : P α) :=
  ⟨fun _ _ => h.1⟩

theorem Safe.failTokAt {n : Nat} {α} {t : Tok} (h : TokR n t) (msg : String) : Safe n (failTokAt t msg : P α) :=
  ⟨fun _ _ => h.1⟩

theorem peek_safeT (n : Nat) : SafeT n peek := by
  refine ⟨fun s hs => ?_⟩
  rcases s with ⟨_ | ⟨t, ts⟩, l⟩
  · exact hs.2
  · exact ⟨hs, hs.1 t (by simp)⟩

theorem peek2_safeT (n : Nat) : SafeT n peek2 := by
  refine ⟨fun s hs => ?_⟩
  rcases s with ⟨_ | ⟨t0, _ | ⟨t, ts⟩⟩, l⟩
  · exact hs.2
  · exact hs.2
  · exact ⟨hs, hs.1 t (by simp)⟩

theorem advance_safeT (n : Nat) : SafeT n advance := by
  refine ⟨fun s hs => ?_⟩
  rcases s with ⟨_ | ⟨t, ts⟩, l⟩
  · exact hs.2
  · have ht := hs.1 t (by simp)
    exact ⟨⟨fun x hx => hs.1 x (by simp [hx]), ht.2⟩, ht⟩

theorem SafeT.failTok {n : Nat} (msg : String) : SafeT n (failTok msg : P Tok) := by
  refine ⟨fun s hs => ?_⟩
  rcases s with ⟨_ | ⟨t, ts⟩, l⟩
  · exact hs.2
  · exact (hs.1 t (by simp)).1

theorem SafeT.fail {n : Nat} (msg : String) : SafeT n (fail msg : P Tok) := by
  refine ⟨fun s hs => ?_⟩
  rcases s with ⟨_ | ⟨t, ts⟩, l⟩
  · exact hs.2
  · exact (hs.1 t (by simp)).1

theorem expect_safeT (n : Nat) (k : TokKind) : SafeT n (expect k) :=
  SafeT.bindT (peek_safeT n) fun _ _ => SafeT.ite (advance_safeT n) (SafeT.failTok _)

theorem expectKeyword_safeT (n : Nat) (kw : Text) : SafeT n (expectKeyword kw) :=
  SafeT.bindT (peek_safeT n) fun _ _ => SafeT.ite (advance_safeT n) (SafeT.failTok _)

theorem skip_safe (n : Nat) (k : TokKind) : Safe n (skip k) :=
  Safe.bindT (peek_safeT n) fun _ _ => Safe.ite (Safe.bindT (advance_safeT n) fun _ _ => Safe.pure _) (Safe.pure _)

theorem mkLoc_safe (n : Nat) (fl : Flags) (st : Tok) : Safe n (mkLoc fl st) := ⟨fun _ hs => hs⟩

instance (n : Nat) (k : TokKind) : SafeC n (skip k) := ⟨skip_safe n k⟩
instance (n : Nat) (fl : Flags) (st : Tok) : SafeC n (mkLoc fl st) := ⟨mkLoc_safe n fl st⟩

/-- decompose a `do` block: binds, conditionals, the primitives, and every parser function registered as `SafeC` -/
macro "safe" : tactic => `(tactic| repeat' (first
  | assumption
  | exact SafeC.safe
  | exact peek_safeT _ | exact peek2_safeT _ | exact advance_safeT _ | exact expect_safeT _ _
  | exact expectKeyword_safeT _ _
  | exact SafeT.pure (by assumption)
  | exact Safe.pure _
  | exact Safe.fail _ | exact Safe.failTok _ | exact SafeT.fail _ | exact SafeT.failTok _
  | exact Safe.failAt (by assumption) _ | exact Safe.failTokAt (by assumption) _
  | apply Safe.bindT | apply Safe.bind | apply SafeT.bindT | apply SafeT.bind
  | apply Safe.ite | apply SafeT.ite
  | intro _
  | split))

/-! ### combinators -/

theorem manyLoop_safe {n : Nat} {α} {p : P α} (hp : Safe n p) (close : TokKind) : ∀ k, Safe n (manyLoop p close k) := by
  intro k
  induction k with
  | zero => exact Safe.fail _
  | succ k ih => unfold manyLoop; safe

instance {n : Nat} {α} {p : P α} [h : SafeC n p] (close : TokKind) (k : Nat) : SafeC n (manyLoop p close k) :=
  ⟨manyLoop_safe h.safe close k⟩

instance {n : Nat} {α} {p : P α} [SafeC n p] (fuel : Nat) (opn close : TokKind) : SafeC n (many fuel opn p close) :=
  ⟨by unfold many; safe⟩

theorem anyLoop_safe {n : Nat} {α} {p : P α} (hp : Safe n p) (close : TokKind) : ∀ k, Safe n (anyLoop p close k) := by
  intro k
  induction k with
  | zero => exact Safe.fail _
  | succ k ih => unfold anyLoop; safe

instance {n : Nat} {α} {p : P α} [h : SafeC n p] (close : TokKind) (k : Nat) : SafeC n (anyLoop p close k) :=
  ⟨anyLoop_safe h.safe close k⟩

instance {n : Nat} {α} {p : P α} [SafeC n p] (fuel : Nat) (opn close : TokKind) : SafeC n (any_ fuel opn p close) :=
  ⟨by unfold any_; safe⟩

theorem delimLoop_safe {n : Nat} {α} {p : P α} (hp : Safe n p) (sep : TokKind) : ∀ k, Safe n (delimLoop p sep k) := by
  intro k
  induction k with
  | zero => exact Safe.fail _
  | succ k ih => unfold delimLoop; safe

instance {n : Nat} {α} {p : P α} [h : SafeC n p] (sep : TokKind) (k : Nat) : SafeC n (delimLoop p sep k) :=
  ⟨delimLoop_safe h.safe sep k⟩

instance {n : Nat} {α} {p : P α} [SafeC n p] (fuel : Nat) (sep : TokKind) : SafeC n (delimitedList fuel sep p) :=
  ⟨by unfold delimitedList; safe⟩

/-! ### names, types, values -/

instance (n : Nat) (fl : Flags) : SafeC n (parseName fl) := ⟨by unfold parseName; safe⟩
instance (n : Nat) (fl : Flags) : SafeC n (parseNamedType fl) := ⟨by unfold parseNamedType; safe⟩
instance (n : Nat) (fl : Flags) : SafeC n (parseVariable fl) := ⟨by unfold parseVariable; safe⟩
instance (n : Nat) (fl : Flags) : SafeC n (parseStringLiteral fl) := ⟨by unfold parseStringLiteral; safe⟩

theorem parseTypeReference_safe (n : Nat) (fl : Flags) : ∀ k, Safe n (parseTypeReference fl k) := by
  intro k
  induction k with
  | zero => exact Safe.fail _
  | succ k ih => unfold parseTypeReference parseTypeInner; safe

instance (n : Nat) (fl : Flags) (k : Nat) : SafeC n (parseTypeReference fl k) := ⟨parseTypeReference_safe n fl k⟩

end PyGql.Parse

/-
  C14 — member-level provenance: registry entries through rounds, `fix_type_references`, visitor lists and `clone`.
-/
import PyGqlModel.Lemmas.HeapMembersTypes

set_option linter.unusedSimpArgs false
set_option linter.unusedVariables false
set_option linter.unnecessarySimpa false

namespace PyGql.Heap.Own
open PyGql.Heap

/-- entry `e'` (heap `h`) is a copy — attributes AND members — of the source's entry of the same name -/
def EntRel (ρ : String → String) (h0 : Heap) (reg0 : List (String × Addr)) (h : Heap) (e' : String × Addr) : Prop :=
  ∃ e, e ∈ reg0 ∧ e.1 = e'.1 ∧ ∀ t0, h0.readType e.2 = some t0 → TRel ρ h0 h t0 e'.2

/-- every non-protected registry entry is such a copy -/
def MemOrigin (ρ : String → String) (h0 : Heap) (reg0 : List (String × Addr)) (h : Heap) (reg : List (String × Addr)) : Prop :=
  ∀ e', e' ∈ reg → isProtected e'.1 = true ∨ EntRel ρ h0 reg0 h e'

theorem EntRel.keep {ρ : String → String} {h0 : Heap} {reg0 : List (String × Addr)} {h h' : Heap} (st : StepImp chkT h h') {e' : String × Addr}
    (r : EntRel ρ h0 reg0 h e') : EntRel ρ h0 reg0 h' e' := by
  obtain ⟨e, he, hn, hr⟩ := r
  exact ⟨e, he, hn, fun t0 ht0 => (hr t0 ht0).keep st⟩

theorem visitTypes_mem (v : Visitor) (hv : NoWrap v) (reg : List (String × Addr)) (ρ : String → String) (h0 : Heap) (reg0 : List (String × Addr)) :
    ∀ (l : List (String × Addr)) (h : Heap), (∀ e, e ∈ l → isProtected e.1 = false → EntRel ρ h0 reg0 h e) →
      (∀ e, e ∈ l → isProtected e.1 = false →
        (∃ x, x ∈ (visitTypes v reg h l).2 ∧ x.1 = e.1) ∨ EntRel (renAfter v ρ) h0 reg0 (visitTypes v reg h l).1 e) ∧
      (∀ x, x ∈ (visitTypes v reg h l).2 → ∀ a', x.2 = some a' → EntRel (renAfter v ρ) h0 reg0 (visitTypes v reg h l).1 (x.1, a')) := by
  intro l
  induction l with
  | nil => intro h _; exact ⟨by simp, by simp [visitTypes]⟩
  | cons e0 rest ih =>
    intro h hin
    obtain ⟨n, a⟩ := e0
    by_cases hp : isProtected n = true
    · simp only [visitTypes, hp, if_true]
      obtain ⟨f1, f2⟩ := ih h (fun e he => hin e (by simp [he]))
      refine ⟨?_, f2⟩
      intro e he hnp
      simp only [List.mem_cons] at he
      rcases he with rfl | he
      · simp [hnp] at hp
      · exact f1 e he hnp
    · have hnp : isProtected n = false := by simpa using hp
      simp only [visitTypes, hnp, Bool.false_eq_true, if_false]
      have st0 := onType_step v reg h a chkT (compat_true v reg)
      have strest := visitTypes_step v reg rest (onType v reg h a).1 chkT (compat_true v reg)
      obtain ⟨f1, f2⟩ := ih (onType v reg h a).1 (fun e he hq => (hin e (by simp [he]) hq).keep st0)
      obtain ⟨e0, he0, hn0, hr0⟩ := hin (n, a) (by simp) hnp
      have hhead : ∀ a', (onType v reg h a).2 = some a' → EntRel (renAfter v ρ) h0 reg0 (visitTypes v reg (onType v reg h a).1 rest).1 (n, a') := by
        intro a' ea
        exact ⟨e0, he0, hn0, fun t0 ht0 => (onType_mem v hv reg ρ h0 h a t0 (hr0 t0 ht0) a' ea).keep strest⟩
      refine ⟨?_, ?_⟩
      · intro e he hq
        simp only [List.mem_cons] at he
        rcases he with rfl | he
        · split
          · exact Or.inl ⟨(n, (onType v reg h a).2), by simp, rfl⟩
          · rename_i hsame
            right
            have hsm : (onType v reg h a).2 = some a := by simpa using hsame
            exact hhead a hsm
        · rcases f1 e he hq with ⟨x, hx, hxe⟩ | h2
          · left
            split
            · exact ⟨x, by simp [hx], hxe⟩
            · exact ⟨x, hx, hxe⟩
          · right
            exact h2
      · intro x hx a' ea
        split at hx
        · simp only [List.mem_cons] at hx
          rcases hx with rfl | hx
          · exact hhead a' ea
          · exact f2 x hx a' ea
        · exact f2 x hx a' ea

/-- one `on_schema` round of a member-preserving visitor -/
theorem round_mem (cfg : Cfg) (v : Visitor) (hv : NoWrap v) (ρ : String → String) (h0 : Heap) (reg0 : List (String × Addr)) (s : Schema) (h : Heap)
    (ho : MemOrigin ρ h0 reg0 h s.types) :
    MemOrigin (renAfter v ρ) h0 reg0 (visitAll v s h).1 (replaceCore cfg s (visitAll v s h).2.1 (visitAll v s h).2.2).1.types := by
  have stD := visitDirs_step v s.types s.dirs (visitTypes v s.types h s.types).1 chkT (compat_true v s.types)
  obtain ⟨f1, f2⟩ := visitTypes_mem v hv s.types ρ h0 reg0 s.types h (fun e he hnp => by
    rcases ho e he with hp | hr
    · simp [hnp] at hp
    · exact hr)
  simp only [replaceCore, visitAll]
  apply replaceTypes_pred cfg (fun e' => isProtected e'.1 = true ∨ EntRel (renAfter v ρ) h0 reg0 (visitDirs v s.types (visitTypes v s.types h s.types).1 s.dirs).1 e')
  · intro x hx a' ea
    exact Or.inr ((f2 x hx a' ea).keep stD)
  · intro e' he'
    by_cases hp : isProtected e'.1 = true
    · exact Or.inl (Or.inl hp)
    · have hnp : isProtected e'.1 = false := by simpa using hp
      rcases f1 e' he' hnp with ⟨x, hx, hxe⟩ | hr
      · exact Or.inr (List.mem_map.mpr ⟨x, hx, hxe⟩)
      · exact Or.inl (Or.inr (hr.keep stD))

theorem healLoop_mem (cfg : Cfg) (ρ : String → String) (h0 : Heap) (reg0 : List (String × Addr)) : ∀ (fuel : Nat) (s : Schema) (h h' : Heap) (s' : Schema),
    MemOrigin ρ h0 reg0 h s.types → healLoop cfg fuel s h = some (h', s') → MemOrigin ρ h0 reg0 h' s'.types := by
  intro fuel
  induction fuel with
  | zero => intro s h h' s' _ e; simp [healLoop] at e
  | succ fuel ih =>
    intro s h h' s' ho e
    rw [healLoop] at e
    have hr : MemOrigin ρ h0 reg0 (visitAll .heal s h).1 (replaceCore cfg s (visitAll .heal s h).2.1 (visitAll .heal s h).2.2).1.types :=
      round_mem cfg .heal trivial ρ h0 reg0 s h ho
    split at e
    · exact ih _ _ _ _ hr e
    · cases e; exact hr

theorem onSchema_mem (cfg : Cfg) (fuel : Nat) (v : Visitor) (hv : NoWrap v) (ρ : String → String) (h0 : Heap) (reg0 : List (String × Addr))
    (s : Schema) (h h' : Heap) (s' : Schema) (ho : MemOrigin ρ h0 reg0 h s.types) (e : onSchema cfg fuel v s h = some (h', s')) :
    MemOrigin (renAfter v ρ) h0 reg0 h' s'.types := by
  simp only [onSchema, replaceTD] at e
  have hr := round_mem cfg v hv ρ h0 reg0 s h ho
  split at e
  · exact healLoop_mem cfg _ h0 reg0 fuel _ _ _ _ hr e
  · cases e; exact hr

/-- the renaming a list of visitors applies, first visitor first -/
def renAll : List Visitor → (String → String) → String → String
  | [], ρ => ρ
  | v :: vs, ρ => renAll vs (renAfter v ρ)

theorem transformFrom_mem (cfg : Cfg) (fuel : Nat) (h0 : Heap) (reg0 : List (String × Addr)) : ∀ (vs : List Visitor), (∀ v, v ∈ vs → NoWrap v) →
    ∀ (ρ : String → String) (h : Heap) (s : Schema) (h' : Heap) (s' : Schema), MemOrigin ρ h0 reg0 h s.types →
      transformFrom cfg fuel vs (h, s) = some (h', s') → MemOrigin (renAll vs ρ) h0 reg0 h' s'.types := by
  intro vs
  induction vs with
  | nil => intro _ ρ h s h' s' ho e; simp only [transformFrom] at e; cases e; exact ho
  | cons v vs ih =>
    intro hv ρ h s h' s' ho e
    simp only [transformFrom] at e
    split at e
    · cases e
    · rename_i r hr
      obtain ⟨h1, s1⟩ := r
      exact ih (fun v' hv' => hv v' (by simp [hv'])) _ h1 s1 h' s'
        (onSchema_mem cfg fuel v (hv v (by simp)) ρ h0 reg0 s h h1 s1 ho hr) e

end PyGql.Heap.Own

/-
  C12 — the two printer models print the same text, part 4: type definitions, directive definitions, the `schema` block,
  `ASTSchemaPrinter.__call__`.
-/
import PyGqlModel.Lemmas.SdlModelsPrint
namespace PyGql.SdlModels
open PyGql PyGql.Sdl PyGql.SdlPrintT
open PyGql.SdlText hiding T
open PyGql.SdlPrint (Apps PrinterState Opts)

theorem map_T_strings (l : List String) : joinSep sep (l.map T) = joinSep sep (l.map T) := rfl

theorem printType_rel (s : SchemaD) (o : Opts) (apps : Apps) (t : TypeD) (h : SdlPrintTA.typeAppsOK (optsA o) apps t = true) :
    Rel (SdlPrint.printType s o apps t st0) (SdlPrintTA.printType s (optsA o) apps t) := by
  simp only [SdlPrintTA.typeAppsOK, Bool.and_eq_true, List.all_eq_true] at h
  obtain ⟨⟨⟨ht, hf⟩, hv⟩, hi⟩ := h
  have hd := printDirectives_rel o apps t.name ht
  have hfs := mapSt_rel (SdlPrint.printField s o apps t.name) _ t.fields 0 (fun j x hx => printField_rel s o apps t.name j x (hf x hx))
  have hvs := mapSt_rel (SdlPrint.printEnumValue o apps t.name) _ t.values 0 (fun j x hx => printEnumValue_rel o apps t.name j x (hv x hx))
  have his := mapSt_rel (SdlPrint.printInputField s o apps t.name) _ t.inputFields 0
    (fun j x hx => printInputField_rel s o apps t.name j x (hi x hx))
  have c1 : T " {\n" = [32, 123, 10] := by decide
  have c2 : T "\n}" = [10, 125] := by decide
  have c3 : T "\n" = [10] := by decide
  have c4 : T " = " = [32, 61, 32] := by decide
  have c5 : T " | " = [32, 124, 32] := by decide
  have c6 : T " & " = [32, 38, 32] := by decide
  unfold Rel SdlPrint.printType SdlPrintTA.printType
  cases t.kind <;> simp only [SdlPrint.printFields, hd.1] <;>
    refine ⟨by first | trivial | rfl | exact hfs.1 | exact hvs.1 | exact his.1, ?_⟩ <;>
    simp only [T_append, T_printDescription, T_ite, T_intercalate, hd.2, hfs.2, hvs.2, his.2, optsA_base, braces, printFields_imap,
      printEnumValues_imap, printInputFields_imap, c1, c2, c3, c4, c5, c6, T_nil, List.append_assoc]

theorem printDirectiveDefinition_rel (s : SchemaD) (o : Opts) (apps : Apps) (d : DirectiveD)
    (h : SdlPrintTA.directiveAppsOK (optsA o) apps d = true) :
    Rel (SdlPrint.printDirectiveDefinition s o apps d st0) (SdlPrintTA.printDirectiveDefinition s (optsA o) apps d) := by
  have ha := printArguments_rel s o apps ("@" ++ d.name) d.args 0 h
  have c5 : T " | " = [32, 124, 32] := by decide
  unfold Rel
  simp only [SdlPrint.printDirectiveDefinition]
  refine ⟨ha.1, ?_⟩
  simp only [SdlPrintTA.printDirectiveDefinition, T_append, T_printDescription, T_intercalate, ha.2, optsA_base, c5, List.append_assoc]

theorem printDirectives_isEmpty (c : SdlPrintTA.OptsA) (apps : Apps) (path : String) :
    (SdlPrintTA.printDirectives c apps path).isEmpty = (SdlPrintTA.nodesAt c apps path).isEmpty := by
  unfold SdlPrintTA.printDirectives
  cases (SdlPrintTA.nodesAt c apps path).isEmpty <;> rfl

theorem printSchemaDefinition_rel (s : SchemaD) (o : Opts) (apps : Apps) (h : SdlPrintTA.appsOKAt (optsA o) apps "" = true) :
    Rel (SdlPrint.printSchemaDefinition s o apps st0) (SdlPrintTA.printSchemaDefinition s (optsA o) apps) := by
  have hd := printDirectives_rel o apps "" h
  have he : (SdlPrint.printDirectives o apps "" st0).1.isEmpty = (SdlPrintTA.nodesAt (optsA o) apps "").isEmpty := by
    rw [← T_isEmpty, hd.2, printDirectives_isEmpty]
  have c1 : T " {\n" = [32, 123, 10] := by decide
  have c2 : T "\n}" = [10, 125] := by decide
  have c3 : T "\n" = [10] := by decide
  unfold Rel
  simp only [SdlPrint.printSchemaDefinition]
  refine ⟨hd.1, ?_⟩
  simp only [SdlPrintTA.printSchemaDefinition, SdlPrintTA.needsSchemaBlockA, SdlPrint.needsSchemaBlock, he, T_ite, T_append,
    T_intercalate, hd.2, braces, optsA_base, c1, c2, c3, T_nil, rootLines]
  by_cases hne : (SdlPrintTA.nodesAt (optsA o) apps "").isEmpty = true
  · by_cases hri : (SdlPrint.rootImplied s s.query "Query" && SdlPrint.rootImplied s s.mutation "Mutation" &&
        SdlPrint.rootImplied s s.subscription "Subscription") = true
    · simp [hne, hri]
    · simp only [hne, hri, Bool.true_and, Bool.not_true, Bool.or_false, Bool.not_eq_true', Bool.not_eq_true]
      cases s.query <;> cases s.mutation <;> cases s.subscription <;> simp [T_append, optsT_indent]
  · simp only [hne, Bool.false_and, Bool.false_eq_true, if_false, Bool.not_false, Bool.or_true, if_true]
    cases s.query <;> cases s.mutation <;> cases s.subscription <;> simp [T_append, optsT_indent]

/-- the hypothesis of the tie: the PRINTED directive applications (schema block, types and their members, directive
    arguments) consist of lexemes — a sub-conjunction of `printTextWFA` -/
def appsLexOK (c : SdlPrintTA.OptsA) (s : SchemaD) (apps : Apps) : Bool :=
  SdlPrintTA.appsOKAt c apps "" && s.types.all (SdlPrintTA.typeAppsOK c apps) && s.directives.all (SdlPrintTA.directiveAppsOK c apps)

theorem appsLexOK_of_wfa (c : SdlPrintTA.OptsA) (s : SchemaD) (apps : Apps) (h : SdlPrintTA.printTextWFA c s apps = true) :
    appsLexOK c s apps = true := by
  simp only [SdlPrintTA.printTextWFA, Bool.and_eq_true] at h
  simp only [appsLexOK, Bool.and_eq_true]
  exact ⟨⟨h.1.1.1.2, h.1.1.2⟩, h.1.2⟩

theorem filter_nonempty_T (l : List String) :
    (l.filter (fun x => !x.isEmpty)).map T = (l.map T).filter (fun p => !p.isEmpty) := by
  rw [List.filter_map]
  congr 1
  congr 1
  funext x
  simp only [Function.comp_def, T_isEmpty]

theorem printSchema_rel (o : Opts) (s : SchemaD) (apps : Apps) (h : appsLexOK (optsA o) s apps = true) :
    Rel (SdlPrint.printSchema o s apps st0) (SdlPrintTA.printSchemaTA (optsA o) s apps) := by
  simp only [appsLexOK, Bool.and_eq_true, List.all_eq_true] at h
  obtain ⟨⟨h0, ht⟩, hd⟩ := h
  have hsd := printSchemaDefinition_rel s o apps h0
  have hds := mapSt_rel (fun _ d st => SdlPrint.printDirectiveDefinition s o apps d st)
    (fun _ d => SdlPrintTA.printDirectiveDefinition s (optsA o) apps d) (SdlPrint.sortBy (·.name) s.directives) 0
    (fun _ x hx => printDirectiveDefinition_rel s o apps x (hd x ((sortBy_perm _ _).mem_iff.mp hx)))
  have hts := mapSt_rel (fun _ t st => SdlPrint.printType s o apps t st)
    (fun _ t => SdlPrintTA.printType s (optsA o) apps t) (SdlPrint.sortBy (·.name) s.types) 0
    (fun _ x hx => printType_rel s o apps x (ht x ((sortBy_perm _ _).mem_iff.mp hx)))
  rw [imap_const] at hds hts
  have c1 : T "\n\n" = [10, 10] := by decide
  have c3 : T "\n" = [10] := by decide
  unfold Rel
  simp only [SdlPrint.printSchema, hsd.1, hds.1]
  refine ⟨hts.1, ?_⟩
  have hparts : ((((SdlPrint.printSchemaDefinition s o apps st0).1 ::
        (SdlPrint.mapSt (fun _ d st => SdlPrint.printDirectiveDefinition s o apps d st) 0 (SdlPrint.sortBy (·.name) s.directives) st0).1) ++
        (SdlPrint.mapSt (fun _ t st => SdlPrint.printType s o apps t st) 0 (SdlPrint.sortBy (·.name) s.types) st0).1).filter
          (fun x => !x.isEmpty)).map T =
      (SdlPrintTA.printSchemaDefinition s (optsA o) apps ::
        (SdlPrint.sortBy (·.name) s.directives).map (SdlPrintTA.printDirectiveDefinition s (optsA o) apps) ++
        (SdlPrint.sortBy (·.name) s.types).map (SdlPrintTA.printType s (optsA o) apps)).filter (fun p => !p.isEmpty) := by
    rw [filter_nonempty_T, List.map_append, List.map_cons, hsd.2, hds.2, hts.2]
  unfold SdlPrintTA.printSchemaTA
  simp only [← hparts, List.isEmpty_map, T_ite, T_append, T_intercalate, c1, c3, T_nil]

/-! ### `include_introspection` -/

/-- the hypothesis for all four options: also the applications attached to the library's own definitions (none, in practice) -/
def appsLexOKX (c : SdlPrintTA.OptsA) (intro : Bool) (b : SdlPrint.Builtins) (s : SchemaD) (apps : Apps) : Bool :=
  SdlPrintTA.appsOKAt c apps "" && (s.types ++ (if intro then b.introspection else [])).all (SdlPrintTA.typeAppsOK c apps) &&
  s.directives.all (SdlPrintTA.directiveAppsOK c apps) && (if intro then b.specified else []).all (SdlPrintTA.directiveAppsOK c apps)

theorem printSchemaX_rel (o : Opts) (intro : Bool) (b : SdlPrint.Builtins) (s : SchemaD) (apps : Apps)
    (h : appsLexOKX (optsA o) intro b s apps = true) :
    Rel (SdlPrint.printSchemaX o intro b s apps st0) (SdlPrintTA.printSchemaXTA (optsA o) intro b s apps) := by
  simp only [appsLexOKX, Bool.and_eq_true, List.all_eq_true] at h
  obtain ⟨⟨⟨h0, ht⟩, hd⟩, hsp⟩ := h
  have hsd := printSchemaDefinition_rel s o apps h0
  have hsps := mapSt_rel (fun _ d st => SdlPrint.printDirectiveDefinition s o apps d st)
    (fun _ d => SdlPrintTA.printDirectiveDefinition s (optsA o) apps d) (if intro then b.specified else []) 0
    (fun _ x hx => printDirectiveDefinition_rel s o apps x (hsp x hx))
  have hds := mapSt_rel (fun _ d st => SdlPrint.printDirectiveDefinition s o apps d st)
    (fun _ d => SdlPrintTA.printDirectiveDefinition s (optsA o) apps d) (SdlPrint.sortBy (·.name) s.directives) 0
    (fun _ x hx => printDirectiveDefinition_rel s o apps x (hd x ((sortBy_perm _ _).mem_iff.mp hx)))
  have hts := mapSt_rel (fun _ t st => SdlPrint.printType s o apps t st)
    (fun _ t => SdlPrintTA.printType s (optsA o) apps t)
    (SdlPrint.sortBy (·.name) (s.types ++ (if intro then b.introspection else []))) 0
    (fun _ x hx => printType_rel s o apps x (ht x ((sortBy_perm _ _).mem_iff.mp hx)))
  rw [imap_const] at hsps hds hts
  have c1 : T "\n\n" = [10, 10] := by decide
  have c3 : T "\n" = [10] := by decide
  unfold Rel
  simp only [SdlPrint.printSchemaX, hsd.1, hsps.1, hds.1]
  refine ⟨hts.1, ?_⟩
  have hparts : (((((SdlPrint.printSchemaDefinition s o apps st0).1 ::
        (SdlPrint.mapSt (fun _ d st => SdlPrint.printDirectiveDefinition s o apps d st) 0 (if intro then b.specified else []) st0).1) ++
        (SdlPrint.mapSt (fun _ d st => SdlPrint.printDirectiveDefinition s o apps d st) 0 (SdlPrint.sortBy (·.name) s.directives) st0).1) ++
        (SdlPrint.mapSt (fun _ t st => SdlPrint.printType s o apps t st) 0
          (SdlPrint.sortBy (·.name) (s.types ++ (if intro then b.introspection else []))) st0).1).filter
          (fun x => !x.isEmpty)).map T =
      ((SdlPrintTA.printSchemaDefinition s (optsA o) apps ::
        (if intro then b.specified else []).map (SdlPrintTA.printDirectiveDefinition s (optsA o) apps)) ++
        (SdlPrint.sortBy (·.name) s.directives).map (SdlPrintTA.printDirectiveDefinition s (optsA o) apps) ++
        (SdlPrint.sortBy (·.name) (s.types ++ (if intro then b.introspection else []))).map
          (SdlPrintTA.printType s (optsA o) apps)).filter (fun p => !p.isEmpty) := by
    rw [filter_nonempty_T, List.map_append, List.map_append, List.map_cons, hsd.2, hsps.2, hds.2, hts.2]
  unfold SdlPrintTA.printSchemaXTA
  simp only [← hparts, List.isEmpty_map, T_ite, T_append, T_intercalate, c1, c3, T_nil]

end PyGql.SdlModels

/-
  C12 text level — the full statement: every schema in printing order that satisfies `printTextWF` (descriptions in all
  positions and layouts, default values, one-argument-per-line argument lists).
-/
import PyGqlModel.Lemmas.SdlTextLayer1
import PyGqlModel.Lemmas.SdlTextArgs
namespace PyGql.SdlText
open PyGql PyGql.Ast PyGql.Sdl PyGql.Spec PyGql.PrintLex PyGql.PrintTokens PyGql.PrintMatch PyGql.SdlPrint PyGql.Parse

theorem argCore_of_ok (s : SchemaD) (w : Nat) (a : ArgD) (h : argOKT s w a = true) : ArgCore s a := by
  have hd := defaultPart_of_ok s w a h
  simp only [argOKT, Bool.and_eq_true] at h
  exact ⟨h.1.1.1, h.1.1.2, hd⟩

/-- the members of a type from `typeOKT` (descriptions at depth 1, field arguments at depth 2, default values) -/
theorem membersPart_of_ok (s : SchemaD) (o : SdlPrintT.OptsT) (hind : Blank o.indent) (hdesc : o.descriptions = true)
    (t : TypeD) (h : typeOKT s o.indent.length t = true) : MembersPart s o t := by
  simp only [typeOKT, Bool.and_eq_true] at h
  obtain ⟨_, hk⟩ := h
  have hd1 : ∀ (d : Option String) (first : Bool), descOKT o.indent.length d = true →
      DescPart (SdlPrintT.printDescription o d 1 first) (Item.yieldAll (descV (descOf (descToDoc d)))) := by
    intro d first hd
    exact descPart_of_ok o hind hdesc d 1 first (by simpa using hd)
  have hfield : ∀ i, ∀ f ∈ t.fields, fieldOKT s o.indent.length f = true →
      Lay (SdlPrintT.printField s o i f) (fieldDefinitionV (fieldOf (fieldToDef s f))).yield := by
    intro i f _ hok
    simp only [fieldOKT, Bool.and_eq_true] at hok
    exact (lay_field s o hind i f hok.1.1.1 hok.1.1.2 (hd1 f.desc _ hok.1.2)
      (argsPart_of_ok s o hind hdesc f.args 1 hok.2)).1
  unfold MembersPart
  cases hkind : t.kind <;> rw [hkind] at hk <;> simp only [] <;>
    simp only [Bool.and_eq_true, List.all_eq_true, Bool.not_eq_true', List.isEmpty_eq_false_iff] at hk
  · exact ⟨hk.1.1, hk.2, fun i f hf => hfield i f hf (hk.1.2 f hf)⟩
  · exact ⟨hk.1, fun i f hf => hfield i f hf (hk.2 f hf)⟩
  · exact ⟨hk.1, hk.2⟩
  · refine ⟨hk.1, fun i v hv => ?_⟩
    have hok := hk.2 v hv
    simp only [enumValOKT, Bool.and_eq_true] at hok
    exact (lay_enumValue o hind i v hok.1.1 (hd1 v.desc _ hok.2)).1
  · refine ⟨hk.1, fun i a ha => ?_⟩
    have hok := hk.2 a ha
    have hc := argCore_of_ok s _ a hok
    simp only [argOKT, Bool.and_eq_true] at hok
    exact (lay_inputField s o hind i a hc (hd1 a.desc _ hok.1.2)).1

/-- **the full statement** (layers (i), (ii), (iii)) -/
theorem parse_printSchemaT_full (o : SdlPrintT.OptsT) (s : SchemaD) (hs : InPrintOrder s)
    (hwf : printTextWF o s = true) :
    parseSdlTextT (SdlPrintT.printSchemaT o s) = docToAst (schemaToDoc s) := by
  have hind := blank_of_wf o s hwf
  have hwf0 := hwf
  simp only [printTextWF, Bool.and_eq_true, List.all_eq_true] at hwf0
  have hdesc : o.descriptions = true := hwf0.1.1.1.1.1.1.1.1.1
  apply parse_printSchemaT_core o s hs hwf
  · intro d hd
    have hok := hwf0.1.1.1.1.1.1.2 d hd
    simp only [directiveOKT, Bool.and_eq_true] at hok
    exact ⟨descPart_of_ok o hind hdesc d.desc 0 true (by simpa using hok.1.1.1.2),
      argsPart_of_ok s o hind hdesc d.args 0 (by simpa using hok.1.1.2)⟩
  · intro t ht
    have hok := hwf0.1.1.1.1.1.1.1.2 t ht
    have hok' := hok
    simp only [typeOKT, Bool.and_eq_true] at hok'
    exact ⟨descPart_of_ok o hind hdesc t.desc 0 true (by simpa using hok'.1.2), membersPart_of_ok s o hind hdesc t hok⟩

end PyGql.SdlText

/-
  `block_roundtrip`: assembling the range characterisation (`parseBlockString_range`), the escaping half
  (`readBlockBody_escape`, `readBlockBody_escape_close`), the layout half (lang3's `parseBlockString_layout`, composed
  from the three layout lemmas) and the three printed forms of `_block_string`.
-/
import PyGqlModel.Lemmas.PrintBlockLay
import PyGqlModel.Lemmas.LexBlockRange

namespace PyGql.BlockRT
open PyGql PyGql.Lex PyGql.Spec PyGql.PrintLex PyGql.PrintString PyGql.BlockString PyGql.PrintTokens

/-! ### `parse_block_string` on the simple raw shapes -/

theorem isLine_of_isBlank {p : Text} (h : IsBlank p) : IsLine p := by
  intro c hc
  have := h c hc
  simp [isWhiteSpace] at this
  omega

theorem pbs_of_lines (l : Text) (ls : List Text) (h : ∀ x ∈ l :: ls, IsLine x)
    (hci : BlockString.commonIndent (l :: ls) = none) :
    parseBlockString (joinLF (l :: ls)) = joinLF (popTrailing (popLeading (l :: ls))) := by
  unfold parseBlockString
  rw [splitLines_joinLF l ls h]
  simp only [hci]

theorem pbs_single (l : Text) (hl : IsLine l) (hnb : onlyWhiteSpace l = false) : parseBlockString l = l := by
  have := pbs_of_lines l [] (by simpa using hl) (by simp [BlockString.commonIndent])
  simp only [joinLF] at this
  rw [this, popLeading_nonblank l [] hnb]
  have : popTrailing [l] = [l] := by simpa using popTrailing_nonblank [] l hnb
  rw [this]; rfl

theorem pbs_single_lf (l P : Text) (hl : IsLine l) (hnb : onlyWhiteSpace l = false) (hP : IsBlank P) :
    parseBlockString (l ++ 10 :: P) = l := by
  have hj : l ++ 10 :: P = joinLF [l, P] := by simp [joinLF]
  have hci : BlockString.commonIndent [l, P] = none := by
    simp [BlockString.commonIndent, indentStep_blank none P hP]
  rw [hj, pbs_of_lines l [P] (by
    intro x hx; simp at hx; rcases hx with rfl | rfl
    · exact hl
    · exact isLine_of_isBlank hP) hci]
  rw [popLeading_nonblank l [P] hnb]
  have := popTrailing_blank [l] P hP
  simp only [List.singleton_append] at this
  rw [this, (by simpa using popTrailing_nonblank [] l hnb : popTrailing [l] = [l])]
  simp [joinLF]

theorem pbs_blank3 (P Q : Text) (hP : IsBlank P) (hQ : IsBlank Q) : parseBlockString (10 :: (P ++ 10 :: Q)) = [] := by
  have hj : 10 :: (P ++ 10 :: Q) = joinLF [[], P, Q] := by simp [joinLF]
  have hnil : IsBlank ([] : Text) := by intro c hc; simp at hc
  have hci : BlockString.commonIndent [[], P, Q] = none := by
    simp [BlockString.commonIndent, indentStep_blank none P hP, indentStep_blank none Q hQ]
  rw [hj, pbs_of_lines [] [P, Q] (by
    intro x hx; simp at hx; rcases hx with rfl | rfl | rfl
    · exact isLine_of_isBlank hnil
    · exact isLine_of_isBlank hP
    · exact isLine_of_isBlank hQ) hci]
  rw [popLeading_blank [] _ hnil, popLeading_blank P _ hP, popLeading_blank Q _ hQ]
  simp [popLeading, popTrailing, joinLF]

/-! ### the printed forms -/

theorem replaceLF_nil (s : Text) : replaceLF [] s = s := by
  induction s with
  | nil => rfl
  | cons c t ih => simp [replaceLF, ih]; intro h; exact h.symm

/-- the description path is the value path with an empty indent -/
theorem indentText_nil (e : Text) : indentText e [] = e := by
  unfold indentText
  cases h : e.isEmpty with
  | true => have : e = [] := by simpa using h
            simp [this]
  | false => simp [replaceLF_nil]

theorem blockString_desc (v ind : Text) : blockString v ind true = blockString v [] false := by
  unfold blockString
  simp only [indentText_nil, Bool.false_eq_true, ↓reduceIte]

theorem blockString_empty (ind : Text) : blockString [] ind false = tq ++ 10 :: 10 :: tq := by
  simp [blockString, escapeTripleQuotes, escapeTQAux, indentText, tq]

theorem mem_escape {k : Nat} {v : Text} {c : Nat} (h : c ∈ escapeTQAux k v) : c ∈ v ∨ c = 92 := by
  induction v generalizing k with
  | nil => cases k <;> simp [escapeTQAux] at h
  | cons a t ih =>
    cases k with
    | succ k' =>
      simp only [escapeTQAux, List.mem_cons] at h
      rcases h with rfl | h
      · simp
      · rcases ih h with h | h
        · exact Or.inl (List.mem_cons_of_mem _ h)
        · exact Or.inr h
    | zero =>
      simp only [escapeTQAux] at h
      split at h
      · simp only [List.mem_cons] at h
        rcases h with rfl | rfl | h
        · exact Or.inr rfl
        · simp
        · rcases ih h with h | h
          · exact Or.inl (List.mem_cons_of_mem _ h)
          · exact Or.inr h
      · simp only [List.mem_cons] at h
        rcases h with rfl | h
        · simp
        · rcases ih h with h | h
          · exact Or.inl (List.mem_cons_of_mem _ h)
          · exact Or.inr h

/-! ### one `__next__` on each printed form -/

/-- the token the printed block string must lex to -/
def blockTok (n : Nat) (text r v : Text) : Tok := ⟨.blockString, posAt n (text ++ r), posAt n r, v⟩

theorem next_block_of_body (n : Nat) (body raw r : Text) (h : readBlockBody n 0 (body ++ r) = .ok (raw, r)) :
    next n ((tq ++ body) ++ r) = .ok (blockTok n (tq ++ body) r (parseBlockString raw), some r) := by
  have hi : isIgnored 34 = false := by decide
  have hpr : isPrintable 34 = true := by decide
  have hs : symbolKind 34 = none := by decide
  simp only [tq, List.cons_append, List.nil_append, List.append_assoc] at h ⊢
  simp [next, readOverWhitespace, hi, hpr, hs, tq, List.isPrefixOf, readBlockString, h, Except.map, blockTok]

/-- (1) the empty value -/
theorem next_empty (n : Nat) (ind P r : Text) (hP : Blank P) :
    next n (replaceLF P (blockString [] ind false) ++ r) =
      .ok (blockTok n (replaceLF P (blockString [] ind false)) r [], some r) := by
  have hPb := isBlank_of_blank hP
  have hform : replaceLF P (blockString [] ind false) = tq ++ (10 :: (P ++ 10 :: P) ++ tq) := by
    rw [blockString_empty]; simp [replaceLF, tq]
  have hclose := readBlockBody_close n (10 :: (P ++ 10 :: P)) r (by
    intro c hc; simp at hc
    rcases hc with rfl | hc | rfl | hc
    · exact Or.inl rfl
    · rcases hP c hc with e | e <;> simp [e]
    · exact Or.inl rfl
    · rcases hP c hc with e | e <;> simp [e])
  have := next_block_of_body n (10 :: (P ++ 10 :: P) ++ tq) (10 :: (P ++ 10 :: P)) r (by
    simpa [List.append_assoc] using hclose)
  rw [hform, this, pbs_blank3 P P hPb hPb]

/-- (2) the multi-line form (lang3's `blockLay_multiline`, as an equation on `next`) -/
theorem next_multiline (n : Nat) (ind P r l : Text) (ls : List Text) (hind : Blank ind) (hP : Blank P)
    (hlines : ∀ x ∈ l :: ls, IsLine x) (hchars : ∀ c ∈ joinLF (l :: ls), blockChar c = true)
    (hfirst : onlyWhiteSpace l = false) (hlast : onlyWhiteSpace ((l :: ls).getLast (by simp)) = false)
    (hmin : (l :: ls).foldl indentStep none = some 0) (hml : multiLineForm (joinLF (l :: ls)) = true) :
    next n (replaceLF P (blockString (joinLF (l :: ls)) ind false) ++ r) =
      .ok (blockTok n (replaceLF P (blockString (joinLF (l :: ls)) ind false)) r (joinLF (l :: ls)), some r) := by
  have hvne : joinLF (l :: ls) ≠ [] := by
    have hl0 : l ≠ [] := by intro e; subst e; simp [onlyWhiteSpace] at hfirst
    cases ls with
    | nil => simpa [joinLF] using hl0
    | cons b bs => rw [joinLF_cons_cons]; simp [hl0]
  have hQ : Blank (P ++ ind) := blank_append hP hind
  have hform := blockString_multiline (joinLF (l :: ls)) ind hvne hml
  have hrep : replaceLF P (blockString (joinLF (l :: ls)) ind false) =
      tq ++ 10 :: ((P ++ ind) ++ (escapeTQAux 0 (replaceLF (P ++ ind) (joinLF (l :: ls))) ++ 10 :: (P ++ (tq ++ [])))) := by
    rw [hform]
    simp only [replaceLF_append, replaceLF, ↓reduceIte, replaceLF_noLF P ind (blank_noLF hind),
      replaceLF_replaceLF P ind _ hind, escape_replaceLF (P ++ ind) hQ _ 0 (Nat.zero_le _)]
    simp [tq, replaceLF]
  have hX : ∀ c ∈ replaceLF (P ++ ind) (joinLF (l :: ls)), blockChar c = true := by
    intro c hc
    rcases mem_replaceLF hc with h | h
    · exact hchars c h
    · rcases hQ c h with e | e <;> subst e <;> decide
  have := next_block_layout n (P ++ ind) P (replaceLF (P ++ ind) (joinLF (l :: ls))) r hQ hP hX
  rw [parseBlockString_layout (P ++ ind) P l ls hQ hP hlines hfirst hlast hmin] at this
  have htxt : replaceLF P (blockString (joinLF (l :: ls)) ind false) ++ r =
      tq ++ 10 :: (P ++ ind ++ (escapeTQAux 0 (replaceLF (P ++ ind) (joinLF (l :: ls))) ++ 10 :: (P ++ (tq ++ r)))) := by
    rw [hrep]; simp [List.append_assoc]
  simp only [blockTok]
  rw [htxt]
  exact this

/-- (3) the one-line form `"""␠value"""` / `"""␠value⏎"""` -/
theorem next_oneline (n : Nat) (ind P r v : Text) (hP : Blank P) (hline : IsLine v) (hnb : onlyWhiteSpace v = false)
    (hchars : ∀ c ∈ v, blockChar c = true) (hml : multiLineForm v = false) :
    next n (replaceLF P (blockString v ind false) ++ r) =
      .ok (blockTok n (replaceLF P (blockString v ind false)) r v, some r) := by
  have hPb := isBlank_of_blank hP
  cases v with
  | nil => simp [onlyWhiteSpace] at hnb
  | cons c t =>
  have hne : c :: t ≠ [] := by simp
  have hcond : ((c == 32 || c == 9) && !((c :: t).contains 10)) = true := by
    have h0 : (!(((c == 32 || c == 9) && !((c :: t).contains 10)))) = false := hml
    cases h : ((c == 32 || c == 9) && !((c :: t).contains 10)) with
    | true => rfl
    | false => rw [h] at h0; cases h0
  have hesc_noLF : ∀ x ∈ escapeTQAux 0 (c :: t), x ≠ 10 := by
    intro x hx
    rcases mem_escape hx with h | h
    · exact (hline x h).1
    · omega
  have htq_noLF : ∀ x ∈ tq, x ≠ 10 := by intro x hx; simp [tq] at hx; omega
  have hlastv : (escapeTQAux 0 (c :: t)).getLast? = some ((c :: t).getLast hne) := by
    rw [escapeTQAux_getLast?, List.getLast?_eq_getLast hne]
  have hdef : blockString (c :: t) ind false =
      (if ((c == 32 || c == 9) && !((c :: t).contains 10)) = true then
        tq ++ (if ((escapeTQAux 0 (c :: t)).getLast? == some 34 || (escapeTQAux 0 (c :: t)).getLast? == some 92) = true
          then escapeTQAux 0 (c :: t) ++ [10] else escapeTQAux 0 (c :: t)) ++ tq
      else tq ++ 10 :: ((if false = true then escapeTQAux 0 (c :: t) else indentText (escapeTQAux 0 (c :: t)) ind) ++ 10 :: tq)) := rfl
  by_cases hfuse : ((escapeTQAux 0 (c :: t)).getLast? == some 34 || (escapeTQAux 0 (c :: t)).getLast? == some 92) = true
  · -- a trailing `"` or `\\`: the printer appends a line feed
    have hform : blockString (c :: t) ind false = tq ++ ((escapeTQAux 0 (c :: t) ++ [10]) ++ tq) := by
      rw [hdef, if_pos hcond, if_pos hfuse]; simp [List.append_assoc]
    have hrep : replaceLF P (blockString (c :: t) ind false) = tq ++ ((escapeTQAux 0 (c :: t) ++ 10 :: P) ++ tq) := by
      rw [hform]
      simp only [replaceLF_append, replaceLF_noLF P tq htq_noLF, replaceLF_noLF P _ hesc_noLF]
      simp [replaceLF]
    have hbody : readBlockBody n 0 (((escapeTQAux 0 (c :: t) ++ 10 :: P) ++ tq) ++ r) = .ok ((c :: t) ++ 10 :: P, r) := by
      have h1 := readBlockBody_escape n (P ++ (tq ++ r)) (c :: t) 0 (Nat.zero_le _) hchars
      have h2 := readBlockBody_close n (10 :: P) r (by
        intro x hx; simp at hx
        rcases hx with rfl | hx
        · exact Or.inl rfl
        · rcases hP x hx with e | e <;> simp [e])
      simp only [List.cons_append, List.append_assoc] at h1 h2 ⊢
      rw [h1, h2]; rfl
    rw [hrep, next_block_of_body n _ _ r hbody, pbs_single_lf (c :: t) P hline hnb hPb]
  · -- nothing can fuse with the closing quotes
    have hform : blockString (c :: t) ind false = tq ++ (escapeTQAux 0 (c :: t) ++ tq) := by
      rw [hdef, if_pos hcond, if_neg hfuse]; simp [List.append_assoc]
    have hrep : replaceLF P (blockString (c :: t) ind false) = tq ++ (escapeTQAux 0 (c :: t) ++ tq) := by
      rw [hform]
      simp only [replaceLF_append, replaceLF_noLF P tq htq_noLF, replaceLF_noLF P _ hesc_noLF]
    have hfuse' := (Bool.not_eq_true _).mp hfuse
    rw [hlastv] at hfuse'
    simp only [Bool.or_eq_false_iff, beq_eq_false_iff_ne, ne_eq, Option.some.injEq] at hfuse'
    have hbody : readBlockBody n 0 ((escapeTQAux 0 (c :: t) ++ tq) ++ r) = .ok (c :: t, r) := by
      have := readBlockBody_escape_close n r (c :: t) 0 (Nat.zero_le _) hne hfuse'.1 hfuse'.2 hchars
      simpa [List.append_assoc] using this
    rw [hrep, next_block_of_body n _ _ r hbody, pbs_single (c :: t) hline hnb]

theorem joinLF_contains_lf (l a : Text) (b : List Text) : (joinLF (l :: a :: b)).contains 10 = true := by
  rw [joinLF_cons_cons]; simp

/-- `block_roundtrip`, value path: every value in the range of `parse_block_string`, under every indent and every
    enclosing indentation prefix, followed by anything -/
theorem block_next_value (n : Nat) (raw ind P r : Text) (hind : Blank ind) (hP : Blank P)
    (hchars : ∀ c ∈ parseBlockString raw, blockChar c = true) :
    next n (replaceLF P (blockString (parseBlockString raw) ind false) ++ r) =
      .ok (blockTok n (replaceLF P (blockString (parseBlockString raw) ind false)) r (parseBlockString raw), some r) := by
  rcases parseBlockString_range raw with h0 | ⟨l, ls, hv, hlines, hfirst, hlast, hmin⟩
  · rw [h0]; exact next_empty n ind P r hP
  · rw [hv] at hchars ⊢
    by_cases hml : multiLineForm (joinLF (l :: ls)) = true
    · have hmin' : (l :: ls).foldl indentStep none = some 0 := by
        rcases hmin with rfl | h
        · -- a single line that does not start with a blank
          have hl := hlines l (by simp)
          have hno10 : l.contains 10 = false := by
            rw [Bool.eq_false_iff]; intro h
            have : (10 : Nat) ∈ l := by simpa using h
            exact (hl 10 this).1 rfl
          have hi0 : indentOf l = 0 := by
            cases l with
            | nil => rfl
            | cons c t =>
              simp only [joinLF, multiLineForm, hno10, Bool.not_false, Bool.and_true, Bool.not_eq_true'] at hml
              rw [indentOf_cons]
              have : isWhiteSpace c = false := by
                simp only [isWhiteSpace]; rw [Bool.or_comm]; exact hml
              simp [this]
          have hnbl : indentOf l < l.length := by
            have := (nb_iff l).mpr hfirst
            unfold NB at this; exact of_decide_eq_true this
          simp only [List.foldl_cons, List.foldl_nil]
          rw [indentStep_eq, if_pos hnbl, hi0]; rfl
        · exact h
      exact next_multiline n ind P r l ls hind hP hlines hchars hfirst hlast hmin' hml
    · have hml' : multiLineForm (joinLF (l :: ls)) = false := (Bool.not_eq_true _).mp hml
      have hls : ls = [] := by
        cases ls with
        | nil => rfl
        | cons a b =>
          exfalso
          have hc := joinLF_contains_lf l a b
          unfold multiLineForm at hml'
          rw [hc] at hml'
          simp at hml'
      subst hls
      simp only [joinLF] at hchars hml' ⊢
      exact next_oneline n ind P r l hP (hlines l (by simp)) hfirst hchars hml'

/-- `block_roundtrip`, both paths (`is_description` on / off) -/
theorem block_next (n : Nat) (raw ind P r : Text) (d : Bool) (hind : Blank ind) (hP : Blank P)
    (hchars : ∀ c ∈ parseBlockString raw, blockChar c = true) :
    next n (replaceLF P (blockString (parseBlockString raw) ind d) ++ r) =
      .ok (blockTok n (replaceLF P (blockString (parseBlockString raw) ind d)) r (parseBlockString raw), some r) := by
  cases d with
  | false => exact block_next_value n raw ind P r hind hP hchars
  | true =>
    rw [blockString_desc]
    exact block_next_value n raw [] P r (by intro c hc; simp at hc) hP hchars

end PyGql.BlockRT

/-
  `OverlappingFieldsCanBeMergedChecker`, part 5: `_conflicts_between_subselections`, the five search functions
  together (induction on the fuel), and `find_conflicts_within_selection_set`: a positive count comes with two
  conflicting fields of the selection set.
-/
import PyGqlModel.Lemmas.ValidateOverlapSearch2
namespace PyGql.Validate
open PyGql PyGql.Validate.Spec

section
variable (s : SchemaD) (fx : Fixes) (d : Doc)

theorem withFreshCmp_spec (f : OCtx → Nat × OCtx) (Q : Prop)
    (hf : ∀ c, CI s d c → CI s d (f c).2 ∧ (0 < (f c).1 → Q)) (c : OCtx) (hc : CI s d c) :
    CI s d (withFreshCmp f c).2 ∧ (0 < (withFreshCmp f c).1 → Q) := by
  unfold withFreshCmp
  obtain ⟨a, b⟩ := hf { c with cmp := [] } (hc.cmp _)
  exact ⟨a.cmp _, b⟩

/-- `_fields_and_fragments` on a selection set of the document under an admissible parent type -/
theorem ff_set {c : OCtx} (hc : CI s d c) {p : Option String} {i : Nat} {sels : List Sel}
    (h1 : SelSet d i sels) (h2 : Adm s d i p) :
    CI s d (fieldsAndFragments s p i sels c).2 ∧
    EntOK (fun _ e => Ent s d e) (fieldsAndFragments s p i sels c).1.1 ∧
    ∃ p', Adm s d i p' ∧
      (∀ rn e, Has (fieldsAndFragments s p i sels c).1.1 rn e → Coll s d p' sels rn e) ∧
      (∀ g ∈ (fieldsAndFragments s p i sels c).1.2, ∀ rn e, CollF s d g rn e → Coll s d p' sels rn e) := by
  obtain ⟨⟨p', a1, a2⟩, a3, a4, a5⟩ := fieldsAndFragments_sound s d p i sels c hc.cache h2
  refine ⟨⟨a5.trans hc.frags, a4⟩, entOK_ent a2 h1 a1, p', a1, ?_, ?_⟩
  · rintro rn e ⟨l, hl, he⟩
    exact Or.inl (a2 _ hl e he)
  · intro g hg rn e hcf
    exact Or.inr ⟨g, a3 g hg, hcf⟩

theorem step_ss (fuel : Nat) (hcb : SCb s fx d fuel) (hff : SFf s fx d fuel) (hfr : SFr s fx d fuel) :
    SSs s fx d (fuel + 1) := by
  intro me p1 id1 sels1 p2 id2 sels2 c hc s1 a1 s2 a2
  simp only [betweenSubselections]
  obtain ⟨x1, x2, p1', x3, x4, x5⟩ := ff_set s d hc s1 a1
  generalize fieldsAndFragments s p1 id1 sels1 c = ra at x1 x2 x4 x5 ⊢
  obtain ⟨⟨fma, fra⟩, ca⟩ := ra
  simp only at x1 x2 x4 x5 ⊢
  obtain ⟨y1, y2, p2', y3, y4, y5⟩ := ff_set s d x1 s2 a2
  generalize fieldsAndFragments s p2 id2 sels2 ca = rb at y1 y2 y4 y5 ⊢
  obtain ⟨⟨fmb, frb⟩, cb⟩ := rb
  simp only at y1 y2 y4 y5 ⊢
  let G : Prop := ∃ q1 q2 rn e1 e2, Adm s d id1 q1 ∧ Adm s d id2 q2 ∧ Coll s d q1 sels1 rn e1 ∧ Coll s d q2 sels2 rn e2 ∧
    (Conf s d me e1 e2 ∨ Conf s d me e2 e1)
  obtain ⟨r01, r02⟩ := hcb me fma fmb cb y1 x2 y2
  obtain ⟨r11, r12⟩ := sumLoop_spec' frb
    (fun fr c => withFreshCmp (betweenFieldsAndFragment s fx fuel me id1 fma fr) c) (CI s d)
    (fun fr => ∃ rn e1 e2, Has fma rn e1 ∧ CollF s d fr rn e2 ∧ Conf s d me e1 e2) G
    (fun fr _ c hc => withFreshCmp_spec s d _ _ (fun c hc => hff me id1 fma fr c hc x2) c hc)
    (fun fr hfr' hQ => by
      obtain ⟨rn, e1, e2, z1, z2, z3⟩ := hQ
      exact ⟨p1', p2', rn, e1, e2, x3, y3, x4 rn e1 z1, y5 fr hfr' rn e2 z2, Or.inl z3⟩) _ r01
  obtain ⟨r21, r22⟩ := sumLoop_spec' fra
    (fun fr c => withFreshCmp (betweenFieldsAndFragment s fx fuel me id2 fmb fr) c) (CI s d)
    (fun fr => ∃ rn e1 e2, Has fmb rn e1 ∧ CollF s d fr rn e2 ∧ Conf s d me e1 e2) G
    (fun fr _ c hc => withFreshCmp_spec s d _ _ (fun c hc => hff me id2 fmb fr c hc y2) c hc)
    (fun fr hfr' hQ => by
      obtain ⟨rn, e1, e2, z1, z2, z3⟩ := hQ
      exact ⟨p1', p2', rn, e2, e1, x3, y3, x5 fr hfr' rn e2 z2, y4 rn e1 z1, Or.inr z3⟩) _ r11
  obtain ⟨r31, r32⟩ := sumLoop_spec' fra
    (fun f1 c => sumLoop frb (fun f2 c => betweenFragments s fx fuel me (some f1) (some f2) c) c) (CI s d)
    (fun f1 => ∃ f2 ∈ frb, ∃ rn e1 e2, CollF s d f1 rn e1 ∧ CollF s d f2 rn e2 ∧ Conf s d me e1 e2) G
    (fun f1 _ c hc => sumLoop_spec' frb (fun f2 c => betweenFragments s fx fuel me (some f1) (some f2) c) (CI s d)
      (fun f2 => ∃ rn e1 e2, CollF s d f1 rn e1 ∧ CollF s d f2 rn e2 ∧ Conf s d me e1 e2) _
      (fun f2 _ c hc => by
        obtain ⟨w1, w2⟩ := hfr me (some f1) (some f2) c hc
        refine ⟨w1, fun h => ?_⟩
        obtain ⟨g1, g2, rn, e1, e2, z1, z2, z3, z4, z5⟩ := w2 h
        cases z1; cases z2
        exact ⟨rn, e1, e2, z3, z4, z5⟩)
      (fun f2 hf2 hQ => ⟨f2, hf2, hQ⟩) c hc)
    (fun f1 hf1 hQ => by
      obtain ⟨f2, hf2, rn, e1, e2, z3, z4, z5⟩ := hQ
      exact ⟨p1', p2', rn, e1, e2, x3, y3, x5 f1 hf1 rn e1 z3, y5 f2 hf2 rn e2 z4, Or.inl z5⟩) _ r21
  refine ⟨r31, fun h => ?_⟩
  by_cases h0 : 0 < (conflictsBetween s fx fuel me fma fmb cb).1
  · obtain ⟨rn, e1, e2, z1, z2, z3⟩ := r02 h0
    exact ⟨p1', p2', rn, e1, e2, x3, y3, x4 rn e1 z1, y4 rn e2 z2, Or.inl z3⟩
  · by_cases h1 : 0 < (sumLoop frb (fun fr c => withFreshCmp (betweenFieldsAndFragment s fx fuel me id1 fma fr) c)
        (conflictsBetween s fx fuel me fma fmb cb).2).1
    · exact r12 h1
    · by_cases h2 : 0 < (sumLoop fra (fun fr c => withFreshCmp (betweenFieldsAndFragment s fx fuel me id2 fmb fr) c)
          (sumLoop frb (fun fr c => withFreshCmp (betweenFieldsAndFragment s fx fuel me id1 fma fr) c)
            (conflictsBetween s fx fuel me fma fmb cb).2).2).1
      · exact r22 h2
      · exact r32 (by omega)

/-- **every conflict the search reports is genuine**, all five functions, any fuel -/
theorem search_sound (h7 : fx.v7 = true) : ∀ fuel,
    SFind s fx d fuel ∧ SCb s fx d fuel ∧ SFf s fx d fuel ∧ SFr s fx d fuel ∧ SSs s fx d fuel := by
  intro fuel
  induction fuel with
  | zero =>
    refine ⟨?_, ?_, ?_, ?_, ?_⟩
    · intro pme f1 f2 c hc _ _; simp only [findConflict]; exact ⟨hc.crash _, fun h => by cases h⟩
    · intro me fm1 fm2 c hc _ _; simp only [conflictsBetween]; exact ⟨hc.crash _, fun h => by cases h⟩
    · intro me ssid fm name c hc _; simp only [betweenFieldsAndFragment]; exact ⟨hc.crash _, fun h => by cases h⟩
    · intro me of1 of2 c hc; simp only [betweenFragments]; exact ⟨hc.crash _, fun h => by cases h⟩
    · intro me p1 id1 sels1 p2 id2 sels2 c hc _ _ _ _
      simp only [betweenSubselections]; exact ⟨hc.crash _, fun h => by cases h⟩
  | succ fuel ih =>
    obtain ⟨i1, i2, i3, i4, i5⟩ := ih
    exact ⟨step_find s fx d fuel i5, step_cb s fx d fuel i1, step_ff s fx d fuel i2 i3,
      step_fr s fx d h7 fuel i2 i4, step_ss s fx d fuel i2 i3 i4⟩

end
end PyGql.Validate

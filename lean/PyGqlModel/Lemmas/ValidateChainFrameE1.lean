/-
  Frame / congruence facts of `enterRule` (see `Lemmas/ValidateChainFrame.lean`), part 1: proved case by case over the
  26 rules and the 14 node kinds.
-/
import PyGqlModel.Lemmas.ValidateChainFrame
namespace PyGql.Validate
open PyGql

set_option maxHeartbeats 2000000 in
/-- whether a rule raises `SkipNode` depends on its own part only -/
theorem enterRule_flag (s : SchemaD) (fx : Fixes) (r : Rule) (n : Node) (ti : TI) (a : RS) :
    (enterRule s fx r n ti a).2 = (enterRule s fx r n ti (a.own r)).2 := by
  cases r <;> cases n <;> rs_cases

end PyGql.Validate

/-
  C04 — directive failures, declaratively: `DirFail obj sels` holds when, in the UNPRUNED expansion of `sels` for object
  type `obj`, some selection that is met has an `@skip`/`@include` condition that cannot be evaluated.
  * model soundness (`mseq_dirSound`): when the model's collector fails with `CoercionError`, such a selection exists;
  * spec completeness (`sseq_safe`): after a SUCCESSFUL specification run no such selection exists in what was
    expanded, and every fragment newly visited is failure-free (`SafeF`) — given that the visited fragments which are
    not still being expanded are failure-free (`SafeV`, the analogue of the closure invariant `Closed`).
-/
import PyGqlModel.Lemmas.C04Reach
import PyGqlModel.Lemmas.C04Raise

set_option linter.unusedSimpArgs false
set_option linter.unusedVariables false

namespace PyGql.Props.C04
open PyGql PyGql.Exec PyGql.Spec PyGql.Lemmas.C04Raise

/-- the directives written on the selection itself -/
def ownDirs : Sel → List Dir
  | .field _ _ _ dirs _ _ _ => dirs
  | .inline _ dirs _ => dirs
  | .spread _ dirs => dirs

abbrev CE : Fail := .internal "CoercionError"

section
variable (s : SchemaD) (doc : Doc) (vars : Vars)

inductive DirFail (obj : String) : List Sel → Prop
  | here {sels x e} : x ∈ sels → skipSelection vars (ownDirs x) = .error e → DirFail obj sels
  | inline {sels on dirs sub} : Sel.inline on dirs sub ∈ sels → skipSelection vars dirs = .ok false →
      fragmentTypeApplies s obj on = .ok true → DirFail obj sub → DirFail obj sels
  | spread {sels name dirs fr} : Sel.spread name dirs ∈ sels → skipSelection vars dirs = .ok false →
      doc.fragment? name = some fr → fragmentTypeApplies s obj (some fr.on) = .ok true → DirFail obj fr.sels → DirFail obj sels

variable {s doc vars}

theorem DirFail.mono {obj : String} {a b : List Sel} (h : DirFail s doc vars obj a) (hab : ∀ x ∈ a, x ∈ b) :
    DirFail s doc vars obj b := by
  cases h with
  | here hm he => exact .here (hab _ hm) he
  | inline hm hs ha hr => exact .inline (hab _ hm) hs ha hr
  | spread hm hs hf ha hr => exact .spread (hab _ hm) hs hf ha hr

theorem DirFail.cons_split {obj : String} {x : Sel} {xs : List Sel} (h : DirFail s doc vars obj (x :: xs)) :
    DirFail s doc vars obj [x] ∨ DirFail s doc vars obj xs := by
  cases h with
  | here hm he =>
    simp at hm
    rcases hm with rfl | hm
    · exact Or.inl (.here (by simp) he)
    · exact Or.inr (.here hm he)
  | inline hm hs ha hr =>
    simp at hm
    rcases hm with rfl | hm
    · exact Or.inl (.inline (by simp) hs ha hr)
    · exact Or.inr (.inline hm hs ha hr)
  | spread hm hs hf ha hr =>
    simp at hm
    rcases hm with rfl | hm
    · exact Or.inl (.spread (by simp) hs hf ha hr)
    · exact Or.inr (.spread hm hs hf ha hr)

theorem DirFail.head {obj : String} {x : Sel} {xs : List Sel} (h : DirFail s doc vars obj [x]) : DirFail s doc vars obj (x :: xs) :=
  h.mono (by intro y hy; simp at hy; simp [hy])

theorem DirFail.tail {obj : String} {x : Sel} {xs : List Sel} (h : DirFail s doc vars obj xs) : DirFail s doc vars obj (x :: xs) :=
  h.mono (by intro y hy; simp [hy])

theorem not_dirFail_nil {obj : String} : ¬ DirFail s doc vars obj [] := by
  intro h; cases h <;> simp_all

/-- a field whose own directives can be evaluated -/
theorem not_dirFail_field {obj key name loc dirs args hs sub} {b : Bool} (hsk : skipSelection vars dirs = .ok b) :
    ¬ DirFail s doc vars obj [Sel.field key name loc dirs args hs sub] := by
  intro h
  cases h with
  | here hm he => simp at hm; subst hm; simp [ownDirs, hsk] at he
  | inline hm => simp at hm
  | spread hm => simp at hm

/-- an inline fragment that is not expanded (skipped or not applicable) -/
theorem not_dirFail_inline_dropped {obj on dirs sub} {b : Bool} (hsk : skipSelection vars dirs = .ok b)
    (hdrop : b = true ∨ fragmentTypeApplies s obj on = .ok false) : ¬ DirFail s doc vars obj [Sel.inline on dirs sub] := by
  intro h
  cases h with
  | here hm he => simp at hm; subst hm; simp [ownDirs, hsk] at he
  | inline hm hs' ha' =>
    simp at hm; obtain ⟨rfl, rfl, rfl⟩ := hm
    rcases hdrop with rfl | hd
    · simp [hsk] at hs'
    · simp [hd] at ha'
  | spread hm => simp at hm

theorem not_dirFail_inline_expanded {obj on dirs sub} {b : Bool} (hsk : skipSelection vars dirs = .ok b)
    (hsub : ¬ DirFail s doc vars obj sub) : ¬ DirFail s doc vars obj [Sel.inline on dirs sub] := by
  intro h
  cases h with
  | here hm he => simp at hm; subst hm; simp [ownDirs, hsk] at he
  | inline hm hs' ha' hr' => simp at hm; obtain ⟨rfl, rfl, rfl⟩ := hm; exact hsub hr'
  | spread hm => simp at hm

variable (s doc vars)
/-- fragment `F` is failure-free for `obj` -/
def SafeF (obj : String) (F : String) : Prop :=
  ∀ fr, doc.fragment? F = some fr → fragmentTypeApplies s obj (some fr.on) = .ok true → ¬ DirFail s doc vars obj fr.sels

/-- every visited fragment is failure-free, except those still being expanded (rank ≥ `r`) -/
def SafeV (obj : String) (rk : String → Nat) (r : Nat) (V : List String) : Prop :=
  ∀ F ∈ V, r ≤ rk F ∨ SafeF s doc vars obj F
variable {s doc vars}

theorem not_dirFail_spread {obj name dirs} {b : Bool} (hsk : skipSelection vars dirs = .ok b)
    (hsafe : b = true ∨ SafeF s doc vars obj name) : ¬ DirFail s doc vars obj [Sel.spread name dirs] := by
  intro h
  cases h with
  | here hm he => simp at hm; subst hm; simp [ownDirs, hsk] at he
  | inline hm => simp at hm
  | spread hm hs' hf' ha' hr' =>
    simp at hm; obtain ⟨rfl, rfl⟩ := hm
    rcases hsafe with rfl | hsafe
    · simp [hsk] at hs'
    · exact hsafe _ hf' ha' hr'

theorem safeV_for_body {obj name : String} {rk : String → Nat} {r : Nat} {V : List String}
    (h : SafeV s doc vars obj rk r V) (hr : rk name < r) : SafeV s doc vars obj rk (rk name) (V ++ [name]) := by
  intro G hG
  simp at hG
  rcases hG with hG | rfl
  · rcases h G hG with h1 | h1
    · exact Or.inl (by omega)
    · exact Or.inr h1
  · exact Or.inl (Nat.le_refl _)

theorem safeV_after {obj : String} {rk : String → Nat} {r : Nat} {V V1 : List String}
    (h : SafeV s doc vars obj rk r V) (hnew : ∀ G ∈ V1, G ∈ V ∨ SafeF s doc vars obj G) : SafeV s doc vars obj rk r V1 := by
  intro G hG
  rcases hnew G hG with h1 | h1
  · exact h G h1
  · exact Or.inr h1

variable (s doc vars)

/-! ### model soundness for failures -/

def ModelDirSound (f : String → List Sel → List String → SeqRes) : Prop :=
  ∀ obj sels seen, f obj sels seen = .error CE → DirFail s doc vars obj sels

theorem mseqStep_dirSound (rec : String → List Sel → List String → SeqRes) (hrec : ModelDirSound s doc vars rec) (obj : String) :
    ∀ (sels : List Sel) (seen : List String), mseqStep s doc vars rec obj sels seen = .error CE → DirFail s doc vars obj sels := by
  intro sels
  induction sels with
  | nil => intro seen h; simp [mseqStep] at h
  | cons sel rest ih =>
    intro seen h
    have tailCase : ∀ seen2, mseqStep s doc vars rec obj rest seen2 = .error CE → DirFail s doc vars obj (sel :: rest) :=
      fun seen2 hh => (ih seen2 hh).tail
    cases sel with
    | field key name loc dirs args hs sub =>
      simp only [mseqStep, bind, Except.bind, pure, Except.pure] at h
      cases hsk : skipSelection vars dirs with
      | error e => exact .here (x := Sel.field key name loc dirs args hs sub) (by simp) (by simpa [ownDirs] using hsk)
      | ok b =>
        simp only [hsk] at h
        cases b with
        | true => simp at h; exact tailCase _ h
        | false =>
          simp only [Bool.false_eq_true, if_false] at h
          cases hr : mseqStep s doc vars rec obj rest seen with
          | error e => simp [hr] at h; subst h; exact tailCase _ hr
          | ok p => simp [hr] at h
    | inline on dirs sub =>
      simp only [mseqStep, bind, Except.bind, pure, Except.pure, List.isEmpty_iff] at h
      cases hsk : skipSelection vars dirs with
      | error e => exact .here (x := Sel.inline on dirs sub) (by simp) (by simpa [ownDirs] using hsk)
      | ok b =>
        simp only [hsk] at h
        cases b with
        | true => simp at h; exact tailCase _ h
        | false =>
          simp only [Bool.false_eq_true, if_false] at h
          cases hap : fragmentTypeApplies s obj on with
          | error e =>
            simp [hap] at h
            have := fragmentTypeApplies_err _ _ _ _ hap
            rw [h] at this; simp [CE] at this
          | ok a =>
            simp only [hap] at h
            cases a with
            | false => simp at h; exact tailCase _ h
            | true =>
              simp only [Bool.not_true, Bool.false_eq_true, if_false] at h
              cases hr1 : rec obj sub seen with
              | error e =>
                simp [hr1] at h; subst h
                exact .inline (by simp) hsk hap (hrec obj sub seen hr1)
              | ok p1 =>
                simp only [hr1] at h
                cases hr2 : mseqStep s doc vars rec obj rest (if seen = [] then seen else p1.2) with
                | error e => simp [hr2] at h; subst h; exact tailCase _ hr2
                | ok p2 => simp [hr2] at h
    | spread name dirs =>
      simp only [mseqStep, bind, Except.bind, pure, Except.pure, List.isEmpty_iff] at h
      cases hfr : doc.fragment? name with
      | none => simp [hfr, CE] at h
      | some fr =>
        simp only [hfr] at h
        cases hsk : skipSelection vars dirs with
        | error e => exact .here (x := Sel.spread name dirs) (by simp) (by simpa [ownDirs] using hsk)
        | ok b =>
          simp only [hsk] at h
          cases b with
          | true => simp at h; exact tailCase _ h
          | false =>
            simp only [Bool.false_eq_true, if_false] at h
            by_cases hseen : seen.contains name
            · simp only [hseen, if_true] at h; simp at h; exact tailCase _ h
            · simp only [hseen, Bool.false_eq_true, if_false] at h
              cases hap : fragmentTypeApplies s obj (some fr.on) with
              | error e =>
                simp [hap] at h
                have := fragmentTypeApplies_err _ _ _ _ hap
                rw [h] at this; simp [CE] at this
              | ok a =>
                simp only [hap] at h
                cases a with
                | false => simp at h; exact tailCase _ h
                | true =>
                  simp only [Bool.not_true, Bool.false_eq_true, if_false] at h
                  cases hr1 : rec obj fr.sels seen with
                  | error e =>
                    simp [hr1] at h; subst h
                    exact .spread (by simp) hsk hfr hap (hrec obj fr.sels seen hr1)
                  | ok p1 =>
                    simp only [hr1] at h
                    generalize (if (if seen = [] then seen else p1.2).contains name = true
                        then (if seen = [] then seen else p1.2)
                        else (if seen = [] then seen else p1.2) ++ [name]) = seen3 at h
                    cases hr2 : mseqStep s doc vars rec obj rest seen3 with
                    | error e => simp [hr2] at h; subst h; exact tailCase _ hr2
                    | ok p2 => simp [hr2] at h

/-- **model soundness for failures**: a `CoercionError` of the model's collector comes from a selection that is met -/
theorem mseq_dirSound (n : Nat) : ModelDirSound s doc vars (mseq s doc vars n) := by
  induction n with
  | zero => intro obj sels seen h; simp [mseq, CE] at h
  | succ n ih =>
    intro obj sels seen h
    simp only [mseq] at h
    exact mseqStep_dirSound s doc vars _ ih obj sels seen h

/-! ### specification completeness for failures -/

def SpecSafe (rk : String → Nat) (f : String → List Sel → List String → SeqRes) : Prop :=
  ∀ obj sels V q V' (r : Nat), f obj sels V = .ok (q, V') → selsNeed rk sels ≤ r → SafeV s doc vars obj rk r V →
    ¬ DirFail s doc vars obj sels ∧ (∀ G ∈ V', G ∈ V ∨ SafeF s doc vars obj G) ∧ (∀ G ∈ V, G ∈ V')

private theorem safe_continue (rk : String → Nat) (r : Nat) (rec : String → List Sel → List String → SeqRes) (obj : String)
    (sel : Sel) (rest : List Sel)
    (ih : ∀ (V : List String) (q : List FNode) (V' : List String),
      sseqStep s doc vars rec obj rest V = .ok (q, V') → SafeV s doc vars obj rk r V →
      ¬ DirFail s doc vars obj rest ∧ (∀ G ∈ V', G ∈ V ∨ SafeF s doc vars obj G) ∧ (∀ G ∈ V, G ∈ V'))
    (V V1 : List String) (hsafe : SafeV s doc vars obj rk r V)
    (hnd : ¬ DirFail s doc vars obj [sel]) (hnew : ∀ G ∈ V1, G ∈ V ∨ SafeF s doc vars obj G) (hsub : ∀ G ∈ V, G ∈ V1)
    (q2 : List FNode) (V2 : List String) (hr : sseqStep s doc vars rec obj rest V1 = .ok (q2, V2)) :
    ¬ DirFail s doc vars obj (sel :: rest) ∧ (∀ G ∈ V2, G ∈ V ∨ SafeF s doc vars obj G) ∧ (∀ G ∈ V, G ∈ V2) := by
  obtain ⟨h1, h2, h3⟩ := ih V1 q2 V2 hr (safeV_after hsafe hnew)
  refine ⟨?_, ?_, fun G hG => h3 G (hsub G hG)⟩
  · intro h
    rcases h.cons_split with h | h
    · exact hnd h
    · exact h1 h
  · intro G hG
    rcases h2 G hG with h | h
    · exact hnew G h
    · exact Or.inr h

theorem sseqStep_safe (rk ek : String → Nat) (B : Nat) (hrk : Ranked doc rk ek B) (r : Nat)
    (rec : String → List Sel → List String → SeqRes) (hrec : SpecSafe s doc vars rk rec) (obj : String) :
    ∀ (sels : List Sel), selsNeed rk sels ≤ r → ∀ (V : List String) (q : List FNode) (V' : List String),
      sseqStep s doc vars rec obj sels V = .ok (q, V') → SafeV s doc vars obj rk r V →
      ¬ DirFail s doc vars obj sels ∧ (∀ G ∈ V', G ∈ V ∨ SafeF s doc vars obj G) ∧ (∀ G ∈ V, G ∈ V') := by
  intro sels
  induction sels with
  | nil =>
    intro _ V q V' h _
    simp [sseqStep] at h
    obtain ⟨rfl, rfl⟩ := h
    exact ⟨not_dirFail_nil, fun G hG => Or.inl hG, fun G hG => hG⟩
  | cons sel rest ih =>
    intro hneed V q V' h hsafe
    simp only [selsNeed] at hneed
    have hrest : selsNeed rk rest ≤ r := by omega
    have hselN : selNeed rk sel ≤ r := by omega
    have cont := safe_continue s doc vars rk r rec obj sel rest (ih hrest) V
    have same : ∀ G ∈ V, G ∈ V ∨ SafeF s doc vars obj G := fun G hG => Or.inl hG
    cases sel with
    | field key name loc dirs args hs sub =>
      simp only [sseqStep, bind, Except.bind, pure, Except.pure] at h
      cases hsk : skipSelection vars dirs with
      | error e => simp [hsk] at h
      | ok b =>
        simp only [hsk] at h
        have hnd := not_dirFail_field (s := s) (doc := doc) (obj := obj) (key := key) (name := name) (loc := loc) (args := args)
          (hs := hs) (sub := sub) hsk
        cases b with
        | true => simp at h; exact cont V hsafe hnd same (fun G hG => hG) q V' h
        | false =>
          simp only [Bool.false_eq_true, if_false] at h
          cases hr : sseqStep s doc vars rec obj rest V with
          | error e => simp [hr] at h
          | ok p =>
            simp [hr] at h
            obtain ⟨rfl, rfl⟩ := h
            exact cont V hsafe hnd same (fun G hG => hG) p.1 p.2 hr
    | inline on dirs sub =>
      simp only [selNeed] at hselN
      simp only [sseqStep, bind, Except.bind, pure, Except.pure] at h
      cases hsk : skipSelection vars dirs with
      | error e => simp [hsk] at h
      | ok b =>
        simp only [hsk] at h
        cases b with
        | true =>
          simp at h
          exact cont V hsafe (not_dirFail_inline_dropped hsk (Or.inl rfl)) same (fun G hG => hG) q V' h
        | false =>
          simp only [Bool.false_eq_true, if_false] at h
          cases hap : fragmentTypeApplies s obj on with
          | error e => simp [hap] at h
          | ok a =>
            simp only [hap] at h
            cases a with
            | false =>
              simp at h
              exact cont V hsafe (not_dirFail_inline_dropped hsk (Or.inr hap)) same (fun G hG => hG) q V' h
            | true =>
              simp only [Bool.not_true, Bool.false_eq_true, if_false] at h
              cases hr1 : rec obj sub V with
              | error e => simp [hr1] at h
              | ok p1 =>
                obtain ⟨q1, V1⟩ := p1
                simp only [hr1] at h
                obtain ⟨f1, f2, f3⟩ := hrec obj sub V q1 V1 r hr1 (by omega) hsafe
                cases hr2 : sseqStep s doc vars rec obj rest V1 with
                | error e => simp [hr2] at h
                | ok p2 =>
                  simp [hr2] at h
                  obtain ⟨rfl, rfl⟩ := h
                  exact cont V1 hsafe (not_dirFail_inline_expanded hsk f1) f2 f3 p2.1 p2.2 hr2
    | spread name dirs =>
      simp only [selNeed] at hselN
      simp only [sseqStep, bind, Except.bind, pure, Except.pure] at h
      cases hsk : skipSelection vars dirs with
      | error e => simp [hsk] at h
      | ok b =>
        simp only [hsk] at h
        cases b with
        | true =>
          simp at h
          exact cont V hsafe (not_dirFail_spread hsk (Or.inl rfl)) same (fun G hG => hG) q V' h
        | false =>
          simp only [Bool.false_eq_true, if_false] at h
          by_cases hvis : V.contains name
          · simp only [hvis, if_true] at h
            have hmem : name ∈ V := by simpa using hvis
            have hsf : SafeF s doc vars obj name := by
              rcases hsafe name hmem with h1 | h1
              · omega
              · exact h1
            exact cont V hsafe (not_dirFail_spread hsk (Or.inr hsf)) same (fun G hG => hG) q V' h
          · simp only [hvis, Bool.false_eq_true, if_false] at h
            have hV1 : ∀ G ∈ V, G ∈ V ++ [name] := fun G hG => by simp [hG]
            have newOnly : SafeF s doc vars obj name → ∀ G ∈ V ++ [name], G ∈ V ∨ SafeF s doc vars obj G := by
              intro hsf G hG
              simp at hG
              rcases hG with hG | rfl
              · exact Or.inl hG
              · exact Or.inr hsf
            cases hfr : doc.fragment? name with
            | none =>
              simp only [hfr] at h
              have hsf : SafeF s doc vars obj name := by intro fr hf; simp [hfr] at hf
              exact cont (V ++ [name]) hsafe (not_dirFail_spread hsk (Or.inr hsf)) (newOnly hsf) hV1 q V' h
            | some fr =>
              simp only [hfr] at h
              cases hap : fragmentTypeApplies s obj (some fr.on) with
              | error e => simp [hap] at h
              | ok a =>
                simp only [hap] at h
                cases a with
                | false =>
                  simp at h
                  have hsf : SafeF s doc vars obj name := by
                    intro fr' hf' ha'; rw [hfr] at hf'; cases hf'; simp [hap] at ha'
                  exact cont (V ++ [name]) hsafe (not_dirFail_spread hsk (Or.inr hsf)) (newOnly hsf) hV1 q V' h
                | true =>
                  simp only [Bool.not_true, Bool.false_eq_true, if_false] at h
                  cases hr1 : rec obj fr.sels (V ++ [name]) with
                  | error e => simp [hr1] at h
                  | ok p1 =>
                    obtain ⟨q1, V1⟩ := p1
                    simp only [hr1] at h
                    have hrank : rk name < r := by omega
                    obtain ⟨f1, f2, f3⟩ := hrec obj fr.sels (V ++ [name]) q1 V1 (rk name) hr1 (hrk.collect name fr hfr)
                      (safeV_for_body hsafe hrank)
                    have hsf : SafeF s doc vars obj name := by
                      intro fr' hf' _; rw [hfr] at hf'; cases hf'; exact f1
                    cases hr2 : sseqStep s doc vars rec obj rest V1 with
                    | error e => simp [hr2] at h
                    | ok p2 =>
                      simp [hr2] at h
                      obtain ⟨rfl, rfl⟩ := h
                      refine cont V1 hsafe (not_dirFail_spread hsk (Or.inr hsf)) ?_ (fun G hG => f3 G (hV1 G hG)) p2.1 p2.2 hr2
                      intro G hG
                      rcases f2 G hG with h1 | h1
                      · exact newOnly hsf G h1
                      · exact Or.inr h1

/-- **specification completeness for failures** -/
theorem sseq_safe (rk ek : String → Nat) (B : Nat) (hrk : Ranked doc rk ek B) (n : Nat) : SpecSafe s doc vars rk (sseq s doc vars n) := by
  induction n with
  | zero => intro obj sels V q V' r h; simp [sseq] at h
  | succ n ih =>
    intro obj sels V q V' r h hneed hsafe
    simp only [sseq] at h
    exact sseqStep_safe s doc vars rk ek B hrk r _ ih obj sels hneed V q V' h hsafe

end
end PyGql.Props.C04

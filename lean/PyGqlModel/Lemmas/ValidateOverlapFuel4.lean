/-
  `OverlappingFieldsCanBeMergedChecker`: FUEL SUFFICIENCY, part 4: the computable rank check is sound
  (`rankOkB s d ρ = true → RankOk s d ρ`). The check collects the fields of every selection set under NO parent
  type; which fields have sub-selections, and which, does not depend on the parent type.
-/
import PyGqlModel.Lemmas.ValidateOverlapFuel
import PyGqlModel.Lemmas.ValidateOverlapPost
namespace PyGql.Validate
open PyGql PyGql.Validate.Spec

/-- the same field collected under another parent type -/
theorem collD_reparent {s : SchemaD} {p : Option String} {sels : List Sel} {rn : String} {e : FEntry}
    (h : CollD s p sels rn e) : ∀ p', ∃ e', CollD s p' sels rn e' ∧ e'.hasSub = e.hasSub ∧ e'.ssid = e.ssid := by
  induction h with
  | @field parent sels alias name args dirs hasSub ssid sub hm =>
    intro p'
    exact ⟨_, CollD.field (parent := p') hm, rfl, rfl⟩
  | @inline parent sels on dirs id sub rn e hm _ ih =>
    intro p'
    obtain ⟨e', h1, h2, h3⟩ := ih (inlineParent s p' on)
    exact ⟨e', .inline hm h1, h2, h3⟩

theorem rankOk_of_check (s : SchemaD) (d : Doc) (ρ : Nat → Nat) (h : rankOkB s d ρ = true) : RankOk s d ρ := by
  have key : ∀ i sels, SelSet d i sels →
      2 ≤ ρ i ∧ 2 * ρ i + 2 ≤ overlapFuel ∧
      (∀ q ∈ (collectSels s none sels ([], [])).1, ∀ e ∈ q.2, entryRank ρ e + 2 ≤ ρ i) ∧
      (∀ g ∈ (collectSels s none sels ([], [])).2, fragRank ρ d g + 2 ≤ ρ i) := by
    intro i sels hs
    have := List.all_eq_true.mp h _ hs
    simp only [nodeRankOk, Bool.and_eq_true, decide_eq_true_eq, List.all_eq_true] at this
    exact ⟨this.1.1.1, this.1.1.2, this.1.2, this.2⟩
  refine ⟨fun i sels hs => (key i sels hs).1, fun i sels hs => (key i sels hs).2.1, ?_, ?_⟩
  · intro i sels p rn e hs hc
    obtain ⟨e', h1, h2, h3⟩ := collD_reparent hc none
    have hm := collectSels_complete s none sels ([], []) rn e' (Or.inr h1)
    have hr : entryRank ρ e = entryRank ρ e' := by simp only [entryRank, h2, h3]
    rw [hr]
    rcases AL.getD_cases (collectSels s none sels ([], [])).1 rn [] with h0 | h0
    · rw [h0] at hm; cases hm
    · exact (key i sels hs).2.2.1 _ h0 e' hm
  · intro i sels g hs hg
    exact (key i sels hs).2.2.2 g (collectSels_spreads s none sels ([], []) g (Or.inr hg))

end PyGql.Validate

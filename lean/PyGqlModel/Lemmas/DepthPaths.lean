/-
  C19 — `collect_fields_untyped` collects every selected field (membership form), response keys
  determine names, `_selected_paths` lists every selected path.
-/
import PyGqlModel.Lemmas.DepthCollect

set_option linter.unusedVariables false
set_option linter.unusedSimpArgs false

namespace PyGql.Depth.Lemmas
open PyGql.Depth PyGql.DepthSpec

/-! ### a successful `_skip_selection` returns the specified value -/

theorem evalCond_eq {vars : Vars} {c : Cond} {b : Bool} (h : evalCond vars c = .ok b) : condVal vars c = b := by
  cases c with
  | lit x => simp [evalCond] at h; simp [condVal, h]
  | var n =>
    simp only [evalCond] at h
    cases hl : vars.lookup n with
    | none => simp [hl] at h
    | some x => simp [hl] at h; simp [condVal, hl, h]

theorem evalOpt_eq {vars : Vars} {o : Option Cond} {r : Option Bool} (h : evalOpt vars o = .ok r) :
    r = o.map (condVal vars) := by
  cases o with
  | none => simp [evalOpt] at h; simp [h]
  | some c =>
    simp only [evalOpt] at h
    cases hc : evalCond vars c with
    | error e => simp [hc] at h
    | ok b => simp [hc] at h; simp [← h, evalCond_eq hc]

theorem skipSelection_eq {vars : Vars} {d : Dirs} {b : Bool} (h : skipSelection d vars = .ok b) :
    b = skipped vars d := by
  simp only [skipSelection] at h
  cases h1 : evalOpt vars d.skip with
  | error e => simp [h1] at h
  | ok s =>
    cases h2 : evalOpt vars d.incl with
    | error e => simp [h1, h2] at h
    | ok i =>
      simp [h1, h2] at h
      simp [skipped, ← h, evalOpt_eq h1, evalOpt_eq h2]

/-! ### membership in grouped fields -/

def InG (G : Grouped) (f : Fld) : Prop := ∃ kv ∈ G, f ∈ kv.2

theorem InG_extendKey (G : Grouped) (key : String) (fs : List Fld) (f : Fld) :
    InG (extendKey G key fs) f ↔ InG G f ∨ f ∈ fs := by
  induction G with
  | nil => simp [extendKey, InG]
  | cons kv rest ih =>
    obtain ⟨k, xs⟩ := kv
    simp only [extendKey]
    split
    · simp [InG, or_assoc, or_comm]
    · have : InG ((k, xs) :: extendKey rest key fs) f ↔ f ∈ xs ∨ InG (extendKey rest key fs) f := by
        simp [InG]
      rw [this, ih]
      have : InG ((k, xs) :: rest) f ↔ f ∈ xs ∨ InG rest f := by simp [InG]
      rw [this]
      constructor
      · rintro (h | h | h)
        · exact Or.inl (Or.inl h)
        · exact Or.inl (Or.inr h)
        · exact Or.inr h
      · rintro ((h | h) | h)
        · exact Or.inl h
        · exact Or.inr (Or.inl h)
        · exact Or.inr (Or.inr h)

theorem InG_merge (g into : Grouped) (f : Fld) : InG (merge g into) f ↔ InG into f ∨ InG g f := by
  unfold merge
  induction g generalizing into with
  | nil => simp [InG]
  | cons kv rest ih =>
    simp only [List.foldl_cons]
    rw [ih, InG_extendKey]
    have : InG (kv :: rest) f ↔ f ∈ kv.2 ∨ InG rest f := by simp [InG]
    rw [this]
    constructor
    · rintro ((h | h) | h)
      · exact Or.inl h
      · exact Or.inr (Or.inl h)
      · exact Or.inr (Or.inr h)
    · rintro (h | h | h)
      · exact Or.inl (Or.inl h)
      · exact Or.inl (Or.inr h)
      · exact Or.inr h

/-! ### response keys determine field names (OverlappingFieldsCanBeMerged, in its global form) -/

mutual
def keysSel (nm : String → String) : Sel → Bool
  | .field a n _ sub => (nm (responseName a n) == n) && keysL nm sub
  | .inline _ ss => keysL nm ss
  | .spread _ _ => true
def keysL (nm : String → String) : List Sel → Bool
  | [] => true
  | s :: ss => keysSel nm s && keysL nm ss
end

theorem keysL_cons (nm : String → String) (s ss) : keysL nm (s :: ss) = (keysSel nm s && keysL nm ss) := by
  simp [keysL]

theorem keysL_append (nm : String → String) (a b : List Sel) : keysL nm (a ++ b) = (keysL nm a && keysL nm b) := by
  induction a with
  | nil => simp [keysL]
  | cons x xs ih => simp [keysL_cons, ih, Bool.and_assoc]

theorem keysL_mem (nm : String → String) : ∀ (l : List Sel) (s : Sel), keysL nm l = true → s ∈ l → keysSel nm s = true := by
  intro l
  induction l with
  | nil => intro s _ h; cases h
  | cons x xs ih =>
    intro s hb h
    simp [keysL_cons] at hb
    cases h with
    | head => exact hb.1
    | tail _ h => exact ih s hb.2 h

/-- every collected field sits under its response key, the key gives its name, its sub-selection is key-consistent -/
def GOk (nm : String → String) (G : Grouped) : Prop :=
  ∀ kv ∈ G, ∀ f ∈ kv.2, responseName f.alias f.name = kv.1 ∧ nm kv.1 = f.name ∧ keysL nm f.sub = true

theorem GOk_nil (nm : String → String) : GOk nm [] := by intro kv h; cases h

theorem GOk_extendKey (nm : String → String) (G : Grouped) (key : String) (fs : List Fld) (hg : GOk nm G)
    (hfs : ∀ f ∈ fs, responseName f.alias f.name = key ∧ nm key = f.name ∧ keysL nm f.sub = true) :
    GOk nm (extendKey G key fs) := by
  induction G with
  | nil =>
    intro kv h
    simp [extendKey] at h
    subst h
    exact hfs
  | cons kv rest ih =>
    obtain ⟨k, xs⟩ := kv
    have hhead := hg (k, xs) (by simp)
    have hrest : GOk nm rest := fun kv h => hg kv (by simp [h])
    simp only [extendKey]
    split
    · rename_i hk
      have hk' : k = key := by simpa using hk
      intro kv h
      simp at h
      rcases h with h | h
      · subst h
        intro f hf
        simp at hf
        rcases hf with hf | hf
        · exact hhead f hf
        · subst hk'; exact hfs f hf
      · exact hrest kv h
    · intro kv h
      simp at h
      rcases h with h | h
      · subst h; exact hhead
      · exact ih hrest kv h

theorem GOk_merge (nm : String → String) (g into : Grouped) (hg : GOk nm g) (hi : GOk nm into) :
    GOk nm (merge g into) := by
  unfold merge
  induction g generalizing into with
  | nil => simpa using hi
  | cons kv rest ih =>
    simp only [List.foldl_cons]
    exact ih _ (fun kv h => hg kv (by simp [h])) (GOk_extendKey nm into kv.1 kv.2 hi (hg kv (by simp)))

/-! ### `collect_fields_untyped` collects every selected field -/

section
variable (frags : List Frag) (vars : Vars) (nm : String → String)

def FragReach (n : String) (f : Fld) : Prop := ∃ fr, lookupFrag frags n = some fr ∧ Reach frags vars fr.sels f

/-- `f` is selected by a fragment that is already in the seen set -/
def Cov (S : List String) (f : Fld) : Prop := ∃ n ∈ S, FragReach frags vars n f

theorem Cov_setAdd {S : List String} {n : String} {f : Fld} (h : Cov frags vars (setAdd S n) f) :
    Cov frags vars S f ∨ FragReach frags vars n f := by
  unfold setAdd at h
  split at h
  · exact Or.inl h
  · obtain ⟨m, hm, hf⟩ := h
    simp at hm
    rcases hm with hm | hm
    · exact Or.inl ⟨m, hm, hf⟩
    · subst hm; exact Or.inr hf

theorem Cov_seenAfterCall {mine callee : List String} {f : Fld} (h : Cov frags vars (seenAfterCall mine callee) f) :
    Cov frags vars mine f ∨ Cov frags vars callee f := by
  rcases seenAfterCall_cases mine callee with h' | h' <;> rw [h'] at h
  · exact Or.inl h
  · exact Or.inr h

/-- what a successful (recursive) call delivers -/
def CM (ss : List Sel) (sn : List String) (g : Grouped) (s' : List String) : Prop :=
  (∀ f, Reach frags vars ss f → InG g f ∨ Cov frags vars sn f) ∧
  (∀ f, Cov frags vars s' f → InG g f ∨ Cov frags vars sn f) ∧ GOk nm g

theorem step_mem (hfk : ∀ fr ∈ frags, keysL nm fr.sels = true)
    (rec : List Sel → List String → Except Err CState)
    (hrec : ∀ ss sn g s', rec ss sn = .ok (g, s') → keysL nm ss = true → CM frags vars nm ss sn g s')
    (S0 : List String) (G : Grouped) (S : List String) (s : Sel) (G1 : Grouped) (S1 : List String)
    (h : collectStep rec frags vars (G, S) s = .ok (G1, S1)) (hk : keysSel nm s = true) (hg : GOk nm G)
    (hI : ∀ f, Cov frags vars S f → InG G f ∨ Cov frags vars S0 f) :
    (∀ f, InG G f → InG G1 f) ∧ (∀ f, ReachS frags vars s f → InG G1 f ∨ Cov frags vars S0 f) ∧
    (∀ f, Cov frags vars S1 f → InG G1 f ∨ Cov frags vars S0 f) ∧ GOk nm G1 := by
  cases s with
  | field al n d sub =>
    simp only [keysSel, Bool.and_eq_true, beq_iff_eq] at hk
    cases hsk : skipSelection d vars with
    | error e => simp [collectStep, hsk] at h
    | ok b =>
      have hb := skipSelection_eq hsk
      cases b with
      | true =>
        simp [collectStep, hsk] at h
        obtain ⟨rfl, rfl⟩ := h
        refine ⟨fun f hf => hf, ?_, hI, hg⟩
        intro f hr
        cases hr with
        | field _ _ _ _ hs => rw [← hb] at hs; cases hs
      | false =>
        simp [collectStep, hsk] at h
        obtain ⟨rfl, rfl⟩ := h
        refine ⟨fun f hf => (InG_extendKey _ _ _ _).mpr (Or.inl hf), ?_, ?_, ?_⟩
        · intro f hr
          cases hr with
          | field _ _ _ _ hs => exact Or.inl ((InG_extendKey _ _ _ _).mpr (Or.inr (by simp)))
        · intro f hc
          rcases hI f hc with h' | h'
          · exact Or.inl ((InG_extendKey _ _ _ _).mpr (Or.inl h'))
          · exact Or.inr h'
        · apply GOk_extendKey nm _ _ _ hg
          intro f hf
          simp at hf
          subst hf
          exact ⟨rfl, hk.1, hk.2⟩
  | inline d ss =>
    simp only [keysSel] at hk
    cases hsk : skipSelection d vars with
    | error e => simp [collectStep, hsk] at h
    | ok b =>
      have hb := skipSelection_eq hsk
      cases b with
      | true =>
        simp [collectStep, hsk] at h
        obtain ⟨rfl, rfl⟩ := h
        refine ⟨fun f hf => hf, ?_, hI, hg⟩
        intro f hr
        cases hr with
        | inline _ _ _ _ hs => rw [← hb] at hs; cases hs
      | false =>
        simp only [collectStep, hsk] at h
        cases hr : rec ss S with
        | error e => simp [hr] at h
        | ok r =>
          obtain ⟨Gc, Sc⟩ := r
          simp [hr] at h
          obtain ⟨rfl, rfl⟩ := h
          obtain ⟨c1, c2, c3⟩ := hrec ss S Gc Sc hr hk
          refine ⟨fun f hf => (InG_merge _ _ _).mpr (Or.inl hf), ?_, ?_, GOk_merge nm _ _ c3 hg⟩
          · intro f hr'
            cases hr' with
            | inline _ _ s' _ hs hm hrs =>
              rcases c1 f ⟨s', hm, hrs⟩ with h' | h'
              · exact Or.inl ((InG_merge _ _ _).mpr (Or.inr h'))
              · rcases hI f h' with h'' | h''
                · exact Or.inl ((InG_merge _ _ _).mpr (Or.inl h''))
                · exact Or.inr h''
          · intro f hc
            have cov_S : Cov frags vars S f → InG (merge Gc G) f ∨ Cov frags vars S0 f := by
              intro h'
              rcases hI f h' with h'' | h''
              · exact Or.inl ((InG_merge _ _ _).mpr (Or.inl h''))
              · exact Or.inr h''
            rcases Cov_seenAfterCall frags vars hc with h' | h'
            · exact cov_S h'
            · rcases c2 f h' with h'' | h''
              · exact Or.inl ((InG_merge _ _ _).mpr (Or.inr h''))
              · exact cov_S h''
  | spread n d =>
    cases hsk : skipSelection d vars with
    | error e => simp [collectStep, hsk] at h
    | ok b =>
      have hb := skipSelection_eq hsk
      cases b with
      | true =>
        simp [collectStep, hsk] at h
        obtain ⟨rfl, rfl⟩ := h
        refine ⟨fun f hf => hf, ?_, hI, hg⟩
        intro f hr
        cases hr with
        | spread _ _ _ _ _ hs => rw [← hb] at hs; cases hs
      | false =>
        simp only [collectStep, hsk] at h
        by_cases hcont : S.contains n = true
        · rw [if_pos hcont] at h
          simp at h
          obtain ⟨rfl, rfl⟩ := h
          refine ⟨fun f hf => hf, ?_, hI, hg⟩
          intro f hr
          cases hr with
          | spread _ _ fr s' _ hs hl hm hrs =>
            exact hI f ⟨n, by simpa using hcont, fr, hl, s', hm, hrs⟩
        · rw [if_neg hcont] at h
          cases hl : lookupFrag frags n with
          | none =>
            simp [hl] at h
            obtain ⟨rfl, rfl⟩ := h
            refine ⟨fun f hf => hf, ?_, hI, hg⟩
            intro f hr
            cases hr with
            | spread _ _ fr s' _ hs hl' hm hrs => rw [hl] at hl'; cases hl'
          | some fr =>
            simp only [hl] at h
            cases hr : rec fr.sels S with
            | error e => simp [hr] at h
            | ok r =>
              obtain ⟨Gc, Sc⟩ := r
              simp [hr] at h
              obtain ⟨rfl, rfl⟩ := h
              have ⟨hm, _⟩ := lookupFrag_some hl
              obtain ⟨c1, c2, c3⟩ := hrec fr.sels S Gc Sc hr (hfk fr hm)
              have cov_S : ∀ f, Cov frags vars S f → InG (merge Gc G) f ∨ Cov frags vars S0 f := by
                intro f h'
                rcases hI f h' with h'' | h''
                · exact Or.inl ((InG_merge _ _ _).mpr (Or.inl h''))
                · exact Or.inr h''
              have from_frag : ∀ f, Reach frags vars fr.sels f → InG (merge Gc G) f ∨ Cov frags vars S0 f := by
                intro f h'
                rcases c1 f h' with h'' | h''
                · exact Or.inl ((InG_merge _ _ _).mpr (Or.inr h''))
                · exact cov_S f h''
              refine ⟨fun f hf => (InG_merge _ _ _).mpr (Or.inl hf), ?_, ?_, GOk_merge nm _ _ c3 hg⟩
              · intro f hr'
                cases hr' with
                | spread _ _ fr' s' _ hs hl' hm' hrs =>
                  rw [hl] at hl'; cases hl'
                  exact from_frag f ⟨s', hm', hrs⟩
              · intro f hc
                rcases Cov_setAdd frags vars hc with h' | h'
                · rcases Cov_seenAfterCall frags vars h' with h'' | h''
                  · exact cov_S f h''
                  · rcases c2 f h'' with h3 | h3
                    · exact Or.inl ((InG_merge _ _ _).mpr (Or.inr h3))
                    · exact cov_S f h3
                · obtain ⟨fr', hl', hreach⟩ := h'
                  rw [hl] at hl'; cases hl'
                  exact from_frag f hreach

theorem loop_mem (hfk : ∀ fr ∈ frags, keysL nm fr.sels = true)
    (rec : List Sel → List String → Except Err CState)
    (hrec : ∀ ss sn g s', rec ss sn = .ok (g, s') → keysL nm ss = true → CM frags vars nm ss sn g s')
    (S0 : List String) :
    ∀ (sels : List Sel) (G : Grouped) (S : List String) (G' : Grouped) (S' : List String),
      loopM (collectStep rec frags vars) (G, S) sels = .ok (G', S') → keysL nm sels = true → GOk nm G →
      (∀ f, Cov frags vars S f → InG G f ∨ Cov frags vars S0 f) →
      (∀ f, InG G f → InG G' f) ∧ (∀ f, Reach frags vars sels f → InG G' f ∨ Cov frags vars S0 f) ∧
      (∀ f, Cov frags vars S' f → InG G' f ∨ Cov frags vars S0 f) ∧ GOk nm G' := by
  intro sels
  induction sels with
  | nil =>
    intro G S G' S' h _ hg hI
    simp [loopM] at h
    obtain ⟨rfl, rfl⟩ := h
    exact ⟨fun f hf => hf, fun f hf => (by obtain ⟨s, hs, _⟩ := hf; cases hs), hI, hg⟩
  | cons s ss ih =>
    intro G S G' S' h hk hg hI
    rw [keysL_cons, Bool.and_eq_true] at hk
    simp only [loopM] at h
    cases hst : collectStep rec frags vars (G, S) s with
    | error e => simp [hst] at h
    | ok st =>
      obtain ⟨G1, S1⟩ := st
      simp only [hst] at h
      obtain ⟨m1, r1, i1, g1⟩ := step_mem frags vars nm hfk rec hrec S0 G S s G1 S1 hst hk.1 hg hI
      obtain ⟨m2, r2, i2, g2⟩ := ih G1 S1 G' S' h hk.2 g1 i1
      refine ⟨fun f hf => m2 f (m1 f hf), ?_, i2, g2⟩
      rintro f ⟨s', hs', hr⟩
      simp at hs'
      rcases hs' with rfl | hs'
      · rcases r1 f hr with h' | h'
        · exact Or.inl (m2 f h')
        · exact Or.inr h'
      · exact r2 f ⟨s', hs', hr⟩

theorem collect_mem (hfk : ∀ fr ∈ frags, keysL nm fr.sels = true) :
    ∀ (k : Nat) (sels : List Sel) (seen : List String) (G : Grouped) (S' : List String),
      collectFieldsUntyped k sels frags vars seen = .ok (G, S') → keysL nm sels = true →
      CM frags vars nm sels seen G S' := by
  intro k
  induction k with
  | zero => intro sels seen G S' h; simp [collectFieldsUntyped] at h
  | succ k ih =>
    intro sels seen G S' h hk
    have hun : collectFieldsUntyped (k + 1) sels frags vars seen =
        loopM (collectStep (fun ss sn => collectFieldsUntyped k ss frags vars sn) frags vars) ([], seen) sels := rfl
    rw [hun] at h
    obtain ⟨_, r, i, g⟩ := loop_mem frags vars nm hfk _ (fun ss sn g s' hr hk' => ih ss sn g s' hr hk') seen
      sels [] seen G S' h hk (GOk_nil nm) (fun f hf => Or.inr hf)
    exact ⟨r, i, g⟩

/-! ### `_selected_paths` lists every selected path -/

theorem IsPath_mono {a b : List Sel} (h : ∀ g, Reach frags vars a g → Reach frags vars b g) {p : List String}
    (hp : IsPath frags vars a p) : IsPath frags vars b p := by
  cases hp with
  | leaf hr => exact .leaf (h _ hr)
  | step hr hs => exact .step (h _ hr) hs

theorem IsPath_length {sels : List Sel} {p : List String} (hp : IsPath frags vars sels p) : 1 ≤ p.length := by
  cases hp <;> simp

theorem keysL_flatMap_sub (k : String) (fs : List Fld)
    (h : ∀ f ∈ fs, responseName f.alias f.name = k ∧ nm k = f.name ∧ keysL nm f.sub = true) :
    keysL nm (fs.flatMap (·.sub)) = true := by
  induction fs with
  | nil => simp [keysL]
  | cons f rest ih =>
    simp only [List.flatMap_cons, keysL_append, Bool.and_eq_true]
    exact ⟨(h f (by simp)).2.2, ih (fun g hg => h g (by simp [hg]))⟩

/-- what `rec` (the recursive call of `_selected_paths`) guarantees -/
def PathsOk (md : Nat) (pat : List String → Bool) (ss : List Sel) (path : List String) (out : List (List String)) : Prop :=
  ∀ p, IsPath frags vars ss p → (md = 0 ∨ path.length + p.length ≤ md) → pat (path ++ p) = true → path ++ p ∈ out

theorem pathsLoop_complete (md : Nat) (pat : List String → Bool) (path : List String)
    (rec : List Sel → List String → Except Err (List (List String)))
    (hrec : ∀ ss q out, rec ss q = .ok out → keysL nm ss = true → PathsOk frags vars md pat ss q out) :
    ∀ (G : Grouped) (acc out : List (List String)), pathsLoop rec md pat path acc G = .ok out → GOk nm G →
      (∀ q ∈ acc, q ∈ out) ∧
      ∀ f, InG G f →
        (pat (path ++ [f.name]) = true → path ++ [f.name] ∈ out) ∧
        (∀ p', IsPath frags vars f.sub p' → (md = 0 ∨ path.length + (1 + p'.length) ≤ md) →
          pat (path ++ f.name :: p') = true → path ++ f.name :: p' ∈ out) := by
  intro G
  induction G with
  | nil =>
    intro acc out h _
    simp [pathsLoop] at h
    subst h
    exact ⟨fun q hq => hq, fun f hf => (by obtain ⟨kv, hkv, _⟩ := hf; cases hkv)⟩
  | cons kv rest ih =>
    intro acc out h hg
    obtain ⟨k, fields⟩ := kv
    have hhead := hg (k, fields) (by simp)
    have hrest : GOk nm rest := fun kv h => hg kv (by simp [h])
    cases fields with
    | nil => simp [pathsLoop] at h
    | cons child more =>
      have hchild := hhead child (by simp)
      -- the accumulator after listing the child
      have hun : pathsLoop rec md pat path acc ((k, child :: more) :: rest) =
          (if descend md path.length = true then
            match rec ((child :: more).flatMap (·.sub)) (path ++ [child.name]) with
            | .error e => .error e
            | .ok sub => pathsLoop rec md pat path
                ((if pat (path ++ [child.name]) = true then acc ++ [path ++ [child.name]] else acc) ++ sub) rest
          else pathsLoop rec md pat path
                (if pat (path ++ [child.name]) = true then acc ++ [path ++ [child.name]] else acc) rest) := rfl
      rw [hun] at h
      generalize hacc1 : (if pat (path ++ [child.name]) = true then acc ++ [path ++ [child.name]] else acc) = acc1 at h
      have hacc : ∀ q ∈ acc, q ∈ acc1 := by
        intro q hq; subst hacc1; split <;> simp [hq]
      have hlisted : pat (path ++ [child.name]) = true → path ++ [child.name] ∈ acc1 := by
        intro hp; subst hacc1; simp [hp]
      have hname : ∀ f ∈ child :: more, f.name = child.name := by
        intro f hf
        have := hhead f hf
        rw [← this.2.1, ← hchild.2.1]
      cases hd : descend md path.length with
      | true =>
        rw [if_pos hd] at h
        cases hr : rec ((child :: more).flatMap (·.sub)) (path ++ [child.name]) with
        | error e => rw [hr] at h; cases h
        | ok sub =>
          rw [hr] at h
          replace h : pathsLoop rec md pat path (acc1 ++ sub) rest = .ok out := h
          obtain ⟨a1, a2⟩ := ih (acc1 ++ sub) out h hrest
          have hsub := hrec _ _ _ hr (keysL_flatMap_sub nm k (child :: more) hhead)
          refine ⟨fun q hq => a1 q (by simp [hacc q hq]), ?_⟩
          rintro f ⟨kv, hkv, hf⟩
          simp at hkv
          rcases hkv with rfl | hkv
          · have hn := hname f hf
            refine ⟨fun hp => a1 _ (by rw [hn] at hp ⊢; simp [hlisted hp]), ?_⟩
            intro p' hp' hb hpat
            have hmono : IsPath frags vars ((child :: more).flatMap (·.sub)) p' := by
              apply IsPath_mono frags vars _ hp'
              rintro g ⟨s, hs, hrs⟩
              exact ⟨s, List.mem_flatMap.mpr ⟨f, hf, hs⟩, hrs⟩
            have := hsub p' hmono (by simp; omega) (by rw [hn] at hpat; simpa using hpat)
            apply a1
            rw [hn]
            simp at this ⊢
            exact Or.inr this
          · exact a2 f ⟨kv, hkv, hf⟩
      | false =>
        rw [if_neg (by simp [hd])] at h
        obtain ⟨a1, a2⟩ := ih acc1 out h hrest
        refine ⟨fun q hq => a1 q (hacc q hq), ?_⟩
        rintro f ⟨kv, hkv, hf⟩
        simp at hkv
        rcases hkv with rfl | hkv
        · have hn := hname f hf
          refine ⟨fun hp => a1 _ (by rw [hn] at hp ⊢; exact hlisted hp), ?_⟩
          intro p' hp' hb hpat
          have := IsPath_length frags vars hp'
          simp [descend] at hd
          omega
        · exact a2 f ⟨kv, hkv, hf⟩

theorem selectedPaths_complete (hfk : ∀ fr ∈ frags, keysL nm fr.sels = true) (md : Nat) (pat : List String → Bool) :
    ∀ (k : Nat) (sels : List Sel) (path : List String) (out : List (List String)),
      selectedPaths k sels frags vars md pat path = .ok out → keysL nm sels = true →
      PathsOk frags vars md pat sels path out := by
  intro k
  induction k with
  | zero => intro sels path out h; simp [selectedPaths] at h
  | succ k ih =>
    intro sels path out h hk
    have hun : selectedPaths (k + 1) sels frags vars md pat path =
        (match collectFieldsUntyped (k + 1) sels frags vars [] with
         | .error e => .error e
         | .ok (collected, _) =>
           pathsLoop (fun s p => selectedPaths k s frags vars md pat p) md pat path [] collected) := rfl
    rw [hun] at h
    cases hc : collectFieldsUntyped (k + 1) sels frags vars [] with
    | error e => simp [hc] at h
    | ok r =>
      obtain ⟨G, S'⟩ := r
      simp only [hc] at h
      obtain ⟨c1, _, c3⟩ := collect_mem frags vars nm hfk (k + 1) sels [] G S' hc hk
      obtain ⟨_, a2⟩ := pathsLoop_complete frags vars nm md pat path _
        (fun ss q o hr hk' => ih ss q o hr hk') G [] out h c3
      intro p hp hb hpat
      have inG : ∀ f, Reach frags vars sels f → InG G f := by
        intro f hr
        rcases c1 f hr with h' | ⟨n, hn, _⟩
        · exact h'
        · cases hn
      cases hp with
      | leaf hr => exact (a2 _ (inG _ hr)).1 hpat
      | step hr hs =>
        refine (a2 _ (inG _ hr)).2 _ hs ?_ hpat
        rcases hb with h0 | h0
        · exact Or.inl h0
        · exact Or.inr (by simp at h0; omega)

/-! ### soundness: only selected fields are collected, only selected paths are listed -/

theorem step_sound
    (rec : List Sel → List String → Except Err CState)
    (hrec : ∀ ss sn g s', rec ss sn = .ok (g, s') → ∀ f, InG g f → Reach frags vars ss f)
    (G : Grouped) (S : List String) (s : Sel) (G1 : Grouped) (S1 : List String)
    (h : collectStep rec frags vars (G, S) s = .ok (G1, S1)) :
    ∀ f, InG G1 f → InG G f ∨ ReachS frags vars s f := by
  cases s with
  | field al n d sub =>
    cases hsk : skipSelection d vars with
    | error e => simp [collectStep, hsk] at h
    | ok b =>
      have hb := skipSelection_eq hsk
      cases b with
      | true =>
        simp [collectStep, hsk] at h
        obtain ⟨rfl, rfl⟩ := h
        exact fun f hf => Or.inl hf
      | false =>
        simp [collectStep, hsk] at h
        obtain ⟨rfl, rfl⟩ := h
        intro f hf
        rcases (InG_extendKey _ _ _ _).mp hf with h' | h'
        · exact Or.inl h'
        · simp at h'
          subst h'
          exact Or.inr (.field _ _ _ _ hb.symm)
  | inline d ss =>
    cases hsk : skipSelection d vars with
    | error e => simp [collectStep, hsk] at h
    | ok b =>
      have hb := skipSelection_eq hsk
      cases b with
      | true =>
        simp [collectStep, hsk] at h
        obtain ⟨rfl, rfl⟩ := h
        exact fun f hf => Or.inl hf
      | false =>
        simp only [collectStep, hsk] at h
        cases hr : rec ss S with
        | error e => simp [hr] at h
        | ok r =>
          obtain ⟨Gc, Sc⟩ := r
          simp [hr] at h
          obtain ⟨rfl, rfl⟩ := h
          intro f hf
          rcases (InG_merge _ _ _).mp hf with h' | h'
          · exact Or.inl h'
          · obtain ⟨s', hm, hrs⟩ := hrec ss S Gc Sc hr f h'
            exact Or.inr (.inline _ _ s' _ hb.symm hm hrs)
  | spread n d =>
    cases hsk : skipSelection d vars with
    | error e => simp [collectStep, hsk] at h
    | ok b =>
      have hb := skipSelection_eq hsk
      cases b with
      | true =>
        simp [collectStep, hsk] at h
        obtain ⟨rfl, rfl⟩ := h
        exact fun f hf => Or.inl hf
      | false =>
        simp only [collectStep, hsk] at h
        by_cases hcont : S.contains n = true
        · rw [if_pos hcont] at h
          simp at h
          obtain ⟨rfl, rfl⟩ := h
          exact fun f hf => Or.inl hf
        · rw [if_neg hcont] at h
          cases hl : lookupFrag frags n with
          | none =>
            simp [hl] at h
            obtain ⟨rfl, rfl⟩ := h
            exact fun f hf => Or.inl hf
          | some fr =>
            simp only [hl] at h
            cases hr : rec fr.sels S with
            | error e => simp [hr] at h
            | ok r =>
              obtain ⟨Gc, Sc⟩ := r
              simp [hr] at h
              obtain ⟨rfl, rfl⟩ := h
              intro f hf
              rcases (InG_merge _ _ _).mp hf with h' | h'
              · exact Or.inl h'
              · obtain ⟨s', hm, hrs⟩ := hrec fr.sels S Gc Sc hr f h'
                exact Or.inr (.spread _ _ fr s' _ hb.symm hl hm hrs)

theorem loop_sound
    (rec : List Sel → List String → Except Err CState)
    (hrec : ∀ ss sn g s', rec ss sn = .ok (g, s') → ∀ f, InG g f → Reach frags vars ss f) :
    ∀ (sels : List Sel) (G : Grouped) (S : List String) (G' : Grouped) (S' : List String),
      loopM (collectStep rec frags vars) (G, S) sels = .ok (G', S') →
      ∀ f, InG G' f → InG G f ∨ Reach frags vars sels f := by
  intro sels
  induction sels with
  | nil =>
    intro G S G' S' h
    simp [loopM] at h
    obtain ⟨rfl, rfl⟩ := h
    exact fun f hf => Or.inl hf
  | cons s ss ih =>
    intro G S G' S' h f hf
    simp only [loopM] at h
    cases hst : collectStep rec frags vars (G, S) s with
    | error e => simp [hst] at h
    | ok st =>
      obtain ⟨G1, S1⟩ := st
      simp only [hst] at h
      rcases ih G1 S1 G' S' h f hf with h' | ⟨s', hs', hr⟩
      · rcases step_sound frags vars rec hrec G S s G1 S1 hst f h' with h'' | h''
        · exact Or.inl h''
        · exact Or.inr ⟨s, by simp, h''⟩
      · exact Or.inr ⟨s', by simp [hs'], hr⟩

theorem collect_sound :
    ∀ (k : Nat) (sels : List Sel) (seen : List String) (G : Grouped) (S' : List String),
      collectFieldsUntyped k sels frags vars seen = .ok (G, S') → ∀ f, InG G f → Reach frags vars sels f := by
  intro k
  induction k with
  | zero => intro sels seen G S' h; simp [collectFieldsUntyped] at h
  | succ k ih =>
    intro sels seen G S' h f hf
    have hun : collectFieldsUntyped (k + 1) sels frags vars seen =
        loopM (collectStep (fun ss sn => collectFieldsUntyped k ss frags vars sn) frags vars) ([], seen) sels := rfl
    rw [hun] at h
    rcases loop_sound frags vars _ (fun ss sn g s' hr => ih ss sn g s' hr) sels [] seen G S' h f hf with h' | h'
    · obtain ⟨kv, hkv, _⟩ := h'; cases hkv
    · exact h'

/-- every listed path extends the prefix by a selected path, within `maxdepth`, matching the pattern -/
def PathsSound (md : Nat) (pat : List String → Bool) (ss : List Sel) (path : List String) (out : List (List String)) : Prop :=
  ∀ x ∈ out, ∃ p, x = path ++ p ∧ IsPath frags vars ss p ∧ (md = 0 ∨ x.length ≤ md) ∧ pat x = true

theorem IsPath_flatMap_sub {fs : List Fld} {p : List String}
    (h : IsPath frags vars (fs.flatMap (·.sub)) p) : ∃ f ∈ fs, IsPath frags vars f.sub p := by
  have key : ∀ g, Reach frags vars (fs.flatMap (·.sub)) g → ∃ f ∈ fs, Reach frags vars f.sub g := by
    rintro g ⟨s, hs, hr⟩
    obtain ⟨f, hf, hsf⟩ := List.mem_flatMap.mp hs
    exact ⟨f, hf, s, hsf, hr⟩
  cases h with
  | leaf hr => obtain ⟨f, hf, hr'⟩ := key _ hr; exact ⟨f, hf, .leaf hr'⟩
  | step hr hs => obtain ⟨f, hf, hr'⟩ := key _ hr; exact ⟨f, hf, .step hr' hs⟩

theorem pathsLoop_sound (md : Nat) (pat : List String → Bool) (path : List String) (sels : List Sel)
    (hpre : md = 0 ∨ path.length < md)
    (rec : List Sel → List String → Except Err (List (List String)))
    (hrec : ∀ ss q out, rec ss q = .ok out → keysL nm ss = true → (md = 0 ∨ q.length < md) →
      PathsSound frags vars md pat ss q out) :
    ∀ (G : Grouped) (acc out : List (List String)), pathsLoop rec md pat path acc G = .ok out → GOk nm G →
      (∀ f, InG G f → Reach frags vars sels f) →
      ∀ x ∈ out, x ∈ acc ∨
        ∃ p, x = path ++ p ∧ IsPath frags vars sels p ∧ (md = 0 ∨ x.length ≤ md) ∧ pat x = true := by
  intro G
  induction G with
  | nil =>
    intro acc out h _ _ x hx
    simp [pathsLoop] at h
    subst h
    exact Or.inl hx
  | cons kv rest ih =>
    intro acc out h hg hG x hx
    obtain ⟨k, fields⟩ := kv
    have hhead := hg (k, fields) (by simp)
    have hrest : GOk nm rest := fun kv h => hg kv (by simp [h])
    have hGrest : ∀ f, InG rest f → Reach frags vars sels f := by
      rintro f ⟨kv, hkv, hf⟩
      exact hG f ⟨kv, by simp [hkv], hf⟩
    cases fields with
    | nil => simp [pathsLoop] at h
    | cons child more =>
      have hchild := hhead child (by simp)
      have hreach : ∀ f ∈ child :: more, Reach frags vars sels f := fun f hf => hG f ⟨(k, child :: more), by simp, hf⟩
      have hname : ∀ f ∈ child :: more, f.name = child.name := by
        intro f hf
        have := hhead f hf
        rw [← this.2.1, ← hchild.2.1]
      have hun : pathsLoop rec md pat path acc ((k, child :: more) :: rest) =
          (if descend md path.length = true then
            match rec ((child :: more).flatMap (·.sub)) (path ++ [child.name]) with
            | .error e => .error e
            | .ok sub => pathsLoop rec md pat path
                ((if pat (path ++ [child.name]) = true then acc ++ [path ++ [child.name]] else acc) ++ sub) rest
          else pathsLoop rec md pat path
                (if pat (path ++ [child.name]) = true then acc ++ [path ++ [child.name]] else acc) rest) := rfl
      rw [hun] at h
      -- what may be in the accumulator after listing the child
      have hacc1 : ∀ y ∈ (if pat (path ++ [child.name]) = true then acc ++ [path ++ [child.name]] else acc),
          y ∈ acc ∨ ∃ p, y = path ++ p ∧ IsPath frags vars sels p ∧ (md = 0 ∨ y.length ≤ md) ∧ pat y = true := by
        intro y hy
        split at hy
        · rename_i hp
          simp at hy
          rcases hy with hy | hy
          · exact Or.inl hy
          · subst hy
            refine Or.inr ⟨[child.name], rfl, .leaf (hreach child (by simp)), ?_, hp⟩
            rcases hpre with h0 | h0
            · exact Or.inl h0
            · exact Or.inr (by simp; omega)
        · exact Or.inl hy
      by_cases hd : descend md path.length = true
      · rw [if_pos hd] at h
        cases hr : rec ((child :: more).flatMap (·.sub)) (path ++ [child.name]) with
        | error e => rw [hr] at h; cases h
        | ok sub =>
          rw [hr] at h
          replace h : pathsLoop rec md pat path
              ((if pat (path ++ [child.name]) = true then acc ++ [path ++ [child.name]] else acc) ++ sub) rest = .ok out := h
          have hpre' : md = 0 ∨ (path ++ [child.name]).length < md := by
            simp [descend] at hd
            rcases hd with h0 | h0
            · exact Or.inl h0
            · exact Or.inr (by simp; omega)
          have hsub := hrec _ _ _ hr (keysL_flatMap_sub nm k (child :: more) hhead) hpre'
          rcases ih _ out h hrest hGrest x hx with h' | h'
          · simp only [List.mem_append] at h'
            rcases h' with h'' | h''
            · exact hacc1 x h''
            · obtain ⟨p', hxe, hp', hb, hpat⟩ := hsub x h''
              obtain ⟨f, hf, hpf⟩ := IsPath_flatMap_sub frags vars hp'
              refine Or.inr ⟨child.name :: p', by simp [hxe], ?_, hb, hpat⟩
              rw [← hname f hf]
              exact .step (hreach f hf) hpf
          · exact Or.inr h'
      · rw [if_neg hd] at h
        rcases ih _ out h hrest hGrest x hx with h' | h'
        · exact hacc1 x h'
        · exact Or.inr h'

theorem selectedPaths_sound (hfk : ∀ fr ∈ frags, keysL nm fr.sels = true) (md : Nat) (pat : List String → Bool) :
    ∀ (k : Nat) (sels : List Sel) (path : List String) (out : List (List String)),
      selectedPaths k sels frags vars md pat path = .ok out → keysL nm sels = true →
      (md = 0 ∨ path.length < md) → PathsSound frags vars md pat sels path out := by
  intro k
  induction k with
  | zero => intro sels path out h; simp [selectedPaths] at h
  | succ k ih =>
    intro sels path out h hk hpre
    have hun : selectedPaths (k + 1) sels frags vars md pat path =
        (match collectFieldsUntyped (k + 1) sels frags vars [] with
         | .error e => .error e
         | .ok (collected, _) =>
           pathsLoop (fun s p => selectedPaths k s frags vars md pat p) md pat path [] collected) := rfl
    rw [hun] at h
    cases hc : collectFieldsUntyped (k + 1) sels frags vars [] with
    | error e => simp [hc] at h
    | ok r =>
      obtain ⟨G, S'⟩ := r
      simp only [hc] at h
      obtain ⟨_, _, c3⟩ := collect_mem frags vars nm hfk (k + 1) sels [] G S' hc hk
      have hG := collect_sound frags vars (k + 1) sels [] G S' hc
      intro x hx
      rcases pathsLoop_sound frags vars nm md pat path sels hpre _
        (fun ss q o hr hkk hq => ih ss q o hr hkk hq) G [] out h c3 hG x hx with h' | h'
      · cases h'
      · exact h'

end

end PyGql.Depth.Lemmas

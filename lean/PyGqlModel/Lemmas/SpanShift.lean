/-
  Values and types under `mapLoc (locDown d)`: the concrete-syntax view commutes with the move, well-formedness is
  position-free, every nested value / type is a sub-node of the view and inherits well-formedness, views are solid.
-/
import PyGqlModel.Lemmas.ItemSlice
import PyGqlModel.Shift
namespace PyGql.Spec
open PyGql PyGql.Ast PyGql.Parse

/-! ### views commute with the move -/

theorem nameV_down (d : Nat) (n : Name) : nameV (n.mapLoc (locDown d)) = (nameV n).down d := by
  simp [nameV, Name.mapLoc, Item.down, Item.downAll]

theorem namedTypeV_down (d : Nat) (t : NamedType) : namedTypeV (t.mapLoc (locDown d)) = (namedTypeV t).down d := by
  simp [namedTypeV, NamedType.mapLoc, Item.down, Item.downAll, nameV_down]

theorem typeV_down (d : Nat) : ∀ t : TypeRef, typeV (t.mapLoc (locDown d)) = (typeV t).down d
  | .named t => by simp [typeV, TypeRef.mapLoc, namedTypeV_down]
  | .list t loc => by simp [typeV, TypeRef.mapLoc, Item.down, Item.downAll, typeV_down d t]
  | .nonNull t loc => by simp [typeV, TypeRef.mapLoc, Item.down, Item.downAll, typeV_down d t]

theorem variableV_down (d : Nat) (v : Variable) : variableV (v.mapLoc (locDown d)) = (variableV v).down d := by
  simp [variableV, Variable.mapLoc, Item.down, Item.downAll, nameV_down]

theorem stringV_down (d : Nat) (s : StringValue) : stringV (s.mapLoc (locDown d)) = (stringV s).down d := by
  cases s; rfl

theorem downAll_append (d : Nat) (xs ys : List Item) : Item.downAll d (xs ++ ys) = Item.downAll d xs ++ Item.downAll d ys := by
  induction xs with
  | nil => rfl
  | cons x xs ih => simp [Item.downAll, ih]

mutual
theorem valueV_down (d : Nat) : ∀ v : Value, valueV (v.mapLoc (locDown d)) = (valueV v).down d
  | .var v => by simp [valueV, Value.mapLoc, variableV_down]
  | .int v loc => by simp [valueV, Value.mapLoc, Item.down, Item.downAll]
  | .float v loc => by simp [valueV, Value.mapLoc, Item.down, Item.downAll]
  | .string s => by simp [valueV, Value.mapLoc, stringV_down]
  | .boolean b loc => by simp [valueV, Value.mapLoc, Item.down, Item.downAll]
  | .null loc => by simp [valueV, Value.mapLoc, Item.down, Item.downAll]
  | .enum v loc => by simp [valueV, Value.mapLoc, Item.down, Item.downAll]
  | .list vs loc => by
    simp [valueV, Value.mapLoc, Item.down, Item.downAll, downAll_append, valuesV_down d vs]
  | .object fs loc => by
    simp [valueV, Value.mapLoc, Item.down, Item.downAll, downAll_append, fieldsV_down d fs]
theorem valuesV_down (d : Nat) : ∀ vs : List Value, valuesV (mapLocValues (locDown d) vs) = Item.downAll d (valuesV vs)
  | [] => by simp [valuesV, mapLocValues, Item.downAll]
  | v :: vs => by simp [valuesV, mapLocValues, Item.downAll, valueV_down d v, valuesV_down d vs]
theorem objectFieldV_down (d : Nat) : ∀ f : ObjectField, objectFieldV (f.mapLoc (locDown d)) = (objectFieldV f).down d
  | .mk n v loc => by simp [objectFieldV, ObjectField.mapLoc, Item.down, Item.downAll, nameV_down, valueV_down d v]
theorem fieldsV_down (d : Nat) : ∀ fs : List ObjectField, fieldsV (mapLocFields (locDown d) fs) = Item.downAll d (fieldsV fs)
  | [] => by simp [fieldsV, mapLocFields, Item.downAll]
  | f :: fs => by simp [fieldsV, mapLocFields, Item.downAll, objectFieldV_down d f, fieldsV_down d fs]
end

/-! ### well-formedness is position-free -/

theorem isNonNull_mapLoc (f : Loc → Loc) (t : TypeRef) : isNonNull (t.mapLoc f) = isNonNull t := by
  cases t <;> rfl

theorem wfType_mapLoc (f : Loc → Loc) : ∀ t : TypeRef, wfType (t.mapLoc f) = wfType t
  | .named t => rfl
  | .list t loc => by simp [wfType, TypeRef.mapLoc, wfType_mapLoc f t]
  | .nonNull t loc => by simp [wfType, TypeRef.mapLoc, wfType_mapLoc f t, isNonNull_mapLoc]

mutual
theorem wfValue_mapLoc (f : Loc → Loc) (c : Bool) : ∀ v : Value, wfValue c (v.mapLoc f) = wfValue c v
  | .var v => by simp [wfValue, Value.mapLoc]
  | .int v loc => by simp [wfValue, Value.mapLoc]
  | .float v loc => by simp [wfValue, Value.mapLoc]
  | .string s => by simp [wfValue, Value.mapLoc]
  | .boolean b loc => by simp [wfValue, Value.mapLoc]
  | .null loc => by simp [wfValue, Value.mapLoc]
  | .enum v loc => by simp [wfValue, Value.mapLoc]
  | .list vs loc => by simp [wfValue, Value.mapLoc, wfValues_mapLoc f c vs]
  | .object fs loc => by simp [wfValue, Value.mapLoc, wfFields_mapLoc f c fs]
theorem wfValues_mapLoc (f : Loc → Loc) (c : Bool) : ∀ vs : List Value, wfValues c (mapLocValues f vs) = wfValues c vs
  | [] => by simp [wfValues, mapLocValues]
  | v :: vs => by simp [wfValues, mapLocValues, wfValue_mapLoc f c v, wfValues_mapLoc f c vs]
theorem wfField_mapLoc (f : Loc → Loc) (c : Bool) : ∀ x : ObjectField, wfField c (x.mapLoc f) = wfField c x
  | .mk n v loc => by simp [wfField, ObjectField.mapLoc, wfValue_mapLoc f c v]
theorem wfFields_mapLoc (f : Loc → Loc) (c : Bool) : ∀ fs : List ObjectField, wfFields c (mapLocFields f fs) = wfFields c fs
  | [] => by simp [wfFields, mapLocFields]
  | x :: fs => by simp [wfFields, mapLocFields, wfField_mapLoc f c x, wfFields_mapLoc f c fs]
end

/-! ### nested values / types: sub-nodes of the view, well-formed -/

theorem typeV_node (t : TypeRef) : ∃ is, typeV t = .node t.loc is := by
  cases t <;> simp [typeV, namedTypeV, TypeRef.loc]

theorem valueV_node (v : Value) : ∃ is, valueV v = .node v.loc is := by
  cases v <;> simp [valueV, variableV, stringV, Value.loc]

theorem subs_type_sub : ∀ (t w : TypeRef), w ∈ t.subs → Item.Sub (typeV w) (typeV t) ∧ (wfType t = true → wfType w = true)
  | .named t, w, h => by
    simp [TypeRef.subs] at h; subst h; exact ⟨.refl, id⟩
  | .list t loc, w, h => by
    simp only [TypeRef.subs, List.mem_cons] at h
    rcases h with rfl | h
    · exact ⟨.refl, id⟩
    · obtain ⟨a, b⟩ := subs_type_sub t w h
      exact ⟨by simp only [typeV]; exact .node (i := typeV t) (by simp) a, fun hw => b (by simpa [wfType] using hw)⟩
  | .nonNull t loc, w, h => by
    simp only [TypeRef.subs, List.mem_cons] at h
    rcases h with rfl | h
    · exact ⟨.refl, id⟩
    · obtain ⟨a, b⟩ := subs_type_sub t w h
      exact ⟨by simp only [typeV]; exact .node (i := typeV t) (by simp) a,
        fun hw => b (by simp [wfType] at hw; exact hw.1)⟩

mutual
theorem subs_value_sub (c : Bool) : ∀ (v w : Value), w ∈ v.subs →
    Item.Sub (valueV w) (valueV v) ∧ (wfValue c v = true → wfValue c w = true)
  | .var v, w, h => by simp [Value.subs] at h; subst h; exact ⟨.refl, id⟩
  | .int v loc, w, h => by simp [Value.subs] at h; subst h; exact ⟨.refl, id⟩
  | .float v loc, w, h => by simp [Value.subs] at h; subst h; exact ⟨.refl, id⟩
  | .string s, w, h => by simp [Value.subs] at h; subst h; exact ⟨.refl, id⟩
  | .boolean b loc, w, h => by simp [Value.subs] at h; subst h; exact ⟨.refl, id⟩
  | .null loc, w, h => by simp [Value.subs] at h; subst h; exact ⟨.refl, id⟩
  | .enum v loc, w, h => by simp [Value.subs] at h; subst h; exact ⟨.refl, id⟩
  | .list vs loc, w, h => by
    simp only [Value.subs, List.mem_cons] at h
    rcases h with rfl | h
    · exact ⟨.refl, id⟩
    · obtain ⟨i, hi, a, b⟩ := subs_values_sub c vs w h
      exact ⟨by simp only [valueV]; exact .node (i := i) (by simp [hi]) a, fun hw => b (by simpa [wfValue] using hw)⟩
  | .object fs loc, w, h => by
    simp only [Value.subs, List.mem_cons] at h
    rcases h with rfl | h
    · exact ⟨.refl, id⟩
    · obtain ⟨i, hi, a, b⟩ := subs_fields_sub c fs w h
      exact ⟨by simp only [valueV]; exact .node (i := i) (by simp [hi]) a, fun hw => b (by simpa [wfValue] using hw)⟩
theorem subs_values_sub (c : Bool) : ∀ (vs : List Value) (w : Value), w ∈ subsValues vs →
    ∃ i ∈ valuesV vs, Item.Sub (valueV w) i ∧ (wfValues c vs = true → wfValue c w = true)
  | [], w, h => by simp [subsValues] at h
  | v :: vs, w, h => by
    simp only [subsValues, List.mem_append] at h
    rcases h with h | h
    · obtain ⟨a, b⟩ := subs_value_sub c v w h
      exact ⟨valueV v, by simp [valuesV], a, fun hw => b (by simp [wfValues] at hw; exact hw.1)⟩
    · obtain ⟨i, hi, a, b⟩ := subs_values_sub c vs w h
      exact ⟨i, by simp [valuesV, hi], a, fun hw => b (by simp [wfValues] at hw; exact hw.2)⟩
theorem subs_field_sub (c : Bool) : ∀ (x : ObjectField) (w : Value), w ∈ x.subs →
    Item.Sub (valueV w) (objectFieldV x) ∧ (wfField c x = true → wfValue c w = true)
  | .mk n v loc, w, h => by
    simp only [ObjectField.subs] at h
    obtain ⟨a, b⟩ := subs_value_sub c v w h
    exact ⟨by simp only [objectFieldV]; exact .node (i := valueV v) (by simp) a, fun hw => b (by simpa [wfField] using hw)⟩
theorem subs_fields_sub (c : Bool) : ∀ (fs : List ObjectField) (w : Value), w ∈ subsFields fs →
    ∃ i ∈ fieldsV fs, Item.Sub (valueV w) i ∧ (wfFields c fs = true → wfValue c w = true)
  | [], w, h => by simp [subsFields] at h
  | x :: fs, w, h => by
    simp only [subsFields, List.mem_append] at h
    rcases h with h | h
    · obtain ⟨a, b⟩ := subs_field_sub c x w h
      exact ⟨objectFieldV x, by simp [fieldsV], a, fun hw => b (by simp [wfFields] at hw; exact hw.1)⟩
    · obtain ⟨i, hi, a, b⟩ := subs_fields_sub c fs w h
      exact ⟨i, by simp [fieldsV, hi], a, fun hw => b (by simp [wfFields] at hw; exact hw.2)⟩
end

/-! ### the views of values and types are solid -/

theorem solidAll_append (xs ys : List Item) : Item.solidAll (xs ++ ys) = (Item.solidAll xs && Item.solidAll ys) := by
  induction xs with
  | nil => simp [Item.solidAll]
  | cons x xs ih => simp [Item.solidAll, ih, Bool.and_assoc]

theorem nameV_solid (n : Name) : (nameV n).solid = true := by
  simp [nameV, Item.solid, Item.solidAll, Item.leadAll, Item.lead]
theorem nameV_lead (n : Name) : (nameV n).lead = true := by
  simp [nameV, Item.leadAll, Item.lead]

theorem typeV_lead : ∀ t : TypeRef, (typeV t).lead = true
  | .named t => by simp [typeV, namedTypeV, Item.lead, Item.leadAll, nameV_lead]
  | .list t loc => by simp [typeV, Item.lead, Item.leadAll]
  | .nonNull t loc => by simp [typeV, Item.lead, Item.leadAll, typeV_lead t]

theorem typeV_solid : ∀ t : TypeRef, (typeV t).solid = true
  | .named t => by simp [typeV, namedTypeV, Item.solid, Item.solidAll, Item.leadAll, nameV_lead, nameV_solid]
  | .list t loc => by simp [typeV, Item.solid, Item.solidAll, Item.leadAll, Item.lead, typeV_solid t]
  | .nonNull t loc => by simp [typeV, Item.solid, Item.solidAll, Item.leadAll, typeV_lead t, typeV_solid t]

mutual
theorem valueV_solid : ∀ v : Value, (valueV v).solid = true
  | .var v => by simp [valueV, variableV, Item.solid, Item.solidAll, Item.leadAll, Item.lead, nameV_solid]
  | .int v loc => by simp [valueV, Item.solid, Item.solidAll, Item.leadAll, Item.lead]
  | .float v loc => by simp [valueV, Item.solid, Item.solidAll, Item.leadAll, Item.lead]
  | .string s => by simp [valueV, stringV, Item.solid, Item.solidAll, Item.leadAll, Item.lead]
  | .boolean b loc => by simp [valueV, Item.solid, Item.solidAll, Item.leadAll, Item.lead]
  | .null loc => by simp [valueV, Item.solid, Item.solidAll, Item.leadAll, Item.lead]
  | .enum v loc => by simp [valueV, Item.solid, Item.solidAll, Item.leadAll, Item.lead]
  | .list vs loc => by
    simp [valueV, Item.solid, Item.solidAll, Item.leadAll, Item.lead, solidAll_append, valuesV_solid vs]
  | .object fs loc => by
    simp [valueV, Item.solid, Item.solidAll, Item.leadAll, Item.lead, solidAll_append, fieldsV_solid fs]
theorem valuesV_solid : ∀ vs : List Value, Item.solidAll (valuesV vs) = true
  | [] => by simp [valuesV, Item.solidAll]
  | v :: vs => by simp [valuesV, Item.solidAll, valueV_solid v, valuesV_solid vs]
theorem objectFieldV_solid : ∀ x : ObjectField, (objectFieldV x).solid = true
  | .mk n v loc => by
    simp [objectFieldV, Item.solid, Item.solidAll, Item.leadAll, nameV_lead, nameV_solid, valueV_solid v]
theorem fieldsV_solid : ∀ fs : List ObjectField, Item.solidAll (fieldsV fs) = true
  | [] => by simp [fieldsV, Item.solidAll]
  | x :: fs => by simp [fieldsV, Item.solidAll, objectFieldV_solid x, fieldsV_solid fs]
end

mutual
theorem wfValue_weaken : ∀ v : Value, wfValue true v = true → wfValue false v = true
  | .var v, h => by simp [wfValue] at h
  | .int v loc, _ => by simp [wfValue]
  | .float v loc, _ => by simp [wfValue]
  | .string s, _ => by simp [wfValue]
  | .boolean b loc, _ => by simp [wfValue]
  | .null loc, _ => by simp [wfValue]
  | .enum v loc, h => by simpa [wfValue] using h
  | .list vs loc, h => by simp only [wfValue] at h ⊢; exact wfValues_weaken vs h
  | .object fs loc, h => by simp only [wfValue] at h ⊢; exact wfFields_weaken fs h
theorem wfValues_weaken : ∀ vs : List Value, wfValues true vs = true → wfValues false vs = true
  | [], _ => by simp [wfValues]
  | v :: vs, h => by
    simp only [wfValues, Bool.and_eq_true] at h ⊢
    exact ⟨wfValue_weaken v h.1, wfValues_weaken vs h.2⟩
theorem wfField_weaken : ∀ x : ObjectField, wfField true x = true → wfField false x = true
  | .mk n v loc, h => by simp only [wfField] at h ⊢; exact wfValue_weaken v h
theorem wfFields_weaken : ∀ fs : List ObjectField, wfFields true fs = true → wfFields false fs = true
  | [], _ => by simp [wfFields]
  | x :: fs, h => by
    simp only [wfFields, Bool.and_eq_true] at h ⊢
    exact ⟨wfField_weaken x h.1, wfFields_weaken fs h.2⟩
end

theorem wfValue_of_const (c : Bool) (v : Value) (h : wfValue c v = true) : wfValue false v = true := by
  cases c with
  | false => exact h
  | true => exact wfValue_weaken v h

end PyGql.Spec

/-
  Generic `Lay` combinators for the type-system printers: separated lists, `_join` tails, `_block`.
-/
import PyGqlModel.Lemmas.PrintLayExec
namespace PyGql.PrintTokens
open PyGql PyGql.Ast PyGql.Parse PyGql.Spec PyGql.Print PyGql.PrintLex PyGql.PrintMatch PyGql.PrintString PyGql.Lex

abbrev LP := Text × List TokClass

/-- classes of a separated list: first element, then separator classes + element -/
def joinCls (sc : List TokClass) : List LP → List TokClass
  | [] => []
  | p :: ps => p.2 ++ ps.flatMap (fun q => sc ++ q.2)

/-- `sep.join(xs)` of `Lay` texts is `Lay`, for a separator that starts with a delimiter -/
theorem lay_joinSep (sep : Text) (sc : List TokClass) (hsep : ∀ b cb, Lay b cb → Lay (sep ++ b) (sc ++ cb))
    (hd : ∀ b, DelimHead (sep ++ b)) : ∀ (ps : List LP), (∀ p ∈ ps, Lay p.1 p.2) →
    Lay (joinSep sep (ps.map Prod.fst)) (joinCls sc ps)
  | [], _ => by simpa [joinSep, joinCls] using lay_nil
  | [p], h => by simpa [joinSep, joinCls] using h p (by simp)
  | p :: q :: ps, h => by
    have ih := lay_joinSep sep sc hsep hd (q :: ps) (fun x hx => h x (by simp [hx]))
    have h1 := lay_append (h p (by simp)) (hsep _ _ ih) (hd _)
    simpa [joinSep, joinCls, List.append_assoc] using h1

theorem joinCls_nil (ps : List LP) : joinCls [] ps = ps.flatMap Prod.snd := by
  cases ps with
  | nil => rfl
  | cons p ps => simp [joinCls]

theorem yieldAll_map {α} (f : α → Item) (xs : List α) : Item.yieldAll (xs.map f) = xs.flatMap (fun x => (f x).yield) := by
  induction xs with
  | nil => rfl
  | cons x xs ih => simp [Item.yieldAll, ih]

/-- separators -/
theorem sep_comma (b : Text) (cb : List TokClass) (h : Lay b cb) : Lay ([44, 32] ++ b) ([] ++ cb) := by
  simpa using lay_comma_cons (lay_space_cons h)
theorem sep_lf (b : Text) (cb : List TokClass) (h : Lay b cb) : Lay ([10] ++ b) ([] ++ cb) := by
  simpa using lay_lf_cons h
theorem sep_pipe (b : Text) (cb : List TokClass) (h : Lay b cb) : Lay ([32, 124, 32] ++ b) ([(.pipe, [])] ++ cb) := by
  simpa using lay_space_cons (lay_pipe (lay_space_cons h))
theorem sep_amp (b : Text) (cb : List TokClass) (h : Lay b cb) : Lay ([32, 38, 32] ++ b) ([(.amp, [])] ++ cb) := by
  simpa using lay_space_cons (lay_amp (lay_space_cons h))

/-- `_join(xs, " ")` after a non-empty head: every non-empty entry is preceded by one space -/
theorem lay_tailJoin : ∀ (ps : List LP), (∀ p ∈ ps, Lay p.1 p.2) →
    Lay (tailJoin [32] (ps.map Prod.fst)) (ps.flatMap Prod.snd) ∧ DelimHead (tailJoin [32] (ps.map Prod.fst))
  | [], _ => ⟨by simpa [tailJoin] using lay_nil, by simpa [tailJoin] using delimHead_nil⟩
  | p :: ps, h => by
    obtain ⟨l1, d1⟩ := lay_tailJoin ps (fun x hx => h x (by simp [hx]))
    have e : tailJoin [32] ((p :: ps).map Prod.fst) = wrapS p.1 ++ tailJoin [32] (ps.map Prod.fst) := by
      simp [tailJoin, wrapS]
    rw [e]
    exact ⟨by simpa using lay_append (lay_wrapS (h p (by simp))) l1 d1, delimHead_append (delimHead_wrapS _) d1⟩

/-- `_join(xs)` without separator is concatenation -/
theorem join_nosep_cons (a : Text) (xs : List Text) : join (a :: xs) = a ++ join xs := by
  unfold join
  cases a with
  | nil => simp
  | cons x y =>
    simp only [List.filter_cons, List.isEmpty_cons, Bool.not_false, ↓reduceIte]
    rw [joinSep_cons]
    generalize (xs.filter fun x => !x.isEmpty) = ys
    induction ys with
    | nil => simp [joinSep]
    | cons z zs ih => cases zs <;> simp_all [joinSep]
theorem join_nosep_nil : join ([] : List Text) = [] := rfl

/-- `_block` of a non-empty list of non-empty `Lay` items -/
theorem lay_block (ind : Text) (hind : Blank ind) (ps : List LP) (hne : ps ≠ []) (h : ∀ p ∈ ps, Lay p.1 p.2)
    (hnn : ∀ p ∈ ps, p.1 ≠ []) :
    Lay (block (ps.map Prod.fst) ind) ((.curlyL, []) :: (ps.flatMap Prod.snd ++ [(.curlyR, [])])) ∧
    ∃ pre, block (ps.map Prod.fst) ind = 123 :: (pre ++ [125]) := by
  have hne' : ps.map Prod.fst ≠ [] := by simpa using hne
  have hnn' : ∀ x ∈ (ps.map Prod.fst).map (fun s => indentText s ind), x ≠ [] := by
    intro x hx
    simp only [List.mem_map] at hx
    obtain ⟨y, ⟨p, hp, rfl⟩, rfl⟩ := hx
    exact indentText_ne _ _ (hnn p hp)
  rw [block_eq _ _ hne' hnn']
  have hl := lay_joinSep [10] [] sep_lf (fun b => delimHead_cons (by decide))
    (ps.map fun p => (indentText p.1 ind, p.2))
    (by intro q hq; simp only [List.mem_map] at hq; obtain ⟨p, hp, rfl⟩ := hq; exact lay_indentText hind (h p hp))
  have e1 : (ps.map fun p => (indentText p.1 ind, p.2)).map Prod.fst = (ps.map Prod.fst).map (fun s => indentText s ind) := by
    simp [List.map_map, Function.comp_def]
  have e2 : joinCls [] (ps.map fun p => (indentText p.1 ind, p.2)) = ps.flatMap Prod.snd := by
    rw [joinCls_nil]; simp [List.flatMap_map]
  rw [e1, e2] at hl
  have h1 := lay_curlyL (lay_lf_cons (lay_append hl (lay_lf_cons (lay_curlyR lay_nil)) (delimHead_cons (by decide))))
  exact ⟨by simpa using h1, ⟨10 :: (joinSep [10] ((ps.map Prod.fst).map fun s => indentText s ind) ++ [10]), by simp⟩⟩

end PyGql.PrintTokens

/-
  THE MEMOISED SEARCH NEVER LOSES A REPORT, part 6: postcondition of `_conflicts_between_subselections` (memoised), and
  all five search functions together by induction on the fuel. `WfIds` (selection-set identities pairwise distinct)
  enters here: the memo identifies a field map by its selection set.
-/
import PyGqlModel.Lemmas.ValidateOverlapMPost5
import PyGqlModel.Lemmas.ValidateOverlapWf
namespace PyGql.Validate
open PyGql PyGql.Validate.Spec

section
variable (s : SchemaD) (fx : Fixes) (d : Doc)

/-- one fragment compared against a field map in a traversal of its own (`cmp` reset, then restored) -/
theorem freshM_bff_gp (fuel : Nat) (heff : EFfM s fx d fuel) (me : Bool) (ssid : Nat) (fm : FMap)
    (fr : String) (c : OCtx) (hc : CI s d c) (h1 : EntOK (fun _ e => Ent s d e) fm)
    (hfm : ∀ sels p rn e, SelSet d ssid sels → Adm s d ssid p → CollD s p sels rn e → e ∈ AL.getD fm rn [])
    (hcr : (withFreshCmp (betweenFieldsAndFragmentM s fx fuel me ssid fm fr) c).2.crash = none) :
    GPM s d c (withFreshCmp (betweenFieldsAndFragmentM s fx fuel me ssid fm fr) c)
      (fun M => FCov d M me ssid fr) := by
  unfold withFreshCmp at hcr ⊢
  simp only at hcr ⊢
  obtain ⟨hin, g⟩ := heff me ssid fm fr { c with cmp := [] } (hc.cmp _) h1 hfm (fun _ h => nomatch h) hcr
  have g1 : GPM s d c (betweenFieldsAndFragmentM s fx fuel me ssid fm fr { c with cmp := [] }) _ :=
    g.pre (c := c) rfl (fun k hk => hk) (fun _ M _ _ k hk => Or.inl hk)
  have g2 := g1.post (c' := { (betweenFieldsAndFragmentM s fx fuel me ssid fm fr { c with cmp := [] }).2 with cmp := c.cmp }) rfl
  refine g2.imp (fun M _ r => ?_)
  rcases r _ (fun _ h => h) fr hin with h | h
  · cases h
  · exact h

theorem stepM_ess (h7 : fx.v7 = true) (hpa : ParentsAgree s d) (hw : WfIds d) (fuel : Nat) (hecb : ECbM s fx d fuel)
    (heff : EFfM s fx d fuel) (hefr : EFrM s fx d fuel) : ESsM s fx d (fuel + 1) := by
  obtain ⟨_, _, sff, sfr, _⟩ := searchM_sound s fx d h7 fuel
  intro me p1 id1 sels1 p2 id2 sels2 c hc s1 a1 s2 a2
  simp only [betweenSubselectionsM]
  obtain ⟨x1, x2, _⟩ := ff_set s d hc s1 a1
  obtain ⟨p1', xa, xe⟩ := ff_eq s d p1 id1 sels1 c hc.cache a1
  have xs := fun g => ff_spreads_complete s p1 id1 sels1 c g
  have xf := ff_frame s p1 id1 sels1 c
  have xfk := ff_keysM s p1 id1 sels1 c
  generalize fieldsAndFragments s p1 id1 sels1 c = ra at x1 x2 xe xs xf xfk ⊢
  obtain ⟨⟨fma, fra⟩, ca⟩ := ra
  simp only at x1 x2 xe xs xf xfk ⊢
  obtain ⟨y1, y2, _⟩ := ff_set s d x1 s2 a2
  obtain ⟨p2', ya, ye⟩ := ff_eq s d p2 id2 sels2 ca x1.cache a2
  have ys := fun g => ff_spreads_complete s p2 id2 sels2 ca g
  have yf := ff_frame s p2 id2 sels2 ca
  have yfk := ff_keysM s p2 id2 sels2 ca
  generalize fieldsAndFragments s p2 id2 sels2 ca = rb at y1 y2 ye ys yf yfk ⊢
  obtain ⟨⟨fmb, frb⟩, cb⟩ := rb
  simp only at y1 y2 ye ys yf yfk ⊢
  have e1' : p1' = p1 := hpa _ _ _ xa a1
  have e2' : p2' = p2 := hpa _ _ _ ya a2
  subst e1' e2'
  intro hcr
  have cm1 : ∀ rn e, CollD s p1' sels1 rn e → e ∈ AL.getD fma rn [] := fun rn e h => by
    rw [xe]; exact collectSels_complete s _ sels1 ([], []) rn e (Or.inr h)
  have cm2 : ∀ rn e, CollD s p2' sels2 rn e → e ∈ AL.getD fmb rn [] := fun rn e h => by
    rw [ye]; exact collectSels_complete s _ sels2 ([], []) rn e (Or.inr h)
  have hfm1 : ∀ sels p rn e, SelSet d id1 sels → Adm s d id1 p → CollD s p sels rn e → e ∈ AL.getD fma rn [] :=
    fun sels p rn e hs ha hc => by
      have := wf_selSet_unique hw hs s1; subst this
      rw [hpa _ _ _ ha a1] at hc; exact cm1 rn e hc
  have hfm2 : ∀ sels p rn e, SelSet d id2 sels → Adm s d id2 p → CollD s p sels rn e → e ∈ AL.getD fmb rn [] :=
    fun sels p rn e hs ha hc => by
      have := wf_selSet_unique hw hs s2; subst this
      rw [hpa _ _ _ ha a2] at hc; exact cm2 rn e hc
  -- CI along the way
  have ci0 : CI s d (conflictsBetweenM s fx fuel me fma fmb cb).2 := soundM_cb_ci s fx d h7 fuel me fma fmb cb y1 x2 y2
  have hPw : ∀ (ssid : Nat) (fm : FMap), EntOK (fun _ e => Ent s d e) fm → ∀ (frs : List String) (c : OCtx), CI s d c →
      CI s d (sumLoop frs (fun fr c => withFreshCmp (betweenFieldsAndFragmentM s fx fuel me ssid fm fr) c) c).2 :=
    fun ssid fm hfm frs c hc => (sumLoop_spec frs _ (CI s d) (fun _ => True)
      (fun fr _ c hc => withFreshCmp_spec s d _ _ (fun c hc => ⟨(sff me ssid fm fr c hc hfm).1, fun _ => trivial⟩) c hc) c hc).1
  have ci1 := hPw id1 fma x2 frb _ ci0
  have ci2 := hPw id2 fmb y2 fra _ ci1
  have g3 := sumLoop_gpM fra (fun f1 c => sumLoop frb (fun f2 c => betweenFragmentsM s fx fuel me (some f1) (some f2) c) c)
    (CI s d) (fun f1 M => ∀ f2 ∈ frb, CovM M me f1 f2)
    (fun f1 _ c hc => ⟨(sumLoop_spec frb _ (CI s d) (fun _ => True)
        (fun f2 _ c hc => ⟨(sfr me (some f1) (some f2) c hc).1, fun _ => trivial⟩) c hc).1,
      fun h => sumLoop_gpM frb (fun f2 c => betweenFragmentsM s fx fuel me (some f1) (some f2) c) (CI s d)
        (fun f2 M => CovM M me f1 f2)
        (fun f2 _ c hc => ⟨(sfr me (some f1) (some f2) c hc).1,
          fun h => (hefr me (some f1) (some f2) c hc h).imp (fun M _ r => r f1 f2 rfl rfl)⟩) c hc h⟩)
    _ ci2 hcr
  have g2 := sumLoop_gpM fra (fun fr c => withFreshCmp (betweenFieldsAndFragmentM s fx fuel me id2 fmb fr) c) (CI s d)
    (fun fr M => FCov d M me id2 fr)
    (fun fr _ c hc => ⟨withFreshCmp_spec s d _ True (fun c hc => ⟨(sff me id2 fmb fr c hc y2).1, fun _ => trivial⟩) c hc |>.1,
      fun h => freshM_bff_gp s fx d fuel heff me id2 fmb fr c hc y2 hfm2 h⟩)
    _ ci1 g3.crash
  have g1 := sumLoop_gpM frb (fun fr c => withFreshCmp (betweenFieldsAndFragmentM s fx fuel me id1 fma fr) c) (CI s d)
    (fun fr M => FCov d M me id1 fr)
    (fun fr _ c hc => ⟨withFreshCmp_spec s d _ True (fun c hc => ⟨(sff me id1 fma fr c hc x2).1, fun _ => trivial⟩) c hc |>.1,
      fun h => freshM_bff_gp s fx d fuel heff me id1 fma fr c hc x2 hfm1 h⟩)
    _ ci0 g2.crash
  have g0 := hecb me fma fmb cb y1 x2 y2 g1.crash
  have hpc : keysM cb = keysM c := by rw [yfk, xfk]
  have hcc : cb.crash = c.crash := by rw [yf.2.2.1, xf.2.2.1]
  refine ((((g0.seq g1).seq g2).seq g3).pre hcc (fun k hk => by rw [hpc]; exact hk)
    (fun _ M _ _ k hk => Or.inl (by rw [hpc] at hk; exact hk))).imp (fun M _ r => ?_)
  obtain ⟨⟨⟨r0, r1⟩, r2⟩, r3⟩ := r
  exact ⟨fun rn e1 e2 h1 h2 => r0 rn e1 e2 (cm1 rn e1 h1) (cm2 rn e2 h2),
    fun g hg => r1 g (ys g hg),
    fun g hg => r2 g (xs g hg),
    fun g1 g2 hg1 hg2 => r3 g1 (xs g1 hg1) g2 (ys g2 hg2)⟩

/-- **postconditions of the whole search**, any fuel -/
theorem postM_all (h7 : fx.v7 = true) (hpa : ParentsAgree s d) (hw : WfIds d) : ∀ fuel,
    EFindM s fx d fuel ∧ ECbM s fx d fuel ∧ EFrM s fx d fuel ∧ ESsM s fx d fuel ∧ EFfM s fx d fuel := by
  intro fuel
  induction fuel with
  | zero =>
    refine ⟨?_, ?_, ?_, ?_, ?_⟩
    · intro pme f1 f2 c _ _ _ h; simp [findConflictM] at h
    · intro me fm1 fm2 c _ _ _ h; simp [conflictsBetweenM] at h
    · intro me of1 of2 c _ h; simp [betweenFragmentsM] at h
    · intro me p1 id1 sels1 p2 id2 sels2 c _ _ _ _ _ h; simp [betweenSubselectionsM] at h
    · intro me ssid fm name c _ _ _ _ h; simp [betweenFieldsAndFragmentM] at h
  | succ fuel ih =>
    obtain ⟨i1, i2, i3, i4, i5⟩ := ih
    obtain ⟨j1, _, _, j4, _⟩ := searchM_sound s fx d h7 fuel
    exact ⟨stepM_efind s fx d fuel i4, stepM_ecb s fx d fuel j1 i1, stepM_efr s fx d h7 hpa fuel j4 i2 i3,
      stepM_ess s fx d h7 hpa hw fuel i2 i5 i3, stepM_eff s fx d h7 hpa fuel i2 i5⟩

end
end PyGql.Validate

/-
  `OverlappingFieldsCanBeMergedChecker`, soundness half with fragment spreads, part 2: CERTIFICATES SUFFICE.
  If every key of the memo `M` is closed (`KeyObl`), every selection set of the document has its `WithinCert`,
  the routes to the parent types agree and no fragment is named "", then no selection set contains two conflicting
  fields. By induction on the height of the conflict derivation; fragment pairs are chased through the memo by
  induction on the lengths of the spread paths.
-/
import PyGqlModel.Lemmas.ValidateOverlapCert
namespace PyGql.Validate
open PyGql PyGql.Validate.Spec

section
variable {s : SchemaD} {d : Doc} {M : Memo}

theorem ent_of_collD {i : Nat} {sels : List Sel} {p : Option String} {rn : String} {e : FEntry}
    (h1 : SelSet d i sels) (h2 : Adm s d i p) (h3 : CollD s p sels rn e) : Ent s d e := ⟨i, sels, p, rn, h1, h2, h3⟩

theorem ent_of_collFH {k : Nat} {g rn : String} {e : FEntry} (h : CollFH s d k g rn e) : Ent s d e := by
  induction h with
  | here h1 h2 h3 => exact ent_of_collD (fragTable_selSet h1) h2 h3
  | there _ _ _ ih => exact ih

theorem ent_of_collF {g rn : String} {e : FEntry} (h : CollF s d g rn e) : Ent s d e := by
  obtain ⟨k, hk⟩ := collF_collFH h; exact ent_of_collFH hk

theorem ent_of_coll {i : Nat} {sels : List Sel} {p : Option String} {rn : String} {e : FEntry}
    (h1 : SelSet d i sels) (h2 : Adm s d i p) (h3 : Coll s d p sels rn e) : Ent s d e := by
  rcases h3 with h3 | ⟨g, _, hg⟩
  · exact ent_of_collD h1 h2 h3
  · exact ent_of_collF hg

variable (hpa : ParentsAgree s d) (hne : AL.get? (fragTable d) "" = none)
  (hK : ∀ k, M k → KeyObl s d M k)
  (hW : ∀ i sels, SelSet d i sels → ∀ p, Adm s d i p → WithinCert s d M p sels)

/-- a certified pair has no conflict of height `n` -/
def LvA (s : SchemaD) (d : Doc) (M : Memo) (n : Nat) : Prop :=
  ∀ me e1 e2, Ent s d e1 → Ent s d e2 → Cert s d M me e1 e2 → ¬ ConfH s d n me e1 e2
/-- covered fragment pairs have no conflicting fields of height `n` -/
def LvChase (s : SchemaD) (d : Doc) (M : Memo) (n : Nat) : Prop :=
  ∀ k1 k2 g1 g2 me rn e1 e2, CovS M me g1 g2 → CollFH s d k1 g1 rn e1 → CollFH s d k2 g2 rn e2 → ¬ ConfH s d n me e1 e2
/-- no selection set of the document contains two fields with a conflict of height `n` -/
def LvSet (s : SchemaD) (d : Doc) (n : Nat) : Prop :=
  ∀ i sels p rn e1 e2 me, SelSet d i sels → Adm s d i p → Coll s d p sels rn e1 → Coll s d p sels rn e2 →
    ¬ ConfH s d n me e1 e2
/-- a field has no conflict of height `n` with itself -/
def LvSelf (s : SchemaD) (d : Doc) (n : Nat) : Prop := ∀ e, Ent s d e → ¬ ConfH s d n false e e

include hpa in
/-- certified pairs: from the level below -/
theorem lvA_step (n : Nat) (hA : LvA s d M n) (hC : LvChase s d M n) : LvA s d M (n + 1) := by
  intro me f1 f2 hf1 hf2 hcert hconf
  cases hcert with
  | mk c1 c2 c3 c4 c5 c6 =>
    cases hconf with
    | args hme harg =>
      obtain ⟨a, b⟩ := c1 hme
      rcases harg with h | h
      · exact h a
      · rw [b] at h; cases h
    | types h1 h2 h3 => rw [c2 _ _ h1 h2] at h3; cases h3
    | sub s1 s2 a1 a2 x1 x2 hsub =>
      obtain ⟨hs1, ha1⟩ := hf1.sub s1
      obtain ⟨hs2, ha2⟩ := hf2.sub s2
      rw [hpa _ _ _ a1 ha1] at x1
      rw [hpa _ _ _ a2 ha2] at x2
      rcases x1 with x1 | ⟨g1, hg1, y1⟩ <;> rcases x2 with x2 | ⟨g2, hg2, y2⟩
      · exact hA _ _ _ (ent_of_collD hs1 ha1 x1) (ent_of_collD hs2 ha2 x2) (c3 s1 s2 _ _ _ x1 x2) hsub
      · exact hA _ _ _ (ent_of_collD hs1 ha1 x1) (ent_of_collF y2) (c4 s1 s2 g2 hg2 _ _ _ x1 y2) hsub
      · exact hA _ _ _ (ent_of_collD hs2 ha2 x2) (ent_of_collF y1) (c5 s1 s2 g1 hg1 _ _ _ x2 y1) hsub.symm
      · obtain ⟨k1, z1⟩ := collF_collFH y1
        obtain ⟨k2, z2⟩ := collF_collFH y2
        exact hC k1 k2 g1 g2 _ _ _ _ (Or.inl (c6 s1 s2 g1 g2 hg1 hg2)) z1 z2 hsub
    | subSwap s1 s2 a1 a2 x1 x2 hsub =>
      have hsub := hsub.symm
      obtain ⟨hs1, ha1⟩ := hf1.sub s1
      obtain ⟨hs2, ha2⟩ := hf2.sub s2
      rw [hpa _ _ _ a1 ha1] at x1
      rw [hpa _ _ _ a2 ha2] at x2
      rcases x1 with x1 | ⟨g1, hg1, y1⟩ <;> rcases x2 with x2 | ⟨g2, hg2, y2⟩
      · exact hA _ _ _ (ent_of_collD hs1 ha1 x1) (ent_of_collD hs2 ha2 x2) (c3 s1 s2 _ _ _ x1 x2) hsub
      · exact hA _ _ _ (ent_of_collD hs1 ha1 x1) (ent_of_collF y2) (c4 s1 s2 g2 hg2 _ _ _ x1 y2) hsub
      · exact hA _ _ _ (ent_of_collD hs2 ha2 x2) (ent_of_collF y1) (c5 s1 s2 g1 hg1 _ _ _ x2 y1) hsub.symm
      · obtain ⟨k1, z1⟩ := collF_collFH y1
        obtain ⟨k2, z2⟩ := collF_collFH y2
        exact hC k1 k2 g1 g2 _ _ _ _ (Or.inl (c6 s1 s2 g1 g2 hg1 hg2)) z1 z2 hsub

theorem lvA_zero : LvA s d M 0 := by
  intro me f1 f2 _ _ hcert hconf
  cases hcert with
  | mk c1 c2 _ _ _ _ =>
    cases hconf with
    | args hme harg =>
      obtain ⟨a, b⟩ := c1 hme
      rcases harg with h | h
      · exact h a
      · rw [b] at h; cases h
    | types h1 h2 h3 => rw [c2 _ _ h1 h2] at h3; cases h3

include hpa in
theorem lvSelf_step (n : Nat) (hS : LvSet s d n) : LvSelf s d (n + 1) := by
  intro e he hconf
  have hme : (false || exclusiveParents s e e) = false := by simp [exclusiveParents_self]
  cases hconf with
  | args _ harg =>
    rcases harg with h | h
    · exact h rfl
    · rw [sameArguments_refl] at h; cases h
  | types h1 h2 h3 => rw [h1] at h2; cases h2; rw [typesConflict_irrefl] at h3; cases h3
  | sub s1 _ a1 a2 x1 x2 hsub =>
    obtain ⟨hs, ha⟩ := he.sub s1
    rw [hpa _ _ _ a1 ha] at x1
    rw [hpa _ _ _ a2 ha] at x2
    exact hS _ _ _ _ _ _ _ hs ha x1 x2 hsub
  | subSwap s1 _ a1 a2 x1 x2 hsub =>
    obtain ⟨hs, ha⟩ := he.sub s1
    rw [hpa _ _ _ a1 ha] at x1
    rw [hpa _ _ _ a2 ha] at x2
    exact hS _ _ _ _ _ _ _ hs ha x2 x1 hsub

theorem lvSelf_zero : LvSelf s d 0 := by
  intro e _ hconf
  cases hconf with
  | args _ harg =>
    rcases harg with h | h
    · exact h rfl
    · rw [sameArguments_refl] at h; cases h
  | types h1 h2 h3 => rw [h1] at h2; cases h2; rw [typesConflict_irrefl] at h3; cases h3

end
end PyGql.Validate

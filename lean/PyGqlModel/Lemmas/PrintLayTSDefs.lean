/-
  `Lay` for every type-system definition and extension (modulo member descriptions, R4).
-/
import PyGqlModel.Lemmas.PrintLayTSDef
namespace PyGql.PrintTokens
open PyGql PyGql.Ast PyGql.Parse PyGql.Spec PyGql.Print PyGql.PrintLex PyGql.PrintMatch PyGql.PrintString PyGql.Lex

theorem nb_tailJoin : ∀ (xs : List Text), (∀ x ∈ xs, NB x) → NB (tailJoin [32] xs)
  | [], _ => nb_nil
  | x :: xs, h => by
    have e : tailJoin [32] (x :: xs) = wrapS x ++ tailJoin [32] xs := by simp [tailJoin, wrapS]
    rw [e]; exact nb_append (nb_wrapS (h x (by simp))) (nb_tailJoin xs (fun y hy => h y (by simp [hy])))

/-- keyword(s) followed by space-joined parts -/
theorem lay_kwJoin (kwT : Text) (kwC : List TokClass) (hkw : Lay kwT kwC) (hne : kwT ≠ []) (ps : List LP)
    (hps : ∀ p ∈ ps, Lay p.1 p.2) :
    Lay (join (kwT :: ps.map Prod.fst) [32]) (kwC ++ ps.flatMap Prod.snd) ∧
    join (kwT :: ps.map Prod.fst) [32] = kwT ++ tailJoin [32] (ps.map Prod.fst) := by
  obtain ⟨l, d⟩ := lay_tailJoin ps hps
  rw [join_cons_ne _ _ _ hne]
  exact ⟨lay_append hkw l d, rfl⟩

theorem kw_facts {k : Text} (h : Spec.Lexical.isName k = true) : k ≠ [] ∧ k.head? ≠ some 123 ∧ NB k := by
  refine ⟨isName_ne_nil h, ?_, nb_name h⟩
  cases k with
  | nil => simp
  | cons a t =>
    simp only [Spec.Lexical.isName, Bool.and_eq_true] at h
    simp only [List.head?_cons, ne_eq, Option.some.injEq]
    intro e; subst e
    simp [Spec.Lexical.isNameStart, Spec.Lexical.isLetter] at h

/-- `extend <kw>` -/
theorem lay_extendKw {k : Text} (h : Spec.Lexical.isName k = true) :
    Lay (K.extend ++ 32 :: k) [(.name, K.extend), (.name, k)] ∧ (K.extend ++ 32 :: k) ≠ [] ∧
    (K.extend ++ 32 :: k).head? ≠ some 123 ∧ NB (K.extend ++ 32 :: k) := by
  have he : Spec.Lexical.isName K.extend = true := by decide
  refine ⟨by simpa using lay_append (lay_name he) (lay_space_cons (lay_name h)) (delimHead_cons (by decide)),
    by simp [K.extend], by simp [K.extend], nb_append_right (nb_cons (nb_name h) (by decide)) (by simp)⟩

def okMembers {α} (ok : α → Prop) (xs : List α) : Prop := ∀ x ∈ xs, ok x

/-- the leaf conditions of a type-system definition / extension -/
def okTSDefinition (ind : Text) : Definition → Prop
  | .schemaDefinition dirs ops _ => okDirectives ind dirs ∧ ops ≠ [] ∧ okMembers okOperationType ops
  | .schemaExtension dirs ops _ => okDirectives ind dirs ∧ okMembers okOperationType ops
  | .scalarTypeDefinition desc name dirs _ => okDesc ind desc ∧ Spec.Lexical.isName name.value = true ∧ okDirectives ind dirs
  | .scalarTypeExtension name dirs _ => Spec.Lexical.isName name.value = true ∧ okDirectives ind dirs
  | .objectTypeDefinition desc name ifs dirs fields _ =>
    okDesc ind desc ∧ Spec.Lexical.isName name.value = true ∧ okNamedTypes ifs ∧ okDirectives ind dirs ∧
    okMembers (okFieldDef ind) fields
  | .objectTypeExtension name ifs dirs fields _ =>
    Spec.Lexical.isName name.value = true ∧ okNamedTypes ifs ∧ okDirectives ind dirs ∧ okMembers (okFieldDef ind) fields
  | .interfaceTypeDefinition desc name dirs fields _ =>
    okDesc ind desc ∧ Spec.Lexical.isName name.value = true ∧ okDirectives ind dirs ∧ okMembers (okFieldDef ind) fields
  | .interfaceTypeExtension name dirs fields _ =>
    Spec.Lexical.isName name.value = true ∧ okDirectives ind dirs ∧ okMembers (okFieldDef ind) fields
  | .unionTypeDefinition desc name dirs types _ =>
    okDesc ind desc ∧ Spec.Lexical.isName name.value = true ∧ okDirectives ind dirs ∧ okNamedTypes types
  | .unionTypeExtension name dirs types _ =>
    Spec.Lexical.isName name.value = true ∧ okDirectives ind dirs ∧ okNamedTypes types
  | .enumTypeDefinition desc name dirs values _ =>
    okDesc ind desc ∧ Spec.Lexical.isName name.value = true ∧ okDirectives ind dirs ∧ okMembers (okEnumValue ind) values
  | .enumTypeExtension name dirs values _ =>
    Spec.Lexical.isName name.value = true ∧ okDirectives ind dirs ∧ okMembers (okEnumValue ind) values
  | .inputObjectTypeDefinition desc name dirs fields _ =>
    okDesc ind desc ∧ Spec.Lexical.isName name.value = true ∧ okDirectives ind dirs ∧ okInputValues ind fields
  | .inputObjectTypeExtension name dirs fields _ =>
    Spec.Lexical.isName name.value = true ∧ okDirectives ind dirs ∧ okInputValues ind fields
  | .directiveDefinition desc name args locations _ =>
    okDesc ind desc ∧ Spec.Lexical.isName name.value = true ∧ okInputValues ind args ∧ locations ≠ [] ∧
    ∀ n ∈ locations, Spec.Lexical.isName n.value = true
  | _ => False

/-- the definition's optional trailing `{…}` block is absent (its view ends with `[lookahead ≠ {]`) -/
def openEnd : Definition → Bool
  | .schemaExtension _ ops _ => ops.isEmpty
  | .objectTypeDefinition _ _ _ _ fields _ => fields.isEmpty
  | .objectTypeExtension _ _ _ fields _ => fields.isEmpty
  | .interfaceTypeDefinition _ _ _ fields _ => fields.isEmpty
  | .interfaceTypeExtension _ _ fields _ => fields.isEmpty
  | .enumTypeDefinition _ _ _ values _ => values.isEmpty
  | .enumTypeExtension _ _ values _ => values.isEmpty
  | .inputObjectTypeDefinition _ _ _ fields _ => fields.isEmpty
  | .inputObjectTypeExtension _ _ fields _ => fields.isEmpty
  | _ => false

/-- what the document loop needs to know about one printed definition -/
structure DefFacts (c : Cfg) (d : Definition) : Prop where
  lay : Lay (printDefinition c d) (definitionV (stripDef d)).yield
  ne : printDefinition c d ≠ []
  head : (printDefinition c d).head? ≠ some 123
  nb : openEnd d = true → NB (printDefinition c d)

/-- one part of a definition's body -/
abbrev part (t : Text) (cs : List TokClass) : LP := (t, cs)

theorem blockPart_nb {xs : List α} {f : α → Text} {ind : Text} (h : xs = [] → block (xs.map f) ind = [])
    (he : xs.isEmpty = true) : NB (block (xs.map f) ind) := by
  rw [h (List.isEmpty_iff.1 he)]; exact nb_nil


theorem defFacts_of (c : Cfg) (hdesc : c.includeDescriptions = true) (desc : Option StringValue)
    (hd : okDesc c.indent desc) (kwT : Text) (kwC : List TokClass) (hkw : Lay kwT kwC)
    (hk : kwT ≠ [] ∧ kwT.head? ≠ some 123 ∧ NB kwT) (ps : List LP) (hps : ∀ p ∈ ps, Lay p.1 p.2) :
    Lay (withDesc c (join (kwT :: ps.map Prod.fst) [32]) desc) (Item.yieldAll (descV desc) ++ (kwC ++ ps.flatMap Prod.snd)) ∧
    withDesc c (join (kwT :: ps.map Prod.fst) [32]) desc ≠ [] ∧
    (withDesc c (join (kwT :: ps.map Prod.fst) [32]) desc).head? ≠ some 123 ∧
    ((∀ p ∈ ps, NB p.1) → NB (withDesc c (join (kwT :: ps.map Prod.fst) [32]) desc)) := by
  obtain ⟨lb, eb⟩ := lay_kwJoin kwT kwC hkw hk.1 ps hps
  have hbne : join (kwT :: ps.map Prod.fst) [32] ≠ [] := by
    rw [eb]; intro e; exact hk.1 (List.append_eq_nil_iff.1 e).1
  have hbh : (join (kwT :: ps.map Prod.fst) [32]).head? ≠ some 123 := by
    rw [eb, head?_append_ne hk.1]; exact hk.2.1
  obtain ⟨l, h1, h2, h3⟩ := lay_withDesc c hdesc desc hd _ _ lb hbne hbh
  refine ⟨l, h2, h1, fun hnb => h3 ?_⟩
  rw [eb]
  exact nb_append hk.2.2 (nb_tailJoin _ (by
    intro x hx; simp only [List.mem_map] at hx; obtain ⟨q, hq, rfl⟩ := hx; exact hnb q hq))

theorem lay_nameLP {n : Name} (h : Spec.Lexical.isName n.value = true) : Lay n.value (nameV n).yield := by
  simpa [nameV, Item.yield, Item.yieldAll] using lay_name h

private theorem e_schema : lit "schema" = K.schema := by decide
private theorem e_xschema : lit "extend schema" = K.extend ++ 32 :: K.schema := by decide
private theorem e_scalar : lit "scalar" = K.scalar := by decide
private theorem e_xscalar : lit "extend scalar" = K.extend ++ 32 :: K.scalar := by decide
private theorem e_type : lit "type" = K.type_ := by decide
private theorem e_xtype : lit "extend type" = K.extend ++ 32 :: K.type_ := by decide
private theorem e_interface : lit "interface" = K.interface_ := by decide
private theorem e_xinterface : lit "extend interface" = K.extend ++ 32 :: K.interface_ := by decide
private theorem e_union : lit "union" = K.union := by decide
private theorem e_xunion : lit "extend union" = K.extend ++ 32 :: K.union := by decide
private theorem e_enum : lit "enum" = K.enum_ := by decide
private theorem e_xenum : lit "extend enum" = K.extend ++ 32 :: K.enum_ := by decide
private theorem e_input : lit "input" = K.input := by decide
private theorem e_xinput : lit "extend input" = K.extend ++ 32 :: K.input := by decide

/-- scalar definitions and extensions -/
theorem facts_scalarDef (c : Cfg) (hdesc : c.includeDescriptions = true) (desc name dirs loc)
    (h : okTSDefinition c.indent (.scalarTypeDefinition desc name dirs loc)) :
    DefFacts c (.scalarTypeDefinition desc name dirs loc) := by
  obtain ⟨hd, hn, hdir⟩ := h
  have hk : Spec.Lexical.isName K.scalar = true := by decide
  have f := defFacts_of c hdesc desc hd K.scalar _ (lay_name hk) (kw_facts hk)
    [part name.value (nameV name).yield, part (printDirectives c dirs) (Item.yieldAll (directivesV dirs))]
    (by intro p hp; simp at hp; rcases hp with rfl | rfl; exact lay_nameLP hn; exact lay_directives c dirs hdir)
  exact ⟨by simpa [printDefinition, definitionV, stripDef, e_scalar, kw, Item.yield, Item.yieldAll, yieldAll_append] using f.1,
    by simpa [printDefinition, e_scalar] using f.2.1, by simpa [printDefinition, e_scalar] using f.2.2.1,
    by intro h; simp [openEnd] at h⟩


theorem facts_scalarExt (c : Cfg) (hdesc : c.includeDescriptions = true) (name dirs loc)
    (h : okTSDefinition c.indent (.scalarTypeExtension name dirs loc)) :
    DefFacts c (.scalarTypeExtension name dirs loc) := by
  obtain ⟨hn, hdir⟩ := h
  have hk : Spec.Lexical.isName K.scalar = true := by decide
  obtain ⟨lk, k1, k2, k3⟩ := lay_extendKw hk
  have f := defFacts_of c hdesc none trivial _ _ lk ⟨k1, k2, k3⟩
    [part name.value (nameV name).yield, part (printDirectives c dirs) (Item.yieldAll (directivesV dirs))]
    (by intro p hp; simp at hp; rcases hp with rfl | rfl; exact lay_nameLP hn; exact lay_directives c dirs hdir)
  exact ⟨by simpa [printDefinition, definitionV, stripDef, withDesc, descV, optV, e_xscalar, kw, Item.yield, Item.yieldAll,
      yieldAll_append] using f.1,
    by simpa [printDefinition, withDesc, e_xscalar] using f.2.1, by simpa [printDefinition, withDesc, e_xscalar] using f.2.2.1,
    by intro h; simp [openEnd] at h⟩

/-- definitions / extensions with a `{ members }` block: `kw name [implements] directives block` -/
theorem facts_blockDef {α} (c : Cfg) (hdesc : c.includeDescriptions = true) (hind : Blank c.indent)
    (desc : Option StringValue) (hd : okDesc c.indent desc)
    (kwT : Text) (kwC : List TokClass) (hkw : Lay kwT kwC) (hk : kwT ≠ [] ∧ kwT.head? ≠ some 123 ∧ NB kwT)
    (name : Name) (hn : Spec.Lexical.isName name.value = true) (ifs : List NamedType) (hifs : okNamedTypes ifs)
    (dirs : List Directive) (hdir : okDirectives c.indent dirs)
    (f : α → Text) (s : α → α) (V : α → Item) (xs : List α) (hxs : ∀ x ∈ xs, Lay (f x) (V (s x)).yield ∧ f x ≠ []) :
    let text := withDesc c (join [kwT, name.value, printImplements ifs, printDirectives c dirs, block (xs.map f) c.indent] [32]) desc
    Lay text (Item.yieldAll (descV desc) ++ (kwC ++ ((nameV name).yield ++ (Item.yieldAll (implementsV ifs) ++
      (Item.yieldAll (directivesV dirs) ++ Item.yieldAll (blockV V (xs.map s))))))) ∧
    text ≠ [] ∧ text.head? ≠ some 123 ∧ (xs.isEmpty = true → NB text) := by
  obtain ⟨lb, hb0, _⟩ := lay_blockV c.indent hind f s V xs hxs
  obtain ⟨li, nbi⟩ := lay_implements ifs hifs
  have fct := defFacts_of c hdesc desc hd kwT kwC hkw hk
    [part name.value (nameV name).yield, part (printImplements ifs) (Item.yieldAll (implementsV ifs)),
     part (printDirectives c dirs) (Item.yieldAll (directivesV dirs)),
     part (block (xs.map f) c.indent) (Item.yieldAll (blockV V (xs.map s)))]
    (by intro p hp; simp at hp; rcases hp with rfl | rfl | rfl | rfl
        · exact lay_nameLP hn
        · exact li
        · exact lay_directives c dirs hdir
        · exact lb)
  refine ⟨by simpa using fct.1, by simpa using fct.2.1, by simpa using fct.2.2.1, fun he => ?_⟩
  have := fct.2.2.2 (by
    intro p hp; simp at hp; rcases hp with rfl | rfl | rfl | rfl
    · exact nb_name hn
    · exact nbi
    · exact nb_printDirectives c dirs hdir
    · exact blockPart_nb hb0 he)
  simpa using this


theorem join_skip_nil (a b : Text) (rest : List Text) (sep : Text) :
    join (a :: b :: [] :: rest) sep = join (a :: b :: rest) sep := by
  simp [join, List.filter_cons]

theorem printImplements_nil : printImplements [] = [] := by simp [printImplements, join, joinSep, wrap]

theorem memFD (c : Cfg) (hind : Blank c.indent) (fields : List FieldDefinition) (h : okMembers (okFieldDef c.indent) fields) :
    ∀ x ∈ fields, Lay (printFieldDefinition c x) (fieldDefinitionV (stripFD x)).yield ∧ printFieldDefinition c x ≠ [] :=
  fun x hx => lay_fieldDef c hind x (h x hx)
theorem memEV (c : Cfg) (values : List EnumValueDefinition) (h : okMembers (okEnumValue c.indent) values) :
    ∀ x ∈ values, Lay (printEnumValueDefinition c x) (enumValueDefinitionV (stripEV x)).yield ∧ printEnumValueDefinition c x ≠ [] :=
  fun x hx => lay_enumValue c x (h x hx)
theorem memIV (c : Cfg) (fields : List InputValueDefinition) (h : okInputValues c.indent fields) :
    ∀ x ∈ fields, Lay (printInputValueDefinition c x) (inputValueV (stripIV x)).yield ∧ printInputValueDefinition c x ≠ [] :=
  fun x hx => lay_inputValue c x (h x hx)
theorem memOT (ops : List OperationTypeDefinition) (h : okMembers okOperationType ops) :
    ∀ x ∈ ops, Lay (printOperationTypeDefinition x) (operationTypeV (id x)).yield ∧ printOperationTypeDefinition x ≠ [] :=
  fun x hx => lay_operationType x (h x hx)

theorem yieldAll_sepV_gen {α} (sep : TokKind) (f : α → Item) (pr : α → Text) (xs : List α) :
    Item.yieldAll (sepV sep f xs) = joinCls [(sep, [])] (xs.map fun x => (pr x, (f x).yield)) := by
  cases xs with
  | nil => rfl
  | cons t ts =>
    simp only [sepV, Item.yieldAll, Item.yield, List.nil_append, List.map_cons, joinCls]
    congr 1
    induction ts with
    | nil => rfl
    | cons u us ih => simp [Item.yieldAll, Item.yield, ih]

theorem facts_unionDef (c : Cfg) (hdesc : c.includeDescriptions = true) (desc : Option StringValue) (hd : okDesc c.indent desc)
    (kwT : Text) (kwC : List TokClass) (hkw : Lay kwT kwC) (hk : kwT ≠ [] ∧ kwT.head? ≠ some 123 ∧ NB kwT)
    (name : Name) (hn : Spec.Lexical.isName name.value = true) (dirs : List Directive) (hdir : okDirectives c.indent dirs)
    (types : List NamedType) (ht : okNamedTypes types) :
    let text := withDesc c (join [kwT, name.value, printDirectives c dirs, printUnionMembers types] [32]) desc
    Lay text (Item.yieldAll (descV desc) ++ (kwC ++ ((nameV name).yield ++ (Item.yieldAll (directivesV dirs) ++
      Item.yieldAll (unionMembersV types))))) ∧ text ≠ [] ∧ text.head? ≠ some 123 := by
  have fct := defFacts_of c hdesc desc hd kwT kwC hkw hk
    [part name.value (nameV name).yield, part (printDirectives c dirs) (Item.yieldAll (directivesV dirs)),
     part (printUnionMembers types) (Item.yieldAll (unionMembersV types))]
    (by intro p hp; simp at hp; rcases hp with rfl | rfl | rfl
        · exact lay_nameLP hn
        · exact lay_directives c dirs hdir
        · exact lay_unionMembers types ht)
  exact ⟨by simpa using fct.1, by simpa using fct.2.1, by simpa using fct.2.2.1⟩

theorem facts_directiveDef (c : Cfg) (hdesc : c.includeDescriptions = true) (hind : Blank c.indent) (desc name args locations loc)
    (h : okTSDefinition c.indent (.directiveDefinition desc name args locations loc)) :
    DefFacts c (.directiveDefinition desc name args locations loc) := by
  obtain ⟨hd, hn, ha, hlne, hl⟩ := h
  obtain ⟨largs, dargs⟩ := lay_argumentDefinitions c hind args ha
  have kD : Spec.Lexical.isName K.directive = true := by decide
  have kO : Spec.Lexical.isName K.on = true := by decide
  have e1 : lit "directive @" = K.directive ++ [32, 64] := by decide
  have e2 : lit " on " = 32 :: (K.on ++ [32]) := by decide
  let ps : List LP := locations.map fun n => (printName n, (nameV n).yield)
  have hps : ∀ p ∈ ps, Lay p.1 p.2 := by
    intro p hp; simp only [ps, List.mem_map] at hp; obtain ⟨n, hn', rfl⟩ := hp
    exact lay_nameLP (hl n hn')
  have hlocne : ∀ x ∈ locations.map printName, x ≠ [] := by
    intro x hx; simp only [List.mem_map] at hx; obtain ⟨n, hn', rfl⟩ := hx; exact isName_ne_nil (hl n hn')
  have ll := lay_joinSep [32, 124, 32] [(.pipe, [])] sep_pipe (fun b => delimHead_cons (by decide)) ps hps
  have ef : ps.map Prod.fst = locations.map printName := by simp [ps, List.map_map, Function.comp_def]
  rw [ef, ← yieldAll_sepV_gen .pipe nameV printName locations] at ll
  have body : Lay (K.directive ++ 32 :: 64 :: (name.value ++ (printArgumentDefinitions c args ++
      32 :: (K.on ++ 32 :: joinSep [32, 124, 32] (locations.map printName)))))
      ((.name, K.directive) :: (.atSign, []) :: ((nameV name).yield ++
        (Item.yieldAll (groupV .parenL .parenR inputValueV (args.map stripIV)) ++
          (.name, K.on) :: Item.yieldAll (sepV .pipe nameV locations)))) := by
    have l1 := lay_space_cons (lay_append (lay_name kO) (lay_space_cons ll) (delimHead_cons (by decide)))
    have l2 := lay_append (lay_nameLP hn) (lay_append largs l1 (delimHead_cons (by decide)))
      (delimHead_append dargs (delimHead_cons (by decide)))
    have l3 := lay_append (lay_name kD) (lay_space_cons (lay_atSign l2)) (delimHead_cons (by decide))
    simpa [List.append_assoc] using l3
  have hbody : join [lit "directive @", name.value, printArgumentDefinitions c args, lit " on ",
      join (locations.map printName) [32, 124, 32]] =
      K.directive ++ 32 :: 64 :: (name.value ++ (printArgumentDefinitions c args ++
      32 :: (K.on ++ 32 :: joinSep [32, 124, 32] (locations.map printName)))) := by
    simp only [join_nosep_cons, join_nosep_nil, e1, e2, join_eq_joinSep _ _ hlocne]
    simp [List.append_assoc]
  obtain ⟨l, h1, h2, _⟩ := lay_withDesc c hdesc desc hd _ _ body (by simp [K.directive]) (by simp [K.directive])
  refine ⟨?_, ?_, ?_, by intro h; simp [openEnd] at h⟩
  · simp only [printDefinition, hbody]
    simpa [definitionV, stripDef, kw, Item.yield, Item.yieldAll, yieldAll_append, List.append_assoc] using l
  · simp only [printDefinition, hbody]; exact h2
  · simp only [printDefinition, hbody]; exact h1

/-- `tsDefFacts`: every type-system definition and extension -/
theorem tsDefFacts (c : Cfg) (hdesc : c.includeDescriptions = true) (hind : Blank c.indent) (d : Definition)
    (h : okTSDefinition c.indent d) : DefFacts c d := by
  have kS : Spec.Lexical.isName K.schema = true := by decide
  have kT : Spec.Lexical.isName K.type_ = true := by decide
  have kI : Spec.Lexical.isName K.interface_ = true := by decide
  have kU : Spec.Lexical.isName K.union = true := by decide
  have kE : Spec.Lexical.isName K.enum_ = true := by decide
  have kN : Spec.Lexical.isName K.input = true := by decide
  cases d with
  | operation d => exact absurd h (by simp [okTSDefinition])
  | fragment d => exact absurd h (by simp [okTSDefinition])
  | scalarTypeDefinition desc name dirs loc => exact facts_scalarDef c hdesc desc name dirs loc h
  | scalarTypeExtension name dirs loc => exact facts_scalarExt c hdesc name dirs loc h
  | schemaDefinition dirs ops loc =>
    obtain ⟨hdir, hne, hops⟩ := h
    obtain ⟨lb, _, _⟩ := lay_blockV c.indent hind printOperationTypeDefinition id operationTypeV ops (memOT ops hops)
    have f := defFacts_of c hdesc none trivial K.schema _ (lay_name kS) (kw_facts kS)
      [part (printDirectives c dirs) (Item.yieldAll (directivesV dirs)),
       part (block (ops.map printOperationTypeDefinition) c.indent) (Item.yieldAll (blockV operationTypeV (ops.map id)))]
      (by intro p hp; simp at hp; rcases hp with rfl | rfl; exact lay_directives c dirs hdir; exact (by simpa using lb))
    have hem : ops.isEmpty = false := by cases ops with | nil => exact absurd rfl hne | cons _ _ => rfl
    exact ⟨by simpa [printDefinition, definitionV, stripDef, withDesc, descV, optV, e_schema, kw, blockV, hem, Item.yield,
        Item.yieldAll, yieldAll_append] using f.1,
      by simpa [printDefinition, withDesc, e_schema] using f.2.1,
      by simpa [printDefinition, withDesc, e_schema] using f.2.2.1, by intro h; simp [openEnd] at h⟩
  | schemaExtension dirs ops loc =>
    obtain ⟨hdir, hops⟩ := h
    obtain ⟨lb, hb0, _⟩ := lay_blockV c.indent hind printOperationTypeDefinition id operationTypeV ops (memOT ops hops)
    obtain ⟨lk, k1, k2, k3⟩ := lay_extendKw kS
    have f := defFacts_of c hdesc none trivial _ _ lk ⟨k1, k2, k3⟩
      [part (printDirectives c dirs) (Item.yieldAll (directivesV dirs)),
       part (block (ops.map printOperationTypeDefinition) c.indent) (Item.yieldAll (blockV operationTypeV (ops.map id)))]
      (by intro p hp; simp at hp; rcases hp with rfl | rfl; exact lay_directives c dirs hdir; exact (by simpa using lb))
    refine ⟨by simpa [printDefinition, definitionV, stripDef, withDesc, descV, optV, e_xschema, kw, Item.yield,
        Item.yieldAll, yieldAll_append] using f.1,
      by simpa [printDefinition, withDesc, e_xschema] using f.2.1,
      by simpa [printDefinition, withDesc, e_xschema] using f.2.2.1, fun he => ?_⟩
    have := f.2.2.2 (by
      intro p hp; simp at hp; rcases hp with rfl | rfl
      · exact nb_printDirectives c dirs hdir
      · exact blockPart_nb hb0 (by simpa [openEnd] using he))
    simpa [printDefinition, withDesc, e_xschema] using this
  | objectTypeDefinition desc name ifs dirs fields loc =>
    obtain ⟨hd, hn, hifs, hdir, hf⟩ := h
    have f := facts_blockDef c hdesc hind desc hd K.type_ _ (lay_name kT) (kw_facts kT) name hn ifs hifs dirs hdir
      (printFieldDefinition c) stripFD fieldDefinitionV fields (memFD c hind fields hf)
    exact ⟨by simpa [printDefinition, definitionV, stripDef, e_type, kw, Item.yield, Item.yieldAll, yieldAll_append] using f.1,
      by simpa [printDefinition, e_type] using f.2.1, by simpa [printDefinition, e_type] using f.2.2.1,
      fun he => by simpa [printDefinition, e_type] using f.2.2.2 (by simpa [openEnd] using he)⟩
  | objectTypeExtension name ifs dirs fields loc =>
    obtain ⟨hn, hifs, hdir, hf⟩ := h
    obtain ⟨lk, k1, k2, k3⟩ := lay_extendKw kT
    have f := facts_blockDef c hdesc hind none trivial _ _ lk ⟨k1, k2, k3⟩ name hn ifs hifs dirs hdir
      (printFieldDefinition c) stripFD fieldDefinitionV fields (memFD c hind fields hf)
    exact ⟨by simpa [printDefinition, definitionV, stripDef, withDesc, descV, optV, e_xtype, kw, Item.yield, Item.yieldAll,
        yieldAll_append] using f.1,
      by simpa [printDefinition, withDesc, e_xtype] using f.2.1, by simpa [printDefinition, withDesc, e_xtype] using f.2.2.1,
      fun he => by simpa [printDefinition, withDesc, e_xtype] using f.2.2.2 (by simpa [openEnd] using he)⟩
  | interfaceTypeDefinition desc name dirs fields loc =>
    obtain ⟨hd, hn, hdir, hf⟩ := h
    have f := facts_blockDef c hdesc hind desc hd K.interface_ _ (lay_name kI) (kw_facts kI) name hn [] (by intro t ht; cases ht)
      dirs hdir (printFieldDefinition c) stripFD fieldDefinitionV fields (memFD c hind fields hf)
    simp only [printImplements_nil, join_skip_nil] at f
    exact ⟨by simpa [printDefinition, definitionV, stripDef, e_interface, kw, implementsV, Item.yield, Item.yieldAll,
        yieldAll_append] using f.1,
      by simpa [printDefinition, e_interface] using f.2.1, by simpa [printDefinition, e_interface] using f.2.2.1,
      fun he => by simpa [printDefinition, e_interface] using f.2.2.2 (by simpa [openEnd] using he)⟩
  | interfaceTypeExtension name dirs fields loc =>
    obtain ⟨hn, hdir, hf⟩ := h
    obtain ⟨lk, k1, k2, k3⟩ := lay_extendKw kI
    have f := facts_blockDef c hdesc hind none trivial _ _ lk ⟨k1, k2, k3⟩ name hn [] (by intro t ht; cases ht) dirs hdir
      (printFieldDefinition c) stripFD fieldDefinitionV fields (memFD c hind fields hf)
    simp only [printImplements_nil, join_skip_nil] at f
    exact ⟨by simpa [printDefinition, definitionV, stripDef, withDesc, descV, optV, e_xinterface, kw, implementsV, Item.yield,
        Item.yieldAll, yieldAll_append] using f.1,
      by simpa [printDefinition, withDesc, e_xinterface] using f.2.1,
      by simpa [printDefinition, withDesc, e_xinterface] using f.2.2.1,
      fun he => by simpa [printDefinition, withDesc, e_xinterface] using f.2.2.2 (by simpa [openEnd] using he)⟩
  | enumTypeDefinition desc name dirs values loc =>
    obtain ⟨hd, hn, hdir, hf⟩ := h
    have f := facts_blockDef c hdesc hind desc hd K.enum_ _ (lay_name kE) (kw_facts kE) name hn [] (by intro t ht; cases ht)
      dirs hdir (printEnumValueDefinition c) stripEV enumValueDefinitionV values (memEV c values hf)
    simp only [printImplements_nil, join_skip_nil] at f
    exact ⟨by simpa [printDefinition, definitionV, stripDef, e_enum, kw, implementsV, Item.yield, Item.yieldAll,
        yieldAll_append] using f.1,
      by simpa [printDefinition, e_enum] using f.2.1, by simpa [printDefinition, e_enum] using f.2.2.1,
      fun he => by simpa [printDefinition, e_enum] using f.2.2.2 (by simpa [openEnd] using he)⟩
  | enumTypeExtension name dirs values loc =>
    obtain ⟨hn, hdir, hf⟩ := h
    obtain ⟨lk, k1, k2, k3⟩ := lay_extendKw kE
    have f := facts_blockDef c hdesc hind none trivial _ _ lk ⟨k1, k2, k3⟩ name hn [] (by intro t ht; cases ht) dirs hdir
      (printEnumValueDefinition c) stripEV enumValueDefinitionV values (memEV c values hf)
    simp only [printImplements_nil, join_skip_nil] at f
    exact ⟨by simpa [printDefinition, definitionV, stripDef, withDesc, descV, optV, e_xenum, kw, implementsV, Item.yield,
        Item.yieldAll, yieldAll_append] using f.1,
      by simpa [printDefinition, withDesc, e_xenum] using f.2.1, by simpa [printDefinition, withDesc, e_xenum] using f.2.2.1,
      fun he => by simpa [printDefinition, withDesc, e_xenum] using f.2.2.2 (by simpa [openEnd] using he)⟩
  | inputObjectTypeDefinition desc name dirs fields loc =>
    obtain ⟨hd, hn, hdir, hf⟩ := h
    have f := facts_blockDef c hdesc hind desc hd K.input _ (lay_name kN) (kw_facts kN) name hn [] (by intro t ht; cases ht)
      dirs hdir (printInputValueDefinition c) stripIV inputValueV fields (memIV c fields hf)
    simp only [printImplements_nil, join_skip_nil] at f
    exact ⟨by simpa [printDefinition, definitionV, stripDef, e_input, kw, implementsV, Item.yield, Item.yieldAll,
        yieldAll_append] using f.1,
      by simpa [printDefinition, e_input] using f.2.1, by simpa [printDefinition, e_input] using f.2.2.1,
      fun he => by simpa [printDefinition, e_input] using f.2.2.2 (by simpa [openEnd] using he)⟩
  | inputObjectTypeExtension name dirs fields loc =>
    obtain ⟨hn, hdir, hf⟩ := h
    obtain ⟨lk, k1, k2, k3⟩ := lay_extendKw kN
    have f := facts_blockDef c hdesc hind none trivial _ _ lk ⟨k1, k2, k3⟩ name hn [] (by intro t ht; cases ht) dirs hdir
      (printInputValueDefinition c) stripIV inputValueV fields (memIV c fields hf)
    simp only [printImplements_nil, join_skip_nil] at f
    exact ⟨by simpa [printDefinition, definitionV, stripDef, withDesc, descV, optV, e_xinput, kw, implementsV, Item.yield,
        Item.yieldAll, yieldAll_append] using f.1,
      by simpa [printDefinition, withDesc, e_xinput] using f.2.1, by simpa [printDefinition, withDesc, e_xinput] using f.2.2.1,
      fun he => by simpa [printDefinition, withDesc, e_xinput] using f.2.2.2 (by simpa [openEnd] using he)⟩
  | unionTypeDefinition desc name dirs types loc =>
    obtain ⟨hd, hn, hdir, ht⟩ := h
    have f := facts_unionDef c hdesc desc hd K.union _ (lay_name kU) (kw_facts kU) name hn dirs hdir types ht
    exact ⟨by simpa [printDefinition, definitionV, stripDef, e_union, kw, Item.yield, Item.yieldAll, yieldAll_append] using f.1,
      by simpa [printDefinition, e_union] using f.2.1, by simpa [printDefinition, e_union] using f.2.2,
      by intro h; simp [openEnd] at h⟩
  | unionTypeExtension name dirs types loc =>
    obtain ⟨hn, hdir, ht⟩ := h
    obtain ⟨lk, k1, k2, k3⟩ := lay_extendKw kU
    have f := facts_unionDef c hdesc none trivial _ _ lk ⟨k1, k2, k3⟩ name hn dirs hdir types ht
    exact ⟨by simpa [printDefinition, definitionV, stripDef, withDesc, descV, optV, e_xunion, kw, Item.yield, Item.yieldAll,
        yieldAll_append] using f.1,
      by simpa [printDefinition, withDesc, e_xunion] using f.2.1, by simpa [printDefinition, withDesc, e_xunion] using f.2.2,
      by intro h; simp [openEnd] at h⟩
  | directiveDefinition desc name args locations loc => exact facts_directiveDef c hdesc hind desc name args locations loc h

end PyGql.PrintTokens

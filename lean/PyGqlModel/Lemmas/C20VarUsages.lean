/-
  C20 — helper lemmas for `nobreaking_variablesInAllowedPosition` (Props/C20_rules_vars.lean): `is_subtype` at input
  positions is the strictness order (`isSubtype_eq_sub`, `sub_trans`, `isSubtype_transport`), the variable usages inside
  a value old and new (`URel`, `usesValue_rel`), defined object fields from ValuesOfCorrectType (`fkValue_of_nodes`), the
  usages of a definition (`defUsages_rel`).
-/
import PyGqlModel.Props.C20_rules_values

set_option linter.unusedSimpArgs false
set_option linter.unusedVariables false
set_option linter.unusedSectionVars false

namespace PyGql.Props.C20
open PyGql PyGql.Differ PyGql.Diff PyGql.Validate PyGql.Validate.Spec

/-! ### `is_subtype` at input positions -/

theorem sub_trans : ∀ (a b c : Ty), sub a b = true → sub b c = true → sub a c = true := by
  intro a
  induction a with
  | named x =>
    intro b c h1 h2
    cases b with
    | named y => have : x = y := by simpa [sub] using h1
                 subst this; exact h2
    | list j => simp [sub] at h1
    | nonNull j => simp [sub] at h1
  | list i ih =>
    intro b c h1 h2
    cases b with
    | list j =>
      cases c with
      | list k => simp only [sub] at h1 h2 ⊢; exact ih j k h1 h2
      | named z => simp [sub] at h2
      | nonNull k => simp [sub] at h2
    | named y => simp [sub] at h1
    | nonNull j => simp [sub] at h1
  | nonNull a ih =>
    intro b c h1 h2
    cases b with
    | nonNull b' =>
      have h1' : sub a b' = true := by simpa [sub] using h1
      cases c with
      | nonNull c' => simp only [sub] at h2 ⊢; exact ih b' c' h1' h2
      | named z => simp only [sub] at h2 ⊢; exact ih b' _ h1' h2
      | list k => simp only [sub] at h2 ⊢; exact ih b' _ h1' h2
    | named y =>
      have h1' : sub a (.named y) = true := by simpa [sub] using h1
      cases c with
      | named z => have : y = z := by simpa [sub] using h2
                   subst this; simpa [sub] using h1'
      | list k => simp [sub] at h2
      | nonNull k => simp [sub] at h2
    | list j =>
      have h1' : sub a (.list j) = true := by simpa [sub] using h1
      cases c with
      | list k => simp only [sub]; exact ih (.list j) (.list k) h1' h2
      | named z => simp [sub] at h2
      | nonNull k => simp [sub] at h2

/-- where the expected type is not abstract (every input type), `Schema.is_subtype` is the strictness order -/
theorem isSubtype_eq_sub (s : SchemaD) : ∀ (t u : Ty), isAbstract s u.base = false → isSubtype s t u = sub t u := by
  intro t
  induction t with
  | named a =>
    intro u hab
    cases u with
    | named b =>
      have hab' : isAbstract s b = false := hab
      rw [isSubtype]
      by_cases e : a = b
      · subst e; simp [sub]
      · have : (Ty.named a == Ty.named b) = false := by simp [e]
        simp [this, sub, e, hab']
    | list b =>
      rw [isSubtype]
      · simp [sub]
      all_goals (intro _ hh; cases hh)
    | nonNull b =>
      rw [isSubtype]
      · simp [sub]
      all_goals (intro _ hh; cases hh)
  | list i ih =>
    intro u hab
    cases u with
    | named b =>
      rw [isSubtype]
      · simp [sub]
      all_goals (intro _ hh; cases hh)
    | list j =>
      rw [isSubtype]
      by_cases e : i = j
      · subst e; simp [sub_refl_in]
      · have : (Ty.list i == Ty.list j) = false := by simp [e]
        simp [this, sub, ih j hab]
    | nonNull b =>
      rw [isSubtype]
      · simp [sub]
      all_goals (intro _ hh; cases hh)
  | nonNull a ih =>
    intro u hab
    cases u with
    | named b =>
      rw [isSubtype]
      · simp [sub, ih (.named b) hab]
      all_goals (intro _ hh; cases hh)
    | list j =>
      rw [isSubtype]
      · simp [sub, ih (.list j) hab]
      all_goals (intro _ hh; cases hh)
    | nonNull b =>
      rw [isSubtype]
      by_cases e : a = b
      · subst e; simp [sub_refl_in]
      · have : (Ty.nonNull a == Ty.nonNull b) = false := by simp [e]
        simp [this, sub, ih b hab]
private theorem notAbstract_of_in {s : SchemaD} {t : Ty} (h : isInputTy s t = true) : isAbstract s t.base = false := by
  unfold isInputTy at h
  unfold isAbstract
  cases hk : kindOf s t.base with
  | none => rfl
  | some k => rw [hk] at h; cases k <;> simp_all

/-- **`is_subtype` transported**: a variable type accepted at the old position is accepted at the new one -/
theorem isSubtype_transport (o n : SchemaD) (h : diffSchema o n 2 = []) (vt it it' : Ty) (hl : TyLoose it it')
    (hi : isInputTy o it = true) (hs : isSubtype o vt it = true) : isSubtype n vt it' = true := by
  rw [isSubtype_eq_sub o vt it (notAbstract_of_in hi)] at hs
  have hi' : isInputTy n it' = true := by
    have hk := kind_of_in hi
    cases hko : kindOf o it.base with
    | none => rw [hko] at hk; simp at hk
    | some k =>
      unfold isInputTy at hi ⊢
      rw [sub_base _ _ hl.1, nobreaking_V_kindOf o n h _ k hko]; rw [hko] at hi; exact hi
  rw [isSubtype_eq_sub n vt it' (notAbstract_of_in hi')]
  exact sub_trans vt it it' hs hl.1

/-! ### usages, old and new -/

/-- the new position is at least as permissive, and a default that made a non-null position optional is kept -/
def URel (o : SchemaD) (u u' : Usage) : Prop :=
  InRel o u.inputType u'.inputType ∧
    (∀ c, u'.inputType = some (.nonNull c) → u.locDefault = true → u'.locDefault = true)

mutual
/-- the fields of the object literals inside a value standing at a position expecting `it` are defined -/
def fkValue (o : SchemaD) : Option Ty → Value → Prop
  | it, .list vs => fkValues o (listItemPos o ⟨it, false⟩).inputType vs
  | it, .obj fs => fkFields o it fs
  | _, _ => True
def fkValues (o : SchemaD) : Option Ty → List Value → Prop
  | _, [] => True
  | it, v :: vs => fkValue o it v ∧ fkValues o it vs
def fkFields (o : SchemaD) : Option Ty → List ObjField → Prop
  | _, [] => True
  | it, .mk nm v :: fs =>
    (((objFieldPos o ⟨it, false⟩ nm).inputType = none → ∀ t, it = some t → isInputObject o t.base = false) ∧
      fkValue o (objFieldPos o ⟨it, false⟩ nm).inputType v) ∧ fkFields o it fs
end

section
variable (o n : SchemaD) (h : diffSchema o n 2 = []) (woi : OldWfIn o)
include h woi

mutual
theorem usesValue_rel : ∀ (val : Value) (u u' : Usage), URel o u u' → fkValue o u.inputType val →
    ∀ x r', (x, r') ∈ usesValue n u' val → ∃ r, (x, r) ∈ usesValue o u val ∧ URel o r r'
  | .var y, u, u', hu, _, x, r', hm => by
    simp only [usesValue, List.mem_singleton, Prod.mk.injEq] at hm
    obtain ⟨rfl, rfl⟩ := hm
    exact ⟨u, by simp [usesValue], hu⟩
  | .list vs, u, u', hu, hfk, x, r', hm => by
    simp only [usesValue] at hm
    have hu2 : URel o (listItemPos o u) (listItemPos n u') :=
      ⟨listItemPos_rel o n h _ _ hu.1, fun c _ hd => by cases hd⟩
    have hfk2 : fkValues o (listItemPos o u).inputType vs := by simp only [fkValue] at hfk; exact hfk
    obtain ⟨r, hr, hrel⟩ := usesValues_rel vs _ _ hu2 hfk2 x r' hm
    exact ⟨r, by simp only [usesValue]; exact hr, hrel⟩
  | .obj fs, u, u', hu, hfk, x, r', hm => by
    simp only [usesValue] at hm
    have hfk2 : fkFields o u.inputType fs := by simpa [fkValue] using hfk
    obtain ⟨r, hr, hrel⟩ := usesObjFields_rel fs u u' hu hfk2 x r' hm
    exact ⟨r, by simp only [usesValue]; exact hr, hrel⟩
  | .int a, u, u', hu, _, x, r', hm => by simp [usesValue] at hm
  | .float a, u, u', hu, _, x, r', hm => by simp [usesValue] at hm
  | .str a, u, u', hu, _, x, r', hm => by simp [usesValue] at hm
  | .bool a, u, u', hu, _, x, r', hm => by simp [usesValue] at hm
  | .null, u, u', hu, _, x, r', hm => by simp [usesValue] at hm
  | .enum a, u, u', hu, _, x, r', hm => by simp [usesValue] at hm
theorem usesValues_rel : ∀ (vs : List Value) (u u' : Usage), URel o u u' → fkValues o u.inputType vs →
    ∀ x r', (x, r') ∈ usesValues n u' vs → ∃ r, (x, r) ∈ usesValues o u vs ∧ URel o r r'
  | [], u, u', hu, _, x, r', hm => by simp [usesValues] at hm
  | v :: vs, u, u', hu, hfk, x, r', hm => by
    simp only [usesValues, List.mem_append] at hm
    have hfk2 : fkValue o u.inputType v ∧ fkValues o u.inputType vs := by simpa [fkValues] using hfk
    rcases hm with hm | hm
    · obtain ⟨r, hr, hrel⟩ := usesValue_rel v u u' hu hfk2.1 x r' hm
      exact ⟨r, by simp only [usesValues, List.mem_append]; exact Or.inl hr, hrel⟩
    · obtain ⟨r, hr, hrel⟩ := usesValues_rel vs u u' hu hfk2.2 x r' hm
      exact ⟨r, by simp only [usesValues, List.mem_append]; exact Or.inr hr, hrel⟩
theorem usesObjFields_rel : ∀ (fs : List ObjField) (u u' : Usage), URel o u u' → fkFields o u.inputType fs →
    ∀ x r', (x, r') ∈ usesObjFields n u' fs → ∃ r, (x, r) ∈ usesObjFields o u fs ∧ URel o r r'
  | [], u, u', hu, _, x, r', hm => by simp [usesObjFields] at hm
  | .mk nm v :: fs, u, u', hu, hfk, x, r', hm => by
    simp only [usesObjFields, List.mem_append] at hm
    have hfk2 : (((objFieldPos o ⟨u.inputType, false⟩ nm).inputType = none →
          ∀ t, u.inputType = some t → isInputObject o t.base = false) ∧
        fkValue o (objFieldPos o ⟨u.inputType, false⟩ nm).inputType v) ∧ fkFields o u.inputType fs := by
      simpa [fkFields] using hfk
    rcases hm with hm | hm
    · have hk : (objFieldPos o u nm).inputType = none → ∀ t, u.inputType = some t → isInputObject o t.base = false :=
        hfk2.1.1
      have hu2 : URel o (objFieldPos o u nm) (objFieldPos n u' nm) := objFieldPos_rel o n h woi u u' nm hu.1 hk
      have hfk3 : fkValue o (objFieldPos o u nm).inputType v := hfk2.1.2
      obtain ⟨r, hr, hrel⟩ := usesValue_rel v _ _ hu2 hfk3 x r' hm
      exact ⟨r, by simp only [usesObjFields, List.mem_append]; exact Or.inl hr, hrel⟩
    · obtain ⟨r, hr, hrel⟩ := usesObjFields_rel fs u u' hu hfk2.2 x r' hm
      exact ⟨r, by simp only [usesObjFields, List.mem_append]; exact Or.inr hr, hrel⟩
end

end

/-! ### the fields of object literals are defined: from ValuesOfCorrectType on the old schema -/

section
variable (o : SchemaD) (fx : Fixes) (hv9 : fx.v9 = true)
include hv9

mutual
theorem fkValue_of_nodes : ∀ (val : Value) (w : IView),
    (∀ p ∈ gnValue (IView.enter o) w val, valueNodeOk o fx p.1 p.2) → fkValue o w.input val
  | .list vs, w, hn => by
    rw [gnValue] at hn
    simp only [fkValue]
    exact fkValues_of_nodes vs (IView.enter o (.value (.list vs)) w) fun p hp => hn p (List.mem_cons_of_mem _ hp)
  | .obj fs, w, hn => by
    rw [gnValue] at hn
    simp only [fkValue]
    exact fkFields_of_nodes fs (IView.enter o (.value (.obj fs)) w) fun p hp => hn p (List.mem_cons_of_mem _ hp)
  | .var a, w, _ => by simp [fkValue]
  | .int a, w, _ => by simp [fkValue]
  | .float a, w, _ => by simp [fkValue]
  | .str a, w, _ => by simp [fkValue]
  | .bool a, w, _ => by simp [fkValue]
  | .null, w, _ => by simp [fkValue]
  | .enum a, w, _ => by simp [fkValue]
theorem fkValues_of_nodes : ∀ (vs : List Value) (w : IView),
    (∀ p ∈ gnValues (IView.enter o) w vs, valueNodeOk o fx p.1 p.2) → fkValues o w.input vs
  | [], w, _ => by simp [fkValues]
  | v :: vs, w, hn => by
    rw [gnValues] at hn
    simp only [fkValues]
    exact ⟨fkValue_of_nodes v w fun p hp => hn p (List.mem_append_left _ hp),
      fkValues_of_nodes vs w fun p hp => hn p (List.mem_append_right _ hp)⟩
theorem fkFields_of_nodes : ∀ (fs : List ObjField) (w : IView),
    (∀ p ∈ gnObjFields (IView.enter o) w fs, valueNodeOk o fx p.1 p.2) → fkFields o w.input fs
  | [], w, _ => by simp [fkFields]
  | .mk nm v :: fs, w, hn => by
    rw [gnObjFields, gnObjField] at hn
    simp only [fkFields]
    refine ⟨⟨?_, ?_⟩, fkFields_of_nodes fs w fun p hp => hn p (List.mem_append_right _ hp)⟩
    · intro hnone t ht
      have h1 := hn (.objField nm, IView.enter o (.objField nm) w) (List.mem_append_left _ List.mem_cons_self)
      have h2 : (IView.enter o (.objField nm) w).input = none →
          (IView.enter o (.objField nm) w).outerObject o fx = none := h1
      have h3 := h2 hnone
      rw [outerObject_v9 o fx hv9] at h3
      have ho : (IView.enter o (.objField nm) w).outer = some t := ht
      rw [ho] at h3
      by_cases hio : isInputObject o t.base = true
      · simp [hio] at h3
      · simpa using hio
    · exact fkValue_of_nodes v (IView.enter o (.objField nm) w)
        fun p hp => hn p (List.mem_append_left _ (List.mem_cons_of_mem _ hp))
end

end

/-! ### the usages of a definition -/

private theorem pairDef_mem {o n : SchemaD} {d : Doc} {df : Def} (hdf : df ∈ d.defs) {p : Node × (IView × IView)}
    (hp : p ∈ gnDef (pdI o n) ({}, {}) df) : p ∈ pairNodesI o n d :=
  List.mem_flatMap.mpr ⟨df, hdf, hp⟩

private theorem pairDef_old (o n : SchemaD) (df : Def) :
    pmap (fun x : IView × IView => x.1.view) (gnDef (pdI o n) ({}, {}) df) = tnDef o df := by
  rw [← gnDef_view]
  exact gnDef_map (fun x : IView × IView => x.1.view) (pdI o n) (View.enter o)
    (fun nd x => IView.enter_view o nd x.1) df ({}, {})

private theorem pairDef_new (o n : SchemaD) (df : Def) :
    pmap (fun x : IView × IView => x.2.view) (gnDef (pdI o n) ({}, {}) df) = tnDef n df := by
  rw [← gnDef_view]
  exact gnDef_map (fun x : IView × IView => x.2.view) (pdI o n) (View.enter n)
    (fun nd x => IView.enter_view n nd x.2) df ({}, {})

/-- **every usage on the new schema is a usage on the old one, at a position at least as strict** -/
theorem defUsages_rel (o n : SchemaD) (h : diffSchema o n 2 = []) (wo : OldWf o) (wn : NewWf n) (woi : OldWfIn o)
    (fx : Fixes) (hv9 : fx.v9 = true) (d : Doc) (hR : OpsRooted o d) (hv : SchemaRules o d)
    (hval : valuesOfCorrectType o fx d) (df : Def) (hdf : df ∈ d.defs) (x : String) (r' : Usage)
    (hm : (x, r') ∈ defUsages n df) : ∃ r, (x, r) ∈ defUsages o df ∧ URel o r r' := by
  have hinv := inputViews_compatible o n h wo wn woi fx hv9 d hR hv hval
  have hok := oldOkI_all o n fx d hv hR hval
  have hkids := gnDoc_kids (pdI o n) d ({}, {})
  unfold defUsages at hm ⊢
  obtain ⟨q, hq, hmq⟩ := List.mem_flatMap.mp hm
  rw [← pairDef_new o n df] at hq
  obtain ⟨p, hp, rfl⟩ := List.mem_map.mp hq
  have hpd := pairDef_mem hdf hp
  obtain ⟨nd, w, w'⟩ := p
  cases nd with
  | argument a =>
    have hmq' : (x, r') ∈ usesValue n (argPos n w'.view a.name) a.value := hmq
    have iv := hinv _ hpd
    have hk : ArgKnown w.view a.name := (hok _ hpd).2.2.1 a rfl
    have hu : URel o (argPos o w.view a.name) (argPos n w'.view a.name) :=
      argPos_rel o n h w.view w'.view a.name iv.view iv.fd hk
    -- the input type of the argument node IS the type of the position (that is how `IView.enter` computed it)
    have hkidsOk : ∀ q ∈ gnValue (pdI o n) (w, w') a.value, valueNodeOk o fx q.1 q.2.1 := by
      intro q hq
      exact hval _ (memI_old (hkids _ hpd a rfl q hq))
    have hproj : pmap Prod.fst (gnValue (pdI o n) (w, w') a.value) = gnValue (IView.enter o) w a.value :=
      gnValue_map Prod.fst (pdI o n) (IView.enter o) (fun _ _ => rfl) a.value (w, w')
    have hfkn : ∀ q ∈ gnValue (IView.enter o) w a.value, valueNodeOk o fx q.1 q.2 := by
      intro q hq
      rw [← hproj] at hq
      obtain ⟨q0, hq0, rfl⟩ := List.mem_map.mp hq
      exact hkidsOk q0 hq0
    have hfk := fkValue_of_nodes o fx hv9 a.value w hfkn
    -- `w.input` is the expected type of the argument: the node was entered from a context with the same view
    obtain ⟨q, hq, hc, _⟩ := gnDoc_argPar (pdI o n) (fun _ => True) (fun _ _ _ _ => trivial) d ({}, {}) trivial
      _ hpd a rfl
    have hwin : w.input = (argPos o w.view a.name).inputType := by
      have h1 : w = IView.enter o (.argument a) q.2.1 := congrArg Prod.fst hc
      have h2 : w.view = q.2.1.view := by rw [h1]; exact IView.enter_view o (.argument a) q.2.1
      rw [h2, h1]; rfl
    rw [hwin] at hfk
    obtain ⟨r, hr, hrel⟩ := usesValue_rel o n h woi a.value _ _ hu hfk x r' hmq'
    refine ⟨r, List.mem_flatMap.mpr ⟨(.argument a, w.view), ?_, hr⟩, hrel⟩
    rw [← pairDef_old o n df]
    exact List.mem_map.mpr ⟨(.argument a, (w, w')), hp, rfl⟩
  | document d => simp [nodeUsages] at hmq
  | tsDef => simp [nodeUsages] at hmq
  | typeNode t => simp [nodeUsages] at hmq
  | spread nm ds => simp [nodeUsages] at hmq
  | selectionSet i sels => simp [nodeUsages] at hmq
  | operation kind name vars dirs sels => simp [nodeUsages] at hmq
  | fragmentDef name on dirs => simp [nodeUsages] at hmq
  | inline on dirs => simp [nodeUsages] at hmq
  | directive dr => simp [nodeUsages] at hmq
  | field name args dirs hs => simp [nodeUsages] at hmq
  | varDef v => simp [nodeUsages] at hmq
  | value v => simp [nodeUsages] at hmq
  | objField nm => simp [nodeUsages] at hmq

end PyGql.Props.C20

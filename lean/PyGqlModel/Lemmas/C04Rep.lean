/-
  C04 — "the same list up to repeated elements": `RepA P xs ys` says that `ys` is `xs` with extra elements inserted,
  each of which already occurred earlier in `ys` or satisfies the ambient predicate `P` (already appeared elsewhere).
  Pure list lemmas used by the refinement proof for documents with named fragment spreads.
-/
set_option linter.unusedVariables false

namespace PyGql.Props.C04

inductive RepA {α : Type} : (α → Prop) → List α → List α → Prop
  | nil {P} : RepA P [] []
  | both {P a xs ys} : RepA (fun x => x = a ∨ P x) xs ys → RepA P (a :: xs) (a :: ys)
  | extra {P a xs ys} : P a → RepA P xs ys → RepA P xs (a :: ys)

/-- no ambient elements: `ys` is `xs` plus repeats of its own earlier elements -/
def Rep {α : Type} (xs ys : List α) : Prop := RepA (fun _ => False) xs ys

variable {α β : Type}

theorem RepA.mono {P Q : α → Prop} {xs ys : List α} (h : RepA P xs ys) (hpq : ∀ x, P x → Q x) : RepA Q xs ys := by
  induction h generalizing Q with
  | nil => exact .nil
  | both _ ih => exact .both (ih (fun x hx => hx.elim Or.inl (fun h => Or.inr (hpq x h))))
  | extra hp _ ih => exact .extra (hpq _ hp) (ih hpq)

theorem RepA.refl (P : α → Prop) (xs : List α) : RepA P xs xs := by
  induction xs generalizing P with
  | nil => exact .nil
  | cons a xs ih => exact .both (ih _)

theorem RepA.prepend {Q : α → Prop} {xs ys : List α} (zs : List α) (hz : ∀ z ∈ zs, Q z) (h : RepA Q xs ys) : RepA Q xs (zs ++ ys) := by
  induction zs with
  | nil => simpa
  | cons z zs ih => exact .extra (hz z (by simp)) (ih (fun w hw => hz w (by simp [hw])))

theorem RepA.append {P : α → Prop} {a1 b1 a2 b2 : List α} (h1 : RepA P a1 b1)
    (h2 : RepA (fun x => x ∈ b1 ∨ P x) a2 b2) : RepA P (a1 ++ a2) (b1 ++ b2) := by
  induction h1 generalizing a2 b2 with
  | nil =>
    refine h2.mono ?_
    intro x hx
    rcases hx with hx | hx
    · simp at hx
    · exact hx
  | @both P a xs ys _ ih =>
    refine .both (ih (h2.mono ?_))
    intro x hx
    rcases hx with hx | hx
    · simp at hx; rcases hx with rfl | hx
      · exact Or.inr (Or.inl rfl)
      · exact Or.inl hx
    · exact Or.inr (Or.inr hx)
  | @extra P a xs ys hp _ ih =>
    refine .extra hp (ih (h2.mono ?_))
    intro x hx
    rcases hx with hx | hx
    · simp at hx; rcases hx with rfl | hx
      · exact Or.inr hp
      · exact Or.inl hx
    · exact Or.inr hx

theorem RepA.left_subset {P : α → Prop} {xs ys : List α} (h : RepA P xs ys) : ∀ x ∈ xs, x ∈ ys := by
  induction h with
  | nil => intro x hx; simp at hx
  | both _ ih =>
    intro x hx
    simp at hx
    rcases hx with rfl | hx
    · simp
    · simp [ih x hx]
  | extra _ _ ih => intro x hx; simp [ih x hx]

theorem RepA.right_subset {P : α → Prop} {xs ys : List α} (h : RepA P xs ys) : ∀ y ∈ ys, y ∈ xs ∨ P y := by
  induction h with
  | nil => intro y hy; simp at hy
  | both _ ih =>
    intro y hy; simp at hy
    rcases hy with rfl | hy
    · simp
    · rcases ih y hy with h | h
      · simp [h]
      · rcases h with rfl | h
        · simp
        · exact Or.inr h
  | extra hp _ ih =>
    intro y hy; simp at hy
    rcases hy with rfl | hy
    · exact Or.inr hp
    · exact ih y hy

/-- elements that already occurred (or are ambient) may be appended on the right -/
theorem RepA.absorb {P : α → Prop} {xs ys : List α} (h : RepA P xs ys) (zs : List α) (hz : ∀ z ∈ zs, z ∈ ys ∨ P z) :
    RepA P xs (ys ++ zs) := by
  have : RepA (fun x => x ∈ ys ∨ P x) ([] : List α) zs := by
    have := RepA.prepend (Q := fun x => x ∈ ys ∨ P x) (xs := []) (ys := []) zs hz .nil
    simpa using this
  simpa using h.append this

theorem RepA.flatMap {P : α → Prop} {xs ys : List α} (f : α → List β) (h : RepA P xs ys) :
    RepA (fun y => ∃ x, P x ∧ y ∈ f x) (xs.flatMap f) (ys.flatMap f) := by
  induction h with
  | nil => exact .nil
  | @both P a xs ys _ ih =>
    simp only [List.flatMap_cons]
    refine RepA.append (RepA.refl _ (f a)) (ih.mono ?_)
    rintro y ⟨x, hx, hy⟩
    rcases hx with rfl | hx
    · exact Or.inl hy
    · exact Or.inr ⟨x, hx, hy⟩
  | @extra P a xs ys hp _ ih =>
    simp only [List.flatMap_cons]
    exact RepA.prepend (f a) (fun z hz => ⟨a, hp, hz⟩) ih

theorem RepA.map {P : α → Prop} {xs ys : List α} (f : α → β) (h : RepA P xs ys) :
    RepA (fun y => ∃ x, P x ∧ f x = y) (xs.map f) (ys.map f) := by
  induction h with
  | nil => exact .nil
  | both _ ih =>
    refine .both (ih.mono ?_)
    rintro y ⟨x, hx, rfl⟩
    rcases hx with rfl | hx
    · exact Or.inl rfl
    · exact Or.inr ⟨x, hx, rfl⟩
  | extra hp _ ih => exact .extra ⟨_, hp, rfl⟩ ih

theorem Rep.head {x : α} {xs ys : List α} (h : Rep (x :: xs) ys) : ∃ ys', ys = x :: ys' := by
  cases h with
  | both _ => exact ⟨_, rfl⟩
  | extra hp _ => exact absurd hp (by simp)

theorem Rep.nil_right {ys : List α} (h : Rep ([] : List α) ys) : ys = [] := by
  cases h with
  | nil => rfl
  | extra hp _ => exact absurd hp (by simp)

theorem Rep.refl (xs : List α) : Rep xs xs := RepA.refl _ xs

theorem Rep.flatMap {xs ys : List α} (f : α → List β) (h : Rep xs ys) : Rep (xs.flatMap f) (ys.flatMap f) :=
  (RepA.flatMap f h).mono (by rintro y ⟨x, hx, _⟩; exact hx)

theorem Rep.map {xs ys : List α} (f : α → β) (h : Rep xs ys) : Rep (xs.map f) (ys.map f) :=
  (RepA.map f h).mono (by rintro y ⟨x, hx, _⟩; exact hx)

theorem Rep.snoc_both {xs ys : List α} (h : Rep xs ys) (a : α) : Rep (xs ++ [a]) (ys ++ [a]) :=
  RepA.append h (RepA.refl _ [a])

theorem Rep.snoc_extra {xs ys : List α} (h : Rep xs ys) (a : α) (ha : a ∈ ys) : Rep xs (ys ++ [a]) :=
  RepA.absorb h [a] (by intro z hz; simp at hz; subst hz; exact Or.inl ha)

end PyGql.Props.C04

/-
  C14 — `Schema.clone` of a closed schema = the COPYING phase followed by an exact healing (`HeapExact.lean`):
  the registry of the clone is the one the copying phase built, the heap is the copied heap up to the addresses inside type
  references (`NVeq`); by-name views of objects (`argV` / `fieldV` / `typeV` / `dirV`) are invariant under `NVeq`.
-/
import PyGqlModel.Lemmas.HeapExact
import PyGqlModel.Lemmas.HeapCloneClosed
import PyGqlModel.Lemmas.HeapFuel
import PyGqlModel.Lemmas.HeapVisibility

set_option linter.unusedSimpArgs false
set_option linter.unusedVariables false

namespace PyGql.Heap.Own
open PyGql.Heap

/-! ### well-formed with every mentioned name registered ⇒ ready for an exact healing -/

theorem healReady_of_wfs {chk : Ref → Bool} {h : Heap} {s : Schema} (w : WFs chk h s) (hc : ∀ r, chk r = true → nameIn s.types r.name) :
    HealReady h s := by
  have harg : ∀ x, argShape chk h x = true → ArgR s.types h x := by
    intro x hx
    obtain ⟨g, hg, hk⟩ := (argShape_iff chk h x).mp hx
    exact ⟨g, hg, hc _ hk⟩
  have hfield : ∀ x, fieldShape chk h x = true → FieldR s.types h x := by
    intro x hx
    obtain ⟨f, hf, hk, hargs⟩ := (fieldShape_iff chk h x).mp hx
    exact ⟨f, hf, hc _ hk, fun y hy => harg y (hargs y hy)⟩
  refine ⟨fun e he _ => ?_, fun e he => ?_⟩
  · obtain ⟨t, ht, hrefs, hmem⟩ := (typeShape_iff chk h e.2).mp (w.types e he)
    refine ⟨t, ht, fun r hr => hc r (List.all_eq_true.mp hrefs r hr), ?_⟩
    simp only [typeMembersOK] at hmem
    cases hk : t.kind <;> simp only [hk] at hmem ⊢
    · exact fun x hx => hfield x (List.all_eq_true.mp hmem x hx)
    · exact fun x hx => hfield x (List.all_eq_true.mp hmem x hx)
    · exact fun x hx => harg x (List.all_eq_true.mp hmem x hx)
  · have hs := w.dirs e he
    simp only [dirShape] at hs
    split at hs
    · rename_i d hd
      exact ⟨d, hd, fun x hx => harg x (List.all_eq_true.mp hs x hx)⟩
    · cases hs

/-! ### the copying phase of `clone()` -/

/-- heap and schema `clone()` hands to `fix_type_references`: every type / directive copied, the registry pointing to the copies -/
def cloneStart (cfg : Cfg) (s : Schema) (h : Heap) : Heap × Schema :=
  ((cloneDirs cfg (cloneTypes cfg h s.types).1 s.dirs).1,
   (replaceCore cfg { types := cloneRegistry cfg s h, dirs := [], query := s.query, mutation := s.mutation, subscription := s.subscription, dres := none }
      (cloneTypes cfg h s.types).2 (cloneDirs cfg (cloneTypes cfg h s.types).1 s.dirs).2).1)

theorem cloneTypes_some (cfg : Cfg) : ∀ (l : List (String × Addr)) (h : Heap), ∀ x, x ∈ (cloneTypes cfg h l).2 → x.2 ≠ none := by
  intro l
  induction l with
  | nil => intro h x hx; simp [cloneTypes] at hx
  | cons e rest ih =>
    intro h x hx
    obtain ⟨n, a⟩ := e
    simp only [cloneTypes] at hx
    split at hx
    · exact ih h x hx
    · split at hx
      · simp only [List.mem_cons] at hx
        rcases hx with rfl | hx
        · simp
        · exact ih _ x hx
      · exact ih h x hx

/-- … is ready for an exact healing when the source is closed -/
theorem cloneStart_ready (cfg : Cfg) (hd : cfg.deepClone = true) (hk : cfg.keepAllTypes = true) (s : Schema) (h : Heap)
    (hcl : closedB h s = true) (w : WFs (refOK s.types) h s) : HealReady (cloneStart cfg s h).1 (cloneStart cfg s h).2 := by
  have ws := clone_start_wfs_gen (fun r => (lookup s.types r.name).isSome) cfg hd s h hcl w
    (fun r hr => by simp only [refOK_lookup hr, Option.isSome_some])
  apply healReady_of_wfs ws
  intro r hr
  simp only [nameIn, cloneStart, replaceCore]
  apply lookup_isSome_of_name
  apply replaceTypes_names cfg _ _ _ (cloneTypes_some cfg s.types h)
  obtain ⟨a, ha⟩ := Option.isSome_iff_exists.mp hr
  exact lookup_isSome_name (cloneRegistry_lookup cfg hk s h hcl w.nodup r.name a ha)

/-- `clone()` = copying phase + an exact healing: the registries are those of the copying phase, the heap is the copied heap
    up to the addresses inside type references -/
theorem clone_exact (cfg : Cfg) (fuel : Nat) (s : Schema) (h h' : Heap) (s' : Schema)
    (hr : HealReady (cloneStart cfg s h).1 (cloneStart cfg s h).2) (e : clone cfg fuel s h = some (h', s')) :
    s'.types = (cloneStart cfg s h).2.types ∧ s'.dirs = (cloneStart cfg s h).2.dirs ∧ NVeq (cloneStart cfg s h).1 h' := by
  simp only [clone] at e
  split at e
  · cases e
  · rename_i h1 s1 hrep
    simp only [Option.some.injEq, Prod.mk.injEq] at e
    obtain ⟨rfl, rfl⟩ := e
    simp only [replaceTD] at hrep
    split at hrep
    · cases fuel with
      | zero => simp [healLoop] at hrep
      | succ f =>
        obtain ⟨h2, e2, n2⟩ := healLoop_exact cfg f (cloneStart cfg s h).2 (cloneStart cfg s h).1 hr
        simp only [cloneStart] at e2
        rw [e2] at hrep
        simp only [Option.some.injEq, Prod.mk.injEq] at hrep
        obtain ⟨rfl, rfl⟩ := hrep
        exact ⟨rfl, rfl, n2⟩
    · simp only [Option.some.injEq, Prod.mk.injEq] at hrep
      obtain ⟨rfl, rfl⟩ := hrep
      exact ⟨rfl, rfl, NVeq.refl _⟩

/-! ### by-name views -/

/-- an argument / input field without addresses: name, type BY NAME, python name, default, description -/
def argV (h : Heap) (a : Addr) : Option ArgO := (h.readArg a).map fun g => { g with ty := eraseT g.ty }

/-- a field without addresses + the views of its arguments, in order -/
def fieldV (h : Heap) (a : Addr) : Option (FieldO × List (Option ArgO)) :=
  (h.readField a).map fun f => ({ f with ty := eraseT f.ty, args := [] }, f.args.map (argV h))

/-- a type without addresses (interfaces / members by name) + the views of its members (fields, or input fields), in order -/
def typeV (h : Heap) (a : Addr) : Option (TypeO × List (Option (FieldO × List (Option ArgO))) × List (Option ArgO)) :=
  (h.readType a).map fun t => ({ t with fields := [], ifaces := eraseRefs t.ifaces, members := eraseRefs t.members },
    (match t.kind with | .object | .interface => t.fields.map (fieldV h) | _ => []),
    (match t.kind with | .input => t.fields.map (argV h) | _ => []))

def dirV (h : Heap) (a : Addr) : Option (DirO × List (Option ArgO)) := (h.readDir a).map fun d => ({ d with args := [] }, d.args.map (argV h))

def argOfE : Obj → Option ArgO | .arg g => some g | _ => none

theorem argV_erased (h : Heap) (a : Addr) : argV h a = ((h.read a).map eraseR).bind argOfE := by
  simp only [argV, Heap.readArg]
  cases h.read a with
  | none => rfl
  | some o => cases o <;> rfl

theorem argV_nveq {h h' : Heap} (n : NVeq h h') (a : Addr) : argV h' a = argV h a := by
  rw [argV_erased, argV_erased, n a]

def fieldOfE (av : Addr → Option ArgO) : Obj → Option (FieldO × List (Option ArgO))
  | .field f => some ({ f with args := [] }, f.args.map av)
  | _ => none

theorem fieldV_erased (h : Heap) (a : Addr) : fieldV h a = ((h.read a).map eraseR).bind (fieldOfE (argV h)) := by
  simp only [fieldV, Heap.readField]
  cases h.read a with
  | none => rfl
  | some o => cases o <;> rfl

theorem fieldV_nveq {h h' : Heap} (n : NVeq h h') (a : Addr) : fieldV h' a = fieldV h a := by
  rw [fieldV_erased, fieldV_erased, n a, funext (argV_nveq n)]

def typeOfE (fv : Addr → Option (FieldO × List (Option ArgO))) (av : Addr → Option ArgO) :
    Obj → Option (TypeO × List (Option (FieldO × List (Option ArgO))) × List (Option ArgO))
  | .type t => some ({ t with fields := [] }, (match t.kind with | .object | .interface => t.fields.map fv | _ => []),
                     (match t.kind with | .input => t.fields.map av | _ => []))
  | _ => none

theorem typeV_erased (h : Heap) (a : Addr) : typeV h a = ((h.read a).map eraseR).bind (typeOfE (fieldV h) (argV h)) := by
  simp only [typeV, Heap.readType]
  cases h.read a with
  | none => rfl
  | some o => cases o <;> rfl

theorem typeV_nveq {h h' : Heap} (n : NVeq h h') (a : Addr) : typeV h' a = typeV h a := by
  rw [typeV_erased, typeV_erased, n a, funext (argV_nveq n), funext (fieldV_nveq n)]

def dirOfE (av : Addr → Option ArgO) : Obj → Option (DirO × List (Option ArgO))
  | .dir d => some ({ d with args := [] }, d.args.map av)
  | _ => none

theorem dirV_erased (h : Heap) (a : Addr) : dirV h a = ((h.read a).map eraseR).bind (dirOfE (argV h)) := by
  simp only [dirV, Heap.readDir]
  cases h.read a with
  | none => rfl
  | some o => cases o <;> rfl

theorem dirV_nveq {h h' : Heap} (n : NVeq h h') (a : Addr) : dirV h' a = dirV h a := by
  rw [dirV_erased, dirV_erased, n a, funext (argV_nveq n)]

end PyGql.Heap.Own

/-
  Soundness of each `_read_*` of the lexer model against the lexical specification:
  what is consumed is a complete lexeme of the token's kind, with the token's value, and what follows obeys
  the look-ahead restrictions.
-/
import PyGqlModel.Lex
import PyGqlModel.Spec.Lexical
import PyGqlModel.Lemmas.LexChars

namespace PyGql.Lex
open PyGql.Spec.Lexical

/-! ### list helpers -/

theorem startsWith_dropWhile (p : Nat → Bool) (l : Text) : startsWith p (l.dropWhile p) = false := by
  induction l with
  | nil => rfl
  | cons c t ih =>
    rw [List.dropWhile_cons]
    split
    · exact ih
    · rename_i h; simpa [startsWith] using h

theorem mem_takeWhile_imp {p : Nat → Bool} {l : Text} {x : Nat} (hx : x ∈ l.takeWhile p) : p x = true := by
  induction l with
  | nil => simp at hx
  | cons a t ih =>
    rw [List.takeWhile_cons] at hx
    split at hx
    · rcases List.mem_cons.mp hx with rfl | h
      · assumption
      · exact ih h
    · simp at hx

theorem take_length_sub (a b : Text) : (a ++ b).take ((a ++ b).length - b.length) = a := by
  simp

/-! ### `_read_over_whitespace` -/

theorem readOverWhitespace_sound (b : Bool) (s : Text) :
    ∃ ign, s = ign ++ readOverWhitespace b s ∧
      (b = false → IgnRun (readOverWhitespace b s) ign) ∧
      (b = true → ∃ body t, ign = body ++ t ∧ (∀ x ∈ body, Spec.Lexical.isCommentChar x = true) ∧
          startsWith Spec.Lexical.isCommentChar (t ++ readOverWhitespace b s) = false ∧
          IgnRun (readOverWhitespace b s) t) := by
  induction s generalizing b with
  | nil =>
    refine ⟨[], by simp [readOverWhitespace], fun _ => ?_, fun _ => ⟨[], [], rfl, by simp, ?_, ?_⟩⟩
    · simp only [readOverWhitespace]; exact .nil
    · simp [readOverWhitespace, startsWith]
    · simp only [readOverWhitespace]; exact .nil
  | cons c t ih =>
    unfold readOverWhitespace
    by_cases h1 : (b && Lex.isCommentChar c) = true
    · simp only [h1, ↓reduceIte]
      have hb : b = true := by cases b <;> simp_all
      have hc : Spec.Lexical.isCommentChar c = true := by
        rw [← isCommentChar_spec]; cases b <;> simp_all
      obtain ⟨ign, hs, _, h2⟩ := ih true
      obtain ⟨body, t', hi, hbody, hst, hrun⟩ := h2 rfl
      refine ⟨c :: ign, by rw [List.cons_append, ← hs], fun h => by simp [hb] at h, fun _ => ?_⟩
      refine ⟨c :: body, t', by simp [hi], ?_, hst, hrun⟩
      intro x hx
      rcases List.mem_cons.mp hx with rfl | hx
      · exact hc
      · exact hbody x hx
    · simp only [h1, Bool.false_eq_true, ↓reduceIte]
      by_cases h2 : Lex.isIgnored c = true
      · simp only [h2, ↓reduceIte]
        obtain ⟨ign, hs, hrun, _⟩ := ih false
        have hic : isIgnoredChar c = true := by rw [← isIgnored_spec]; exact h2
        refine ⟨c :: ign, by rw [List.cons_append, ← hs], fun _ => .char c ign hic (hrun rfl), fun hb => ?_⟩
        refine ⟨[], c :: ign, rfl, by simp, ?_, .char c ign hic (hrun rfl)⟩
        have : Spec.Lexical.isCommentChar c = false := by
          rw [← isCommentChar_spec]; subst hb; simpa using h1
        simp [startsWith, this]
      · simp only [h2, Bool.false_eq_true, ↓reduceIte]
        by_cases h3 : c = 35
        · simp only [h3, ↓reduceIte]
          have hb : b = false := by
            cases b
            · rfl
            · subst h3
              have h35 : Lex.isCommentChar 35 = true := by decide
              simp [h35] at h1
          obtain ⟨ign, hs, _, hc⟩ := ih true
          obtain ⟨body, t', hi, hbody, hst, hrun⟩ := hc rfl
          refine ⟨35 :: ign, by rw [List.cons_append, ← hs], fun _ => ?_, fun h => by simp [hb] at h⟩
          rw [hi]
          exact .comment body t' hbody hst hrun
        · simp only [h3, ↓reduceIte]
          refine ⟨[], rfl, fun _ => .nil, fun hb => ⟨[], [], rfl, by simp, ?_, .nil⟩⟩
          have : Spec.Lexical.isCommentChar c = false := by
            rw [← isCommentChar_spec]; subst hb; simpa using h1
          simp [startsWith, this]

/-- what `_read_over_whitespace` stops at is neither an ignored character nor a comment start -/
theorem readOverWhitespace_head (b : Bool) (s : Text) (c : Nat) (t : Text)
    (h : readOverWhitespace b s = c :: t) : Lex.isIgnored c = false ∧ c ≠ 35 := by
  induction s generalizing b with
  | nil => simp [readOverWhitespace] at h
  | cons d u ih =>
    unfold readOverWhitespace at h
    split at h
    · exact ih _ h
    · split at h
      · exact ih _ h
      · split at h
        · exact ih _ h
        · rename_i h1 h2 h3
          simp only [List.cons.injEq] at h
          obtain ⟨rfl, rfl⟩ := h
          exact ⟨by simpa using h2, h3⟩

/-! ### `_read_ellipsis` -/

theorem readDots_sound (n k : Nat) (s r : Text) (h : readDots n k s = .ok r) :
    s = List.replicate k 46 ++ r := by
  induction k generalizing s with
  | zero => simp only [readDots, Except.ok.injEq] at h; simp [h]
  | succ k ih =>
    cases s with
    | nil => simp [readDots] at h
    | cons c t =>
      simp only [readDots] at h
      split at h
      · rename_i hc; subst hc
        rw [ih t h]; simp [List.replicate_succ]
      · cases h

/-! ### `_read_name` -/

theorem readName_sound (n : Nat) (c : Nat) (t : Text) (hc : Lex.isNameStart c = true) :
    let r := readName n (c :: t)
    ∃ lex, c :: t = lex ++ r.2 ∧ lex ≠ [] ∧ isName lex = true ∧ r.1.value = lex ∧ r.1.kind = .name ∧
      startsWith isNameCont r.2 = false ∧ r.1.start = n - (lex ++ r.2).length ∧ r.1.stop = n - r.2.length := by
  have hfun : Lex.isNameChar = isNameCont := funext isNameChar_spec
  have hcc : Lex.isNameChar c = true := by simp [Lex.isNameChar, Lex.isNameStart] at hc ⊢; exact Or.inl hc
  refine ⟨(c :: t).takeWhile Lex.isNameChar, ?_, ?_, ?_, rfl, rfl, ?_, ?_, rfl⟩
  · simp [readName, List.takeWhile_append_dropWhile]
  · simp [List.takeWhile_cons, hcc]
  · simp only [List.takeWhile_cons, hcc, ↓reduceIte, isName]
    rw [← isNameStart_spec, hc, Bool.true_and, List.all_eq_true]
    intro x hx
    rw [← isNameChar_spec]
    exact mem_takeWhile_imp hx
  · simp only [readName]; rw [← hfun]; exact startsWith_dropWhile _ _
  · simp [readName, posAt, List.takeWhile_append_dropWhile]

end PyGql.Lex

/-
  C12 text level — LAYER (ii): `print_description` of a description that satisfies `descTextOK`.
-/
import PyGqlModel.Lemmas.SdlTextDescLay
import PyGqlModel.Lemmas.SdlTextMembers
namespace PyGql.SdlText
open PyGql PyGql.Ast PyGql.Sdl PyGql.Spec PyGql.PrintLex PyGql.PrintTokens PyGql.PrintString PyGql.BlockString PyGql.Lex PyGql.SdlPrint

theorem joinSep_lf (ls : List Text) : SdlPrintT.joinSep [10] ls = joinLF ls := by
  induction ls with
  | nil => rfl
  | cons l ls ih =>
    cases ls with
    | nil => rfl
    | cons m ms => rw [joinLF_cons_cons, ← ih]; simp [SdlPrintT.joinSep]

theorem descLines_succ (indent : Text) (lead : Bool) (i : Nat) (ls : List Text) :
    SdlPrintT.descLines indent lead (i + 1) ls = ls.map (fun l => indent ++ escapeTripleQuotes l) := by
  induction ls generalizing i with
  | nil => rfl
  | cons l ls ih => simp [SdlPrintT.descLines, ih]

theorem escape_isLine {l : Text} (h : IsLine l) : IsLine (escapeTQAux 0 l) := by
  intro c hc
  have key : ∀ (l : Text) (k : Nat), (∀ x ∈ l, x ≠ 10 ∧ x ≠ 13) → ∀ c ∈ escapeTQAux k l, c ≠ 10 ∧ c ≠ 13 := by
    intro l
    induction l with
    | nil => intro k _ c hc; cases k <;> simp [escapeTQAux] at hc
    | cons a t ih =>
      intro k hl c hc
      have ha := hl a (by simp)
      have ht : ∀ x ∈ t, x ≠ 10 ∧ x ≠ 13 := fun x hx => hl x (by simp [hx])
      cases k with
      | succ k' =>
        simp only [escapeTQAux, List.mem_cons] at hc
        rcases hc with rfl | hc
        · exact ha
        · exact ih k' ht c hc
      | zero =>
        simp only [escapeTQAux] at hc
        split at hc
        · simp only [List.mem_cons] at hc
          rcases hc with rfl | rfl | hc
          · decide
          · exact ha
          · exact ih 2 ht c hc
        · simp only [List.mem_cons] at hc
          rcases hc with rfl | hc
          · exact ha
          · exact ih 0 ht c hc
  exact key l 0 h c hc

/-- the text between the quotes, in the two multi-line layouts -/
theorem descBody_multi (indent l : Text) (ls : List Text) (hlines : ∀ x ∈ l :: ls, IsLine x)
    (hone : ((l :: ls).length == 1 && l.length < 70 && !(l.getLast? == some 34)) = false) :
    SdlPrintT.descBody indent (l :: ls) =
      (if l.length > (SdlPrintT.lstrip l).length then replaceLF indent (escapeTQAux 0 (joinLF (l :: ls)))
       else 10 :: (indent ++ replaceLF indent (escapeTQAux 0 (joinLF (l :: ls))))) ++ 10 :: indent := by
  have hesc : ∀ x ∈ (l :: ls).map (escapeTQAux 0), IsLine x := by
    intro x hx; simp only [List.mem_map] at hx; obtain ⟨y, hy, rfl⟩ := hx; exact escape_isLine (hlines y hy)
  have hj : indent ++ replaceLF indent (escapeTQAux 0 (joinLF (l :: ls))) =
      joinLF ((l :: ls).map fun x => indent ++ escapeTripleQuotes x) := by
    rw [escape_joinLF]
    have := indent_joinLF indent (escapeTQAux 0 l) (ls.map (escapeTQAux 0)) (by simpa using hesc)
    simpa [List.map_map, Function.comp_def, escapeTripleQuotes] using this
  unfold SdlPrintT.descBody
  simp only [List.headD_cons, hone, Bool.false_eq_true, ↓reduceIte]
  by_cases hlead : l.length > (SdlPrintT.lstrip l).length
  · have hd : decide (l.length > (SdlPrintT.lstrip l).length) = true := by simpa using hlead
    simp only [hd, hlead, ↓reduceIte, SdlPrintT.descLines, descLines_succ, joinSep_lf]
    have : replaceLF indent (escapeTQAux 0 (joinLF (l :: ls))) =
        joinLF (escapeTripleQuotes l :: ls.map fun x => indent ++ escapeTripleQuotes x) := by
      rw [escape_joinLF]
      cases ls with
      | nil => simp [joinLF, escapeTripleQuotes, replaceLF_noLF indent _ (isLine_noLF (escape_isLine (hlines l (by simp))))]
      | cons m ms =>
        simp only [List.map_cons]
        rw [joinLF_cons_cons, replaceLF_append, replaceLF_noLF indent _ (isLine_noLF (escape_isLine (hlines l (by simp))))]
        simp only [replaceLF, ↓reduceIte]
        have := indent_joinLF indent (escapeTQAux 0 m) (ms.map (escapeTQAux 0)) (by
          intro x hx; apply hesc; simp at hx ⊢; right; exact hx)
        rw [this, joinLF_cons_cons]
        simp [List.map_map, Function.comp_def, escapeTripleQuotes]
    simp [this]
    intro a b c; exfalso; revert hone; simp [a, c]; exact of_decide_eq_true b
  · have hd : decide (l.length > (SdlPrintT.lstrip l).length) = false := by simpa using hlead
    simp only [hd, hlead, ↓reduceIte, SdlPrintT.descLines, descLines_succ, joinSep_lf]
    rw [hj]
    cases ls with
    | nil =>
      simp [joinLF]
      intro b c; exfalso; revert hone; simp [c]; exact of_decide_eq_true b
    | cons m ms => simp only [List.map_cons]; rw [joinLF_cons_cons, joinLF_cons_cons]; simp


/-- the quoted description, all three layouts, under every enclosing indentation -/
theorem lay_descQuoted (indent l : Text) (ls : List Text) (hind : Blank indent)
    (hlines : ∀ x ∈ l :: ls, IsLine x) (hchars : ∀ c ∈ joinLF (l :: ls), blockChar c = true)
    (hfirst : onlyWhiteSpace l = false) (hlast : onlyWhiteSpace ((l :: ls).getLast (by simp)) = false)
    (hshape : if ((l :: ls).length == 1 && l.length < 70 && !(l.getLast? == some 34)) = true then l.getLast? ≠ some 92
      else if l.length > (SdlPrintT.lstrip l).length then (ls = [] ∨ ls.foldl indentStep none = some 0)
      else (l :: ls).foldl indentStep none = some 0) :
    Lay (tq ++ (SdlPrintT.descBody indent (l :: ls) ++ tq)) [(.blockString, joinLF (l :: ls))] := by
  intro P hP r cs' hr hl
  by_cases hone : ((l :: ls).length == 1 && l.length < 70 && !(l.getLast? == some 34)) = true
  · -- one line
    rw [if_pos hone] at hshape
    have hls : ls = [] := by
      simp only [Bool.and_eq_true, beq_iff_eq] at hone
      have := hone.1.1
      cases ls with | nil => rfl | cons _ _ => simp at this
    subst hls
    have h34 : l.getLast? ≠ some 34 := by
      simp only [Bool.and_eq_true, Bool.not_eq_true', beq_eq_false_iff_ne] at hone; exact hone.2
    have hbody : SdlPrintT.descBody indent [l] = escapeTQAux 0 l := by
      have h70 : l.length < 70 := by
        simp only [Bool.and_eq_true, decide_eq_true_eq] at hone; exact hone.1.2
      simp [SdlPrintT.descBody, h70, h34, escapeTripleQuotes]
    have hl' := hlines l (by simp)
    have hnoLF := escape_noLF l 0 (isLine_noLF hl')
    have e : replaceLF P (tq ++ (SdlPrintT.descBody indent [l] ++ tq)) ++ r = tq ++ (escapeTQAux 0 l ++ (tq ++ r)) := by
      rw [hbody]
      simp [tq, replaceLF_append, replaceLF_noLF P _ hnoLF, replaceLF]
    rw [e]
    simpa [joinLF] using lexesTo_oneline_core l r cs' hl' (by simpa [joinLF] using hchars) hfirst h34 hshape hl
  · have hone' : ((l :: ls).length == 1 && l.length < 70 && !(l.getLast? == some 34)) = false := by simpa using hone
    rw [if_neg hone] at hshape
    have hQ : Blank (P ++ indent) := blank_append hP hind
    rw [descBody_multi indent l ls hlines hone']
    by_cases hlead : l.length > (SdlPrintT.lstrip l).length
    · rw [if_pos hlead] at hshape
      simp only [hlead, ↓reduceIte]
      have e : replaceLF P (tq ++ (replaceLF indent (escapeTQAux 0 (joinLF (l :: ls))) ++ 10 :: indent ++ tq)) ++ r =
          tq ++ (escapeTQAux 0 (replaceLF (P ++ indent) (joinLF (l :: ls))) ++ 10 :: ((P ++ indent) ++ (tq ++ r))) := by
        simp only [replaceLF_append, replaceLF, ↓reduceIte, replaceLF_noLF P indent (blank_noLF hind),
          replaceLF_replaceLF P indent _ hind, escape_replaceLF (P ++ indent) hQ _ 0 (Nat.zero_le _)]
        simp [tq, replaceLF]
      rw [e]
      exact lexesTo_layout_lead_core (P ++ indent) (P ++ indent) l ls r cs' hQ hQ hlines hchars hfirst hlast hshape hl
    · rw [if_neg hlead] at hshape
      simp only [hlead, ↓reduceIte]
      have e : replaceLF P (tq ++ (10 :: (indent ++ replaceLF indent (escapeTQAux 0 (joinLF (l :: ls)))) ++ 10 :: indent ++ tq)) ++ r =
          tq ++ 10 :: ((P ++ indent) ++ (escapeTQAux 0 (replaceLF (P ++ indent) (joinLF (l :: ls))) ++
            10 :: ((P ++ indent) ++ (tq ++ r)))) := by
        simp only [replaceLF_append, replaceLF, ↓reduceIte, replaceLF_noLF P indent (blank_noLF hind),
          replaceLF_replaceLF P indent _ hind, escape_replaceLF (P ++ indent) hQ _ 0 (Nat.zero_le _), List.cons_append]
        simp [tq, replaceLF]
      rw [e]
      exact lexesTo_layout_core (P ++ indent) (P ++ indent) l ls r cs' hQ hQ hlines hchars hfirst hlast hshape hl


theorem getLastD_eq_getLast (l : Text) (ls : List Text) : (l :: ls).getLastD [] = (l :: ls).getLast (by simp) := by
  induction ls generalizing l with
  | nil => rfl
  | cons m ms ih => simpa [List.getLastD, List.getLast_cons] using ih m

/-! ### the quoted form (fixes D1, D3) is not taken under `descTextOK` -/

theorem needsQuoted_single (l : Text) : SdlPrintT.needsQuoted [l] = false := by
  simp [SdlPrintT.needsQuoted]

theorem needsQuoted_notLead (l : Text) (ls : List Text) (h : ¬ l.length > (SdlPrintT.lstrip l).length) :
    SdlPrintT.needsQuoted (l :: ls) = false := by
  have : SdlPrintT.startsWs l = false := by
    cases l with
    | nil => rfl
    | cons c t =>
      cases hc : SdlPrintT.startsWs (c :: t) with
      | false => rfl
      | true =>
        exfalso; apply h
        have hw : SdlPrintT.isWs c = true := by
          simp only [SdlPrintT.startsWs, Bool.or_eq_true, beq_iff_eq] at hc
          rcases hc with rfl | rfl <;> decide
        have : (SdlPrintT.lstrip (c :: t)).length ≤ t.length := by
          simp only [SdlPrintT.lstrip, List.dropWhile_cons, hw, if_true]
          exact (List.dropWhile_sublist _).length_le
        simp only [List.length_cons]; omega
  simp [SdlPrintT.needsQuoted, this]

theorem needsQuoted_minZero (l : Text) (ls : List Text) (h : minIndentZero ls = true) :
    SdlPrintT.needsQuoted (l :: ls) = false := by
  simp only [minIndentZero, List.any_eq_true, List.mem_filter, Bool.not_eq_true', beq_iff_eq] at h
  obtain ⟨m, ⟨hm, hnb⟩, hz⟩ := h
  have hb : SdlPrintT.isBlankLine m = false := by
    have e : (fun c : Nat => c == 32 || c == 9) = Spec.isWhiteSpace := by
      funext c; simp [Spec.isWhiteSpace, Bool.or_comm]
    rw [← hnb]; simp [SdlPrintT.isBlankLine, lineBlank, e]
  have hs : SdlPrintT.startsWs m = false := by
    cases m with
    | nil => rfl
    | cons c t =>
      cases hc : SdlPrintT.startsWs (c :: t) with
      | false => rfl
      | true =>
        exfalso
        have hw : Spec.isWhiteSpace c = true := by
          simp only [SdlPrintT.startsWs, Bool.or_eq_true, beq_iff_eq] at hc
          rcases hc with rfl | rfl <;> decide
        simp [lineIndent, List.takeWhile_cons, hw] at hz
  have : ((ls.filter (fun l => !SdlPrintT.isBlankLine l)).all SdlPrintT.startsWs) = false := by
    rw [List.all_eq_false]
    exact ⟨m, List.mem_filter.2 ⟨hm, by simp [hb]⟩, by simp [hs]⟩
  simp [SdlPrintT.needsQuoted, this]

/-- LAYER (ii): a description that satisfies `descTextOK` at its depth is printed as one BlockString token with the
    description as value (`descToDoc` keeps it; the tree has it as a block string) -/
theorem descPart_of_ok (o : SdlPrintT.OptsT) (hind : Blank o.indent) (hdesc : o.descriptions = true) (d : Option String)
    (depth : Nat) (first : Bool) (h : descOKT (depth * o.indent.length) d = true) :
    DescPart (SdlPrintT.printDescription o d depth first) (Item.yieldAll (descV (descOf (descToDoc d)))) := by
  cases d with
  | none => exact Or.inl ⟨rfl, rfl⟩
  | some x =>
    by_cases hx0 : x.isEmpty = true
    · refine Or.inl ⟨by simp [SdlPrintT.printDescription, hx0], ?_⟩
      simp [descToDoc, hx0, descOf, descV, optV, Item.yieldAll]
    have h : descTextOK (depth * o.indent.length) x = true := by
      simp only [descOKT, Bool.or_eq_true] at h
      rcases h with h | h
      · exact absurd h hx0
      · exact h
    simp only [descTextOK, Bool.and_eq_true, Bool.not_eq_true', List.all_eq_true] at h
    obtain ⟨⟨⟨⟨⟨⟨hxne, htne⟩, hch⟩, hw⟩, hfb⟩, hlb⟩, hshape⟩ := h
    have hind' := blank_repeatText o.indent hind depth
    have hlen := length_repeatText o.indent depth
    -- the lines
    cases hsp : SdlPrintT.splitLF (T x) with
    | nil => exact absurd hsp (splitLF_ne_nil _)
    | cons l ls =>
      rw [hsp] at hw hfb hlb hshape
      have ht : T x = joinLF (l :: ls) := by rw [← hsp, joinLF_splitLF]
      have hlines : ∀ y ∈ l :: ls, IsLine y := by
        intro y hy c hc
        rw [← hsp] at hy
        refine ⟨splitLF_noLF _ y hy c hc, ?_⟩
        have := hch c (splitLF_mem _ y hy c hc)
        intro e; subst e; simp at this
      have hchars : ∀ c ∈ joinLF (l :: ls), blockChar c = true := by
        intro c hc
        rw [← ht] at hc
        have := hch c hc
        simp only [Bool.or_eq_true, decide_eq_true_eq, beq_iff_eq] at this
        simp only [blockChar, isPrintable, Bool.or_eq_true, decide_eq_true_eq, beq_iff_eq]
        rcases this with (h | h) | h
        · exact Or.inl (Or.inl (Or.inl h))
        · exact Or.inl (Or.inl (Or.inr h))
        · exact Or.inl (Or.inr h)
      have hwrap : SdlPrintT.wrappedLines (l :: ls) (120 - (SdlPrintT.repeatText o.indent depth).length) = l :: ls := by
        apply wrappedLines_id
        intro y hy
        rw [hlen]
        have := hw y hy
        simpa using this
      have hfirst : onlyWhiteSpace l = false := by simpa [lineBlank, onlyWhiteSpace] using hfb
      have hlast : onlyWhiteSpace ((l :: ls).getLast (by simp)) = false := by
        rw [← getLastD_eq_getLast]; simpa [lineBlank, onlyWhiteSpace] using hlb
      have hshq : (if ((l :: ls).length == 1 && l.length < 70 && !(l.getLast? == some 34)) = true then l.getLast? ≠ some 92
          else if l.length > (SdlPrintT.lstrip l).length then (ls = [] ∨ ls.foldl indentStep none = some 0)
          else (l :: ls).foldl indentStep none = some 0) ∧ SdlPrintT.needsQuoted (l :: ls) = false := by
        by_cases hone : ((l :: ls).length == 1 && l.length < 70 && !(l.getLast? == some 34)) = true
        · rw [if_pos hone]
          simp only [Bool.and_eq_true, beq_iff_eq, decide_eq_true_eq, Bool.not_eq_true', beq_eq_false_iff_ne] at hone
          have hs := hshape
          simp [hone.1.1, hone.1.2, hone.2] at hs
          have hls : ls = [] := by simpa using hone.1.1
          exact ⟨hs, by rw [hls]; exact needsQuoted_single l⟩
        · rw [if_neg hone]
          have hone' : ¬ ((l :: ls).length = 1 ∧ l.length < 70 ∧ l.getLast? ≠ some 34) := by
            intro hc; apply hone; simp [hc.1, hc.2.1, hc.2.2]
          have hc : ¬ ((ls = [] ∧ l.length < 70) ∧ ¬ l.getLast? = some 34) := fun hc =>
            hone' ⟨by simp [hc.1.1], hc.1.2, hc.2⟩
          by_cases hlead : l.length > (SdlPrintT.lstrip l).length
          · rw [if_pos hlead]
            have hs := hshape
            simp [hlead] at hs
            split at hs
            · rename_i hh; exact absurd hh hc
            · by_cases hls : ls = []
              · exact ⟨Or.inl hls, by rw [hls]; exact needsQuoted_single l⟩
              · have : minIndentZero ls = true := by
                  rcases hs with h | h
                  · exact absurd h hls
                  · exact h
                exact ⟨Or.inr (foldl_indentStep_zero ls this), needsQuoted_minZero l ls this⟩
          · rw [if_neg hlead]
            have hs := hshape
            simp [hlead] at hs
            split at hs
            · rename_i hh; exact absurd hh hc
            · exact ⟨foldl_indentStep_zero _ hs, needsQuoted_notLead l ls hlead⟩
      obtain ⟨hsh, hq⟩ := hshq
      have hcr : 13 ∉ SdlPrintT.T x := by
        intro hmem; have := hch 13 hmem; revert this; decide
      have lq := lay_descQuoted (SdlPrintT.repeatText o.indent depth) l ls hind' hlines hchars hfirst hlast hsh
      -- the printed text
      have hxe : x.isEmpty = false := hxne
      have htxt : SdlPrintT.printDescription o (some x) depth first =
          ((if !(SdlPrintT.repeatText o.indent depth).isEmpty && !first then [10] else []) ++
            (SdlPrintT.repeatText o.indent depth ++ (tq ++ (SdlPrintT.descBody (SdlPrintT.repeatText o.indent depth) (l :: ls) ++ tq)))) ++ [10] := by
        simp [SdlPrintT.printDescription, hdesc, hxe, hsp, hwrap, hq, hcr, tq, List.append_assoc]
      have hyield : Item.yieldAll (descV (descOf (descToDoc (some x)))) = [(.blockString, joinLF (l :: ls))] := by
        simp [descToDoc, hxe, descOf, descV, optV, stringV, Item.yieldAll, Item.yield, ht]
      rw [htxt, hyield]
      refine Or.inr ⟨_, rfl, ?_⟩
      have l2 := lay_blank_prefix hind' lq
      split
      · exact lay_lf_cons l2
      · simpa using l2

end PyGql.SdlText

/-
  `VariablesCollector._flatten_fragments` (fixed, ledger V4): the breadth-first closure `VC.closure` computes exactly
  the fragments reachable through the recorded spreads, and the fuel chosen by `VC.flattenClosure` suffices.
-/
import PyGqlModel.Lemmas.ValidateVarsAL
namespace PyGql.Validate
open PyGql

theorem nodup_eraseDups (l : List String) : l.eraseDups.Nodup := by
  generalize hn : l.length = n
  induction n using Nat.strongRecOn generalizing l with
  | _ n ih =>
    cases l with
    | nil => simp
    | cons a as =>
      rw [List.eraseDups_cons, List.nodup_cons]
      refine ⟨?_, ih _ ?_ _ rfl⟩
      · intro hm
        rw [List.mem_eraseDups, List.mem_filter] at hm
        simp at hm
      · subst hn
        exact Nat.lt_succ_of_le (List.length_filter_le _ _)

/-- removing `new` (pairwise distinct, all present) from `L` shortens it by at least `new.length` -/
theorem length_filter_removeAll (L new : List String) (hnd : new.Nodup) (hsub : ∀ x ∈ new, x ∈ L) :
    (L.filter fun x => !new.contains x).length + new.length ≤ L.length := by
  induction new generalizing L with
  | nil => simpa using List.length_filter_le _ L
  | cons x xs ih =>
    rw [List.nodup_cons] at hnd
    have hx : x ∈ L := hsub x (List.mem_cons_self ..)
    have e : (L.filter fun y => !(x :: xs).contains y) = ((L.filter fun y => !(y == x)).filter fun y => !xs.contains y) := by
      rw [List.filter_filter]
      apply List.filter_congr
      intro y _
      simp only [List.contains_cons, Bool.not_or, Bool.and_comm]
    rw [e]
    have h1 := ih (L.filter fun y => !(y == x)) hnd.2 (fun y hy => by
      rw [List.mem_filter]
      refine ⟨hsub y (List.mem_cons_of_mem _ hy), ?_⟩
      have : y ≠ x := fun e => hnd.1 (e ▸ hy)
      simp [this])
    have h2 : (L.filter fun y => !(y == x)).length < L.length :=
      List.length_filter_lt_length_iff_exists.mpr ⟨x, hx, by simp⟩
    simp only [List.length_cons]
    omega

namespace VC

/-- `g` is `a` or is reached from `a` through the recorded fragment-to-fragment spreads -/
inductive Reach (ff : AL (List String)) : String → String → Prop where
  | refl (a : String) : Reach ff a a
  | step {a b c : String} : b ∈ AL.getD ff a [] → Reach ff b c → Reach ff a c

theorem Reach.tail {ff : AL (List String)} {a b c : String} (h : Reach ff a b) (hc : c ∈ AL.getD ff b []) :
    Reach ff a c := by
  induction h with
  | refl a => exact .step hc (.refl _)
  | step h1 _ ih => exact .step h1 (ih hc)

/-- all fragments named in some recorded spread list -/
def univ (ff : AL (List String)) : List String := ff.flatMap (·.2)

theorem getD_sub_univ (ff : AL (List String)) (a b : String) (h : b ∈ AL.getD ff a []) : b ∈ univ ff := by
  rcases AL.getD_cases ff a [] with e | e
  · rw [e] at h; cases h
  · exact List.mem_flatMap.mpr ⟨_, e, h⟩

/-- fragments of the set not yet collected -/
def rem (ff : AL (List String)) (acc : List String) : Nat := ((univ ff).filter fun x => !acc.contains x).length

theorem closure_spec (ff : AL (List String)) : ∀ (fuel : Nat) (queue acc : List String),
    (∀ q ∈ queue, q ∈ acc) →
    (∀ a ∈ acc, a ∉ queue → ∀ b ∈ AL.getD ff a [], b ∈ acc) →
    queue.length + rem ff acc ≤ fuel →
    (∀ a ∈ acc, a ∈ closure ff fuel queue acc) ∧
    (∀ a ∈ closure ff fuel queue acc, ∀ b ∈ AL.getD ff a [], b ∈ closure ff fuel queue acc) ∧
    (∀ g ∈ closure ff fuel queue acc, ∃ a ∈ acc, Reach ff a g) := by
  intro fuel
  induction fuel with
  | zero =>
    intro queue acc _ hcl hf
    have hq : queue = [] := by
      cases queue with
      | nil => rfl
      | cons => simp at hf
    subst hq
    simp only [closure]
    exact ⟨fun a h => h, fun a ha b hb => hcl a ha (by simp) b hb, fun g hg => ⟨g, hg, .refl _⟩⟩
  | succ fuel ih =>
    intro queue acc hqa hcl hf
    cases queue with
    | nil =>
      simp only [closure]
      exact ⟨fun a h => h, fun a ha b hb => hcl a ha (by simp) b hb, fun g hg => ⟨g, hg, .refl _⟩⟩
    | cons parent queue =>
      simp only [closure]
      generalize hnew : ((AL.getD ff parent []).eraseDups.filter fun ch => !acc.contains ch) = new
      have hmem : ∀ b, b ∈ new ↔ b ∈ AL.getD ff parent [] ∧ b ∉ acc := by
        intro b; rw [← hnew, List.mem_filter, List.mem_eraseDups]; simp
      have hnd : new.Nodup := by
        rw [← hnew]; exact (nodup_eraseDups _).sublist List.filter_sublist
      have hrem : rem ff (acc ++ new) + new.length ≤ rem ff acc := by
        unfold rem
        have e : ((univ ff).filter fun x => !(acc ++ new).contains x) =
            (((univ ff).filter fun x => !acc.contains x).filter fun x => !new.contains x) := by
          rw [List.filter_filter]
          apply List.filter_congr
          intro y _
          simp only [List.contains_append, Bool.not_or, Bool.and_comm]
        rw [e]
        apply length_filter_removeAll _ _ hnd
        intro x hx
        rw [List.mem_filter]
        exact ⟨getD_sub_univ ff parent x ((hmem x).mp hx).1, by simpa using ((hmem x).mp hx).2⟩
      have hpar : parent ∈ acc := hqa parent (List.mem_cons_self ..)
      obtain ⟨r1, r2, r3⟩ := ih (queue ++ new) (acc ++ new)
        (by
          intro q hq
          rcases List.mem_append.mp hq with hq | hq
          · exact List.mem_append_left _ (hqa q (List.mem_cons_of_mem _ hq))
          · exact List.mem_append_right _ hq)
        (by
          intro a ha hnq b hb
          have hnq1 : a ∉ queue := fun h => hnq (List.mem_append_left _ h)
          have hnq2 : a ∉ new := fun h => hnq (List.mem_append_right _ h)
          rcases List.mem_append.mp ha with ha | ha
          · by_cases hap : a = parent
            · subst hap
              by_cases hba : b ∈ acc
              · exact List.mem_append_left _ hba
              · exact List.mem_append_right _ ((hmem b).mpr ⟨hb, hba⟩)
            · exact List.mem_append_left _ (hcl a ha (by simp [hap, hnq1]) b hb)
          · exact absurd ha hnq2)
        (by
          simp only [List.length_append, List.length_cons] at hf ⊢
          omega)
      refine ⟨fun a ha => r1 a (List.mem_append_left _ ha), r2, fun g hg => ?_⟩
      obtain ⟨a, ha, hr⟩ := r3 g hg
      rcases List.mem_append.mp ha with ha | ha
      · exact ⟨a, ha, hr⟩
      · exact ⟨parent, hpar, .step ((hmem a).mp ha).1 hr⟩

theorem closure_closed_reach {ff : AL (List String)} {R : List String}
    (hcl : ∀ a ∈ R, ∀ b ∈ AL.getD ff a [], b ∈ R) {a g : String} (ha : a ∈ R) (h : Reach ff a g) : g ∈ R := by
  induction h with
  | refl a => exact ha
  | step h1 _ ih => exact ih (hcl _ ha _ h1)

/-- **the closure is reachability**, when the fuel covers the queue and the set -/
theorem mem_closure (ff : AL (List String)) (fs : List String) (fuel : Nat)
    (hf : fs.length + (univ ff).length ≤ fuel) (g : String) :
    g ∈ closure ff fuel fs fs ↔ ∃ f ∈ fs, Reach ff f g := by
  obtain ⟨r1, r2, r3⟩ := closure_spec ff fuel fs fs (fun q h => h) (fun a ha hn => absurd ha hn)
    (by unfold rem; have := List.length_filter_le (fun x => !fs.contains x) (univ ff); omega)
  constructor
  · exact r3 g
  · rintro ⟨f, hf', hr⟩
    exact closure_closed_reach r2 (r1 f hf') hr

theorem foldl_len_ge (m : AL (List String)) (n0 : Nat) :
    n0 + (m.flatMap (·.2)).length ≤ m.foldl (fun n p => n + p.2.length + 1) n0 := by
  induction m generalizing n0 with
  | nil => simp
  | cons p m ih =>
    rw [List.foldl_cons, List.flatMap_cons, List.length_append]
    have := ih (n0 + p.2.length + 1)
    omega

theorem foldl_len_mono (m : AL (List String)) (n0 : Nat) : n0 ≤ m.foldl (fun n p => n + p.2.length + 1) n0 := by
  have := foldl_len_ge m n0; omega

theorem foldl_len_ge_mem (m : AL (List String)) (n0 : Nat) (p : String × List String) (hp : p ∈ m) :
    n0 + p.2.length ≤ m.foldl (fun n p => n + p.2.length + 1) n0 := by
  induction m generalizing n0 with
  | nil => cases hp
  | cons q m ih =>
    rw [List.foldl_cons]
    rcases List.mem_cons.mp hp with rfl | hp
    · have := foldl_len_mono m (n0 + p.2.length + 1); omega
    · have := ih (n0 + q.2.length + 1) hp; omega

end VC
end PyGql.Validate

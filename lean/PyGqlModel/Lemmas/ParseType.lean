/-
  Names, named types and type references: the parser agrees with the matcher of the grammar, both ways.
-/
import PyGqlModel.Lemmas.ParseCore
namespace PyGql.Parse
open PyGql PyGql.Ast PyGql.Spec

theorem cls_name {t : Tok} (h : t.kind = .name) : cls t = (.name, t.value) := by simp [cls, h, hasValue]

theorem cls_const {t : Tok} {k : TokKind} (h : t.kind = k) (hv : hasValue k = false) : cls t = (k, []) := by
  subst h; simp [cls, hv]

theorem parseName_sound (fl : Flags) (s : PS) (n : Name) (s' : PS) (h : parseName fl s = .ok (n, s')) :
    (nameV n).check fl s.last s.toks = some (s'.last, s'.toks) := by
  simp only [parseName, bind_ok, expect_ok, mkLoc_ok, pure_ok] at h
  obtain ⟨t, s1, ⟨ts, h1, hk, rfl⟩, loc, s2, ⟨rfl, rfl⟩, h3⟩ := h
  cases h3
  simp [nameV, check_node, checkAll_cons, checkAll_nil, check_tok, h1, cls_name hk]

theorem parseName_complete (fl : Flags) (n : Name) (l l' : Tok) (ts rest : List Tok)
    (h : (nameV n).check fl l ts = some (l', rest)) :
    parseName fl ⟨ts, l⟩ = .ok (n, ⟨rest, l'⟩) := by
  rcases n with ⟨v, loc⟩
  simp only [nameV, check_node, checkAll_cons, checkAll_nil, check_tok] at h
  obtain ⟨f, tl, rfl, ⟨l1, ts1, ⟨t, h1, hc, rfl⟩, h2⟩, rfl⟩ := h
  cases h2; cases h1
  simp only [cls, Prod.mk.injEq] at hc
  simp only [parseName, bind_ok, expect_ok, mkLoc_ok, pure_ok]
  have hk := hc.1
  simp [hk, hasValue] at hc
  subst hc
  exact ⟨_, _, ⟨_, rfl, hk, rfl⟩, _, _, ⟨rfl, rfl⟩, rfl⟩


theorem parseNamedType_sound (fl : Flags) (s : PS) (n : NamedType) (s' : PS)
    (h : parseNamedType fl s = .ok (n, s')) :
    (namedTypeV n).check fl s.last s.toks = some (s'.last, s'.toks) := by
  simp only [parseNamedType, bind_ok, peek_ok, mkLoc_ok, pure_ok] at h
  obtain ⟨st, s1, ⟨ts, h1, rfl⟩, nm, s2, h2, loc, s3, ⟨rfl, rfl⟩, h3⟩ := h
  cases h3
  have c := parseName_sound fl _ _ _ h2
  simp [namedTypeV, check_node, checkAll_cons, checkAll_nil, h1, c] 
  rw [h1] at c; exact c

theorem parseNamedType_complete (fl : Flags) (n : NamedType) (l l' : Tok) (ts rest : List Tok)
    (h : (namedTypeV n).check fl l ts = some (l', rest)) :
    parseNamedType fl ⟨ts, l⟩ = .ok (n, ⟨rest, l'⟩) := by
  rcases n with ⟨nm, loc⟩
  simp only [namedTypeV, check_node, checkAll_cons, checkAll_nil] at h
  obtain ⟨f, tl, rfl, ⟨l1, ts1, h1, h2⟩, rfl⟩ := h
  cases h2
  have c := parseName_complete fl _ _ _ _ _ h1
  simp only [parseNamedType, bind_ok, peek_ok, mkLoc_ok, pure_ok]
  exact ⟨_, _, ⟨_, rfl, rfl⟩, _, _, c, _, _, ⟨rfl, rfl⟩, rfl⟩


theorem parseTypeReference_sound (fl : Flags) : ∀ (n : Nat) (s : PS) (t : TypeRef) (s' : PS),
    parseTypeReference fl n s = .ok (t, s') →
    wfType t = true ∧ (typeV t).check fl s.last s.toks = some (s'.last, s'.toks) := by
  intro n
  induction n with
  | zero => intro s t s' h; simp [parseTypeReference, fail_ok] at h
  | succ n ih =>
    intro s t s' h
    simp only [parseTypeReference, parseTypeInner, bind_ok, peek_ok, skip_ok, ite_ok, expect_ok, mkLoc_ok, pure_ok] at h
    obtain ⟨st, s1, ⟨ts0, h0, rfl⟩, ty, s2, ⟨b, s3, ⟨t1, ts1, h1, hb⟩, hinner⟩, b2, s4, ⟨t2, ts2, h2, hb2⟩, hfin⟩ := h
    rw [h0] at h1; cases h1
    -- the inner type
    have hty : wfType ty = true ∧ isNonNull ty = false ∧
        (typeV ty).check fl s1.last s1.toks = some (s2.last, s2.toks) := by
      rcases hb with ⟨hk, rfl, rfl⟩ | ⟨hk, rfl, rfl⟩
      · simp only [true_and, not_true_eq_false, false_and, or_false] at hinner
        obtain ⟨inner, s5, hrec, cl, s6, ⟨ts6, h6, hk6, rfl⟩, loc, s7, ⟨rfl, rfl⟩, hpair⟩ := hinner
        cases hpair
        obtain ⟨w, c⟩ := ih _ _ _ hrec
        simp only [h6] at c
        simp [wfType, isNonNull, w, typeV, Item.check, Item.checkAll, h0, cls_const hk rfl, c, h6, cls_const hk6 rfl]
      · simp only [Bool.false_eq_true, false_and, not_false_eq_true, true_and, false_or] at hinner
        obtain ⟨nt, s5, hnt, hpair⟩ := hinner
        cases hpair
        have c := parseNamedType_sound fl _ _ _ hnt
        simp [wfType, isNonNull, typeV, c]
    obtain ⟨w, nn, c⟩ := hty
    rcases hb2 with ⟨hk, rfl, rfl⟩ | ⟨hk, rfl, rfl⟩
    · simp only [true_and, not_true_eq_false, false_and, or_false] at hfin
      obtain ⟨loc, s7, ⟨rfl, rfl⟩, hpair⟩ := hfin
      cases hpair
      refine ⟨?_, ?_⟩
      · simp [wfType, w, nn]
      · simp only [h2, h0] at c
        simp [typeV, Item.check, Item.checkAll, h0, c, h2, cls_const hk rfl]
    · simp only [Bool.false_eq_true, false_and, not_false_eq_true, true_and, false_or] at hfin
      cases hfin
      exact ⟨w, c⟩


/-- what may follow a type: after a type that is not `NonNull`, the next token exists and is not `!` -/
def FollowType (t : TypeRef) (rest : List Tok) : Prop :=
  match t with
  | .nonNull _ _ => True
  | _ => ∃ t0 tl, rest = t0 :: tl ∧ t0.kind ≠ .bang

/-- number of tokens of an item -/
abbrev width (i : Item) : Nat := i.yield.length

theorem cls_kind {t : Tok} {k : TokKind} {v : Text} (h : cls t = (k, v)) : t.kind = k := by
  simp [cls] at h; exact h.1

theorem parseTypeReference_complete (fl : Flags) : ∀ (n : Nat) (t : TypeRef) (l l' : Tok) (ts rest : List Tok),
    wfType t = true → width (typeV t) ≤ n →
    (typeV t).check fl l ts = some (l', rest) → FollowType t rest →
    parseTypeReference fl n ⟨ts, l⟩ = .ok (t, ⟨rest, l'⟩) := by
  intro n
  induction n with
  | zero =>
    intro t l l' ts rest _ hw
    cases t <;> simp [width, typeV, namedTypeV, nameV, Item.yield, Item.yieldAll] at hw
  | succ n ih =>
    -- the part before the optional `!`
    have core : ∀ (t : TypeRef) (l l' : Tok) (ts rest : List Tok) (st : Tok) (tl : List Tok),
        isNonNull t = false → wfType t = true → width (typeV t) ≤ n + 1 →
        ts = st :: tl →
        (typeV t).check fl l ts = some (l', rest) →
        parseTypeInner fl (parseTypeReference fl n) st ⟨ts, l⟩ = .ok (t, ⟨rest, l'⟩) := by
      intro t l l' ts rest st tl hnn w hw hts h
      cases t with
      | nonNull t loc => simp [isNonNull] at hnn
      | named nt =>
        have c := parseNamedType_complete fl nt l l' ts rest h
        subst hts
        simp only [typeV, namedTypeV, nameV, check_node, checkAll_cons, checkAll_nil, check_tok] at h
        obtain ⟨f, tl', hf, ⟨l1, ts1, ⟨f2, tl2, hf2, ⟨l3, ts3, ⟨t3, h3, hc3, rfl⟩, h4⟩, _⟩, _⟩, _⟩ := h
        cases hf; cases hf2; cases h3
        have hk : st.kind ≠ .bracketL := by rw [cls_kind hc3]; decide
        simp [parseTypeInner, bind_eq, skip_neg hk, c, pure_eq]
      | list inner loc =>
        subst hts
        simp only [typeV, check_node, checkAll_cons, checkAll_nil, check_tok] at h
        obtain ⟨f, tl', hf, ⟨l1, ts1, ⟨t1, h1, hc1, rfl⟩, l2, ts2, hin, l3, ts3, ⟨t3, h3, hc3, rfl⟩, hfin⟩, rfl⟩ := h
        cases hf; cases h1; cases hfin; subst h3
        have hwi : width (typeV inner) ≤ n := by
          simp [width, typeV, Item.yield, Item.yieldAll] at hw ⊢; omega
        have hfol : FollowType inner (l' :: rest) := by
          cases inner <;> simp [FollowType, cls_kind hc3]
        have c := ih inner _ _ _ _ (by simpa [wfType] using w) hwi hin hfol
        simp [parseTypeInner, bind_eq, skip_pos (cls_kind hc1), c, expect_pos (cls_kind hc3), mkLoc_eq, pure_eq]
    intro t l l' ts rest w hw h hfol
    cases t with
    | nonNull inner loc =>
      simp only [typeV, check_node, checkAll_cons, checkAll_nil, check_tok] at h
      obtain ⟨f, tl, rfl, ⟨l1, ts1, hin, l2, ts2, ⟨t2, h2, hc2, rfl⟩, hfin⟩, rfl⟩ := h
      cases hfin; subst h2
      have hnn : isNonNull inner = false := by
        simp [wfType] at w; exact w.2
      have hwi : width (typeV inner) ≤ n + 1 := by
        simp [width, typeV, Item.yield, Item.yieldAll] at hw ⊢; omega
      have c := core inner l l1 (f :: tl) (l' :: rest) f tl hnn (by simp [wfType] at w; exact w.1) hwi rfl hin
      simp [parseTypeReference, bind_eq, peek_cons, c, skip_pos (cls_kind hc2), mkLoc_eq, pure_eq]
    | named nt =>
      obtain ⟨t0, tl0, rfl, hk0⟩ := hfol
      have hne : ∃ f tl, ts = f :: tl := by
        simp only [typeV, namedTypeV, check_node] at h
        obtain ⟨f, tl, rfl, _⟩ := h; exact ⟨f, tl, rfl⟩
      obtain ⟨f, tl, rfl⟩ := hne
      have c := core (.named nt) l l' (f :: tl) (t0 :: tl0) f tl rfl w hw rfl h
      simp [parseTypeReference, bind_eq, peek_cons, c, skip_neg hk0, pure_eq]
    | list inner loc =>
      obtain ⟨t0, tl0, rfl, hk0⟩ := hfol
      have hne : ∃ f tl, ts = f :: tl := by
        simp only [typeV, check_node] at h
        obtain ⟨f, tl, rfl, _⟩ := h; exact ⟨f, tl, rfl⟩
      obtain ⟨f, tl, rfl⟩ := hne
      have c := core (.list inner loc) l l' (f :: tl) (t0 :: tl0) f tl rfl w hw rfl h
      simp [parseTypeReference, bind_eq, peek_cons, c, skip_neg hk0, pure_eq]

end PyGql.Parse

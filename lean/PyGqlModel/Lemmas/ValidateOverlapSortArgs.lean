/-
  `_same_arguments` sorts both argument lists by name (stable insertion sort in the model, `sorted(..., key=name)` in the
  code) and compares them pairwise. For argument lists with pairwise DIFFERENT names the sorted list does not depend on
  the order of the input (`sortArgs_congr_perm`), hence neither does the outcome (`sameArguments_perm`). With a repeated
  name it does: `perm_arguments_overlap_needs_unique_argument_names` (Props/C06_overlap_perm.lean).
-/
import PyGqlModel.Validate.Overlap
namespace PyGql.Validate
open PyGql

def NameLt (a b : Arg) : Prop := a.name < b.name

theorem insertArg_perm (a : Arg) : ∀ l : List Arg, (insertArg a l).Perm (a :: l)
  | [] => List.Perm.refl _
  | b :: bs => by
    unfold insertArg
    split
    · exact List.Perm.refl _
    · exact ((insertArg_perm a bs).cons b).trans (List.Perm.swap a b bs)

theorem insertArg_sorted (a : Arg) : ∀ l : List Arg, l.Pairwise NameLt → (∀ b ∈ l, b.name ≠ a.name) →
    (insertArg a l).Pairwise NameLt
  | [], _, _ => by simp [insertArg]
  | b :: bs, hs, hn => by
    unfold insertArg
    have hb := List.pairwise_cons.mp hs
    split
    · rename_i hlt
      refine List.pairwise_cons.mpr ⟨?_, hs⟩
      intro c hc
      rcases List.mem_cons.mp hc with rfl | hc
      · exact hlt
      · exact String.lt_trans hlt (hb.1 c hc)
    · rename_i hlt
      have hne : b.name ≠ a.name := hn b (List.mem_cons_self ..)
      have hba : b.name < a.name := by
        by_cases h : b.name < a.name
        · exact h
        · exact absurd (String.le_antisymm (String.not_lt.mp hlt) (String.not_lt.mp h)) hne
      refine List.pairwise_cons.mpr ⟨?_, insertArg_sorted a bs hb.2 (fun c hc => hn c (List.mem_cons_of_mem _ hc))⟩
      intro c hc
      rcases List.mem_cons.mp ((insertArg_perm a bs).mem_iff.mp hc) with rfl | hc
      · exact hba
      · exact hb.1 c hc

theorem foldl_insert_spec : ∀ (l acc : List Arg), acc.Pairwise NameLt → ((l ++ acc).map (·.name)).Nodup →
    (l.foldl (fun acc a => insertArg a acc) acc).Pairwise NameLt ∧ (l.foldl (fun acc a => insertArg a acc) acc).Perm (l ++ acc)
  | [], acc, hs, _ => ⟨hs, List.Perm.refl _⟩
  | a :: l, acc, hs, hnd => by
    simp only [List.foldl_cons]
    simp only [List.cons_append, List.map_cons, List.nodup_cons, List.mem_map, List.mem_append, not_exists, not_and] at hnd
    have hp := insertArg_perm a acc
    have hs' := insertArg_sorted a acc hs (fun b hb => hnd.1 b (Or.inr hb))
    have hnd' : ((l ++ insertArg a acc).map (·.name)).Nodup := by
      have : (l ++ insertArg a acc).Perm (a :: (l ++ acc)) :=
        ((List.Perm.refl l).append hp).trans List.perm_middle
      refine ((this.map _).nodup_iff).mpr ?_
      simp only [List.map_cons, List.nodup_cons, List.mem_map, List.mem_append, not_exists, not_and]
      exact ⟨hnd.1, hnd.2⟩
    obtain ⟨h1, h2⟩ := foldl_insert_spec l _ hs' hnd'
    exact ⟨h1, h2.trans (((List.Perm.refl l).append hp).trans List.perm_middle)⟩

theorem sortArgs_spec (l : List Arg) (hnd : (l.map (·.name)).Nodup) : (sortArgs l).Pairwise NameLt ∧ (sortArgs l).Perm l := by
  have := foldl_insert_spec l [] List.Pairwise.nil (by simpa using hnd)
  simpa [sortArgs] using this

theorem sorted_perm_eq : ∀ (l1 l2 : List Arg), l1.Pairwise NameLt → l2.Pairwise NameLt → l1.Perm l2 → l1 = l2
  | [], l2, _, _, hp => hp.nil_eq
  | a :: l1, [], _, _, hp => absurd hp.symm.nil_eq (by simp)
  | a :: l1, b :: l2, h1, h2, hp => by
    have k1 := List.pairwise_cons.mp h1
    have k2 := List.pairwise_cons.mp h2
    have hab : a = b := by
      rcases List.mem_cons.mp (hp.mem_iff.mp (List.mem_cons_self ..)) with e | ha
      · exact e
      · rcases List.mem_cons.mp (hp.mem_iff.mpr (List.mem_cons_self ..)) with e | hb
        · exact e.symm
        · exact absurd (k1.1 b hb) (String.lt_asymm (k2.1 a ha))
    subst hab
    rw [sorted_perm_eq l1 l2 k1.2 k2.2 (List.Perm.cons_inv hp)]

/-- the sorted list of arguments with pairwise different names does not depend on their order -/
theorem sortArgs_congr_perm {l l' : List Arg} (h : l'.Perm l) (hnd : (l.map (·.name)).Nodup) : sortArgs l' = sortArgs l := by
  have hnd' : (l'.map (·.name)).Nodup := ((h.map _).nodup_iff).mpr hnd
  obtain ⟨s1, p1⟩ := sortArgs_spec l hnd
  obtain ⟨s2, p2⟩ := sortArgs_spec l' hnd'
  exact sorted_perm_eq _ _ s2 s1 (p2.trans (h.trans p1.symm))

/-- **`_same_arguments` ignores the order of arguments with pairwise different names** -/
theorem sameArguments_perm {a a' b b' : List Arg} (ha : a'.Perm a) (hb : b'.Perm b) (hna : (a.map (·.name)).Nodup)
    (hnb : (b.map (·.name)).Nodup) : sameArguments a' b' = sameArguments a b := by
  unfold sameArguments
  rw [ha.length_eq, hb.length_eq, sortArgs_congr_perm ha hna, sortArgs_congr_perm hb hnb]

end PyGql.Validate

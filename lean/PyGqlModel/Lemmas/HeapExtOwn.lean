/-
  C14 — `extend_schema` establishes OWNERSHIP (threshold form of `Lemmas/HeapOwn.lean`): every non-protected type object and
  every directive object the result registers was allocated by the call, and so were (transitively) their fields and arguments.
  So a later in-place visitor on an extension result is confined to objects created by the extension (`extend_ok`).
-/
import PyGqlModel.Lemmas.HeapOwn
import PyGqlModel.Lemmas.HeapReach
import PyGqlModel.HeapExt

set_option linter.unusedSimpArgs false
set_option linter.unusedVariables false

namespace PyGql.Heap.Own
open PyGql.Heap

theorem allocPlaceholders_ok (n : Nat) : ∀ (ns : List String) (h : Heap), Inv n h →
    Pres n h (allocPlaceholders h ns).1 ∧ ∀ e, e ∈ (allocPlaceholders h ns).2 → n ≤ e.2 := by
  intro ns
  induction ns with
  | nil => intro h i; exact ⟨Pres.refl i, by simp [allocPlaceholders]⟩
  | cons x ns ih =>
    intro h i
    simp only [allocPlaceholders]
    obtain ⟨p1, q1⟩ := pres_alloc i (placeholder x) (by simp [kids, placeholder])
    obtain ⟨p2, q2⟩ := ih _ p1.1
    refine ⟨p1.trans p2, ?_⟩
    intro e he
    simp only [List.mem_cons] at he
    rcases he with rfl | he
    · exact q1
    · exact q2 e he

theorem extendArgs_ok (n : Nat) (keepPy : Bool) (N : List (String × Addr)) : ∀ (as : List Addr) (h : Heap), Inv n h →
    Pres n h (extendArgs keepPy N h as).1 ∧ ∀ c, c ∈ (extendArgs keepPy N h as).2 → n ≤ c := by
  intro as
  induction as with
  | nil => intro h i; exact ⟨Pres.refl i, by simp [extendArgs]⟩
  | cons a as ih =>
    intro h i
    simp only [extendArgs]
    split
    · rename_i g _
      obtain ⟨p1, q1⟩ := pres_alloc i (.arg { g with ty := repoint N g.ty, py := if keepPy then g.py else g.name }) (by simp [kids])
      obtain ⟨p2, q2⟩ := ih _ p1.1
      refine ⟨p1.trans p2, ?_⟩
      intro c hc
      simp only [List.mem_cons] at hc
      rcases hc with rfl | hc
      · exact q1
      · exact q2 c hc
    · exact ih h i

theorem buildArgs_ok (n : Nat) (N : List (String × Addr)) : ∀ (gs : List ExtArg) (h : Heap), Inv n h →
    Pres n h (buildArgs N h gs).1 ∧ ∀ c, c ∈ (buildArgs N h gs).2 → n ≤ c := by
  intro gs
  induction gs with
  | nil => intro h i; exact ⟨Pres.refl i, by simp [buildArgs]⟩
  | cons g gs ih =>
    intro h i
    simp only [buildArgs]
    obtain ⟨p1, q1⟩ := pres_alloc i (.arg { name := g.name, ty := tnRef N g.ty, py := g.name, dflt := none, desc := none }) (by simp [kids])
    obtain ⟨p2, q2⟩ := ih _ p1.1
    refine ⟨p1.trans p2, ?_⟩
    intro c hc
    simp only [List.mem_cons] at hc
    rcases hc with rfl | hc
    · exact q1
    · exact q2 c hc

theorem extendFields_ok (n : Nat) (cfg : Cfg) (N : List (String × Addr)) : ∀ (as : List Addr) (h : Heap), Inv n h →
    Pres n h (extendFields cfg N h as).1 ∧ ∀ c, c ∈ (extendFields cfg N h as).2 → n ≤ c := by
  intro as
  induction as with
  | nil => intro h i; exact ⟨Pres.refl i, by simp [extendFields]⟩
  | cons a as ih =>
    intro h i
    simp only [extendFields]
    split
    · rename_i f _
      obtain ⟨p0, q0⟩ := extendArgs_ok n cfg.extArgPy N f.args h i
      obtain ⟨p1, q1⟩ := pres_alloc p0.1 (.field { f with ty := repoint N f.ty, args := (extendArgs cfg.extArgPy N h f.args).2, sub := if cfg.extFieldSub then f.sub else none, py := if cfg.extFieldPy then f.py else f.name }) (by simpa [kids] using q0)
      obtain ⟨p2, q2⟩ := ih _ p1.1
      refine ⟨(p0.trans p1).trans p2, ?_⟩
      intro c hc
      simp only [List.mem_cons] at hc
      rcases hc with rfl | hc
      · exact q1
      · exact q2 c hc
    · exact ih h i

theorem buildFields_ok (n : Nat) (N : List (String × Addr)) : ∀ (fs : List ExtField) (h : Heap), Inv n h →
    Pres n h (buildFields N h fs).1 ∧ ∀ c, c ∈ (buildFields N h fs).2 → n ≤ c := by
  intro fs
  induction fs with
  | nil => intro h i; exact ⟨Pres.refl i, by simp [buildFields]⟩
  | cons f fs ih =>
    intro h i
    simp only [buildFields]
    obtain ⟨p0, q0⟩ := buildArgs_ok n N f.args h i
    obtain ⟨p1, q1⟩ := pres_alloc p0.1 (.field { name := f.name, ty := tnRef N f.ty, args := (buildArgs N h f.args).2, desc := none, depr := none, res := f.res, sub := none, py := f.name }) (by simpa [kids] using q0)
    obtain ⟨p2, q2⟩ := ih _ p1.1
    refine ⟨(p0.trans p1).trans p2, ?_⟩
    intro c hc
    simp only [List.mem_cons] at hc
    rcases hc with rfl | hc
    · exact q1
    · exact q2 c hc

theorem extendKids_ok (n : Nat) (cfg : Cfg) (ext : Ext) (N Nin : List (String × Addr)) (h : Heap) (t : TypeO) (i : Inv n h) :
    Pres n h (extendKids cfg ext N Nin h t).1 ∧ ∀ c, c ∈ (extendKids cfg ext N Nin h t).2 → n ≤ c := by
  simp only [extendKids]
  split
  · obtain ⟨p1, q1⟩ := extendArgs_ok n cfg.extInputPy N t.fields h i
    obtain ⟨p2, q2⟩ := buildArgs_ok n Nin (assocD ext.inputFields t.name) _ p1.1
    refine ⟨p1.trans p2, fun c hc => ?_⟩
    simp only [List.mem_append] at hc
    rcases hc with hc | hc
    · exact q1 c hc
    · exact q2 c hc
  · obtain ⟨p1, q1⟩ := extendFields_ok n cfg N t.fields h i
    obtain ⟨p2, q2⟩ := buildFields_ok n N (assocD ext.fields t.name) _ p1.1
    refine ⟨p1.trans p2, fun c hc => ?_⟩
    simp only [List.mem_append] at hc
    rcases hc with hc | hc
    · exact q1 c hc
    · exact q2 c hc
  · obtain ⟨p1, q1⟩ := extendFields_ok n cfg N t.fields h i
    obtain ⟨p2, q2⟩ := buildFields_ok n N (assocD ext.fields t.name) _ p1.1
    refine ⟨p1.trans p2, fun c hc => ?_⟩
    simp only [List.mem_append] at hc
    rcases hc with hc | hc
    · exact q1 c hc
    · exact q2 c hc
  · exact ⟨Pres.refl i, by simp⟩

theorem extendOne_ok (n : Nat) (cfg : Cfg) (ext : Ext) (N Nin : List (String × Addr)) (h : Heap) (t : TypeO) (na : Addr)
    (i : Inv n h) (hna : n ≤ na) : Pres n h (extendOne cfg ext N Nin h t na) := by
  simp only [extendOne]
  obtain ⟨p1, q1⟩ := extendKids_ok n cfg ext N Nin h t i
  exact p1.trans (pres_write p1.1 na _ hna (by simpa [kids, rebuiltType] using q1))

theorem extendAll_ok (n : Nat) (cfg : Cfg) (ext : Ext) (N Nin P : List (String × Addr)) (hP : ∀ nm x, lookup P nm = some x → n ≤ x)
    (h0 : Heap) : ∀ (l : List (String × Addr)) (h : Heap), Inv n h → Pres n h (extendAll cfg ext N Nin P h0 h l) := by
  intro l
  induction l with
  | nil => intro h i; exact Pres.refl i
  | cons e rest ih =>
    intro h i
    obtain ⟨nm, a⟩ := e
    simp only [extendAll]
    split
    · exact ih h i
    · split
      · rename_i t na ht hna
        have p1 := extendOne_ok n cfg ext N Nin h t na i (hP nm na hna)
        exact p1.trans (ih _ p1.1)
      · exact ih h i

theorem buildNewTypes_ok (n : Nat) (N P : List (String × Addr)) (hP : ∀ nm x, lookup P nm = some x → n ≤ x) :
    ∀ (l : List (String × List ExtField)) (h : Heap), Inv n h → Pres n h (buildNewTypes N P h l) := by
  intro l
  induction l with
  | nil => intro h i; exact Pres.refl i
  | cons e rest ih =>
    intro h i
    obtain ⟨nm, fs⟩ := e
    simp only [buildNewTypes]
    obtain ⟨p1, q1⟩ := buildFields_ok n N fs h i
    split
    · rename_i na hna
      have p2 := pres_write p1.1 na (.type { kind := .object, name := nm, desc := none, fields := (buildFields N h fs).2, ifaces := [], members := [], dres := none, rtype := none, values := [], prot := false }) (hP nm na hna) (by simpa [kids] using q1)
      exact (p1.trans p2).trans (ih _ p2.1)
    · exact p1.trans (ih _ p1.1)

theorem extendDirs_ok (n : Nat) (cfg : Cfg) (N : List (String × Addr)) : ∀ (l : List (String × Addr)) (h : Heap), Inv n h →
    Pres n h (extendDirs cfg N h l).1 ∧ ∀ e, e ∈ (extendDirs cfg N h l).2 → n ≤ e.2 := by
  intro l
  induction l with
  | nil => intro h i; exact ⟨Pres.refl i, by simp [extendDirs]⟩
  | cons e rest ih =>
    intro h i
    obtain ⟨nm, a⟩ := e
    simp only [extendDirs]
    split
    · rename_i d _
      obtain ⟨p0, q0⟩ := extendArgs_ok n cfg.extArgPy N d.args h i
      obtain ⟨p1, q1⟩ := pres_alloc p0.1 (.dir { d with args := (extendArgs cfg.extArgPy N h d.args).2 }) (by simpa [kids] using q0)
      obtain ⟨p2, q2⟩ := ih _ p1.1
      refine ⟨(p0.trans p1).trans p2, ?_⟩
      intro e he
      simp only [List.mem_cons] at he
      rcases he with rfl | he
      · exact q1
      · exact q2 e he
    · exact ih h i

theorem buildNewDirs_ok (n : Nat) (cfg : Cfg) (N : List (String × Addr)) : ∀ (l : List (String × List ExtArg × List String)) (h : Heap), Inv n h →
    Pres n h (buildNewDirs cfg N h l).1 ∧ ∀ e, e ∈ (buildNewDirs cfg N h l).2 → n ≤ e.2 := by
  intro l
  induction l with
  | nil => intro h i; exact ⟨Pres.refl i, by simp [buildNewDirs]⟩
  | cons e rest ih =>
    intro h i
    obtain ⟨nm, args, locs⟩ := e
    simp only [buildNewDirs]
    obtain ⟨pa, qa⟩ := buildArgs_ok n N args h i
    obtain ⟨p0, q0⟩ := extendArgs_ok n cfg.extArgPy N (buildArgs N h args).2 _ pa.1
    obtain ⟨p1, q1⟩ := pres_alloc p0.1 (.dir { name := nm, args := (extendArgs cfg.extArgPy N (buildArgs N h args).1 (buildArgs N h args).2).2, locs := locs, desc := none }) (by simpa [kids] using q0)
    obtain ⟨p2, q2⟩ := ih _ p1.1
    refine ⟨((pa.trans p0).trans p1).trans p2, ?_⟩
    intro e he
    simp only [List.mem_cons] at he
    rcases he with rfl | he
    · exact q1
    · exact q2 e he

theorem lookup_mem_snd {reg : List (String × Addr)} {nm : String} {x : Addr} (hl : lookup reg nm = some x) : ∃ e, e ∈ reg ∧ e.2 = x := by
  simp only [lookup, Option.map_eq_some_iff] at hl
  obtain ⟨e, he, rfl⟩ := hl
  exact ⟨e, List.mem_of_find?_eq_some he, rfl⟩

/-- `extend_schema` (the variant of /repo, which registers every rebuilt type) writes nothing below `h.size` and its result owns
    all its non-protected type objects and its directive objects -/
theorem extend_ok (cfg : Cfg) (hk : cfg.extKeepAll = true) (ext : Ext) (s : Schema) (h : Heap) :
    Pres h.size h (extend cfg ext s h).1 ∧ RegFresh h.size (extend cfg ext s h).2 := by
  have i0 := inv_self h
  let ns := (s.types.filter fun e => !isProtected e.1).map (·.1) ++ ext.newTypes.map (·.1)
  obtain ⟨p0, q0⟩ := allocPlaceholders_ok h.size ns h i0
  have hP : ∀ nm x, lookup (allocPlaceholders h ns).2 nm = some x → h.size ≤ x := by
    intro nm x hl
    obtain ⟨e, he, rfl⟩ := lookup_mem_snd hl
    exact q0 e he
  let N := (s.types.filter fun e => isProtected e.1) ++ (allocPlaceholders h ns).2
  let Nin := if cfg.extInputFieldExtended then N else s.types ++ N
  have p1 := extendAll_ok h.size cfg ext N Nin (allocPlaceholders h ns).2 hP h s.types (allocPlaceholders h ns).1 p0.1
  have p2 := buildNewTypes_ok h.size N (allocPlaceholders h ns).2 hP ext.newTypes _ p1.1
  obtain ⟨p3, q3⟩ := extendDirs_ok h.size cfg N s.dirs _ p2.1
  obtain ⟨p4, q4⟩ := buildNewDirs_ok h.size cfg N ext.newDirs _ p3.1
  simp only [extend, hk, if_true]
  refine ⟨(((p0.trans p1).trans p2).trans p3).trans p4, ?_, ?_⟩
  · intro e he
    simp only [List.mem_append, List.mem_filter] at he
    rcases he with he | he
    · exact Or.inl he.2
    · exact Or.inr (q0 e he)
  · intro e he
    simp only [List.mem_append] at he
    rcases he with he | he
    · exact q3 e he
    · exact q4 e he

/-- the `interfaces` of the document's new object types are written on objects the call allocated -/
theorem setNewIfaces_ok (n : Nat) (reg : List (String × Addr)) (nn : List String)
    (hb : ∀ nm na, nn.contains nm = true → lookup reg nm = some na → n ≤ na) : ∀ (l : List (String × List String)) (h : Heap),
    Inv n h → Pres n h (setNewIfaces reg nn h l) := by
  intro l
  induction l with
  | nil => intro h i; exact Pres.refl i
  | cons e rest ih =>
    intro h i
    obtain ⟨nm, ms⟩ := e
    simp only [setNewIfaces]
    split
    · rename_i hc
      split
      · rename_i na hl
        split
        · rename_i t ht
          have hna := hb nm na hc hl
          have p1 := pres_write i na (.type { t with ifaces := healedRefs reg (ms.map fun m => ⟨m, 0⟩) }) hna
            (by simpa [kids] using type_fields_fresh i hna ht)
          exact p1.trans (ih _ p1.1)
        · exact ih h i
      · exact ih h i
    · exact ih h i

/-- `extend_schema` as the code performs it (`extendO`): ownership as for `extend` (`hmem`: the re-ordered registry holds
    entries of `extend`'s, `extendOrder_mem`) -/
theorem extendO_ok (cfg : Cfg) (hk : cfg.extKeepAll = true) (ext : Ext) (s : Schema) (h : Heap)
    (hnp : ∀ e, e ∈ ext.newTypes → isProtected e.1 = false)
    (hmem : ∀ e, e ∈ (extendO cfg ext s h).2.types → e ∈ (extend cfg ext s h).2.types) :
    Pres h.size h (extendO cfg ext s h).1 ∧ RegFresh h.size (extendO cfg ext s h).2 := by
  obtain ⟨p, rf⟩ := extend_ok cfg hk ext s h
  have hb : ∀ nm na, (ext.newTypes.map (·.1)).contains nm = true → lookup (extend cfg ext s h).2.types nm = some na → h.size ≤ na := by
    intro nm na hc hl
    rcases rf.1 (nm, na) (lookup_mem' hl) with hp | hp
    · simp only [List.contains_iff_mem, List.mem_map] at hc
      obtain ⟨e, he, rfl⟩ := hc
      rw [hnp e he] at hp
      cases hp
    · exact hp
  have p2 := setNewIfaces_ok h.size (extend cfg ext s h).2.types (ext.newTypes.map (·.1)) hb ext.newIfaces (extend cfg ext s h).1 p.1
  exact ⟨p.trans p2, fun e he => rf.1 e (hmem e he), rf.2⟩

end PyGql.Heap.Own

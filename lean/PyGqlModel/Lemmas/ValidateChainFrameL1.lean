/-
  Frame / congruence facts of `leaveRule` (see `Lemmas/ValidateChainFrame.lean`), part 1: proved case by case over the
  26 rules and the 14 node kinds.
-/
import PyGqlModel.Lemmas.ValidateChainFrame
namespace PyGql.Validate
open PyGql

set_option maxHeartbeats 2000000 in
/-- the own part after leaving depends on the own part before only -/
theorem leaveRule_own (s : SchemaD) (fx : Fixes) (r : Rule) (n : Node) (ti : TI) (a : RS) :
    (leaveRule s fx r n ti a).own r = (leaveRule s fx r n ti (a.own r)).own r := by
  cases r <;> cases n <;> rs_cases

set_option maxHeartbeats 2000000 in
/-- the errors a rule adds on leaving a node: computed from its own part, prepended to the shared list -/
theorem leaveRule_errs (s : SchemaD) (fx : Fixes) (r : Rule) (n : Node) (ti : TI) (a : RS) :
    (leaveRule s fx r n ti a).errs = (leaveRule s fx r n ti (a.own r)).errs ++ a.errs := by
  cases r <;> cases n <;> rs_cases

set_option maxHeartbeats 2000000 in
/-- a rule only adds errors of its own -/
theorem leaveRule_errs_mine (s : SchemaD) (fx : Fixes) (r : Rule) (n : Node) (ti : TI) (a : RS) :
    ∀ x ∈ (leaveRule s fx r n ti (a.own r)).errs, x = r := by
  cases r <;> cases n <;> rs_cases

end PyGql.Validate

/-
  THE PRINTER IGNORES SOURCE POSITIONS: `printDocument c d.erase = printDocument c d` (and likewise for every node kind).
  With C02's `noloc_erasure` this carries the round-trip theorems of C03 — proved for trees parsed with `no_location` —
  over to trees parsed WITH positions (the default).
-/
import PyGqlModel.Print
import PyGqlModel.Erase
import PyGqlModel.Lemmas.PrintStrip
namespace PyGql.Print
open PyGql PyGql.Ast

theorem map_erase {α} (e : α → α) (f : α → Text) (h : ∀ x, f (e x) = f x) (xs : List α) :
    (xs.map e).map f = xs.map f := by
  simp [List.map_map, Function.comp_def, h]

theorem printType_erase : ∀ t : TypeRef, printType t.erase = printType t
  | .named t => rfl
  | .list t _ => by simp [printType, TypeRef.erase, printType_erase t]
  | .nonNull t _ => by simp [printType, TypeRef.erase, printType_erase t]

mutual
theorem printValue_erase (c : Cfg) : ∀ v : Value, printValue c v.erase = printValue c v
  | .var v => rfl
  | .int v _ => rfl
  | .float v _ => rfl
  | .string s => rfl
  | .boolean b _ => rfl
  | .null _ => rfl
  | .enum v _ => rfl
  | .list vs _ => by simp [printValue, Value.erase, printValues_erase c vs]
  | .object fs _ => by simp [printValue, Value.erase, printObjectFields_erase c fs]
theorem printValues_erase (c : Cfg) : ∀ vs : List Value, printValues c (eraseValues vs) = printValues c vs
  | [] => rfl
  | v :: vs => by simp [printValues, eraseValues, printValue_erase c v, printValues_erase c vs]
theorem printObjectField_erase (c : Cfg) : ∀ f : ObjectField, printObjectField c f.erase = printObjectField c f
  | .mk n v _ => by simp [printObjectField, ObjectField.erase, Name.erase, printValue_erase c v]
theorem printObjectFields_erase (c : Cfg) : ∀ fs : List ObjectField, printObjectFields c (eraseFields fs) = printObjectFields c fs
  | [] => rfl
  | f :: fs => by simp [printObjectFields, eraseFields, printObjectField_erase c f, printObjectFields_erase c fs]
end

theorem printOptValue_erase (c : Cfg) (o : Option Value) : printOptValue c (o.map Value.erase) = printOptValue c o := by
  cases o <;> simp [printOptValue, printValue_erase]

theorem printArgument_erase (c : Cfg) (a : Argument) : printArgument c a.erase = printArgument c a := by
  simp [printArgument, Argument.erase, Name.erase, printValue_erase]

theorem printArguments_erase (c : Cfg) (as : List Argument) :
    printArguments c (as.map Argument.erase) = printArguments c as := by
  simp [printArguments, map_erase _ _ (printArgument_erase c)]

theorem printDirective_erase (c : Cfg) (d : Directive) : printDirective c d.erase = printDirective c d := by
  simp [printDirective, Directive.erase, Name.erase, printArguments_erase]

theorem printDirectives_erase (c : Cfg) (ds : List Directive) :
    printDirectives c (ds.map Directive.erase) = printDirectives c ds := by
  simp [printDirectives, map_erase _ _ (printDirective_erase c)]

theorem printVariableDefinition_erase (c : Cfg) (d : VariableDefinition) :
    printVariableDefinition c d.erase = printVariableDefinition c d := by
  simp [printVariableDefinition, VariableDefinition.erase, printVariable, Variable.erase, Name.erase, printType_erase,
    printOptValue_erase, printDirectives_erase]

theorem printVariableDefinitions_erase (c : Cfg) (ds : List VariableDefinition) :
    printVariableDefinitions c (ds.map VariableDefinition.erase) = printVariableDefinitions c ds := by
  simp [printVariableDefinitions, map_erase _ _ (printVariableDefinition_erase c)]

mutual
theorem printSelection_erase (c : Cfg) : ∀ s : Selection, printSelection c s.erase = printSelection c s
  | .field alias_ name args dirs ss _ => by
    cases alias_ <;>
      simp [printSelection, Selection.erase, Name.erase, printArguments_erase, printDirectives_erase,
        printOptSelectionSet_erase c ss]
  | .fragmentSpread name dirs _ => by simp [printSelection, Selection.erase, Name.erase, printDirectives_erase]
  | .inlineFragment tc dirs ss _ => by
    cases tc <;>
      simp [printSelection, Selection.erase, printNamedType, NamedType.erase, Name.erase, printDirectives_erase,
        printSelectionSet_erase c ss]
theorem printSelectionSet_erase (c : Cfg) : ∀ ss : SelectionSet, printSelectionSet c ss.erase = printSelectionSet c ss
  | .mk sels _ => by simp [printSelectionSet, SelectionSet.erase, printSelections_erase c sels]
theorem printOptSelectionSet_erase (c : Cfg) : ∀ o : Option SelectionSet,
    printOptSelectionSet c (eraseOptSS o) = printOptSelectionSet c o
  | none => rfl
  | some ss => by simp [printOptSelectionSet, eraseOptSS, printSelectionSet_erase c ss]
theorem printSelections_erase (c : Cfg) : ∀ ss : List Selection,
    printSelections c (eraseSelections ss) = printSelections c ss
  | [] => rfl
  | s :: ss => by simp [printSelections, eraseSelections, printSelection_erase c s, printSelections_erase c ss]
end

theorem printOperationDefinition_erase (c : Cfg) (d : OperationDefinition) :
    printOperationDefinition c d.erase = printOperationDefinition c d := by
  cases d with
  | mk op name vds dirs ss loc =>
    cases name <;>
      simp [printOperationDefinition, OperationDefinition.erase, Name.erase, printVariableDefinitions_erase,
        printDirectives_erase, printSelectionSet_erase]

theorem printFragmentDefinition_erase (c : Cfg) (d : FragmentDefinition) :
    printFragmentDefinition c d.erase = printFragmentDefinition c d := by
  simp [printFragmentDefinition, FragmentDefinition.erase, Name.erase, printNamedType, NamedType.erase,
    printVariableDefinitions_erase, printDirectives_erase, printSelectionSet_erase]

theorem withDesc_erase (c : Cfg) (f : Text) (o : Option StringValue) :
    withDesc c f (o.map StringValue.erase) = withDesc c f o := by
  cases o <;> simp [withDesc, StringValue.erase]

theorem printOperationTypeDefinition_erase (d : OperationTypeDefinition) :
    printOperationTypeDefinition d.erase = printOperationTypeDefinition d := by
  simp [printOperationTypeDefinition, OperationTypeDefinition.erase, printNamedType, NamedType.erase, Name.erase]

theorem printInputValueDefinition_erase (c : Cfg) (d : InputValueDefinition) :
    printInputValueDefinition c d.erase = printInputValueDefinition c d := by
  simp [printInputValueDefinition, InputValueDefinition.erase, Name.erase, printType_erase, printOptValue_erase,
    printDirectives_erase]

theorem printArgumentDefinitions_erase (c : Cfg) (as : List InputValueDefinition) :
    printArgumentDefinitions c (as.map InputValueDefinition.erase) = printArgumentDefinitions c as := by
  simp [printArgumentDefinitions, map_erase _ _ (printInputValueDefinition_erase c)]

theorem printFieldDefinition_erase (c : Cfg) (d : FieldDefinition) :
    printFieldDefinition c d.erase = printFieldDefinition c d := by
  simp [printFieldDefinition, FieldDefinition.erase, Name.erase, printType_erase, printArgumentDefinitions_erase,
    printDirectives_erase]

theorem printEnumValueDefinition_erase (c : Cfg) (d : EnumValueDefinition) :
    printEnumValueDefinition c d.erase = printEnumValueDefinition c d := by
  simp [printEnumValueDefinition, EnumValueDefinition.erase, Name.erase, printDirectives_erase]

theorem printNamedType_erase (t : NamedType) : printNamedType t.erase = printNamedType t := rfl
theorem printName_erase (n : Name) : printName n.erase = printName n := rfl

theorem printImplements_erase (ifs : List NamedType) : printImplements (ifs.map NamedType.erase) = printImplements ifs := by
  simp [printImplements, map_erase _ _ printNamedType_erase]
theorem printUnionMembers_erase (ts : List NamedType) : printUnionMembers (ts.map NamedType.erase) = printUnionMembers ts := by
  simp [printUnionMembers, map_erase _ _ printNamedType_erase]

theorem printDefinition_erase (c : Cfg) (x : Definition) : printDefinition c x.erase = printDefinition c x := by
  cases x with
  | operation d => simp [printDefinition, Definition.erase, printOperationDefinition_erase]
  | fragment d => simp [printDefinition, Definition.erase, printFragmentDefinition_erase]
  | _ =>
    simp [printDefinition, Definition.erase, Name.erase, withDesc_erase, printDirectives_erase, printImplements_erase,
      printUnionMembers_erase, printArgumentDefinitions_erase, map_erase _ _ printOperationTypeDefinition_erase,
      map_erase _ _ (printFieldDefinition_erase c), map_erase _ _ (printEnumValueDefinition_erase c),
      map_erase _ _ (printInputValueDefinition_erase c), map_erase _ _ printName_erase]

theorem documentEntries_erase (c : Cfg) : ∀ (acc : List Text) (ds : List Definition),
    documentEntries c acc (ds.map Definition.erase) = documentEntries c acc ds
  | acc, [] => rfl
  | acc, d :: ds => by
    simp only [List.map_cons, documentEntries, printDefinition_erase]
    exact documentEntries_erase c _ ds

/-- **the printer ignores source positions** -/
theorem printDocument_erase (c : Cfg) (d : Document) : printDocument c d.erase = printDocument c d := by
  simp [printDocument, Document.erase, documentEntries_erase]

/-! ### dropping member descriptions commutes with erasing positions -/

theorem stripIV_erase (d : InputValueDefinition) : stripIV d.erase = (stripIV d).erase := by
  simp [stripIV, InputValueDefinition.erase]

theorem stripFD_erase (d : FieldDefinition) : stripFD d.erase = (stripFD d).erase := by
  simp [stripFD, FieldDefinition.erase, List.map_map, Function.comp_def, stripIV_erase]

theorem stripEV_erase (d : EnumValueDefinition) : stripEV d.erase = (stripEV d).erase := by
  simp [stripEV, EnumValueDefinition.erase]

theorem stripDef_erase (x : Definition) : stripDef x.erase = (stripDef x).erase := by
  cases x <;>
    simp [stripDef, Definition.erase, List.map_map, Function.comp_def, stripFD_erase, stripEV_erase, stripIV_erase]

theorem stripMemberDescriptions_erase (d : Document) :
    stripMemberDescriptions d.erase = (stripMemberDescriptions d).erase := by
  simp [stripMemberDescriptions, Document.erase, List.map_map, Function.comp_def, stripDef_erase]

end PyGql.Print

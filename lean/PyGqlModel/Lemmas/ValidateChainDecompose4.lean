/-
  THE VERDICT OF A CHAIN IS THE CONJUNCTION OF ITS MEMBERS RUN ALONE, part 4: ATTRIBUTION in the chain. The simulation of
  part 2 with a set `S` of TRACKED members: if every tracked member, run alone, adds no error over a visit and no
  untracked member adds an error in the chain, then nobody skips and the tracked members stay related (`GoodS`).
  Consequence (`Props/C06_chain.lean: chainM_attribution`): when all members but one are silent alone and the chain
  records an error, the chain records an error OF THAT MEMBER.
-/
import PyGqlModel.Lemmas.ValidateChainDecompose3
namespace PyGql.Validate
open PyGql

theorem countOf_append (a b : List Rule) (q : Rule) : countOf (a ++ b) q = countOf a q + countOf b q := by
  simp [countOf, List.filter_append]

theorem countOf_pos_of_mine {X : List Rule} {q : Rule} (h : ∀ x ∈ X, x = q) (hne : 0 < X.length) : 0 < countOf X q := by
  unfold countOf
  rw [filter_mine q X h]; exact hne

section
variable {er : ER} (F : Framed er) (c : Cfg) (n : Node) (ti : TI)
include F

theorem er_monoC (r q : Rule) (a : RS) : countOf a.errs q ≤ countOf (er c.schema c.fixes r n ti a).1.errs q := by
  rw [F.errs, countOf_append]; omega

theorem er_skip_count (r : Rule) (a : RS) (h : (er c.schema c.fixes r n ti a).2 = true) :
    countOf a.errs r < countOf (er c.schema c.fixes r n ti a).1.errs r := by
  have hl := F.skip _ _ _ _ _ _ h
  rw [F.errs] at hl ⊢
  rw [countOf_append]
  have : 0 < countOf (er c.schema c.fixes r n ti (a.own r)).1.errs r :=
    countOf_pos_of_mine (F.mine _ _ _ _ _ a) (by simp at hl; omega)
  omega

theorem enterRulesPar_monoC (q : Rule) : ∀ (rules : List Rule) (a : RS),
    countOf a.errs q ≤ countOf (enterRulesPar er c n ti rules a).1.errs q
  | [], a => Nat.le_refl _
  | r1 :: rest, a => by
    rw [enterRulesPar_cons]
    exact Nat.le_trans (er_monoC F c n ti r1 q a) (enterRulesPar_monoC q rest _)

/-- if the chain skips, some member's error count has just grown -/
theorem enterRulesPar_skip_count : ∀ (rules : List Rule) (a : RS), (enterRulesPar er c n ti rules a).2 = true →
    ∃ q ∈ rules, countOf a.errs q < countOf (enterRulesPar er c n ti rules a).1.errs q
  | [], a, h => by simp [enterRulesPar] at h
  | r1 :: rest, a, h => by
    rw [enterRulesPar_cons] at h ⊢
    simp only [Bool.or_eq_true] at h
    rcases h with h | h
    · exact ⟨r1, List.mem_cons_self .., Nat.lt_of_lt_of_le (er_skip_count F c n ti r1 a h)
        (enterRulesPar_monoC F c n ti r1 rest _)⟩
    · obtain ⟨q, hq, hlt⟩ := enterRulesPar_skip_count rest _ h
      exact ⟨q, List.mem_cons_of_mem _ hq, Nat.lt_of_le_of_lt (er_monoC F c n ti r1 q a) hlt⟩

end

theorem lr_monoC (s : SchemaD) (fx : Fixes) (n : Node) (ti : TI) (r q : Rule) (a : RS) :
    countOf a.errs q ≤ countOf (leaveRule s fx r n ti a).errs q := by
  rw [leaveRule_errs, countOf_append]; omega

theorem leaveFold_monoC (s : SchemaD) (fx : Fixes) (n : Node) (ti : TI) (q : Rule) : ∀ (l : List Rule) (a : RS),
    countOf a.errs q ≤ countOf (l.foldl (fun rs r => leaveRule s fx r n ti rs) a).errs q
  | [], a => Nat.le_refl _
  | r1 :: rest, a => by
    simp only [List.foldl_cons]
    exact Nat.le_trans (lr_monoC s fx n ti r1 q a) (leaveFold_monoC s fx n ti q rest _)

/-- errors of member `q` recorded so far -/
def Cq (q : Rule) (st : St) : Nat := countOf st.rs.errs q

section
variable {er : ER} (F : Framed er) (c : Cfg) (n : Node)
include F

theorem enterPar_monoC (q : Rule) (st : St) : Cq q st ≤ Cq q (enterPar er c n st).1 := by
  rw [enterPar_unfold]; exact enterRulesPar_monoC F c n _ q c.rules st.rs

theorem enterPar_skip_count (st : St) (h : (enterPar er c n st).2 = true) :
    ∃ q ∈ c.rules, Cq q st < Cq q (enterPar er c n st).1 := by
  rw [enterPar_unfold] at h ⊢; exact enterRulesPar_skip_count F c n _ c.rules st.rs h

omit F in
theorem leavePar_monoC (q : Rule) (st : St) : Cq q st ≤ Cq q (leavePar er c n st) := by
  unfold leavePar Cq; exact leaveFold_monoC _ _ _ _ q _ _

omit F in
theorem leaveSkippedPar_monoC (q : Rule) (st0 st1 : St) : Cq q st1 ≤ Cq q (leaveSkippedPar er c n st0 st1) := by
  unfold leaveSkippedPar Cq; exact leaveFold_monoC _ _ _ _ q _ _

end

/-- with a set `S` of tracked members -/
structure GoodS (W : Walker) : Prop where
  mono : ∀ c st, E st ≤ E (W c st)
  monoC : ∀ c st q, Cq q st ≤ Cq q (W c st)
  sim : ∀ (c : Cfg), c.rules.Nodup → ∀ (S : Rule → Prop) (st : St) (f : Rule → St),
    (∀ r ∈ c.rules, S r → Rel r st (f r)) →
    (∀ r ∈ c.rules, S r → E (W (c.only r) (f r)) = E (f r)) →
    (∀ q ∈ c.rules, ¬ S q → Cq q (W c st) = Cq q st) →
    ∀ r ∈ c.rules, S r → Rel r (W c st) (W (c.only r) (f r))

theorem GoodS.id : GoodS (fun _ st => st) :=
  ⟨fun _ _ => Nat.le_refl _, fun _ _ _ => Nat.le_refl _, fun _ _ _ _ _ h _ _ => h⟩

theorem GoodS.comp {W1 W2 : Walker} (h1 : GoodS W1) (h2 : GoodS W2) : GoodS (fun c st => W2 c (W1 c st)) where
  mono c st := Nat.le_trans (h1.mono c st) (h2.mono c _)
  monoC c st q := Nat.le_trans (h1.monoC c st q) (h2.monoC c _ q)
  sim c hnd S st f hrel hq hu := by
    have q1 : ∀ r ∈ c.rules, S r → E (W1 (c.only r) (f r)) = E (f r) := fun r hr hs => by
      have a := h1.mono (c.only r) (f r)
      have b := h2.mono (c.only r) (W1 (c.only r) (f r))
      have := hq r hr hs
      try simp only at this
      omega
    have u1 : ∀ q ∈ c.rules, ¬ S q → Cq q (W1 c st) = Cq q st := fun q hq' hs => by
      have a := h1.monoC c st q
      have b := h2.monoC c (W1 c st) q
      have := hu q hq' hs
      try simp only at this
      omega
    have r1 := h1.sim c hnd S st f hrel q1 u1
    have q2 : ∀ r ∈ c.rules, S r → E (W2 (c.only r) (W1 (c.only r) (f r))) = E (W1 (c.only r) (f r)) := fun r hr hs => by
      have a := h1.mono (c.only r) (f r)
      have b := h2.mono (c.only r) (W1 (c.only r) (f r))
      have := hq r hr hs
      try simp only at this
      omega
    have u2 : ∀ q ∈ c.rules, ¬ S q → Cq q (W2 c (W1 c st)) = Cq q (W1 c st) := fun q hq' hs => by
      have a := h1.monoC c st q
      have b := h2.monoC c (W1 c st) q
      have := hu q hq' hs
      try simp only at this
      omega
    exact h2.sim c hnd S _ _ r1 q2 u2

theorem GoodS.foldl {α : Type} (W : α → Walker) : ∀ (l : List α), (∀ x ∈ l, GoodS (W x)) →
    GoodS (fun c st => l.foldl (fun st x => W x c st) st)
  | [], _ => GoodS.id
  | x :: xs, h =>
    GoodS.comp (h x (List.mem_cons_self ..)) (GoodS.foldl W xs fun y hy => h y (List.mem_cons_of_mem _ hy))

theorem GoodS.ite (b : Bool) {W : Walker} (h : GoodS W) : GoodS (fun c st => if b then W c st else st) := by
  cases b
  · exact GoodS.id
  · exact h

theorem GoodS.congr {W W' : Walker} (h : GoodS W') (e : ∀ c st, W c st = W' c st) : GoodS W := by
  have : W = W' := funext fun c => funext fun st => e c st
  rw [this]; exact h

theorem GoodS.node {er : ER} (F : Framed er) (n : Node) {B : Walker} (hB : GoodS B) :
    GoodS (fun c st => visitNodePar er c n (B c) st) where
  mono c st := by
    cases hs : (enterPar er c n st).2
    · simp only [visitNodePar_noSkip hs]
      exact Nat.le_trans (enterPar_mono F c n st) (Nat.le_trans (hB.mono c _) (leavePar_mono c n _))
    · simp only [visitNodePar_skip hs]
      exact Nat.le_trans (enterPar_mono F c n st) (leaveSkippedPar_mono c n st _)
  monoC c st q := by
    cases hs : (enterPar er c n st).2
    · simp only [visitNodePar_noSkip hs]
      exact Nat.le_trans (enterPar_monoC F c n q st) (Nat.le_trans (hB.monoC c _ q) (leavePar_monoC c n q _))
    · simp only [visitNodePar_skip hs]
      exact Nat.le_trans (enterPar_monoC F c n q st) (leaveSkippedPar_monoC c n q st _)
  sim c hnd S st f hrel hq hu := by
    -- the tracked members do not skip alone
    have hr0 : ∀ r ∈ c.rules, S r → (enterPar er (c.only r) n (f r)).2 = false := fun r hr hs =>
      quiet_not_skipped F (c.only r) n (B (c.only r)) (f r) (hq r hr hs)
    -- related after `enter`
    have hrel1 : ∀ r ∈ c.rules, S r → Rel r (enterPar er c n st).1 (enterPar er (c.only r) n (f r)).1 :=
      fun r hr hs => enterPar_rel F c n hnd hr (hrel r hr hs)
    -- the chain does not skip
    have h0 : (enterPar er c n st).2 = false := by
      cases hk : (enterPar er c n st).2
      · rfl
      · exfalso
        obtain ⟨q, hq', hlt⟩ := enterPar_skip_count F c n st hk
        by_cases hs : S q
        · -- a tracked member: its lone run grew as well
          have e0 : E (f q) = Cq q st := by
            have := (hrel q hq' hs).2.2
            simp only [E, Cq, countOf, this]
          have e1 : E (enterPar er (c.only q) n (f q)).1 = Cq q (enterPar er c n st).1 := by
            have := (hrel1 q hq' hs).2.2
            simp only [E, Cq, countOf, this]
          have hquiet := hq q hq' hs
          simp only [visitNodePar_noSkip (hr0 q hq' hs)] at hquiet
          have a := hB.mono (c.only q) (enterPar er (c.only q) n (f q)).1
          have b := leavePar_mono (er := er) (c.only q) n (B (c.only q) (enterPar er (c.only q) n (f q)).1)
          omega
        · have hun := hu q hq' hs
          simp only [visitNodePar_skip hk] at hun
          have b := leaveSkippedPar_monoC (er := er) c n q st (enterPar er c n st).1
          omega
    have hq1 : ∀ r ∈ c.rules, S r →
        E (B (c.only r) (enterPar er (c.only r) n (f r)).1) = E (enterPar er (c.only r) n (f r)).1 := fun r hr hs => by
      have := hq r hr hs
      simp only [visitNodePar_noSkip (hr0 r hr hs)] at this
      have a := enterPar_mono F (c.only r) n (f r)
      have b := hB.mono (c.only r) (enterPar er (c.only r) n (f r)).1
      have d := leavePar_mono (er := er) (c.only r) n (B (c.only r) (enterPar er (c.only r) n (f r)).1)
      omega
    have hu1 : ∀ q ∈ c.rules, ¬ S q → Cq q (B c (enterPar er c n st).1) = Cq q (enterPar er c n st).1 := fun q hq' hs => by
      have := hu q hq' hs
      simp only [visitNodePar_noSkip h0] at this
      have a := enterPar_monoC F c n q st
      have b := hB.monoC c (enterPar er c n st).1 q
      have d := leavePar_monoC (er := er) c n q (B c (enterPar er c n st).1)
      omega
    have hrel2 := hB.sim c hnd S _ _ hrel1 hq1 hu1
    intro r hr hs
    simp only [visitNodePar_noSkip h0, visitNodePar_noSkip (hr0 r hr hs)]
    exact leavePar_rel c n hnd hr (hrel2 r hr hs)

end PyGql.Validate

/-
  C12 text level — basic facts about the total printer model `SdlPrintT`: `strip`/`rstrip` are the identity on what
  the printer passes to them, keyword literals, `joinSep`, leaves.
-/
import PyGqlModel.SdlText
import PyGqlModel.Lemmas.PrintLayGen
namespace PyGql.SdlText
open PyGql PyGql.Ast PyGql.Sdl PyGql.Spec PyGql.PrintLex PyGql.PrintTokens PyGql.PrintString

theorem joinSep_eq : @SdlPrintT.joinSep = @Print.joinSep := by
  funext sep xs
  induction xs with
  | nil => rfl
  | cons x xs ih =>
    cases xs with
    | nil => rfl
    | cons y ys => simp [SdlPrintT.joinSep, Print.joinSep, ih]

/-! ### `strip` -/

theorem rstrip_of_last (s : Text) (c : Nat) (h : s.getLast? = some c) (hc : SdlPrintT.isWs c = false) :
    SdlPrintT.rstrip s = s := by
  obtain ⟨pre, rfl⟩ : ∃ pre, s = pre ++ [c] := by
    rw [List.getLast?_eq_some_iff] at h; exact h
  simp [SdlPrintT.rstrip, List.dropWhile, hc]

theorem lstrip_of_head (c : Nat) (t : Text) (hc : SdlPrintT.isWs c = false) : SdlPrintT.lstrip (c :: t) = c :: t := by
  simp [SdlPrintT.lstrip, List.dropWhile, hc]

theorem strip_of_ends (c : Nat) (t : Text) (l : Nat) (h : (c :: t).getLast? = some l) (hc : SdlPrintT.isWs c = false)
    (hl : SdlPrintT.isWs l = false) : SdlPrintT.strip (c :: t) = c :: t := by
  unfold SdlPrintT.strip
  rw [rstrip_of_last _ l h hl, lstrip_of_head c t hc]

/-- "the text is not empty and its last character is not white space" -/
def EndsNW (s : Text) : Prop := ∃ c, s.getLast? = some c ∧ SdlPrintT.isWs c = false

theorem endsNW_append {a b : Text} (hb : EndsNW b) : EndsNW (a ++ b) := by
  obtain ⟨c, h, hc⟩ := hb
  refine ⟨c, ?_, hc⟩
  rw [List.getLast?_append, h]; rfl

theorem endsNW_append_nil {a b : Text} (ha : EndsNW a) (hb : b = [] ∨ EndsNW b) : EndsNW (a ++ b) := by
  rcases hb with rfl | hb
  · simpa using ha
  · exact endsNW_append hb

theorem endsNW_single (c : Nat) (hc : SdlPrintT.isWs c = false) : EndsNW [c] := ⟨c, rfl, hc⟩

theorem endsNW_snoc (a : Text) (c : Nat) (hc : SdlPrintT.isWs c = false) : EndsNW (a ++ [c]) :=
  endsNW_append (endsNW_single c hc)

theorem rstrip_of_endsNW {s : Text} (h : EndsNW s) : SdlPrintT.rstrip s = s := by
  obtain ⟨c, h1, h2⟩ := h; exact rstrip_of_last s c h1 h2

theorem nameCont_notWs (c : Nat) (h : Spec.Lexical.isNameCont c = true) : SdlPrintT.isWs c = false := by
  have hlt : c < 128 := by
    simp [Spec.Lexical.isNameCont, Spec.Lexical.isNameStart, Spec.Lexical.isLetter, Spec.Lexical.isDigit] at h; omega
  have key : ∀ c, c < 128 → Spec.Lexical.isNameCont c = true → SdlPrintT.isWs c = false := by decide
  exact key c hlt h

theorem endsNW_name {w : Text} (h : Spec.Lexical.isName w = true) : EndsNW w := by
  cases w with
  | nil => simp [Spec.Lexical.isName] at h
  | cons a t =>
    simp only [Spec.Lexical.isName, Bool.and_eq_true, List.all_eq_true] at h
    cases ht : t.getLast? with
    | none =>
      have : t = [] := List.getLast?_eq_none_iff.1 ht
      subst this
      exact endsNW_single a (nameCont_notWs a (by simp [Spec.Lexical.isNameCont, h.1]))
    | some c =>
      refine ⟨c, by rw [List.getLast?_cons, ht]; rfl, nameCont_notWs c (h.2 c (List.mem_of_getLast? ht))⟩

theorem headNW_name {w : Text} (h : Spec.Lexical.isName w = true) : ∃ c t, w = c :: t ∧ SdlPrintT.isWs c = false := by
  cases w with
  | nil => simp [Spec.Lexical.isName] at h
  | cons a t =>
    simp only [Spec.Lexical.isName, Bool.and_eq_true] at h
    exact ⟨a, t, rfl, nameCont_notWs a (by simp [Spec.Lexical.isNameCont, h.1])⟩

/-! ### types -/

theorem lexOkType_typeOf (ty : Ty) (h : tyOK ty = true) : lexOkType (typeOf ty) = true := by
  induction ty with
  | named n => simpa [tyOK, nameOK, typeOf, namedOf, nameOf, lexOkType] using h
  | list t ih => simp only [tyOK] at h; simpa [typeOf, lexOkType] using ih h
  | nonNull t ih => simp only [tyOK, Bool.and_eq_true] at h; simpa [typeOf, lexOkType] using ih h.1

theorem renderTy_eq (ty : Ty) : SdlPrintT.renderTy ty = Print.printType (typeOf ty) := by
  induction ty with
  | named n => rfl
  | list t ih => simp [SdlPrintT.renderTy, typeOf, Print.printType, ih]
  | nonNull t ih => simp [SdlPrintT.renderTy, typeOf, Print.printType, ih]

theorem lay_renderTy (ty : Ty) (h : tyOK ty = true) : Lay (SdlPrintT.renderTy ty) (typeV (typeOf ty)).yield := by
  rw [renderTy_eq]; exact lay_type _ (lexOkType_typeOf ty h)

theorem endsNW_renderTy (ty : Ty) (h : tyOK ty = true) : EndsNW (SdlPrintT.renderTy ty) := by
  induction ty with
  | named n => simp only [tyOK, nameOK] at h; exact endsNW_name h
  | list t ih => exact endsNW_snoc (91 :: SdlPrintT.renderTy t) 93 (by decide)
  | nonNull t ih => exact endsNW_snoc _ 33 (by decide)

theorem wfType_typeOf (ty : Ty) (h : tyOK ty = true) : wfType (typeOf ty) = true := by
  induction ty with
  | named n => rfl
  | list t ih => simp only [tyOK] at h; simpa [typeOf, wfType] using ih h
  | nonNull t ih =>
    simp only [tyOK, Bool.and_eq_true, Bool.not_eq_true'] at h
    simp only [typeOf, wfType, Bool.and_eq_true, Bool.not_eq_true']
    refine ⟨ih h.1, ?_⟩
    cases t <;> simp_all [typeOf, isNonNull, Ty.isNonNull]

theorem noLocType_typeOf (ty : Ty) : noLocType (typeOf ty) = true := by
  induction ty with
  | named n => rfl
  | list t ih => simpa [typeOf, noLocType] using ih
  | nonNull t ih => simpa [typeOf, noLocType] using ih

/-- a name and its view -/
theorem lay_nameOf (n : String) (h : nameOK n = true) : Lay (T n) (nameV (nameOf n)).yield := by
  simpa [nameOf, nameV, Item.yield, Item.yieldAll] using lay_name (w := T n) h

end PyGql.SdlText

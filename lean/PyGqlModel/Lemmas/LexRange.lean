/-
  Every error the lexer model can produce carries a position ≤ n + 1 (n = length of the source),
  and only `NonTerminatedString` can be at n + 1.
-/
import PyGqlModel.Lex

namespace PyGql.Lex

/-- the error position is inside `[0, n]`, or it is the `NonTerminatedString` at `n + 1` -/
def ErrPos (n : Nat) (e : SynErr) : Prop :=
  e.pos ≤ n ∨ (e.pos = n + 1 ∧ e.kind = .nonTerminatedString)

/-- a reader's error: position as above, and it is a real `GraphQLSyntaxError` subclass (not the model's `fuel`) -/
def ErrOK (n : Nat) (e : SynErr) : Prop := ErrPos n e ∧ e.kind ≠ .fuel

def Bounded {α} (n : Nat) (r : R α) : Prop := ∀ e, r = .error e → ErrOK n e

theorem ErrOK.inside {n : Nat} {k : ErrKind} {p : Nat} (h : p ≤ n) (hk : k ≠ .fuel := by decide) : ErrOK n ⟨k, p⟩ :=
  ⟨Or.inl h, hk⟩
theorem errOK_posAt (n : Nat) (k : ErrKind) (t : Text) (hk : k ≠ .fuel := by decide) : ErrOK n ⟨k, posAt n t⟩ :=
  ⟨Or.inl (Nat.sub_le _ _), hk⟩
theorem errOK_posAt_pred (n : Nat) (k : ErrKind) (t : Text) (hk : k ≠ .fuel := by decide) : ErrOK n ⟨k, posAt n t - 1⟩ :=
  ⟨Or.inl (Nat.le_trans (Nat.sub_le _ _) (Nat.sub_le _ _)), hk⟩
theorem errOK_eof (n : Nat) : ErrOK n ⟨.nonTerminatedString, n + 1⟩ := ⟨Or.inr ⟨rfl, rfl⟩, by simp⟩

theorem bounded_ok {α} (n : Nat) (a : α) : Bounded n (.ok a : R α) := by
  intro e h; cases h

theorem bounded_error {α} (n : Nat) (e : SynErr) (h : ErrOK n e) : Bounded n (.error e : R α) := by
  intro e' h'; cases h'; exact h

theorem bounded_map {α β} (n : Nat) (r : R α) (f : α → β) (h : Bounded n r) : Bounded n (r.map f) := by
  intro e he
  cases r with
  | ok a => cases he
  | error e' => cases he; exact h _ rfl

theorem readDots_bounded (n k : Nat) (s : Text) : Bounded n (readDots n k s) := by
  induction k generalizing s with
  | zero => exact bounded_ok _ _
  | succ k ih =>
    cases s with
    | nil => exact bounded_error _ _ (ErrOK.inside (Nat.le_refl _))
    | cons c t =>
      simp only [readDots]
      split
      · exact ih t
      · exact bounded_error _ _ (errOK_posAt _ _ _)

theorem readEllipsis_bounded (n : Nat) (s : Text) : Bounded n (readEllipsis n s) := by
  intro e he
  unfold readEllipsis at he
  split at he
  · rename_i e' h'; cases he; exact readDots_bounded n 3 s _ h'
  · cases he

theorem shortUnicodeErr_ok (n : Nat) (t : Text) : ErrOK n (shortUnicodeErr n t) := by
  unfold shortUnicodeErr
  split
  · exact errOK_eof n
  · exact errOK_posAt_pred _ _ _

theorem readStringBody_bounded (n : Nat) (s : Text) : Bounded n (readStringBody n s) := by
  fun_induction readStringBody n s <;>
    first
    | exact bounded_ok _ _
    | exact bounded_error _ _ (ErrOK.inside (Nat.le_refl _))
    | exact bounded_error _ _ (errOK_eof n)
    | exact bounded_error _ _ (errOK_posAt_pred _ _ _)
    | exact bounded_error _ _ (shortUnicodeErr_ok _ _)
    | (rename_i hrec _ ih; exact bounded_error _ _ (ih _ hrec))
    | (rename_i hrec ih; exact bounded_error _ _ (ih _ hrec))
    | (rename_i hrec _ _ ih; exact bounded_error _ _ (ih _ hrec))
    | (rename_i hrec _ _ _ ih; exact bounded_error _ _ (ih _ hrec))

theorem pairAt_of_not_high (ch : Nat) (t : Text) (hh : isHighSurrogate ch = false) : pairAt ch t = none := by
  unfold pairAt
  split
  · simp [pairEscape, hh]
  · rfl

/-- a `\uXXXX` escape that is not a high surrogate is one code unit (no pairing) -/
theorem readStringBody_unicode_single (n : Nat) (a b c d ch : Nat) (t2 : Text) (hx : hex4 a b c d = some ch)
    (hh : isHighSurrogate ch = false) :
    readStringBody n (92 :: 117 :: a :: b :: c :: d :: t2) =
      match readStringBody n t2 with
      | .ok (v, r) => .ok (ch :: v, r)
      | .error err => .error err := by
  have hq : quoted 117 = none := by decide
  rw [readStringBody.eq_def]
  simp only [Nat.reduceEqDiff, ↓reduceIte, hq, hx, pairAt_of_not_high ch t2 hh]
  cases readStringBody n t2 with
  | ok p => obtain ⟨v, r⟩ := p; rfl
  | error e => rfl

theorem readString_bounded (n : Nat) (s : Text) : Bounded n (readString n s) := by
  intro e he
  unfold readString at he
  split at he
  · rename_i e' h'; cases he; exact readStringBody_bounded n _ _ h'
  · cases he

theorem readBlockBody_bounded (n k : Nat) (s : Text) : Bounded n (readBlockBody n k s) := by
  fun_induction readBlockBody n k s <;>
    first
      | exact bounded_ok _ _
      | exact bounded_error _ _ (ErrOK.inside (Nat.le_refl _))
      | exact bounded_error _ _ (errOK_posAt_pred _ _ _)
      | (rename_i ih; exact ih)
      | (rename_i e hrec ih; exact bounded_error _ _ (ih _ hrec))

theorem readBlockString_bounded (n : Nat) (s : Text) : Bounded n (readBlockString n s) := by
  intro e he
  unfold readBlockString at he
  split at he
  · rename_i e' h'; cases he; exact readBlockBody_bounded n 0 _ _ h'
  · cases he

theorem readOverDigits_bounded (n : Nat) (s : Text) : Bounded n (readOverDigits n s) := by
  unfold readOverDigits
  split
  · exact bounded_error _ _ (ErrOK.inside (Nat.le_refl _))
  · split
    · exact bounded_ok _ _
    · exact bounded_error _ _ (errOK_posAt _ _ _)

theorem readOverInteger_bounded (n : Nat) (s : Text) : Bounded n (readOverInteger n s) := by
  unfold readOverInteger
  split
  · exact bounded_error _ _ (ErrOK.inside (Nat.le_refl _))
  · split
    · split
      · exact bounded_ok _ _
      · split
        · exact bounded_error _ _ (errOK_posAt _ _ _)
        · exact bounded_ok _ _
    · exact readOverDigits_bounded _ _

theorem readFraction_bounded (n : Nat) (s : Text) : Bounded n (readFraction n s) := by
  unfold readFraction
  split
  · split
    · exact bounded_map _ _ _ (readOverDigits_bounded _ _)
    · exact bounded_ok _ _
  · exact bounded_ok _ _

theorem readExponent_bounded (n : Nat) (s : Text) : Bounded n (readExponent n s) := by
  unfold readExponent
  split
  · split
    · exact bounded_map _ _ _ (readOverDigits_bounded _ _)
    · exact bounded_ok _ _
  · exact bounded_ok _ _

theorem numberLookahead_bounded (n : Nat) (s : Text) : Bounded n (numberLookahead n s) := by
  unfold numberLookahead
  split
  · split
    · exact bounded_error _ _ (errOK_posAt _ _ _)
    · exact bounded_ok _ _
  · exact bounded_ok _ _

theorem bounded_bind {α β} (n : Nat) (r : R α) (f : α → R β) (h : Bounded n r) (hf : ∀ a, Bounded n (f a)) :
    Bounded n (r >>= f) := by
  intro e he
  cases r with
  | ok a => exact hf a e he
  | error e' => cases he; exact h _ rfl

theorem readNumber_bounded (n : Nat) (s : Text) : Bounded n (readNumber n s) := by
  unfold readNumber
  refine bounded_bind _ _ _ (readOverInteger_bounded _ _) (fun s2 => ?_)
  refine bounded_bind _ _ _ (readFraction_bounded _ _) (fun p1 => ?_)
  refine bounded_bind _ _ _ (readExponent_bounded _ _) (fun p2 => ?_)
  refine bounded_bind _ _ _ (numberLookahead_bounded _ _) (fun _ => ?_)
  exact bounded_ok _ _

theorem next_bounded (n : Nat) (s : Text) : Bounded n (next n s) := by
  unfold next
  split
  · exact bounded_ok _ _
  · simp only
    split
    · exact bounded_error _ _ (errOK_posAt _ _ _)
    · split
      · exact bounded_ok _ _
      · split
        · exact bounded_map _ _ _ (readEllipsis_bounded _ _)
        · split
          · exact bounded_map _ _ _ (readBlockString_bounded _ _)
          · split
            · exact bounded_map _ _ _ (readString_bounded _ _)
            · split
              · exact bounded_map _ _ _ (readNumber_bounded _ _)
              · split
                · exact bounded_map _ _ _ (bounded_ok _ _)
                · exact bounded_error _ _ (errOK_posAt _ _ _)

end PyGql.Lex

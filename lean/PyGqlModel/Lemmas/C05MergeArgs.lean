/-
  C05 — `MergeSafe` from the clause of 5.3.2, part 1: ARGUMENTS. `_same_arguments` (sort both argument lists by name,
  compare pairwise with `_same_value`) on two lists with pairwise distinct names (UniqueArgumentNames) means: the two
  lists bind every name to the SAME literal — hence `coerce_argument_values`, which reads the node's arguments only
  through a lookup by name, computes the same keyword arguments (`argsTable_of_sameArguments`).
-/
import PyGqlModel.Props.C05_bridge
import PyGqlModel.Lemmas.ValidateOverlapFuel

set_option linter.unusedSimpArgs false
set_option linter.unusedVariables false

namespace PyGql.Props.C05
open PyGql PyGql.Validate

mutual
theorem sameValue_eq : ∀ a b : Value, sameValue a b = true → a = b
  | .list as, .list bs, h => by rw [sameValue] at h; rw [sameValues_eq as bs h]
  | .obj fs, .obj gs, h => by rw [sameValue] at h; rw [sameFields_eq fs gs h]
  | .var a, .var b, h => by simp only [sameValue, beq_iff_eq] at h; rw [h]
  | .int a, .int b, h => by simp only [sameValue, beq_iff_eq] at h; rw [h]
  | .float a, .float b, h => by simp only [sameValue, beq_iff_eq] at h; rw [h]
  | .str a, .str b, h => by simp only [sameValue, beq_iff_eq] at h; rw [h]
  | .bool a, .bool b, h => by simp only [sameValue, beq_iff_eq] at h; rw [h]
  | .enum a, .enum b, h => by simp only [sameValue, beq_iff_eq] at h; rw [h]
  | .null, .null, _ => rfl
  | .var _, .int _, h | .var _, .float _, h | .var _, .str _, h | .var _, .bool _, h
  | .var _, .null, h | .var _, .enum _, h | .var _, .list _, h | .var _, .obj _, h
  | .int _, .var _, h | .int _, .float _, h | .int _, .str _, h | .int _, .bool _, h
  | .int _, .null, h | .int _, .enum _, h | .int _, .list _, h | .int _, .obj _, h
  | .float _, .var _, h | .float _, .int _, h | .float _, .str _, h | .float _, .bool _, h
  | .float _, .null, h | .float _, .enum _, h | .float _, .list _, h | .float _, .obj _, h
  | .str _, .var _, h | .str _, .int _, h | .str _, .float _, h | .str _, .bool _, h
  | .str _, .null, h | .str _, .enum _, h | .str _, .list _, h | .str _, .obj _, h
  | .bool _, .var _, h | .bool _, .int _, h | .bool _, .float _, h | .bool _, .str _, h
  | .bool _, .null, h | .bool _, .enum _, h | .bool _, .list _, h | .bool _, .obj _, h
  | .null, .var _, h | .null, .int _, h | .null, .float _, h | .null, .str _, h
  | .null, .bool _, h | .null, .enum _, h | .null, .list _, h | .null, .obj _, h
  | .enum _, .var _, h | .enum _, .int _, h | .enum _, .float _, h | .enum _, .str _, h
  | .enum _, .bool _, h | .enum _, .null, h | .enum _, .list _, h | .enum _, .obj _, h
  | .list _, .var _, h | .list _, .int _, h | .list _, .float _, h | .list _, .str _, h
  | .list _, .bool _, h | .list _, .null, h | .list _, .enum _, h | .list _, .obj _, h
  | .obj _, .var _, h | .obj _, .int _, h | .obj _, .float _, h | .obj _, .str _, h
  | .obj _, .bool _, h | .obj _, .null, h | .obj _, .enum _, h | .obj _, .list _, h => by
    simp [sameValue] at h
theorem sameValues_eq : ∀ as bs : List Value, sameValues as bs = true → as = bs
  | [], [], _ => rfl
  | [], _ :: _, h => by simp [sameValues] at h
  | _ :: _, [], h => by simp [sameValues] at h
  | a :: as, b :: bs, h => by
    simp only [sameValues, Bool.and_eq_true] at h
    rw [sameValue_eq a b h.1, sameValues_eq as bs h.2]
theorem sameFields_eq : ∀ fs gs : List ObjField, sameFields fs gs = true → fs = gs
  | [], [], _ => rfl
  | [], f :: _, h => by cases f; simp [sameFields] at h
  | f :: _, [], h => by cases f; simp [sameFields] at h
  | .mk n a :: fs, .mk m b :: gs, h => by
    simp only [sameFields, Bool.and_eq_true, beq_iff_eq] at h
    rw [h.1.1, sameValue_eq a b h.1.2, sameFields_eq fs gs h.2]
end

/-- the zip comparison succeeds on lists of equal length only if they are equal -/
theorem sameArgsZip_eq : ∀ a b : List Arg, a.length = b.length → sameArgsZip a b = some true → a = b
  | [], [], _, _ => rfl
  | [], _ :: _, hl, _ => by simp at hl
  | _ :: _, [], hl, _ => by simp at hl
  | x :: xs, y :: ys, hl, h => by
    rw [sameArgsZip] at h
    by_cases hn : x.name = y.name
    · by_cases hv : sameValue x.value y.value = true
      · simp only [hn, bne_self_eq_false, Bool.false_eq_true, if_false, hv, if_true] at h
        have := sameArgsZip_eq xs ys (by simpa using hl) h
        have hx : x = y := by
          cases x; cases y
          simp only at hn hv
          rw [hn, sameValue_eq _ _ hv]
        rw [hx, this]
      · simp [hn, hv] at h
    · have : (x.name != y.name) = true := by simpa using hn
      simp [this] at h

/-- lookup by name (as `coerce_argument_values` reads the argument nodes) -/
def argLookup (n : String) (as : List Arg) : Option Value := Coerce.lookupLast n (as.map fun a => (a.name, a.value))

theorem lookupLast_none_of_not_mem {α} (n : String) : ∀ (l : List (String × α)), n ∉ l.map (·.1) → Coerce.lookupLast n l = none
  | [], _ => rfl
  | (k, v) :: rest, h => by
    simp only [List.map_cons, List.mem_cons, not_or] at h
    have hk : (k == n) = false := by
      have : ¬ k = n := fun e => h.1 e.symm
      simpa using this
    simp [Coerce.lookupLast, lookupLast_none_of_not_mem n rest h.2, hk]

theorem insertArg_names (a : Arg) : ∀ acc : List Arg, ∀ n, n ∈ (insertArg a acc).map (·.name) ↔ n = a.name ∨ n ∈ acc.map (·.name)
  | [], n => by simp [insertArg]
  | b :: bs, n => by
    rw [insertArg]
    split
    · simp
    · simp only [List.map_cons, List.mem_cons, insertArg_names a bs n]
      constructor
      · rintro (h | h | h)
        · exact Or.inr (Or.inl h)
        · exact Or.inl h
        · exact Or.inr (Or.inr h)
      · rintro (h | h | h)
        · exact Or.inr (Or.inl h)
        · exact Or.inl h
        · exact Or.inr (Or.inr h)

theorem insertArg_perm (a : Arg) : ∀ acc : List Arg, ((insertArg a acc).map (·.name)).Perm (a.name :: acc.map (·.name))
  | [] => by simp [insertArg]
  | b :: bs => by
    rw [insertArg]
    split
    · simp
    · simp only [List.map_cons]
      exact (List.Perm.cons _ (insertArg_perm a bs)).trans (List.Perm.swap _ _ _)

/-- inserting an argument whose name is new: the lookup finds it under its name and is unchanged elsewhere -/
theorem argLookup_insertArg (a : Arg) (n : String) : ∀ acc : List Arg, a.name ∉ acc.map (·.name) →
    argLookup n (insertArg a acc) = if a.name == n then some a.value else argLookup n acc
  | [], _ => by simp [insertArg, argLookup, Coerce.lookupLast]
  | b :: bs, h => by
    simp only [List.map_cons, List.mem_cons, not_or] at h
    rw [insertArg]
    split
    · -- a :: b :: bs
      show Coerce.lookupLast n ((a.name, a.value) :: (b :: bs).map fun a => (a.name, a.value)) = _
      rw [Coerce.lookupLast]
      by_cases hn : a.name = n
      · subst hn
        have : Coerce.lookupLast a.name ((b :: bs).map fun a => (a.name, a.value)) = none := by
          apply lookupLast_none_of_not_mem
          simp only [List.map_map, List.map_cons, List.mem_cons, not_or]
          exact ⟨h.1, by simpa [Function.comp_def] using h.2⟩
        simp only [List.map_cons] at this
        simp [this]
      · have hn' : (a.name == n) = false := by simpa using hn
        simp only [hn', Bool.false_eq_true, if_false]
        unfold argLookup
        cases Coerce.lookupLast n ((b :: bs).map fun a => (a.name, a.value)) <;> rfl
    · show Coerce.lookupLast n ((b.name, b.value) :: (insertArg a bs).map fun a => (a.name, a.value)) = _
      rw [Coerce.lookupLast]
      have ih := argLookup_insertArg a n bs h.2
      unfold argLookup at ih
      rw [ih]
      by_cases hn : a.name = n
      · subst hn
        simp
      · have hn' : (a.name == n) = false := by simpa using hn
        simp only [hn', Bool.false_eq_true, if_false]
        show _ = Coerce.lookupLast n ((b.name, b.value) :: bs.map fun a => (a.name, a.value))
        rw [Coerce.lookupLast]

/-- on a list with pairwise distinct names, `sorted(args, key=name)` binds every name as the list does -/
theorem argLookup_sortArgs (n : String) (as : List Arg) (hnd : (as.map (·.name)).Nodup) :
    argLookup n (sortArgs as) = argLookup n as := by
  -- generalise the fold: `acc` holds a reversed prefix
  have key : ∀ (rest acc : List Arg), ((acc.map (·.name)) ++ rest.map (·.name)).Nodup →
      argLookup n (rest.foldl (fun acc a => insertArg a acc) acc)
        = match argLookup n rest with | some v => some v | none => argLookup n acc := by
    intro rest
    induction rest with
    | nil => intro acc _; simp [argLookup, Coerce.lookupLast]
    | cons a rest ih =>
      intro acc hnd
      rw [List.foldl_cons]
      have ha : a.name ∉ acc.map (·.name) := by
        intro hm
        have := List.nodup_append.mp hnd
        exact this.2.2 _ hm _ (by simp) rfl
      have hnd' : (((insertArg a acc).map (·.name)) ++ rest.map (·.name)).Nodup := by
        rw [List.nodup_append] at hnd ⊢
        obtain ⟨h1, h2, h3⟩ := hnd
        simp only [List.map_cons, List.nodup_cons] at h2
        refine ⟨?_, h2.2, ?_⟩
        · -- names of insertArg: a permutation of a :: acc
          exact (insertArg_perm a acc).nodup_iff.mpr (List.nodup_cons.mpr ⟨ha, h1⟩)
        · intro x hx y hy hxy
          rw [insertArg_names] at hx
          rcases hx with hx | hx
          · subst hxy; subst hx; exact h2.1 hy
          · exact h3 x hx y (by simp [hy]) hxy
      rw [ih _ hnd', argLookup_insertArg a n acc ha]
      show _ = match Coerce.lookupLast n ((a.name, a.value) :: rest.map fun a => (a.name, a.value)) with
        | some v => some v | none => argLookup n acc
      rw [Coerce.lookupLast]
      unfold argLookup
      cases Coerce.lookupLast n (rest.map fun a => (a.name, a.value)) <;> by_cases hk : (a.name == n) = true <;> simp [hk]
  have := key as [] (by simpa using hnd)
  unfold sortArgs
  rw [this]
  cases argLookup n as <;> simp [argLookup, Coerce.lookupLast]

theorem sortArgs_length (as : List Arg) : (sortArgs as).length = as.length := by
  have ins : ∀ (a : Arg) (acc : List Arg), (insertArg a acc).length = acc.length + 1 := by
    intro a acc
    induction acc with
    | nil => simp [insertArg]
    | cons b bs ih => rw [insertArg]; split <;> simp [ih]
  have key : ∀ (rest acc : List Arg), (rest.foldl (fun acc a => insertArg a acc) acc).length = acc.length + rest.length := by
    intro rest
    induction rest with
    | nil => simp
    | cons a rest ih => intro acc; rw [List.foldl_cons, ih, ins]; simp; omega
  simpa [sortArgs] using key as []

/-- **same arguments ⇒ same bindings**: `_same_arguments` accepts two argument lists with distinct names only if both
    bind every name to the same literal -/
theorem argLookup_of_sameArguments (a b : List Arg) (ha : (a.map (·.name)).Nodup) (hb : (b.map (·.name)).Nodup)
    (h : sameArguments a b ≠ some false) (n : String) : argLookup n a = argLookup n b := by
  unfold sameArguments at h
  by_cases hl : a.length = b.length
  · have hl' : (a.length != b.length) = false := by simpa using hl
    simp only [hl', Bool.false_eq_true, if_false] at h
    have hs : sameArgsZip (sortArgs a) (sortArgs b) = some true := by
      cases hz : sameArgsZip (sortArgs a) (sortArgs b) with
      | none => exact absurd hz (sameArgsZip_some _ _)
      | some v => cases v; exact absurd hz h; rfl
    have := sameArgsZip_eq _ _ (by rw [sortArgs_length, sortArgs_length, hl]) hs
    rw [← argLookup_sortArgs n a ha, ← argLookup_sortArgs n b hb, this]
  · have hl' : (a.length != b.length) = true := by simpa using hl
    simp [hl'] at h

/-! ### `coerce_argument_values` reads the argument nodes through the lookup only -/

theorem lookupLast_map_litOf (n : String) : ∀ as : List Arg,
    Coerce.lookupLast n (eArgs as) = (argLookup n as).map litOf
  | [] => rfl
  | a :: as => by
    show Coerce.lookupLast n ((a.name, litOf a.value) :: eArgs as) = (Coerce.lookupLast n ((a.name, a.value) :: as.map fun a => (a.name, a.value))).map litOf
    rw [Coerce.lookupLast, Coerce.lookupLast, lookupLast_map_litOf n as]
    unfold argLookup
    cases Coerce.lookupLast n (as.map fun a => (a.name, a.value)) with
    | some v => rfl
    | none => by_cases hk : (a.name == n) = true <;> simp [hk]

theorem coerceArgumentValues_congr (reg : Coerce.Reg) (fuel : Nat) (vars : List (String × Coerce.PV)) (a b : List (String × Coerce.Lit))
    (h : ∀ n, Coerce.lookupLast n a = Coerce.lookupLast n b) :
    ∀ defs, Coerce.coerceArgumentValues reg fuel vars a defs = Coerce.coerceArgumentValues reg fuel vars b defs
  | [] => rfl
  | d :: ds => by
    rw [Coerce.coerceArgumentValues, Coerce.coerceArgumentValues, coerceArgumentValues_congr reg fuel vars a b h ds]
    have : Coerce.coerceArg reg fuel vars a d = Coerce.coerceArg reg fuel vars b d := by
      unfold Coerce.coerceArg
      rw [h d.name]
    rw [this]

/-- **same arguments ⇒ same keyword arguments for every object type defining the field** -/
theorem argsTable_of_sameArguments (s : SchemaD) (env : Exec.ArgEnv) (name : String) (a b : List Arg)
    (ha : (a.map (·.name)).Nodup) (hb : (b.map (·.name)).Nodup) (h : sameArguments a b ≠ some false) :
    Exec.argsTable s env name (eArgs a) = Exec.argsTable s env name (eArgs b) := by
  have hl : ∀ n, Coerce.lookupLast n (eArgs a) = Coerce.lookupLast n (eArgs b) := by
    intro n
    rw [lookupLast_map_litOf, lookupLast_map_litOf, argLookup_of_sameArguments a b ha hb h n]
  unfold Exec.argsTable Exec.argsEntry
  simp only [coerceArgumentValues_congr _ _ _ _ _ hl]

end PyGql.Props.C05

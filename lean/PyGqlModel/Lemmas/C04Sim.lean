/-
  C04 — the SIMULATION: on selection lists that are equal up to repeated selections, whenever the model's collector
  succeeds the specification's collector succeeds too, and the model's visit sequence is the specification's visit
  sequence plus repeats of nodes that already appeared (`RepA`). Invariants: the model's `_seen_fragments` set is
  always contained in the specification's `visitedFragments`; the closure invariant on the visited set.
-/
import PyGqlModel.Lemmas.C04Reach

set_option linter.unusedSimpArgs false
set_option linter.unusedVariables false

namespace PyGql.Props.C04
open PyGql PyGql.Exec PyGql.Spec

section
variable (s : SchemaD) (doc : Doc) (vars : Vars)

/-- selections processed before (`Q`) are covered: their nodes appeared, their names are visited -/
def QCov (obj : String) (Q : Sel → Prop) (AS : FNode → Prop) (V : List String) : Prop :=
  ∀ x, Q x → (∀ n, Reach s doc vars obj [x] n → AS n) ∧ (∀ N, NameReach s doc vars obj [x] N → N ∈ V)

def Sim (rk : String → Nat) (f fS : String → List Sel → List String → SeqRes) : Prop :=
  ∀ (obj : String) (selsS selsM : List Sel) (Q : Sel → Prop) (P AS : FNode → Prop) (seen V : List String) (r : Nat)
    (qM : List FNode) (seen' : List String),
    RepA Q selsS selsM → QCov s doc vars obj Q AS V → (∀ n, AS n → P n) → (∀ N ∈ seen, N ∈ V) →
    Closed s doc vars obj rk r AS V → selsNeed rk selsM ≤ r → selsNeed rk selsS ≤ r →
    f obj selsM seen = .ok (qM, seen') →
    ∃ qS V', fS obj selsS V = .ok (qS, V') ∧ RepA P qS qM ∧ (∀ N ∈ seen', N ∈ V')

private theorem seen3_sub {seen2 V : List String} {name : String} (h2 : ∀ N ∈ seen2, N ∈ V) (hn : name ∈ V) :
    ∀ N ∈ (if seen2.contains name = true then seen2 else seen2 ++ [name]), N ∈ V := by
  intro N hN
  by_cases hc : seen2.contains name = true
  · rw [if_pos hc] at hN; exact h2 N hN
  · rw [if_neg hc] at hN
    simp at hN
    rcases hN with hN | rfl
    · exact h2 N hN
    · exact hn

private theorem seen2_sub {seen seen1 V : List String} (h0 : ∀ N ∈ seen, N ∈ V) (h1 : ∀ N ∈ seen1, N ∈ V) :
    ∀ N ∈ (if seen = [] then seen else seen1), N ∈ V := by
  intro N hN
  by_cases he : seen = []
  · rw [if_pos he] at hN; exact h0 N hN
  · rw [if_neg he] at hN; exact h1 N hN

private theorem mseqStep_sim (rk ek : String → Nat) (B : Nat) (hrk : Ranked doc rk ek B)
    (rec recS : String → List Sel → List String → SeqRes) (hM : ModelSound s doc vars rec) (hS : SpecFacts s doc vars rk recS)
    (hSim : Sim s doc vars rk rec recS) (obj : String) (r : Nat) :
    ∀ (selsS selsM : List Sel) (Q : Sel → Prop), RepA Q selsS selsM →
      ∀ (P AS : FNode → Prop) (seen V : List String) (qM : List FNode) (seen' : List String),
      QCov s doc vars obj Q AS V → (∀ n, AS n → P n) → (∀ N ∈ seen, N ∈ V) → Closed s doc vars obj rk r AS V →
      selsNeed rk selsM ≤ r → selsNeed rk selsS ≤ r →
      mseqStep s doc vars rec obj selsM seen = .ok (qM, seen') →
      ∃ qS V', sseqStep s doc vars recS obj selsS V = .ok (qS, V') ∧ RepA P qS qM ∧ (∀ N ∈ seen', N ∈ V') := by
  intro selsS selsM Q hrep
  induction hrep with
  | nil =>
    intro P AS seen V qM seen' _ _ hsv _ _ _ h
    simp [mseqStep] at h
    obtain ⟨rfl, rfl⟩ := h
    exact ⟨[], V, by simp [sseqStep], .nil, hsv⟩
  | @both Q x tS tM _ ih =>
    intro P AS seen V qM seen' hq hAP hsv hcl hnM hnS h
    simp only [selsNeed] at hnM hnS
    have hxr : selNeed rk x ≤ r := by omega
    -- continue with the tails once the head is done on both sides
    have cont : ∀ (q1S : List FNode) (V1 : List String) (q1M : List FNode) (seen2 : List String) (q2M : List FNode),
        HeadFacts s doc vars obj x AS V q1S V1 → RepA P q1S q1M → (∀ N ∈ seen2, N ∈ V1) →
        mseqStep s doc vars rec obj tM seen2 = .ok (q2M, seen') →
        ∃ q2S V2, sseqStep s doc vars recS obj tS V1 = .ok (q2S, V2) ∧ RepA P (q1S ++ q2S) (q1M ++ q2M) ∧ (∀ N ∈ seen', N ∈ V2) := by
      intro q1S V1 q1M seen2 q2M hh hr1 hs2 hrun
      have hcl1 := closed_after_head s doc vars hcl hh
      have hq1 : QCov s doc vars obj (fun y => y = x ∨ Q y) (fun n => AS n ∨ n ∈ q1S) V1 := by
        intro y hy
        rcases hy with rfl | hy
        · exact ⟨fun n hn => hh.1 n hn, fun N hN => hh.2.1 N hN⟩
        · obtain ⟨a, b⟩ := hq y hy
          exact ⟨fun n hn => Or.inl (a n hn), fun N hN => hh.2.2.2 N (b N hN)⟩
      have hAP1 : ∀ n, (AS n ∨ n ∈ q1S) → (n ∈ q1M ∨ P n) := by
        intro n hn
        rcases hn with hn | hn
        · exact Or.inr (hAP n hn)
        · exact Or.inl (hr1.left_subset n hn)
      obtain ⟨q2S, V2, hs, hr2, hsv2⟩ := ih (fun n => n ∈ q1M ∨ P n) _ seen2 V1 q2M seen' hq1 hAP1 hs2 hcl1 (by omega) (by omega) hrun
      exact ⟨q2S, V2, hs, hr1.append hr2, hsv2⟩
    cases x with
    | field key name loc dirs args hs sub =>
      simp only [mseqStep, bind, Except.bind, pure, Except.pure] at h
      cases hsk : skipSelection vars dirs with
      | error e => simp [hsk] at h
      | ok b =>
        simp only [hsk] at h
        cases b with
        | true =>
          simp at h
          obtain ⟨hno, hnoN⟩ := no_reach_field_skipped s doc vars (obj := obj) (key := key) (name := name) (loc := loc)
            (args := args) (hs := hs) (sub := sub) hsk
          obtain ⟨q2S, V2, hs2, hr2, hsv2⟩ := cont [] V [] seen qM
            (hf_nothing s doc vars obj _ AS V hno (fun N hN => absurd hN (hnoN N))) .nil hsv h
          exact ⟨q2S, V2, by simpa [sseqStep, bind, Except.bind, pure, Except.pure, Functor.map, Except.map, hsk] using hs2, by simpa using hr2, hsv2⟩
        | false =>
          simp only [Bool.false_eq_true, if_false] at h
          cases hr : mseqStep s doc vars rec obj tM seen with
          | error e => simp [hr] at h
          | ok p =>
            simp [hr] at h
            obtain ⟨rfl, rfl⟩ := h
            obtain ⟨q2S, V2, hs2, hr2, hsv2⟩ := cont [mkNode key name loc args hs sub] V [mkNode key name loc args hs sub] seen p.1
              (hf_field_kept s doc vars obj key name loc dirs args hs sub AS V) (RepA.refl _ _) hsv hr
            exact ⟨mkNode key name loc args hs sub :: q2S, V2, by simp [sseqStep, bind, Except.bind, pure, Except.pure, Functor.map, Except.map, hsk, hs2], by simpa using hr2, hsv2⟩
    | inline on dirs sub =>
      simp only [selNeed] at hxr
      simp only [mseqStep, bind, Except.bind, pure, Except.pure, List.isEmpty_iff] at h
      cases hsk : skipSelection vars dirs with
      | error e => simp [hsk] at h
      | ok b =>
        simp only [hsk] at h
        cases b with
        | true =>
          simp at h
          obtain ⟨hno, hnoN⟩ := no_reach_inline_dropped s doc vars (obj := obj) (on := on) (dirs := dirs) (sub := sub) (Or.inl hsk)
          obtain ⟨q2S, V2, hs2, hr2, hsv2⟩ := cont [] V [] seen qM
            (hf_nothing s doc vars obj _ AS V hno (fun N hN => absurd hN (hnoN N))) .nil hsv h
          exact ⟨q2S, V2, by simpa [sseqStep, bind, Except.bind, pure, Except.pure, Functor.map, Except.map, hsk] using hs2, by simpa using hr2, hsv2⟩
        | false =>
          simp only [Bool.false_eq_true, if_false] at h
          cases hap : fragmentTypeApplies s obj on with
          | error e => simp [hap] at h
          | ok a =>
            simp only [hap] at h
            cases a with
            | false =>
              simp at h
              obtain ⟨hno, hnoN⟩ := no_reach_inline_dropped s doc vars (obj := obj) (on := on) (dirs := dirs) (sub := sub) (Or.inr hap)
              obtain ⟨q2S, V2, hs2, hr2, hsv2⟩ := cont [] V [] seen qM
                (hf_nothing s doc vars obj _ AS V hno (fun N hN => absurd hN (hnoN N))) .nil hsv h
              exact ⟨q2S, V2, by simpa [sseqStep, bind, Except.bind, pure, Except.pure, Functor.map, Except.map, hsk, hap] using hs2, by simpa using hr2, hsv2⟩
            | true =>
              simp only [Bool.not_true, Bool.false_eq_true, if_false] at h
              cases hr1 : rec obj sub seen with
              | error e => simp [hr1] at h
              | ok p1 =>
                obtain ⟨q1M, seen1⟩ := p1
                simp only [hr1] at h
                obtain ⟨q1S, V1, hs1, hrep1, hsv1⟩ := hSim obj sub sub (fun _ => False) P AS seen V r q1M seen1 (RepA.refl _ _)
                  (by intro y hy; exact absurd hy (by simp)) hAP hsv hcl (by omega) (by omega) hr1
                obtain ⟨f1, f2, f3, f4⟩ := hS obj sub V q1S V1 AS r hs1 (by omega) hcl
                cases hr2 : mseqStep s doc vars rec obj tM (if seen = [] then seen else seen1) with
                | error e => simp [hr2] at h
                | ok p2 =>
                  simp [hr2] at h
                  obtain ⟨rfl, rfl⟩ := h
                  obtain ⟨q2S, V2, hs2, hr2', hsv2⟩ := cont q1S V1 q1M _ p2.1
                    (hf_inline_expanded s doc vars obj on dirs sub AS V V1 q1S f1 f2 f3 f4) hrep1
                    (seen2_sub (fun N hN => f4 N (hsv N hN)) hsv1) hr2
                  exact ⟨q1S ++ q2S, V2, by simp [sseqStep, bind, Except.bind, pure, Except.pure, Functor.map, Except.map, hsk, hap, hs1, hs2], hr2', hsv2⟩
    | spread name dirs =>
      simp only [selNeed] at hxr
      have hrank : rk name < r := by omega
      simp only [mseqStep, bind, Except.bind, pure, Except.pure, List.isEmpty_iff] at h
      cases hfr : doc.fragment? name with
      | none => simp [hfr] at h
      | some fr =>
        simp only [hfr] at h
        cases hsk : skipSelection vars dirs with
        | error e => simp [hsk] at h
        | ok b =>
          simp only [hsk] at h
          cases b with
          | true =>
            simp at h
            obtain ⟨hno, hnoN⟩ := no_reach_spread_skipped s doc vars (obj := obj) (name := name) (dirs := dirs) hsk
            obtain ⟨q2S, V2, hs2, hr2, hsv2⟩ := cont [] V [] seen qM
              (hf_nothing s doc vars obj _ AS V hno (fun N hN => absurd hN (hnoN N))) .nil hsv h
            exact ⟨q2S, V2, by simpa [sseqStep, bind, Except.bind, pure, Except.pure, Functor.map, Except.map, hsk] using hs2, by simpa using hr2, hsv2⟩
          | false =>
            simp only [Bool.false_eq_true, if_false] at h
            -- what the specification does when it skips the spread because the name is visited
            have specVisited : name ∈ V → ∀ (q1M : List FNode) (seen2 : List String) (q2M : List FNode),
                RepA P [] q1M → (∀ N ∈ seen2, N ∈ V) → mseqStep s doc vars rec obj tM seen2 = .ok (q2M, seen') →
                ∃ qS V', sseqStep s doc vars recS obj (Sel.spread name dirs :: tS) V = .ok (qS, V') ∧
                  RepA P qS (q1M ++ q2M) ∧ (∀ N ∈ seen', N ∈ V') := by
              intro hmem q1M seen2 q2M hr1 hs2 hrun
              obtain ⟨q2S, V2, hs2', hr2, hsv2⟩ := cont [] V q1M seen2 q2M
                (hf_spread_visited s doc vars rk r obj name dirs AS V hcl hmem hrank) hr1 hs2 hrun
              exact ⟨q2S, V2, by simpa [sseqStep, bind, Except.bind, pure, Except.pure, Functor.map, Except.map, hsk, hmem] using hs2', by simpa using hr2, hsv2⟩
            by_cases hseen : seen.contains name
            · simp only [hseen, if_true] at h
              simp at h
              have hmem : name ∈ V := hsv name (by simpa using hseen)
              simpa using specVisited hmem [] seen qM .nil hsv h
            · simp only [hseen, Bool.false_eq_true, if_false] at h
              cases hap : fragmentTypeApplies s obj (some fr.on) with
              | error e => simp [hap] at h
              | ok a =>
                simp only [hap] at h
                cases a with
                | false =>
                  simp at h
                  by_cases hvis : V.contains name
                  · simpa using specVisited (by simpa using hvis) [] seen qM .nil hsv h
                  · have hnv : name ∉ V := by simpa using hvis
                    obtain ⟨q2S, V2, hs2, hr2, hsv2⟩ := cont [] (V ++ [name]) [] seen qM
                      (hf_spread_not_applied s doc vars obj name dirs AS V
                        (by intro fr' hf'; rw [hfr] at hf'; cases hf'; simp [hap]))
                      .nil (fun N hN => by simp [hsv N hN]) h
                    exact ⟨q2S, V2, by simpa [sseqStep, bind, Except.bind, pure, Except.pure, Functor.map, Except.map, hsk, hnv, hfr, hap] using hs2, by simpa using hr2, hsv2⟩
                | true =>
                  simp only [Bool.not_true, Bool.false_eq_true, if_false] at h
                  cases hr1 : rec obj fr.sels seen with
                  | error e => simp [hr1] at h
                  | ok p1 =>
                    obtain ⟨q1M, seen1⟩ := p1
                    simp only [hr1] at h
                    obtain ⟨hMn, hMs⟩ := hM obj fr.sels seen q1M seen1 hr1
                    generalize hs3 : (if (if seen = [] then seen else seen1).contains name = true
                        then (if seen = [] then seen else seen1)
                        else (if seen = [] then seen else seen1) ++ [name]) = seen3 at h
                    cases hr2 : mseqStep s doc vars rec obj tM seen3 with
                    | error e => simp [hr2] at h
                    | ok p2 =>
                      simp [hr2] at h
                      obtain ⟨rfl, rfl⟩ := h
                      by_cases hvis : V.contains name
                      · -- the specification skips: everything the model collects again has already appeared
                        have hmem : name ∈ V := by simpa using hvis
                        have hcov : Covered s doc vars obj AS V name := by
                          rcases hcl name hmem with h1 | h1
                          · omega
                          · exact h1
                        obtain ⟨c1, c2⟩ := hcov fr hfr hap
                        have hall : ∀ n ∈ q1M, P n := fun n hn => hAP n (c1 n (hMn n hn))
                        have hs1V : ∀ N ∈ seen1, N ∈ V := by
                          intro N hN
                          rcases hMs N hN with h1 | h1
                          · exact hsv N h1
                          · exact c2 N h1
                        have hs3V : ∀ N ∈ seen3, N ∈ V := by
                          rw [← hs3]; exact seen3_sub (seen2_sub hsv hs1V) hmem
                        have hr1' : RepA P [] q1M := by
                          have := RepA.prepend (Q := P) (xs := []) (ys := []) q1M hall .nil
                          simpa using this
                        exact specVisited hmem q1M seen3 p2.1 hr1' hs3V hr2
                      · -- both expand the fragment
                        have hnv : name ∉ V := by simpa using hvis
                        have hV1 : ∀ N ∈ seen, N ∈ V ++ [name] := fun N hN => by simp [hsv N hN]
                        obtain ⟨q1S, V1, hs1, hrep1, hsv1⟩ := hSim obj fr.sels fr.sels (fun _ => False) P AS seen (V ++ [name]) (rk name)
                          q1M seen1 (RepA.refl _ _) (by intro y hy; exact absurd hy (by simp)) hAP hV1
                          (closed_for_body s doc vars hcl hrank) (hrk.collect name fr hfr) (hrk.collect name fr hfr) hr1
                        obtain ⟨f1, f2, f3, f4⟩ := hS obj fr.sels (V ++ [name]) q1S V1 AS (rk name) hs1 (hrk.collect name fr hfr)
                          (closed_for_body s doc vars hcl hrank)
                        have hs3V : ∀ N ∈ seen3, N ∈ V1 := by
                          rw [← hs3]
                          exact seen3_sub (seen2_sub (fun N hN => f4 N (hV1 N hN)) hsv1) (f4 name (by simp))
                        obtain ⟨q2S, V2, hs2, hr2', hsv2⟩ := cont q1S V1 q1M seen3 p2.1
                          (hf_spread_expanded s doc vars obj name dirs fr hfr AS V V1 q1S f1 f2 f3 f4) hrep1 hs3V hr2
                        exact ⟨q1S ++ q2S, V2, by simp [sseqStep, bind, Except.bind, pure, Except.pure, Functor.map, Except.map, hsk, hnv, hfr, hap, hs1, hs2], hr2', hsv2⟩
  | @extra Q x tS tM hQx _ ih =>
    intro P AS seen V qM seen' hq hAP hsv hcl hnM hnS h
    simp only [selsNeed] at hnM
    obtain ⟨hxn, hxN⟩ := hq x hQx
    -- the specification does not see this repeated selection; whatever the model collects from it has appeared
    have cont : ∀ (q1M : List FNode) (seen2 : List String) (q2M : List FNode), (∀ n ∈ q1M, P n) → (∀ N ∈ seen2, N ∈ V) →
        mseqStep s doc vars rec obj tM seen2 = .ok (q2M, seen') →
        ∃ qS V', sseqStep s doc vars recS obj tS V = .ok (qS, V') ∧ RepA P qS (q1M ++ q2M) ∧ (∀ N ∈ seen', N ∈ V') := by
      intro q1M seen2 q2M hall hs2 hrun
      obtain ⟨qS, V', hs, hr, hsv'⟩ := ih P AS seen2 V q2M seen' hq hAP hs2 hcl (by omega) hnS hrun
      exact ⟨qS, V', hs, RepA.prepend q1M hall hr, hsv'⟩
    cases x with
    | field key name loc dirs args hs sub =>
      simp only [mseqStep, bind, Except.bind, pure, Except.pure] at h
      cases hsk : skipSelection vars dirs with
      | error e => simp [hsk] at h
      | ok b =>
        simp only [hsk] at h
        cases b with
        | true => simp at h; simpa using cont [] seen qM (by simp) hsv h
        | false =>
          simp only [Bool.false_eq_true, if_false] at h
          cases hr : mseqStep s doc vars rec obj tM seen with
          | error e => simp [hr] at h
          | ok p =>
            simp [hr] at h
            obtain ⟨rfl, rfl⟩ := h
            have := cont [mkNode key name loc args hs sub] seen p.1
              (by intro n hn; simp at hn; subst hn; exact hAP _ (hxn _ (.field (by simp) hsk))) hsv hr
            simpa using this
    | inline on dirs sub =>
      simp only [mseqStep, bind, Except.bind, pure, Except.pure, List.isEmpty_iff] at h
      cases hsk : skipSelection vars dirs with
      | error e => simp [hsk] at h
      | ok b =>
        simp only [hsk] at h
        cases b with
        | true => simp at h; simpa using cont [] seen qM (by simp) hsv h
        | false =>
          simp only [Bool.false_eq_true, if_false] at h
          cases hap : fragmentTypeApplies s obj on with
          | error e => simp [hap] at h
          | ok a =>
            simp only [hap] at h
            cases a with
            | false => simp at h; simpa using cont [] seen qM (by simp) hsv h
            | true =>
              simp only [Bool.not_true, Bool.false_eq_true, if_false] at h
              cases hr1 : rec obj sub seen with
              | error e => simp [hr1] at h
              | ok p1 =>
                obtain ⟨q1M, seen1⟩ := p1
                simp only [hr1] at h
                obtain ⟨hMn, hMs⟩ := hM obj sub seen q1M seen1 hr1
                cases hr2 : mseqStep s doc vars rec obj tM (if seen = [] then seen else seen1) with
                | error e => simp [hr2] at h
                | ok p2 =>
                  simp [hr2] at h
                  obtain ⟨rfl, rfl⟩ := h
                  have hs1V : ∀ N ∈ seen1, N ∈ V := by
                    intro N hN
                    rcases hMs N hN with h1 | h1
                    · exact hsv N h1
                    · exact hxN N (.inline (by simp) hsk hap h1)
                  exact cont q1M _ p2.1 (fun n hn => hAP n (hxn n (.inline (by simp) hsk hap (hMn n hn))))
                    (seen2_sub hsv hs1V) hr2
    | spread name dirs =>
      simp only [mseqStep, bind, Except.bind, pure, Except.pure, List.isEmpty_iff] at h
      cases hfr : doc.fragment? name with
      | none => simp [hfr] at h
      | some fr =>
        simp only [hfr] at h
        cases hsk : skipSelection vars dirs with
        | error e => simp [hsk] at h
        | ok b =>
          simp only [hsk] at h
          cases b with
          | true => simp at h; simpa using cont [] seen qM (by simp) hsv h
          | false =>
            simp only [Bool.false_eq_true, if_false] at h
            by_cases hseen : seen.contains name
            · simp only [hseen, if_true] at h; simp at h; simpa using cont [] seen qM (by simp) hsv h
            · simp only [hseen, Bool.false_eq_true, if_false] at h
              cases hap : fragmentTypeApplies s obj (some fr.on) with
              | error e => simp [hap] at h
              | ok a =>
                simp only [hap] at h
                cases a with
                | false => simp at h; simpa using cont [] seen qM (by simp) hsv h
                | true =>
                  simp only [Bool.not_true, Bool.false_eq_true, if_false] at h
                  cases hr1 : rec obj fr.sels seen with
                  | error e => simp [hr1] at h
                  | ok p1 =>
                    obtain ⟨q1M, seen1⟩ := p1
                    simp only [hr1] at h
                    obtain ⟨hMn, hMs⟩ := hM obj fr.sels seen q1M seen1 hr1
                    generalize hs3 : (if (if seen = [] then seen else seen1).contains name = true
                        then (if seen = [] then seen else seen1)
                        else (if seen = [] then seen else seen1) ++ [name]) = seen3 at h
                    cases hr2 : mseqStep s doc vars rec obj tM seen3 with
                    | error e => simp [hr2] at h
                    | ok p2 =>
                      simp [hr2] at h
                      obtain ⟨rfl, rfl⟩ := h
                      have hs1V : ∀ N ∈ seen1, N ∈ V := by
                        intro N hN
                        rcases hMs N hN with h1 | h1
                        · exact hsv N h1
                        · exact hxN N (.spread (by simp) hsk hfr hap h1)
                      have hs3V : ∀ N ∈ seen3, N ∈ V := by
                        rw [← hs3]; exact seen3_sub (seen2_sub hsv hs1V) (hxN name (.here (by simp) hsk))
                      exact cont q1M seen3 p2.1 (fun n hn => hAP n (hxn n (.spread (by simp) hsk hfr hap (hMn n hn)))) hs3V hr2

/-- **collect_simulation**: the simulation holds for the two collectors at every fuel -/
theorem collect_simulation (rk ek : String → Nat) (B : Nat) (hrk : Ranked doc rk ek B) (n : Nat) :
    Sim s doc vars rk (mseq s doc vars n) (sseq s doc vars n) := by
  induction n with
  | zero => intro obj selsS selsM Q P AS seen V r qM seen' _ _ _ _ _ _ _ h; simp [mseq] at h
  | succ n ih =>
    intro obj selsS selsM Q P AS seen V r qM seen' hrep hq hAP hsv hcl hnM hnS h
    simp only [mseq] at h
    simp only [sseq]
    exact mseqStep_sim s doc vars rk ek B hrk _ _ (mseq_sound s doc vars n) (sseq_facts s doc vars rk ek B hrk n) ih obj r
      selsS selsM Q hrep P AS seen V qM seen' hq hAP hsv hcl hnM hnS h

end
end PyGql.Props.C04

/-
  The walk of the chained visitor versus the static contexts of `Spec/TypedNodes.lean`:
  the stacks of `TypeInfoVisitor` are BALANCED over every sub-tree when no rule skips, and what a rule reads from
  them on entering / leaving a node (`TI.view`) is exactly the static context of that node.
  Consequence (`visitDefsT`): for a never-skipping chain whose error counts depend on (node, view) only, the
  number of errors is the sum over `Spec.typedNodes`.
-/
import PyGqlModel.Lemmas.ValidateWalk
import PyGqlModel.Spec.TypedNodes
namespace PyGql.Validate
open PyGql PyGql.Validate.Spec

/-- what the rules read from `TypeInfoVisitor` on the output side -/
def TI.view (t : TI) : View := { type := t.type, parent := t.parentType, field := t.field, directive := t.directive }

theorem enter_ti (c : Cfg) (n : Node) (st : St) : (enter c n st).1.ti = tiEnter c.schema n st.ti := by
  unfold enter
  generalize enterRules c n (tiEnter c.schema n st.ti) c.rules st.rs = p
  obtain ⟨a, b⟩ := p
  rfl

theorem leave_ti (c : Cfg) (n : Node) (st : St) : (leave c n st).ti = tiLeave n st.ti := rfl

theorem view_enter (s : SchemaD) (n : Node) (t : TI) : (tiEnter s n t).view = View.enter s n t.view := by
  cases n with
  | value v =>
    cases v <;> simp [tiEnter, TI.view, View.enter, TI.enterListValue, TI.type, TI.parentType, TI.field]
  | inline on dirs =>
    cases on <;> simp [tiEnter, TI.view, View.enter, TI.enterInline, TI.type, TI.parentType, TI.field, TI.peek]
  | argument a =>
    simp only [tiEnter, TI.enterArgument, TI.view, View.enter]
    split <;> simp [TI.type, TI.parentType, TI.field]
  | objField name =>
    simp only [tiEnter, TI.enterObjectField, TI.view, View.enter]
    split
    · split <;> simp [TI.type, TI.parentType, TI.field]
    · simp [TI.type, TI.parentType, TI.field]
  | _ =>
    simp [tiEnter, TI.view, View.enter, TI.enterSelectionSet, TI.enterField, TI.enterDirective, TI.enterOperation,
      TI.enterFragmentDef, TI.enterVarDef, TI.type, TI.parentType, TI.field, TI.peek, compositeBase]

theorem tiLeave_tiEnter (s : SchemaD) (n : Node) (t : TI) (hd : ∀ d, n = .directive d → t.directive = none) :
    tiLeave n (tiEnter s n t) = t := by
  cases n with
  | value v => cases v <;> simp [tiEnter, tiLeave, TI.enterListValue, TI.leaveInputValue]
  | directive d =>
    have := hd d rfl
    simp only [tiEnter, tiLeave, TI.enterDirective, TI.leaveDirective]
    cases t; simp_all
  | argument a =>
    simp only [tiEnter, tiLeave, TI.enterArgument, TI.leaveInputValue]
    split <;> simp
  | objField name =>
    simp only [tiEnter, tiLeave, TI.enterObjectField, TI.leaveInputValue]
    split
    · split <;> simp
    · simp
  | inline on dirs => cases on <;> simp [tiEnter, tiLeave, TI.enterInline, TI.popType]
  | _ =>
    simp [tiEnter, tiLeave, TI.enterSelectionSet, TI.leaveSelectionSet, TI.enterField, TI.leaveField,
      TI.enterOperation, TI.enterFragmentDef, TI.popType, TI.enterVarDef, TI.leaveVarDef]


def tsum (F G : Node → View → Nat) (l : List (Node × View)) : Nat := (l.map fun p => F p.1 p.2 + G p.1 p.2).sum

theorem tsum_nil (F G : Node → View → Nat) : tsum F G [] = 0 := rfl
theorem tsum_cons (F G : Node → View → Nat) (p : Node × View) (l : List (Node × View)) :
    tsum F G (p :: l) = (F p.1 p.2 + G p.1 p.2) + tsum F G l := by simp [tsum]
theorem tsum_append (F G : Node → View → Nat) (a b : List (Node × View)) :
    tsum F G (a ++ b) = tsum F G a + tsum F G b := by simp [tsum]

/-- a chain that never skips below the document and whose error counts depend on the node and on what
    `TypeInfoVisitor` shows (`TI.view`) only -/
structure TCF (c : Cfg) (F G : Node → View → Nat) : Prop where
  noskip : ∀ n st, n.isDoc = false → (enter c n st).2 = false
  enterE : ∀ n st, n.isDoc = false → E (enter c n st).1 = E st + F n (tiEnter c.schema n st.ti).view
  leaveE : ∀ n st, n.isDoc = false → E (leave c n st) = E st + G n st.ti.view

/-- a visit restores the stacks and adds the errors of the listed (node, context) pairs -/
def TW (F G : Node → View → Nat) (l : List (Node × View)) (st st' : St) : Prop :=
  st'.ti = st.ti ∧ E st' = E st + tsum F G l

variable {c : Cfg} {F G : Node → View → Nat}

theorem TW.nil (st : St) : TW F G [] st st := ⟨rfl, by simp [tsum_nil]⟩
theorem TW.append {a b : List (Node × View)} {s1 s2 s3 : St} (h1 : TW F G a s1 s2) (h2 : TW F G b s2 s3) :
    TW F G (a ++ b) s1 s3 := ⟨h2.1.trans h1.1, by rw [h2.2, h1.2, tsum_append]; omega⟩

theorem visitNodeT (h : TCF c F G) (n : Node) (body : St → St) (l : List (Node × View)) (st : St)
    (hn : n.isDoc = false) (hd : ∀ d, n = .directive d → st.ti.directive = none)
    (hb : ∀ st1, st1.ti = tiEnter c.schema n st.ti → TW F G l st1 (body st1)) :
    TW F G ((n, View.enter c.schema n st.ti.view) :: l) st (visitNode c n body st) := by
  have e1 := h.enterE n st hn
  have e2 := h.noskip n st hn
  have e3 := enter_ti c n st
  unfold visitNode
  revert e1 e2 e3
  generalize enter c n st = p
  obtain ⟨st1, sk⟩ := p
  intro e1 e2 e3
  simp only at e1 e2 e3
  subst e2
  simp only [Bool.false_eq_true, ↓reduceIte]
  obtain ⟨b1, b2⟩ := hb st1 e3
  refine ⟨?_, ?_⟩
  · rw [leave_ti, b1, e3, tiLeave_tiEnter _ _ _ hd]
  · rw [h.leaveE n _ hn, b2, e1, b1, e3, view_enter]
    simp only [tsum_cons]
    omega

theorem withView_cons (v : View) (n : Node) (ns : List Node) : withView v (n :: ns) = (n, v) :: withView v ns := rfl
theorem withView_append (v : View) (a b : List Node) : withView v (a ++ b) = withView v a ++ withView v b := by
  simp [withView]
theorem withView_nil (v : View) : withView v [] = [] := rfl

/-- the view is the same at every node below an argument / inside a value -/
theorem view_tiEnter_value (s : SchemaD) (x : Value) (t : TI) : (tiEnter s (.value x) t).view = t.view := by
  rw [view_enter]; rfl
theorem view_tiEnter_objField (s : SchemaD) (x : String) (t : TI) : (tiEnter s (.objField x) t).view = t.view := by
  rw [view_enter]; rfl
theorem view_tiEnter_argument (s : SchemaD) (x : Arg) (t : TI) : (tiEnter s (.argument x) t).view = t.view := by
  rw [view_enter]; rfl

/-- a leaf node (no children) whose context is the current one -/
theorem leafT (h : TCF c F G) (n : Node) (st : St) (hn : n.isDoc = false)
    (hd : ∀ d, n = .directive d → st.ti.directive = none) (hv : View.enter c.schema n st.ti.view = st.ti.view) :
    TW F G (withView st.ti.view [n]) st (visitNode c n id st) := by
  have := visitNodeT h n id [] st hn hd (fun st1 _ => TW.nil st1)
  rwa [hv] at this

mutual
theorem visitValueT (h : TCF c F G) : ∀ (v : Value) (st : St),
    TW F G (withView st.ti.view (valueNodes v)) st (visitValue c v st)
  | .list vs, st => by
    rw [visitValue, valueNodes, withView_cons]
    have := visitNodeT h (.value (.list vs)) (fun st => visitValues c vs st) (withView st.ti.view (valuesNodes vs)) st rfl
      (fun _ e => by cases e) (fun st1 e => by
        have := visitValuesT h vs st1
        rwa [e, view_tiEnter_value] at this)
    exact this
  | .obj fs, st => by
    rw [visitValue, valueNodes, withView_cons]
    have := visitNodeT h (.value (.obj fs)) (fun st => visitObjFields c fs st) (withView st.ti.view (objFieldsNodes fs)) st rfl
      (fun _ e => by cases e) (fun st1 e => by
        have := visitObjFieldsT h fs st1
        rwa [e, view_tiEnter_value] at this)
    exact this
  | .var x, st => by rw [visitValue]; simp only [valueNodes]; exact leafT h _ st rfl (fun _ e => by cases e) rfl
  | .int x, st => by rw [visitValue]; simp only [valueNodes]; exact leafT h _ st rfl (fun _ e => by cases e) rfl
  | .float x, st => by rw [visitValue]; simp only [valueNodes]; exact leafT h _ st rfl (fun _ e => by cases e) rfl
  | .str x, st => by rw [visitValue]; simp only [valueNodes]; exact leafT h _ st rfl (fun _ e => by cases e) rfl
  | .bool x, st => by rw [visitValue]; simp only [valueNodes]; exact leafT h _ st rfl (fun _ e => by cases e) rfl
  | .null, st => by rw [visitValue]; simp only [valueNodes]; exact leafT h _ st rfl (fun _ e => by cases e) rfl
  | .enum x, st => by rw [visitValue]; simp only [valueNodes]; exact leafT h _ st rfl (fun _ e => by cases e) rfl
theorem visitValuesT (h : TCF c F G) : ∀ (vs : List Value) (st : St),
    TW F G (withView st.ti.view (valuesNodes vs)) st (visitValues c vs st)
  | [], st => by rw [visitValues, valuesNodes]; exact TW.nil st
  | v :: vs, st => by
    rw [visitValues, valuesNodes, withView_append]
    have h1 := visitValueT h v st
    have h2 := visitValuesT h vs (visitValue c v st)
    rw [h1.1] at h2
    exact h1.append h2
theorem visitObjFieldT (h : TCF c F G) : ∀ (x : ObjField) (st : St),
    TW F G (withView st.ti.view (objFieldNodes x)) st (visitObjField c x st)
  | .mk n v, st => by
    rw [visitObjField, objFieldNodes, withView_cons]
    exact visitNodeT h (.objField n) (visitValue c v) (withView st.ti.view (valueNodes v)) st rfl
      (fun _ e => by cases e) (fun st1 e => by
        have := visitValueT h v st1
        rwa [e, view_tiEnter_objField] at this)
theorem visitObjFieldsT (h : TCF c F G) : ∀ (fs : List ObjField) (st : St),
    TW F G (withView st.ti.view (objFieldsNodes fs)) st (visitObjFields c fs st)
  | [], st => by rw [visitObjFields, objFieldsNodes]; exact TW.nil st
  | x :: fs, st => by
    rw [visitObjFields, objFieldsNodes, withView_append]
    have h1 := visitObjFieldT h x st
    have h2 := visitObjFieldsT h fs (visitObjField c x st)
    rw [h1.1] at h2
    exact h1.append h2
end


/-- a fold over children whose visits restore the stacks: the context is the same for all of them -/
theorem foldlT {α} (P : TI → Prop) (visit : α → St → St) (ns : View → α → List (Node × View))
    (hv : ∀ a st, P st.ti → TW F G (ns st.ti.view a) st (visit a st)) :
    ∀ (as : List α) (st : St), P st.ti →
      TW F G (as.flatMap (ns st.ti.view)) st (as.foldl (fun st a => visit a st) st)
  | [], st, _ => by simpa using TW.nil st
  | a :: as, st, hp => by
    rw [List.foldl_cons, List.flatMap_cons]
    have h1 := hv a st hp
    have h2 := foldlT P visit ns hv as (visit a st) (by rw [h1.1]; exact hp)
    rw [h1.1] at h2
    exact h1.append h2

theorem visitArgumentT (h : TCF c F G) (a : Arg) (st : St) :
    TW F G (withView st.ti.view (argNodes a)) st (visitArgument c a st) := by
  rw [visitArgument, argNodes, withView_cons]
  exact visitNodeT h (.argument a) (visitValue c a.value) (withView st.ti.view (valueNodes a.value)) st rfl
    (fun _ e => by cases e) (fun st1 e => by
      have := visitValueT h a.value st1
      rwa [e, view_tiEnter_argument] at this)

theorem visitArgumentsT (h : TCF c F G) (as : List Arg) (st : St) :
    TW F G (withView st.ti.view (argsNodes as)) st (visitArguments c as st) := by
  have := foldlT (F := F) (G := G) (fun _ => True) (visitArgument c) (fun v a => withView v (argNodes a))
    (fun a st _ => visitArgumentT h a st) as st trivial
  simpa [withView, argsNodes, List.map_flatMap, visitArguments] using this

theorem visitDirectiveT (h : TCF c F G) (d : Dir) (st : St) (hd : st.ti.directive = none) :
    TW F G (tnDir c.schema st.ti.view d) st (visitDirective c d st) := by
  rw [visitDirective, tnDir]
  exact visitNodeT h (.directive d) (visitArguments c d.args) _ st rfl (fun _ _ => hd) (fun st1 e => by
    have := visitArgumentsT h d.args st1
    rwa [e, view_enter] at this)

theorem visitDirectivesT (h : TCF c F G) (ds : List Dir) (st : St) (hd : st.ti.directive = none) :
    TW F G (tnDirs c.schema st.ti.view ds) st (visitDirectives c ds st) :=
  foldlT (fun t => t.directive = none) (visitDirective c) (fun v d => tnDir c.schema v d)
    (fun d st hp => visitDirectiveT h d st hp) ds st hd

/-- entering anything but a directive keeps `directive` -/
theorem directive_tiEnter (s : SchemaD) (n : Node) (t : TI) (hn : ∀ d, n ≠ .directive d) :
    (tiEnter s n t).directive = t.directive := by
  cases n with
  | directive d => exact absurd rfl (hn d)
  | value v => cases v <;> simp [tiEnter, TI.enterListValue]
  | inline on dirs => cases on <;> simp [tiEnter, TI.enterInline]
  | argument a => simp only [tiEnter, TI.enterArgument]; split <;> rfl
  | objField name =>
    simp only [tiEnter, TI.enterObjectField]
    split
    · split <;> rfl
    · rfl
  | _ => simp [tiEnter, TI.enterSelectionSet, TI.enterField, TI.enterOperation, TI.enterFragmentDef, TI.enterVarDef]

mutual
theorem visitSelT (h : TCF c F G) : ∀ (x : Sel) (st : St), st.ti.directive = none →
    TW F G (tnSel c.schema st.ti.view x) st (visitSel c x st)
  | .field al name args dirs true ssid sub, st, hd => by
    rw [visitSel, tnSel]
    refine visitNodeT h (.field name args dirs true) _ _ st rfl (fun _ e => by cases e) (fun st1 e => ?_)
    have hd1 : st1.ti.directive = none := by rw [e, directive_tiEnter _ _ _ (fun _ => by simp)]; exact hd
    have hv1 : st1.ti.view = View.enter c.schema (.field name args dirs true) st.ti.view := by rw [e, view_enter]
    simp only [↓reduceIte]
    have h1 := visitArgumentsT h args st1
    have h2 := visitDirectivesT h dirs (visitArguments c args st1) (by rw [h1.1]; exact hd1)
    have h3 := visitNodeT h (.selectionSet ssid sub) (visitSels c sub) _ (visitDirectives c dirs (visitArguments c args st1))
      rfl (fun _ e => by cases e) (fun st2 e2 => by
        have := visitSelsT h sub st2 (by rw [e2, directive_tiEnter _ _ _ (fun _ => by simp), h2.1, h1.1]; exact hd1)
        rwa [e2, view_enter] at this)
    rw [h2.1, h1.1] at h3
    rw [h1.1] at h2
    rw [hv1] at h1 h2 h3
    exact (h1.append h2).append h3
  | .field al name args dirs false ssid sub, st, hd => by
    rw [visitSel, tnSel]
    refine visitNodeT h (.field name args dirs false) _ _ st rfl (fun _ e => by cases e) (fun st1 e => ?_)
    have hd1 : st1.ti.directive = none := by rw [e, directive_tiEnter _ _ _ (fun _ => by simp)]; exact hd
    have hv1 : st1.ti.view = View.enter c.schema (.field name args dirs false) st.ti.view := by rw [e, view_enter]
    simp only [Bool.false_eq_true, ↓reduceIte, List.append_nil]
    have h1 := visitArgumentsT h args st1
    have h2 := visitDirectivesT h dirs (visitArguments c args st1) (by rw [h1.1]; exact hd1)
    rw [h1.1] at h2
    rw [hv1] at h1 h2
    exact h1.append h2
  | .spread name dirs, st, hd => by
    rw [visitSel, tnSel]
    have := visitNodeT h (.spread name dirs) (visitDirectives c dirs) (tnDirs c.schema st.ti.view dirs) st rfl
      (fun _ e => by cases e) (fun st1 e => by
        have := visitDirectivesT h dirs st1 (by rw [e, directive_tiEnter _ _ _ (fun _ => by simp)]; exact hd)
        rwa [e, view_enter] at this)
    exact this
  | .inline on dirs ssid sub, st, hd => by
    rw [visitSel, tnSel]
    refine visitNodeT h (.inline on dirs) _ _ st rfl (fun _ e => by cases e) (fun st1 e => ?_)
    have hd1 : st1.ti.directive = none := by rw [e, directive_tiEnter _ _ _ (fun _ => by simp)]; exact hd
    have hv1 : st1.ti.view = View.enter c.schema (.inline on dirs) st.ti.view := by rw [e, view_enter]
    have h2 := visitDirectivesT h dirs st1 hd1
    have h3 := visitNodeT h (.selectionSet ssid sub) (visitSels c sub) _ (visitDirectives c dirs st1)
      rfl (fun _ e => by cases e) (fun st2 e2 => by
        have := visitSelsT h sub st2 (by rw [e2, directive_tiEnter _ _ _ (fun _ => by simp), h2.1]; exact hd1)
        rwa [e2, view_enter] at this)
    rw [h2.1] at h3
    rw [hv1] at h2 h3
    exact h2.append h3
theorem visitSelsT (h : TCF c F G) : ∀ (xs : List Sel) (st : St), st.ti.directive = none →
    TW F G (tnSels c.schema st.ti.view xs) st (visitSels c xs st)
  | [], st, _ => by rw [visitSels, tnSels]; exact TW.nil st
  | x :: xs, st, hd => by
    rw [visitSels, tnSels]
    have h1 := visitSelT h x st hd
    have h2 := visitSelsT h xs (visitSel c x st) (by rw [h1.1]; exact hd)
    rw [h1.1] at h2
    exact h1.append h2
end


theorem visitVarDefT (h : TCF c F G) (v : VarDef) (st : St) (hd : st.ti.directive = none) :
    TW F G (tnVarDef c.schema st.ti.view v) st (visitVarDef c v st) := by
  rw [visitVarDef, tnVarDef, withView_cons, List.cons_append]
  refine visitNodeT h (.varDef v) _ _ st rfl (fun _ e => by cases e) (fun st1 e => ?_)
  have hv1 : st1.ti.view = st.ti.view := by rw [e, view_enter]; rfl
  have hd1 : st1.ti.directive = none := by rw [e, directive_tiEnter _ _ _ (fun _ => by simp)]; exact hd
  have key : ∀ st', st'.ti = st1.ti →
      TW F G (withView st.ti.view [.typeNode v.type] ++ tnDirs c.schema st.ti.view v.dirs) st'
        (visitDirectives c v.dirs (visitNode c (.typeNode v.type) id st')) := by
    intro st' ht
    have hv' : st'.ti.view = st.ti.view := by rw [ht]; exact hv1
    have a := leafT h (.typeNode v.type) st' rfl (fun _ e => by cases e) rfl
    have b := visitDirectivesT h v.dirs (visitNode c (.typeNode v.type) id st') (by rw [a.1, ht]; exact hd1)
    rw [a.1, hv'] at b
    rw [hv'] at a
    exact a.append b
  rw [withView_append, List.append_assoc]
  cases hd' : v.default with
  | none => simpa [withView] using key st1 rfl
  | some dv =>
    simp only
    have h1 := visitValueT h dv st1
    have h2 := key (visitValue c dv st1) h1.1
    rw [hv1] at h1
    exact h1.append h2

theorem view_empty : (({} : TI).view) = ({} : View) := rfl

theorem visitDefT (h : TCF c F G) (d : Def) (st : St) (h0 : st.ti = {}) :
    TW F G (tnDef c.schema d) st (visitDef c d st) := by
  have hd0 : st.ti.directive = none := by rw [h0]
  have hv0 : st.ti.view = ({} : View) := by rw [h0]; rfl
  cases d with
  | op kind name vars dirs ssid sels =>
    rw [visitDef, tnDef]
    have := visitNodeT h (.operation kind name vars dirs sels) (fun st =>
        visitNode c (.selectionSet ssid sels) (visitSels c sels)
          (visitDirectives c dirs (vars.foldl (fun st v => visitVarDef c v st) st)))
      (vars.flatMap (tnVarDef c.schema (View.enter c.schema (.operation kind name vars dirs sels) {})) ++
        tnDirs c.schema (View.enter c.schema (.operation kind name vars dirs sels) {}) dirs ++
        (.selectionSet ssid sels, View.enter c.schema (.selectionSet ssid sels)
            (View.enter c.schema (.operation kind name vars dirs sels) {})) ::
          tnSels c.schema (View.enter c.schema (.selectionSet ssid sels)
            (View.enter c.schema (.operation kind name vars dirs sels) {})) sels)
      st rfl (fun _ e => by cases e) (fun st1 e => by
        have hd1 : st1.ti.directive = none := by rw [e, directive_tiEnter _ _ _ (fun _ => by simp)]; exact hd0
        have hv1 : st1.ti.view = View.enter c.schema (.operation kind name vars dirs sels) {} := by
          rw [e, view_enter, hv0]
        have h1' := foldlT (F := F) (G := G) (fun t => t.directive = none) (visitVarDef c)
          (fun v x => tnVarDef c.schema v x) (fun a st hp => visitVarDefT h a st hp) vars st1 hd1
        have h2 := visitDirectivesT h dirs _ (by rw [h1'.1]; exact hd1)
        have h3 := visitNodeT h (.selectionSet ssid sels) (visitSels c sels) _
          (visitDirectives c dirs (vars.foldl (fun st v => visitVarDef c v st) st1))
          rfl (fun _ e => by cases e) (fun st2 e2 => by
            have := visitSelsT h sels st2 (by rw [e2, directive_tiEnter _ _ _ (fun _ => by simp), h2.1, h1'.1]; exact hd1)
            rwa [e2, view_enter] at this)
        rw [h2.1, h1'.1] at h3
        rw [h1'.1] at h2
        rw [hv1] at h1' h2 h3
        exact (h1'.append h2).append h3)
    rwa [hv0] at this
  | frag name on dirs ssid sels =>
    rw [visitDef, tnDef]
    have := visitNodeT h (.fragmentDef name on dirs) (fun st =>
        visitNode c (.selectionSet ssid sels) (visitSels c sels) (visitDirectives c dirs st))
      (tnDirs c.schema (View.enter c.schema (.fragmentDef name on dirs) {}) dirs ++
        (.selectionSet ssid sels, View.enter c.schema (.selectionSet ssid sels)
            (View.enter c.schema (.fragmentDef name on dirs) {})) ::
          tnSels c.schema (View.enter c.schema (.selectionSet ssid sels)
            (View.enter c.schema (.fragmentDef name on dirs) {})) sels)
      st rfl (fun _ e => by cases e) (fun st1 e => by
        have hd1 : st1.ti.directive = none := by rw [e, directive_tiEnter _ _ _ (fun _ => by simp)]; exact hd0
        have hv1 : st1.ti.view = View.enter c.schema (.fragmentDef name on dirs) {} := by rw [e, view_enter, hv0]
        have h2 := visitDirectivesT h dirs st1 hd1
        have h3 := visitNodeT h (.selectionSet ssid sels) (visitSels c sels) _ (visitDirectives c dirs st1)
          rfl (fun _ e => by cases e) (fun st2 e2 => by
            have := visitSelsT h sels st2 (by rw [e2, directive_tiEnter _ _ _ (fun _ => by simp), h2.1]; exact hd1)
            rwa [e2, view_enter] at this)
        rw [h2.1] at h3
        rw [hv1] at h2 h3
        exact h2.append h3)
    rwa [hv0] at this
  | ts a b =>
    rw [visitDef, tnDef]
    have := leafT h .tsDef st rfl (fun _ e => by cases e) rfl
    rwa [hv0] at this

/-- **the stacks are balanced and every (node, static context) pair is met exactly once** -/
theorem visitDefsT (h : TCF c F G) (ds : List Def) (st : St) (h0 : st.ti = {}) :
    TW F G (ds.flatMap (tnDef c.schema)) st (ds.foldl (fun st x => visitDef c x st) st) :=
  foldlT (fun t => t = {}) (visitDef c) (fun _ d => tnDef c.schema d) (fun d st hp => visitDefT h d st hp) ds st h0

end PyGql.Validate

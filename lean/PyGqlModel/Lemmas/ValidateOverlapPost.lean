/-
  `OverlappingFieldsCanBeMergedChecker`, soundness half with fragment spreads, part 4: the shape of the
  postconditions of the search functions (`GP`): a call that ends without a crash started without one, only adds keys
  to the memo, and - when it counted no conflict - every key it added is closed (`KeyObl`, relative to any memo `M`
  that contains the final one) and its own payload `Res M` holds. Combinators for sequencing and for `sumLoop`.
  Also: `_fields_and_fragments` touches nothing but the cache; the collected fragment names are complete.
-/
import PyGqlModel.Lemmas.ValidateOverlapCertUse2
namespace PyGql.Validate
open PyGql PyGql.Validate.Spec

/-- `M` contains the memo of the context -/
def Sup (c : OCtx) (M : Memo) : Prop := ∀ k ∈ c.pairs, M k

structure GP (s : SchemaD) (d : Doc) (c : OCtx) (r : Nat × OCtx) (Res : Memo → Prop) : Prop where
  crash : c.crash = none
  mono : ∀ k ∈ c.pairs, k ∈ r.2.pairs
  res : r.1 = 0 → ∀ M, Sup r.2 M → (∀ k ∈ r.2.pairs, k ∈ c.pairs ∨ KeyObl s d M k) ∧ Res M

variable {s : SchemaD} {d : Doc}

/-- a step that counts nothing and leaves memo and crash flag alone -/
theorem GP.skip {c c' : OCtx} {Res : Memo → Prop} (hp : c'.pairs = c.pairs) (hcr : c'.crash = c.crash)
    (hres : ∀ M, Sup c M → Res M) (h : c'.crash = none) : GP s d c (0, c') Res :=
  ⟨by rw [← hcr]; exact h, fun k hk => by simp only; rw [hp]; exact hk,
   fun _ M hM => ⟨fun k hk => Or.inl (by simp only at hk; rw [hp] at hk; exact hk),
    hres M (fun k hk => hM k (by simp only; rw [hp]; exact hk))⟩⟩

/-- a step that reported something: nothing is claimed -/
theorem GP.pos {c c' : OCtx} {Res : Memo → Prop} {k : Nat} (hk : k ≠ 0) (hp : ∀ x ∈ c.pairs, x ∈ c'.pairs)
    (hcr : c.crash = none) : GP s d c (k, c') Res :=
  ⟨hcr, hp, fun h0 => absurd h0 hk⟩

/-- change the count to one that vanishes only if the original does -/
theorem GP.count {c : OCtx} {r : Nat × OCtx} {R : Memo → Prop} (h : GP s d c r R) (k : Nat) (hk : k = 0 → r.1 = 0) :
    GP s d c (k, r.2) R :=
  ⟨h.crash, h.mono, fun h0 => h.res (hk h0)⟩

/-- weaken the payload -/
theorem GP.imp {c : OCtx} {r : Nat × OCtx} {R1 R2 : Memo → Prop} (h : GP s d c r R1) (hi : ∀ M, Sup r.2 M → R1 M → R2 M) :
    GP s d c r R2 :=
  ⟨h.crash, h.mono, fun h0 M hM => ⟨(h.res h0 M hM).1, hi M hM (h.res h0 M hM).2⟩⟩

/-- sequencing: the second call starts where the first ended -/
theorem GP.seq {c : OCtx} {r1 r2 : Nat × OCtx} {R1 R2 : Memo → Prop} (h1 : GP s d c r1 R1) (h2 : GP s d r1.2 r2 R2) :
    GP s d c (r1.1 + r2.1, r2.2) (fun M => R1 M ∧ R2 M) := by
  refine ⟨h1.crash, fun k hk => h2.mono k (h1.mono k hk), fun h0 M hM => ?_⟩
  simp only at h0 hM
  have hM1 : Sup r1.2 M := fun k hk => hM k (h2.mono k hk)
  obtain ⟨a1, a2⟩ := h1.res (by omega) M hM1
  obtain ⟨b1, b2⟩ := h2.res (by omega) M hM
  refine ⟨fun k hk => ?_, a2, b2⟩
  rcases b1 k hk with h | h
  · exact a1 k h
  · exact Or.inr h

/-- a context transformation in front (e.g. marking a name in `cmp`, inserting a key whose closure is supplied) -/
theorem GP.pre {c c0 : OCtx} {r : Nat × OCtx} {R : Memo → Prop} (h : GP s d c0 r R) (hcr : c0.crash = c.crash)
    (hp : ∀ k ∈ c.pairs, k ∈ c0.pairs)
    (hnew : r.1 = 0 → ∀ M, Sup r.2 M → R M → ∀ k ∈ c0.pairs, k ∈ c.pairs ∨ KeyObl s d M k) : GP s d c r R := by
  refine ⟨by rw [← hcr]; exact h.crash, fun k hk => h.mono k (hp k hk), fun h0 M hM => ?_⟩
  obtain ⟨a1, a2⟩ := h.res h0 M hM
  refine ⟨fun k hk => ?_, a2⟩
  rcases a1 k hk with h' | h'
  · exact hnew h0 M hM a2 k h'
  · exact Or.inr h'

/-- a context transformation behind that keeps memo and crash flag (e.g. restoring `cmp`) -/
theorem GP.post {c : OCtx} {r : Nat × OCtx} {c' : OCtx} {R : Memo → Prop} (h : GP s d c r R) (hp : c'.pairs = r.2.pairs) :
    GP s d c (r.1, c') R :=
  ⟨h.crash, fun k hk => by simp only; rw [hp]; exact h.mono k hk,
   fun h0 M hM => by
    have hM' : Sup r.2 M := fun k hk => hM k (by simp only; rw [hp]; exact hk)
    obtain ⟨a1, a2⟩ := h.res h0 M hM'
    exact ⟨fun k hk => a1 k (by simp only at hk; rw [hp] at hk; exact hk), a2⟩⟩

/-- **`sumLoop`**: every item satisfies its postcondition ⇒ the loop satisfies the conjunction -/
theorem sumLoop_gp {α} (xs : List α) (f : α → OCtx → Nat × OCtx) (P : OCtx → Prop) (Q : α → Memo → Prop)
    (hf : ∀ x ∈ xs, ∀ c, P c → P (f x c).2 ∧ ((f x c).2.crash = none → GP s d c (f x c) (Q x)))
    (c : OCtx) (hc : P c) (hn : (sumLoop xs f c).2.crash = none) :
    GP s d c (sumLoop xs f c) (fun M => ∀ x ∈ xs, Q x M) := by
  unfold sumLoop at hn ⊢
  have key : ∀ (ys : List α) (acc : Nat × OCtx), (∀ x ∈ ys, x ∈ xs) → P acc.2 →
      (ys.foldl (fun (acc : Nat × OCtx) x =>
        if acc.2.crash.isSome then acc else ((acc.1 + (f x acc.2).1, (f x acc.2).2) : Nat × OCtx)) acc).2.crash = none →
      acc.2.crash = none ∧
      (∀ k ∈ acc.2.pairs, k ∈ (ys.foldl (fun (acc : Nat × OCtx) x =>
        if acc.2.crash.isSome then acc else ((acc.1 + (f x acc.2).1, (f x acc.2).2) : Nat × OCtx)) acc).2.pairs) ∧
      ((ys.foldl (fun (acc : Nat × OCtx) x =>
        if acc.2.crash.isSome then acc else ((acc.1 + (f x acc.2).1, (f x acc.2).2) : Nat × OCtx)) acc).1 = 0 →
        acc.1 = 0 ∧ ∀ M, Sup (ys.foldl (fun (acc : Nat × OCtx) x =>
          if acc.2.crash.isSome then acc else ((acc.1 + (f x acc.2).1, (f x acc.2).2) : Nat × OCtx)) acc).2 M →
          (∀ k ∈ (ys.foldl (fun (acc : Nat × OCtx) x =>
            if acc.2.crash.isSome then acc else ((acc.1 + (f x acc.2).1, (f x acc.2).2) : Nat × OCtx)) acc).2.pairs,
            k ∈ acc.2.pairs ∨ KeyObl s d M k) ∧ ∀ x ∈ ys, Q x M) := by
    intro ys
    induction ys with
    | nil =>
      intro acc _ _ h
      exact ⟨h, fun k hk => hk, fun h0 => ⟨h0, fun M _ => ⟨fun k hk => Or.inl hk, fun _ hx => nomatch hx⟩⟩⟩
    | cons y ys ih =>
      intro acc hsub hp h
      rw [List.foldl_cons] at h ⊢
      have hy : y ∈ xs := hsub y (List.mem_cons_self ..)
      have hys : ∀ x ∈ ys, x ∈ xs := fun x hx => hsub x (List.mem_cons_of_mem _ hx)
      by_cases hcr : acc.2.crash.isSome = true
      · rw [if_pos hcr] at h ⊢
        obtain ⟨a, _⟩ := ih acc hys hp h
        rw [a] at hcr; cases hcr
      · rw [if_neg hcr] at h ⊢
        obtain ⟨p1, q1⟩ := hf y hy acc.2 hp
        obtain ⟨a, b, c'⟩ := ih (acc.1 + (f y acc.2).1, (f y acc.2).2) hys p1 h
        have g := q1 a
        refine ⟨g.crash, fun k hk => b k (g.mono k hk), fun h0 => ?_⟩
        obtain ⟨c1, c2⟩ := c' h0
        simp only at c1
        refine ⟨by omega, fun M hM => ?_⟩
        obtain ⟨d1, d2⟩ := c2 M hM
        have hMy : Sup (f y acc.2).2 M := fun k hk => hM k (b k hk)
        obtain ⟨e1, e2⟩ := g.res (by omega) M hMy
        refine ⟨fun k hk => ?_, fun x hx => ?_⟩
        · rcases d1 k hk with h' | h'
          · exact e1 k h'
          · exact Or.inr h'
        · rcases List.mem_cons.mp hx with rfl | hx
          · exact e2
          · exact d2 x hx
  obtain ⟨a, b, c'⟩ := key xs (0, c) (fun _ h => h) hc hn
  exact ⟨a, b, fun h0 M hM => (c' h0).2 M hM⟩

/-! ### `_fields_and_fragments` -/

theorem ff_frame (s : SchemaD) (p : Option String) (i : Nat) (sels : List Sel) (c : OCtx) :
    (fieldsAndFragments s p i sels c).2.pairs = c.pairs ∧ (fieldsAndFragments s p i sels c).2.cmp = c.cmp ∧
    (fieldsAndFragments s p i sels c).2.crash = c.crash ∧ (fieldsAndFragments s p i sels c).2.frags = c.frags := by
  unfold fieldsAndFragments
  cases c.cache.find? (·.1 == i) <;> exact ⟨rfl, rfl, rfl, rfl⟩

mutual
theorem collectSel_spreads (s : SchemaD) : ∀ (parent : Option String) (x : Sel) (acc : FMap × List String) (g : String),
    (g ∈ acc.2 ∨ SpreadD [x] g) → g ∈ (collectSel s parent x acc).2
  | parent, .field alias name args dirs hasSub ssid sub, (fm, fr), g, h => by
    simp only [collectSel]
    rcases h with h | h
    · exact h
    · cases h with
      | spread hm => simp at hm
      | inline hm _ => simp at hm
  | parent, .spread name dirs, (fm, fr), g, h => by
    simp only [collectSel]
    rcases h with h | h
    · exact List.mem_append_left _ h
    · cases h with
      | spread hm =>
        simp only [List.mem_singleton, Sel.spread.injEq] at hm
        exact List.mem_append_right _ (List.mem_singleton.mpr hm.1)
      | inline hm _ => simp at hm
  | parent, .inline on dirs id sub, (fm, fr), g, h => by
    simp only [collectSel]
    apply collectSels_spreads s _ sub (fm, fr) g
    rcases h with h | h
    · exact Or.inl h
    · cases h with
      | spread hm => simp at hm
      | @inline _ on' dirs' id' sub' _ hm hs =>
        simp only [List.mem_singleton, Sel.inline.injEq] at hm
        obtain ⟨_, _, _, h4⟩ := hm
        subst h4
        exact Or.inr hs
theorem collectSels_spreads (s : SchemaD) : ∀ (parent : Option String) (xs : List Sel) (acc : FMap × List String) (g : String),
    (g ∈ acc.2 ∨ SpreadD xs g) → g ∈ (collectSels s parent xs acc).2
  | _, [], acc, g, h => by
    rw [collectSels]
    rcases h with h | h
    · exact h
    · cases h with
      | spread hm => cases hm
      | inline hm _ => cases hm
  | parent, x :: xs, acc, g, h => by
    rw [collectSels]
    apply collectSels_spreads s parent xs _ g
    rcases h with h | h
    · exact Or.inl (collectSel_spreads s parent x acc g (Or.inl h))
    · cases h with
      | spread hm =>
        rcases List.mem_cons.mp hm with rfl | hm
        · exact Or.inl (collectSel_spreads s parent _ acc g (Or.inr (.spread (List.mem_singleton.mpr rfl))))
        · exact Or.inr (.spread hm)
      | inline hm hs =>
        rcases List.mem_cons.mp hm with rfl | hm
        · exact Or.inl (collectSel_spreads s parent _ acc g (Or.inr (.inline (List.mem_singleton.mpr rfl) hs)))
        · exact Or.inr (.inline hm hs)
end

/-- every fragment the set spreads is among the names `_fields_and_fragments` returns -/
theorem ff_spreads_complete (s : SchemaD) (p : Option String) (i : Nat) (sels : List Sel) (c : OCtx) (g : String)
    (h : SpreadD sels g) : g ∈ (fieldsAndFragments s p i sels c).1.2 := by
  unfold fieldsAndFragments
  cases c.cache.find? (·.1 == i) with
  | some q => exact collectSels_spreads s _ sels ([], []) g (Or.inr h)
  | none =>
    simp only
    exact List.mem_eraseDups.mpr (collectSels_spreads s _ sels ([], []) g (Or.inr h))

end PyGql.Validate

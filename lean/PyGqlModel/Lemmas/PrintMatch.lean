/-
  From token CLASSES to the matcher of `Spec/Grammar.lean`: under `no_location` a token list whose classes are the
  canonical yield of a location-free view is matched by that view (positions are irrelevant).
-/
import PyGqlModel.Lemmas.ParseCore
namespace PyGql.PrintMatch
open PyGql PyGql.Ast PyGql.Parse PyGql.Spec

mutual
/-- a view without optional tokens / look-ahead restrictions, every node location-free and non-empty -/
def plain : Item → Bool
  | .tok _ _ => true
  | .optTok _ _ => false
  | .nla _ => false
  | .node loc is => loc.isNone && plainAll is && !(Item.yieldAll is).isEmpty
def plainAll : List Item → Bool
  | [] => true
  | i :: is => plain i && plainAll is
end

theorem plainAll_append (a b : List Item) : plainAll (a ++ b) = (plainAll a && plainAll b) := by
  induction a with
  | nil => simp [plainAll]
  | cons i is ih => simp [plainAll, ih, Bool.and_assoc]

theorem yieldAll_append (a b : List Item) : Item.yieldAll (a ++ b) = Item.yieldAll a ++ Item.yieldAll b := by
  induction a with
  | nil => simp [Item.yieldAll]
  | cons i is ih => simp [Item.yieldAll, ih]

mutual
theorem check_of_yield (fl : Flags) (hnl : fl.noLocation = true) :
    ∀ (i : Item) (l : Tok) (ts rest : List Tok), plain i = true → classes ts = i.yield →
      i.check fl l (ts ++ rest) = some (Item.lastOf l ts, rest)
  | .tok k v, l, ts, rest, _, hy => by
    simp only [Item.yield] at hy
    match ts, hy with
    | [t], hy =>
      simp only [classes, List.map_cons, List.map_nil, List.cons.injEq, and_true] at hy
      rw [check_tok]
      exact ⟨t, rfl, hy, by simp [Item.lastOf]⟩
  | .optTok _ _, _, _, _, hp, _ => by simp [plain] at hp
  | .nla _, _, _, _, hp, _ => by simp [plain] at hp
  | .node loc is, l, ts, rest, hp, hy => by
    simp only [plain, Bool.and_eq_true, Option.isNone_iff_eq_none, Bool.not_eq_true', List.isEmpty_eq_false_iff] at hp
    obtain ⟨⟨hloc, hpl⟩, hne⟩ := hp
    simp only [Item.yield] at hy
    have := checkAll_of_yield fl hnl is l ts rest hpl hy
    cases ts with
    | nil => simp [classes] at hy; exact (hne hy).elim
    | cons f tl =>
      rw [check_node]
      refine ⟨f, tl ++ rest, rfl, this, ?_⟩
      simp [hloc, locOf, hnl]
theorem checkAll_of_yield (fl : Flags) (hnl : fl.noLocation = true) :
    ∀ (is : List Item) (l : Tok) (ts rest : List Tok), plainAll is = true → classes ts = Item.yieldAll is →
      Item.checkAll fl is l (ts ++ rest) = some (Item.lastOf l ts, rest)
  | [], l, ts, rest, _, hy => by
    simp only [Item.yieldAll, classes, List.map_eq_nil_iff] at hy
    subst hy
    simp [Item.checkAll, Item.lastOf]
  | i :: is, l, ts, rest, hp, hy => by
    simp only [plainAll, Bool.and_eq_true] at hp
    simp only [Item.yieldAll, classes] at hy
    obtain ⟨t1, t2, rfl, h1, h2⟩ := List.map_eq_append_iff.1 hy
    rw [checkAll_cons]
    refine ⟨Item.lastOf l t1, t2 ++ rest, ?_, ?_⟩
    · rw [List.append_assoc]; exact check_of_yield fl hnl i l t1 (t2 ++ rest) hp.1 h1
    · rw [lastOf_append]; exact checkAll_of_yield fl hnl is _ t2 rest hp.2 h2
end

/-- the whole-list form used with `parse*_complete` -/
theorem matchesAll_of_yield (fl : Flags) (hnl : fl.noLocation = true) (items : List Item) (toks : List Tok)
    (hp : plainAll items = true) (hy : classes toks = Item.yieldAll items) : matchesAll fl items toks = true := by
  have := checkAll_of_yield fl hnl items default toks [] hp hy
  simp only [List.append_nil] at this
  simp [matchesAll, this]

end PyGql.PrintMatch

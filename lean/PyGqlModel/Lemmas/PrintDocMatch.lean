/-
  All documents, matcher side: the token classes of the printed entries are matched by the view of the document
  without member descriptions.
-/
import PyGqlModel.Lemmas.PrintDocAll
namespace PyGql.PrintTokens
open PyGql PyGql.Ast PyGql.Parse PyGql.Spec PyGql.Print PyGql.PrintLex PyGql.PrintMatch PyGql.PrintString PyGql.Lex

/-- the first token of a definition that is not a shorthand query is a keyword or a description — never `{` -/
theorem yield_head_notCurly (d : Definition) (h : isShortOp d = false) :
    ((definitionV (stripDef d)).yield.head?.map Prod.fst) ≠ some .curlyL := by
  cases d with
  | operation o =>
    simp only [isShortOp] at h
    simp [stripDef, definitionV, operationV, h, kw, Item.yield, Item.yieldAll]
  | fragment f => simp [stripDef, definitionV, fragmentV, kw, Item.yield, Item.yieldAll]
  | schemaDefinition dirs ops loc => simp [stripDef, definitionV, kw, Item.yield, Item.yieldAll]
  | schemaExtension dirs ops loc => simp [stripDef, definitionV, kw, Item.yield, Item.yieldAll]
  | scalarTypeExtension name dirs loc => simp [stripDef, definitionV, kw, Item.yield, Item.yieldAll]
  | objectTypeExtension name ifs dirs fields loc => simp [stripDef, definitionV, kw, Item.yield, Item.yieldAll]
  | interfaceTypeExtension name dirs fields loc => simp [stripDef, definitionV, kw, Item.yield, Item.yieldAll]
  | unionTypeExtension name dirs types loc => simp [stripDef, definitionV, kw, Item.yield, Item.yieldAll]
  | enumTypeExtension name dirs values loc => simp [stripDef, definitionV, kw, Item.yield, Item.yieldAll]
  | inputObjectTypeExtension name dirs fields loc => simp [stripDef, definitionV, kw, Item.yield, Item.yieldAll]
  | scalarTypeDefinition desc name dirs loc =>
    cases desc with
    | none => simp [stripDef, definitionV, descV, optV, kw, Item.yield, Item.yieldAll]
    | some s => cases hb : s.block <;> simp [stripDef, definitionV, descV, optV, stringV, kw, Item.yield, Item.yieldAll, hb]
  | objectTypeDefinition desc name ifs dirs fields loc =>
    cases desc with
    | none => simp [stripDef, definitionV, descV, optV, kw, Item.yield, Item.yieldAll]
    | some s => cases hb : s.block <;> simp [stripDef, definitionV, descV, optV, stringV, kw, Item.yield, Item.yieldAll, hb]
  | interfaceTypeDefinition desc name dirs fields loc =>
    cases desc with
    | none => simp [stripDef, definitionV, descV, optV, kw, Item.yield, Item.yieldAll]
    | some s => cases hb : s.block <;> simp [stripDef, definitionV, descV, optV, stringV, kw, Item.yield, Item.yieldAll, hb]
  | unionTypeDefinition desc name dirs types loc =>
    cases desc with
    | none => simp [stripDef, definitionV, descV, optV, kw, Item.yield, Item.yieldAll]
    | some s => cases hb : s.block <;> simp [stripDef, definitionV, descV, optV, stringV, kw, Item.yield, Item.yieldAll, hb]
  | enumTypeDefinition desc name dirs values loc =>
    cases desc with
    | none => simp [stripDef, definitionV, descV, optV, kw, Item.yield, Item.yieldAll]
    | some s => cases hb : s.block <;> simp [stripDef, definitionV, descV, optV, stringV, kw, Item.yield, Item.yieldAll, hb]
  | inputObjectTypeDefinition desc name dirs fields loc =>
    cases desc with
    | none => simp [stripDef, definitionV, descV, optV, kw, Item.yield, Item.yieldAll]
    | some s => cases hb : s.block <;> simp [stripDef, definitionV, descV, optV, stringV, kw, Item.yield, Item.yieldAll, hb]
  | directiveDefinition desc name args locations loc =>
    cases desc with
    | none => simp [stripDef, definitionV, descV, optV, kw, Item.yield, Item.yieldAll]
    | some s => cases hb : s.block <;> simp [stripDef, definitionV, descV, optV, stringV, kw, Item.yield, Item.yieldAll, hb]


theorem yield_ne_nil_notShort (d : Definition) (h : isShortOp d = false) : (definitionV (stripDef d)).yield ≠ [] := by
  cases d with
  | operation o =>
    simp only [isShortOp] at h
    simp [stripDef, definitionV, operationV, h, kw, Item.yield, Item.yieldAll]
  | fragment f => simp [stripDef, definitionV, fragmentV, kw, Item.yield, Item.yieldAll]
  | _ => simp [stripDef, definitionV, kw, Item.yield, Item.yieldAll, yieldAll_append]

theorem check_operationV_query (fl : Flags) (hnl : fl.noLocation = true) (o : OperationDefinition)
    (hno : noLocOperation o = true) (hs : isShorthand o = true) (l q : Tok) (ts rest : List Tok)
    (hq : cls q = (.name, K.query)) (hy : classes ts = (selectionSetV o.selectionSet).yield) :
    (operationV o).check fl l (q :: ts ++ rest) = some (Item.lastOf l (q :: ts), rest) := by
  simp only [noLocOperation, Bool.and_eq_true, Option.isNone_iff_eq_none] at hno
  obtain ⟨⟨⟨⟨h1, _⟩, _⟩, _⟩, h5⟩ := hno
  have pss := plain_selectionSetV o.selectionSet h5
  have hss := check_of_yield fl hnl (selectionSetV o.selectionSet) q ts rest pss hy
  simp only [operationV, hs, ↓reduceIte]
  rw [check_node]
  refine ⟨q, ts ++ rest, by simp, ?_, by simp [h1, locOf, hnl]⟩
  rw [checkAll_cons]
  refine ⟨q, ts ++ rest, ?_, ?_⟩
  · rw [check_optTok]; left; exact ⟨q, by simp, hq, rfl⟩
  · rw [checkAll_cons]
    exact ⟨_, _, hss, by simp [Item.checkAll, lastOf_cons]⟩

/-- one definition: with or without the keyword added by the R6 guard -/
theorem check_definition (fl : Flags) (hnl : fl.noLocation = true) (d : Definition) (hno : noLocDefinition d = true)
    (b : Bool) (hb : b = true → isShortOp d = true) (l : Tok) (ts rest : List Tok)
    (hy : classes ts = (if b then [(TokKind.name, K.query)] else []) ++ (definitionV (stripDef d)).yield)
    (hf : openEnd d = true → ((classes rest).head?.map Prod.fst) ≠ some .curlyL) :
    (definitionV (stripDef d)).check fl l (ts ++ rest) = some (Item.lastOf l ts, rest) := by
  cases b with
  | true =>
    have hsh := hb rfl
    cases d with
    | operation o =>
      simp only [isShortOp] at hsh
      simp only [noLocDefinition, isExecDef, ↓reduceIte, noLocExecDefinition] at hno
      simp only [↓reduceIte, List.singleton_append] at hy
      cases ts with
      | nil => simp [classes] at hy
      | cons q ts' =>
        simp only [classes, List.map_cons, List.cons.injEq] at hy
        have hyield : (definitionV (stripDef (.operation o))).yield = (selectionSetV o.selectionSet).yield := by
          simp [stripDef, definitionV, operationV, hsh, Item.yield, Item.yieldAll]
        rw [hyield] at hy
        simpa [stripDef, definitionV] using check_operationV_query fl hnl o hno hsh l q ts' rest hy.1 hy.2
    | _ => simp [isShortOp] at hsh
  | false =>
    simp only [Bool.false_eq_true, ↓reduceIte, List.nil_append] at hy
    by_cases hx : isExecDef d = true
    · have hno' : noLocExecDefinition d = true := by simpa [noLocDefinition, hx] using hno
      have hsd : stripDef d = d := by cases d <;> simp [isExecDef] at hx <;> rfl
      rw [hsd] at hy ⊢
      exact checkOK_execDefinitionV fl hnl d hno' l ts rest hy
    · have hx' : isExecDef d = false := by simpa using hx
      have hno' : noLocTSDefinition d = true := by simpa [noLocDefinition, hx'] using hno
      exact check_of_plainF fl hnl _ l ts rest (plainF_tsDefinition d hno' _ hf) hy


theorem guardBit_short (c : Cfg) (d : Definition) (f : GFacts c d) (prev : Option Text)
    (h : guardBit prev (printDefinition c d) = true) : isShortOp d = true := by
  cases prev with
  | none => simp [guardBit] at h
  | some p =>
    simp only [guardBit, Bool.and_eq_true, beq_iff_eq] at h
    exact f.head.1 h.1

theorem openEnd_notShort (d : Definition) (h : openEnd d = true) : isShortOp d = false := by
  cases d <;> simp [openEnd] at h <;> rfl

/-- the head class of the entries that follow an open-ended definition is never `{` -/
theorem entryPairs_head (c : Cfg) (ds : List Definition) (hds : ∀ x ∈ ds, GFacts c x) (e' : Text) (hnb : NB e')
    (folRest : List TokClass) (hr : (folRest.head?.map Prod.fst) ≠ some .curlyL) :
    ((((entryPairs c (some e') ds).flatMap Prod.snd) ++ folRest).head?.map Prod.fst) ≠ some .curlyL := by
  cases ds with
  | nil => simpa [entryPairs] using hr
  | cons d2 ds' =>
    have f2 := hds d2 (by simp)
    simp only [entryPairs, List.flatMap_cons, List.append_assoc]
    by_cases hs : isShortOp d2 = true
    · have hb : guardBit (some e') (printDefinition c d2) = true := by
        simp only [guardBit, Bool.and_eq_true, beq_iff_eq, Bool.not_eq_true', beq_eq_false_iff_ne]
        exact ⟨f2.head.2 hs, hnb⟩
      simp [hb]
    · have hs' : isShortOp d2 = false := by simpa using hs
      have hb : guardBit (some e') (printDefinition c d2) = false := by
        cases hg : guardBit (some e') (printDefinition c d2) with
        | false => rfl
        | true => rw [guardBit_short c d2 f2 _ hg] at hs'; cases hs'
      have hne := yield_ne_nil_notShort d2 hs'
      have hh := yield_head_notCurly d2 hs'
      simp only [hb, Bool.false_eq_true, ↓reduceIte, List.nil_append]
      cases hy : (definitionV (stripDef d2)).yield with
      | nil => exact absurd hy hne
      | cons x y => rw [hy] at hh; simpa using hh

/-- the document loop, matcher side -/
theorem checkAll_definitions (fl : Flags) (hnl : fl.noLocation = true) (c : Cfg) :
    ∀ (ds : List Definition) (prev : Option Text) (l : Tok) (ts rest : List Tok),
      (∀ x ∈ ds, GFacts c x) → (∀ x ∈ ds, noLocDefinition x = true) →
      classes ts = (entryPairs c prev ds).flatMap Prod.snd →
      (((classes rest).head?.map Prod.fst) ≠ some .curlyL) →
      Item.checkAll fl ((ds.map stripDef).map definitionV) l (ts ++ rest) = some (Item.lastOf l ts, rest)
  | [], _, l, ts, rest, _, _, hy, _ => by
    simp only [entryPairs, List.flatMap_nil, classes, List.map_eq_nil_iff] at hy
    subst hy
    simp [Item.checkAll, Item.lastOf]
  | d :: ds, prev, l, ts, rest, hf, hno, hy, hr => by
    have f := hf d (by simp)
    simp only [entryPairs, List.flatMap_cons, classes] at hy
    obtain ⟨t1, t2, rfl, h1, h2⟩ := List.map_eq_append_iff.1 hy
    have hb : guardBit prev (printDefinition c d) = true → isShortOp d = true := guardBit_short c d f prev
    have hfol : openEnd d = true → ((classes (t2 ++ rest)).head?.map Prod.fst) ≠ some .curlyL := by
      intro ho
      have hns := openEnd_notShort d ho
      have hb' : guardBit prev (printDefinition c d) = false := by
        cases hg : guardBit prev (printDefinition c d) with
        | false => rfl
        | true => rw [hb hg] at hns; cases hns
      have hcl : classes (t2 ++ rest) =
          (entryPairs c (some (printDefinition c d)) ds).flatMap Prod.snd ++ classes rest := by
        simp only [classes, List.map_append]
        rw [show List.map cls t2 = _ from h2]
        simp [hb']
      rw [hcl]
      exact entryPairs_head c ds (fun x hx => hf x (by simp [hx])) _ (f.nb ho) _ hr
    simp only [List.map_cons]
    rw [checkAll_cons]
    refine ⟨Item.lastOf l t1, t2 ++ rest, ?_, ?_⟩
    · rw [List.append_assoc]
      exact check_definition fl hnl d (hno d (by simp)) _ hb l t1 (t2 ++ rest) h1 hfol
    · rw [lastOf_append]
      exact checkAll_definitions fl hnl c ds _ _ t2 rest (fun x hx => hf x (by simp [hx])) (fun x hx => hno x (by simp [hx])) h2 hr

/-- no positions in a document (member descriptions ignored) -/
def noLocDocument (d : Document) : Bool := d.loc.isNone && d.definitions.all noLocDefinition

/-- SOF, the tokens of the printed entries, EOF — are matched by the view of the document without member descriptions -/
theorem matches_document (fl : Flags) (hnl : fl.noLocation = true) (c : Cfg) (d : Document)
    (hf : ∀ x ∈ d.definitions, GFacts c x) (hno : noLocDocument d = true)
    (sof eof : Tok) (hs : cls sof = (.sof, [])) (he : cls eof = (.eof, [])) (toks : List Tok)
    (hy : classes toks = (entryPairs c none d.definitions).flatMap Prod.snd) :
    matchesAll fl [documentV (stripMemberDescriptions d)] (sof :: toks ++ [eof]) = true := by
  simp only [noLocDocument, Bool.and_eq_true, Option.isNone_iff_eq_none] at hno
  have hdefs := checkAll_definitions fl hnl c d.definitions none sof toks [eof] hf
    (fun x hx => (List.all_eq_true.1 hno.2) x hx) hy (by simp [classes, he])
  have hall : Item.checkAll fl (p .sof :: ((d.definitions.map stripDef).map definitionV ++ [p .eof])) default
      (sof :: toks ++ [eof]) = some (eof, []) := by
    rw [checkAll_cons]
    refine ⟨sof, toks ++ [eof], ?_, ?_⟩
    · rw [check_tok]; exact ⟨sof, by simp, hs, rfl⟩
    · rw [checkAll_append]
      refine ⟨_, _, hdefs, ?_⟩
      rw [checkAll_cons]
      exact ⟨eof, [], by rw [check_tok]; exact ⟨eof, rfl, he, rfl⟩, by simp [Item.checkAll]⟩
  unfold matchesAll
  have : Item.checkAll fl [documentV (stripMemberDescriptions d)] default (sof :: toks ++ [eof]) = some (eof, []) := by
    rw [checkAll_cons]
    refine ⟨eof, [], ?_, by simp [Item.checkAll]⟩
    simp only [documentV, stripMemberDescriptions]
    rw [check_node]
    exact ⟨sof, toks ++ [eof], by simp, hall, by simp [hno.1, locOf, hnl]⟩
  rw [this]


/-! ### well-formedness does not look at member descriptions -/

theorem wfInputValue_strip (d : InputValueDefinition) : wfInputValue (stripIV d) = wfInputValue d := rfl
theorem wfFieldDefinition_strip (d : FieldDefinition) : wfFieldDefinition (stripFD d) = wfFieldDefinition d := by
  simp [wfFieldDefinition, stripFD, List.all_map, Function.comp_def, wfInputValue_strip]
theorem wfEnumValueDefinition_strip (d : EnumValueDefinition) : wfEnumValueDefinition (stripEV d) = wfEnumValueDefinition d := rfl

theorem wfDefinition_strip (fl : Flags) (d : Definition) : wfDefinition fl (stripDef d) = wfDefinition fl d := by
  cases d <;> simp [stripDef, wfDefinition, List.all_map, Function.comp_def, wfInputValue_strip, wfFieldDefinition_strip,
    wfEnumValueDefinition_strip]

theorem isTypeSystem_strip (d : Definition) : isTypeSystem (stripDef d) = isTypeSystem d := by
  cases d <;> rfl

theorem wfDocument_strip (fl : Flags) (d : Document) : wfDocument fl (stripMemberDescriptions d) = wfDocument fl d := by
  simp [wfDocument, stripMemberDescriptions, List.all_map, Function.comp_def, wfDefinition_strip, isTypeSystem_strip]

end PyGql.PrintTokens

/-
  `OverlappingFieldsCanBeMergedChecker`, soundness half, part 5 (documents without fragment spreads):
  `find_conflicts_within_selection_set` is complete for pairs of DIFFERENT fields, and a field never conflicts
  with itself once no two different fields of any selection set of the document do.
-/
import PyGqlModel.Lemmas.ValidateOverlapSoundSF2
namespace PyGql.Validate
open PyGql PyGql.Validate.Spec

theorem mem_pairsOf_or {α} {l : List α} {x y : α} (hx : x ∈ l) (hy : y ∈ l) :
    (x, y) ∈ pairsOf l ∨ (y, x) ∈ pairsOf l ∨ x = y := by
  induction l with
  | nil => cases hx
  | cons a as ih =>
    rw [pairsOf]
    rcases List.mem_cons.mp hx with rfl | hx' <;> rcases List.mem_cons.mp hy with rfl | hy'
    · exact Or.inr (Or.inr rfl)
    · exact Or.inl (List.mem_append_left _ (List.mem_map.mpr ⟨y, hy', rfl⟩))
    · exact Or.inr (Or.inl (List.mem_append_left _ (List.mem_map.mpr ⟨x, hx', rfl⟩)))
    · rcases ih hx' hy' with h | h | h
      · exact Or.inl (List.mem_append_right _ h)
      · exact Or.inr (Or.inl (List.mem_append_right _ h))
      · exact Or.inr (Or.inr h)

/-- no two DIFFERENT fields of the selection set (looked at under parent type `p`) conflict -/
def WGood (s : SchemaD) (d : Doc) (p : Option String) (sels : List Sel) : Prop :=
  ∀ rn e1 e2, CollD s p sels rn e1 → CollD s p sels rn e2 → e1 ≠ e2 → ¬ Conf s d false e1 e2

theorem within_complete_sf (s : SchemaD) (fx : Fixes) (d : Doc) (h7 : fx.v7 = true) (hns : NoSpreads d)
    (hpa : ParentsAgree s d) (p : Option String) (i : Nat) (sels : List Sel) (c : OCtx) (hc : CI s d c)
    (h1 : SelSet d i sels) (h2 : Adm s d i p) (hcr : (withinSelectionSet s fx p i sels c).2.crash = none) :
    c.crash = none ∧ ((withinSelectionSet s fx p i sels c).1 = 0 → WGood s d p sels) := by
  obtain ⟨sf, _, _, _, _⟩ := search_sound s fx d h7 overlapFuel
  obtain ⟨cf, _, _⟩ := search_complete_sf s fx d h7 hns hpa overlapFuel
  revert hcr
  simp only [withinSelectionSet, conflictsWithin]
  obtain ⟨x1, x2, _⟩ := ff_set s d hc h1 h2
  obtain ⟨p', xa, xe⟩ := ff_eq s d p i sels c hc.cache h2
  have xn := ff_noSpreads s d hns p i sels c hc.cache h2 h1
  have xc := ff_crash s p i sels c
  generalize fieldsAndFragments s p i sels c = ra at x1 x2 xe xn xc ⊢
  obtain ⟨⟨fm, fr⟩, ca⟩ := ra
  simp only at x1 x2 xe xn xc ⊢
  subst xn
  have e' : p' = p := hpa _ _ _ xa h2
  subst e'
  simp only [sumLoop_nil, withFreshCmp, pairsOf, Nat.add_zero]
  intro hcr
  have := sumLoop_complete' fm
    (fun x c => sumLoop (pairsOf x.2) (fun y c =>
      (if (findConflict s fx overlapFuel false y.1 y.2 c).1 = true then 1 else 0,
       (findConflict s fx overlapFuel false y.1 y.2 c).2)) c) (CI s d)
    (fun q => ∀ y ∈ pairsOf q.2, ¬ Conf s d false y.1 y.2) (WGood s d p' sels)
    (fun q hq c hc => by
      have hP : CI s d (sumLoop (pairsOf q.2) (fun y c =>
          (if (findConflict s fx overlapFuel false y.1 y.2 c).1 = true then 1 else 0,
           (findConflict s fx overlapFuel false y.1 y.2 c).2)) c).2 :=
        (sumLoop_spec (pairsOf q.2) _ (CI s d) (fun _ => True) (fun y hy c hc =>
          ⟨(sf false y.1 y.2 c hc (x2 q hq _ (mem_pairsOf hy).1) (x2 q hq _ (mem_pairsOf hy).2)).1,
           fun _ => trivial⟩) c hc).1
      refine ⟨hP, fun hcr => ?_⟩
      refine sumLoop_complete' (pairsOf q.2) _ (CI s d) (fun y => ¬ Conf s d false y.1 y.2) _
        (fun y hy c hc => ?_) (fun hall => hall) c hc hcr
      have hE1 := x2 q hq _ (mem_pairsOf hy).1
      have hE2 := x2 q hq _ (mem_pairsOf hy).2
      refine ⟨(sf false y.1 y.2 c hc hE1 hE2).1, fun hcr => ?_⟩
      obtain ⟨k1, k2⟩ := cf false y.1 y.2 c hc hE1 hE2 hcr
      refine ⟨k1, fun h0 => k2 ?_⟩
      cases hb : (findConflict s fx overlapFuel false y.1 y.2 c).1 with
      | false => rfl
      | true => rw [hb] at h0; simp at h0)
    (fun hall rn e1 e2 m1 m2 hne => by
      have g1 : e1 ∈ AL.getD fm rn [] := by rw [xe]; exact collectSels_complete s _ sels ([], []) rn e1 (Or.inr m1)
      have g2 : e2 ∈ AL.getD fm rn [] := by rw [xe]; exact collectSels_complete s _ sels ([], []) rn e2 (Or.inr m2)
      rcases AL.getD_cases fm rn [] with e | e
      · rw [e] at g1; cases g1
      · rcases mem_pairsOf_or g1 g2 with h | h | h
        · exact hall _ e _ h
        · exact fun hC => hall _ e _ h (Conf.symm hC)
        · exact absurd h hne) ca x1 hcr
  exact ⟨by rw [← xc]; exact this.1, this.2⟩

/-- **a field does not conflict with itself**, once no two different fields of any selection set conflict -/
theorem no_self_conf {s : SchemaD} {d : Doc} (hns : NoSpreads d) (hpa : ParentsAgree s d)
    (W : ∀ i sels, SelSet d i sels → ∀ p, Adm s d i p → WGood s d p sels)
    {pme : Bool} {f1 f2 : FEntry} (h : Conf s d pme f1 f2) : pme = false → f1 = f2 → Ent s d f1 → False := by
  induction h with
  | args hme harg =>
    intro _ e _
    subst e
    rcases harg with h | h
    · exact h rfl
    · rw [sameArguments_refl] at h; cases h
  | types h1 h2 h3 =>
    intro _ e _
    subst e
    rw [h1] at h2; cases h2
    rw [typesConflict_irrefl] at h3; cases h3
  | @sub pme f1 f2 p1 p2 rn e1 e2 s1 s2 a1 a2 c1 c2 hcf ih =>
    intro hp e hent
    subst e hp
    obtain ⟨hs, ha⟩ := hent.sub s1
    have e1' : p1 = _ := hpa _ _ _ a1 ha
    have e2' : p2 = _ := hpa _ _ _ a2 ha
    subst e1'
    rw [e2'] at c2
    have d1 := coll_noSpreads hns hs c1
    have d2 := coll_noSpreads hns hs c2
    have hme : (false || exclusiveParents s f1 f1) = false := by simp [exclusiveParents_self]
    by_cases hee : e1 = e2
    · exact ih hme hee ⟨_, _, _, rn, hs, ha, d1⟩
    · rw [hme] at hcf
      exact W _ _ hs _ ha rn e1 e2 d1 d2 hee hcf
  | @subSwap pme f1 f2 p1 p2 rn e1 e2 s1 s2 a1 a2 c1 c2 hcf ih =>
    intro hp e hent
    subst e hp
    obtain ⟨hs, ha⟩ := hent.sub s1
    have e1' : p1 = _ := hpa _ _ _ a1 ha
    have e2' : p2 = _ := hpa _ _ _ a2 ha
    subst e1'
    rw [e2'] at c2
    have d1 := coll_noSpreads hns hs c1
    have d2 := coll_noSpreads hns hs c2
    have hme : (false || exclusiveParents s f1 f1) = false := by simp [exclusiveParents_self]
    by_cases hee : e2 = e1
    · exact ih hme hee ⟨_, _, _, rn, hs, ha, d2⟩
    · rw [hme] at hcf
      exact W _ _ hs _ ha rn e2 e1 d2 d1 hee hcf

/-- from "no two different fields conflict" in every selection set to the clause -/
theorem clause_of_wgood {s : SchemaD} {d : Doc} (hns : NoSpreads d) (hpa : ParentsAgree s d)
    (W : ∀ i sels, SelSet d i sels → ∀ p, Adm s d i p → WGood s d p sels) : Spec.overlappingFieldsCanBeMerged s d := by
  intro i sels hs p ha rn e1 e2 c1 c2 hcf
  have d1 := coll_noSpreads hns hs c1
  have d2 := coll_noSpreads hns hs c2
  by_cases hee : e1 = e2
  · exact no_self_conf hns hpa W hcf rfl hee ⟨i, sels, p, rn, hs, ha, d1⟩
  · exact W i sels hs p ha rn e1 e2 d1 d2 hee hcf

end PyGql.Validate

/-
  Layer 4 (soundness): type-system definitions — building blocks.
-/
import PyGqlModel.Lemmas.ParseDocL
namespace PyGql.Parse
open PyGql PyGql.Ast PyGql.Spec

/-! ### term-mode chain builders for the matcher -/

theorem chk_tok {fl : Flags} {k : TokKind} {v : Text} {l t : Tok} {ts rest : List Tok}
    (h : ts = t :: rest) (hc : cls t = (k, v)) : (Item.tok k v).check fl l ts = some (t, rest) := by
  subst h; simp [Item.check, hc]

theorem chkA_cons {fl : Flags} {i : Item} {is : List Item} {l l1 : Tok} {ts ts1 : List Tok} {r : Tok × List Tok}
    (h1 : i.check fl l ts = some (l1, ts1)) (h2 : Item.checkAll fl is l1 ts1 = some r) :
    Item.checkAll fl (i :: is) l ts = some r := (checkAll_cons ..).2 ⟨_, _, h1, h2⟩

theorem chkA_app {fl : Flags} {is1 is2 : List Item} {l l1 : Tok} {ts ts1 : List Tok} {r : Tok × List Tok}
    (h1 : Item.checkAll fl is1 l ts = some (l1, ts1)) (h2 : Item.checkAll fl is2 l1 ts1 = some r) :
    Item.checkAll fl (is1 ++ is2) l ts = some r := (checkAll_append ..).2 ⟨_, _, h1, h2⟩

theorem chkA_nil {fl : Flags} {l : Tok} {ts : List Tok} : Item.checkAll fl [] l ts = some (l, ts) := by
  simp [Item.checkAll]

theorem chkA_one {fl : Flags} {i : Item} {l : Tok} {ts : List Tok} {r : Tok × List Tok}
    (h : i.check fl l ts = some r) : Item.checkAll fl [i] l ts = some r := by
  rcases r with ⟨a, b⟩; exact chkA_cons h chkA_nil

/-! ### descriptions, operation types -/

theorem parseDescription_sound (fl : Flags) (s : PS) (o : Option StringValue) (s' : PS)
    (h : parseDescription fl s = .ok (o, s')) :
    Item.checkAll fl (descV o) s.last s.toks = some (s'.last, s'.toks) := by
  simp only [parseDescription, bind_ok, peek_ok, ite_ok, pure_ok] at h
  obtain ⟨t, s1, ⟨ts, h1, hs1⟩, h⟩ := h
  subst hs1
  rcases h with ⟨hk, sv, s2, hs, hfin⟩ | ⟨_, hfin⟩
  · cases hfin
    have c := parseStringLiteral_sound fl _ _ _ ⟨_, _, h1, hk⟩ hs
    exact chkA_one c
  · cases hfin; exact chkA_nil

theorem parseOperationTypeDefinition_sound (fl : Flags) (s : PS) (d : OperationTypeDefinition) (s' : PS)
    (h : parseOperationTypeDefinition fl s = .ok (d, s')) :
    wfOperationType d = true ∧ (operationTypeV d).check fl s.last s.toks = some (s'.last, s'.toks) := by
  simp only [parseOperationTypeDefinition, bind_ok, peek_ok, expect_ok, mkLoc_ok, pure_ok,
    parseOperationType_ok] at h
  obtain ⟨st, s1, ⟨ts, h1, hs1⟩, op, s2, ⟨t, ts2, h2, hk, hv, hm, hs2⟩, col, s3, ⟨ts3, h3, hk3, hs3⟩, nt, s4, hnt,
    loc, s5, ⟨hloc, hs5⟩, hfin⟩ := h
  subst hs1
  have cnt := parseNamedType_sound fl _ _ _ hnt
  subst hs2; subst hs3
  cases hfin; subst hs5; subst hloc
  refine ⟨by simpa [wfOperationType] using hm, ?_⟩
  simp only [operationTypeV, check_node]
  exact ⟨_, _, h1, chkA_cons (chk_tok h2 (cls_kw hk hv)) (chkA_cons (chk_tok h3 (cls_const hk3 rfl)) (chkA_one cnt)), rfl⟩

/-! ### blocks `{ X+ }` (optional, with the look-ahead restriction when absent) -/

theorem block_sound {α} (fl : Flags) (p : P α) (Q : α → Prop) (V : α → Item)
    (hp : ∀ s x s', p s = .ok (x, s') → Q x ∧ (V x).check fl s.last s.toks = some (s'.last, s'.toks))
    (n : Nat) (s : PS) (xs : List α) (s' : PS) (h : optMany n .curlyL p .curlyR s = .ok (xs, s')) :
    (∀ x ∈ xs, Q x) ∧ Item.checkAll fl (blockV V xs) s.last s.toks = some (s'.last, s'.toks) := by
  obtain ⟨q, c, he⟩ := optMany_sound fl p .curlyL .curlyR rfl rfl Q V hp n s xs s' h
  refine ⟨q, ?_⟩
  cases xs with
  | nil =>
    obtain ⟨rfl, t, tl, ht, hk⟩ := he rfl
    simp only [blockV, List.isEmpty_nil, if_true]
    apply chkA_one
    rw [check_nla]
    exact ⟨rfl, rfl, fun t' tl' e => by rw [ht] at e; cases e; simpa using hk⟩
  | cons x xs => simpa [blockV, groupV] using c

/-! ### input values, argument definitions, field definitions, enum values -/

theorem parseInputValueDefinition_eq (fl : Flags) (fuel : Nat) :
    parseInputValueDefinition fl fuel = (do
      let start ← peek
      let desc ← parseDescription fl
      let name ← parseName fl
      let r ← typeDefaultDirs fl fuel
      pure { description := desc, name := name, type := r.1, defaultValue := r.2.1, directives := r.2.2,
             loc := ← mkLoc fl start }) := by
  simp only [parseInputValueDefinition, typeDefaultDirs, bind_assoc', pure_bind']

theorem parseInputValueDefinition_sound (fl : Flags) (fuel : Nat) (s : PS) (d : InputValueDefinition) (s' : PS)
    (h : parseInputValueDefinition fl fuel s = .ok (d, s')) :
    wfInputValue d = true ∧ (inputValueV d).check fl s.last s.toks = some (s'.last, s'.toks) := by
  rw [parseInputValueDefinition_eq] at h
  simp only [bind_ok, peek_ok, mkLoc_ok, pure_ok] at h
  obtain ⟨st, s1, ⟨ts, h1, hs1⟩, desc, s2, hdesc, nm, s3, hn, ⟨t, dv, ds⟩, s4, htd, loc, s5, ⟨hloc, hs5⟩, hfin⟩ := h
  subst hs1
  have cdesc := parseDescription_sound fl _ _ _ hdesc
  have cn := parseName_sound fl _ _ _ hn
  obtain ⟨⟨wt, wdv, wd⟩, ctd⟩ := typeDefaultDirs_sound fl fuel _ _ _ _ _ htd
  cases hfin; subst hs5; subst hloc
  refine ⟨by simp [wfInputValue, wt, wdv, wd], ?_⟩
  simp only [inputValueV, check_node]
  exact ⟨_, _, h1, chkA_app cdesc (chkA_cons cn ctd), rfl⟩

theorem parseArgumentDefinitions_eq (fl : Flags) (fuel : Nat) :
    parseArgumentDefinitions fl fuel = optMany fuel .parenL (parseInputValueDefinition fl fuel) .parenR := rfl

theorem parseArgumentDefinitions_sound (fl : Flags) (fuel : Nat) (s : PS) (ds : List InputValueDefinition) (s' : PS)
    (h : parseArgumentDefinitions fl fuel s = .ok (ds, s')) :
    (∀ d ∈ ds, wfInputValue d = true) ∧
      Item.checkAll fl (groupV .parenL .parenR inputValueV ds) s.last s.toks = some (s'.last, s'.toks) := by
  rw [parseArgumentDefinitions_eq] at h
  obtain ⟨q, c, _⟩ := optMany_sound fl _ .parenL .parenR rfl rfl (fun d => wfInputValue d = true) inputValueV
    (parseInputValueDefinition_sound fl fuel) _ _ _ _ h
  exact ⟨q, c⟩

theorem parseFieldDefinition_sound (fl : Flags) (fuel : Nat) (s : PS) (d : FieldDefinition) (s' : PS)
    (h : parseFieldDefinition fl fuel s = .ok (d, s')) :
    wfFieldDefinition d = true ∧ (fieldDefinitionV d).check fl s.last s.toks = some (s'.last, s'.toks) := by
  simp only [parseFieldDefinition, bind_ok, peek_ok, expect_ok, mkLoc_ok, pure_ok] at h
  obtain ⟨st, s1, ⟨ts, h1, hs1⟩, desc, s2, hdesc, nm, s3, hn, args, s4, ha, col, s5, ⟨ts5, h5, hk5, hs5⟩, ty, s6, hty,
    ds, s7, hd, loc, s8, ⟨hloc, hs8⟩, hfin⟩ := h
  subst hs1
  have cdesc := parseDescription_sound fl _ _ _ hdesc
  have cn := parseName_sound fl _ _ _ hn
  obtain ⟨wa, ca⟩ := parseArgumentDefinitions_sound fl fuel _ _ _ ha
  obtain ⟨wt, ct⟩ := parseTypeReference_sound fl _ _ _ _ hty
  obtain ⟨wd, cd⟩ := parseDirectives_sound fl _ _ _ _ _ hd
  subst hs5
  cases hfin; subst hs8; subst hloc
  refine ⟨by simp [wfFieldDefinition, wt, wd]; exact wa, ?_⟩
  simp only [fieldDefinitionV, check_node]
  exact ⟨_, _, h1, chkA_app cdesc (chkA_cons cn (chkA_app ca (chkA_cons (chk_tok h5 (cls_const hk5 rfl))
    (chkA_cons ct cd)))), rfl⟩

theorem parseFieldsDefinition_eq (fl : Flags) (fuel : Nat) :
    parseFieldsDefinition fl fuel = optMany fuel .curlyL (parseFieldDefinition fl fuel) .curlyR := rfl

theorem parseFieldsDefinition_sound (fl : Flags) (fuel : Nat) (s : PS) (ds : List FieldDefinition) (s' : PS)
    (h : parseFieldsDefinition fl fuel s = .ok (ds, s')) :
    (∀ d ∈ ds, wfFieldDefinition d = true) ∧
      Item.checkAll fl (blockV fieldDefinitionV ds) s.last s.toks = some (s'.last, s'.toks) := by
  rw [parseFieldsDefinition_eq] at h
  exact block_sound fl _ (fun d => wfFieldDefinition d = true) fieldDefinitionV (parseFieldDefinition_sound fl fuel) _ _ _ _ h

theorem parseInputFieldsDefinition_eq (fl : Flags) (fuel : Nat) :
    parseInputFieldsDefinition fl fuel = optMany fuel .curlyL (parseInputValueDefinition fl fuel) .curlyR := rfl

theorem parseInputFieldsDefinition_sound (fl : Flags) (fuel : Nat) (s : PS) (ds : List InputValueDefinition) (s' : PS)
    (h : parseInputFieldsDefinition fl fuel s = .ok (ds, s')) :
    (∀ d ∈ ds, wfInputValue d = true) ∧
      Item.checkAll fl (blockV inputValueV ds) s.last s.toks = some (s'.last, s'.toks) := by
  rw [parseInputFieldsDefinition_eq] at h
  exact block_sound fl _ (fun d => wfInputValue d = true) inputValueV (parseInputValueDefinition_sound fl fuel) _ _ _ _ h

theorem parseEnumValueDefinition_sound (fl : Flags) (fuel : Nat) (s : PS) (d : EnumValueDefinition) (s' : PS)
    (h : parseEnumValueDefinition fl fuel s = .ok (d, s')) :
    wfEnumValueDefinition d = true ∧ (enumValueDefinitionV d).check fl s.last s.toks = some (s'.last, s'.toks) := by
  simp only [parseEnumValueDefinition, bind_ok, peek_ok, ite_ok, fail_ok, and_false, false_or, mkLoc_ok, pure_ok] at h
  obtain ⟨st, s1, ⟨ts, h1, hs1⟩, desc, s2, hdesc, tk, s3, ⟨ts3, h3, hs3⟩, hcond, nm, s4, hn, ds, s5, hd, loc, s6,
    ⟨hloc, hs6⟩, hfin⟩ := h
  subst hs1; subst hs3
  have cdesc := parseDescription_sound fl _ _ _ hdesc
  have cn := parseName_sound fl _ _ _ hn
  obtain ⟨wd, cd⟩ := parseDirectives_sound fl _ _ _ _ _ hd
  have hval : notBoolNull nm.value = true := by
    simp only [parseName, bind_ok, expect_ok, mkLoc_ok, pure_ok] at hn
    obtain ⟨t', s7, ⟨ts', h7, hk7, _⟩, loc', s8, _, hfin'⟩ := hn
    cases hfin'
    rw [h3] at h7; cases h7
    simp only [notBoolNull, decide_eq_true_eq]
    simp only [not_and, not_or] at hcond
    exact hcond hk7
  cases hfin; subst hs6; subst hloc
  refine ⟨by simp [wfEnumValueDefinition, hval, wd], ?_⟩
  simp only [enumValueDefinitionV, check_node]
  exact ⟨_, _, h1, chkA_app cdesc (chkA_cons cn cd), rfl⟩

theorem parseEnumValuesDefinition_eq (fl : Flags) (fuel : Nat) :
    parseEnumValuesDefinition fl fuel = optMany fuel .curlyL (parseEnumValueDefinition fl fuel) .curlyR := rfl

theorem parseEnumValuesDefinition_sound (fl : Flags) (fuel : Nat) (s : PS) (ds : List EnumValueDefinition) (s' : PS)
    (h : parseEnumValuesDefinition fl fuel s = .ok (ds, s')) :
    (∀ d ∈ ds, wfEnumValueDefinition d = true) ∧
      Item.checkAll fl (blockV enumValueDefinitionV ds) s.last s.toks = some (s'.last, s'.toks) := by
  rw [parseEnumValuesDefinition_eq] at h
  exact block_sound fl _ (fun d => wfEnumValueDefinition d = true) enumValueDefinitionV
    (parseEnumValueDefinition_sound fl fuel) _ _ _ _ h

end PyGql.Parse

/-
  C14 — member-level provenance: the visitor hooks (heal, visibility, camel-case).
-/
import PyGqlModel.Lemmas.HeapMembers

set_option linter.unusedSimpArgs false
set_option linter.unusedVariables false
set_option linter.unnecessarySimpa false

namespace PyGql.Heap.Own
open PyGql.Heap

/-- visitors that only drop, re-point or rename members (the drop/wrap directive visitor replaces resolvers: excluded) -/
def NoWrap : Visitor → Prop
  | .sdir _ _ => False
  | _ => True

/-- the renaming a visitor applies to member names -/
def renOf : Visitor → String → String
  | .camel ren => ren
  | _ => id

def renAfter (v : Visitor) (ρ : String → String) : String → String := fun n => renOf v (ρ n)

theorem renAfter_heal (ρ : String → String) : renAfter .heal ρ = ρ := rfl
theorem renAfter_vis (p : VisP) (ρ : String → String) : renAfter (.vis p) ρ = ρ := rfl

theorem AAttr.same {ρ : String → String} {g g' g'' : ArgO} (k : AAttr ρ g g') (s : SameHead (.arg g') (.arg g'')) : AAttr ρ g g'' := by
  simp only [SameHead] at s
  obtain ⟨k1, k2, k3, k4, k5⟩ := k
  exact ⟨s.1.trans k1, s.2.1.trans k2, s.2.2.1.trans k3, s.2.2.2.1.trans k4, sameNames_trans k5 s.2.2.2.2⟩

theorem FAttr.same {ρ : String → String} {f f' f'' : FieldO} (k : FAttr ρ f f') (s : SameHead (.field f') (.field f'')) : FAttr ρ f f'' := by
  simp only [SameHead] at s
  obtain ⟨k1, k2, k3, k4, k5, k6, k7⟩ := k
  exact ⟨s.1.trans k1, s.2.1.trans k2, s.2.2.1.trans k3, s.2.2.2.1.trans k4, s.2.2.2.2.1.trans k5, s.2.2.2.2.2.1.trans k6,
    sameNames_trans k7 s.2.2.2.2.2.2⟩

/-! ### arguments, input fields -/

theorem onArgument_mem (v : Visitor) (hv : NoWrap v) (reg : List (String × Addr)) (ρ : String → String) (h0 h : Heap) (x a : Addr)
    (r : ARel ρ h0 h x a) : ∀ a', (onArgument v reg h a).2 = some a' → ARel (renAfter v ρ) h0 (onArgument v reg h a).1 x a' := by
  obtain ⟨g, g', h1, h2, k⟩ := r
  intro a' e
  simp only [onArgument, h2] at e ⊢
  cases v with
  | camel ren =>
    simp only [Option.some.injEq] at e; subst e
    obtain ⟨k1, k2, k3, k4, k5⟩ := k
    exact ⟨g, _, h1, readArg_alloc_new _ _, by simp [renAfter, renOf, k1], k2, k3, k4, k5⟩
  | heal =>
    cases ht : healed reg g'.ty with
    | none => simp [ht] at e
    | some t =>
      simp only [ht, Option.some.injEq] at e ⊢; subst e
      obtain ⟨k1, k2, k3, k4, k5⟩ := k
      exact ⟨g, _, h1, readArg_write_self h a _ (readArg_lt h2), k1, k2, k3, k4, sameNames_trans k5 (healed_sameNames reg g'.ty t ht)⟩
  | vis p => simp only [Option.some.injEq] at e; subst e; exact ⟨g, g', h1, h2, k⟩
  | sdir d w => exact absurd hv (by simp [NoWrap])

theorem onInputField_mem (v : Visitor) (hv : NoWrap v) (reg : List (String × Addr)) (ρ : String → String) (h0 h : Heap) (x a : Addr)
    (r : ARel ρ h0 h x a) : ∀ a', (onInputField v reg h a).2 = some a' → ARel (renAfter v ρ) h0 (onInputField v reg h a).1 x a' := by
  obtain ⟨g, g', h1, h2, k⟩ := r
  intro a' e
  simp only [onInputField, h2] at e ⊢
  cases v with
  | camel ren =>
    simp only [Option.some.injEq] at e; subst e
    obtain ⟨k1, k2, k3, k4, k5⟩ := k
    exact ⟨g, _, h1, readArg_alloc_new _ _, by simp [renAfter, renOf, k1], k2, k3, k4, k5⟩
  | heal =>
    cases ht : healed reg g'.ty with
    | none => simp [ht] at e
    | some t =>
      simp only [ht, Option.some.injEq] at e ⊢; subst e
      obtain ⟨k1, k2, k3, k4, k5⟩ := k
      exact ⟨g, _, h1, readArg_write_self h a _ (readArg_lt h2), k1, k2, k3, k4, sameNames_trans k5 (healed_sameNames reg g'.ty t ht)⟩
  | vis p =>
    simp only at e ⊢
    split at e
    · rename_i hvv
      simp only [hvv, if_true, Option.some.injEq] at e ⊢; subst e; exact ⟨g, g', h1, h2, k⟩
    · cases e
  | sdir d w => exact absurd hv (by simp [NoWrap])

theorem onArgument_stepT (v : Visitor) (reg : List (String × Addr)) (h : Heap) (a : Addr) : StepImp chkT h (onArgument v reg h a).1 :=
  onArgument_step v reg h a chkT (compat_true v reg)
theorem onInputField_stepT (v : Visitor) (reg : List (String × Addr)) (h : Heap) (a : Addr) : StepImp chkT h (onInputField v reg h a).1 :=
  onInputField_step v reg h a chkT (compat_true v reg)
theorem onField_stepT (v : Visitor) (reg : List (String × Addr)) (tn : String) (h : Heap) (a : Addr) : StepImp chkT h (onField v reg tn h a).1 :=
  onField_step v reg tn h a chkT (compat_true v reg)

/-- the arguments of a field after `on_argument` was mapped over them -/
theorem args_mem (v : Visitor) (hv : NoWrap v) (reg : List (String × Addr)) (ρ : String → String) (h0 h : Heap) (src as : List Addr)
    (hs : Sub2 (ARel ρ h0 h) src as) :
    Sub2 (ARel (renAfter v ρ) h0 (mapFilter (onArgument v reg) h as).1) src (mapFilter (onArgument v reg) h as).2 :=
  mapFilter_sub2 (Rin := fun h => ARel ρ h0 h) (Rout := fun h => ARel (renAfter v ρ) h0 h)
    (fun _ _ _ _ st r => r.keep st) (fun _ _ _ _ st r => r.keep st) (onArgument_stepT v reg)
    (fun h x a r => onArgument_mem v hv reg ρ h0 h x a r) src as h hs

/-! ### fields -/

/-- base part of `on_field` on the CURRENT field record `f` (attributes untouched; arguments visited) -/
theorem onFieldBase_mem (v : Visitor) (hv : NoWrap v) (reg : List (String × Addr)) (ρ : String → String) (h0 h : Heap) (a : Addr) (f : FieldO)
    (hf : h.readField a = some f) (src : List Addr) (hs : Sub2 (ARel ρ h0 h) src f.args) :
    ∃ f2, (onFieldBase v reg h a f).1.readField (onFieldBase v reg h a f).2 = some f2 ∧ SameHead (.field f) (.field f2) ∧
      Sub2 (ARel (renAfter v ρ) h0 (onFieldBase v reg h a f).1) src f2.args := by
  have hm := args_mem v hv reg ρ h0 h src f.args hs
  have hstep := mapFilter_step (onArgument_step v reg) f.args h chkT (compat_true v reg)
  simp only [onFieldBase]
  split
  · refine ⟨_, readField_alloc_new _ _, ⟨rfl, rfl, rfl, rfl, rfl, rfl, sameNames_refl _⟩, ?_⟩
    exact hm.imp fun _ _ r => r.keep (step_alloc chkT _ _)
  · rename_i hb
    have heq := bne_false_eq hb
    obtain ⟨o', hr', hd, hk, _⟩ := hstep a _ (readField_read hf)
    cases o' with
    | field f' =>
      refine ⟨f', readField_of_read hr', hd, ?_⟩
      exact hm.sublist_right (by rw [heq]; simpa [kids] using hk)
    | type _ => simp [SameHead] at hd
    | arg _ => simp [SameHead] at hd
    | dir _ => simp [SameHead] at hd

theorem onField_mem (v : Visitor) (hv : NoWrap v) (reg : List (String × Addr)) (tn : String) (ρ : String → String) (h0 h : Heap) (x a : Addr)
    (r : FRel ρ h0 h x a) : ∀ a', (onField v reg tn h a).2 = some a' → FRel (renAfter v ρ) h0 (onField v reg tn h a).1 x a' := by
  obtain ⟨f0, f, h1, h2, k, hargs⟩ := r
  intro a' e
  simp only [onField, h2] at e ⊢
  cases v with
  | camel ren =>
    simp only [Option.some.injEq] at e ⊢; subst e
    have hargs' : Sub2 (ARel ρ h0 (h.alloc (.field { f with name := ren f.name })).1) f0.args f.args :=
      hargs.imp fun _ _ r => r.keep (step_alloc chkT _ _)
    obtain ⟨f2, hr2, hs2, ha2⟩ := onFieldBase_mem (.camel ren) hv reg ρ h0 _ _ { f with name := ren f.name } (readField_alloc_new _ _) f0.args hargs'
    refine ⟨f0, f2, h1, hr2, FAttr.same ?_ hs2, ha2⟩
    obtain ⟨k1, k2, k3, k4, k5, k6, k7⟩ := k
    exact ⟨by simp [renAfter, renOf, k1], k2, k3, k4, k5, k6, k7⟩
  | vis p =>
    simp only [Option.some.injEq] at e ⊢; subst e
    obtain ⟨f2, hr2, hs2, ha2⟩ := onFieldBase_mem (.vis p) hv reg ρ h0 h a f h2 f0.args hargs
    exact ⟨f0, f2, h1, hr2, FAttr.same k hs2, ha2⟩
  | heal =>
    simp only at e ⊢
    obtain ⟨f2, hr2, hs2, ha2⟩ := onFieldBase_mem .heal hv reg ρ h0 h a f h2 f0.args hargs
    simp only [healFieldType, hr2] at e ⊢
    cases ht : healed reg f2.ty with
    | none => simp [ht] at e
    | some t =>
      simp only [ht, Option.some.injEq] at e ⊢; subst e
      have hw := write_field_ty chkT _ _ f2 t hr2 rfl (healed_sameNames reg f2.ty t ht)
      refine ⟨f0, { f2 with ty := t }, h1, readField_write_self _ _ _ (readField_lt hr2), ?_, ha2.imp fun _ _ r => r.keep hw⟩
      have := FAttr.same k hs2
      obtain ⟨k1, k2, k3, k4, k5, k6, k7⟩ := this
      exact ⟨k1, k2, k3, k4, k5, k6, sameNames_trans k7 (healed_sameNames reg f2.ty t ht)⟩
  | sdir d w => exact absurd hv (by simp [NoWrap])

end PyGql.Heap.Own

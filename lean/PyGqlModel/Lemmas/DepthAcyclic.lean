/-
  C19 — the decidable acyclicity check is preserved when a fresh fragment (a name that is neither
  defined nor spread anywhere) with a body that does not mention it is appended.
-/
import PyGqlModel.Lemmas.DepthCollect

set_option linter.unusedVariables false
set_option linter.unusedSimpArgs false

namespace PyGql.Depth.Lemmas
open PyGql.Depth

mutual
/-- the fragment name `nm` is not spread anywhere in the selection -/
def freeSel (nm : String) : Sel → Bool
  | .field _ _ _ sub => freeL nm sub
  | .inline _ ss => freeL nm ss
  | .spread n _ => n != nm
def freeL (nm : String) : List Sel → Bool
  | [] => true
  | s :: ss => freeSel nm s && freeL nm ss
end

mutual
theorem pot_congr (nm : String) (w1 w2 : String → Nat) (h : ∀ n, n ≠ nm → w1 n = w2 n) :
    ∀ s : Sel, freeSel nm s = true → pot w1 s = pot w2 s
  | .field a n d sub, hs => by
    simp only [freeSel] at hs
    rw [pot_field, pot_field, potL_congr nm w1 w2 h sub hs]
  | .inline d ss, hs => by
    simp only [freeSel] at hs
    rw [pot_inline, pot_inline, potL_congr nm w1 w2 h ss hs]
  | .spread n d, hs => by
    simp only [freeSel, bne_iff_ne, ne_eq] at hs
    rw [pot_spread, pot_spread, h n hs]
theorem potL_congr (nm : String) (w1 w2 : String → Nat) (h : ∀ n, n ≠ nm → w1 n = w2 n) :
    ∀ l : List Sel, freeL nm l = true → potL w1 l = potL w2 l
  | [], _ => by rw [potL_nil, potL_nil]
  | s :: ss, hs => by
    simp only [freeL, Bool.and_eq_true] at hs
    rw [potL_cons, potL_cons, pot_congr nm w1 w2 h s hs.1, potL_congr nm w1 w2 h ss hs.2]
end

mutual
theorem pot_mono (w1 w2 : String → Nat) (h : ∀ n, w1 n ≤ w2 n) : ∀ s : Sel, pot w1 s ≤ pot w2 s
  | .field a n d sub => by rw [pot_field, pot_field]; have := potL_mono w1 w2 h sub; omega
  | .inline d ss => by rw [pot_inline, pot_inline]; have := potL_mono w1 w2 h ss; omega
  | .spread n d => by rw [pot_spread, pot_spread]; have := h n; omega
theorem potL_mono (w1 w2 : String → Nat) (h : ∀ n, w1 n ≤ w2 n) : ∀ l : List Sel, potL w1 l ≤ potL w2 l
  | [] => by rw [potL_nil, potL_nil]; omega
  | s :: ss => by
    rw [potL_cons, potL_cons]
    have := pot_mono w1 w2 h s
    have := potL_mono w1 w2 h ss
    omega
end

/-- weight of `n` after one round: the potential of the FIRST fragment named `n` (0 if none) -/
def firstW (w : String → Nat) (n : String) : List Frag → Nat
  | [] => 0
  | f :: fs => if n == f.name then potL w f.sels else firstW w n fs

theorem wOf_weightStep (frags : List Frag) (tbl : List (String × Nat)) (n : String) :
    wOf (weightStep frags tbl) n = firstW (wOf tbl) n frags := by
  induction frags with
  | nil => simp [weightStep, wOf, firstW, List.lookup]
  | cons f fs ih =>
    simp only [weightStep, wOf, List.map_cons, List.lookup, firstW] at ih ⊢
    cases h : n == f.name <;> simp [h, ih]

theorem firstW_mono (w1 w2 : String → Nat) (h : ∀ n, w1 n ≤ w2 n) (n : String) :
    ∀ frags : List Frag, firstW w1 n frags ≤ firstW w2 n frags := by
  intro frags
  induction frags with
  | nil => simp [firstW]
  | cons f fs ih =>
    simp only [firstW]
    split
    · exact potL_mono w1 w2 h f.sels
    · exact ih

theorem firstW_le (w : String → Nat) (n : String) :
    ∀ frags : List Frag, Consistent frags w → firstW w n frags ≤ w n := by
  intro frags
  induction frags with
  | nil => intro _; simp [firstW]
  | cons f fs ih =>
    intro hc
    simp only [firstW]
    split
    · rename_i hn
      have hn' : n = f.name := by simpa using hn
      rw [hn']
      exact hc f (by simp)
    · exact ih (fun g hg => hc g (by simp [hg]))

theorem firstW_congr (nm : String) (w1 w2 : String → Nat) (h : ∀ n, n ≠ nm → w1 n = w2 n) (n : String) :
    ∀ frags : List Frag, (∀ f ∈ frags, freeL nm f.sels = true) → firstW w1 n frags = firstW w2 n frags := by
  intro frags
  induction frags with
  | nil => intro _; rfl
  | cons f fs ih =>
    intro hf
    simp only [firstW]
    rw [potL_congr nm w1 w2 h f.sels (hf f (by simp)), ih (fun g hg => hf g (by simp [hg]))]

theorem firstW_append_other (w : String → Nat) (nm : String) (body : List Sel) (n : String) (hn : n ≠ nm) :
    ∀ frags : List Frag, firstW w n (frags ++ [⟨nm, body⟩]) = firstW w n frags := by
  intro frags
  induction frags with
  | nil => simp [firstW, hn]
  | cons f fs ih => simp only [List.cons_append, firstW, ih]

theorem firstW_append_new (w : String → Nat) (nm : String) (body : List Sel) :
    ∀ frags : List Frag, (∀ f ∈ frags, f.name ≠ nm) → firstW w nm (frags ++ [⟨nm, body⟩]) = potL w body := by
  intro frags
  induction frags with
  | nil => intro _; simp [firstW]
  | cons f fs ih =>
    intro hf
    have h1 : (nm == f.name) = false := by
      have := hf f (by simp)
      simp; exact fun h => this h.symm
    simp only [List.cons_append, firstW, h1, Bool.false_eq_true, if_false]
    exact ih (fun g hg => hf g (by simp [hg]))

theorem iter_succ' {α : Type} (f : α → α) : ∀ (k : Nat) (a : α), iter f (k + 1) a = f (iter f k a) := by
  intro k
  induction k with
  | zero => intro a; rfl
  | succ k ih => intro a; exact ih (f a)

/-- weights after `k` rounds -/
def W (frags : List Frag) (k : Nat) : String → Nat := wOf (iter (weightStep frags) k [])

theorem W_succ (frags : List Frag) (k : Nat) (n : String) : W frags (k + 1) n = firstW (W frags k) n frags := by
  unfold W
  rw [iter_succ', wOf_weightStep]

theorem W_inc (frags : List Frag) : ∀ (k : Nat) (n : String), W frags k n ≤ W frags (k + 1) n := by
  intro k
  induction k with
  | zero => intro n; simp [W, iter, wOf, List.lookup]
  | succ k ih =>
    intro n
    rw [W_succ, W_succ frags (k + 1)]
    exact firstW_mono _ _ ih n frags

theorem acyclic_iff (frags : List Frag) :
    acyclic frags = true ↔ Consistent frags (W frags (frags.length + 1)) := by
  simp only [acyclic, weights, List.all_eq_true, Consistent, W]
  constructor
  · intro h f hf; exact of_decide_eq_true (h f hf)
  · intro h f hf; exact decide_eq_true (h f hf)

/-- once the check passes, one more round changes nothing -/
theorem W_fix (frags : List Frag) (k : Nat) (hc : Consistent frags (W frags k)) (n : String) :
    W frags (k + 1) n = W frags k n := by
  have h1 := W_inc frags k n
  have h2 : W frags (k + 1) n ≤ W frags k n := by rw [W_succ]; exact firstW_le _ n frags hc
  omega

theorem acyclic_extend (frags : List Frag) (nm : String) (body : List Sel) (ha : acyclic frags = true)
    (hfree : ∀ f ∈ frags, freeL nm f.sels = true) (hfresh : ∀ f ∈ frags, f.name ≠ nm)
    (hbody : freeL nm body = true) : acyclic (frags ++ [⟨nm, body⟩]) = true := by
  have hc := (acyclic_iff frags).mp ha
  rw [acyclic_iff]
  -- agreement of the two iterations off `nm`
  have agree : ∀ (k : Nat) (n : String), n ≠ nm → W (frags ++ [⟨nm, body⟩]) k n = W frags k n := by
    intro k
    induction k with
    | zero => intro n _; rfl
    | succ k ih =>
      intro n hn
      rw [W_succ, W_succ, firstW_append_other _ nm body n hn frags]
      exact firstW_congr nm _ _ ih n frags hfree
  have hfix := W_fix frags (frags.length + 1) hc
  have hlen : (frags ++ [(⟨nm, body⟩ : Frag)]).length + 1 = frags.length + 1 + 1 := by simp
  rw [hlen]
  have hfixfun : W frags (frags.length + 1 + 1) = W frags (frags.length + 1) := funext hfix
  intro f hf
  simp only [List.mem_append, List.mem_singleton] at hf
  rcases hf with hf | hf
  · have hne := hfresh f hf
    rw [potL_congr nm _ _ (agree (frags.length + 1 + 1)) f.sels (hfree f hf), agree _ f.name hne, hfixfun]
    exact hc f hf
  · subst hf
    show potL (W (frags ++ [⟨nm, body⟩]) (frags.length + 1 + 1)) body ≤ W (frags ++ [⟨nm, body⟩]) (frags.length + 1 + 1) nm
    rw [W_succ _ (frags.length + 1) nm, firstW_append_new _ nm body frags hfresh,
      potL_congr nm _ _ (agree (frags.length + 1 + 1)) body hbody,
      potL_congr nm _ _ (agree (frags.length + 1)) body hbody, hfixfun]
    omega

end PyGql.Depth.Lemmas

/-
  C19 — the decidable acyclicity check is preserved when a fresh fragment (a name that is neither
  defined nor spread anywhere) with a body that does not mention it is appended.
-/
import PyGqlModel.Lemmas.DepthCollect

set_option linter.unusedVariables false
set_option linter.unusedSimpArgs false

namespace PyGql.Depth.Lemmas
open PyGql.Depth

mutual
/-- the fragment name `nm` is not spread anywhere in the selection -/
def freeSel (nm : String) : Sel → Bool
  | .field _ _ _ sub => freeL nm sub
  | .inline _ ss => freeL nm ss
  | .spread n _ => n != nm
def freeL (nm : String) : List Sel → Bool
  | [] => true
  | s :: ss => freeSel nm s && freeL nm ss
end

mutual
theorem pot_congr (nm : String) (w1 w2 : String → Nat) (h : ∀ n, n ≠ nm → w1 n = w2 n) :
    ∀ s : Sel, freeSel nm s = true → pot w1 s = pot w2 s
  | .field a n d sub, hs => by
    simp only [freeSel] at hs
    rw [pot_field, pot_field, potL_congr nm w1 w2 h sub hs]
  | .inline d ss, hs => by
    simp only [freeSel] at hs
    rw [pot_inline, pot_inline, potL_congr nm w1 w2 h ss hs]
  | .spread n d, hs => by
    simp only [freeSel, bne_iff_ne, ne_eq] at hs
    rw [pot_spread, pot_spread, h n hs]
theorem potL_congr (nm : String) (w1 w2 : String → Nat) (h : ∀ n, n ≠ nm → w1 n = w2 n) :
    ∀ l : List Sel, freeL nm l = true → potL w1 l = potL w2 l
  | [], _ => by rw [potL_nil, potL_nil]
  | s :: ss, hs => by
    simp only [freeL, Bool.and_eq_true] at hs
    rw [potL_cons, potL_cons, pot_congr nm w1 w2 h s hs.1, potL_congr nm w1 w2 h ss hs.2]
end

mutual
theorem pot_mono (w1 w2 : String → Nat) (h : ∀ n, w1 n ≤ w2 n) : ∀ s : Sel, pot w1 s ≤ pot w2 s
  | .field a n d sub => by rw [pot_field, pot_field]; have := potL_mono w1 w2 h sub; omega
  | .inline d ss => by rw [pot_inline, pot_inline]; have := potL_mono w1 w2 h ss; omega
  | .spread n d => by rw [pot_spread, pot_spread]; have := h n; omega
theorem potL_mono (w1 w2 : String → Nat) (h : ∀ n, w1 n ≤ w2 n) : ∀ l : List Sel, potL w1 l ≤ potL w2 l
  | [] => by rw [potL_nil, potL_nil]; omega
  | s :: ss => by
    rw [potL_cons, potL_cons]
    have := pot_mono w1 w2 h s
    have := potL_mono w1 w2 h ss
    omega
end

/-- weight of `n` after one round: the potential of the FIRST fragment named `n` (0 if none) -/
def firstW (w : String → Nat) (n : String) : List Frag → Nat
  | [] => 0
  | f :: fs => if n == f.name then potL w f.sels else firstW w n fs

theorem wOf_weightStep (frags : List Frag) (tbl : List (String × Nat)) (n : String) :
    wOf (weightStep frags tbl) n = firstW (wOf tbl) n frags := by
  induction frags with
  | nil => simp [weightStep, wOf, firstW, List.lookup]
  | cons f fs ih =>
    simp only [weightStep, wOf, List.map_cons, List.lookup, firstW] at ih ⊢
    cases h : n == f.name <;> simp [h, ih]

theorem firstW_mono (w1 w2 : String → Nat) (h : ∀ n, w1 n ≤ w2 n) (n : String) :
    ∀ frags : List Frag, firstW w1 n frags ≤ firstW w2 n frags := by
  intro frags
  induction frags with
  | nil => simp [firstW]
  | cons f fs ih =>
    simp only [firstW]
    split
    · exact potL_mono w1 w2 h f.sels
    · exact ih

theorem firstW_le (w : String → Nat) (n : String) :
    ∀ frags : List Frag, Consistent frags w → firstW w n frags ≤ w n := by
  intro frags
  induction frags with
  | nil => intro _; simp [firstW]
  | cons f fs ih =>
    intro hc
    simp only [firstW]
    split
    · rename_i hn
      have hn' : n = f.name := by simpa using hn
      rw [hn']
      exact hc f (by simp)
    · exact ih (fun g hg => hc g (by simp [hg]))

theorem firstW_congr (nm : String) (w1 w2 : String → Nat) (h : ∀ n, n ≠ nm → w1 n = w2 n) (n : String) :
    ∀ frags : List Frag, (∀ f ∈ frags, freeL nm f.sels = true) → firstW w1 n frags = firstW w2 n frags := by
  intro frags
  induction frags with
  | nil => intro _; rfl
  | cons f fs ih =>
    intro hf
    simp only [firstW]
    rw [potL_congr nm w1 w2 h f.sels (hf f (by simp)), ih (fun g hg => hf g (by simp [hg]))]

theorem firstW_append_other (w : String → Nat) (nm : String) (body : List Sel) (n : String) (hn : n ≠ nm) :
    ∀ frags : List Frag, firstW w n (frags ++ [⟨nm, body⟩]) = firstW w n frags := by
  intro frags
  induction frags with
  | nil => simp [firstW, hn]
  | cons f fs ih => simp only [List.cons_append, firstW, ih]

theorem firstW_append_new (w : String → Nat) (nm : String) (body : List Sel) :
    ∀ frags : List Frag, (∀ f ∈ frags, f.name ≠ nm) → firstW w nm (frags ++ [⟨nm, body⟩]) = potL w body := by
  intro frags
  induction frags with
  | nil => intro _; simp [firstW]
  | cons f fs ih =>
    intro hf
    have h1 : (nm == f.name) = false := by
      have := hf f (by simp)
      simp; exact fun h => this h.symm
    simp only [List.cons_append, firstW, h1, Bool.false_eq_true, if_false]
    exact ih (fun g hg => hf g (by simp [hg]))

theorem iter_succ' {α : Type} (f : α → α) : ∀ (k : Nat) (a : α), iter f (k + 1) a = f (iter f k a) := by
  intro k
  induction k with
  | zero => intro a; rfl
  | succ k ih => intro a; exact ih (f a)

/-- weights after `k` rounds -/
def W (frags : List Frag) (k : Nat) : String → Nat := wOf (iter (weightStep frags) k [])

theorem W_succ (frags : List Frag) (k : Nat) (n : String) : W frags (k + 1) n = firstW (W frags k) n frags := by
  unfold W
  rw [iter_succ', wOf_weightStep]

theorem W_inc (frags : List Frag) : ∀ (k : Nat) (n : String), W frags k n ≤ W frags (k + 1) n := by
  intro k
  induction k with
  | zero => intro n; simp [W, iter, wOf, List.lookup]
  | succ k ih =>
    intro n
    rw [W_succ, W_succ frags (k + 1)]
    exact firstW_mono _ _ ih n frags

theorem acyclic_iff (frags : List Frag) :
    acyclic frags = true ↔ Consistent frags (W frags (frags.length + 1)) := by
  simp only [acyclic, weights, List.all_eq_true, Consistent, W]
  constructor
  · intro h f hf; exact of_decide_eq_true (h f hf)
  · intro h f hf; exact decide_eq_true (h f hf)

/-- once the check passes, one more round changes nothing -/
theorem W_fix (frags : List Frag) (k : Nat) (hc : Consistent frags (W frags k)) (n : String) :
    W frags (k + 1) n = W frags k n := by
  have h1 := W_inc frags k n
  have h2 : W frags (k + 1) n ≤ W frags k n := by rw [W_succ]; exact firstW_le _ n frags hc
  omega

theorem acyclic_extend (frags : List Frag) (nm : String) (body : List Sel) (ha : acyclic frags = true)
    (hfree : ∀ f ∈ frags, freeL nm f.sels = true) (hfresh : ∀ f ∈ frags, f.name ≠ nm)
    (hbody : freeL nm body = true) : acyclic (frags ++ [⟨nm, body⟩]) = true := by
  have hc := (acyclic_iff frags).mp ha
  rw [acyclic_iff]
  -- agreement of the two iterations off `nm`
  have agree : ∀ (k : Nat) (n : String), n ≠ nm → W (frags ++ [⟨nm, body⟩]) k n = W frags k n := by
    intro k
    induction k with
    | zero => intro n _; rfl
    | succ k ih =>
      intro n hn
      rw [W_succ, W_succ, firstW_append_other _ nm body n hn frags]
      exact firstW_congr nm _ _ ih n frags hfree
  have hfix := W_fix frags (frags.length + 1) hc
  have hlen : (frags ++ [(⟨nm, body⟩ : Frag)]).length + 1 = frags.length + 1 + 1 := by simp
  rw [hlen]
  have hfixfun : W frags (frags.length + 1 + 1) = W frags (frags.length + 1) := funext hfix
  intro f hf
  simp only [List.mem_append, List.mem_singleton] at hf
  rcases hf with hf | hf
  · have hne := hfresh f hf
    rw [potL_congr nm _ _ (agree (frags.length + 1 + 1)) f.sels (hfree f hf), agree _ f.name hne, hfixfun]
    exact hc f hf
  · subst hf
    show potL (W (frags ++ [⟨nm, body⟩]) (frags.length + 1 + 1)) body ≤ W (frags ++ [⟨nm, body⟩]) (frags.length + 1 + 1) nm
    rw [W_succ _ (frags.length + 1) nm, firstW_append_new _ nm body frags hfresh,
      potL_congr nm _ _ (agree (frags.length + 1 + 1)) body hbody,
      potL_congr nm _ _ (agree (frags.length + 1)) body hbody, hfixfun]
    omega

/-! ### the check is COMPLETE: every declaratively acyclic fragment set passes it -/

mutual
/-- names of the fragments spread anywhere inside a selection -/
def spreadsSel : Sel → List String
  | .field _ _ _ sub => spreadsL sub
  | .inline _ ss => spreadsL ss
  | .spread n _ => [n]
def spreadsL : List Sel → List String
  | [] => []
  | s :: ss => spreadsSel s ++ spreadsL ss
end

/-- declarative acyclicity (what NoFragmentCycles guarantees): some rank strictly decreases along every
    spread of a DEFINED fragment inside a fragment body -/
def Acyclic (frags : List Frag) : Prop :=
  ∃ r : String → Nat, ∀ f ∈ frags, ∀ g ∈ spreadsL f.sels, (∃ f' ∈ frags, f'.name = g) → r g < r f.name

/-- UniqueFragmentNames -/
def UniqueNames (frags : List Frag) : Prop := (frags.map (·.name)).Nodup

mutual
theorem pot_congr_on (w1 w2 : String → Nat) : ∀ s : Sel, (∀ g ∈ spreadsSel s, w1 g = w2 g) → pot w1 s = pot w2 s
  | .field a n d sub, h => by
    simp only [spreadsSel] at h
    rw [pot_field, pot_field, potL_congr_on w1 w2 sub h]
  | .inline d ss, h => by
    simp only [spreadsSel] at h
    rw [pot_inline, pot_inline, potL_congr_on w1 w2 ss h]
  | .spread n d, h => by
    rw [pot_spread, pot_spread, h n (by simp [spreadsSel])]
theorem potL_congr_on (w1 w2 : String → Nat) : ∀ l : List Sel, (∀ g ∈ spreadsL l, w1 g = w2 g) → potL w1 l = potL w2 l
  | [], _ => by rw [potL_nil, potL_nil]
  | s :: ss, h => by
    simp only [spreadsL, List.mem_append] at h
    rw [potL_cons, potL_cons, pot_congr_on w1 w2 s (fun g hg => h g (Or.inl hg)),
      potL_congr_on w1 w2 ss (fun g hg => h g (Or.inr hg))]
end

mutual
theorem spread_lt_pot (w : String → Nat) : ∀ s : Sel, ∀ g ∈ spreadsSel s, w g + 1 ≤ pot w s
  | .field a n d sub, g, hg => by
    simp only [spreadsSel] at hg
    rw [pot_field]; have := spread_lt_potL w sub g hg; omega
  | .inline d ss, g, hg => by
    simp only [spreadsSel] at hg
    rw [pot_inline]; have := spread_lt_potL w ss g hg; omega
  | .spread n d, g, hg => by
    simp only [spreadsSel, List.mem_singleton] at hg
    subst hg
    rw [pot_spread]; omega
theorem spread_lt_potL (w : String → Nat) : ∀ l : List Sel, ∀ g ∈ spreadsL l, w g + 1 ≤ potL w l
  | [], g, hg => by simp [spreadsL] at hg
  | s :: ss, g, hg => by
    simp only [spreadsL, List.mem_append] at hg
    rw [potL_cons]
    rcases hg with hg | hg
    · have := spread_lt_pot w s g hg; omega
    · have := spread_lt_potL w ss g hg; omega
end

/-- soundness of the check: the computed weights are a rank -/
theorem acyclic_sound (frags : List Frag) (h : acyclic frags = true) : Acyclic frags := by
  have hc := (acyclic_iff frags).mp h
  refine ⟨W frags (frags.length + 1), ?_⟩
  intro f hf g hg _
  have h1 := spread_lt_potL (W frags (frags.length + 1)) f.sels g hg
  have h2 := hc f hf
  omega

theorem firstW_unique (w : String → Nat) :
    ∀ frags : List Frag, UniqueNames frags → ∀ f ∈ frags, firstW w f.name frags = potL w f.sels := by
  intro frags
  induction frags with
  | nil => intro _ f hf; cases hf
  | cons f0 fs ih =>
    intro hu f hf
    simp only [UniqueNames, List.map_cons, List.nodup_cons] at hu
    simp only [firstW]
    cases hf with
    | head => simp
    | tail _ hf =>
      have hne : (f.name == f0.name) = false := by
        simp
        intro heq
        exact hu.1 (by rw [← heq]; exact List.mem_map_of_mem (f := (·.name)) hf)
      simp only [hne, Bool.false_eq_true, if_false]
      exact ih hu.2 f hf

theorem firstW_undefined (w : String → Nat) (g : String) :
    ∀ frags : List Frag, (∀ f ∈ frags, f.name ≠ g) → firstW w g frags = 0 := by
  intro frags
  induction frags with
  | nil => intro _; rfl
  | cons f0 fs ih =>
    intro h
    have hne : (g == f0.name) = false := by
      simp; exact fun heq => h f0 (by simp) heq.symm
    simp only [firstW, hne, Bool.false_eq_true, if_false]
    exact ih (fun f hf => h f (by simp [hf]))

theorem W_undefined (frags : List Frag) (g : String) (h : ∀ f ∈ frags, f.name ≠ g) : ∀ k, W frags k g = 0 := by
  intro k
  cases k with
  | zero => simp [W, iter, wOf, List.lookup]
  | succ k => rw [W_succ]; exact firstW_undefined _ g frags h

/-- a fragment of rank < m is stable from round m on -/
theorem W_stable (frags : List Frag) (hu : UniqueNames frags) (r : String → Nat)
    (hr : ∀ f ∈ frags, ∀ g ∈ spreadsL f.sels, (∃ f' ∈ frags, f'.name = g) → r g < r f.name) :
    ∀ (m : Nat) (f : Frag), f ∈ frags → r f.name < m → ∀ k, m ≤ k → W frags (k + 1) f.name = W frags k f.name := by
  intro m
  induction m with
  | zero => intro f _ h; omega
  | succ m ih =>
    intro f hf hrf k hk
    obtain ⟨k', rfl⟩ : ∃ k', k = k' + 1 := ⟨k - 1, by omega⟩
    rw [W_succ, W_succ frags k', firstW_unique _ frags hu f hf, firstW_unique _ frags hu f hf]
    apply potL_congr_on
    intro g hg
    by_cases hdef : ∃ f' ∈ frags, f'.name = g
    · obtain ⟨f', hf', hn⟩ := hdef
      have := hr f hf g hg ⟨f', hf', hn⟩
      have := ih f' hf' (by rw [hn]; omega) k' (by omega)
      rw [hn] at this
      exact this
    · have hund : ∀ f' ∈ frags, f'.name ≠ g := fun f' hf' heq => hdef ⟨f', hf', heq⟩
      rw [W_undefined frags g hund, W_undefined frags g hund]

theorem filter_length_le {α : Type} (p q : α → Bool) :
    ∀ l : List α, (∀ x ∈ l, p x = true → q x = true) → (l.filter p).length ≤ (l.filter q).length := by
  intro l
  induction l with
  | nil => intro _; simp
  | cons x xs ih =>
    intro h
    have := ih (fun y hy => h y (by simp [hy]))
    have hx := h x (by simp)
    simp only [List.filter_cons]
    cases hp : p x <;> cases hq : q x <;> simp_all <;> omega

theorem filter_length_lt {α : Type} (p q : α → Bool) :
    ∀ l : List α, (∀ x ∈ l, p x = true → q x = true) → (∃ x ∈ l, q x = true ∧ p x = false) →
      (l.filter p).length < (l.filter q).length := by
  intro l
  induction l with
  | nil => intro _ ⟨x, hx, _⟩; cases hx
  | cons x xs ih =>
    intro h ⟨y, hy, hqy, hpy⟩
    have hle := filter_length_le p q xs (fun z hz => h z (by simp [hz]))
    have hx := h x (by simp)
    simp only [List.filter_cons]
    simp only [List.mem_cons] at hy
    rcases hy with rfl | hy
    · simp [hqy, hpy]; omega
    · have := ih (fun z hz => h z (by simp [hz])) ⟨y, hy, hqy, hpy⟩
      cases hp : p x <;> cases hq : q x <;> simp_all <;> omega

/-- **completeness of the check**: unique names + a decreasing rank ⇒ `acyclic frags = true` -/
theorem acyclic_complete (frags : List Frag) (hu : UniqueNames frags) (ha : Acyclic frags) : acyclic frags = true := by
  obtain ⟨r0, hr0⟩ := ha
  -- normalise the rank: number of fragments of strictly smaller rank (< number of fragments)
  let r : String → Nat := fun n => (frags.filter (fun h => decide (r0 h.name < r0 n))).length
  have hbound : ∀ f ∈ frags, r f.name < frags.length := by
    intro f hf
    have := filter_length_lt (fun h => decide (r0 h.name < r0 f.name)) (fun _ => true) frags (fun _ _ _ => rfl)
      ⟨f, hf, rfl, by simp⟩
    have hall : (frags.filter (fun _ => true)).length = frags.length := by
      rw [List.filter_eq_self.mpr (fun _ _ => rfl)]
    rw [hall] at this
    exact this
  have hr : ∀ f ∈ frags, ∀ g ∈ spreadsL f.sels, (∃ f' ∈ frags, f'.name = g) → r g < r f.name := by
    intro f hf g hg hdef
    have hlt := hr0 f hf g hg hdef
    obtain ⟨f', hf', hn⟩ := hdef
    apply filter_length_lt
    · intro x _ hx
      simp only [decide_eq_true_eq] at hx ⊢
      omega
    · exact ⟨f', hf', by simp [hn, hlt], by simp [hn]⟩
  rw [acyclic_iff]
  intro f hf
  have hst := W_stable frags hu r hr frags.length
  rw [W_succ frags frags.length f.name, firstW_unique _ frags hu f hf]
  apply Nat.le_of_eq
  apply potL_congr_on
  intro g hg
  by_cases hdef : ∃ f' ∈ frags, f'.name = g
  · obtain ⟨f', hf', hn⟩ := hdef
    have := hst f' hf' (hbound f' hf') frags.length (Nat.le_refl _)
    rw [hn] at this
    exact this
  · have hund : ∀ f' ∈ frags, f'.name ≠ g := fun f' hf' heq => hdef ⟨f', hf', heq⟩
    rw [W_undefined frags g hund, W_undefined frags g hund]

/-- under unique names the decidable check IS declarative acyclicity -/
theorem acyclic_iff_Acyclic (frags : List Frag) (hu : UniqueNames frags) : acyclic frags = true ↔ Acyclic frags :=
  ⟨acyclic_sound frags, acyclic_complete frags hu⟩

end PyGql.Depth.Lemmas

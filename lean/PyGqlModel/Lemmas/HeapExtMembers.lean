/-
  C14 — `_extend_field` / `_extend_argument`: which attributes the rebuilt member objects keep.
-/
import PyGqlModel.Lemmas.HeapExtAttrs

set_option linter.unusedSimpArgs false
set_option linter.unusedVariables false

namespace PyGql.Heap.Own
open PyGql.Heap

/-- attributes of an argument / input field kept by `_extend_argument` (python name: if the constructor passes it) -/
def ArgKept (keepPy : Bool) (N : List (String × Addr)) (g g' : ArgO) : Prop :=
  g'.name = g.name ∧ g'.dflt = g.dflt ∧ g'.desc = g.desc ∧ g'.ty = repoint N g.ty ∧ g'.py = (if keepPy then g.py else g.name)

/-- attributes of a field kept by `_extend_field` -/
def FieldKept (cfg : Cfg) (N : List (String × Addr)) (f f' : FieldO) : Prop :=
  f'.name = f.name ∧ f'.desc = f.desc ∧ f'.depr = f.depr ∧ f'.res = f.res ∧ f'.ty = repoint N f.ty ∧
  f'.sub = (if cfg.extFieldSub then f.sub else none) ∧ f'.py = (if cfg.extFieldPy then f.py else f.name)

theorem readArg_frameX {h h' : Heap} (f : FrameX (fun _ => False) h h') {a : Addr} {g : ArgO} (hr : h.readArg a = some g) :
    h'.readArg a = some g := by
  simp only [Heap.readArg, f.2 a (read_lt h a _ (readArg_read hr)) (fun x => x), readArg_read hr]

theorem readField_frameX {h h' : Heap} (f : FrameX (fun _ => False) h h') {a : Addr} {g : FieldO} (hr : h.readField a = some g) :
    h'.readField a = some g := by
  simp only [Heap.readField, f.2 a (read_lt h a _ (readField_read hr)) (fun x => x), readField_read hr]

/-- every argument rebuilt by `_extend_argument` is a copy of a source argument keeping name, default, description,
    (re-pointed) type and — when passed — python name -/
theorem extendArgs_kept (k : Bool) (N : List (String × Addr)) : ∀ (as : List Addr) (h0 h : Heap), FrameX (fun _ => False) h0 h →
    (∀ a, a ∈ as → a < h0.size) →
    ∀ c, c ∈ (extendArgs k N h as).2 → ∃ a g g', a ∈ as ∧ h0.readArg a = some g ∧
      (extendArgs k N h as).1.readArg c = some g' ∧ ArgKept k N g g' := by
  intro as
  induction as with
  | nil => intro h0 h _ _ c hc; simp [extendArgs] at hc
  | cons a as ih =>
    intro h0 h fr hlt c hc
    have ha0 : h.read a = h0.read a := fr.2 a (hlt a (by simp)) (fun x => x)
    simp only [extendArgs] at hc ⊢
    split at hc
    · rename_i g hg
      simp only [hg]
      simp only [List.mem_cons] at hc
      have hlater := extendArgsX (fun _ => False) k N as (h.alloc (.arg { g with ty := repoint N g.ty, py := if k then g.py else g.name })).1
      rcases hc with rfl | hc
      · refine ⟨a, g, { g with ty := repoint N g.ty, py := if k then g.py else g.name }, by simp, ?_,
          readArg_frameX hlater (by simp [Heap.readArg, alloc_addr, read_alloc_new]), ⟨rfl, rfl, rfl, rfl, rfl⟩⟩
        simpa [Heap.readArg, ha0] using hg
      · obtain ⟨a1, g1, g1', h1, h2, h3, h4⟩ := ih h0 _ (fr.trans (allocX _ h _)) (fun x hx => hlt x (by simp [hx])) c hc
        exact ⟨a1, g1, g1', by simp [h1], h2, h3, h4⟩
    · obtain ⟨a1, g1, g1', h1, h2, h3, h4⟩ := ih h0 h fr (fun x hx => hlt x (by simp [hx])) c hc
      exact ⟨a1, g1, g1', by simp [h1], h2, h3, h4⟩

/-- every field rebuilt by `_extend_field` is a copy of a source field keeping name, description, deprecation reason,
    resolver, (re-pointed) type and — when passed — subscription resolver and python name; its arguments are rebuilt
    copies of the source field's arguments (`extendArgs_kept`) -/
theorem extendFields_kept (cfg : Cfg) (N : List (String × Addr)) : ∀ (as : List Addr) (h0 h : Heap), FrameX (fun _ => False) h0 h →
    (∀ a, a ∈ as → a < h0.size) → (∀ a f, a ∈ as → h0.readField a = some f → ∀ x, x ∈ f.args → x < h0.size) →
    ∀ c, c ∈ (extendFields cfg N h as).2 → ∃ a f f', a ∈ as ∧ h0.readField a = some f ∧
      (extendFields cfg N h as).1.readField c = some f' ∧ FieldKept cfg N f f' ∧
      ∀ x, x ∈ f'.args → ∃ y g g', y ∈ f.args ∧ h0.readArg y = some g ∧
        (extendFields cfg N h as).1.readArg x = some g' ∧ ArgKept cfg.extArgPy N g g' := by
  intro as
  induction as with
  | nil => intro h0 h _ _ _ c hc; simp [extendFields] at hc
  | cons a as ih =>
    intro h0 h fr hlt hargs c hc
    have ha0 : h.read a = h0.read a := fr.2 a (hlt a (by simp)) (fun x => x)
    simp only [extendFields] at hc ⊢
    split at hc
    · rename_i f hf
      simp only [hf]
      have hf0 : h0.readField a = some f := by simpa [Heap.readField, ha0] using hf
      simp only [List.mem_cons] at hc
      have fa := extendArgsX (fun _ => False) cfg.extArgPy N f.args h
      have hlater := extendFieldsX (fun _ => False) cfg N as ((extendArgs cfg.extArgPy N h f.args).1.alloc (.field { f with ty := repoint N f.ty, args := (extendArgs cfg.extArgPy N h f.args).2, sub := if cfg.extFieldSub then f.sub else none, py := if cfg.extFieldPy then f.py else f.name })).1
      rcases hc with rfl | hc
      · refine ⟨a, f, { f with ty := repoint N f.ty, args := (extendArgs cfg.extArgPy N h f.args).2, sub := if cfg.extFieldSub then f.sub else none, py := if cfg.extFieldPy then f.py else f.name }, by simp, hf0,
          readField_frameX hlater (by simp [Heap.readField, alloc_addr, read_alloc_new]), ⟨rfl, rfl, rfl, rfl, rfl, rfl, rfl⟩, ?_⟩
        intro x hx
        obtain ⟨y, g, g', h1, h2, h3, h4⟩ := extendArgs_kept cfg.extArgPy N f.args h0 h fr (hargs a f (by simp) hf0) x hx
        exact ⟨y, g, g', h1, h2, readArg_frameX ((allocX _ _ _).trans hlater) h3, h4⟩
      · exact (ih h0 _ ((fr.trans fa).trans (allocX _ _ _)) (fun x hx => hlt x (by simp [hx]))
          (fun x f' hx => hargs x f' (by simp [hx])) c hc).imp fun a1 ⟨f1, f1', h1, r⟩ => ⟨f1, f1', by simp [h1], r⟩
    · exact (ih h0 h fr (fun x hx => hlt x (by simp [hx])) (fun x f' hx => hargs x f' (by simp [hx])) c hc).imp
        fun a1 ⟨f1, f1', h1, r⟩ => ⟨f1, f1', by simp [h1], r⟩


/-! ### the rest of `extend_schema` leaves the member objects alone -/

/-- everything `extend_schema` does after some point: the remaining types, the new types, the directives -/
def extendRest (cfg : Cfg) (ext : Ext) (N Nin P : List (String × Addr)) (hr : Heap) (s : Schema) (l : List (String × Addr)) (h : Heap) : Heap :=
  (buildNewDirs cfg N (extendDirs cfg N (buildNewTypes N P (extendAll cfg ext N Nin P hr h l) ext.newTypes) s.dirs).1 ext.newDirs).1

/-- all writes of the rest go to placeholder addresses: every object allocated after the placeholders (in particular every
    rebuilt field / argument / input field) is left alone -/
theorem extendRest_frame (cfg : Cfg) (ext : Ext) (N Nin P : List (String × Addr)) (hr : Heap) (s : Schema) (psize : Nat)
    (hP : ∀ n x, lookup P n = some x → x < psize)
    (hinj : ∀ n n' x, lookup P n = some x → lookup P n' = some x → n = n') (l : List (String × Addr)) (hnd : (l.map (·.1)).Nodup)
    (h : Heap) (hsz : psize ≤ h.size) :
    FrameX (fun x => x < psize) h (extendRest cfg ext N Nin P hr s l h) := by
  have f1 := (extendAll_spec cfg ext N Nin P hr hinj l h (fun n x hx => Nat.lt_of_lt_of_le (hP n x hx) hsz) hnd).1
  have f2 := buildNewTypesX N P ext.newTypes (extendAll cfg ext N Nin P hr h l)
  have f3 := extendDirsX (fun x => x < psize) cfg N s.dirs (buildNewTypes N P (extendAll cfg ext N Nin P hr h l) ext.newTypes)
  have f4 := buildNewDirsX (fun x => x < psize) cfg N ext.newDirs (extendDirs cfg N (buildNewTypes N P (extendAll cfg ext N Nin P hr h l) ext.newTypes) s.dirs).1
  simp only [extendRest]
  exact (((f1.mono (fun x ⟨e, _, hx⟩ => hP e.1 x hx)).trans (f2.mono (fun x ⟨e, _, hx⟩ => hP e.1 x hx))).trans f3).trans f4

/-- reading a member allocated after the placeholders gives the same object at the end of `extend_schema` -/
theorem extendRest_read (cfg : Cfg) (ext : Ext) (N Nin P : List (String × Addr)) (hr : Heap) (s : Schema) (psize : Nat)
    (hP : ∀ n x, lookup P n = some x → x < psize)
    (hinj : ∀ n n' x, lookup P n = some x → lookup P n' = some x → n = n') (l : List (String × Addr)) (hnd : (l.map (·.1)).Nodup)
    (h : Heap) (hsz : psize ≤ h.size) (c : Addr) (hc1 : psize ≤ c) (hc2 : c < h.size) :
    (extendRest cfg ext N Nin P hr s l h).read c = h.read c :=
  (extendRest_frame cfg ext N Nin P hr s psize hP hinj l hnd h hsz).2 c hc2 (Nat.not_lt.mpr hc1)

/-- `extend` is: allocate the placeholders, then `extendRest` over all registered types -/
theorem extend_heap_eq (cfg : Cfg) (ext : Ext) (s : Schema) (h : Heap) :
    (extend cfg ext s h).1 =
      extendRest cfg ext ((s.types.filter fun e => isProtected e.1) ++ (allocPlaceholders h ((s.types.filter fun e => !isProtected e.1).map (·.1) ++ ext.newTypes.map (·.1))).2)
        (if cfg.extInputFieldExtended then (s.types.filter fun e => isProtected e.1) ++ (allocPlaceholders h ((s.types.filter fun e => !isProtected e.1).map (·.1) ++ ext.newTypes.map (·.1))).2
          else s.types ++ ((s.types.filter fun e => isProtected e.1) ++ (allocPlaceholders h ((s.types.filter fun e => !isProtected e.1).map (·.1) ++ ext.newTypes.map (·.1))).2))
        (allocPlaceholders h ((s.types.filter fun e => !isProtected e.1).map (·.1) ++ ext.newTypes.map (·.1))).2 h s s.types
        (allocPlaceholders h ((s.types.filter fun e => !isProtected e.1).map (·.1) ++ ext.newTypes.map (·.1))).1 := by
  simp only [extend, extendRest]

end PyGql.Heap.Own

/-
  The MEMOISED overlap search (`Validate/OverlapMemo.lean`) NEEDS ONLY A BOUNDED RECURSION DEPTH, on every document -
  fragment cycles through sub-selections included (hunt2 C05/1).
  Measure: `mu c` = number of (selection set, fragment, flag) triples and (fragment, fragment, flag) triples of the
  document NOT YET in the two memos of the context. Potential of a call = `mu c * W + local`, where `local` is the
  syntactic nesting left (ranks of sub-selections, as in `ValidateOverlapFuel.lean`, but WITHOUT any condition on
  fragment spreads) and `W = 2 R + 7` exceeds every `local`. A call that recurses through a fragment first puts a NEW
  triple into a memo (`mu` drops by one, `local` is reset below `W`); every other recursive call descends into
  sub-selections (`local` drops). Memos only grow, so later siblings start with a smaller or equal `mu`.
-/
import PyGqlModel.Validate.ChainMemo
import PyGqlModel.Validate.WfIds
import PyGqlModel.Lemmas.ValidateOverlapFuel
namespace PyGql.Validate
open PyGql PyGql.Validate.Spec

/-- syntactic ranks: a selection set outranks by 2 the sub-selections of its fields; no condition on spreads -/
structure RankSyn (s : SchemaD) (d : Doc) (ρ : Nat → Nat) (R : Nat) : Prop where
  two : ∀ i sels, SelSet d i sels → 2 ≤ ρ i
  le : ∀ i sels, SelSet d i sels → ρ i ≤ R
  sub : ∀ i sels p rn e, SelSet d i sels → CollD s p sels rn e → entryRank ρ e + 2 ≤ ρ i

/-! ### counting -/

theorem countP_mono' {α} (p q : α → Bool) (h : ∀ x, p x = true → q x = true) : ∀ l : List α, l.countP p ≤ l.countP q
  | [] => Nat.le_refl _
  | x :: xs => by
    have ih := countP_mono' p q h xs
    rw [List.countP_cons, List.countP_cons]
    cases hp : p x with
    | false => simp only [Bool.false_eq_true, ↓reduceIte]; omega
    | true => rw [h x hp]; simp only [↓reduceIte]; omega

theorem countP_drop {α} (p q : α → Bool) (h : ∀ x, p x = true → q x = true) (a : α) (hq : q a = true) (hp : p a = false) :
    ∀ l : List α, a ∈ l → l.countP p + 1 ≤ l.countP q
  | [], hm => nomatch hm
  | x :: xs, hm => by
    rw [List.countP_cons, List.countP_cons]
    rcases List.mem_cons.mp hm with rfl | hm
    · have := countP_mono' p q h xs
      rw [hq, hp]; simp only [↓reduceIte, Bool.false_eq_true]; omega
    · have ih := countP_drop p q h a hq hp xs hm
      cases hpx : p x with
      | false => simp only [Bool.false_eq_true, ↓reduceIte]; omega
      | true => rw [h x hpx]; simp only [↓reduceIte]; omega

/-- triples not yet compared -/
def mu (d : Doc) (c : OCtx) : Nat :=
  (keysFF d).countP (fun k => decide (k ∉ c.ffp)) + (keysFR d).countP (fun k => decide (k ∉ c.pairs))

theorem mem_keysFF {d : Doc} {i : Nat} {sels : List Sel} {g : String} {v : String × Nat × List Sel} (b : Bool)
    (hi : SelSet d i sels) (hg : AL.get? (fragTable d) g = some v) : (i, g, b) ∈ keysFF d := by
  have h1 : i ∈ selSetIds d := List.mem_filterMap.mpr ⟨_, hi, rfl⟩
  have h2 : g ∈ (fragTable d).map (·.1) := List.mem_map.mpr ⟨_, AL.mem_of_get? hg, rfl⟩
  simp only [keysFF, List.mem_flatMap]
  exact ⟨i, h1, g, h2, by cases b <;> simp⟩

theorem mem_keysFR {d : Doc} {a b : String} {va vb : String × Nat × List Sel} (m : Bool)
    (ha : AL.get? (fragTable d) a = some va) (hb : AL.get? (fragTable d) b = some vb) : (a, b, m) ∈ keysFR d := by
  have h1 : a ∈ (fragTable d).map (·.1) := List.mem_map.mpr ⟨_, AL.mem_of_get? ha, rfl⟩
  have h2 : b ∈ (fragTable d).map (·.1) := List.mem_map.mpr ⟨_, AL.mem_of_get? hb, rfl⟩
  simp only [keysFR, List.mem_flatMap]
  exact ⟨a, h1, b, h2, by cases m <;> simp⟩

theorem mu_le_bound (d : Doc) (c : OCtx) : mu d c ≤ (keysFF d).length + (keysFR d).length := by
  unfold mu
  have := List.countP_le_length (p := fun k => decide (k ∉ c.ffp)) (l := keysFF d)
  have := List.countP_le_length (p := fun k => decide (k ∉ c.pairs)) (l := keysFR d)
  omega

/-- what every call keeps: the fragment table and the exception flag; the memos only grow -/
def Good (c r : OCtx) : Prop :=
  r.frags = c.frags ∧ (∀ k ∈ c.ffp, k ∈ r.ffp) ∧ (∀ k ∈ c.pairs, k ∈ r.pairs) ∧ r.crash = c.crash

theorem Good.refl (c : OCtx) : Good c c := ⟨rfl, fun _ h => h, fun _ h => h, rfl⟩
theorem Good.trans {a b c : OCtx} (h1 : Good a b) (h2 : Good b c) : Good a c :=
  ⟨h2.1.trans h1.1, fun k h => h2.2.1 k (h1.2.1 k h), fun k h => h2.2.2.1 k (h1.2.2.1 k h), h2.2.2.2.trans h1.2.2.2⟩

theorem Good.mu {d : Doc} {c r : OCtx} (h : Good c r) : mu d r ≤ mu d c := by
  unfold PyGql.Validate.mu
  have a := countP_mono' (fun k => decide (k ∉ r.ffp)) (fun k => decide (k ∉ c.ffp))
    (fun k hk => by simp only [decide_eq_true_eq] at hk ⊢; exact fun hc => hk (h.2.1 k hc)) (keysFF d)
  have b := countP_mono' (fun k => decide (k ∉ r.pairs)) (fun k => decide (k ∉ c.pairs))
    (fun k hk => by simp only [decide_eq_true_eq] at hk ⊢; exact fun hc => hk (h.2.2.1 k hc)) (keysFR d)
  omega

theorem mu_ffp {d : Doc} {c : OCtx} {k : Nat × String × Bool} (hk : k ∈ keysFF d) (hn : k ∉ c.ffp) :
    mu d { c with ffp := k :: c.ffp } + 1 ≤ mu d c := by
  unfold mu
  have := countP_drop (fun x => decide (x ∉ k :: c.ffp)) (fun x => decide (x ∉ c.ffp))
    (fun x hx => by simp only [decide_eq_true_eq, List.mem_cons, not_or] at hx ⊢; exact hx.2) k
    (by simpa using hn) (by simp) (keysFF d) hk
  simp only
  omega

theorem mu_pairs {d : Doc} {c : OCtx} {k : String × String × Bool} (hk : k ∈ keysFR d) (hn : k ∉ c.pairs) :
    mu d { c with pairs := k :: c.pairs } + 1 ≤ mu d c := by
  unfold mu
  have := countP_drop (fun x => decide (x ∉ k :: c.pairs)) (fun x => decide (x ∉ c.pairs))
    (fun x hx => by simp only [decide_eq_true_eq, List.mem_cons, not_or] at hx ⊢; exact hx.2) k
    (by simpa using hn) (by simp) (keysFR d) hk
  simp only
  omega

theorem mul_step {a b W : Nat} (h : a + 1 ≤ b) : a * W + W ≤ b * W := by
  have := Nat.mul_le_mul_right W h
  rw [Nat.succ_mul] at this
  exact this

theorem sumLoop_good {α} (xs : List α) (f : α → OCtx → Nat × OCtx) (c0 : OCtx)
    (hf : ∀ x ∈ xs, ∀ c, Good c0 c → Good c (f x c).2) : Good c0 (sumLoop xs f c0).2 :=
  (sumLoop_spec xs f (Good c0) (fun _ => True) (fun x hx c hc => ⟨hc.trans (hf x hx c hc), fun _ => trivial⟩) c0
    (Good.refl c0)).1

theorem withFreshCmp_good (f : OCtx → Nat × OCtx) (c : OCtx) (h : Good { c with cmp := [] } (f { c with cmp := [] }).2) :
    Good c (withFreshCmp f c).2 := by
  unfold withFreshCmp
  exact ⟨h.1, h.2.1, h.2.2.1, h.2.2.2⟩

/-- a field of some selection set of the document (under any parent type) -/
def EntS (s : SchemaD) (d : Doc) (e : FEntry) : Prop := ∃ i sels p rn, SelSet d i sels ∧ CollD s p sels rn e

/-- `_fields_and_fragments` on a selection set of the document -/
theorem ff_syn {s : SchemaD} {d : Doc} {ρ : Nat → Nat} {R : Nat} (hR : RankSyn s d ρ R) (p : Option String) {i : Nat}
    {sels : List Sel} (h1 : SelSet d i sels) (c : OCtx) :
    Good c (fieldsAndFragments s p i sels c).2 ∧
    EntOK (fun _ e => EntS s d e) (fieldsAndFragments s p i sels c).1.1 ∧
    RkB ρ (ρ i - 2) (fieldsAndFragments s p i sels c).1.1 := by
  have key : ∀ p0, EntOK (fun _ e => EntS s d e) (collectSels s p0 sels ([], [])).1 ∧
      RkB ρ (ρ i - 2) (collectSels s p0 sels ([], [])).1 := by
    intro p0
    obtain ⟨a1, _⟩ := collectSels_sound s (CollD s p0 sels) (fun _ => True) p0 sels ([], [])
      (fun _ _ h => h) (fun _ _ => trivial) (entOK_nil _) (fun _ h => nomatch h)
    refine ⟨fun q hq e he => ⟨i, sels, p0, q.1, h1, a1 q hq e he⟩, fun q hq e he => ?_⟩
    have := hR.sub i sels p0 q.1 e h1 (a1 q hq e he)
    show entryRank ρ e ≤ ρ i - 2
    omega
  unfold fieldsAndFragments
  cases hf : c.cache.find? (·.1 == i) with
  | some q => exact ⟨Good.refl c, key q.2⟩
  | none => exact ⟨⟨rfl, fun _ h => h, fun _ h => h, rfl⟩, key p⟩

section
variable (s : SchemaD) (fx : Fixes) (d : Doc) (ρ : Nat → Nat) (R : Nat)

def TFind (fuel : Nat) : Prop :=
  ∀ pme f1 f2 c, c.frags = fragTable d → EntS s d f1 → EntS s d f2 →
    mu d c * (2 * R + 7) + (entryRank ρ f1 + entryRank ρ f2 + 5) ≤ fuel → Good c (findConflictM s fx fuel pme f1 f2 c).2

def TCb (fuel : Nat) : Prop :=
  ∀ me fm1 fm2 c m1 m2, c.frags = fragTable d → EntOK (fun _ e => EntS s d e) fm1 → EntOK (fun _ e => EntS s d e) fm2 →
    RkB ρ m1 fm1 → RkB ρ m2 fm2 → mu d c * (2 * R + 7) + (m1 + m2 + 6) ≤ fuel →
    Good c (conflictsBetweenM s fx fuel me fm1 fm2 c).2

def TFf (fuel : Nat) : Prop :=
  ∀ me ssid ssels fm name c m, c.frags = fragTable d → SelSet d ssid ssels → EntOK (fun _ e => EntS s d e) fm →
    RkB ρ m fm → m + 2 ≤ R → mu d c * (2 * R + 7) + 1 ≤ fuel →
    Good c (betweenFieldsAndFragmentM s fx fuel me ssid fm name c).2

def TFr (fuel : Nat) : Prop :=
  ∀ me f1 f2 c, c.frags = fragTable d → mu d c * (2 * R + 7) + 1 ≤ fuel →
    Good c (betweenFragmentsM s fx fuel me (some f1) (some f2) c).2

def TSs (fuel : Nat) : Prop :=
  ∀ me p1 id1 sels1 p2 id2 sels2 c, c.frags = fragTable d → SelSet d id1 sels1 → SelSet d id2 sels2 →
    mu d c * (2 * R + 7) + (ρ id1 + ρ id2 + 4) ≤ fuel →
    Good c (betweenSubselectionsM s fx fuel me p1 id1 sels1 p2 id2 sels2 c).2

theorem tstep_find (fuel : Nat) (hss : TSs s fx d ρ R fuel) : TFind s fx d ρ R (fuel + 1) := by
  intro pme f1 f2 c hc h1 h2 hr
  simp only [findConflictM]
  generalize (pme || _) = me
  have htail : Good c
      (if (match f1.fdef.map (·.type), f2.fdef.map (·.type) with
          | some a, some b => typesConflict s a b
          | _, _ => false) = true then (true, c)
        else if (f1.hasSub && f2.hasSub) = true then
          (decide ((betweenSubselectionsM s fx fuel me ((f1.fdef.map (·.type)).map (·.base)) f1.ssid f1.sub
            ((f2.fdef.map (·.type)).map (·.base)) f2.ssid f2.sub c).1 > 0),
           (betweenSubselectionsM s fx fuel me ((f1.fdef.map (·.type)).map (·.base)) f1.ssid f1.sub
            ((f2.fdef.map (·.type)).map (·.base)) f2.ssid f2.sub c).2)
        else (false, c)).2 := by
    generalize (match f1.fdef.map (·.type), f2.fdef.map (·.type) with
      | some a, some b => typesConflict s a b
      | _, _ => false) = tc
    cases tc with
    | true => exact Good.refl c
    | false =>
      simp only [Bool.false_eq_true, ↓reduceIte]
      cases hsd : (f1.hasSub && f2.hasSub) with
      | true =>
        simp only [↓reduceIte]
        simp only [Bool.and_eq_true] at hsd
        obtain ⟨i1, l1, p1, r1, a1, b1⟩ := h1
        obtain ⟨i2, l2, p2, r2, a2, b2⟩ := h2
        refine hss me _ _ _ _ _ _ c hc (selSet_sub a1 b1 hsd.1) (selSet_sub a2 b2 hsd.2) ?_
        simp only [entryRank, hsd.1, hsd.2, ↓reduceIte] at hr
        omega
      | false => exact Good.refl c
  cases me with
  | true =>
    simp only [↓reduceIte]
    exact htail
  | false =>
    simp only [Bool.false_eq_true, ↓reduceIte]
    by_cases hn : (f1.name != f2.name) = true
    · simp only [hn, ↓reduceIte]; exact Good.refl c
    · simp only [hn, Bool.false_eq_true, ↓reduceIte]
      cases hsa : sameArguments f1.args f2.args with
      | none => exact absurd hsa (sameArguments_some _ _)
      | some b =>
        cases b with
        | false => exact Good.refl c
        | true => exact htail

theorem tstep_cb (fuel : Nat) (hf : TFind s fx d ρ R fuel) : TCb s fx d ρ R (fuel + 1) := by
  intro me fm1 fm2 c m1 m2 hc h1 h2 r1 r2 hr
  simp only [conflictsBetweenM]
  refine sumLoop_good fm1 _ c (fun q hq c1 g1 => ?_)
  obtain ⟨rn, fields1⟩ := q
  simp only
  cases hg : AL.get? fm2 rn with
  | none => exact Good.refl _
  | some fields2 =>
    simp only
    refine sumLoop_good fields1 _ c1 (fun f1 hf1 c2 g2 => ?_)
    refine sumLoop_good fields2 _ c2 (fun f2 hf2 c3 g3 => ?_)
    have g : Good c c3 := (g1.trans g2).trans g3
    have e1 := h1 _ hq f1 hf1
    have e2 := entOK_get h2 hg f2 hf2
    have k1 : entryRank ρ f1 ≤ m1 := r1 _ hq f1 hf1
    have k2 : entryRank ρ f2 ≤ m2 := entOK_get r2 hg f2 hf2
    have hm := Nat.mul_le_mul_right (2 * R + 7) (g.mu (d := d))
    exact hf me f1 f2 c3 (g.1.trans hc) e1 e2 (by omega)
end
end PyGql.Validate

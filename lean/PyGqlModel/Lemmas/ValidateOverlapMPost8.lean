/-
  THE MEMOISED SEARCH NEVER LOSES A REPORT, part 8: the memoised RULE (`Validate/ChainMemo.lean: overlapMemoRun` - the
  memoised search at every selection set of the document, in visiting order, on one shared context) is a `sumLoop`; a
  run that ends without a crash and without an error leaves BOTH memos closed and a `WithinCertM` for every selection
  set - hence (`clause_of_certsM`) the clause of 5.3.2.
-/
import PyGqlModel.Lemmas.ValidateOverlapMPost7
import PyGqlModel.Lemmas.ValidateOverlapWalk2
namespace PyGql.Validate
open PyGql PyGql.Validate.Spec

/-- the memoised search at one node of the typed enumeration -/
def memoStep (s : SchemaD) (fx : Fixes) (fuel : Nat) (q : Node × View) (c : OCtx) : Nat × OCtx :=
  match q.1 with
  | .selectionSet i sels => withinSelectionSetM s fx fuel q.2.parent i sels c
  | _ => (0, c)

theorem overlapMemoRun_eq (s : SchemaD) (fx : Fixes) (d : Doc) :
    overlapMemoRun s fx d = sumLoop (typedNodes s d) (memoStep s fx (memoFuel d)) ({ frags := fragTable d } : OCtx) := by
  unfold overlapMemoRun sumLoop
  congr 1
  funext acc q
  obtain ⟨n, v⟩ := q
  cases n <;> simp only [memoStep] <;> split <;> rfl

def WCertAtM (s : SchemaD) (d : Doc) (M : MemoM) (q : Node × View) : Prop :=
  match q.1 with
  | .selectionSet i sels => WithinCertM s d M i q.2.parent sels
  | _ => True

/-- **completeness of the memoised rule**: no crash and no error ⇒ the clause -/
theorem memoRun_sound (s : SchemaD) (fx : Fixes) (d : Doc) (h7 : fx.v7 = true) (hpa : ParentsAgree s d) (hw : WfIds d)
    (hne : AL.get? (fragTable d) "" = none)
    (hE : (overlapMemoRun s fx d).1 = 0) (hC : (overlapMemoRun s fx d).2.crash = none) :
    Spec.overlappingFieldsCanBeMerged s d := by
  rw [overlapMemoRun_eq] at hE hC
  have hci : CI s d ({ frags := fragTable d } : OCtx) := ⟨rfl, fun _ h => nomatch h⟩
  have g := sumLoop_gpM (s := s) (d := d) (typedNodes s d) (memoStep s fx (memoFuel d)) (CI s d)
    (fun q M => WCertAtM s d M q)
    (fun q hq c hc => by
      obtain ⟨n, v⟩ := q
      cases n with
      | selectionSet i sels =>
        simp only [memoStep]
        have hs := selSet_of_typed hq
        have ha : Adm s d i v.parent := Adm.walk hq
        exact ⟨(withinM_sound s fx d h7 (memoFuel d) v.parent i sels c hc hs ha).1,
          fun h => withinM_post s fx d h7 hpa hw (memoFuel d) v.parent i sels c hc hs ha h⟩
      | _ => exact ⟨hc, fun h => GPM.skip rfl rfl (fun _ _ => trivial) h⟩)
    _ hci hC
  generalize hfin : sumLoop (typedNodes s d) (memoStep s fx (memoFuel d)) ({ frags := fragTable d } : OCtx) = fin
    at hE hC g
  obtain ⟨hkeys, hall⟩ := g.res hE (fun k => k ∈ keysM fin.2) (fun k hk => hk)
  refine clause_of_certsM (M := fun k => k ∈ keysM fin.2) hpa hne hw (fun k hk => ?_) (fun i sels hs p ha => ?_)
  · rcases hkeys k hk with h | h
    · simp [keysM] at h
    · exact h
  · have hmem : Node.selectionSet i sels ∈ (typedNodes s d).map (·.1) := by
      rw [typedNodes_fst]
      simp only [SelSet, nodes, List.mem_cons, reduceCtorEq, false_or] at hs
      exact hs
    obtain ⟨q, hq, hq1⟩ := List.mem_map.mp hmem
    obtain ⟨n, v⟩ := q
    simp only at hq1; subst hq1
    have := hall _ hq
    simp only [WCertAtM] at this
    rw [hpa _ _ _ ha (Adm.walk hq)]
    exact this

end PyGql.Validate

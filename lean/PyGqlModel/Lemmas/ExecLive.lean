/-
  C08 — helper lemmas, part 3: liveness. `Live q n`: every pending Future inside `n` really waits for a
  task that is outstanding (in the queue `q`), and the `gather` counters are exact
  (`done = #finished slots < target = #slots`, no failed slot). Consequence: a pending node implies an
  outstanding task, i.e. once every task has completed nothing is pending.
-/
import PyGqlModel.Lemmas.ExecEv

set_option linter.unusedVariables false
set_option linter.unusedSimpArgs false

namespace PyGql.AsyncExec

def fcount : Nodes → Nat
  | .nil => 0
  | .cons n ns => (if n.finished then 1 else 0) + fcount ns

def noFailed : Nodes → Prop
  | .nil => True
  | .cons n ns => (∀ e, n ≠ .failed e) ∧ noFailed ns

mutual
def Live (q : List Nat) : Node → Prop
  | .task id _ _ _ => id ∈ q
  | .chain src _ => src.finished = false ∧ Live q src
  | .unwrap src => src.finished = false ∧ Live q src
  | .gather slots done target =>
    LiveSlots q slots ∧ target = slots.length ∧ done = fcount slots ∧ done < target ∧ noFailed slots
  | .done r => Live q r
  | .val _ => True
  | .failed _ => True
def LiveSlots (q : List Nat) : Nodes → Prop
  | .nil => True
  | .cons n ns => Live q n ∧ LiveSlots q ns
end

def LiveRes (q : List Nat) : Res Node → Prop
  | .ok n => Live q n
  | .exc _ => True

def LiveSlotsRes (q : List Nat) : Res Nodes → Prop
  | .ok ns => LiveSlots q ns
  | .exc _ => True

abbrev Sub (q q' : List Nat) : Prop := ∀ id, id ∈ q → id ∈ q'

theorem sub_refl (q : List Nat) : Sub q q := fun _ h => h
theorem sub_trans {a b c : List Nat} (h1 : Sub a b) (h2 : Sub b c) : Sub a c := fun id h => h2 id (h1 id h)

theorem fcount_le : ∀ ns : Nodes, fcount ns ≤ ns.length
  | .nil => by simp [fcount, Nodes.length]
  | .cons n ns => by have := fcount_le ns; simp only [fcount, Nodes.length]; split <;> omega

mutual
theorem live_pending (q : List Nat) : ∀ n : Node, Live q n → n.finished = false → ∃ id, id ∈ q
  | .val x, _, h => by simp [Node.finished] at h
  | .done r, _, h => by simp [Node.finished] at h
  | .failed e, _, h => by simp [Node.finished] at h
  | .task id _ _ _, hl, _ => ⟨id, by simpa [Live] using hl⟩
  | .chain src k, hl, _ => by simp only [Live] at hl; exact live_pending q src hl.2 hl.1
  | .unwrap src, hl, _ => by simp only [Live] at hl; exact live_pending q src hl.2 hl.1
  | .gather slots done target, hl, _ => by
    simp only [Live] at hl
    obtain ⟨h1, h2, h3, h4, _⟩ := hl
    exact liveSlots_pending q slots h1 (by omega)
theorem liveSlots_pending (q : List Nat) : ∀ ns : Nodes, LiveSlots q ns → fcount ns < ns.length → ∃ id, id ∈ q
  | .nil, _, h => by simp [fcount, Nodes.length] at h
  | .cons n ns, hl, h => by
    simp only [LiveSlots] at hl
    by_cases hf : n.finished = true
    · simp only [fcount, Nodes.length, hf, if_true] at h
      exact liveSlots_pending q ns hl.2 (by omega)
    · exact live_pending q n hl.1 (by simpa using hf)
end

mutual
theorem live_mono (q q' : List Nat) (hs : Sub q q') : ∀ n : Node, Live q n → Live q' n
  | .val x, h => by simp [Live]
  | .done r, h => by simp only [Live] at h ⊢; exact live_mono q q' hs r h
  | .failed e, h => by simp [Live]
  | .task id _ _ _, h => by simp only [Live] at h ⊢; exact hs _ h
  | .chain src k, h => by simp only [Live] at h ⊢; exact ⟨h.1, live_mono q q' hs src h.2⟩
  | .unwrap src, h => by simp only [Live] at h ⊢; exact ⟨h.1, live_mono q q' hs src h.2⟩
  | .gather slots done target, h => by
    simp only [Live] at h ⊢; exact ⟨liveSlots_mono q q' hs slots h.1, h.2⟩
theorem liveSlots_mono (q q' : List Nat) (hs : Sub q q') : ∀ ns : Nodes, LiveSlots q ns → LiveSlots q' ns
  | .nil, h => by simp [LiveSlots]
  | .cons n ns, h => by
    simp only [LiveSlots] at h ⊢; exact ⟨live_mono q q' hs n h.1, liveSlots_mono q q' hs ns h.2⟩
end

/-! ### unwrap -/

theorem live_unwrapCb (q : List Nat) : ∀ n : Node, Live q n → Live q (unwrapCb n)
  | .val x, h => by simp [unwrapCb, Live]
  | .failed e, h => by simp [unwrapCb, Live]
  | .done (.val x), h => by simp [unwrapCb, Live]
  | .done (.done r), h => by
    have := live_unwrapCb q (.done r) (by simpa [Live] using h)
    simpa [unwrapCb] using this
  | .done (.failed e), h => by simp [unwrapCb, Live]
  | .done (.task a b c d), h => by simp [unwrapCb, Live, Node.finished] at h ⊢; exact h
  | .done (.chain a b), h => by simp [unwrapCb, Live, Node.finished] at h ⊢; exact h
  | .done (.unwrap a), h => by simp [unwrapCb, Live, Node.finished] at h ⊢; exact h
  | .done (.gather a b c), h => by simp [unwrapCb, Live, Node.finished] at h ⊢; exact h
  | .task a b c d, h => by simp [unwrapCb, Live, Node.finished] at h ⊢; exact h
  | .chain a b, h => by simp [unwrapCb, Live, Node.finished] at h ⊢; exact h
  | .unwrap a, h => by simp [unwrapCb, Live, Node.finished] at h ⊢; exact h
  | .gather a b c, h => by simp [unwrapCb, Live, Node.finished] at h ⊢; exact h

theorem live_unwrapValue (q : List Nat) (n : Node) (h : Live q n) : Live q (unwrapValue n) := by
  cases n <;> simp only [unwrapValue] <;> first | exact h | exact live_unwrapCb q _ h

/-! ### gather: exact counters -/

theorem gatherFire_error (done target : Nat) (e : Exc) (slots : Nodes) :
    (gatherFire done target (.error e) slots).2 = some (.failed e) := by
  simp [gatherFire, gatherOnFinish]

theorem gatherOnFinish_fst {α : Type} (done target : Nat) (d : Except Exc α) (slots : List (Slot α)) :
    (gatherOnFinish done target d slots).1 = done + 1 := by
  unfold gatherOnFinish
  cases d with
  | error e => rfl
  | ok a => simp only []; split <;> rfl

theorem gatherFire_fst (done target : Nat) (d : Except Exc Node) (slots : Nodes) :
    (gatherFire done target d slots).1 = done + 1 := by
  unfold gatherFire
  have := gatherOnFinish_fst done target d (slots.toList.map Node.slot)
  cases h : gatherOnFinish done target d (slots.toList.map Node.slot) with
  | mk a b => rw [h] at this; cases b <;> simpa using this

/-- if no callback set `outer`, every callback ran, each returned "nothing", and `done` counted them all -/
theorem gatherFires_none (target : Nat) (slots : Nodes) :
    ∀ (fired : List (Except Exc Node)) (done d' : Nat), gatherFires done target slots fired = (d', none) →
      d' = done + fired.length ∧
      ∀ (pre : List (Except Exc Node)) (d : Except Exc Node) (post : List (Except Exc Node)), fired = pre ++ d :: post →
        (gatherFire (done + pre.length) target d slots).2 = none
  | [], done, d', h => by
    simp [gatherFires] at h
    exact ⟨by simp [h], by intro pre d post hp; simp at hp⟩
  | x :: rest, done, d', h => by
    simp only [gatherFires] at h
    cases hf : gatherFire done target x slots with
    | mk dn o =>
      rw [hf] at h
      cases o with
      | some o' => simp at h
      | none =>
        simp only at h
        have hdn : dn = done + 1 := by
          have := gatherFire_fst done target x slots
          rw [hf] at this; exact this
        obtain ⟨i1, i2⟩ := gatherFires_none target slots rest dn d' h
        refine ⟨by simp [i1, hdn]; omega, ?_⟩
        intro pre d post hp
        cases pre with
        | nil =>
          simp at hp
          obtain ⟨hx, _⟩ := hp
          subst hx
          simp [hf]
        | cons y pre' =>
          simp at hp
          obtain ⟨_, hrest⟩ := hp
          have := i2 pre' d post hrest
          rw [hdn] at this
          simpa [Nat.add_assoc, Nat.add_comm 1] using this

theorem not_failed_of_noFailed : ∀ (ns : Nodes) (e : Exc), noFailed ns → Node.failed e ∉ ns.toList
  | .nil, e, _ => by simp [Nodes.toList]
  | .cons n ns, e, h => by
    simp only [noFailed] at h
    simp only [Nodes.toList, List.mem_cons, not_or]
    exact ⟨fun heq => h.1 e heq.symm, not_failed_of_noFailed ns e h.2⟩

theorem noFailed_of_not_mem : ∀ (ns : Nodes), (∀ e, Node.failed e ∉ ns.toList) → noFailed ns
  | .nil, _ => by simp [noFailed]
  | .cons n ns, h => by
    simp only [noFailed]
    refine ⟨fun e heq => h e (by simp [Nodes.toList, heq]), noFailed_of_not_mem ns ?_⟩
    intro e hm; exact h e (by simp [Nodes.toList, hm])

/-- all slots finished, none failed: the list comprehension of `on_finish` succeeds -/
theorem collect_all_finished : ∀ (ns : Nodes), fcount ns = ns.length → noFailed ns →
    ∃ rs, collectSlots (ns.toList.map Node.slot) = .setResult rs
  | .nil, _, _ => ⟨[], by simp [Nodes.toList, collectSlots]⟩
  | .cons n ns, h, hn => by
    simp only [noFailed] at hn
    have hle := fcount_le ns
    by_cases hf : n.finished = true
    · simp only [fcount, Nodes.length, hf, if_true] at h
      obtain ⟨rs, hrs⟩ := collect_all_finished ns (by omega) hn.2
      cases n with
      | val x => exact ⟨.val x :: rs, by simp [Nodes.toList, Node.slot, collectSlots, hrs]⟩
      | done r => exact ⟨r :: rs, by simp [Nodes.toList, Node.slot, collectSlots, hrs]⟩
      | failed e => exact absurd rfl (hn.1 e)
      | task a b c d => simp [Node.finished] at hf
      | chain a b => simp [Node.finished] at hf
      | unwrap a => simp [Node.finished] at hf
      | gather a b c => simp [Node.finished] at hf
    · simp only [fcount, Nodes.length, hf] at h
      simp at h; omega

theorem nodes_length_toList : ∀ ns : Nodes, ns.toList.length = ns.length
  | .nil => rfl
  | .cons n ns => by simp [Nodes.toList, Nodes.length, nodes_length_toList ns]

/-- the node a gather becomes after its callbacks ran is live again -/
theorem gather_live (q : List Nat) (slots : Nodes) (done target : Nat) (fired : List (Except Exc Node))
    (h1 : LiveSlots q slots) (h2 : target = slots.length) (h3 : done + fired.length = fcount slots)
    (h4 : ∀ e, Node.failed e ∈ slots.toList → Except.error e ∈ fired) (h5 : done < target) :
    ∀ d' o, gatherFires done target slots fired = (d', o) →
      Live q (match o with | some outer => outer | none => .gather slots d' target) := by
  intro d' o hg
  revert hg
  cases o with
    | some outer =>
      intro hg
      simp only
      -- `outer` is a finished Future holding a plain value or an exception
      have : (∃ e, outer = .failed e) ∨ (∃ x, outer = .done (.val x)) := by
        clear h1 h3 h4 h5
        induction fired generalizing done with
        | nil => simp [gatherFires] at hg
        | cons x rest ih =>
          simp only [gatherFires] at hg
          cases hf : gatherFire done target x slots with
          | mk dn o2 =>
            rw [hf] at hg
            cases o2 with
            | none => exact ih dn hg
            | some o' =>
              simp at hg
              obtain ⟨_, ho⟩ := hg
              subst ho
              simp only [gatherFire] at hf
              cases hgo : gatherOnFinish done target x (slots.toList.map Node.slot) with
              | mk dd act =>
                rw [hgo] at hf
                cases act <;> simp at hf
                · exact .inl ⟨_, hf.2.symm⟩
                · exact .inr ⟨_, hf.2.symm⟩
      rcases this with ⟨e, rfl⟩ | ⟨x, rfl⟩ <;> simp [Live]
    | none =>
      intro hg
      simp only
      obtain ⟨g1, g2⟩ := gatherFires_none target slots fired done d' hg
      have hnoerr : ∀ e, Except.error e ∉ fired := by
        intro e hm
        obtain ⟨pre, post, hp⟩ := List.append_of_mem hm
        have := g2 pre (.error e) post hp
        rw [gatherFire_error] at this; simp at this
      have hnf : noFailed slots := noFailed_of_not_mem slots (fun e hm => hnoerr e (h4 e hm))
      have hle := fcount_le slots
      simp only [Live]
      refine ⟨h1, h2, by omega, ?_, hnf⟩
      -- not all finished: otherwise the last callback would have set the result
      rcases Nat.lt_or_ge d' target with hlt | hge
      · exact hlt
      · exfalso
        have hall : fcount slots = slots.length := by omega
        obtain ⟨rs, hrs⟩ := collect_all_finished slots hall hnf
        have hne : fired ≠ [] := by intro hn; simp [hn] at g1; omega
        obtain ⟨pre, last, hpl⟩ : ∃ pre last, fired = pre ++ [last] := by
          rcases List.eq_nil_or_concat fired with h | ⟨pre, last, h⟩
          · exact absurd h hne
          · exact ⟨pre, last, by simpa using h⟩
        have := g2 pre last [] (by simpa using hpl)
        have hlen : done + pre.length + 1 = target := by
          have : fired.length = pre.length + 1 := by simp [hpl]
          omega
        cases last with
        | error e => rw [gatherFire_error] at this; simp at this
        | ok r => simp [gatherFire, gatherOnFinish, hlen, hrs] at this

/-! ### callbacks and combinators -/

def ApLive (ap : ApplyCont) (k : Cont) : Prop :=
  ∀ (r : Res Val) (s : ExecSt), LiveRes (ap k r s).2.queue (ap k r s).1 ∧ Sub s.queue (ap k r s).2.queue

@[simp] theorem handleNN_queue (p : Path) (x : Val) (s : ExecSt) : (handleNonNullableValue p x s).2.queue = s.queue := by
  unfold handleNonNullableValue; split <;> rfl

theorem applySimple_live (k : Cont) : ApLive applySimple k := by
  intro r s
  cases k <;> cases r <;> simp [applySimple, LiveRes, Live, Sub]

theorem chainOnFinish_live (ap : ApplyCont) (k : Cont) (hap : ApLive ap k) (src : Node) (s : ExecSt)
    (hl : Live s.queue src) (hfut : src.isFuture = true) :
    Live (chainOnFinish ap src k s).2.queue (chainOnFinish ap src k s).1 ∧ Sub s.queue (chainOnFinish ap src k s).2.queue := by
  cases src with
  | val x => simp [Node.isFuture] at hfut
  | failed e =>
    obtain ⟨h1, h2⟩ := hap (.exc e) s
    simp only [chainOnFinish]
    cases hr : ap k (.exc e) s with
    | mk r s' =>
      rw [hr] at h1 h2
      cases r with
      | ok x => exact ⟨by simpa [LiveRes, Live] using h1, h2⟩
      | exc e' => exact ⟨by simp [Live], h2⟩
  | done r =>
    obtain ⟨h1, h2⟩ := hap (.ok r.plain) s
    simp only [chainOnFinish]
    cases hr : ap k (.ok r.plain) s with
    | mk r' s' =>
      rw [hr] at h1 h2
      cases r' with
      | ok x => exact ⟨by simpa [LiveRes, Live] using h1, h2⟩
      | exc e' => exact ⟨by simp [Live], h2⟩
  | task a b c d => exact ⟨by simp only [chainOnFinish, Live]; exact ⟨rfl, hl⟩, sub_refl _⟩
  | chain a b => exact ⟨by simp only [chainOnFinish, Live]; exact ⟨rfl, hl⟩, sub_refl _⟩
  | unwrap a => exact ⟨by simp only [chainOnFinish, Live]; exact ⟨rfl, hl⟩, sub_refl _⟩
  | gather a b c => exact ⟨by simp only [chainOnFinish, Live]; exact ⟨rfl, hl⟩, sub_refl _⟩

theorem mapValue_live (ap : ApplyCont) (k : Cont) (hap : ApLive ap k) (n : Node) (s : ExecSt) (hl : Live s.queue n) :
    LiveRes (mapValue ap n k s).2.queue (mapValue ap n k s).1 ∧ Sub s.queue (mapValue ap n k s).2.queue := by
  cases n with
  | val x => simpa [mapValue] using hap (.ok x) s
  | done r =>
    have := chainOnFinish_live ap k hap (.done r) s hl rfl
    simpa [mapValue, Node.finished, LiveRes] using this
  | failed e =>
    have := chainOnFinish_live ap k hap (.failed e) s hl rfl
    simpa [mapValue, Node.finished, LiveRes] using this
  | task a b c d => exact ⟨by simp only [mapValue, Node.finished, LiveRes, Live]; exact ⟨rfl, hl⟩, sub_refl _⟩
  | chain a b => exact ⟨by simp only [mapValue, Node.finished, LiveRes, Live]; exact ⟨rfl, hl⟩, sub_refl _⟩
  | unwrap a => exact ⟨by simp only [mapValue, Node.finished, LiveRes, Live]; exact ⟨rfl, hl⟩, sub_refl _⟩
  | gather a b c => exact ⟨by simp only [mapValue, Node.finished, LiveRes, Live]; exact ⟨rfl, hl⟩, sub_refl _⟩

/-! ### gather_values on freshly built slots -/

theorem gv_counts : ∀ (ns : Nodes),
    (ns.toList.filter (fun n => !n.isFuture)).length + ((ns.toList.filter Node.isFuture).filterMap slotResult).length = fcount ns
    ∧ (ns.toList.filter (fun n => !n.isFuture)).length + (ns.toList.filter Node.isFuture).length = ns.length
  | .nil => by simp [Nodes.toList, fcount, Nodes.length]
  | .cons n ns => by
    obtain ⟨i1, i2⟩ := gv_counts ns
    cases n <;> simp [Nodes.toList, fcount, Nodes.length, Node.isFuture, Node.finished, slotResult, List.filter, List.filterMap] at i1 i2 ⊢ <;> omega

theorem gatherValues_live (q : List Nat) (source : Nodes) (h : LiveSlots q source) : Live q (gatherValues source) := by
  unfold gatherValues
  simp only
  split
  · simp [Live]
  · split
    · simp [Live]
    · rename_i h0 hp
      obtain ⟨c1, c2⟩ := gv_counts source
      have hlen := nodes_length_toList source
      have hpos : 0 < (source.toList.filter Node.isFuture).length := by
        cases hh : source.toList.filter Node.isFuture with
        | nil => simp [hh] at hp
        | cons a b => simp
      have := gather_live q source (source.toList.filter (fun n => !n.isFuture)).length source.toList.length
        ((source.toList.filter Node.isFuture).filterMap slotResult) h (by omega) c1
        (by
          intro e hm
          simp only [List.mem_filterMap, List.mem_filter]
          exact ⟨.failed e, ⟨hm, rfl⟩, rfl⟩)
        (by omega)
      cases hgf : gatherFires (source.toList.filter (fun n => !n.isFuture)).length source.toList.length source
          ((source.toList.filter Node.isFuture).filterMap slotResult) with
      | mk d' o =>
        have := this d' o hgf
        cases o <;> simpa using this

/-! ### nodes built by the executor -/

@[simp] theorem emit_queue (s : ExecSt) (e : Ev) : (s.emit e).queue = s.queue := rfl
@[simp] theorem addError_queue (s : ExecSt) (p : Path) (k : ErrKind) : (s.addError p k).queue = s.queue := rfl
@[simp] theorem submit_queue (s : ExecSt) : s.submit.2.queue = s.queue ++ [s.next] := rfl
@[simp] theorem submit_id (s : ExecSt) : s.submit.1 = s.next := rfl

mutual
theorem completeValue_live : ∀ (c : Comp) (path : Path) (s : ExecSt),
    LiveRes (completeValue path c s).2.queue (completeValue path c s).1 ∧ Sub s.queue (completeValue path c s).2.queue
  | .null, path, s => by simp [completeValue, LiveRes, Live, Sub]
  | .leaf v, path, s => by simp [completeValue, LiveRes, Live, Sub]
  | .bad, path, s => by simp [completeValue, LiveRes, Sub]
  | .nonNull c, path, s => by
    obtain ⟨h1, h2⟩ := completeValue_live c path s
    simp only [completeValue]
    cases hr : completeValue path c s with
    | mk r s1 =>
      rw [hr] at h1 h2
      cases r with
      | exc e => exact ⟨trivial, h2⟩
      | ok n =>
        obtain ⟨m1, m2⟩ := mapValue_live applySimple (.nonNull path) (applySimple_live _) n s1 h1
        exact ⟨m1, sub_trans h2 m2⟩
  | .list items, path, s => by
    obtain ⟨h1, h2⟩ := completeItems_live items path 0 s
    simp only [completeValue]
    cases hr : completeItems path 0 items s with
    | mk r s1 =>
      rw [hr] at h1 h2
      cases r with
      | exc e => exact ⟨trivial, h2⟩
      | ok ns => exact ⟨gatherValues_live _ ns h1, h2⟩
  | .obj fields, path, s => by
    obtain ⟨h1, h2⟩ := resolveFields_live fields path s
    simp only [completeValue]
    cases hr : resolveFields path fields s with
    | mk r s1 =>
      rw [hr] at h1 h2
      cases r with
      | exc e => exact ⟨trivial, h2⟩
      | ok ns =>
        obtain ⟨m1, m2⟩ := mapValue_live applySimple (.collect fields.keys) (applySimple_live _) (gatherValues ns) s1
          (gatherValues_live _ ns h1)
        exact ⟨m1, sub_trans h2 m2⟩
theorem completeItems_live : ∀ (cs : Comps) (path : Path) (i : Nat) (s : ExecSt),
    LiveSlotsRes (completeItems path i cs s).2.queue (completeItems path i cs s).1 ∧ Sub s.queue (completeItems path i cs s).2.queue
  | .nil, path, i, s => by simp [completeItems, LiveSlotsRes, LiveSlots, Sub]
  | .cons c cs, path, i, s => by
    obtain ⟨h1, h2⟩ := completeValue_live c (path ++ [.idx i]) s
    simp only [completeItems]
    cases hr : completeValue (path ++ [.idx i]) c s with
    | mk r s1 =>
      rw [hr] at h1 h2
      cases r with
      | exc e => exact ⟨trivial, h2⟩
      | ok n =>
        obtain ⟨j1, j2⟩ := completeItems_live cs path (i + 1) s1
        simp only []
        cases hr2 : completeItems path (i + 1) cs s1 with
        | mk r2 s2 =>
          rw [hr2] at j1 j2
          cases r2 with
          | exc e => exact ⟨trivial, sub_trans h2 j2⟩
          | ok ns => exact ⟨⟨live_mono _ _ j2 n h1, j1⟩, sub_trans h2 j2⟩
theorem resolveFields_live : ∀ (fs : Flds) (path : Path) (s : ExecSt),
    LiveSlotsRes (resolveFields path fs s).2.queue (resolveFields path fs s).1 ∧ Sub s.queue (resolveFields path fs s).2.queue
  | .nil, path, s => by simp [resolveFields, LiveSlotsRes, LiveSlots, Sub]
  | .cons key mode out rest, path, s => by
    obtain ⟨h1, h2⟩ := resolveField_live out (path ++ [.key key]) mode s
    simp only [resolveFields]
    cases hr : resolveField (path ++ [.key key]) mode out s with
    | mk r s1 =>
      rw [hr] at h1 h2
      cases r with
      | exc e => exact ⟨trivial, h2⟩
      | ok n =>
        obtain ⟨j1, j2⟩ := resolveFields_live rest path s1
        simp only []
        cases hr2 : resolveFields path rest s1 with
        | mk r2 s2 =>
          rw [hr2] at j1 j2
          cases r2 with
          | exc e => exact ⟨trivial, sub_trans h2 j2⟩
          | ok ns => exact ⟨⟨live_mono _ _ j2 n h1, j1⟩, sub_trans h2 j2⟩
theorem resolveField_live : ∀ (out : ROut) (path : Path) (mode : Mode) (s : ExecSt),
    LiveRes (resolveField path mode out s).2.queue (resolveField path mode out s).1 ∧ Sub s.queue (resolveField path mode out s).2.queue
  | .rerr, path, mode, s => by
    cases mode <;> simp [resolveField, failField, LiveRes, Live, Sub, Node.finished, unwrapCb] <;> (intro id h; exact .inl h)
  | .exc, path, mode, s => by
    cases mode <;> simp [resolveField, LiveRes, Live, Sub, Node.finished] <;> (intro id h; exact .inl h)
  | .ok c, path, mode, s => by
    cases mode with
    | sync =>
      obtain ⟨h1, h2⟩ := completeValue_live c path ((s.emit (.call path)).emit (.done path))
      simp only [resolveField]
      cases hr : completeValue path c ((s.emit (.call path)).emit (.done path)) with
      | mk r s1 =>
        rw [hr] at h1 h2
        cases r with
        | exc e => cases e <;> exact ⟨by simp [failField, LiveRes, Live], by simpa [failField] using h2⟩
        | ok n => exact ⟨live_unwrapValue _ n h1, h2⟩
    | deferred => simp [resolveField, LiveRes, Live, Sub, Node.finished]; intro id h; exact .inl h
    | nested => simp [resolveField, LiveRes, Live, Sub, Node.finished]; intro id h; exact .inl h
    | ready =>
      obtain ⟨h1, h2⟩ := completeValue_live c path ((s.emit (.call path)).emit (.done path))
      simp only [resolveField]
      cases hr : completeValue path c ((s.emit (.call path)).emit (.done path)) with
      | mk r s1 =>
        rw [hr] at h1 h2
        cases r with
        | exc e => cases e <;> exact ⟨by simp [failField, LiveRes, Live, unwrapCb], by simpa [failField] using h2⟩
        | ok n => exact ⟨live_unwrapCb _ (.done n) (by simpa [Live, LiveRes] using h1), h2⟩
end

/-! ### serial routine, full interpreter -/

theorem serialNext_live : ∀ (args : Flds) (path : Path) (resolved : List (String × V)) (s : ExecSt),
    LiveRes (serialNext path resolved args s).2.queue (serialNext path resolved args s).1 ∧
    Sub s.queue (serialNext path resolved args s).2.queue
  | .nil, path, resolved, s => by simp [serialNext, LiveRes, Live, Sub]
  | .cons key mode out args, path, resolved, s => by
    obtain ⟨h1, h2⟩ := resolveField_live out (path ++ [.key key]) mode s
    obtain ⟨e1, _, e3⟩ := resolveField_ev out (path ++ [.key key]) mode s
    have ih := fun (w : V) (s1 : ExecSt) => serialNext_live args path (resolved ++ [(key, w)]) s1
    simp only [serialNext]
    cases hr : resolveField (path ++ [.key key]) mode out s with
    | mk r s1 =>
      rw [hr] at h1 h2 e1 e3
      cases r with
      | exc e => exact ⟨trivial, h2⟩
      | ok n =>
        simp only [LiveRes, FlatRes, evRes] at h1 e3 e1
        cases n with
        | val x =>
          cases x with
          | data v => obtain ⟨i1, i2⟩ := ih v s1; exact ⟨i1, sub_trans h2 i2⟩
          | raw c => exact ⟨by simp [LiveRes, Live], h2⟩
          | junk => exact ⟨by simp [LiveRes, Live], h2⟩
        | done r =>
          cases r with
          | val x =>
            cases x with
            | data v =>
              obtain ⟨i1, i2⟩ := ih v s1
              simp only []
              cases hs : serialNext path (resolved ++ [(key, v)]) args s1 with
              | mk r2 s2 =>
                rw [hs] at i1 i2
                cases r2 with
                | ok x2 => exact ⟨by simpa [LiveRes, Live] using i1, sub_trans h2 i2⟩
                | exc e2 => exact ⟨by simp [LiveRes, Live], sub_trans h2 i2⟩
            | raw c => cases hd : denOut out <;> simp [hd, ev, denToEv] at e1
            | junk => cases hd : denOut out <;> simp [hd, ev, denToEv] at e1
          | _ => simp [flat] at e3
        | failed x => exact ⟨by simp [LiveRes, Live], h2⟩
        | task a b c d => exact ⟨by simp only [LiveRes, Live]; exact ⟨rfl, h1⟩, h2⟩
        | chain a b => exact ⟨by simp only [LiveRes, Live]; exact ⟨rfl, h1⟩, h2⟩
        | unwrap a => exact ⟨by simp only [LiveRes, Live]; exact ⟨rfl, h1⟩, h2⟩
        | gather a b c => exact ⟨by simp only [LiveRes, Live]; exact ⟨rfl, h1⟩, h2⟩

theorem applyCont_live (k : Cont) : ApLive applyCont k := by
  intro r s
  cases k with
  | complete path =>
    cases r with
    | ok x =>
      cases x with
      | raw c =>
        obtain ⟨h1, h2⟩ := completeValue_live c path s
        simp only [applyCont]
        cases hr : completeValue path c s with
        | mk r' s1 =>
          rw [hr] at h1 h2
          cases r' with
          | exc e => cases e <;> exact ⟨by simp [failField, LiveRes, Live], by simpa [failField] using h2⟩
          | ok n => exact ⟨h1, h2⟩
      | data v => simp [applyCont, applySimple, LiveRes, Live, Sub]
      | junk => simp [applyCont, applySimple, LiveRes, Live, Sub]
    | exc e => cases e <;> simp [applyCont, applySimple, failField, LiveRes, Live, Sub]
  | serialCb path key resolved args =>
    cases r with
    | ok x =>
      cases x with
      | data v => simpa [applyCont] using serialNext_live args path (resolved ++ [(key, v)]) s
      | raw c => simp [applyCont, applySimple, LiveRes, Live, Sub]
      | junk => simp [applyCont, applySimple, LiveRes, Live, Sub]
    | exc e => cases e <;> simp [applyCont, applySimple, LiveRes, Sub]
  | collect keys => have := applySimple_live (.collect keys) r s; cases r <;> simpa [applyCont] using this
  | nonNull p => have := applySimple_live (.nonNull p) r s; cases r <;> simpa [applyCont] using this
  | onFinish => have := applySimple_live .onFinish r s; cases r <;> simpa [applyCont] using this

/-! ### completing a task -/

theorem deliver_finished (ap : ApplyCont) (t : Nat) (n : Node) (s : ExecSt) (h : n.finished = true) :
    deliver ap t n s = (n, s) := by
  cases n <;> simp [Node.finished] at h <;> simp [deliver]

theorem unwrapCb_isFuture : ∀ n : Node, (unwrapCb n).isFuture = true
  | .val x => by simp [unwrapCb, Node.isFuture]
  | .failed e => by simp [unwrapCb, Node.isFuture]
  | .done (.val x) => by simp [unwrapCb, Node.isFuture]
  | .done (.done r) => by
    have := unwrapCb_isFuture (.done r)
    simpa [unwrapCb] using this
  | .done (.failed e) => by simp [unwrapCb, Node.isFuture]
  | .done (.task a b c d) => by simp [unwrapCb, Node.isFuture]
  | .done (.chain a b) => by simp [unwrapCb, Node.isFuture]
  | .done (.unwrap a) => by simp [unwrapCb, Node.isFuture]
  | .done (.gather a b c) => by simp [unwrapCb, Node.isFuture]
  | .task a b c d => by simp [unwrapCb, Node.isFuture]
  | .chain a b => by simp [unwrapCb, Node.isFuture]
  | .unwrap a => by simp [unwrapCb, Node.isFuture]
  | .gather a b c => by simp [unwrapCb, Node.isFuture]

theorem chainOnFinish_isFuture (ap : ApplyCont) (src : Node) (k : Cont) (s : ExecSt) :
    (chainOnFinish ap src k s).1.isFuture = true := by
  cases src <;> simp only [chainOnFinish] <;> (try rfl)
  · rename_i r; cases h : ap k (.ok r.plain) s with | mk a b => cases a <;> rfl
  · rename_i e; cases h : ap k (.exc e) s with | mk a b => cases a <;> rfl

theorem deliver_isFuture (ap : ApplyCont) (t : Nat) (n : Node) (s : ExecSt) (h : n.isFuture = true) :
    (deliver ap t n s).1.isFuture = true := by
  cases n with
  | val x => simp [Node.isFuture] at h
  | done r => simp [deliver, Node.isFuture]
  | failed e => simp [deliver, Node.isFuture]
  | task id p nested out =>
    simp only [deliver]
    split
    · cases nested <;> cases out <;> simp [finishTask, Node.isFuture]
    · rfl
  | chain src k =>
    simp only [deliver]
    exact chainOnFinish_isFuture ap _ k _
  | unwrap src =>
    simp only [deliver]
    exact unwrapCb_isFuture _
  | gather slots d tg =>
    simp only [deliver]
    cases hgf : gatherFires d tg (deliverSlots ap t slots s).1 (deliverSlots ap t slots s).2.1 with
    | mk d' o =>
      cases o with
      | none => rfl
      | some outer =>
        simp only []
        -- outer is `failed _` or `done _`
        have : ∀ (fired : List (Except Exc Node)) (dn : Nat) (sl : Nodes), gatherFires dn tg sl fired = (d', some outer) → outer.isFuture = true := by
          intro fired
          induction fired with
          | nil => intro dn sl hh; simp [gatherFires] at hh
          | cons x rest ih =>
            intro dn sl hh
            simp only [gatherFires] at hh
            cases hf : gatherFire dn tg x sl with
            | mk dm o2 =>
              rw [hf] at hh
              cases o2 with
              | none => exact ih dm sl hh
              | some o' =>
                simp at hh
                obtain ⟨_, ho⟩ := hh
                subst ho
                simp only [gatherFire] at hf
                cases hgo : gatherOnFinish dn tg x (sl.toList.map Node.slot) with
                | mk dd act =>
                  rw [hgo] at hf
                  cases act <;> simp at hf <;> (rw [← hf.2]; rfl)
        exact this _ _ _ hgf

/-- what `deliverSlots` reports about the slots that finished during the step -/
structure SlotsRel (ns ns' : Nodes) (fired : List (Except Exc Node)) : Prop where
  len : ns'.length = ns.length
  cnt : fcount ns' = fcount ns + fired.length
  failed : ∀ e, Node.failed e ∈ ns'.toList → Node.failed e ∈ ns.toList ∨ Except.error e ∈ fired

mutual
theorem deliver_live : ∀ (n : Node) (t : Nat) (s : ExecSt), Good n = true → (n.finished = true → flat n = true) →
    Live (t :: s.queue) n →
    Live (deliver applyCont t n s).2.queue (deliver applyCont t n s).1 ∧ Sub s.queue (deliver applyCont t n s).2.queue
  | .val x, t, s, _, _, h => by simp [deliver, Live, Sub]
  | .done r, t, s, _, hff, h => by
    -- a finished Future that persists in a tree (a slot, or the top) is flat: it holds a plain value
    have := hff rfl
    cases r <;> simp [flat] at this
    simp [deliver, Live, Sub]
  | .failed e, t, s, _, _, h => by simp [deliver, Live, Sub]
  | .task id path nested out, t, s, _, _, h => by
    simp only [deliver]
    split
    · cases nested <;> cases out <;> simp [finishTask, Live, Sub, Node.finished] <;> (try (intro i hi; exact .inl hi))
    · rename_i hne
      simp only [Live] at h ⊢
      refine ⟨?_, sub_refl _⟩
      simp at h hne
      rcases h with h | h
      · exact absurd h hne
      · exact h
  | .chain src k, t, s, hg, _, h => by
    simp only [Live] at h
    simp only [Good, Bool.and_eq_true] at hg
    obtain ⟨i1, i2⟩ := deliver_live src t s hg.1 (by intro hf; rw [h.1] at hf; exact absurd hf (by simp)) h.2
    have hfut : (deliver applyCont t src s).1.isFuture = true :=
      deliver_isFuture applyCont t src s (by cases src <;> simp_all [Node.finished, Node.isFuture])
    simp only [deliver]
    cases hd : deliver applyCont t src s with
    | mk src' s1 =>
      rw [hd] at i1 i2 hfut
      obtain ⟨c1, c2⟩ := chainOnFinish_live applyCont k (applyCont_live k) src' s1 i1 hfut
      exact ⟨c1, sub_trans i2 c2⟩
  | .unwrap src, t, s, hg, _, h => by
    simp only [Live] at h
    simp only [Good] at hg
    obtain ⟨i1, i2⟩ := deliver_live src t s hg (by intro hf; rw [h.1] at hf; exact absurd hf (by simp)) h.2
    simp only [deliver]
    cases hd : deliver applyCont t src s with
    | mk src' s1 =>
      rw [hd] at i1 i2
      exact ⟨live_unwrapCb _ _ i1, i2⟩
  | .gather slots done target, t, s, hg, _, h => by
    simp only [Live] at h
    simp only [Good] at hg
    obtain ⟨hl, h2, h3, h4, h5⟩ := h
    obtain ⟨i1, i2, i3⟩ := deliverSlots_live slots t s hg hl
    simp only [deliver]
    cases hd : deliverSlots applyCont t slots s with
    | mk slots' rest =>
      cases rest with
      | mk fired s1 =>
        rw [hd] at i1 i2 i3
        simp only at i1 i2 i3
        have hg := gather_live s1.queue slots' done target fired i1 (by rw [i3.len]; exact h2)
          (by rw [i3.cnt, h3])
          (by
            intro e hm
            rcases i3.failed e hm with ho | hf
            · exact absurd ho (not_failed_of_noFailed slots e h5)
            · exact hf)
          h4
        simp only []
        cases hgf : gatherFires done target slots' fired with
        | mk d' o =>
          have := hg d' o hgf
          cases o <;> exact ⟨by simpa using this, i2⟩
theorem deliverSlots_live : ∀ (ns : Nodes) (t : Nat) (s : ExecSt), GoodSlots ns = true → LiveSlots (t :: s.queue) ns →
    LiveSlots (deliverSlots applyCont t ns s).2.2.queue (deliverSlots applyCont t ns s).1 ∧
    Sub s.queue (deliverSlots applyCont t ns s).2.2.queue ∧
    SlotsRel ns (deliverSlots applyCont t ns s).1 (deliverSlots applyCont t ns s).2.1
  | .nil, t, s, _, h => by
    simp only [deliverSlots, LiveSlots]
    exact ⟨trivial, sub_refl _, ⟨rfl, by simp, by intro e hm; exact .inl hm⟩⟩
  | .cons n ns, t, s, hgs, h => by
    simp only [LiveSlots] at h
    simp only [GoodSlots, Bool.and_eq_true] at hgs
    obtain ⟨i1, i2⟩ := deliver_live n t s hgs.1.1.1 (fun _ => hgs.1.1.2) h.1
    simp only [deliverSlots]
    cases hd : deliver applyCont t n s with
    | mk n' s1 =>
      rw [hd] at i1 i2
      have hl2 : LiveSlots (t :: s1.queue) ns :=
        liveSlots_mono _ _ (by intro id hm; simp at hm ⊢; rcases hm with hm | hm; exact .inl hm; exact .inr (i2 id hm)) ns h.2
      obtain ⟨j1, j2, j3⟩ := deliverSlots_live ns t s1 hgs.2 hl2
      cases hd2 : deliverSlots applyCont t ns s1 with
      | mk ns' rest =>
        cases rest with
        | mk fired s2 =>
          rw [hd2] at j1 j2 j3
          simp only at i1 i2 j1 j2 j3 ⊢
          refine ⟨⟨live_mono _ _ j2 n' i1, j1⟩, sub_trans i2 j2, ?_⟩
          by_cases hfin : n.finished = true
          · -- untouched
            have hsame := deliver_finished applyCont t n s hfin
            rw [hd] at hsame
            simp at hsame
            obtain ⟨hn, _⟩ := hsame
            subst hn
            have hp : n'.isPending = false := by simp [Node.isPending, hfin]
            refine ⟨by simp [Nodes.length, j3.len], by simp [fcount, hp, j3.cnt]; omega, ?_⟩
            intro e hm
            simp only [Nodes.toList, List.mem_cons] at hm
            rcases hm with hm | hm
            · exact .inl (by simp [Nodes.toList, hm])
            · rcases j3.failed e hm with hh | hh
              · exact .inl (by simp [Nodes.toList, hh])
              · exact .inr (by simp [hp, hh])
          · have hp : n.isPending = true := by simp [Node.isPending]; simpa using hfin
            have hfut : n'.isFuture = true := by
              have := deliver_isFuture applyCont t n s (by cases n <;> simp_all [Node.finished, Node.isFuture])
              rw [hd] at this; exact this
            have hcount : (if n'.finished then 1 else 0) = (slotResult n').toList.length := by
              cases n' <;> simp_all [Node.finished, slotResult, Node.isFuture]
            refine ⟨by simp [Nodes.length, j3.len], ?_, ?_⟩
            · simp only [fcount, hp, if_true, List.length_append, j3.cnt]
              have hf0 : (if n.finished = true then 1 else 0) = 0 := by simp [hfin]
              rw [hf0, hcount]; omega
            · intro e hm
              simp only [Nodes.toList, List.mem_cons] at hm
              rcases hm with hm | hm
              · right; subst hm; simp [hp, slotResult]
              · rcases j3.failed e hm with hh | hh
                · exact .inl (by simp [Nodes.toList, hh])
                · exact .inr (by simp [hh])
end

/-! ### schedules -/

theorem mem_removeAt {α : Type} : ∀ (l : List α) (j : Nat) (t x : α), l[j]? = some t → x ∈ l → x = t ∨ x ∈ removeAt l j
  | [], j, t, x, h, _ => by simp at h
  | a :: l, 0, t, x, h, hm => by
    simp at h; subst h
    simp [removeAt] at hm ⊢; exact hm
  | a :: l, j + 1, t, x, h, hm => by
    simp at h
    simp [removeAt] at hm ⊢
    rcases hm with hm | hm
    · exact .inr (.inl hm)
    · rcases mem_removeAt l j t x h hm with h' | h'
      · exact .inl h'
      · exact .inr (.inr h')

theorem stepSched_live (top : Node) (s : ExecSt) (i : Nat) (d : EvR) (h : TopInv top d) (hl : Live s.queue top) :
    Live (stepSched top s i).2.queue (stepSched top s i).1 := by
  unfold stepSched
  simp only
  split
  · exact hl
  · rename_i t ht
    have hl' : Live (t :: removeAt s.queue (i % s.queue.length)) top :=
      live_mono _ _ (by
        intro id hm
        rcases mem_removeAt s.queue _ t id ht hm with h' | h'
        · simp [h']
        · simp [h']) top hl
    exact (deliver_live top t { s with queue := removeAt s.queue (i % s.queue.length) } h.good (fun _ => h.isFlat) hl').1

theorem runSched_live (d : EvR) : ∀ (sched : List Nat) (top : Node) (s : ExecSt) (sizes : List Nat),
    TopInv top d → Live s.queue top →
    Live (runSched top s sizes sched).st.queue (runSched top s sizes sched).top
  | [], top, s, sizes, _, hl => by simpa [runSched] using hl
  | i :: rest, top, s, sizes, h, hl => by
    simp only [runSched]
    split
    · exact hl
    · have h1 := stepSched_inv top s i d h
      have h2 := stepSched_live top s i d h hl
      cases hs : stepSched top s i with
      | mk top' s' =>
        rw [hs] at h1 h2
        exact runSched_live d rest top' s' _ h1 h2

theorem execute_live (op : Op) (s : ExecSt) :
    match execute op s with
    | (.exc _, _) => True
    | (.ok top, s2) => Live s2.queue top := by
  have hfin : ∀ (r : Res Node) (s1 : ExecSt), LiveRes s1.queue r →
      match (match (r, s1) with
        | (.exc e, s1) => ((.exc e : Res Node), s1)
        | (.ok n, s1) => mapValue applyCont (unwrapValue n) .onFinish s1) with
      | (.exc _, _) => True
      | (.ok top, s2) => Live s2.queue top := by
    intro r s1 hl
    cases r with
    | exc e => trivial
    | ok n =>
      simp only
      obtain ⟨m1, _⟩ := mapValue_live applyCont .onFinish (applyCont_live _) (unwrapValue n) s1 (live_unwrapValue _ n hl)
      cases hm : mapValue applyCont (unwrapValue n) .onFinish s1 with
      | mk r2 s2 => rw [hm] at m1; cases r2 <;> simpa [LiveRes] using m1
  unfold execute
  cases hk : op.kind with
  | query =>
    simp only
    obtain ⟨h1, _⟩ := completeValue_live (.obj op.fields) [] s
    rw [← executeFields_eq] at h1
    cases hr : executeFields [] op.fields s with
    | mk r s1 => rw [hr] at h1; exact hfin r s1 h1
  | mutation =>
    simp only
    obtain ⟨h1, _⟩ := serialNext_live op.fields [] [] s
    unfold executeFieldsSerially
    cases hr : serialNext [] [] op.fields s with
    | mk r s1 => rw [hr] at h1; exact hfin r s1 h1

end PyGql.AsyncExec

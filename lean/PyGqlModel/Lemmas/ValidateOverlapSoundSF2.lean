/-
  `OverlappingFieldsCanBeMergedChecker`, soundness half, part 4 (documents without fragment spreads):
  `_conflicts_between`, `_conflicts_between_subselections`, the three functions together by induction on the fuel,
  and `find_conflicts_within_selection_set`.
-/
import PyGqlModel.Lemmas.ValidateOverlapSoundSF
namespace PyGql.Validate
open PyGql PyGql.Validate.Spec

section
variable (s : SchemaD) (fx : Fixes) (d : Doc)

theorem step_ccb (fuel : Nat) (hsf : SFind s fx d fuel) (hcf : CFind s fx d fuel) : CCb s fx d (fuel + 1) := by
  intro me fm1 fm2 c hc h1 h2
  simp only [conflictsBetween]
  intro hcr
  refine sumLoop_complete' fm1 _ (CI s d)
    (fun q => ∀ e1 ∈ q.2, ∀ e2 ∈ AL.getD fm2 q.1 [], ¬ Conf s d me e1 e2) _ (fun q hq c hc => ?_)
    (fun hall rn e1 e2 m1 m2 => ?_) c hc hcr
  · obtain ⟨rn, fields1⟩ := q
    simp only
    cases hg : AL.get? fm2 rn with
    | none =>
      refine ⟨hc, fun h => ⟨h, fun _ e1 _ e2 m2 => ?_⟩⟩
      simp [AL.getD, hg] at m2
    | some fields2 =>
      simp only
      have hgd : AL.getD fm2 rn [] = fields2 := by simp [AL.getD, hg]
      rw [hgd]
      have hP2 : ∀ f1 ∈ fields1, ∀ c, CI s d c → CI s d (sumLoop fields2 (fun f2 c =>
          (if (findConflict s fx fuel me f1 f2 c).1 = true then 1 else 0, (findConflict s fx fuel me f1 f2 c).2)) c).2 :=
        fun f1 hf1 c hc => (sumLoop_spec fields2 _ (CI s d) (fun _ => True) (fun f2 hf2 c hc =>
          ⟨(hsf me f1 f2 c hc (h1 _ hq f1 hf1) (h2 _ (AL.mem_of_get? hg) f2 hf2)).1, fun _ => trivial⟩) c hc).1
      have hP : CI s d (sumLoop fields1 (fun f1 c => sumLoop fields2 (fun f2 c =>
          (if (findConflict s fx fuel me f1 f2 c).1 = true then 1 else 0, (findConflict s fx fuel me f1 f2 c).2)) c) c).2 :=
        (sumLoop_spec fields1 _ (CI s d) (fun _ => True) (fun f1 hf1 c hc => ⟨hP2 f1 hf1 c hc, fun _ => trivial⟩) c hc).1
      refine ⟨hP, fun hcr => ?_⟩
      refine sumLoop_complete' fields1 _ (CI s d) (fun f1 => ∀ e2 ∈ fields2, ¬ Conf s d me f1 e2) _
        (fun f1 hf1 c hc => ?_) (fun hall e1 m1 e2 m2 => hall e1 m1 e2 m2) c hc hcr
      refine ⟨hP2 f1 hf1 c hc, fun hcr => ?_⟩
      refine sumLoop_complete' fields2 _ (CI s d) (fun f2 => ¬ Conf s d me f1 f2) _
        (fun f2 hf2 c hc => ?_) (fun hall e2 m2 => hall e2 m2) c hc hcr
      have hE1 := h1 _ hq f1 hf1
      have hE2 := h2 _ (AL.mem_of_get? hg) f2 hf2
      refine ⟨(hsf me f1 f2 c hc hE1 hE2).1, fun hcr => ?_⟩
      obtain ⟨k1, k2⟩ := hcf me f1 f2 c hc hE1 hE2 hcr
      refine ⟨k1, fun h0 => k2 ?_⟩
      cases hb : (findConflict s fx fuel me f1 f2 c).1 with
      | false => rfl
      | true => rw [hb] at h0; simp at h0
  · rcases AL.getD_cases fm1 rn [] with e | e
    · rw [e] at m1; cases m1
    · exact hall _ e e1 m1 e2 m2

theorem sumLoop_nil {α} (f : α → OCtx → Nat × OCtx) (c : OCtx) : sumLoop [] f c = (0, c) := rfl

theorem step_css (hns : NoSpreads d) (hpa : ParentsAgree s d) (fuel : Nat) (hccb : CCb s fx d fuel) :
    CSs s fx d (fuel + 1) := by
  intro me p1 id1 sels1 p2 id2 sels2 c hc s1 a1 s2 a2
  simp only [betweenSubselections]
  obtain ⟨x1, x2, _⟩ := ff_set s d hc s1 a1
  obtain ⟨p1', xa, xe⟩ := ff_eq s d p1 id1 sels1 c hc.cache a1
  have xn := ff_noSpreads s d hns p1 id1 sels1 c hc.cache a1 s1
  have xc := ff_crash s p1 id1 sels1 c
  generalize fieldsAndFragments s p1 id1 sels1 c = ra at x1 x2 xe xn xc ⊢
  obtain ⟨⟨fma, fra⟩, ca⟩ := ra
  simp only at x1 x2 xe xn xc ⊢
  subst xn
  obtain ⟨y1, y2, _⟩ := ff_set s d x1 s2 a2
  obtain ⟨p2', ya, ye⟩ := ff_eq s d p2 id2 sels2 ca x1.cache a2
  have yn := ff_noSpreads s d hns p2 id2 sels2 ca x1.cache a2 s2
  have yc := ff_crash s p2 id2 sels2 ca
  generalize fieldsAndFragments s p2 id2 sels2 ca = rb at y1 y2 ye yn yc ⊢
  obtain ⟨⟨fmb, frb⟩, cb⟩ := rb
  simp only at y1 y2 ye yn yc ⊢
  subst yn
  simp only [sumLoop_nil, Nat.add_zero]
  intro hcr
  obtain ⟨k1, k2⟩ := hccb me fma fmb cb y1 x2 y2 hcr
  refine ⟨by rw [← xc, ← yc]; exact k1, fun h0 rn e1 e2 m1 m2 => ?_⟩
  have e1' : p1' = p1 := hpa _ _ _ xa a1
  have e2' : p2' = p2 := hpa _ _ _ ya a2
  subst e1' e2'
  refine k2 h0 rn e1 e2 ?_ ?_
  · rw [xe]; exact collectSels_complete s _ sels1 ([], []) rn e1 (Or.inr m1)
  · rw [ye]; exact collectSels_complete s _ sels2 ([], []) rn e2 (Or.inr m2)

/-- **the search is complete** on documents without fragment spreads whose parent-type routes agree -/
theorem search_complete_sf (h7 : fx.v7 = true) (hns : NoSpreads d) (hpa : ParentsAgree s d) : ∀ fuel,
    CFind s fx d fuel ∧ CCb s fx d fuel ∧ CSs s fx d fuel := by
  intro fuel
  induction fuel with
  | zero =>
    refine ⟨?_, ?_, ?_⟩
    · intro pme f1 f2 c _ _ _ h; simp [findConflict] at h
    · intro me fm1 fm2 c _ _ _ h; simp [conflictsBetween] at h
    · intro me p1 id1 sels1 p2 id2 sels2 c _ _ _ _ _ h; simp [betweenSubselections] at h
  | succ fuel ih =>
    obtain ⟨i1, i2, i3⟩ := ih
    obtain ⟨j1, _, _, _, _⟩ := search_sound s fx d h7 fuel
    exact ⟨step_cfind s fx d hns hpa fuel i3, step_ccb s fx d fuel j1 i1, step_css s fx d hns hpa fuel i2⟩

end
end PyGql.Validate

/-
  THE MEMOISED SEARCH NEVER LOSES A REPORT, part 7: postcondition of `find_conflicts_within_selection_set` with the
  memoised search - a `WithinCertM` for the selection set.
-/
import PyGqlModel.Lemmas.ValidateOverlapMPost6
namespace PyGql.Validate
open PyGql PyGql.Validate.Spec

theorem withinM_post (s : SchemaD) (fx : Fixes) (d : Doc) (h7 : fx.v7 = true) (hpa : ParentsAgree s d) (hw : WfIds d)
    (fuel : Nat)
    (p : Option String) (i : Nat) (sels : List Sel) (c : OCtx) (hc : CI s d c) (h1 : SelSet d i sels) (h2 : Adm s d i p)
    (hcr : (withinSelectionSetM s fx fuel p i sels c).2.crash = none) :
    GPM s d c (withinSelectionSetM s fx fuel p i sels c) (fun M => WithinCertM s d M i p sels) := by
  obtain ⟨sf, _, sff, sfr, _⟩ := searchM_sound s fx d h7 fuel
  obtain ⟨ef, _, efr, _, eff⟩ := postM_all s fx d h7 hpa hw fuel
  obtain ⟨_, _, _, _, kff⟩ := cmp_framesM s fx h7 fuel
  revert hcr
  simp only [withinSelectionSetM]
  obtain ⟨x1, x2, _⟩ := ff_set s d hc h1 h2
  obtain ⟨p', xa, xe⟩ := ff_eq s d p i sels c hc.cache h2
  have xs := fun g => ff_spreads_complete s p i sels c g
  have xf := ff_frame s p i sels c
  have xfk := ff_keysM s p i sels c
  obtain ⟨_, xsnd, _, _⟩ := fieldsAndFragments_sound s d p i sels c hc.cache h2
  generalize fieldsAndFragments s p i sels c = ra at x1 x2 xe xs xf xfk xsnd ⊢
  obtain ⟨⟨fm, fr⟩, ca⟩ := ra
  simp only at x1 x2 xe xs xf xfk xsnd ⊢
  have e' : p' = p := hpa _ _ _ xa h2
  subst e'
  intro hcr
  have cm : ∀ rn e, CollD s p' sels rn e → e ∈ AL.getD fm rn [] := fun rn e h => by
    rw [xe]; exact collectSels_complete s _ sels ([], []) rn e (Or.inr h)
  have hfm : ∀ sels' q rn e, SelSet d i sels' → Adm s d i q → CollD s q sels' rn e → e ∈ AL.getD fm rn [] :=
    fun sels' q rn e hs ha hc => by
      have := wf_selSet_unique hw hs h1; subst this
      rw [hpa _ _ _ ha h2] at hc; exact cm rn e hc
  -- CI along the way
  have ci0 : CI s d (sumLoop fm (fun x c => sumLoop (pairsOf x.2) (fun y c =>
      (if (findConflictM s fx fuel false y.1 y.2 c).1 = true then 1 else 0,
       (findConflictM s fx fuel false y.1 y.2 c).2)) c) ca).2 :=
    (sumLoop_spec fm _ (CI s d) (fun _ => True) (fun q hq c hc =>
      ⟨(sumLoop_spec (pairsOf q.2) _ (CI s d) (fun _ => True) (fun y hy c hc =>
        ⟨(sf false y.1 y.2 c hc (x2 q hq _ (mem_pairsOf hy).1) (x2 q hq _ (mem_pairsOf hy).2)).1, fun _ => trivial⟩) c hc).1,
       fun _ => trivial⟩) ca x1).1
  have ci1 : CI s d (withFreshCmp (fun c => sumLoop fr
      (fun g c => betweenFieldsAndFragmentM s fx fuel false i fm g c) c)
      (sumLoop fm (fun x c => sumLoop (pairsOf x.2) (fun y c =>
        (if (findConflictM s fx fuel false y.1 y.2 c).1 = true then 1 else 0,
         (findConflictM s fx fuel false y.1 y.2 c).2)) c) ca).2).2 :=
    (withFreshCmp_spec s d _ True (fun c hc => ⟨(sumLoop_spec fr _ (CI s d) (fun _ => True)
      (fun g _ c hc => ⟨(sff false i fm g c hc x2).1, fun _ => trivial⟩) c hc).1, fun _ => trivial⟩) _ ci0).1
  -- phase 3: pairs of fragments
  have g2 := sumLoop_gpM (pairsOf fr) (fun y c => betweenFragmentsM s fx fuel false (some y.1) (some y.2) c) (CI s d)
    (fun y M => CovM M false y.1 y.2)
    (fun y _ c hc => ⟨(sfr false (some y.1) (some y.2) c hc).1,
      fun h => (efr false (some y.1) (some y.2) c hc h).imp (fun M _ r => r y.1 y.2 rfl rfl)⟩) _ ci1 hcr
  -- phase 2: fields against fragments, one traversal
  have hcr1 := g2.crash
  unfold withFreshCmp at hcr1 g2
  simp only at hcr1 g2
  generalize hr0 : (sumLoop fm (fun x c => sumLoop (pairsOf x.2) (fun y c =>
        (if (findConflictM s fx fuel false y.1 y.2 c).1 = true then 1 else 0,
         (findConflictM s fx fuel false y.1 y.2 c).2)) c) ca) = r0 at ci0 hcr1 g2 ⊢
  obtain ⟨lx, _, gl⟩ := sumLoop_namesM fr (fun g c => betweenFieldsAndFragmentM s fx fuel false i fm g c)
    (fun c => CI s d c ∧ CmpOK d c i false)
    (fun M _ n => FCov d M false i n)
    (fun g hg c hc => ⟨⟨(sff false i fm g c hc.1 x2).1, cmpOK_frame s fx d h7 fuel false i fm g c hc.1 x2 hc.2⟩,
      kff false i fm g c,
      fun h => eff false i fm g c hc.1 x2 hfm hc.2 h⟩)
    { r0.2 with cmp := [] } ⟨ci0.cmp _, fun _ h => nomatch h⟩ hcr1
  have g1 : GPM s d r0.2 ((sumLoop fr (fun g c => betweenFieldsAndFragmentM s fx fuel false i fm g c)
        { r0.2 with cmp := [] }).1,
      { (sumLoop fr (fun g c => betweenFieldsAndFragmentM s fx fuel false i fm g c) { r0.2 with cmp := [] }).2 with
        cmp := r0.2.cmp })
      (fun M => ∀ g ∈ fr, FCov d M false i g) := by
    have ga : GPM s d r0.2 (sumLoop fr (fun g c => betweenFieldsAndFragmentM s fx fuel false i fm g c)
        { r0.2 with cmp := [] }) _ := gl.pre (c := r0.2) rfl (fun k hk => hk) (fun _ M _ _ k hk => Or.inl hk)
    refine (ga.post (c' := { (sumLoop fr (fun g c => betweenFieldsAndFragmentM s fx fuel false i fm g c)
      { r0.2 with cmp := [] }).2 with cmp := r0.2.cmp }) rfl).imp (fun M _ r g hg => ?_)
    rcases r _ (fun _ h => h) g (lx g hg) with h | h
    · cases h
    · exact h
  -- phase 1: the fields of the set, pairwise
  have g0 : GPM s d ca r0 (fun M => ∀ q ∈ fm, ∀ y ∈ pairsOf q.2, CertM s d M false y.1 y.2) := by
    rw [← hr0] at g1 ⊢
    refine sumLoop_gpM fm _ (CI s d) (fun q M => ∀ y ∈ pairsOf q.2, CertM s d M false y.1 y.2) (fun q hq c hc => ?_) ca x1 ?_
    · refine ⟨(sumLoop_spec (pairsOf q.2) _ (CI s d) (fun _ => True) (fun y hy c hc =>
        ⟨(sf false y.1 y.2 c hc (x2 q hq _ (mem_pairsOf hy).1) (x2 q hq _ (mem_pairsOf hy).2)).1, fun _ => trivial⟩) c hc).1,
        fun h => sumLoop_gpM (pairsOf q.2) _ (CI s d) (fun y M => CertM s d M false y.1 y.2) (fun y hy c hc => ?_) c hc h⟩
      have hE1 := x2 q hq _ (mem_pairsOf hy).1
      have hE2 := x2 q hq _ (mem_pairsOf hy).2
      exact ⟨(sf false y.1 y.2 c hc hE1 hE2).1, fun h => ef false y.1 y.2 c hc hE1 hE2 h⟩
    · exact g1.crash
  refine (((g0.seq g1).seq g2).pre (by rw [xf.2.2.1]) (fun k hk => by rw [xfk]; exact hk)
    (fun _ M _ _ k hk => Or.inl (by rw [xfk] at hk; exact hk))).imp (fun M _ r => ?_)
  obtain ⟨⟨r0', r1'⟩, r2'⟩ := r
  refine ⟨fun rn e1 e2 h1 h2 hne => ?_, fun g hg => r1' g (xs g hg),
    fun g1 g2 hg1 hg2 => ?_⟩
  · have m1 := cm rn e1 h1
    have m2 := cm rn e2 h2
    rcases AL.getD_cases fm rn [] with e | e
    · rw [e] at m1; cases m1
    · rcases mem_pairsOf_or m1 m2 with h | h | h
      · exact Or.inl (r0' _ e _ h)
      · exact Or.inr (r0' _ e _ h)
      · exact absurd h hne
  · rcases mem_pairsOf_or (xs g1 hg1) (xs g2 hg2) with h | h | h
    · exact Or.inl (r2' _ h)
    · exact Or.inr (r2' _ h)
    · exact Or.inl (Or.inr (Or.inr (Or.inl h)))
end PyGql.Validate

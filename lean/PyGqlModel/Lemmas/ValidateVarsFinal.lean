/-
  The collector after the whole walk (`finalVC`), its look-ups in terms of the declarative notions of
  `Spec/ValidSpecVars.lean`, and the three `leave_document` verdicts as specification clauses.
-/
import PyGqlModel.Lemmas.ValidateVarsDoc
import PyGqlModel.Lemmas.ValidateVarsErr2
namespace PyGql.Validate
open PyGql PyGql.Validate.Spec

/-- the collector when `leave_document` starts -/
def finalVC (fx : Fixes) (s : SchemaD) (d : Doc) : VC := d.defs.foldl (fun cc x => defEffect fx s x cc) {}

theorem finalVC_sem (fx : Fixes) (s : SchemaD) (d : Doc) :
    (finalVC fx s d).sem = Sem.run fx (docEvs s d) ({} : VC).sem :=
  (sem_defEffects fx s d.defs {} ⟨rfl, rfl, rfl⟩).1

theorem finalVC_wf (fx : Fixes) (s : SchemaD) (d : Doc) : (finalVC fx s d).WFall :=
  wfall_defEffects fx s d.defs VC.wfall_empty

theorem final_osp (fx : Fixes) (s : SchemaD) (d : Doc) (o g : String) :
    g ∈ (finalVC fx s d).sem.osp o ↔ OpSpreads d o g := by
  rw [finalVC_sem, run_osp, docEvs_spread_op]
  simp [VC.sem, AL.getD, AL.get?_nil]

theorem final_fsp (fx : Fixes) (s : SchemaD) (d : Doc) (f g : String) :
    g ∈ (finalVC fx s d).sem.fsp f ↔ FragSpreads d f g ∧ g ≠ f := by
  rw [finalVC_sem, run_fsp, docEvs_spread_frag]
  simp [VC.sem, AL.getD, AL.get?_nil]

theorem final_ouseK (fx : Fixes) (s : SchemaD) (d : Doc) (o x : String) :
    (finalVC fx s d).sem.ouseK o x = true ↔ UsedDirectly d o x := by
  rw [finalVC_sem, run_ouseK, docEvs_useK_op]
  simp [VC.sem, AL.getD, AL.get?_nil, AL.has]

theorem final_fuseK (fx : Fixes) (s : SchemaD) (d : Doc) (f x : String) :
    (finalVC fx s d).sem.fuseK f x = true ↔ FragUses d f x := by
  rw [finalVC_sem, run_fuseK, docEvs_useK_frag]
  simp [VC.sem, AL.getD, AL.get?_nil, AL.has]

theorem final_ouse (fx : Fixes) (h3 : fx.v3 = true) (s : SchemaD) (d : Doc) (o x : String) (u : Usage) :
    u ∈ (finalVC fx s d).sem.ouse o x ↔ ∃ df ∈ d.defs, df.opKey? = some o ∧ (x, u) ∈ defUsages s df := by
  rw [finalVC_sem, run_ouse fx h3, docEvs_use_op]
  simp [VC.sem, AL.getD, AL.get?_nil]

theorem final_fuse (fx : Fixes) (h3 : fx.v3 = true) (s : SchemaD) (d : Doc) (f x : String) (u : Usage) :
    u ∈ (finalVC fx s d).sem.fuse f x ↔ ∃ df ∈ d.defs, df.fragName? = some f ∧ (x, u) ∈ defUsages s df := by
  rw [finalVC_sem, run_fuse fx h3, docEvs_use_frag]
  simp [VC.sem, AL.getD, AL.get?_nil]

theorem final_dfn (fx : Fixes) (s : SchemaD) (d : Doc) (o x : String) :
    (finalVC fx s d).sem.dfn o x = varDefFor d o x := by
  rw [finalVC_sem, run_dfn, ← docEvs_dfn s d o x]
  rfl

/-- the recorded fragment-to-fragment spreads leave self-spreads out; reachability is the same -/
theorem final_reach (fx : Fixes) (s : SchemaD) (d : Doc) (f g : String) :
    VC.Reach (finalVC fx s d).fragFrags f g ↔ FragReach d f g := by
  constructor
  · intro h
    induction h with
    | refl a => exact .refl a
    | step h1 _ ih => exact .step ((final_fsp fx s d _ _).mp h1).1 ih
  · intro h
    induction h with
    | refl a => exact .refl a
    | @step a b c h1 _ ih =>
      by_cases hb : b = a
      · subst hb; exact ih
      · exact .step ((final_fsp fx s d a b).mpr ⟨h1, hb⟩) ih

theorem flat_osp (fx : Fixes) (h4 : fx.v4 = true) (s : SchemaD) (d : Doc) (o g : String) :
    g ∈ ((finalVC fx s d).flatten fx).sem.osp o ↔ OpReaches d o g := by
  rw [flatten_osp fx h4, OpReaches]
  constructor
  · rintro ⟨f, hf, hr⟩; exact ⟨f, (final_osp fx s d o f).mp hf, (final_reach fx s d f g).mp hr⟩
  · rintro ⟨f, hf, hr⟩; exact ⟨f, (final_osp fx s d o f).mpr hf, (final_reach fx s d f g).mpr hr⟩

/-! ### the three verdicts -/

theorem undefined_final (fx : Fixes) (h4 : fx.v4 = true) (s : SchemaD) (d : Doc) :
    ((finalVC fx s d).flatten fx).undefinedErrors = 0 ↔ Spec.noUndefinedVariables d := by
  rw [undefined_zero_iff _ (flatten_wfall fx h4 (finalVC_wf fx s d))]
  obtain ⟨e1, _, e3, _, e5⟩ := flatten_sem fx h4 (finalVC fx s d)
  simp only [e1, e3, e5, flat_osp fx h4, final_fuseK, final_ouseK, final_dfn, varDefFor_isSome]
  unfold Spec.noUndefinedVariables UsedIn
  constructor
  · rintro ⟨h1, h2⟩ o x (hu | ⟨f, hf, hx⟩)
    · exact h2 o x hu
    · exact h1 o f x hf hx
  · intro h
    exact ⟨fun o f x hf hx => h o x (Or.inr ⟨f, hf, hx⟩), fun o x hu => h o x (Or.inl hu)⟩

theorem unused_final (fx : Fixes) (h4 : fx.v4 = true) (s : SchemaD) (d : Doc) :
    ((finalVC fx s d).flatten fx).unusedErrors = 0 ↔ Spec.noUnusedVariables d := by
  rw [unused_zero_iff _ (flatten_wfall fx h4 (finalVC_wf fx s d))]
  obtain ⟨e1, _, e3, _, e5⟩ := flatten_sem fx h4 (finalVC fx s d)
  simp only [e1, e3, e5, flat_osp fx h4, final_fuseK, final_ouseK, final_dfn, varDefFor_isSome]
  rfl

theorem usageBad_false_iff (s : SchemaD) (vd : VarDef) (u : Usage) :
    VC.usageBad s vd u = false ↔ usageAllowed s vd u := by
  unfold VC.usageBad usageAllowed
  cases hu : u.inputType with
  | none => simp
  | some it =>
    cases ht : typeFromAst s vd.type with
    | none => simp
    | some vt =>
      simp only [Option.some.injEq, forall_eq']
      cases it with
      | nonNull inner =>
        cases hn : vt.isNonNull with
        | true => simp
        | false =>
          simp only [VarDef.hasNonNullDefault]
          cases hd : vd.default with
          | none => cases u.locDefault <;> cases isSubtype s vt inner <;> simp
          | some dv => cases dv <;> cases u.locDefault <;> cases isSubtype s vt inner <;> simp
      | named n => cases vt.isNonNull <;> simp
      | list l => cases vt.isNonNull <;> simp

theorem position_final (fx : Fixes) (h3 : fx.v3 = true) (h4 : fx.v4 = true) (s : SchemaD) (d : Doc) :
    ((finalVC fx s d).flatten fx).positionErrors s = 0 ↔ Spec.variablesInAllowedPosition s d := by
  rw [position_zero_iff _ _ (flatten_wfall fx h4 (finalVC_wf fx s d))]
  obtain ⟨e1, e2, _, e4, _⟩ := flatten_sem fx h4 (finalVC fx s d)
  simp only [e1, e2, e4, flat_osp fx h4, final_fuse fx h3, final_ouse fx h3, final_dfn, usageBad_false_iff]
  rfl

end PyGql.Validate

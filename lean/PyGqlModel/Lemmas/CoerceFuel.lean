/-
  C07 — fuel: (a) results that are not "out of fuel" do not change when more fuel is given (stability);
  (b) generic facts about the four loops. The sufficiency bound itself is in Props/C07_fuel.lean.
-/
import PyGqlModel.Lemmas.Coerce

set_option linter.unusedSimpArgs false
set_option linter.unusedVariables false

namespace PyGql.Coerce
open PyGql

/-- the result is not the artefact "recursion budget exhausted" -/
def NoFuel {α : Type} (r : Except Err α) : Prop := r ≠ .error .fuel

/-! ### the loops never invent a fuel error -/

theorem mapEC_noFuel {α β : Type} {f : α → Except Err β} : ∀ (l : List α), (∀ x, x ∈ l → NoFuel (f x)) → NoFuel (mapEC f l) := by
  intro l
  induction l with
  | nil => intro _; simp [mapEC, NoFuel]
  | cons x xs ih =>
    intro h
    have hx := h x List.mem_cons_self
    have ih' := ih (fun y hy => h y (List.mem_cons_of_mem _ hy))
    unfold NoFuel at *
    simp only [mapEC]
    cases hfx : f x with
    | error e => cases e <;> simp_all <;> (cases hr : mapEC f xs <;> simp_all)
    | ok y => cases hr : mapEC f xs <;> simp_all

theorem mapE_noFuel {α β : Type} {f : α → Except Err β} : ∀ (l : List α), (∀ x, x ∈ l → NoFuel (f x)) → NoFuel (mapE f l) := by
  intro l
  induction l with
  | nil => intro _; simp [mapE, NoFuel]
  | cons x xs ih =>
    intro h
    have hx := h x List.mem_cons_self
    have ih' := ih (fun y hy => h y (List.mem_cons_of_mem _ hy))
    unfold NoFuel at *
    simp only [mapE]
    cases hfx : f x with
    | error e => simp_all
    | ok y => cases hr : mapE f xs <;> simp_all

theorem fieldLoopC_noFuel {α : Type} {get : String → Option α} {rec : Ty → α → R} :
    ∀ (fs : List InField), (∀ f, f ∈ fs → ∀ v, get f.name = some v → NoFuel (rec f.type v)) → NoFuel (fieldLoopC get rec fs) := by
  intro fs
  induction fs with
  | nil => intro _; simp [fieldLoopC, NoFuel]
  | cons f fs ih =>
    intro h
    have hf := h f List.mem_cons_self
    have ih' := ih (fun g hg => h g (List.mem_cons_of_mem _ hg))
    unfold NoFuel at *
    simp only [fieldLoopC]
    cases hg : get f.name with
    | none =>
      cases hd : f.default with
      | some d => cases hr : fieldLoopC get rec fs <;> simp_all
      | none => cases hn : f.type.isNonNull <;> simp_all <;> (cases hr : fieldLoopC get rec fs <;> simp_all)
    | some v =>
      have hv := hf v hg
      cases hrv : rec f.type v with
      | error e => cases e <;> simp_all <;> (cases hr : fieldLoopC get rec fs <;> simp_all)
      | ok pv => cases hr : fieldLoopC get rec fs <;> simp_all

theorem fieldLoop_noFuel {α : Type} {get : String → Option α} {rec : Ty → α → R} :
    ∀ (fs : List InField), (∀ f, f ∈ fs → ∀ v, get f.name = some v → NoFuel (rec f.type v)) → NoFuel (fieldLoop get rec fs) := by
  intro fs
  induction fs with
  | nil => intro _; simp [fieldLoop, NoFuel]
  | cons f fs ih =>
    intro h
    have hf := h f List.mem_cons_self
    have ih' := ih (fun g hg => h g (List.mem_cons_of_mem _ hg))
    unfold NoFuel at *
    simp only [fieldLoop]
    cases hg : get f.name with
    | none =>
      cases hd : f.default with
      | some d => cases hr : fieldLoop get rec fs <;> simp_all
      | none => cases hn : f.type.isNonNull <;> simp_all
    | some v =>
      have hv := hf v hg
      cases hrv : rec f.type v with
      | error e => simp_all
      | ok pv => cases hr : fieldLoop get rec fs <;> simp_all

/-! ### a recursive callee that agrees wherever the old one did not run out of fuel changes nothing -/

theorem mapEC_congr {α β : Type} {f g : α → Except Err β} (hfg : ∀ x, NoFuel (f x) → g x = f x) :
    ∀ (l : List α), NoFuel (mapEC f l) → mapEC g l = mapEC f l := by
  intro l
  induction l with
  | nil => intro _; rfl
  | cons x xs ih =>
    intro h
    unfold NoFuel at *
    simp only [mapEC] at h ⊢
    cases hfx : f x with
    | error e =>
      cases e with
      | fuel => simp [hfx] at h
      | internal => rw [hfg x (by simp [hfx])]; simp [hfx]
      | coercion =>
        rw [hfg x (by simp [hfx])]
        simp only [hfx] at h ⊢
        have : mapEC f xs ≠ .error .fuel := by
          intro hc; simp [hc] at h
        rw [ih this]
    | ok y =>
      rw [hfg x (by simp [hfx])]
      simp only [hfx] at h ⊢
      have : mapEC f xs ≠ .error .fuel := by
        intro hc; simp [hc] at h
      rw [ih this]

theorem mapE_congr {α β : Type} {f g : α → Except Err β} (hfg : ∀ x, NoFuel (f x) → g x = f x) :
    ∀ (l : List α), NoFuel (mapE f l) → mapE g l = mapE f l := by
  intro l
  induction l with
  | nil => intro _; rfl
  | cons x xs ih =>
    intro h
    unfold NoFuel at *
    simp only [mapE] at h ⊢
    cases hfx : f x with
    | error e =>
      cases e with
      | fuel => simp [hfx] at h
      | internal => rw [hfg x (by simp [hfx])]; simp [hfx]
      | coercion => rw [hfg x (by simp [hfx])]; simp [hfx]
    | ok y =>
      rw [hfg x (by simp [hfx])]
      simp only [hfx] at h ⊢
      have : mapE f xs ≠ .error .fuel := by
        intro hc; simp [hc] at h
      rw [ih this]

theorem fieldLoopC_congr {α : Type} {get : String → Option α} {rec rec' : Ty → α → R}
    (hrr : ∀ t v, NoFuel (rec t v) → rec' t v = rec t v) :
    ∀ (fs : List InField), NoFuel (fieldLoopC get rec fs) → fieldLoopC get rec' fs = fieldLoopC get rec fs := by
  intro fs
  induction fs with
  | nil => intro _; rfl
  | cons f fs ih =>
    intro h
    unfold NoFuel at *
    simp only [fieldLoopC] at h ⊢
    cases hg : get f.name with
    | none =>
      simp only [hg] at h ⊢
      cases hd : f.default with
      | some d =>
        simp only [hd] at h ⊢
        have : fieldLoopC get rec fs ≠ .error .fuel := by intro hc; simp [hc] at h
        rw [ih this]
      | none =>
        simp only [hd] at h ⊢
        cases hn : f.type.isNonNull with
        | true =>
          simp only [hn, if_true] at h ⊢
          have : fieldLoopC get rec fs ≠ .error .fuel := by intro hc; simp [hc] at h
          rw [ih this]
        | false =>
          simp only [hn] at h ⊢
          exact ih (by simpa using h)
    | some v =>
      simp only [hg] at h ⊢
      cases hrv : rec f.type v with
      | error e =>
        cases e with
        | fuel => simp [hrv] at h
        | internal => rw [hrr _ _ (by simp [hrv])]; simp [hrv]
        | coercion =>
          rw [hrr _ _ (by simp [hrv])]
          simp only [hrv] at h ⊢
          have : fieldLoopC get rec fs ≠ .error .fuel := by intro hc; simp [hc] at h
          rw [ih this]
      | ok pv =>
        rw [hrr _ _ (by simp [hrv])]
        simp only [hrv] at h ⊢
        have : fieldLoopC get rec fs ≠ .error .fuel := by intro hc; simp [hc] at h
        rw [ih this]

theorem fieldLoop_congr {α : Type} {get : String → Option α} {rec rec' : Ty → α → R}
    (hrr : ∀ t v, NoFuel (rec t v) → rec' t v = rec t v) :
    ∀ (fs : List InField), NoFuel (fieldLoop get rec fs) → fieldLoop get rec' fs = fieldLoop get rec fs := by
  intro fs
  induction fs with
  | nil => intro _; rfl
  | cons f fs ih =>
    intro h
    unfold NoFuel at *
    simp only [fieldLoop] at h ⊢
    cases hg : get f.name with
    | none =>
      simp only [hg] at h ⊢
      cases hd : f.default with
      | some d =>
        simp only [hd] at h ⊢
        have : fieldLoop get rec fs ≠ .error .fuel := by intro hc; simp [hc] at h
        rw [ih this]
      | none =>
        simp only [hd] at h ⊢
        cases hn : f.type.isNonNull with
        | true => simp [hn]
        | false =>
          simp only [hn] at h ⊢
          exact ih (by simpa using h)
    | some v =>
      simp only [hg] at h ⊢
      cases hrv : rec f.type v with
      | error e =>
        cases e with
        | fuel => simp [hrv] at h
        | internal => rw [hrr _ _ (by simp [hrv])]; simp [hrv]
        | coercion => rw [hrr _ _ (by simp [hrv])]; simp [hrv]
      | ok pv =>
        rw [hrr _ _ (by simp [hrv])]
        simp only [hrv] at h ⊢
        have : fieldLoop get rec fs ≠ .error .fuel := by intro hc; simp [hc] at h
        rw [ih this]

end PyGql.Coerce

namespace PyGql.Coerce
open PyGql

/-! ### stability of `coerce_value` and `value_from_ast` under more fuel -/

theorem coerceCore_congr {reg : Reg} {rec rec' : Ty → JV → R} (hrr : ∀ t v, NoFuel (rec t v) → rec' t v = rec t v)
    (t : Ty) (v : JV) (h : NoFuel (coerceCore reg rec t v)) : coerceCore reg rec' t v = coerceCore reg rec t v := by
  unfold coerceCore at h ⊢
  split
  · rfl
  · rename_i hnull
    simp only [hnull, if_false] at h
    cases t with
    | nonNull t' => rfl
    | list t' =>
      simp only [coerceListValue] at h ⊢
      cases v with
      | list l =>
        simp only at h ⊢
        have : NoFuel (mapEC (rec t') l) := by
          intro hc; simp [hc, NoFuel] at h
        rw [mapEC_congr (hrr t') l this]
      | null => simp [JV.isNull] at hnull
      | bool b => simp only at h ⊢; rw [hrr _ _ (by intro hc; simp [hc, NoFuel] at h)]
      | int n => simp only at h ⊢; rw [hrr _ _ (by intro hc; simp [hc, NoFuel] at h)]
      | float a => simp only at h ⊢; rw [hrr _ _ (by intro hc; simp [hc, NoFuel] at h)]
      | str a => simp only at h ⊢; rw [hrr _ _ (by intro hc; simp [hc, NoFuel] at h)]
      | obj kvs => simp only at h ⊢; rw [hrr _ _ (by intro hc; simp [hc, NoFuel] at h)]
    | named n =>
      simp only at h ⊢
      cases hk : reg.get? n with
      | none => rfl
      | some k =>
        simp only [hk] at h ⊢
        cases k with
        | input fs =>
          simp only [coerceInputObject] at h ⊢
          cases v with
          | obj kvs =>
            simp only at h ⊢
            have : NoFuel (fieldLoopC (fun k => lookupLast k kvs) rec fs) := by
              intro hc; simp [hc, NoFuel] at h
            rw [fieldLoopC_congr hrr fs this]
          | _ => rfl
        | _ => rfl

/-- **stability (variable route).** More fuel never changes a result that was not "out of fuel". -/
theorem coerceValue_stable (reg : Reg) : ∀ (fuel : Nat) (ty : Ty) (v : JV),
    NoFuel (coerceValue reg fuel ty v) → coerceValue reg (fuel + 1) ty v = coerceValue reg fuel ty v := by
  intro fuel
  induction fuel with
  | zero => intro ty v h; simp [coerceValue, NoFuel] at h
  | succ fuel ih =>
    intro ty v h
    simp only [coerceValue] at h ⊢
    split
    · rfl
    · rename_i hc
      simp only [hc, if_false] at h
      exact coerceCore_congr (fun t x hx => ih t x hx) _ _ h

theorem coerceValue_stable_add (reg : Reg) (fuel k : Nat) (ty : Ty) (v : JV) (h : NoFuel (coerceValue reg fuel ty v)) :
    coerceValue reg (fuel + k) ty v = coerceValue reg fuel ty v := by
  induction k with
  | zero => rfl
  | succ k ih =>
    have : NoFuel (coerceValue reg (fuel + k) ty v) := by rw [ih]; exact h
    rw [← Nat.add_assoc, coerceValue_stable reg (fuel + k) ty v this, ih]

theorem vfaCore_congr {vars : Option (List (String × PV))} {reg : Reg} {rec rec' : Ty → Lit → R} (hrr : ∀ t l, NoFuel (rec t l) → rec' t l = rec t l)
    (t : Ty) (l : Lit) (h : NoFuel (vfaCore vars reg rec t l)) : vfaCore vars reg rec' t l = vfaCore vars reg rec t l := by
  unfold vfaCore at h ⊢
  split
  · rfl
  · rename_i hnull
    simp only [hnull, if_false] at h
    cases t with
    | nonNull t' => rfl
    | list t' =>
      cases l with
      | list items =>
        simp only at h ⊢
        have : NoFuel (mapE (rec t') items) := by
          intro hc; simp [hc, NoFuel] at h
        rw [mapE_congr (hrr t') items this]
      | null => simp [Lit.isNull] at hnull
      | int n => simp only at h ⊢; rw [hrr _ _ (by intro hc; simp [hc, NoFuel] at h)]
      | float a => simp only at h ⊢; rw [hrr _ _ (by intro hc; simp [hc, NoFuel] at h)]
      | str a => simp only at h ⊢; rw [hrr _ _ (by intro hc; simp [hc, NoFuel] at h)]
      | bool a => simp only at h ⊢; rw [hrr _ _ (by intro hc; simp [hc, NoFuel] at h)]
      | enum a => simp only at h ⊢; rw [hrr _ _ (by intro hc; simp [hc, NoFuel] at h)]
      | obj a => simp only at h ⊢; rw [hrr _ _ (by intro hc; simp [hc, NoFuel] at h)]
      | var a => simp only at h ⊢; rw [hrr _ _ (by intro hc; simp [hc, NoFuel] at h)]
    | named n =>
      simp only at h ⊢
      cases hk : reg.get? n with
      | none => rfl
      | some k =>
        simp only [hk] at h ⊢
        cases k with
        | input fs =>
          cases l with
          | obj lkvs =>
            simp only [extractInputObject] at h ⊢
            have : NoFuel (fieldLoop (fun k => lookupLast k lkvs) rec fs) := by
              intro hc; simp [hc, NoFuel] at h
            rw [fieldLoop_congr hrr fs this]
          | _ => rfl
        | _ => rfl

/-- **stability (literal route)** -/
theorem valueFromAst_stable (reg : Reg) (vars : Option (List (String × PV))) : ∀ (fuel : Nat) (ty : Ty) (l : Lit),
    NoFuel (valueFromAst reg vars fuel ty l) → valueFromAst reg vars (fuel + 1) ty l = valueFromAst reg vars fuel ty l := by
  intro fuel
  induction fuel with
  | zero => intro ty l h; simp [valueFromAst, NoFuel] at h
  | succ fuel ih =>
    intro ty l h
    cases l with
    | var x => simp [valueFromAst]
    | _ =>
      simp only [valueFromAst] at h ⊢
      split
      · rfl
      · rename_i hc
        simp only [hc, if_false] at h
        exact vfaCore_congr (fun t x hx => ih t x hx) _ _ h

theorem valueFromAst_stable_add (reg : Reg) (vars : Option (List (String × PV))) (fuel k : Nat) (ty : Ty) (l : Lit)
    (h : NoFuel (valueFromAst reg vars fuel ty l)) :
    valueFromAst reg vars (fuel + k) ty l = valueFromAst reg vars fuel ty l := by
  induction k with
  | zero => rfl
  | succ k ih =>
    have : NoFuel (valueFromAst reg vars (fuel + k) ty l) := by rw [ih]; exact h
    rw [← Nat.add_assoc, valueFromAst_stable reg vars (fuel + k) ty l this, ih]

end PyGql.Coerce

/-
  C07 — helper lemmas about the coercion model (no Mathlib needed).
-/
import PyGqlModel.Spec.Coerce

set_option linter.unusedSimpArgs false
set_option linter.unusedVariables false

namespace PyGql.Coerce
open PyGql PyGql.Generated.Scalars

/-- THE obligation tied to the source: the translated range test of `coerce_int` accepts exactly the
    closed signed 32-bit interval. Re-checked whenever `MIN_INT`, `MAX_INT` or the comparison operators change. -/
theorem intInRange_iff (n : Int) : intInRange n = true ↔ InRange32 n := by
  unfold intInRange InRange32 MIN_INT MAX_INT
  constructor <;> intro h <;> simp at h ⊢ <;> omega

theorem rangeChecked_ok {n : Int} {r pv : PV} (h : rangeChecked n r = .ok pv) : pv = r ∧ InRange32 n := by
  unfold rangeChecked at h
  split at h
  · rename_i hr
    exact ⟨by cases h; rfl, (intInRange_iff n).1 hr⟩
  · cases h

theorem mapE_ok_forall {α β : Type} {f : α → Except Err β} {P : β → Prop} :
    ∀ {l : List α} {r : List β}, mapE f l = .ok r → (∀ x, x ∈ l → ∀ y, f x = .ok y → P y) → ∀ y, y ∈ r → P y := by
  intro l
  induction l with
  | nil => intro r h _ y hy; simp [mapE] at h; subst h; cases hy
  | cons x xs ih =>
    intro r h hf y hy
    simp only [mapE] at h
    split at h
    · cases h
    · rename_i y0 hy0
      split at h
      · cases h
      · rename_i ys hys
        cases h
        cases hy with
        | head => exact hf x (List.mem_cons_self) _ hy0
        | tail _ hmem => exact ih hys (fun x' hx' => hf x' (List.mem_cons_of_mem _ hx')) y hmem

theorem getValue_mem {vs : List (String × PV)} {s : String} {pv : PV} (h : getValue vs s = .ok pv) :
    ∃ p, p ∈ vs ∧ p.2 = pv ∧ p.1 = s := by
  unfold getValue at h
  split at h
  · rename_i p hp
    cases h
    have := List.find?_some hp
    exact ⟨p, List.mem_of_find?_eq_some hp, rfl, by simpa using this⟩
  · cases h

theorem getValue_unknown {vs : List (String × PV)} {s : String} (h : ∀ p, p ∈ vs → p.1 ≠ s) :
    getValue vs s = .error .coercion := by
  unfold getValue
  split
  · rename_i p hp
    have h1 := List.mem_of_find?_eq_some hp
    have h2 := List.find?_some hp
    exact absurd (by simpa using h2) (h p h1)
  · rfl

theorem stripNN_of_not_nonNull {t : Ty} (h : t.isNonNull = false) : stripNN t = t := by
  cases t <;> simp_all [stripNN, Ty.isNonNull]

theorem wf_nonNull {t : Ty} (h : (Ty.nonNull t).wf = true) : t.isNonNull = false ∧ t.wf = true := by
  simp [Ty.wf] at h; exact h

theorem wf_list {t : Ty} (h : (Ty.list t).wf = true) : t.wf = true := by
  simpa [Ty.wf] using h

/-- the field loop produces a dict that conforms to the declared fields -/
theorem fieldLoop_sound {α : Type} {reg : Reg} {get : String → Option α} {rec : Ty → α → R} :
    ∀ {fs : List InField} {r : List (String × PV)},
      (∀ f, f ∈ fs → ∀ v pv, get f.name = some v → rec f.type v = .ok pv → Conforms reg f.type pv) →
      (∀ f, f ∈ fs → ∀ d, f.default = some d → Conforms reg f.type d) →
      fieldLoop get rec fs = .ok r → ConformsFields reg fs r := by
  intro fs
  induction fs with
  | nil => intro r _ _ h; simp [fieldLoop] at h; subst h; exact .nil
  | cons f fs ih =>
    intro r hrec hdef h
    have ih' := fun r => @ih r (fun f' hf' => hrec f' (List.mem_cons_of_mem _ hf')) (fun f' hf' => hdef f' (List.mem_cons_of_mem _ hf'))
    simp only [fieldLoop] at h
    split at h
    · rename_i hget
      split at h
      · rename_i d hd
        split at h
        · cases h
        · rename_i r' hr'
          cases h
          exact .present (hdef f List.mem_cons_self d hd) (ih' _ hr')
      · rename_i hd
        split at h
        · cases h
        · rename_i hnn
          exact .absent hd (by simpa using hnn) (ih' _ h)
    · rename_i v hget
      split at h
      · cases h
      · rename_i pv hpv
        split at h
        · cases h
        · rename_i r' hr'
          cases h
          exact .present (hrec f List.mem_cons_self v pv hget hpv) (ih' _ hr')

end PyGql.Coerce

/-
  C07 — helper lemmas about the coercion model (no Mathlib needed).
-/
import PyGqlModel.Spec.Coerce

set_option linter.unusedSimpArgs false
set_option linter.unusedVariables false

namespace PyGql.Coerce
open PyGql PyGql.Generated.Scalars

/-- THE obligation tied to the source: the translated range test of `coerce_int` accepts exactly the
    closed signed 32-bit interval. Re-checked whenever `MIN_INT`, `MAX_INT` or the comparison operators change. -/
theorem intInRange_iff (n : Int) : intInRange n = true ↔ InRange32 n := by
  unfold intInRange InRange32 MIN_INT MAX_INT
  constructor <;> intro h <;> simp at h ⊢ <;> omega

/-- The second obligation tied to the source: the finiteness guard of `coerce_float` (as re-extracted on every run)
    refuses the infinities and NaN and nothing else. Dropping or weakening the guard in scalars.py re-opens it. -/
theorem floatGuard_spec (c : FCls) : floatGuardRejects c = true ↔ c ≠ .finite := by
  cases c <;> simp [floatGuardRejects, floatRejectsFinite, floatRejectsInf, floatRejectsNaN]

/-- The third obligation tied to the source: the `if / elif` chain of `coerce_int` that `coerceInt` mirrors branch by
    branch (int — which includes bool —, float with `int(x)` guarded against OverflowError / ValueError (fix A6), None, str,
    anything else), and the OverflowError handler of `coerce_float`. Re-ordering, dropping or changing a branch re-opens it. -/
theorem coerceInt_branches_spec :
    coerceIntBranches = [("int", "int()"), ("float", "int-if-equal-guarded"), ("None", "raise"),
                         ("str", "int10-else-integral-float"), ("else", "raise")] ∧ floatCatchesOverflow = true := by decide

/-- The guard of `value_from_ast` in front of `parse_literal`, as re-extracted: only the specified scalars and custom scalars
    WITHOUT their own `parse_literal` are restricted to scalar literals. -/
theorem scalarLiteralGuard_spec : customOwnParseLiteralTakesAnyLiteral = true := by decide

/-- The stand-in scalar's `parse` (`_transparent`), as observed on the live `default_scalar` on every run: it refuses non-finite
    floats at the top level and nested in lists / dicts, and nothing finite. -/
theorem defaultScalarParse_spec : defaultScalarParseRejectsNonFinite = true := by decide

/-- The stand-in scalar's `parse_literal` is `_untyped_literal` itself, which receives the variables (fix C06-H7): a Variable inside a
    structured literal stands for its value (None when absent). Read off the shape of `default_scalar`'s `parse_literal=` on every run. -/
theorem standInLiteral_spec : standInLiteralSeesVariables = true := by decide

theorem floatChecked_ok {c : FCls} {r pv : PV} (h : floatChecked c r = .ok pv) : pv = r ∧ c = .finite := by
  unfold floatChecked at h
  split at h
  · cases h
  · rename_i hg
    refine ⟨by cases h; rfl, ?_⟩
    cases c
    · rfl
    · exact absurd ((floatGuard_spec .inf).2 (by simp)) hg
    · exact absurd ((floatGuard_spec .nan).2 (by simp)) hg

theorem floatChecked_nonfinite {c : FCls} (hc : c ≠ .finite) (r : PV) : floatChecked c r = .error .coercion := by
  simp [floatChecked, (floatGuard_spec c).2 hc]

theorem floatChecked_finite (r : PV) : floatChecked .finite r = .ok r := by
  have : floatGuardRejects .finite = false := by
    cases h : floatGuardRejects .finite
    · rfl
    · exact absurd rfl ((floatGuard_spec .finite).1 h)
  simp [floatChecked, this]

theorem rangeChecked_ok {n : Int} {r pv : PV} (h : rangeChecked n r = .ok pv) : pv = r ∧ InRange32 n := by
  unfold rangeChecked at h
  split at h
  · rename_i hr
    exact ⟨by cases h; rfl, (intInRange_iff n).1 hr⟩
  · cases h

theorem mapE_ok_forall {α β : Type} {f : α → Except Err β} {P : β → Prop} :
    ∀ {l : List α} {r : List β}, mapE f l = .ok r → (∀ x, x ∈ l → ∀ y, f x = .ok y → P y) → ∀ y, y ∈ r → P y := by
  intro l
  induction l with
  | nil => intro r h _ y hy; simp [mapE] at h; subst h; cases hy
  | cons x xs ih =>
    intro r h hf y hy
    simp only [mapE] at h
    split at h
    · cases h
    · rename_i y0 hy0
      split at h
      · cases h
      · rename_i ys hys
        cases h
        cases hy with
        | head => exact hf x (List.mem_cons_self) _ hy0
        | tail _ hmem => exact ih hys (fun x' hx' => hf x' (List.mem_cons_of_mem _ hx')) y hmem

theorem mapEC_ok_iff {α β : Type} (f : α → Except Err β) : ∀ (l : List α) (r : List β), mapEC f l = .ok r ↔ mapE f l = .ok r := by
  intro l
  induction l with
  | nil => intro r; simp [mapEC, mapE]
  | cons x xs ih =>
    intro r
    cases hx : f x with
    | error e =>
      cases e <;> simp only [mapEC, mapE, hx] <;> try simp
      cases mapEC f xs <;> simp
    | ok y =>
      simp only [mapEC, mapE, hx]
      cases hxs : mapEC f xs with
      | error e =>
        cases hxs' : mapE f xs with
        | error e' => simp
        | ok ys => exact absurd ((ih ys).2 hxs') (by simp [hxs])
      | ok ys => simp [(ih ys).1 hxs]

theorem fieldLoopC_ok_iff {α : Type} (get : String → Option α) (rec : Ty → α → R) :
    ∀ (fs : List InField) (r : List (String × PV)), fieldLoopC get rec fs = .ok r ↔ fieldLoop get rec fs = .ok r := by
  intro fs
  induction fs with
  | nil => intro r; simp [fieldLoopC, fieldLoop]
  | cons f fs ih =>
    intro r
    have tail : ∀ (g : List (String × PV) → List (String × PV)),
        (match fieldLoopC get rec fs with | .error e => Except.error e | .ok r' => .ok (g r')) = .ok r ↔
        (match fieldLoop get rec fs with | .error e => Except.error e | .ok r' => .ok (g r')) = .ok r := by
      intro g
      cases hC : fieldLoopC get rec fs with
      | error e =>
        cases hL : fieldLoop get rec fs with
        | error e' => simp
        | ok r' => exact absurd ((ih r').2 hL) (by simp [hC])
      | ok r' => simp [(ih r').1 hC]
    cases hg : get f.name with
    | none =>
      cases hd : f.default with
      | some d => simp only [fieldLoopC, fieldLoop, hg, hd]; exact tail _
      | none =>
        cases hn : f.type.isNonNull with
        | true => simp only [fieldLoopC, fieldLoop, hg, hd, hn]; cases fieldLoopC get rec fs <;> simp
        | false => simp only [fieldLoopC, fieldLoop, hg, hd, hn]; simpa using ih r
    | some v =>
      cases hv : rec f.type v with
      | error e =>
        cases e <;> simp only [fieldLoopC, fieldLoop, hg, hv] <;> try simp
        cases fieldLoopC get rec fs <;> simp
      | ok pv => simp only [fieldLoopC, fieldLoop, hg, hv]; exact tail _

theorem getValue_mem {vs : List (String × PV)} {s : String} {pv : PV} (h : getValue vs s = .ok pv) :
    ∃ p, p ∈ vs ∧ p.2 = pv ∧ p.1 = s := by
  unfold getValue at h
  split at h
  · rename_i p hp
    cases h
    have := List.find?_some hp
    exact ⟨p, List.mem_of_find?_eq_some hp, rfl, by simpa using this⟩
  · cases h

theorem getValue_unknown {vs : List (String × PV)} {s : String} (h : ∀ p, p ∈ vs → p.1 ≠ s) :
    getValue vs s = .error .coercion := by
  unfold getValue
  split
  · rename_i p hp
    have h1 := List.mem_of_find?_eq_some hp
    have h2 := List.find?_some hp
    exact absurd (by simpa using h2) (h p h1)
  · rfl

theorem stripNN_of_not_nonNull {t : Ty} (h : t.isNonNull = false) : stripNN t = t := by
  cases t <;> simp_all [stripNN, Ty.isNonNull]

theorem wf_nonNull {t : Ty} (h : (Ty.nonNull t).wf = true) : t.isNonNull = false ∧ t.wf = true := by
  simp [Ty.wf] at h; exact h

theorem wf_list {t : Ty} (h : (Ty.list t).wf = true) : t.wf = true := by
  simpa [Ty.wf] using h

theorem conformsFields_keys_sublist {reg : Reg} : ∀ {fs : List InField} {kvs : List (String × PV)},
    ConformsFields reg fs kvs → (kvs.map (fun p => p.1)).Sublist (fs.map (fun f => f.pyName))
  | _, _, .nil => List.Sublist.slnil
  | _, _, .present _ h => by
    simp only [List.map_cons]
    exact (conformsFields_keys_sublist h).cons_cons _
  | _, _, .absent _ _ h => by
    simp only [List.map_cons]
    exact (conformsFields_keys_sublist h).cons _

private theorem dictSet_fresh (acc : List (String × PV)) (k : String) (v : PV)
    (h : acc.any (fun q => q.1 == k) = false) : dictSet acc k v = acc ++ [(k, v)] := by
  simp [dictSet, h]

private theorem foldl_dictSet_fresh : ∀ (r acc : List (String × PV)), ((acc ++ r).map (fun p => p.1)).Nodup →
    r.foldl (fun d p => dictSet d p.1 p.2) acc = acc ++ r := by
  intro r
  induction r with
  | nil => intro acc _; simp
  | cons p r ih =>
    intro acc h
    have hfresh : acc.any (fun q => q.1 == p.1) = false := by
      rw [List.any_eq_false]
      intro q hq hqe
      simp only [List.map_append, List.map_cons] at h
      have := (List.nodup_append.1 h).2.2 q.1 (List.mem_map_of_mem hq) p.1 List.mem_cons_self
      exact this (by simpa using hqe)
    rw [List.foldl_cons, dictSet_fresh acc p.1 p.2 hfresh]
    have := ih (acc ++ [(p.1, p.2)]) (by simpa [List.append_assoc] using h)
    simpa [List.append_assoc] using this

/-- with pairwise distinct keys the sequence of assignments IS the dict (nothing collides) -/
theorem dictOfAssignments_eq {kvs : List (String × PV)} (h : (kvs.map (fun p => p.1)).Nodup) : dictOfAssignments kvs = kvs := by
  unfold dictOfAssignments
  simpa using foldl_dictSet_fresh kvs [] (by simpa using h)

theorem dictOfAssignments_conforms {reg : Reg} {fs : List InField} {kvs : List (String × PV)}
    (hd : (fs.map (fun f => f.pyName)).Nodup) (h : ConformsFields reg fs kvs) : dictOfAssignments kvs = kvs :=
  dictOfAssignments_eq ((conformsFields_keys_sublist h).nodup hd)

/-- the field loop produces a dict that conforms to the declared fields -/
theorem fieldLoop_sound {α : Type} {reg : Reg} {get : String → Option α} {rec : Ty → α → R} :
    ∀ {fs : List InField} {r : List (String × PV)},
      (∀ f, f ∈ fs → ∀ v pv, get f.name = some v → rec f.type v = .ok pv → Conforms reg f.type pv) →
      (∀ f, f ∈ fs → ∀ d, f.default = some d → Conforms reg f.type d) →
      fieldLoop get rec fs = .ok r → ConformsFields reg fs r := by
  intro fs
  induction fs with
  | nil => intro r _ _ h; simp [fieldLoop] at h; subst h; exact .nil
  | cons f fs ih =>
    intro r hrec hdef h
    have ih' := fun r => @ih r (fun f' hf' => hrec f' (List.mem_cons_of_mem _ hf')) (fun f' hf' => hdef f' (List.mem_cons_of_mem _ hf'))
    simp only [fieldLoop] at h
    split at h
    · rename_i hget
      split at h
      · rename_i d hd
        split at h
        · cases h
        · rename_i r' hr'
          cases h
          exact .present (hdef f List.mem_cons_self d hd) (ih' _ hr')
      · rename_i hd
        split at h
        · cases h
        · rename_i hnn
          exact .absent hd (by simpa using hnn) (ih' _ h)
    · rename_i v hget
      split at h
      · cases h
      · rename_i pv hpv
        split at h
        · cases h
        · rename_i r' hr'
          cases h
          exact .present (hrec f List.mem_cons_self v pv hget hpv) (ih' _ hr')

end PyGql.Coerce

/-
  C19 — invariants of `collect_fields_untyped` and `_nesting_levels` = canonical spec levels.
-/
import PyGqlModel.Lemmas.Depth

set_option linter.unusedVariables false
set_option linter.unusedSimpArgs false

namespace PyGql.Depth.Lemmas
open PyGql.Depth PyGql.DepthSpec

/-! ### grouped fields: maximum of a measure, invariants -/

def gMax (h : Fld → Nat) : Grouped → Nat
  | [] => 0
  | (_, fs) :: rest => max (maxL (fs.map h)) (gMax h rest)

/-- every group is non-empty and all its fields satisfy `P` -/
def GInv (P : Fld → Prop) (g : Grouped) : Prop := ∀ kv ∈ g, kv.2 ≠ [] ∧ ∀ f ∈ kv.2, P f

theorem gMax_extendKey (h : Fld → Nat) (g : Grouped) (key : String) (fs : List Fld) :
    gMax h (extendKey g key fs) = max (gMax h g) (maxL (fs.map h)) := by
  induction g with
  | nil => simp [extendKey, gMax]
  | cons kv rest ih =>
    obtain ⟨k, xs⟩ := kv
    simp only [extendKey]
    split
    · simp only [gMax, List.map_append, maxL_append]; omega
    · simp only [gMax, ih]; omega

theorem gMax_merge (h : Fld → Nat) (g into : Grouped) :
    gMax h (merge g into) = max (gMax h into) (gMax h g) := by
  unfold merge
  induction g generalizing into with
  | nil => simp [gMax]
  | cons kv rest ih =>
    simp only [List.foldl_cons, ih, gMax_extendKey, gMax]; omega

theorem GInv_nil (P : Fld → Prop) : GInv P [] := by intro kv h; cases h

theorem GInv_extendKey (P : Fld → Prop) (g : Grouped) (key : String) (fs : List Fld)
    (hg : GInv P g) (hne : fs ≠ []) (hfs : ∀ f ∈ fs, P f) : GInv P (extendKey g key fs) := by
  induction g with
  | nil =>
    intro kv h
    simp [extendKey] at h
    subst h
    exact ⟨hne, hfs⟩
  | cons kv rest ih =>
    obtain ⟨k, xs⟩ := kv
    have hhead := hg (k, xs) (by simp)
    have hrest : GInv P rest := fun kv h => hg kv (by simp [h])
    simp only [extendKey]
    split
    · intro kv h
      simp at h
      rcases h with h | h
      · subst h
        refine ⟨by simp [hhead.1], ?_⟩
        intro f hf
        simp at hf
        rcases hf with hf | hf
        · exact hhead.2 f hf
        · exact hfs f hf
      · exact hrest kv h
    · intro kv h
      simp at h
      rcases h with h | h
      · subst h; exact hhead
      · exact ih hrest kv h

theorem GInv_merge (P : Fld → Prop) (g into : Grouped) (hg : GInv P g) (hi : GInv P into) :
    GInv P (merge g into) := by
  unfold merge
  induction g generalizing into with
  | nil => simpa using hi
  | cons kv rest ih =>
    simp only [List.foldl_cons]
    have hhead := hg kv (by simp)
    exact ih _ (fun kv h => hg kv (by simp [h])) (GInv_extendKey P into kv.1 kv.2 hi hhead.1 hhead.2)

/-! ### the `_seen_fragments` set -/

section
variable (frags : List Frag) (vars : Vars) (w : String → Nat)

/-- canonical levels already accounted for by the seen fragments -/
def FM (s : List String) : Nat := maxL (s.map (fragLv frags vars w))

theorem fragLv_le_FM {s : List String} {n : String} (h : s.contains n = true) :
    fragLv frags vars w n ≤ FM frags vars w s := by
  apply le_maxL
  simp at h
  exact List.mem_map_of_mem h

theorem FM_setAdd (s : List String) (n : String) :
    FM frags vars w (setAdd s n) ≤ max (FM frags vars w s) (fragLv frags vars w n) := by
  unfold setAdd
  split
  · omega
  · simp only [FM, List.map_append, maxL_append, List.map_cons, List.map_nil, maxL]; omega

theorem seenAfterCall_cases (mine callee : List String) :
    seenAfterCall mine callee = mine ∨ seenAfterCall mine callee = callee := by
  unfold seenAfterCall
  split
  · exact Or.inr rfl
  · split
    · exact Or.inl rfl
    · exact Or.inr rfl

theorem FM_seenAfterCall (mine callee : List String) :
    FM frags vars w (seenAfterCall mine callee) ≤ max (FM frags vars w mine) (FM frags vars w callee) := by
  rcases seenAfterCall_cases mine callee with h | h <;> rw [h] <;> omega

/-! ### `collect_fields_untyped` -/

/-- measure of a collected field: the levels it contributes -/
def fLv (f : Fld) : Nat := 1 + cL frags vars w f.sub

/-- what a recursive call of potential < K delivers -/
def FldOk (K : Nat) (f : Fld) : Prop := potL w f.sub + 1 ≤ K ∧ boundL vars f.sub = true

/-- specification of one (recursive) call of `collect_fields_untyped` -/
def CollectOk (K : Nat) (sels : List Sel) (seen : List String) (r : Except Err CState) : Prop :=
  ∃ G S', r = .ok (G, S') ∧
    gMax (fLv frags vars w) G ≤ cL frags vars w sels ∧
    cL frags vars w sels ≤ max (gMax (fLv frags vars w) G) (FM frags vars w seen) ∧
    FM frags vars w S' ≤ max (gMax (fLv frags vars w) G) (FM frags vars w seen) ∧
    GInv (FldOk vars w K) G

theorem FldOk_mono {K K' : Nat} (h : K ≤ K') (f : Fld) (hf : FldOk vars w K f) : FldOk vars w K' f :=
  ⟨by have := hf.1; omega, hf.2⟩

theorem GInv_mono {P Q : Fld → Prop} (h : ∀ f, P f → Q f) {g : Grouped} (hg : GInv P g) : GInv Q g :=
  fun kv hkv => ⟨(hg kv hkv).1, fun f hf => h f ((hg kv hkv).2 f hf)⟩

theorem loop_ok (hc : Consistent frags w) (hfb : ∀ f ∈ frags, boundL vars f.sels = true)
    (K : Nat) (rec : List Sel → List String → Except Err CState)
    (hrec : ∀ ss sn, potL w ss < K → boundL vars ss = true → CollectOk frags vars w K ss sn (rec ss sn)) :
    ∀ (sels : List Sel) (G : Grouped) (S : List String) (a b : Nat),
      potL w sels ≤ K → boundL vars sels = true →
      gMax (fLv frags vars w) G ≤ a → a ≤ max (gMax (fLv frags vars w) G) b →
      FM frags vars w S ≤ max (gMax (fLv frags vars w) G) b → GInv (FldOk vars w K) G →
      ∃ G' S', loopM (collectStep rec frags vars) (G, S) sels = .ok (G', S') ∧
        gMax (fLv frags vars w) G' ≤ max a (cL frags vars w sels) ∧
        max a (cL frags vars w sels) ≤ max (gMax (fLv frags vars w) G') b ∧
        FM frags vars w S' ≤ max (gMax (fLv frags vars w) G') b ∧
        GInv (FldOk vars w K) G' := by
  intro sels
  induction sels with
  | nil =>
    intro G S a b _ _ h1 h2 h3 h4
    exact ⟨G, S, by simp [loopM], by simp [cL_nil]; omega, by simp [cL_nil]; omega, h3, h4⟩
  | cons s ss ih =>
    intro G S a b hp hb h1 h2 h3 h4
    rw [potL_cons] at hp
    rw [boundL_cons, Bool.and_eq_true] at hb
    rw [cL_cons]
    -- it suffices to show that one step re-establishes the hypotheses with a := max a (cLv s)
    suffices hstep : ∃ G1 S1, collectStep rec frags vars (G, S) s = .ok (G1, S1) ∧
        gMax (fLv frags vars w) G1 ≤ max a (cLv frags vars w s) ∧
        max a (cLv frags vars w s) ≤ max (gMax (fLv frags vars w) G1) b ∧
        FM frags vars w S1 ≤ max (gMax (fLv frags vars w) G1) b ∧
        GInv (FldOk vars w K) G1 by
      obtain ⟨G1, S1, e1, i1, i2, i3, i4⟩ := hstep
      obtain ⟨G', S', e', j1, j2, j3, j4⟩ := ih G1 S1 (max a (cLv frags vars w s)) b (by omega) hb.2 i1 i2 i3 i4
      refine ⟨G', S', ?_, by omega, by omega, j3, j4⟩
      simp only [loopM, e1, e']
    cases s with
    | field al n d sub =>
      simp only [boundSel, Bool.and_eq_true] at hb
      rw [pot_field] at hp
      simp only [collectStep, skipSelection_ok vars d hb.1.1, cLv_field frags vars w hc]
      cases hs : skipped vars d with
      | true => exact ⟨G, S, rfl, by simp; omega, by simp; omega, h3, h4⟩
      | false =>
        refine ⟨_, S, rfl, ?_, ?_, ?_, ?_⟩
        · simp [gMax_extendKey, maxL, fLv]; omega
        · simp [gMax_extendKey, maxL, fLv]; omega
        · simp [gMax_extendKey, maxL, fLv]; omega
        · apply GInv_extendKey _ _ _ _ h4 (by simp)
          intro f hf
          simp at hf
          subst hf
          exact ⟨by simp; omega, hb.1.2⟩
    | inline d ss' =>
      simp only [boundSel, Bool.and_eq_true] at hb
      rw [pot_inline] at hp
      simp only [collectStep, skipSelection_ok vars d hb.1.1, cLv_inline frags vars w hc]
      cases hs : skipped vars d with
      | true => exact ⟨G, S, rfl, by simp; omega, by simp; omega, h3, h4⟩
      | false =>
        obtain ⟨Gc, Sc, ec, c1, c2, c3, c4⟩ := hrec ss' S (by omega) hb.1.2
        simp only [ec]
        refine ⟨_, _, rfl, ?_, ?_, ?_, GInv_merge _ _ _ c4 h4⟩
        · simp [gMax_merge]; omega
        · simp [gMax_merge]; omega
        · have := FM_seenAfterCall frags vars w S Sc
          simp [gMax_merge]; omega
    | spread n d =>
      simp only [boundSel] at hb
      rw [pot_spread] at hp
      simp only [collectStep, skipSelection_ok vars d hb.1, cLv_spread frags vars w hc]
      cases hs : skipped vars d with
      | true => exact ⟨G, S, rfl, by simp; omega, by simp; omega, h3, h4⟩
      | false =>
        simp only [Bool.false_eq_true, if_false]
        cases hcont : S.contains n with
        | true =>
          have := fragLv_le_FM frags vars w hcont
          exact ⟨G, S, by simp, by first | omega | (simp; omega), by first | omega | (simp; omega), h3, h4⟩
        | false =>
          simp only [Bool.false_eq_true, if_false]
          cases hl : lookupFrag frags n with
          | none =>
            have : fragLv frags vars w n = 0 := by simp [fragLv, hl]
            exact ⟨G, S, rfl, by simp [this]; omega, by simp [this]; omega, h3, h4⟩
          | some fr =>
            have ⟨hm, hn⟩ := lookupFrag_some hl
            have hw := hc fr hm
            rw [hn] at hw
            have hfl : fragLv frags vars w n = cL frags vars w fr.sels := by simp [fragLv, hl]
            obtain ⟨Gc, Sc, ec, c1, c2, c3, c4⟩ := hrec fr.sels S (by omega) (hfb fr hm)
            simp only [ec]
            refine ⟨_, _, rfl, ?_, ?_, ?_, GInv_merge _ _ _ c4 h4⟩
            · simp [gMax_merge, hfl]; omega
            · simp [gMax_merge, hfl]; omega
            · have h5 := FM_setAdd frags vars w (seenAfterCall S Sc) n
              have h6 := FM_seenAfterCall frags vars w S Sc
              simp [gMax_merge]; omega

theorem collect_ok (hc : Consistent frags w) (hfb : ∀ f ∈ frags, boundL vars f.sels = true) :
    ∀ (K : Nat) (sels : List Sel) (seen : List String), potL w sels ≤ K → boundL vars sels = true →
      CollectOk frags vars w K sels seen (collectFieldsUntyped (K + 1) sels frags vars seen) := by
  intro K
  induction K with
  | zero =>
    intro sels seen hp hb
    have hrec : ∀ ss sn, potL w ss < 0 → boundL vars ss = true →
        CollectOk frags vars w 0 ss sn (collectFieldsUntyped 0 ss frags vars sn) := by
      intro ss sn h; omega
    obtain ⟨G', S', e, j1, j2, j3, j4⟩ :=
      loop_ok frags vars w hc hfb 0 _ hrec sels [] seen 0 (FM frags vars w seen) hp hb
        (by simp [gMax]) (by simp [gMax]) (by simp [gMax]) (GInv_nil _)
    have hun : collectFieldsUntyped (0 + 1) sels frags vars seen =
        loopM (collectStep (fun ss sn => collectFieldsUntyped 0 ss frags vars sn) frags vars) ([], seen) sels := rfl
    exact ⟨G', S', by rw [hun]; exact e, by omega, by omega, j3, j4⟩
  | succ K ih =>
    intro sels seen hp hb
    have hrec : ∀ ss sn, potL w ss < K + 1 → boundL vars ss = true →
        CollectOk frags vars w (K + 1) ss sn (collectFieldsUntyped (K + 1) ss frags vars sn) := by
      intro ss sn h hb'
      obtain ⟨G, S', e, c1, c2, c3, c4⟩ := ih ss sn (by omega) hb'
      exact ⟨G, S', e, c1, c2, c3, GInv_mono (FldOk_mono vars w (by omega)) c4⟩
    obtain ⟨G', S', e, j1, j2, j3, j4⟩ :=
      loop_ok frags vars w hc hfb (K + 1) _ hrec sels [] seen 0 (FM frags vars w seen) hp hb
        (by simp [gMax]) (by simp [gMax]) (by simp [gMax]) (GInv_nil _)
    have hun : collectFieldsUntyped (K + 1 + 1) sels frags vars seen =
        loopM (collectStep (fun ss sn => collectFieldsUntyped (K + 1) ss frags vars sn) frags vars) ([], seen) sels := rfl
    exact ⟨G', S', by rw [hun]; exact e, by omega, by omega, j3, j4⟩

/-! ### `_nesting_levels` -/

theorem cL_flatMap_sub (fs : List Fld) (hne : fs ≠ []) :
    1 + cL frags vars w (fs.flatMap (·.sub)) = maxL (fs.map (fLv frags vars w)) := by
  induction fs with
  | nil => exact absurd rfl hne
  | cons f rest ih =>
    cases rest with
    | nil => simp [cL_append, cL_nil, maxL, fLv]
    | cons g rest' =>
      have := ih (by simp)
      simp only [List.flatMap_cons, cL_append, List.map_cons, maxL, fLv] at this ⊢
      omega

theorem potL_flatMap_sub (K : Nat) (fs : List Fld) (h : ∀ f ∈ fs, FldOk vars w K f) :
    potL w (fs.flatMap (·.sub)) + 1 ≤ K ∨ fs = [] := by
  induction fs with
  | nil => right; rfl
  | cons f rest ih =>
    left
    have hf := (h f (by simp)).1
    rcases ih (fun g hg => h g (by simp [hg])) with h' | h'
    · simp only [List.flatMap_cons, potL_append]; omega
    · subst h'; simp [potL_append, potL_nil]; omega

theorem boundL_flatMap_sub (K : Nat) (fs : List Fld) (h : ∀ f ∈ fs, FldOk vars w K f) :
    boundL vars (fs.flatMap (·.sub)) = true := by
  induction fs with
  | nil => simp [boundL]
  | cons f rest ih =>
    simp only [List.flatMap_cons, boundL_append, Bool.and_eq_true]
    exact ⟨(h f (by simp)).2, ih (fun g hg => h g (by simp [hg]))⟩

theorem levelsLoop_ok (K : Nat) (rec : List Sel → Except Err Nat)
    (hrec : ∀ ss, potL w ss + 1 ≤ K → boundL vars ss = true → rec ss = .ok (cL frags vars w ss)) :
    ∀ (G : Grouped) (lv : Nat), GInv (FldOk vars w K) G →
      levelsLoop rec lv G = .ok (max lv (gMax (fLv frags vars w) G)) := by
  intro G
  induction G with
  | nil => intro lv _; simp [levelsLoop, gMax]
  | cons kv rest ih =>
    intro lv hg
    obtain ⟨k, fs⟩ := kv
    have hhead := hg (k, fs) (by simp)
    have hp := potL_flatMap_sub vars w K fs hhead.2
    have hb := boundL_flatMap_sub vars w K fs hhead.2
    rcases hp with hp | hp
    · simp only [levelsLoop, hrec _ hp hb]
      rw [ih _ (fun kv h => hg kv (by simp [h]))]
      rw [cL_flatMap_sub frags vars w fs hhead.1]
      simp only [gMax]
      congr 1
      omega
    · exact absurd hp hhead.1

theorem nestingLevels_ok (hc : Consistent frags w) (hfb : ∀ f ∈ frags, boundL vars f.sels = true) :
    ∀ (K : Nat) (sels : List Sel), potL w sels ≤ K → boundL vars sels = true →
      nestingLevels (K + 1) sels frags vars = .ok (cL frags vars w sels) := by
  intro K
  induction K with
  | zero =>
    intro sels hp hb
    obtain ⟨G, S', e, c1, c2, c3, c4⟩ := collect_ok frags vars w hc hfb 0 sels [] hp hb
    have hun : nestingLevels (0 + 1) sels frags vars =
        (match collectFieldsUntyped (0 + 1) sels frags vars [] with
         | .error e => .error e
         | .ok (collected, _) => levelsLoop (fun ss => nestingLevels 0 ss frags vars) 0 collected) := rfl
    rw [hun, e]
    show levelsLoop (fun ss => nestingLevels 0 ss frags vars) 0 G = _
    have hrec : ∀ ss, potL w ss + 1 ≤ 0 → boundL vars ss = true →
        nestingLevels 0 ss frags vars = .ok (cL frags vars w ss) := by intro ss h; omega
    rw [levelsLoop_ok frags vars w 0 _ hrec G 0 c4]
    simp [FM, maxL] at c2
    congr 1
    omega
  | succ K ih =>
    intro sels hp hb
    obtain ⟨G, S', e, c1, c2, c3, c4⟩ := collect_ok frags vars w hc hfb (K + 1) sels [] hp hb
    have hun : nestingLevels (K + 1 + 1) sels frags vars =
        (match collectFieldsUntyped (K + 1 + 1) sels frags vars [] with
         | .error e => .error e
         | .ok (collected, _) => levelsLoop (fun ss => nestingLevels (K + 1) ss frags vars) 0 collected) := rfl
    rw [hun, e]
    show levelsLoop (fun ss => nestingLevels (K + 1) ss frags vars) 0 G = _
    have hrec : ∀ ss, potL w ss + 1 ≤ K + 1 → boundL vars ss = true →
        nestingLevels (K + 1) ss frags vars = .ok (cL frags vars w ss) := by
      intro ss h hb'; exact ih ss (by omega) hb'
    rw [levelsLoop_ok frags vars w (K + 1) _ hrec G 0 c4]
    simp [FM, maxL] at c2
    congr 1
    omega

end

end PyGql.Depth.Lemmas

/-
  Renaming of VARIABLES (C06, `alpha_variables`), at the level of the MODEL OF THE CODE: `Vr.doc V d` renames every
  variable definition `$x` to `$(V.var x)` and every occurrence of a variable in a value (arguments of fields and of
  directives, default values, nested in list and object literals). 20 of the 26 rule visitors never read the NAME of a
  variable (they look at argument names, directive names, the shape of a literal, types): the run of any chain made of
  them is EQUAL, state by state, on the renamed document (`visitDocument_vr`) - for any `V`, injective or not.
  The rules that do read variable names: the four variable rules of 5.8, `OverlappingFieldsCanBeMerged` (it compares
  argument values), and - through its fragment table, which holds selections - `SingleFieldSubscriptions`, whose
  verdict is nevertheless unchanged (`rootKeysGo_vr`).
-/
import PyGqlModel.Validate.Chain
import PyGqlModel.Lemmas.ValidateAlias
namespace PyGql.Validate
open PyGql

structure Vr where
  var : String → String

namespace Vr
variable (V : Vr)

mutual
def value : Value → Value
  | .var x => .var (V.var x)
  | .list vs => .list (values vs)
  | .obj fs => .obj (objFields fs)
  | .int s => .int s
  | .float s => .float s
  | .str s => .str s
  | .bool b => .bool b
  | .null => .null
  | .enum s => .enum s
def values : List Value → List Value
  | [] => []
  | v :: vs => value v :: values vs
def objField : ObjField → ObjField
  | .mk n v => .mk n (value v)
def objFields : List ObjField → List ObjField
  | [] => []
  | f :: fs => objField f :: objFields fs
end

def arg (a : Arg) : Arg := { name := a.name, value := V.value a.value }
def dir (d : Dir) : Dir := { name := d.name, args := d.args.map V.arg }

mutual
def sel : Sel → Sel
  | .field al n args dirs hs id sub => .field al n (args.map V.arg) (dirs.map V.dir) hs id (selList sub)
  | .spread n dirs => .spread n (dirs.map V.dir)
  | .inline on dirs id sub => .inline on (dirs.map V.dir) id (selList sub)
def selList : List Sel → List Sel
  | [] => []
  | x :: xs => sel x :: selList xs
end

mutual
theorem hasVar_value : ∀ v : Value, (V.value v).hasVar = v.hasVar
  | .var x => rfl
  | .list vs => by simp only [value, Value.hasVar, hasVarL_values vs]
  | .obj fs => by simp only [value, Value.hasVar, hasVarF_objFields fs]
  | .int s => rfl
  | .float s => rfl
  | .str s => rfl
  | .bool b => rfl
  | .null => rfl
  | .enum s => rfl
theorem hasVarL_values : ∀ vs : List Value, Value.hasVarL (V.values vs) = Value.hasVarL vs
  | [] => rfl
  | v :: vs => by simp only [values, Value.hasVarL, hasVar_value v, hasVarL_values vs]
theorem hasVarF_objFields : ∀ fs : List ObjField, Value.hasVarF (V.objFields fs) = Value.hasVarF fs
  | [] => rfl
  | .mk n v :: fs => by simp only [objFields, objField, Value.hasVarF, hasVar_value v, hasVarF_objFields fs]
end

theorem dirs_const {ds : List Dir} (h : ds.all Dir.isConst = true) : (ds.map V.dir).all Dir.isConst = true := by
  rw [List.all_map]
  have : (Dir.isConst ∘ V.dir) = Dir.isConst := by
    funext d
    simp only [Function.comp, Dir.isConst, dir, List.all_map]
    congr 1
    funext a
    show (!(V.value a.value).hasVar) = !a.value.hasVar
    rw [hasVar_value]
  rw [this]; exact h

def varDef (v : VarDef) : VarDef :=
  { name := V.var v.name, type := v.type, default := v.default.map V.value, dirs := v.dirs.map V.dir,
    dirsConst := V.dirs_const v.dirsConst }

def defn : Def → Def
  | .op k nm vars dirs id sels => .op k nm (vars.map V.varDef) (dirs.map V.dir) id (V.selList sels)
  | .frag n on dirs id sels => .frag n on (dirs.map V.dir) id (V.selList sels)
  | .ts a b => .ts a b

def doc (d : Doc) : Doc := { defs := d.defs.map V.defn }

def node : Node → Node
  | .document d => .document (V.doc d)
  | .operation k nm vars dirs sels => .operation k nm (vars.map V.varDef) (dirs.map V.dir) (V.selList sels)
  | .fragmentDef n on dirs => .fragmentDef n on (dirs.map V.dir)
  | .tsDef => .tsDef
  | .varDef v => .varDef (V.varDef v)
  | .typeNode t => .typeNode t
  | .directive d => .directive (V.dir d)
  | .argument a => .argument (V.arg a)
  | .selectionSet id sels => .selectionSet id (V.selList sels)
  | .field n args dirs hs => .field n (args.map V.arg) (dirs.map V.dir) hs
  | .spread n dirs => .spread n (dirs.map V.dir)
  | .inline on dirs => .inline on (dirs.map V.dir)
  | .value v => .value (V.value v)
  | .objField n => .objField n

theorem selList_eq_map (l : List Sel) : V.selList l = l.map V.sel := by
  induction l with
  | nil => rfl
  | cons x xs ih => rw [selList, ih]; rfl

theorem objFields_eq_map (l : List ObjField) : V.objFields l = l.map V.objField := by
  induction l with
  | nil => rfl
  | cons x xs ih => rw [objFields, ih]; rfl

end Vr

/-- the rules whose STATE depends on the names of variables (or on values that contain them) -/
def Rule.readsVarNames : Rule → Bool
  | .uniqueVariableNames | .noUndefinedVariables | .noUnusedVariables | .variablesInAllowedPosition
  | .overlappingFieldsCanBeMerged | .singleFieldSubscriptions => true
  | _ => false

/-! ### what the var-blind rules read -/
section
variable (V : Vr)

theorem vr_arg_name (a : Arg) : (V.arg a).name = a.name := rfl
theorem vr_dir_name (d : Dir) : (V.dir d).name = d.name := rfl
theorem vr_dir_args (d : Dir) : (V.dir d).args = d.args.map V.arg := rfl

theorem vr_args_names (as : List Arg) : (as.map V.arg).map (·.name) = as.map (·.name) := by
  simp [List.map_map, Function.comp_def, vr_arg_name]
theorem vr_dirs_names (ds : List Dir) : (ds.map V.dir).map (·.name) = ds.map (·.name) := by
  simp [List.map_map, Function.comp_def, vr_dir_name]
theorem vr_objFields_names (fs : List ObjField) : (V.objFields fs).map (·.name) = fs.map (·.name) := by
  rw [V.objFields_eq_map, List.map_map]
  refine List.map_congr_left fun f _ => ?_
  cases f; rfl

theorem vr_args_filter_length (p : String → Bool) (as : List Arg) :
    ((as.map V.arg).filter fun a => p a.name).length = (as.filter fun a => p a.name).length := by
  rw [List.filter_map, List.length_map]; rfl

theorem vr_args_any (p : String → Bool) (as : List Arg) : (as.map V.arg).any (fun a => p a.name) = as.any fun a => p a.name := by
  simp [List.any_map, Function.comp_def, vr_arg_name]

theorem vr_isExecutable (x : Def) : (V.defn x).isExecutable = x.isExecutable := by cases x <;> rfl
theorem vr_isOp (x : Def) : (V.defn x).isOp = x.isOp := by cases x <;> rfl
theorem vr_isAnonOp (x : Def) : (V.defn x).isAnonOp = x.isAnonOp := by
  cases x with
  | op k nm => cases nm <;> rfl
  | _ => rfl

theorem vr_filter_length (p : Def → Bool) (hp : ∀ x, p (V.defn x) = p x) (l : List Def) :
    ((l.map V.defn).filter p).length = (l.filter p).length := by
  induction l with
  | nil => rfl
  | cons x xs ih => simp only [List.map_cons, List.filter_cons, hp]; split <;> simp [ih]

theorem vr_filter_any (p q : Def → Bool) (hp : ∀ x, p (V.defn x) = p x) (hq : ∀ x, q (V.defn x) = q x)
    (l : List Def) : ((l.map V.defn).filter p).any q = (l.filter p).any q := by
  induction l with
  | nil => rfl
  | cons x xs ih => simp only [List.map_cons, List.filter_cons, hp]; split <;> simp [ih, hq]

theorem vr_fragDefs_heads (d : Doc) :
    (fragDefs (V.doc d)).map (fun f => (f.1, f.2.1)) = (fragDefs d).map (fun f => (f.1, f.2.1)) := by
  obtain ⟨ds⟩ := d
  simp only [fragDefs, Vr.doc]
  induction ds with
  | nil => rfl
  | cons x xs ih => cases x <;> simp_all [Vr.defn]

theorem vr_fragDefs_names (d : Doc) : (fragDefs (V.doc d)).map (·.1) = (fragDefs d).map (·.1) := by
  have := congrArg (List.map Prod.fst) (vr_fragDefs_heads V d)
  simpa [List.map_map, Function.comp_def] using this

theorem vr_pfs_table (s : SchemaD) (d : Doc) (m : AL String) :
    ((fragDefs (V.doc d)).filter fun f => (typeFromAst s (.named f.2.1)).isSome).foldl (fun m f => AL.set m f.1 f.2.1) m =
    ((fragDefs d).filter fun f => (typeFromAst s (.named f.2.1)).isSome).foldl (fun m f => AL.set m f.1 f.2.1) m := by
  have key : ∀ (l : List (String × String × Nat × List Sel)) (m : AL String),
      (l.filter fun f => (typeFromAst s (.named f.2.1)).isSome).foldl (fun m f => AL.set m f.1 f.2.1) m =
      ((l.map fun f => (f.1, f.2.1)).filter fun p => (typeFromAst s (.named p.2)).isSome).foldl
        (fun m p => AL.set m p.1 p.2) m := by
    intro l
    induction l with
    | nil => intro m; rfl
    | cons x xs ih =>
      intro m
      simp only [List.map_cons, List.filter_cons]
      split <;> simp [ih]
  rw [key, key, vr_fragDefs_heads]

/-- `parse_literal` of a scalar looks at the kind of the literal, never inside a list or an object -/
theorem parseLiteralFails_obj (sc : String) (a b : List ObjField) :
    parseLiteralFails sc (.obj a) = parseLiteralFails sc (.obj b) := by
  unfold parseLiteralFails
  split
  · congr 1; split <;> first | rfl | simp_all
  · rfl

theorem checkScalar_obj (s : SchemaD) (ti : TI) (a b : List ObjField) :
    checkScalar s ti (.obj a) = checkScalar s ti (.obj b) := by
  unfold checkScalar
  simp only [parseLiteralFails_obj _ a b]

end

/-! ### one rule, one node -/

theorem enterRule_vr (V : Vr) (s : SchemaD) (fx : Fixes) (r : Rule) (hr : r.readsVarNames = false) (n : Node) (ti : TI)
    (st : RS) : enterRule s fx r (V.node n) ti st = enterRule s fx r n ti st := by
  cases n with
  | document d =>
    cases r with
    | executableDefinitions =>
      have h := vr_filter_length V (fun x => !x.isExecutable) (fun x => by simp only [vr_isExecutable]) d.defs
      simp only [Vr.node, enterRule, Vr.doc, h]
    | loneAnonymousOperation =>
      have h1 := vr_filter_length V (·.isOp) (vr_isOp V) d.defs
      have h2 := vr_filter_any V (·.isOp) (·.isAnonOp) (vr_isOp V) (vr_isAnonOp V) d.defs
      simp only [Vr.node, enterRule, Vr.doc, h1, h2]
    | knownFragmentNames =>
      have h := vr_fragDefs_names V d
      simp only [Vr.node, enterRule, h]
    | possibleFragmentSpreads =>
      have h := vr_pfs_table V s d st.pfsTypes
      simp only [Vr.node, enterRule, h]
    | singleFieldSubscriptions => exact absurd hr (by decide)
    | overlappingFieldsCanBeMerged => exact absurd hr (by decide)
    | _ => rfl
  | operation k nm vars dirs sels =>
    cases r <;> first
      | exact absurd hr (by decide)
      | rfl
      | (simp only [Vr.node, enterRule, vr_dirs_names])
  | fragmentDef name on dirs =>
    cases r <;> first
      | exact absurd hr (by decide)
      | rfl
      | (simp only [Vr.node, enterRule, vr_dirs_names])
  | directive d =>
    cases r <;> first
      | exact absurd hr (by decide)
      | rfl
      | (simp only [Vr.node, enterRule, vr_dir_name, vr_dir_args, vr_args_names]; done)
      | (simp only [Vr.node, enterRule, vr_dir_args]
         cases ti.directive with
         | none => rfl
         | some dd => simp only []; rw [vr_args_filter_length V (fun nm => !(dd.args.any (·.name == nm)))])
  | field name args dirs hs =>
    cases r <;> first
      | exact absurd hr (by decide)
      | rfl
      | (simp only [Vr.node, enterRule, vr_dirs_names, vr_args_names]; done)
      | (simp only [Vr.node, enterRule]
         cases ti.field with
         | none => rfl
         | some fd => simp only []; rw [vr_args_filter_length V (fun nm => !(fd.args.any (·.name == nm)))])
  | spread name dirs =>
    cases r <;> first
      | exact absurd hr (by decide)
      | rfl
      | (simp only [Vr.node, enterRule, vr_dirs_names])
  | inline on dirs =>
    cases r <;> first
      | exact absurd hr (by decide)
      | (cases on <;> rfl)
      | (cases on <;> simp only [Vr.node, enterRule, vr_dirs_names])
  | value v =>
    cases r <;> first
      | exact absurd hr (by decide)
      | (cases v <;> rfl)
      | (cases v with
         | obj fs =>
           simp only [Vr.node, Vr.value, enterRule, vr_objFields_names, checkScalar_obj s ti (V.objFields fs) fs]
         | _ => rfl)
  | selectionSet id sels => cases r <;> first | exact absurd hr (by decide) | rfl
  | varDef v =>
    cases r <;> first
      | exact absurd hr (by decide)
      | rfl
      | (simp only [Vr.node, enterRule, Vr.varDef, vr_dirs_names])
  | argument a => cases r <;> first | exact absurd hr (by decide) | rfl
  | _ => rfl

theorem leaveRule_vr (V : Vr) (s : SchemaD) (fx : Fixes) (r : Rule) (hr : r.readsVarNames = false) (n : Node) (ti : TI)
    (st : RS) : leaveRule s fx r (V.node n) ti st = leaveRule s fx r n ti st := by
  cases n with
  | directive d =>
    cases r <;> first
      | exact absurd hr (by decide)
      | rfl
      | (simp only [Vr.node, leaveRule, vr_dir_args]
         cases ti.directive with
         | none => rfl
         | some dd =>
           simp only []
           congr 2
           refine List.filter_congr fun a _ => ?_
           rw [vr_args_any V (fun nm => nm == a.name)])
  | field name args dirs hs =>
    cases r <;> first
      | exact absurd hr (by decide)
      | rfl
      | (simp only [Vr.node, leaveRule]
         cases ti.field with
         | none => rfl
         | some fd =>
           simp only []
           congr 2
           refine List.filter_congr fun a _ => ?_
           rw [vr_args_any V (fun nm => nm == a.name)])
  | value v => cases r <;> first | exact absurd hr (by decide) | (cases v <;> rfl)
  | inline on dirs => cases r <;> first | exact absurd hr (by decide) | (cases on <;> rfl)
  | document d => cases r <;> first | exact absurd hr (by decide) | rfl
  | operation => cases r <;> first | exact absurd hr (by decide) | rfl
  | fragmentDef => cases r <;> first | exact absurd hr (by decide) | rfl
  | varDef => cases r <;> first | exact absurd hr (by decide) | rfl
  | _ => cases r <;> rfl

theorem tiEnter_vr (V : Vr) (s : SchemaD) (n : Node) (t : TI) : tiEnter s (V.node n) t = tiEnter s n t := by
  cases n with
  | value v => cases v <;> rfl
  | _ => rfl
theorem tiLeave_vr (V : Vr) (n : Node) (t : TI) : tiLeave (V.node n) t = tiLeave n t := by
  cases n with
  | value v => cases v <;> rfl
  | _ => rfl

/-! ### the chain -/

theorem enterRules_vr (V : Vr) (c : Cfg) (n : Node) (ti : TI) (rules : List Rule)
    (h : ∀ r ∈ rules, r.readsVarNames = false) (rs : RS) :
    enterRules c (V.node n) ti rules rs = enterRules c n ti rules rs := by
  induction rules generalizing rs with
  | nil => rfl
  | cons r rest ih =>
    simp only [enterRules, enterRule_vr V c.schema c.fixes r (h r (List.mem_cons_self ..))]
    rw [ih (fun r' hr' => h r' (List.mem_cons_of_mem _ hr'))]

theorem raisedRules_vr (V : Vr) (c : Cfg) (n : Node) (ti : TI) (rules : List Rule)
    (h : ∀ r ∈ rules, r.readsVarNames = false) (rs : RS) :
    raisedRules c (V.node n) ti rules rs = raisedRules c n ti rules rs := by
  induction rules generalizing rs with
  | nil => rfl
  | cons r rest ih =>
    simp only [raisedRules, enterRule_vr V c.schema c.fixes r (h r (List.mem_cons_self ..))]
    split <;> simp [ih (fun r' hr' => h r' (List.mem_cons_of_mem _ hr'))]

theorem foldl_leave_vr (V : Vr) (c : Cfg) (n : Node) (ti : TI) (rules : List Rule)
    (h : ∀ r ∈ rules, r.readsVarNames = false) (rs : RS) :
    rules.foldl (fun rs r => leaveRule c.schema c.fixes r (V.node n) ti rs) rs =
      rules.foldl (fun rs r => leaveRule c.schema c.fixes r n ti rs) rs := by
  induction rules generalizing rs with
  | nil => rfl
  | cons r rest ih =>
    simp only [List.foldl_cons, leaveRule_vr V c.schema c.fixes r (h r (List.mem_cons_self ..))]
    exact ih (fun r' hr' => h r' (List.mem_cons_of_mem _ hr')) _

/-- a configuration none of whose rules reads variable names -/
def Cfg.VarBlind (c : Cfg) : Prop := ∀ r ∈ c.rules, r.readsVarNames = false

theorem enter_vr (V : Vr) (c : Cfg) (hc : c.VarBlind) (n : Node) (st : St) : enter c (V.node n) st = enter c n st := by
  simp only [enter, tiEnter_vr, enterRules_vr V c n _ c.rules hc]

theorem leave_vr (V : Vr) (c : Cfg) (hc : c.VarBlind) (n : Node) (st : St) : leave c (V.node n) st = leave c n st := by
  simp only [leave, tiLeave_vr]
  rw [foldl_leave_vr V c n _ c.rules.reverse (fun r hr => hc r (List.mem_reverse.mp hr))]

theorem leaveSkipped_vr (V : Vr) (c : Cfg) (hc : c.VarBlind) (n : Node) (st0 st1 : St) :
    leaveSkipped c (V.node n) st0 st1 = leaveSkipped c n st0 st1 := by
  simp only [leaveSkipped, tiLeave_vr, raisedRules_vr V c n _ c.rules hc]
  rw [foldl_leave_vr V c n _ _ (fun r hr => hc r ((List.mem_filter.mp (List.mem_reverse.mp hr)).1))]

theorem visitNode_vr (V : Vr) (c : Cfg) (hc : c.VarBlind) (n : Node) (body body' : St → St)
    (hb : ∀ st, body st = body' st) (st : St) : visitNode c (V.node n) body st = visitNode c n body' st := by
  simp only [visitNode, enter_vr V c hc, leaveSkipped_vr V c hc, leave_vr V c hc, hb]

mutual
theorem visitValue_vr (V : Vr) (c : Cfg) (hc : c.VarBlind) : ∀ (v : Value) (st : St),
    visitValue c (V.value v) st = visitValue c v st
  | .list vs, st => by
    rw [visitValue, visitValue]
    exact visitNode_vr V c hc (.value (.list vs)) _ _ (fun st' => visitValues_vr V c hc vs st') st
  | .obj fs, st => by
    rw [visitValue, visitValue]
    exact visitNode_vr V c hc (.value (.obj fs)) _ _ (fun st' => visitObjFields_vr V c hc fs st') st
  | .var x, st => by
    rw [visitValue, visitValue]; exact visitNode_vr V c hc (.value (.var x)) _ _ (fun _ => rfl) st
  | .int x, st => rfl
  | .float x, st => rfl
  | .str x, st => rfl
  | .bool x, st => rfl
  | .null, st => rfl
  | .enum x, st => rfl
theorem visitValues_vr (V : Vr) (c : Cfg) (hc : c.VarBlind) : ∀ (vs : List Value) (st : St),
    visitValues c (V.values vs) st = visitValues c vs st
  | [], st => rfl
  | v :: vs, st => by
    simp only [Vr.values, visitValues]
    rw [visitValue_vr V c hc v st, visitValues_vr V c hc vs]
theorem visitObjField_vr (V : Vr) (c : Cfg) (hc : c.VarBlind) : ∀ (f : ObjField) (st : St),
    visitObjField c (V.objField f) st = visitObjField c f st
  | .mk name v, st => by
    simp only [Vr.objField, visitObjField]
    exact visitNode_vr V c hc (.objField name) _ _ (fun st' => visitValue_vr V c hc v st') st
theorem visitObjFields_vr (V : Vr) (c : Cfg) (hc : c.VarBlind) : ∀ (fs : List ObjField) (st : St),
    visitObjFields c (V.objFields fs) st = visitObjFields c fs st
  | [], st => rfl
  | f :: fs, st => by
    simp only [Vr.objFields, visitObjFields]
    rw [visitObjField_vr V c hc f st, visitObjFields_vr V c hc fs]
end

theorem visitArguments_vr (V : Vr) (c : Cfg) (hc : c.VarBlind) (as : List Arg) (st : St) :
    visitArguments c (as.map V.arg) st = visitArguments c as st := by
  simp only [visitArguments, List.foldl_map]
  congr 1
  funext st a
  exact visitNode_vr V c hc (.argument a) _ _ (fun st' => visitValue_vr V c hc a.value st') st

theorem visitDirectives_vr (V : Vr) (c : Cfg) (hc : c.VarBlind) (ds : List Dir) (st : St) :
    visitDirectives c (ds.map V.dir) st = visitDirectives c ds st := by
  simp only [visitDirectives, List.foldl_map]
  congr 1
  funext st d
  exact visitNode_vr V c hc (.directive d) _ _ (fun st' => visitArguments_vr V c hc d.args st') st

mutual
theorem visitSel_vr (V : Vr) (c : Cfg) (hc : c.VarBlind) : ∀ (x : Sel) (st : St), visitSel c (V.sel x) st = visitSel c x st
  | .field al n args dirs hs id sub, st => by
    simp only [Vr.sel, visitSel]
    refine visitNode_vr V c hc (.field n args dirs hs) _ _ (fun st' => ?_) st
    simp only [visitArguments_vr V c hc, visitDirectives_vr V c hc]
    split
    · exact visitNode_vr V c hc (.selectionSet id sub) _ _ (visitSels_vr V c hc sub) _
    · rfl
  | .spread n dirs, st => by
    simp only [Vr.sel, visitSel]
    exact visitNode_vr V c hc (.spread n dirs) _ _ (fun st' => visitDirectives_vr V c hc dirs st') st
  | .inline on dirs id sub, st => by
    simp only [Vr.sel, visitSel]
    refine visitNode_vr V c hc (.inline on dirs) _ _ (fun st' => ?_) st
    simp only [visitDirectives_vr V c hc]
    exact visitNode_vr V c hc (.selectionSet id sub) _ _ (visitSels_vr V c hc sub) _
theorem visitSels_vr (V : Vr) (c : Cfg) (hc : c.VarBlind) : ∀ (xs : List Sel) (st : St),
    visitSels c (V.selList xs) st = visitSels c xs st
  | [], st => rfl
  | x :: xs, st => by
    simp only [Vr.selList, visitSels]
    rw [visitSel_vr V c hc x st, visitSels_vr V c hc xs]
end

theorem visitVarDef_vr (V : Vr) (c : Cfg) (hc : c.VarBlind) (v : VarDef) (st : St) :
    visitVarDef c (V.varDef v) st = visitVarDef c v st := by
  simp only [visitVarDef]
  refine visitNode_vr V c hc (.varDef v) _ _ (fun st' => ?_) st
  simp only [Vr.varDef, visitDirectives_vr V c hc]
  cases v.default with
  | none => rfl
  | some dv => simp only [Option.map_some, visitValue_vr V c hc]

theorem visitDef_vr (V : Vr) (c : Cfg) (hc : c.VarBlind) (x : Def) (st : St) :
    visitDef c (V.defn x) st = visitDef c x st := by
  cases x with
  | op k nm vars dirs id sels =>
    simp only [Vr.defn, visitDef]
    refine visitNode_vr V c hc (.operation k nm vars dirs sels) _ _ (fun st' => ?_) st
    simp only [List.foldl_map, visitVarDef_vr V c hc, visitDirectives_vr V c hc]
    exact visitNode_vr V c hc (.selectionSet id sels) _ _ (visitSels_vr V c hc sels) _
  | frag n on dirs id sels =>
    simp only [Vr.defn, visitDef]
    refine visitNode_vr V c hc (.fragmentDef n on dirs) _ _ (fun st' => ?_) st
    simp only [visitDirectives_vr V c hc]
    exact visitNode_vr V c hc (.selectionSet id sels) _ _ (visitSels_vr V c hc sels) _
  | ts a b => rfl

/-- **the run of a var-blind chain on the renamed document is the run on the document** -/
theorem visitDocument_vr (V : Vr) (c : Cfg) (hc : c.VarBlind) (d : Doc) (st : St) :
    visitDocument c (V.doc d) st = visitDocument c d st := by
  simp only [visitDocument]
  refine visitNode_vr V c hc (.document d) _ _ (fun st' => ?_) st
  simp only [Vr.doc, List.foldl_map, visitDef_vr V c hc]

/-! ### SingleFieldSubscriptions: its fragment table holds renamed selections, the collected response keys are the same -/

mutual
theorem selSize_vr (V : Vr) : ∀ x : Sel, selSize (V.sel x) = selSize x
  | .field .. => by simp only [Vr.sel, selSize, selsSize_vr]
  | .spread .. => rfl
  | .inline .. => by simp only [Vr.sel, selSize, selsSize_vr]
theorem selsSize_vr (V : Vr) : ∀ xs : List Sel, selsSize (V.selList xs) = selsSize xs
  | [] => rfl
  | x :: xs => by simp only [Vr.selList, selsSize, selSize_vr V x, selsSize_vr V xs]
end

theorem sfsBound_vr (V : Vr) (d : Doc) : sfsBound (V.doc d) = sfsBound d := by
  obtain ⟨ds⟩ := d
  simp only [sfsBound, Vr.doc, List.foldl_map]
  congr 1
  funext n x
  cases x <;> simp [Vr.defn, selsSize_vr]

theorem sfsTable_vr (V : Vr) (d : Doc) : sfsTable (V.doc d) = (sfsTable d).map fun p => (p.1, V.selList p.2) := by
  obtain ⟨ds⟩ := d
  simp only [sfsTable, Vr.doc, List.foldl_map]
  have key : ∀ (l : List Def) (m : AL (List Sel)),
      l.foldl (fun m x => match V.defn x with | .frag n _ _ _ sels => AL.set m n sels | _ => m)
        (m.map fun p => (p.1, V.selList p.2)) =
      (l.foldl (fun m x => match x with | .frag n _ _ _ sels => AL.set m n sels | _ => m) m).map
        fun p => (p.1, V.selList p.2) := by
    intro l
    induction l with
    | nil => intro m; rfl
    | cons x xs ih =>
      intro m
      rw [List.foldl_cons, List.foldl_cons]
      cases x with
      | frag n on dirs id sels =>
        show List.foldl _ (AL.set (m.map fun p => (p.1, V.selList p.2)) n (V.selList sels)) xs = _
        rw [al_set_map]; exact ih _
      | op => exact ih _
      | ts => exact ih _
  exact key ds []

theorem rootKeysGo_vr (V : Vr) (frs : AL (List Sel)) : ∀ (fuel : Nat) (sels : List Sel) (ks vis : List String),
    rootKeysGo (frs.map fun p => (p.1, V.selList p.2)) fuel (V.selList sels) ks vis = rootKeysGo frs fuel sels ks vis
  | 0, sels, ks, vis => by simp [rootKeysGo]
  | f + 1, [], ks, vis => by simp [rootKeysGo, Vr.selList]
  | f + 1, .field al n _ _ _ _ _ :: rest, ks, vis => by
    simp only [Vr.selList, Vr.sel, rootKeysGo_field]
    exact rootKeysGo_vr V frs f rest _ vis
  | f + 1, .inline _ _ _ sub :: rest, ks, vis => by
    simp only [Vr.selList, Vr.sel, rootKeysGo]
    have := rootKeysGo_vr V frs f (sub ++ rest) ks vis
    simp only [V.selList_eq_map, ← List.map_append] at this ⊢
    exact this
  | f + 1, .spread name _ :: rest, ks, vis => by
    simp only [Vr.selList, Vr.sel, rootKeysGo, al_get?_map]
    split
    · exact rootKeysGo_vr V frs f rest ks vis
    · cases hg : AL.get? frs name with
      | none => simp only [Option.map_none]; exact rootKeysGo_vr V frs f rest ks (name :: vis)
      | some sels =>
        simp only [Option.map_some]
        have := rootKeysGo_vr V frs f (sels ++ rest) ks (name :: vis)
        simp only [V.selList_eq_map, ← List.map_append] at this ⊢
        exact this

theorem rootKeys_vr (V : Vr) (d : Doc) (sels : List Sel) :
    rootKeys (sfsTable (V.doc d)) (sfsBound (V.doc d)) (V.selList sels) = rootKeys (sfsTable d) (sfsBound d) sels := by
  simp only [rootKeys, sfsTable_vr, sfsBound_vr, rootKeysGo_vr]

end PyGql.Validate

/-
  C05 helper lemmas — the rank computation `Spec.fragsAcyclic` is COMPLETE: a document whose fragment spreads all name
  defined fragments and whose spread graph has no cycle passes it. (Soundness, `fragsAcyclic → Ranked`, is
  `Props/C04_acyclic.lean`.) Used by the bridge to obtain the `fragsAcyclic` clause of `ValidDoc` from C06's
  `rule_no_fragment_cycles_iff` instead of assuming it.
-/
import PyGqlModel.Spec.ValidDoc

set_option linter.unusedSimpArgs false
set_option linter.unusedVariables false

namespace PyGql.Spec
open PyGql PyGql.Exec

/-- one round of `rankFrags` -/
def rankStep (doc : Doc) (acc : List String) : List String :=
  acc ++ (doc.frags.filter fun f => !acc.contains f.name && (selsSpreads f.sels).all acc.contains).map (·.name)

theorem rankFrags_succ (doc : Doc) (n : Nat) (acc : List String) : rankFrags doc (n + 1) acc = rankFrags doc n (rankStep doc acc) := rfl

theorem rankFrags_succ' (doc : Doc) : ∀ (n : Nat) (acc : List String), rankFrags doc (n + 1) acc = rankStep doc (rankFrags doc n acc) := by
  intro n
  induction n with
  | zero => intro acc; rfl
  | succ n ih => intro acc; rw [rankFrags_succ, ih (rankStep doc acc)]; rfl

theorem rankStep_mono (doc : Doc) (acc : List String) (x : String) (h : x ∈ acc) : x ∈ rankStep doc acc := by
  unfold rankStep; simp [h]

/-- `g` is spread (at any depth) in the body of a fragment named `f` -/
def Edge (doc : Doc) (f g : String) : Prop := ∃ fr ∈ doc.frags, fr.name = f ∧ g ∈ selsSpreads fr.sels

inductive Reaches (doc : Doc) : String → String → Prop
  | step {a b} : Edge doc a b → Reaches doc a b
  | trans {a b c} : Reaches doc a b → Reaches doc b c → Reaches doc a c

/-- a chain of `k` spreads starts at `f` -/
def Deep (doc : Doc) : Nat → String → Prop
  | 0, _ => True
  | k + 1, f => ∃ g, Edge doc f g ∧ Deep doc k g

def Defined (doc : Doc) (f : String) : Prop := f ∈ doc.frags.map (·.name)

/-- fragments below which every chain of spreads is shorter than `k` are ranked after `k` rounds -/
theorem ranked_of_not_deep (doc : Doc) (hk : ∀ f g, Edge doc f g → Defined doc g) :
    ∀ (k : Nat) (fr : Frag), fr ∈ doc.frags → ¬ Deep doc k fr.name → fr.name ∈ rankFrags doc k [] := by
  intro k
  induction k with
  | zero => intro fr _ h; exact absurd trivial h
  | succ k ih =>
    intro fr hfr hnd
    rw [rankFrags_succ']
    have hall : ∀ g ∈ selsSpreads fr.sels, g ∈ rankFrags doc k [] := by
      intro g hg
      have he : Edge doc fr.name g := ⟨fr, hfr, rfl, hg⟩
      have hd := hk _ _ he
      unfold Defined at hd
      obtain ⟨fr', hfr', hn⟩ := List.mem_map.mp hd
      have := ih fr' hfr' (by rw [hn]; intro hdeep; exact hnd ⟨g, he, hdeep⟩)
      rw [hn] at this
      exact this
    by_cases hin : fr.name ∈ rankFrags doc k []
    · exact rankStep_mono doc _ _ hin
    · unfold rankStep
      simp only [List.mem_append, List.mem_map, List.mem_filter]
      refine Or.inr ⟨fr, ⟨hfr, ?_⟩, rfl⟩
      simp only [Bool.and_eq_true, Bool.not_eq_true', List.all_eq_true]
      refine ⟨by simpa using hin, ?_⟩
      intro g hg
      simpa using hall g hg

private theorem nodup_length_le : ∀ (l L : List String), l.Nodup → (∀ x ∈ l, x ∈ L) → l.length ≤ L.length := by
  intro l
  induction l with
  | nil => intro L _ _; simp
  | cons x t ih =>
    intro L hnd hsub
    have hx : x ∈ L := hsub x (by simp)
    have hnd' := List.nodup_cons.mp hnd
    have ht : ∀ y ∈ t, y ∈ L.erase x := by
      intro y hy
      have hne : y ≠ x := fun e => hnd'.1 (e ▸ hy)
      exact (List.mem_erase_of_ne hne).mpr (hsub y (by simp [hy]))
    have := ih (L.erase x) hnd'.2 ht
    rw [List.length_erase_of_mem hx] at this
    have hpos : 0 < L.length := List.length_pos_of_mem hx
    simp only [List.length_cons]
    omega

/-- in a graph without cycles a chain of spreads visits pairwise distinct defined fragments -/
theorem deep_bound (doc : Doc) (hk : ∀ f g, Edge doc f g → Defined doc g) (hac : ∀ f, ¬ Reaches doc f f) :
    ∀ (k : Nat) (f : String) (seen : List String), seen.Nodup → (∀ x ∈ seen, Defined doc x ∧ Reaches doc x f) → Defined doc f →
      Deep doc k f → seen.length + 1 + k ≤ doc.frags.length := by
  intro k
  induction k with
  | zero =>
    intro f seen hnd hs hf _
    have hnotin : f ∉ seen := fun h => hac f (hs f h).2
    have := nodup_length_le (f :: seen) (doc.frags.map (·.name)) (List.nodup_cons.mpr ⟨hnotin, hnd⟩)
      (by intro x hx; simp at hx; rcases hx with rfl | hx; exact hf; exact (hs x hx).1)
    simp at this
    omega
  | succ k ih =>
    intro f seen hnd hs hf hd
    obtain ⟨g, he, hdg⟩ := hd
    have hnotin : f ∉ seen := fun h => hac f (hs f h).2
    have := ih g (f :: seen) (List.nodup_cons.mpr ⟨hnotin, hnd⟩)
      (by
        intro x hx
        simp at hx
        rcases hx with rfl | hx
        · exact ⟨hf, .step he⟩
        · exact ⟨(hs x hx).1, .trans (hs x hx).2 (.step he)⟩)
      (hk _ _ he) hdg
    simp at this
    omega

/-- **fragsAcyclic is complete**: spreads name defined fragments + no cycle of spreads ⇒ the rank computation succeeds -/
theorem fragsAcyclic_of_noCycles (doc : Doc) (hk : ∀ f g, Edge doc f g → Defined doc g) (hac : ∀ f, ¬ Reaches doc f f) :
    fragsAcyclic doc = true := by
  unfold fragsAcyclic
  simp only [List.all_eq_true]
  intro fr hfr
  have hdef : Defined doc fr.name := List.mem_map.mpr ⟨fr, hfr, rfl⟩
  have hnd : ¬ Deep doc doc.frags.length fr.name := by
    intro hd
    have := deep_bound doc hk hac doc.frags.length fr.name [] (by simp) (by intro x hx; simp at hx) hdef hd
    simp at this
    omega
  have h1 := ranked_of_not_deep doc hk doc.frags.length fr hfr hnd
  have h2 : fr.name ∈ rankFrags doc (doc.frags.length + 1) [] := by
    rw [rankFrags_succ']; exact rankStep_mono doc _ _ h1
  simpa using h2

end PyGql.Spec

/-
  The descriptions the printer never prints (finding R4), removed from a tree.
-/
import PyGqlModel.Print
namespace PyGql.Print
open PyGql PyGql.Ast

/-- the descriptions the printer never prints (finding R4) removed -/
def stripIV (d : InputValueDefinition) : InputValueDefinition := { d with description := none }
def stripFD (d : FieldDefinition) : FieldDefinition :=
  { d with description := none, arguments := d.arguments.map stripIV }
def stripEV (d : EnumValueDefinition) : EnumValueDefinition := { d with description := none }
def stripDef : Definition → Definition
  | .objectTypeDefinition desc name ifs dirs fields loc => .objectTypeDefinition desc name ifs dirs (fields.map stripFD) loc
  | .objectTypeExtension name ifs dirs fields loc => .objectTypeExtension name ifs dirs (fields.map stripFD) loc
  | .interfaceTypeDefinition desc name dirs fields loc => .interfaceTypeDefinition desc name dirs (fields.map stripFD) loc
  | .interfaceTypeExtension name dirs fields loc => .interfaceTypeExtension name dirs (fields.map stripFD) loc
  | .enumTypeDefinition desc name dirs values loc => .enumTypeDefinition desc name dirs (values.map stripEV) loc
  | .enumTypeExtension name dirs values loc => .enumTypeExtension name dirs (values.map stripEV) loc
  | .inputObjectTypeDefinition desc name dirs fields loc => .inputObjectTypeDefinition desc name dirs (fields.map stripIV) loc
  | .inputObjectTypeExtension name dirs fields loc => .inputObjectTypeExtension name dirs (fields.map stripIV) loc
  | .directiveDefinition desc name args locations loc => .directiveDefinition desc name (args.map stripIV) locations loc
  | d => d
def stripMemberDescriptions (d : Document) : Document := { d with definitions := d.definitions.map stripDef }


end PyGql.Print

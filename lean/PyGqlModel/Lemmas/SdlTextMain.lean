/-
  C12 text level — assembly: from per-definition lexing facts to `parse (printSchemaT o s) = docToAst (schemaToDoc s)`.
-/
import PyGqlModel.Lemmas.SdlTextWf
import PyGqlModel.ParseText
namespace PyGql.SdlText
open PyGql PyGql.Ast PyGql.Sdl PyGql.Spec PyGql.PrintLex PyGql.PrintTokens PyGql.PrintMatch PyGql.SdlPrint PyGql.Parse PyGql.Lex

theorem plainAllF_map_all {α} (f : α → Item) (xs : List α) (tail : List Item) (fol : List TokClass)
    (h : ∀ x ∈ xs, ∀ fol', plainF (f x) fol' = true) (ht : plainAllF tail fol = true) :
    plainAllF (xs.map f ++ tail) fol = true := by
  induction xs with
  | nil => simpa using ht
  | cons x xs ih =>
    simp only [List.map_cons, List.cons_append, plainAllF, Bool.and_eq_true]
    exact ⟨h x (by simp) _, ih (fun y hy => h y (by simp [hy]))⟩

/-- SOF, tokens with the classes of the definitions' yields, EOF are matched by the document view -/
theorem matches_defs (fl : Flags) (hnl : fl.noLocation = true) (defs : List Definition)
    (hall : ∀ d ∈ defs, ∀ fol, plainF (definitionV d) fol = true) (sof eof : Tok) (hs : cls sof = (.sof, []))
    (he : cls eof = (.eof, [])) (toks : List Tok) (hy : classes toks = Item.yieldAll (defs.map definitionV)) :
    matchesAll fl [documentV ⟨defs, none⟩] (sof :: toks ++ [eof]) = true := by
  have hp : plainF (documentV ⟨defs, none⟩) (classes []) = true := by
    simp only [documentV, plainF, Bool.and_eq_true, Option.isNone_none, Bool.not_eq_true', List.isEmpty_eq_false_iff, true_and]
    refine ⟨?_, by simp [Item.yieldAll, Item.yield]⟩
    simp only [plainAllF, plainF, Bool.true_and]
    exact plainAllF_map_all definitionV defs [p .eof] _ hall rfl
  have hc : classes (sof :: toks ++ [eof]) = (documentV ⟨defs, none⟩).yield := by
    simp [classes, documentV, Item.yield, Item.yieldAll, PrintMatch.yieldAll_append, hs, he] at hy ⊢
    exact hy
  have := check_of_plainF fl hnl _ default (sof :: toks ++ [eof]) [] hp hc
  simp only [List.append_nil] at this
  unfold matchesAll
  have e : Item.checkAll fl [documentV ⟨defs, none⟩] default (sof :: toks ++ [eof]) =
      some (Item.lastOf default (sof :: toks ++ [eof]), []) := by
    rw [checkAll_cons]; exact ⟨_, _, this, by simp [Item.checkAll]⟩
  rw [e]

/-- the assembled statement: lexing facts + matcher facts + well-formedness ⇒ the printed text parses to the tree -/
theorem parse_printSchemaT (o : SdlPrintT.OptsT) (s : SchemaD) (hs : InPrintOrder s) (hne : schemaPairs o s ≠ [])
    (hlay : ∀ p ∈ schemaPairs o s, Lay p.1 p.2)
    (hplain : ∀ d ∈ (schemaToDoc s).map defTree, ∀ fol, plainF (definitionV d) fol = true)
    (hwf : wfDocument { noLocation := true, allowTypeSystem := true } ⟨(schemaToDoc s).map defTree, none⟩ = true) :
    parseSdlTextT (SdlPrintT.printSchemaT o s) = docToAst (schemaToDoc s) := by
  obtain ⟨toks, h1, h2⟩ := lexAll_of_lexesTo (lexesTo_printSchemaT o s hs hne hlay)
  have hm := matches_defs { noLocation := true, allowTypeSystem := true } rfl _ hplain sofTok
    (eofTok (SdlPrintT.printSchemaT o s).length) (by decide) (by simp [cls, eofTok, hasValue]) toks h2
  have hparse := Props.C01.parse_complete_document _ _ _ hwf hm
  rw [docToAst_schemaToDoc]
  unfold parseSdlTextT Parse.parseText
  rw [h1]
  simp only [hparse, Except.toOption]

end PyGql.SdlText

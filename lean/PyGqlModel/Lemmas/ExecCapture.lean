/-
  C10 — helper lemmas about the executor model shared by `Props/C10_bijection.lean` and
  `Props/C10_unique.lean`: inversion of `nonNullWrap`, and "the completed value is null exactly
  when the outcome completes to null".
-/
import PyGqlModel.Response
import PyGqlModel.Spec.NullSites

namespace PyGql.Lemmas.ExecCapture
open PyGql PyGql.Response PyGql.Spec.NullSites


theorem wrap_inv {isNN : Bool} {nodes : List Nat} {p : Path} {r : Option (J × List Err)} {v : J} {es : List Err}
    (h : nonNullWrap isNN nodes p r = some (v, es)) :
    ∃ es0, r = some (v, es0) ∧
      es = es0 ++ (if isNN && v.isNull then [Err.resolver (nonNullMessage p) (nodes.map some) (some p) none] else []) := by
  unfold nonNullWrap at h
  cases r with
  | none => simp at h
  | some ve =>
    obtain ⟨v0, es0⟩ := ve
    simp only at h
    split at h
    all_goals
      simp only [Option.some.injEq, Prod.mk.injEq] at h
      obtain ⟨hv, hes⟩ := h
      subst hv
      refine ⟨es0, rfl, ?_⟩
      simp_all

/-- the completed value is null exactly when the outcome "completes to null" -/
theorem inner_null_iff {b : Bool} {t : Ty} {nodes : List Nat} {p : Path} {o : Out} {v : J} {es : List Err}
    (h : completeInner b t nodes p o = some (v, es)) : v.isNull = completesNull o := by
  cases o with
  | null => simp [completeInner] at h; obtain ⟨rfl, _⟩ := h; rfl
  | raised m e =>
    cases b <;> simp [completeInner] at h
    obtain ⟨rfl, _⟩ := h; rfl
  | leaf x =>
    cases t <;> simp [completeInner] at h
    obtain ⟨rfl, _⟩ := h; rfl
  | list items =>
    cases t <;> simp [completeInner] at h
    obtain ⟨a, _, rfl⟩ := h; rfl
  | obj fields =>
    cases t <;> simp [completeInner] at h
    obtain ⟨a, _, rfl⟩ := h; rfl


theorem isNull_eq (v : J) (h : v.isNull = true) : v = .null := by
  cases v <;> simp [J.isNull] at h ⊢

end PyGql.Lemmas.ExecCapture

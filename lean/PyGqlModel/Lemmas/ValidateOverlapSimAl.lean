/-
  `OvSim` for `Al` (renaming of aliases): `A.doc d` simulates `d` for the clause of 5.3.2 when the renaming acts on the
  response names of the fields of `d` through an injective `ρ` (`Al.RenamesOn`, stated with the response name the overlap
  rule computes: `responseName`, which skips an empty alias). Aliases are not part of any node a rule is handed except
  through the selection lists embedded in `document` / `operation` / `selectionSet` nodes, so the typed enumeration and
  the node list of `A.doc d` are the images of those of `d`.
-/
import PyGqlModel.Lemmas.ValidateOverlapSimTable
import PyGqlModel.Lemmas.ValidateAlias
import PyGqlModel.Lemmas.ValidateTr
import PyGqlModel.Lemmas.ValidateOverlapParents
namespace PyGql.Validate
open PyGql PyGql.Validate.Spec

/-- nodes that embed no selection list -/
def Node.plain : Node → Bool
  | .document _ | .operation .. | .selectionSet .. => false
  | _ => true

theorem argsNodes_plain (as : List Arg) : ∀ n ∈ argsNodes as, n.plain = true := by
  intro n hn
  simp only [argsNodes, List.mem_flatMap] at hn
  obtain ⟨a, _, hn⟩ := hn
  simp only [argNodes, List.mem_cons] at hn
  rcases hn with rfl | hn
  · rfl
  · have := valueNodes_kinds _ n hn
    cases n <;> simp_all [Node.isValueish, Node.plain]

theorem dirsNodes_plain (ds : List Dir) : ∀ n ∈ dirsNodes ds, n.plain = true := by
  intro n hn
  simp only [dirsNodes, List.mem_flatMap] at hn
  obtain ⟨d, _, hn⟩ := hn
  simp only [dirNodes, List.mem_cons] at hn
  rcases hn with rfl | hn
  · rfl
  · exact argsNodes_plain _ n hn

theorem map_eq_self {α} (f : α → α) (l : List α) (h : ∀ x ∈ l, f x = x) : l.map f = l := by
  induction l with
  | nil => rfl
  | cons a as ih =>
    rw [List.map_cons, h a (List.mem_cons_self ..), ih fun x hx => h x (List.mem_cons_of_mem _ hx)]

namespace Al
variable (A : Al)

theorem node_plain {n : Node} (h : n.plain = true) : A.node n = n := by
  cases n <;> first | rfl | (simp [Node.plain] at h)

/-- a (node, context) pair of the renamed document -/
def nv (p : Node × View) : Node × View := (A.node p.1, p.2)

theorem argsNodes_al (as : List Arg) : (argsNodes as).map A.node = argsNodes as :=
  map_eq_self _ _ fun n hn => A.node_plain (argsNodes_plain as n hn)

theorem dirsNodes_al (ds : List Dir) : (dirsNodes ds).map A.node = dirsNodes ds :=
  map_eq_self _ _ fun n hn => A.node_plain (dirsNodes_plain ds n hn)

mutual
theorem selNodes_al : ∀ x : Sel, selNodes (A.sel x) = (selNodes x).map A.node
  | .field al n args dirs true id sub => by
    simp only [Al.sel, selNodes, ↓reduceIte, List.map_cons, List.map_append, argsNodes_al, dirsNodes_al, selsNodes_al sub]
    rfl
  | .field al n args dirs false id sub => by
    simp only [Al.sel, selNodes, Bool.false_eq_true, ↓reduceIte, List.map_cons, List.map_append, argsNodes_al,
      dirsNodes_al, List.map_nil]
    rfl
  | .spread n dirs => by simp only [Al.sel, selNodes, List.map_cons, dirsNodes_al]; rfl
  | .inline on dirs id sub => by
    simp only [Al.sel, selNodes, List.map_cons, List.map_append, dirsNodes_al, selsNodes_al sub]
    rfl
theorem selsNodes_al : ∀ xs : List Sel, selsNodes (A.selList xs) = (selsNodes xs).map A.node
  | [] => rfl
  | x :: xs => by simp only [Al.selList, selsNodes, List.map_append, selNodes_al x, selsNodes_al xs]
end

theorem varDefsNodes_al (vars : List VarDef) : (vars.flatMap varDefNodes).map A.node = vars.flatMap varDefNodes := by
  refine map_eq_self _ _ fun n hn => A.node_plain ?_
  simp only [List.mem_flatMap, varDefNodes, List.mem_cons, List.mem_append] at hn
  obtain ⟨v, _, hn⟩ := hn
  rcases hn with rfl | hn | rfl | hn
  · rfl
  · cases hd : v.default with
    | none => rw [hd] at hn; cases hn
    | some dv =>
      rw [hd] at hn
      have := valueNodes_kinds _ n hn
      cases n <;> simp_all [Node.isValueish, Node.plain]
  · rfl
  · exact dirsNodes_plain _ n hn

theorem defNodes_al (x : Def) : defNodes (A.defn x) = (defNodes x).map A.node := by
  cases x with
  | op k nm vars dirs id sels =>
    simp only [Al.defn, defNodes, List.map_cons, List.map_append, varDefsNodes_al, dirsNodes_al, selsNodes_al]; rfl
  | frag n on dirs id sels =>
    simp only [Al.defn, defNodes, List.map_cons, List.map_append, dirsNodes_al, selsNodes_al]; rfl
  | ts a b => rfl

theorem nodes_doc (d : Doc) : nodes (A.doc d) = (nodes d).map A.node := by
  simp only [nodes, Al.doc, List.map_cons, Al.node]
  congr 1
  induction d.defs with
  | nil => rfl
  | cons x xs ih => simp only [List.map_cons, List.flatMap_cons, List.map_append, defNodes_al, ih]

/-! ### the typed enumeration -/

theorem view_enter_al (s : SchemaD) (n : Node) (v : View) : View.enter s (A.node n) v = View.enter s n v := by
  cases n <;> rfl

theorem withView_al (v : View) (l : List Node) (h : ∀ n ∈ l, n.plain = true) : (withView v l).map A.nv = withView v l := by
  refine map_eq_self _ _ fun q hq => ?_
  simp only [withView, List.mem_map] at hq
  obtain ⟨n, hn, rfl⟩ := hq
  simp only [Al.nv, A.node_plain (h n hn)]

theorem tnDirs_al (s : SchemaD) (v : View) (ds : List Dir) : (tnDirs s v ds).map A.nv = tnDirs s v ds := by
  refine map_eq_self _ _ fun q hq => ?_
  have := dirsNodes_plain ds q.1 (mem_tnDirs hq)
  obtain ⟨n, w⟩ := q
  simp only [Al.nv, A.node_plain this]

mutual
theorem tnSel_al (s : SchemaD) : ∀ (v : View) (x : Sel), tnSel s v (A.sel x) = (tnSel s v x).map A.nv
  | v, .field al n args dirs true id sub => by
    simp only [Al.sel, tnSel, ↓reduceIte, List.map_cons, List.map_append, withView_al _ _ _ (argsNodes_plain args),
      tnDirs_al, tnSels_al s _ sub]
    rfl
  | v, .field al n args dirs false id sub => by
    simp only [Al.sel, tnSel, Bool.false_eq_true, ↓reduceIte, List.map_cons, List.map_append,
      withView_al _ _ _ (argsNodes_plain args), tnDirs_al, List.map_nil]
    rfl
  | v, .spread n dirs => by simp only [Al.sel, tnSel, List.map_cons, tnDirs_al]; rfl
  | v, .inline on dirs id sub => by
    simp only [Al.sel, tnSel, List.map_cons, List.map_append, tnDirs_al, tnSels_al s _ sub]
    rfl
theorem tnSels_al (s : SchemaD) : ∀ (v : View) (xs : List Sel), tnSels s v (A.selList xs) = (tnSels s v xs).map A.nv
  | v, [] => rfl
  | v, x :: xs => by simp only [Al.selList, tnSels, List.map_append, tnSel_al s v x, tnSels_al s v xs]
end

theorem tnVarDefs_al (s : SchemaD) (w : View) (vs : List VarDef) :
    (vs.flatMap (tnVarDef s w)).map A.nv = vs.flatMap (tnVarDef s w) := by
  refine map_eq_self _ _ fun q hq => ?_
  obtain ⟨n, v⟩ := q
  simp only [List.mem_flatMap, tnVarDef, List.mem_append] at hq
  obtain ⟨vd, _, hq | hq⟩ := hq
  · have hn := mem_withView hq
    simp only [List.mem_cons, List.mem_append, List.not_mem_nil, or_false] at hn
    have : n.plain = true := by
      rcases hn with rfl | hn | rfl
      · rfl
      · cases hd : vd.default with
        | none => rw [hd] at hn; cases hn
        | some dv =>
          rw [hd] at hn
          have := valueNodes_kinds _ n hn
          cases n <;> simp_all [Node.isValueish, Node.plain]
      · rfl
    simp only [Al.nv, A.node_plain this]
  · have := dirsNodes_plain vd.dirs n (mem_tnDirs hq)
    simp only [Al.nv, A.node_plain this]

theorem tnDef_al (s : SchemaD) (x : Def) : tnDef s (A.defn x) = (tnDef s x).map A.nv := by
  cases x with
  | op k nm vars dirs id sels =>
    simp only [Al.defn, tnDef, List.map_cons, List.map_append, tnVarDefs_al, tnDirs_al, tnSels_al]
    rfl
  | frag n on dirs id sels =>
    simp only [Al.defn, tnDef, List.map_cons, List.map_append, tnDirs_al, tnSels_al]
    rfl
  | ts a b => rfl

theorem typed_doc (s : SchemaD) (d : Doc) : typedNodes s (A.doc d) = (typedNodes s d).map A.nv := by
  simp only [typedNodes, Al.doc]
  induction d.defs with
  | nil => rfl
  | cons x xs ih => simp only [List.map_cons, List.flatMap_cons, List.map_append, tnDef_al, ih]

/-! ### the simulation -/

/-- `A` renames the response names of the fields of `d` by `ρ` (response name as the overlap rule computes it) -/
def RenamesOn (ρ : String → String) (d : Doc) : Prop :=
  ∀ i sels, SelSet d i sels → ∀ al n args dirs hs id sub, Sel.field al n args dirs hs id sub ∈ sels →
    responseName (A.alias al n) n = ρ (responseName al n)

/-- collected fields under `Al` -/
def ent (e : FEntry) : FEntry := { e with sub := A.selList e.sub }

theorem mem_selList {x : Sel} {sels : List Sel} : x ∈ A.selList sels ↔ ∃ y ∈ sels, x = A.sel y := by
  rw [A.selList_eq_map, List.mem_map]
  constructor
  · rintro ⟨y, hy, rfl⟩; exact ⟨y, hy, rfl⟩
  · rintro ⟨y, hy, rfl⟩; exact ⟨y, hy, rfl⟩

theorem selSet_inline {d : Doc} {i : Nat} {sels : List Sel} (h : SelSet d i sels) {on : Option String} {dirs : List Dir}
    {id : Nat} {sub : List Sel} (hm : Sel.inline on dirs id sub ∈ sels) : SelSet d id sub :=
  selSet_closed h _ (mem_selsNodes_of_mem hm _ (by simp [selNodes]))

section
variable {ρ : String → String} {d : Doc} (hA : A.RenamesOn ρ d)
include hA

theorem collD_fwd (s : SchemaD) {p : Option String} {sels : List Sel} {rn : String} {e : FEntry}
    (hc : CollD s p sels rn e) : ∀ i, SelSet d i sels → CollD s p (A.selList sels) (ρ rn) (A.ent e) := by
  induction hc with
  | @field parent sels alias name args dirs hasSub ssid sub hm =>
    intro i hs
    rw [← hA i sels hs _ _ _ _ _ _ _ hm]
    exact CollD.field (alias := A.alias alias name) (A.mem_selList.mpr ⟨_, hm, rfl⟩)
  | @inline parent sels on dirs id sub rn e hm _ ih =>
    intro i hs
    exact CollD.inline (A.mem_selList.mpr ⟨_, hm, rfl⟩) (ih id (selSet_inline hs hm))

theorem collD_bwd (s : SchemaD) {p : Option String} {sels' : List Sel} {rn' : String} {e' : FEntry}
    (hc : CollD s p sels' rn' e') : ∀ i sels, SelSet d i sels → sels' = A.selList sels →
      ∃ rn e, rn' = ρ rn ∧ e' = A.ent e ∧ CollD s p sels rn e := by
  induction hc with
  | @field parent sels' alias name args dirs hasSub ssid sub hm =>
    rintro i sels hs rfl
    obtain ⟨y, hy, e⟩ := A.mem_selList.mp hm
    cases y with
    | field al n a ds hsb j sb =>
      simp only [Al.sel, Sel.field.injEq] at e
      obtain ⟨rfl, rfl, rfl, rfl, rfl, rfl, rfl⟩ := e
      exact ⟨_, _, hA i sels hs _ _ _ _ _ _ _ hy, rfl, CollD.field hy⟩
    | spread n ds => simp [Al.sel] at e
    | inline on ds j sb => simp [Al.sel] at e
  | @inline parent sels' on dirs id sub rn e hm _ ih =>
    rintro i sels hs rfl
    obtain ⟨y, hy, e⟩ := A.mem_selList.mp hm
    cases y with
    | field al n a ds hsb j sb => simp [Al.sel] at e
    | spread n ds => simp [Al.sel] at e
    | inline on0 ds j sb =>
      simp only [Al.sel, Sel.inline.injEq] at e
      obtain ⟨rfl, rfl, rfl, rfl⟩ := e
      obtain ⟨rn0, e0, h1, h2, hc0⟩ := ih _ sb (selSet_inline hs hy) rfl
      exact ⟨rn0, e0, h1, h2, CollD.inline hy hc0⟩

end

theorem spreadD_fwd {sels : List Sel} {g : String} (h : SpreadD sels g) : SpreadD (A.selList sels) g := by
  induction h with
  | @spread sels name dirs hm => exact SpreadD.spread (A.mem_selList.mpr ⟨_, hm, rfl⟩)
  | @inline sels on dirs id sub name hm _ ih => exact SpreadD.inline (A.mem_selList.mpr ⟨_, hm, rfl⟩) ih

theorem spreadD_bwd {sels' : List Sel} {g : String} (h : SpreadD sels' g) :
    ∀ sels, sels' = A.selList sels → SpreadD sels g := by
  induction h with
  | @spread sels' name dirs hm =>
    rintro sels rfl
    obtain ⟨y, hy, e⟩ := A.mem_selList.mp hm
    cases y with
    | field al n a ds hs i sb => simp [Al.sel] at e
    | spread n ds =>
      simp only [Al.sel, Sel.spread.injEq] at e
      obtain ⟨rfl, rfl⟩ := e
      exact SpreadD.spread hy
    | inline on ds i sb => simp [Al.sel] at e
  | @inline sels' on dirs id sub name hm _ ih =>
    rintro sels rfl
    obtain ⟨y, hy, e⟩ := A.mem_selList.mp hm
    cases y with
    | field al n a ds hs i sb => simp [Al.sel] at e
    | spread n ds => simp [Al.sel] at e
    | inline on0 ds i sb =>
      simp only [Al.sel, Sel.inline.injEq] at e
      obtain ⟨rfl, rfl, rfl, rfl⟩ := e
      exact SpreadD.inline hy (ih sb rfl)

theorem selSet_fwd {d : Doc} {i : Nat} {sels : List Sel} (h : SelSet d i sels) : SelSet (A.doc d) i (A.selList sels) := by
  unfold SelSet at h ⊢
  rw [A.nodes_doc]
  exact List.mem_map.mpr ⟨_, h, rfl⟩

theorem selSet_bwd {d : Doc} {i : Nat} {sels' : List Sel} (h : SelSet (A.doc d) i sels') :
    ∃ sels, SelSet d i sels ∧ sels' = A.selList sels := by
  unfold SelSet at h
  rw [A.nodes_doc] at h
  obtain ⟨m, hm, e⟩ := List.mem_map.mp h
  cases m <;> simp [Al.node] at e
  rename_i j sels
  obtain ⟨rfl, rfl⟩ := e
  exact ⟨sels, hm, rfl⟩

theorem walkP (s : SchemaD) (d : Doc) (i : Nat) (p : Option String) : WalkP s d i p ↔ WalkP s (A.doc d) i p := by
  constructor
  · rintro ⟨sels, v, hm, rfl⟩
    refine ⟨A.selList sels, v, ?_, rfl⟩
    rw [A.typed_doc]
    exact List.mem_map.mpr ⟨_, hm, rfl⟩
  · rintro ⟨sels', v, hm, rfl⟩
    rw [A.typed_doc] at hm
    obtain ⟨⟨n, v0⟩, h0, e⟩ := List.mem_map.mp hm
    simp only [Al.nv, Prod.mk.injEq] at e
    obtain ⟨e1, rfl⟩ := e
    cases n <;> simp [Al.node] at e1
    rename_i j sels
    obtain ⟨rfl, rfl⟩ := e1
    exact ⟨sels, v0, h0, rfl⟩

theorem fragDefs_doc (d : Doc) : fragDefs (A.doc d) = (fragDefs d).map (mapFragDef id A.selList) := by
  simp only [fragDefs, Al.doc]
  induction d.defs with
  | nil => rfl
  | cons x xs ih => cases x <;> simp_all [Al.defn, mapFragDef]

/-- **`A.doc d` simulates `d`** (the renaming acts injectively on the response names of `d`) -/
def ovSim (ρ : String → String) (hρ : ∀ a b, ρ a = ρ b → a = b) (s : SchemaD) (d : Doc) (hA : A.RenamesOn ρ d) :
    OvSim s d (A.doc d) where
  σ := A.selList
  φ := id
  ρ := ρ
  ε := A.ent
  Good := fun _ => True
  ρ_inj := hρ
  φ_inj := fun _ _ h => h
  sets_fwd := fun _ _ h => A.selSet_fwd h
  sets_bwd := fun _ _ h => A.selSet_bwd h
  walk := A.walkP s d
  frags_fwd := fragTable_image_fwd (φ := id) (A.fragDefs_doc d) (fun _ _ h => h)
  frags_bwd := fragTable_image_bwd (φ := id) (A.fragDefs_doc d) (fun _ _ h => h)
  collD_fwd := fun i _ hs _ _ _ h => A.collD_fwd hA s h i hs
  collD_bwd := fun i sels hs _ _ _ h => A.collD_bwd hA s h i sels hs rfl
  spreadD_fwd := fun _ _ _ _ h => A.spreadD_fwd h
  spreadD_bwd := fun _ _ _ g' h => ⟨g', rfl, A.spreadD_bwd h _ rfl⟩
  good_of := fun _ _ => trivial
  ε_parent := fun _ => rfl
  ε_name := fun _ => rfl
  ε_hasSub := fun _ => rfl
  ε_ssid := fun _ => rfl
  ε_fdef := fun _ => rfl
  ε_sub := fun _ => rfl
  ε_args := fun _ _ _ _ => rfl

/-- selection-set identities are untouched by `Al` -/
theorem wfIds (d : Doc) : WfIds (A.doc d) ↔ WfIds d := by
  unfold WfIds selSetIds idsOf
  rw [A.nodes_doc, List.filterMap_map]
  have : (ssidOf? ∘ A.node) = ssidOf? := by
    funext n; cases n <;> rfl
  rw [this]

theorem fragNames_doc (d : Doc) : fragNames (A.doc d) = fragNames d := by
  simp only [fragNames, Al.doc]
  induction d.defs with
  | nil => rfl
  | cons x xs ih => cases x <;> simp_all [Al.defn]

end Al
end PyGql.Validate

/-
  The walk of a chain that carries a `VariablesCollector`, part 3: variable definitions and definitions.
-/
import PyGqlModel.Lemmas.ValidateVarsWalk2
namespace PyGql.Validate
open PyGql PyGql.Validate.Spec

variable {c : Cfg} {π : St → VC}

mutual
/-- a value without variables has no usages -/
theorem usesValue_const (s : SchemaD) : ∀ (p : Usage) (v : Value), v.hasVar = false → usesValue s p v = []
  | p, .var x, h => by simp [Value.hasVar] at h
  | p, .list vs, h => by rw [usesValue]; exact usesValues_const s _ vs (by simpa [Value.hasVar] using h)
  | p, .obj fs, h => by rw [usesValue]; exact usesObjFields_const s _ fs (by simpa [Value.hasVar] using h)
  | p, .int x, _ => rfl
  | p, .float x, _ => rfl
  | p, .str x, _ => rfl
  | p, .bool x, _ => rfl
  | p, .null, _ => rfl
  | p, .enum x, _ => rfl
theorem usesValues_const (s : SchemaD) : ∀ (p : Usage) (vs : List Value), Value.hasVarL vs = false → usesValues s p vs = []
  | p, [], _ => rfl
  | p, v :: vs, h => by
    simp only [Value.hasVarL, Bool.or_eq_false_iff] at h
    rw [usesValues, usesValue_const s p v h.1, usesValues_const s p vs h.2]; rfl
theorem usesObjFields_const (s : SchemaD) : ∀ (p : Usage) (fs : List ObjField), Value.hasVarF fs = false →
    usesObjFields s p fs = []
  | p, [], _ => rfl
  | p, .mk n v :: fs, h => by
    simp only [Value.hasVarF, Bool.or_eq_false_iff] at h
    rw [usesObjFields, usesValue_const s _ v h.1, usesObjFields_const s p fs h.2]; rfl
end

theorem vlog_argsNodes_const (s : SchemaD) (w : View) (as : List Arg) (h : (as.all fun a => !a.value.hasVar) = true) :
    vlog s (withView w (argsNodes as)) = [] := by
  induction as with
  | nil => rfl
  | cons a as ih =>
    simp only [List.all_cons, Bool.and_eq_true, Bool.not_eq_eq_eq_not, Bool.not_true] at h
    simp only [argsNodes, List.flatMap_cons] at ih ⊢
    rw [withView_append, vlog_append, ih (by simpa using h.2), argNodes, withView_cons, vlog_cons, vlog_value]
    simp only [evOf, usesValue_const s _ a.value h.1, VC.useEvs, List.map_nil, List.append_nil]

theorem vlog_tnDirs_const (s : SchemaD) (w : View) (ds : List Dir) (h : ds.all Dir.isConst = true) :
    vlog s (tnDirs s w ds) = [] := by
  induction ds with
  | nil => rfl
  | cons d ds ih =>
    simp only [List.all_cons, Bool.and_eq_true] at h
    simp only [tnDirs, List.flatMap_cons] at ih ⊢
    rw [vlog_append, ih h.2, tnDir, vlog_cons, vlog_argsNodes_const s _ d.args h.1]
    rfl

/-- the events of a variable definition: its declaration only (default values hold no usages; the directives of a
    variable definition are `Directives[Const]`) -/
theorem vlog_tnVarDef (s : SchemaD) (w : View) (v : VarDef) : vlog s (tnVarDef s w v) = [.defn v] := by
  rw [tnVarDef, vlog_append, vlog_tnDirs_const s w v.dirs v.dirsConst, withView_cons, vlog_cons, withView_append, vlog_append]
  cases v.default with
  | none => rfl
  | some d => simp only [vlog_value]; rfl

theorem visitVarDefV (h : VCC c π) (v : VarDef) (st : St) (hiv : (π st).inVarDef = false)
    (hd : st.ti.directive = none) :
    VW π c.fixes (vlog c.schema (tnVarDef c.schema st.ti.view v)) st (visitVarDef c v st) := by
  rw [visitVarDef, vlog_tnVarDef]
  have key := visitNodeV h (.varDef v) (fun st =>
      visitDirectives c v.dirs
        (visitNode c (.typeNode v.type) id (match v.default with | some d => visitValue c d st | none => st))) [] st rfl
    (fun _ e => by cases e) (fun st1 e1 e2 => by
      have hin : (π st1).inVarDef = true := by
        rw [e2]; show ((π st).enterVarDef v).inVarDef = true
        simp only [VC.enterVarDef]; split <;> rfl
      have hd1 : st1.ti.directive = none := by rw [e1, directive_tiEnter _ _ _ (fun _ => by simp)]; exact hd
      have hty : ∀ st', VW π c.fixes [] st' (visitNode c (.typeNode v.type) id st') := fun st' =>
        visitNodeV_idle h (.typeNode v.type) id [] st' rfl (fun _ e => by cases e) (fun _ _ => rfl) (fun _ => rfl)
          (fun st2 _ _ => VW.nil st2)
      have hdirs : ∀ st', st'.ti = st1.ti → VW π c.fixes [] st' (visitDirectives c v.dirs st') := fun st' ht => by
        have := visitDirectivesV h v.dirs st' (by rw [ht]; exact hd1)
        rwa [vlog_tnDirs_const c.schema _ v.dirs v.dirsConst] at this
      cases v.default with
      | none =>
        have a := hty st1
        exact VW.append a (hdirs _ a.1)
      | some d =>
        simp only
        have h1 := visitValueV h d st1
        have h1' : VW π c.fixes [] st1 (visitValue c d st1) :=
          ⟨h1.1, by rw [h1.2, VC.applyAll_useEvs_inVarDef _ _ _ hin]; rfl⟩
        have a := VW.append h1' (hty _)
        exact VW.append a (hdirs _ a.1))
  refine ⟨key.1, key.2.trans ?_⟩
  show ((π st).enterVarDef v).leaveVarDef = _
  rw [VC.leaveVarDef_enterVarDef _ _ hiv]
  rfl

theorem visitVarDefsV (h : VCC c π) (vs : List VarDef) (st : St) (hiv : (π st).inVarDef = false)
    (hd : st.ti.directive = none) :
    VW π c.fixes (vlog c.schema (vs.flatMap (tnVarDef c.schema st.ti.view))) st
      (vs.foldl (fun st v => visitVarDef c v st) st) :=
  (foldlV (π := π) (c := c) (fun st => (π st).inVarDef = false ∧ st.ti.directive = none) (visitVarDef c)
    (fun w v => tnVarDef c.schema w v)
    (fun v st hp => ⟨visitVarDefV h v st hp.1 hp.2, by
      rw [(visitVarDefV h v st hp.1 hp.2).2, (VC.applyAll_scope _ _ _).2.2, (visitVarDefV h v st hp.1 hp.2).1]
      exact hp⟩) vs st ⟨hiv, hd⟩).1

/-- what visiting a definition does to the collector -/
def defEffect (fx : Fixes) (s : SchemaD) (x : Def) (cc : VC) : VC :=
  match x with
  | .op _ name .. => ((cc.enterOperation name).applyAll fx (vlog s (tnDef s x))).leaveOperation
  | .frag name .. => ((cc.enterFragmentDef name).applyAll fx (vlog s (tnDef s x))).leaveFragmentDef
  | .ts .. => cc

theorem visitDefV (h : VCC c π) (d : Def) (st : St) (h0 : st.ti = {}) (hiv : (π st).inVarDef = false) :
    (visitDef c d st).ti = st.ti ∧ π (visitDef c d st) = defEffect c.fixes c.schema d (π st) := by
  have hd0 : st.ti.directive = none := by rw [h0]
  have hv0 : st.ti.view = ({} : View) := by rw [h0]; rfl
  cases d with
  | op kind name vars dirs ssid sels =>
    rw [visitDef]
    have key := visitNodeV h (.operation kind name vars dirs sels) (fun st =>
        visitNode c (.selectionSet ssid sels) (visitSels c sels)
          (visitDirectives c dirs (vars.foldl (fun st v => visitVarDef c v st) st)))
      (vlog c.schema (vars.flatMap (tnVarDef c.schema (View.enter c.schema (.operation kind name vars dirs sels) {})) ++
        tnDirs c.schema (View.enter c.schema (.operation kind name vars dirs sels) {}) dirs ++
        (.selectionSet ssid sels, View.enter c.schema (.selectionSet ssid sels)
            (View.enter c.schema (.operation kind name vars dirs sels) {})) ::
          tnSels c.schema (View.enter c.schema (.selectionSet ssid sels)
            (View.enter c.schema (.operation kind name vars dirs sels) {})) sels))
      st rfl (fun _ e => by cases e) (fun st1 e e2 => by
        have hd1 : st1.ti.directive = none := by rw [e, directive_tiEnter _ _ _ (fun _ => by simp)]; exact hd0
        have hv1 : st1.ti.view = View.enter c.schema (.operation kind name vars dirs sels) {} := by
          rw [e, view_enter, hv0]
        have hiv1 : (π st1).inVarDef = false := by rw [e2]; exact hiv
        have h1 := visitVarDefsV h vars st1 hiv1 hd1
        have h2 := visitDirectivesV h dirs _ (by rw [h1.1]; exact hd1)
        have h3 : VW π c.fixes (vlog c.schema (tnSels c.schema (View.enter c.schema (.selectionSet ssid sels)
              (visitDirectives c dirs (vars.foldl (fun st v => visitVarDef c v st) st1)).ti.view) sels))
            (visitDirectives c dirs (vars.foldl (fun st v => visitVarDef c v st) st1))
            (visitNode c (.selectionSet ssid sels) (visitSels c sels)
              (visitDirectives c dirs (vars.foldl (fun st v => visitVarDef c v st) st1))) :=
          visitNodeV_idle h (.selectionSet ssid sels) (visitSels c sels) _ _ rfl (fun _ e => by cases e)
            (fun _ _ => rfl) (fun _ => rfl) (fun st2 e2 _ => by
              have := visitSelsV h sels st2 (by
                rw [e2, directive_tiEnter _ _ _ (fun _ => by simp), h2.1, h1.1]; exact hd1)
              rwa [e2, view_enter] at this)
        rw [h2.1, h1.1] at h3
        rw [h1.1] at h2
        rw [hv1] at h1 h2 h3
        rw [vlog_append, vlog_append, vlog_cons]
        show VW π c.fixes (_ ++ _ ++ ([] ++ _)) st1 _
        rw [List.nil_append]
        exact (h1.append h2).append h3)
    refine ⟨key.1, ?_⟩
    rw [key.2]
    simp only [defEffect, tnDef, vlog_cons]
    rfl
  | frag name on dirs ssid sels =>
    rw [visitDef]
    have key := visitNodeV h (.fragmentDef name on dirs) (fun st =>
        visitNode c (.selectionSet ssid sels) (visitSels c sels) (visitDirectives c dirs st))
      (vlog c.schema (tnDirs c.schema (View.enter c.schema (.fragmentDef name on dirs) {}) dirs ++
        (.selectionSet ssid sels, View.enter c.schema (.selectionSet ssid sels)
            (View.enter c.schema (.fragmentDef name on dirs) {})) ::
          tnSels c.schema (View.enter c.schema (.selectionSet ssid sels)
            (View.enter c.schema (.fragmentDef name on dirs) {})) sels))
      st rfl (fun _ e => by cases e) (fun st1 e _ => by
        have hd1 : st1.ti.directive = none := by rw [e, directive_tiEnter _ _ _ (fun _ => by simp)]; exact hd0
        have hv1 : st1.ti.view = View.enter c.schema (.fragmentDef name on dirs) {} := by rw [e, view_enter, hv0]
        have h2 := visitDirectivesV h dirs st1 hd1
        have h3 : VW π c.fixes (vlog c.schema (tnSels c.schema (View.enter c.schema (.selectionSet ssid sels)
              (visitDirectives c dirs st1).ti.view) sels))
            (visitDirectives c dirs st1)
            (visitNode c (.selectionSet ssid sels) (visitSels c sels) (visitDirectives c dirs st1)) :=
          visitNodeV_idle h (.selectionSet ssid sels) (visitSels c sels) _ _ rfl (fun _ e => by cases e)
            (fun _ _ => rfl) (fun _ => rfl) (fun st2 e2 _ => by
              have := visitSelsV h sels st2 (by rw [e2, directive_tiEnter _ _ _ (fun _ => by simp), h2.1]; exact hd1)
              rwa [e2, view_enter] at this)
        rw [h2.1] at h3
        rw [hv1] at h2 h3
        rw [vlog_append, vlog_cons]
        show VW π c.fixes (_ ++ ([] ++ _)) st1 _
        rw [List.nil_append]
        exact h2.append h3)
    refine ⟨key.1, ?_⟩
    rw [key.2]
    simp only [defEffect, tnDef, vlog_cons]
    rfl
  | ts a b =>
    rw [visitDef]
    have := visitNodeV_idle h .tsDef id [] st rfl (fun _ e => by cases e) (fun _ _ => rfl) (fun _ => rfl)
      (fun st1 _ _ => VW.nil st1)
    exact ⟨this.1, this.2⟩

theorem defEffect_scope (fx : Fixes) (s : SchemaD) (x : Def) (cc : VC)
    (h : cc.op = none ∧ cc.frag = none ∧ cc.inVarDef = false) :
    (defEffect fx s x cc).op = none ∧ (defEffect fx s x cc).frag = none ∧ (defEffect fx s x cc).inVarDef = false := by
  cases x with
  | op kind name vars dirs ssid sels =>
    obtain ⟨_, a2, a3⟩ := VC.applyAll_scope fx (vlog s (tnDef s (.op kind name vars dirs ssid sels))) (cc.enterOperation name)
    exact ⟨rfl, a2.trans h.2.1, a3.trans h.2.2⟩
  | frag name on dirs ssid sels =>
    obtain ⟨a1, _, a3⟩ := VC.applyAll_scope fx (vlog s (tnDef s (.frag name on dirs ssid sels))) (cc.enterFragmentDef name)
    exact ⟨a1.trans h.1, rfl, a3.trans h.2.2⟩
  | ts a b => exact h

/-- **the collector after all definitions** -/
theorem visitDefsV (h : VCC c π) (ds : List Def) (st : St) (h0 : st.ti = {})
    (hs : (π st).op = none ∧ (π st).frag = none ∧ (π st).inVarDef = false) :
    (ds.foldl (fun st x => visitDef c x st) st).ti = {} ∧
    π (ds.foldl (fun st x => visitDef c x st) st) = ds.foldl (fun cc x => defEffect c.fixes c.schema x cc) (π st) := by
  induction ds generalizing st with
  | nil => exact ⟨h0, rfl⟩
  | cons x xs ih =>
    obtain ⟨a1, a2⟩ := visitDefV h x st h0 hs.2.2
    rw [List.foldl_cons, List.foldl_cons]
    have := ih (visitDef c x st) (by rw [a1, h0]) (by rw [a2]; exact defEffect_scope _ _ _ _ hs)
    rw [a2] at this
    exact this

end PyGql.Validate

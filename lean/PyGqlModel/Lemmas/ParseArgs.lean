/-
  Layer 1 (continued): arguments and directives, const and non-const.
-/
import PyGqlModel.Lemmas.ParseLoops
namespace PyGql.Parse
open PyGql PyGql.Ast PyGql.Spec

theorem length_le_yieldAll {α} (V : α → Item) (hV : ∀ x, 1 ≤ (V x).yield.length) (xs : List α) :
    xs.length ≤ (Item.yieldAll (xs.map V)).length := by
  induction xs with
  | nil => simp
  | cons x xs ih =>
    simp only [List.map_cons, Item.yieldAll, List.length_append, List.length_cons]
    have := hV x; omega

theorem groupV_len {α} {fl : Flags} {opn close : TokKind} {V : α → Item} (hV : ∀ x, 1 ≤ (V x).yield.length)
    {xs : List α} {l l' : Tok} {ts rest : List Tok}
    (h : Item.checkAll fl (groupV opn close V xs) l ts = some (l', rest)) : xs.length ≤ ts.length := by
  have w := checkAll_width fl _ _ _ _ _ h
  have := length_le_yieldAll V hV xs
  cases xs with
  | nil => simp
  | cons x xs =>
    simp only [groupV, List.isEmpty_cons, Bool.false_eq_true, if_false, Item.yieldAll, yieldAll_append,
      List.length_append] at w
    omega

theorem nameV_first {fl : Flags} {n : Name} {l : Tok} {ts : List Tok} {r : Tok × List Tok}
    (h : (nameV n).check fl l ts = some r) : ∃ t tl, ts = t :: tl ∧ t.kind = .name := by
  rcases r with ⟨l', rest⟩
  simp only [nameV, check_node, checkAll_cons, check_tok] at h
  obtain ⟨f, tl, rfl, ⟨l1, ts1, ⟨t, h1, hc, _⟩, _⟩, _⟩ := h
  cases h1; exact ⟨_, _, rfl, cls_kind hc⟩

/-! ### `parse_argument`, `parse_arguments` -/

theorem parseArgument_sound (fl : Flags) (fuel : Nat) (c : Bool) (s : PS) (a : Argument) (s' : PS)
    (h : parseArgument fl fuel c s = .ok (a, s')) :
    wfArgument c a = true ∧ (argumentV a).check fl s.last s.toks = some (s'.last, s'.toks) := by
  simp only [parseArgument, bind_ok, peek_ok, expect_ok, mkLoc_ok, pure_ok] at h
  obtain ⟨st, s1, ⟨ts, h1, rfl⟩, nm, s2, hn, col, s3, ⟨ts3, h3, hk3, rfl⟩, v, s4, hv, loc, s5, ⟨rfl, rfl⟩, hfin⟩ := h
  cases hfin
  have cn := parseName_sound fl _ _ _ hn
  obtain ⟨w, cv⟩ := parseValueLiteral_sound fl _ _ _ _ _ hv
  simp only [h1, h3] at cn cv
  simp [wfArgument, w, argumentV, Item.check, Item.checkAll, h1, cn, cls_const hk3 rfl, cv]

theorem parseArgument_complete (fl : Flags) (fuel : Nat) (c : Bool) (a : Argument) (l l' : Tok) (ts rest : List Tok)
    (w : wfArgument c a = true) (hf : ts.length ≤ fuel)
    (h : (argumentV a).check fl l ts = some (l', rest)) :
    parseArgument fl fuel c ⟨ts, l⟩ = .ok (a, ⟨rest, l'⟩) := by
  rcases a with ⟨name, value, loc⟩
  simp only [argumentV, check_node, checkAll_cons, checkAll_nil, check_tok] at h
  obtain ⟨st, tl, rfl, ⟨l1, ts1, hn, l2, ts2, ⟨col, h2, hc2, rfl⟩, l3, ts3, hv, hfin⟩, rfl⟩ := h
  cases hfin; subst h2
  have cn := parseName_complete fl _ _ _ _ _ hn
  have hw : width (valueV value) ≤ fuel := by
    have := check_width fl _ _ _ _ _ hv
    have := check_len hn
    simp [width] at *; omega
  have cv := parseValueLiteral_complete fl fuel c value _ _ _ _ (by simpa [wfArgument] using w) hw hv
  simp [parseArgument, bind_eq, peek_cons, cn, expect_pos (cls_kind hc2), cv, mkLoc_eq, pure_eq]

theorem parseArguments_eq (fl : Flags) (fuel : Nat) (c : Bool) :
    parseArguments fl fuel c = optMany fuel .parenL (parseArgument fl fuel c) .parenR := rfl

theorem argumentV_width (a : Argument) : 1 ≤ (argumentV a).yield.length := by
  simp [argumentV, nameV, Item.yield, Item.yieldAll]

theorem parseArguments_sound (fl : Flags) (fuel : Nat) (c : Bool) (s : PS) (as : List Argument) (s' : PS)
    (h : parseArguments fl fuel c s = .ok (as, s')) :
    (∀ a ∈ as, wfArgument c a = true) ∧
      Item.checkAll fl (argumentsV as) s.last s.toks = some (s'.last, s'.toks) ∧
      (as = [] → s' = s ∧ NotK [.parenL] s.toks) := by
  rw [parseArguments_eq] at h
  exact optMany_sound fl _ .parenL .parenR rfl rfl (fun a => wfArgument c a = true) argumentV
    (parseArgument_sound fl fuel c) _ _ _ _ h

theorem parseArguments_complete (fl : Flags) (fuel : Nat) (c : Bool) (as : List Argument) (l l' : Tok)
    (ts rest : List Tok) (w : ∀ a ∈ as, wfArgument c a = true) (hf : ts.length ≤ fuel)
    (hempty : as = [] → NotK [.parenL] rest)
    (h : Item.checkAll fl (argumentsV as) l ts = some (l', rest)) :
    parseArguments fl fuel c ⟨ts, l⟩ = .ok (as, ⟨rest, l'⟩) := by
  rw [parseArguments_eq]
  apply optMany_complete fl _ .parenL .parenR argumentV (fun _ => True) fuel as l l' ts rest
  · exact Nat.le_trans (groupV_len argumentV_width h) hf
  · intro a ha l ts' l' rest hl hc _
    exact parseArgument_complete fl fuel c a l l' ts' rest (w a ha) (Nat.le_trans (Nat.le_of_lt hl) hf) hc
  · intro a _ l ts r hc
    rcases r with ⟨l', rest⟩
    simp only [argumentV, check_node, checkAll_cons] at hc
    obtain ⟨f, tl, rfl, ⟨l1, ts1, hn, _⟩, _⟩ := hc
    obtain ⟨t, tl', e, hk⟩ := nameV_first hn
    cases e
    exact ⟨trivial, NotK.cons (by simp [hk])⟩
  · intros; trivial
  · exact hempty
  · exact h

/-! ### `parse_directive`, `parse_directives` -/

theorem parseDirective_sound (fl : Flags) (fuel : Nat) (c : Bool) (s : PS) (d : Directive) (s' : PS)
    (h : parseDirective fl fuel c s = .ok (d, s')) :
    wfDirective c d = true ∧ (directiveV d).check fl s.last s.toks = some (s'.last, s'.toks) := by
  simp only [parseDirective, bind_ok, expect_ok, mkLoc_ok, pure_ok] at h
  obtain ⟨st, s1, ⟨ts, h1, hk, rfl⟩, nm, s2, hn, as, s3, ha, loc, s4, ⟨rfl, rfl⟩, hfin⟩ := h
  cases hfin
  have cn := parseName_sound fl _ _ _ hn
  obtain ⟨w, ca, _⟩ := parseArguments_sound fl _ _ _ _ _ ha
  simp only at cn
  refine ⟨by simpa [wfDirective] using w, ?_⟩
  simp [directiveV, Item.check, Item.checkAll, h1, cls_const hk rfl, cn]
  rw [ca]; simp


theorem parseDirective_complete (fl : Flags) (fuel : Nat) (c : Bool) (d : Directive) (l l' : Tok) (ts rest : List Tok)
    (w : wfDirective c d = true) (hf : ts.length ≤ fuel) (hfol : d.arguments = [] → NotK [.parenL] rest)
    (h : (directiveV d).check fl l ts = some (l', rest)) :
    parseDirective fl fuel c ⟨ts, l⟩ = .ok (d, ⟨rest, l'⟩) := by
  rcases d with ⟨name, args, loc⟩
  simp only [directiveV, check_node, checkAll_cons, check_tok] at h
  obtain ⟨st, tl, rfl, ⟨l1, ts1, ⟨t, h1, hc, rfl⟩, l2, ts2, hn, ha⟩, rfl⟩ := h
  cases h1
  have cn := parseName_complete fl _ _ _ _ _ hn
  have hl2 : ts2.length ≤ fuel := by
    have := check_len hn; simp at hf; omega
  have ca := parseArguments_complete fl fuel c args l2 l' ts2 rest
    (by simpa [wfDirective] using w) hl2 hfol ha
  simp [parseDirective, bind_eq, expect_pos (cls_kind hc), cn, ca, mkLoc_eq, pure_eq]

theorem directiveV_first {fl : Flags} {d : Directive} {l : Tok} {ts : List Tok} {r : Tok × List Tok}
    (h : (directiveV d).check fl l ts = some r) : ∃ t tl, ts = t :: tl ∧ t.kind = .atSign := by
  rcases r with ⟨l', rest⟩
  simp only [directiveV, check_node, checkAll_cons, check_tok] at h
  obtain ⟨f, tl, rfl, ⟨l1, ts1, ⟨t, h1, hc, _⟩, _⟩, _⟩ := h
  cases h1; exact ⟨_, _, rfl, cls_kind hc⟩

theorem directiveV_width (d : Directive) : 1 ≤ (directiveV d).yield.length := by
  simp [directiveV, Item.yield, Item.yieldAll]

theorem wfDirectives_iff (c : Bool) (ds : List Directive) :
    wfDirectives c ds = true ↔ ∀ d ∈ ds, wfDirective c d = true := by
  simp [wfDirectives]

theorem directivesLoop_sound (fl : Flags) (fuel : Nat) (c : Bool) :
    ∀ (n : Nat) (s : PS) (ds : List Directive) (s' : PS), directivesLoop fl fuel c n s = .ok (ds, s') →
      wfDirectives c ds = true ∧
      Item.checkAll fl (directivesV ds) s.last s.toks = some (s'.last, s'.toks) := by
  intro n
  induction n with
  | zero => intro s ds s' h; simp [directivesLoop, fail_ok] at h
  | succ n ih =>
    intro s ds s' h
    simp only [directivesLoop, bind_ok, peek_ok, ite_ok, pure_ok] at h
    obtain ⟨t, s1, ⟨ts, h1, rfl⟩, h⟩ := h
    rcases h with ⟨hk, d, s2, hd, ds', s3, hds, hfin⟩ | ⟨hk, hfin⟩
    · cases hfin
      obtain ⟨w, cd⟩ := parseDirective_sound fl _ _ _ _ _ hd
      obtain ⟨ws, cds⟩ := ih _ _ _ hds
      refine ⟨by simp [wfDirectives] at ws ⊢; exact ⟨w, ws⟩, ?_⟩
      simp only [directivesV] at cds ⊢
      simp [Item.checkAll, cd, cds]
    · cases hfin
      simp [wfDirectives, directivesV, Item.checkAll]

theorem parseDirectives_sound (fl : Flags) (fuel : Nat) (c : Bool) (s : PS) (ds : List Directive) (s' : PS)
    (h : parseDirectives fl fuel c s = .ok (ds, s')) :
    wfDirectives c ds = true ∧
      Item.checkAll fl (directivesV ds) s.last s.toks = some (s'.last, s'.toks) :=
  directivesLoop_sound fl fuel c fuel s ds s' h

/-- what follows a directive list: a token that is neither `@` nor `(` -/
abbrev FollowDirs (rest : List Tok) : Prop := NotK [.atSign, .parenL] rest

theorem directivesLoop_complete (fl : Flags) (fuel : Nat) (c : Bool) :
    ∀ (n : Nat) (ds : List Directive) (l l' : Tok) (ts rest : List Tok),
      wfDirectives c ds = true → ts.length ≤ fuel → ds.length < n → FollowDirs rest →
      Item.checkAll fl (directivesV ds) l ts = some (l', rest) →
      directivesLoop fl fuel c n ⟨ts, l⟩ = .ok (ds, ⟨rest, l'⟩) := by
  intro n
  induction n with
  | zero => intro ds l l' ts rest _ _ hn; omega
  | succ n ih =>
    intro ds l l' ts rest w hf hn hfol h
    cases ds with
    | nil =>
      simp only [directivesV, List.map_nil, checkAll_nil] at h
      cases h
      obtain ⟨t, tl, rfl, hk⟩ := hfol
      have hk' : t.kind ≠ .atSign := by simp at hk; exact hk.1
      simp [directivesLoop, bind_eq, peek_cons, hk', pure_eq]
    | cons d ds =>
      simp only [directivesV, List.map_cons, checkAll_cons] at h
      obtain ⟨l1, ts1, hd, hds⟩ := h
      obtain ⟨t, tl, rfl, hk⟩ := directiveV_first hd
      simp only [wfDirectives, List.all_cons, Bool.and_eq_true] at w
      -- what follows `d`: the next directive's `@`, or the follow of the list
      have hfd : d.arguments = [] → NotK [.parenL] ts1 := by
        intro _
        cases ds with
        | nil =>
          simp only [List.map_nil, checkAll_nil] at hds
          cases hds
          exact hfol.mono (by simp)
        | cons d2 ds2 =>
          simp only [List.map_cons, checkAll_cons] at hds
          obtain ⟨l2, ts2, hd2, _⟩ := hds
          obtain ⟨t2, tl2, rfl, hk2⟩ := directiveV_first hd2
          exact NotK.cons (by simp [hk2])
      have cd := parseDirective_complete fl fuel c d l l1 (t :: tl) ts1 w.1 hf hfd hd
      have cds := ih ds l1 l' ts1 rest (by simpa [wfDirectives] using w.2) (Nat.le_trans (check_len hd) hf)
        (by simp at hn; omega) hfol (by simpa [directivesV] using hds)
      simp [directivesLoop, bind_eq, peek_cons, hk, cd, cds, pure_eq]

theorem parseDirectives_complete (fl : Flags) (fuel : Nat) (c : Bool) (ds : List Directive) (l l' : Tok)
    (ts rest : List Tok) (w : wfDirectives c ds = true) (hf : ts.length ≤ fuel) (hfol : FollowDirs rest)
    (h : Item.checkAll fl (directivesV ds) l ts = some (l', rest)) :
    parseDirectives fl fuel c ⟨ts, l⟩ = .ok (ds, ⟨rest, l'⟩) := by
  apply directivesLoop_complete fl fuel c fuel ds l l' ts rest w hf ?_ hfol h
  have a := checkAll_width fl _ _ _ _ _ h
  have b := length_le_yieldAll directiveV directiveV_width ds
  obtain ⟨t, tl, rfl, _⟩ := hfol
  simp only [directivesV] at a
  simp at a; omega

end PyGql.Parse

/-
  `OverlappingFieldsCanBeMergedChecker`, soundness half with fragment spreads, part 7: fragments. What
  `_fields_and_fragments` returns for the body of a fragment is complete; the memo test; a loop over fragment names
  that records them in `cmp` (`sumLoop_names`); from a closed set of compared names to a certificate for every field
  of the fragments (`names_closed_cert`).
-/
import PyGqlModel.Lemmas.ValidateOverlapPost2
namespace PyGql.Validate
open PyGql PyGql.Validate.Spec

/-- fragments reachable from a fragment through spreads -/
inductive ReachF (d : Doc) : String → String → Prop where
  | refl (a : String) : ReachF d a a
  | step {a b c : String} : SprF d a b → ReachF d b c → ReachF d a c

/-- no fragment reachable from `name` has the selection set `ssid` as its body (so the `ssid == fid` shortcut of
    `_conflicts_between_fields_and_fragment` is never taken) -/
def Apart (d : Doc) (ssid : Nat) (name : String) : Prop :=
  ∀ n, ReachF d name n → ∀ on fid fsels, AL.get? (fragTable d) n = some (on, fid, fsels) → fid ≠ ssid

theorem Apart.step {d : Doc} {ssid : Nat} {a b : String} (h : Apart d ssid a) (hs : SprF d a b) : Apart d ssid b :=
  fun n hn => h n (.step hs hn)

theorem apart_of_notBody {d : Doc} {i : Nat} (h : NotBody d i) (name : String) : Apart d i name :=
  fun n _ on fid fsels ht e => h n on fsels (e ▸ ht)

/-- what having compared fragment `n` against the field map `fm` means, `CF` = the names compared in this traversal -/
def NameObl (s : SchemaD) (d : Doc) (M : Memo) (me : Bool) (fm : FMap) (CF : List String) (n : String) : Prop :=
  (∀ rn e1 e2, e1 ∈ AL.getD fm rn [] → DirF s d n rn e2 → Cert s d M me e1 e2) ∧ (∀ h, SprF d n h → h ∈ CF)

theorem names_closed_cert {s : SchemaD} {d : Doc} {M : Memo} {me : Bool} {fm : FMap} {CF : List String}
    (hcl : ∀ n ∈ CF, NameObl s d M me fm CF n) {k : Nat} {g rn : String} {e2 : FEntry} (hg : g ∈ CF)
    (h : CollFH s d k g rn e2) : ∀ e1 ∈ AL.getD fm rn [], Cert s d M me e1 e2 := by
  induction h with
  | here t a c => intro e1 he1; exact (hcl _ hg).1 _ _ _ he1 ⟨_, _, _, _, t, a, c⟩
  | there t sp _ ih => exact ih ((hcl _ hg).2 _ ⟨_, _, _, t, sp⟩)

theorem memo_test (pairs : List (String × String × Bool)) (a b : String) (me : Bool) :
    pairs.any (fun k => k.1 == a && k.2.1 == b && k.2.2 == me) = true ↔ (a, b, me) ∈ pairs := by
  rw [List.any_eq_true]
  constructor
  · rintro ⟨⟨x, y, z⟩, hk, he⟩
    simp only [Bool.and_eq_true, beq_iff_eq] at he
    obtain ⟨⟨rfl, rfl⟩, rfl⟩ := he
    exact hk
  · intro h; exact ⟨_, h, by simp⟩

theorem keyObl_of_undefined {s : SchemaD} {d : Doc} {M : Memo} {f1 f2 : String} {me : Bool}
    (h : AL.get? (fragTable d) f1 = none ∨ AL.get? (fragTable d) f2 = none) : KeyObl s d M (keyOf f1 f2 me) := by
  intro h1 h2
  exfalso
  rcases sortedPair_cases f1 f2 with hsp | hsp <;> simp only [keyOf, hsp] at h1 h2 <;> rcases h with h | h <;>
    simp_all

theorem keyObl_of_oriented {s : SchemaD} {d : Doc} {M : Memo} {f1 f2 : String} {me : Bool}
    (o1 : ∀ rn e1 e2, DirF s d f1 rn e1 → DirF s d f2 rn e2 → Cert s d M me e1 e2 ∨ Cert s d M me e2 e1)
    (o2 : ∀ h, SprF d f1 h → CovS M me h f2) (o3 : ∀ h, SprF d f2 h → CovS M me f1 h) :
    KeyObl s d M (keyOf f1 f2 me) := by
  intro _ _
  rcases sortedPair_cases f1 f2 with hsp | hsp
  · simp only [keyOf, hsp]; exact ⟨o1, o2, o3⟩
  · simp only [keyOf, hsp]
    exact ⟨fun rn e1 e2 d1 d2 => (o1 rn e2 e1 d2 d1).symm, fun h hh => (o3 h hh).symm, fun h hh => (o2 h hh).symm⟩

/-- `_fields_and_fragments` on the body of a fragment: sane, complete -/
theorem ff_frag_complete (s : SchemaD) (d : Doc) (hpa : ParentsAgree s d) {c : OCtx} (hc : CI s d c) {name on : String}
    {fid : Nat} {fsels : List Sel} (hg : AL.get? c.frags name = some (on, fid, fsels)) :
    CI s d (fieldsAndFragments s ((typeFromAst s (.named on)).map (·.base)) fid fsels c).2 ∧
    EntOK (fun _ e => Ent s d e) (fieldsAndFragments s ((typeFromAst s (.named on)).map (·.base)) fid fsels c).1.1 ∧
    (∀ rn e, DirF s d name rn e →
      e ∈ AL.getD (fieldsAndFragments s ((typeFromAst s (.named on)).map (·.base)) fid fsels c).1.1 rn []) ∧
    (∀ h, SprF d name h → h ∈ (fieldsAndFragments s ((typeFromAst s (.named on)).map (·.base)) fid fsels c).1.2) ∧
    (∀ h ∈ (fieldsAndFragments s ((typeFromAst s (.named on)).map (·.base)) fid fsels c).1.2, SprF d name h) := by
  have hg' : AL.get? (fragTable d) name = some (on, fid, fsels) := by rw [← hc.frags]; exact hg
  have hadm : Adm s d fid (fragParent s on) := .frag hg'
  obtain ⟨b1, b2, _, _⟩ := ff_frag s d hc (name := name) hg
  obtain ⟨p', xa, xe⟩ := ff_eq s d _ fid fsels c hc.cache hadm
  obtain ⟨_, a3, _, _⟩ := fieldsAndFragments_sound s d _ fid fsels c hc.cache hadm
  refine ⟨b1, b2, ?_, ?_, ?_⟩
  · rintro rn e ⟨on', fid', fsels', p, t, a, cd⟩
    rw [hg'] at t; cases t
    rw [hpa _ _ _ a xa] at cd
    show e ∈ AL.getD (fieldsAndFragments s (fragParent s on) fid fsels c).1.1 rn []
    rw [xe]
    exact collectSels_complete s _ fsels ([], []) rn e (Or.inr cd)
  · rintro h ⟨on', fid', fsels', t, sp⟩
    rw [hg'] at t; cases t
    exact ff_spreads_complete s _ fid fsels c h sp
  · intro h hh
    exact ⟨_, _, _, hg', a3 h hh⟩

variable {s : SchemaD} {d : Doc}

/-- a loop over fragment names each of which is recorded in `cmp` -/
theorem sumLoop_names (xs : List String) (f : String → OCtx → Nat × OCtx) (P : OCtx → Prop)
    (NO : Memo → List String → String → Prop)
    (hf : ∀ x ∈ xs, ∀ c, P c → P (f x c).2 ∧ (∀ n ∈ c.cmp, n ∈ (f x c).2.cmp) ∧
      ((f x c).2.crash = none → x ∈ (f x c).2.cmp ∧
        GP s d c (f x c) (fun M => ∀ CF, (∀ n ∈ (f x c).2.cmp, n ∈ CF) → ∀ n ∈ (f x c).2.cmp, n ∈ c.cmp ∨ NO M CF n)))
    (c : OCtx) (hc : P c) (hn : (sumLoop xs f c).2.crash = none) :
    (∀ x ∈ xs, x ∈ (sumLoop xs f c).2.cmp) ∧ (∀ n ∈ c.cmp, n ∈ (sumLoop xs f c).2.cmp) ∧
    GP s d c (sumLoop xs f c) (fun M => ∀ CF, (∀ n ∈ (sumLoop xs f c).2.cmp, n ∈ CF) →
      ∀ n ∈ (sumLoop xs f c).2.cmp, n ∈ c.cmp ∨ NO M CF n) := by
  unfold sumLoop at hn ⊢
  generalize hF : (fun (acc : Nat × OCtx) x =>
    if acc.2.crash.isSome then acc else ((acc.1 + (f x acc.2).1, (f x acc.2).2) : Nat × OCtx)) = F at hn ⊢
  have key : ∀ (ys : List String) (acc : Nat × OCtx), (∀ x ∈ ys, x ∈ xs) → P acc.2 →
      (ys.foldl F acc).2.crash = none →
      acc.2.crash = none ∧ (∀ k ∈ acc.2.pairs, k ∈ (ys.foldl F acc).2.pairs) ∧
      (∀ n ∈ acc.2.cmp, n ∈ (ys.foldl F acc).2.cmp) ∧ (∀ x ∈ ys, x ∈ (ys.foldl F acc).2.cmp) ∧
      ((ys.foldl F acc).1 = 0 → acc.1 = 0 ∧ ∀ M, Sup (ys.foldl F acc).2 M →
        (∀ k ∈ (ys.foldl F acc).2.pairs, k ∈ acc.2.pairs ∨ KeyObl s d M k) ∧
        ∀ CF, (∀ n ∈ (ys.foldl F acc).2.cmp, n ∈ CF) → ∀ n ∈ (ys.foldl F acc).2.cmp, n ∈ acc.2.cmp ∨ NO M CF n) := by
    intro ys
    induction ys with
    | nil =>
      intro acc _ _ h
      exact ⟨h, fun k hk => hk, fun n hn => hn, (fun _ hx => nomatch hx),
        fun h0 => ⟨h0, fun M _ => ⟨fun k hk => Or.inl hk, fun CF _ n hn => Or.inl hn⟩⟩⟩
    | cons y ys ih =>
      intro acc hsub hp h
      rw [List.foldl_cons] at h ⊢
      have hy : y ∈ xs := hsub y (List.mem_cons_self ..)
      have hys : ∀ x ∈ ys, x ∈ xs := fun x hx => hsub x (List.mem_cons_of_mem _ hx)
      have hstep : F acc y = if acc.2.crash.isSome then acc else (acc.1 + (f y acc.2).1, (f y acc.2).2) := by
        rw [← hF]
      by_cases hcr : acc.2.crash.isSome = true
      · rw [hstep, if_pos hcr] at h
        obtain ⟨a, _⟩ := ih acc hys hp h
        rw [a] at hcr; cases hcr
      · rw [hstep, if_neg hcr] at h ⊢
        obtain ⟨p1, m1, q1⟩ := hf y hy acc.2 hp
        obtain ⟨a, b, cm, cx, c'⟩ := ih (acc.1 + (f y acc.2).1, (f y acc.2).2) hys p1 h
        obtain ⟨hyin, g⟩ := q1 a
        refine ⟨g.crash, fun k hk => b k (g.mono k hk), fun n hn => cm n (m1 n hn), fun x hx => ?_, fun h0 => ?_⟩
        · rcases List.mem_cons.mp hx with rfl | hx
          · exact cm _ hyin
          · exact cx x hx
        · obtain ⟨c1, c2⟩ := c' h0
          simp only at c1
          refine ⟨by omega, fun M hM => ?_⟩
          obtain ⟨d1, d2⟩ := c2 M hM
          have hMy : Sup (f y acc.2).2 M := fun k hk => hM k (b k hk)
          obtain ⟨e1, e2⟩ := g.res (by omega) M hMy
          refine ⟨fun k hk => ?_, fun CF hCF n hn => ?_⟩
          · rcases d1 k hk with h' | h'
            · exact e1 k h'
            · exact Or.inr h'
          · rcases d2 CF hCF n hn with h' | h'
            · exact e2 CF (fun n hn => hCF n (cm n hn)) n h'
            · exact Or.inr h'
  obtain ⟨a, b, cm, cx, c'⟩ := key xs (0, c) (fun _ h => h) hc hn
  exact ⟨cx, cm, a, b, fun h0 M hM => (c' h0).2 M hM⟩

end PyGql.Validate

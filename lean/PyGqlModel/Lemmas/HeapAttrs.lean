/-
  C14 — what a transform KEEPS: every object that persists keeps all its non-reference attributes (`SameHead`), and every
  type object a visitor returns carries the attributes of the type it was called on.
-/
import PyGqlModel.Lemmas.HeapVisibility

set_option linter.unusedSimpArgs false
set_option linter.unusedVariables false
set_option linter.unnecessarySimpa false

namespace PyGql.Heap.Own
open PyGql.Heap

/-! ### every visitor is a step (no hypothesis) -/

theorem visitTypes_step (v : Visitor) (reg : List (String × Addr)) : ∀ (l : List (String × Addr)) (h : Heap),
    StepAll v reg h (visitTypes v reg h l).1 := by
  intro l
  induction l with
  | nil => intro h; exact StepAll.refl v reg h
  | cons e rest ih =>
    intro h
    obtain ⟨n, a⟩ := e
    simp only [visitTypes]
    split
    · exact ih h
    · exact (onType_step v reg h a).trans (ih _)

theorem visitDirs_step (v : Visitor) (reg : List (String × Addr)) : ∀ (l : List (String × Addr)) (h : Heap),
    StepAll v reg h (visitDirs v reg h l).1 := by
  intro l
  induction l with
  | nil => intro h; exact StepAll.refl v reg h
  | cons e rest ih =>
    intro h
    obtain ⟨n, a⟩ := e
    simp only [visitDirs]
    exact (onDirective_step v reg h a).trans (ih _)

/-- the trivial check: every visitor is compatible with it -/
abbrev chkT : Ref → Bool := fun _ => true

theorem visitAll_stepT (v : Visitor) (s : Schema) (h : Heap) : StepImp chkT h (visitAll v s h).1 := by
  simp only [visitAll]
  exact (visitTypes_step v s.types s.types h chkT (compat_true v s.types)).trans
    (visitDirs_step v s.types s.dirs _ chkT (compat_true v s.types))

theorem healLoop_stepT (cfg : Cfg) : ∀ (fuel : Nat) (s : Schema) (h h' : Heap) (s' : Schema),
    healLoop cfg fuel s h = some (h', s') → StepImp chkT h h' := by
  intro fuel
  induction fuel with
  | zero => intro s h h' s' e; simp [healLoop] at e
  | succ fuel ih =>
    intro s h h' s' e
    rw [healLoop] at e
    split at e
    · exact (visitAll_stepT .heal s h).trans (ih _ _ _ _ e)
    · cases e; exact visitAll_stepT .heal s h

theorem onSchema_stepT (cfg : Cfg) (fuel : Nat) (v : Visitor) (s : Schema) (h h' : Heap) (s' : Schema)
    (e : onSchema cfg fuel v s h = some (h', s')) : StepImp chkT h h' := by
  simp only [onSchema, replaceTD] at e
  split at e
  · exact (visitAll_stepT v s h).trans (healLoop_stepT cfg fuel _ _ _ _ e)
  · cases e; exact visitAll_stepT v s h

/-! ### the type object a hook returns carries the attributes of the one it was called on -/

def TAttr (t t' : TypeO) : Prop := SameHead (.type t) (.type t')

theorem TAttr.refl (t : TypeO) : TAttr t t := SameHead.refl _
theorem TAttr.trans {a b c : TypeO} (x : TAttr a b) (y : TAttr b c) : TAttr a c := SameHead.trans x y

theorem rebuiltOrSame_attrs (h0 h1 : Heap) (st : StepImp chkT h0 h1) (a : Addr) (t : TypeO) (ht : h0.readType a = some t) (fs : List Addr) :
    ∃ tu, (rebuiltOrSame h1 a t fs).1.readType (rebuiltOrSame h1 a t fs).2 = some tu ∧ TAttr t tu := by
  simp only [rebuiltOrSame]
  split
  · exact ⟨_, readType_alloc_new _ _, ⟨rfl, rfl, rfl, rfl, rfl, rfl, rfl, rfl⟩⟩
  · exact readType_keep_attrs st a t ht

theorem compositeRest_attrs (v : Visitor) (reg : List (String × Addr)) (a : Addr) (h : Heap) (t : TypeO) (ht : h.readType a = some t) :
    ∀ a', (compositeRest v reg a h t).2 = some a' → ∃ t', (compositeRest v reg a h t).1.readType a' = some t' ∧ TAttr t t' := by
  have hstep := mapFilter_step (onField_step v reg t.name) t.fields h chkT (compat_true v reg)
  obtain ⟨tu, hru, hau⟩ := rebuiltOrSame_attrs h _ hstep a t ht (mapFilter (onField v reg t.name) h t.fields).2
  intro a' e
  simp only [compositeRest] at e ⊢
  cases v with
  | heal =>
    simp only at e ⊢
    split at e
    · rename_i hobj
      simp only [hobj, if_true, hru] at e ⊢
      simp only [Option.some.injEq] at e
      subst e
      exact ⟨_, readType_write_self _ _ _ (readType_lt' hru), hau.trans ⟨rfl, rfl, rfl, rfl, rfl, rfl, rfl, rfl⟩⟩
    · rename_i hobj
      simp only [hobj, Option.some.injEq, Bool.false_eq_true, if_false] at e ⊢
      subst e
      exact ⟨tu, hru, hau⟩
  | vis p => simp only [Option.some.injEq] at e ⊢; subst e; exact ⟨tu, hru, hau⟩
  | camel r => simp only [Option.some.injEq] at e ⊢; subst e; exact ⟨tu, hru, hau⟩
  | sdir d w => simp only [Option.some.injEq] at e ⊢; subst e; exact ⟨tu, hru, hau⟩

theorem onComposite_attrs (v : Visitor) (reg : List (String × Addr)) (h : Heap) (a : Addr) (t : TypeO) (ht : h.readType a = some t) :
    ∀ a', (onComposite v reg h a t).2 = some a' → ∃ t', (onComposite v reg h a t).1.readType a' = some t' ∧ TAttr t t' := by
  simp only [onComposite]
  cases v with
  | vis p =>
    simp only
    split
    · intro a' e; cases e
    · split
      · intro a' e
        obtain ⟨t', h1, h2⟩ := compositeRest_attrs (.vis p) reg a _
          { t with fields := t.fields.filter fun fa => match fieldName h fa with | some fnm => p.fieldVis t.name fnm | none => true }
          (readType_write_self h a _ (readType_lt' ht)) a' e
        exact ⟨t', h1, TAttr.trans ⟨rfl, rfl, rfl, rfl, rfl, rfl, rfl, rfl⟩ h2⟩
      · exact compositeRest_attrs _ reg a h t ht
  | heal => exact compositeRest_attrs _ reg a h t ht
  | camel r => exact compositeRest_attrs _ reg a h t ht
  | sdir d w => exact compositeRest_attrs _ reg a h t ht

theorem inputRest_attrs (v : Visitor) (reg : List (String × Addr)) (a : Addr) (nm : String) (h : Heap) (t : TypeO) (ht : h.readType a = some t) :
    ∀ a', (inputRest v reg a nm h t).2 = some a' → ∃ t', (inputRest v reg a nm h t).1.readType a' = some t' ∧ TAttr t t' := by
  have hstep := mapFilter_step (onInputField_step v reg) t.fields h chkT (compat_true v reg)
  obtain ⟨tu, hru, hau⟩ := rebuiltOrSame_attrs h _ hstep a t ht (mapFilter (onInputField v reg) h t.fields).2
  intro a' e
  simp only [inputRest] at e ⊢
  cases v with
  | vis p =>
    simp only at e ⊢
    split at e
    · rename_i hv
      simp only [hv, if_true, Option.some.injEq] at e ⊢
      subst e
      exact ⟨tu, hru, hau⟩
    · cases e
  | heal => simp only [Option.some.injEq] at e ⊢; subst e; exact ⟨tu, hru, hau⟩
  | camel r => simp only [Option.some.injEq] at e ⊢; subst e; exact ⟨tu, hru, hau⟩
  | sdir d w => simp only [Option.some.injEq] at e ⊢; subst e; exact ⟨tu, hru, hau⟩

theorem onInputObject_attrs (v : Visitor) (reg : List (String × Addr)) (h : Heap) (a : Addr) (t : TypeO) (ht : h.readType a = some t) :
    ∀ a', (onInputObject v reg h a t).2 = some a' → ∃ t', (onInputObject v reg h a t).1.readType a' = some t' ∧ TAttr t t' := by
  simp only [onInputObject]
  cases v with
  | vis p =>
    simp only
    split
    · intro a' e
      obtain ⟨t', h1, h2⟩ := inputRest_attrs (.vis p) reg a t.name _
        { t with fields := t.fields.filter fun fa => match argName h fa with | some fnm => p.inputVis t.name fnm | none => true }
        (readType_write_self h a _ (readType_lt' ht)) a' e
      exact ⟨t', h1, TAttr.trans ⟨rfl, rfl, rfl, rfl, rfl, rfl, rfl, rfl⟩ h2⟩
    · exact inputRest_attrs _ reg a t.name h t ht
  | heal => exact inputRest_attrs _ reg a t.name h t ht
  | camel r => exact inputRest_attrs _ reg a t.name h t ht
  | sdir d w => exact inputRest_attrs _ reg a t.name h t ht

theorem onType_attrs (v : Visitor) (reg : List (String × Addr)) (h : Heap) (a : Addr) (t : TypeO) (ht : h.readType a = some t) :
    ∀ a', (onType v reg h a).2 = some a' → ∃ t', (onType v reg h a).1.readType a' = some t' ∧ TAttr t t' := by
  simp only [onType, ht]
  cases hk : t.kind with
  | object => exact onComposite_attrs v reg h a t ht
  | interface => exact onComposite_attrs v reg h a t ht
  | input => exact onInputObject_attrs v reg h a t ht
  | union =>
    intro a' e
    simp only [onUnion] at e ⊢
    cases v with
    | heal =>
      simp only [Option.some.injEq] at e ⊢; subst e
      exact ⟨_, readType_write_self h a _ (readType_lt' ht), ⟨rfl, rfl, rfl, rfl, rfl, rfl, rfl, rfl⟩⟩
    | vis p =>
      simp only at e ⊢
      split at e
      · rename_i hv
        simp only [hv, if_true, Option.some.injEq] at e ⊢; subst e; exact ⟨t, ht, TAttr.refl t⟩
      · cases e
    | camel r => simp only [Option.some.injEq] at e ⊢; subst e; exact ⟨t, ht, TAttr.refl t⟩
    | sdir d w => simp only [Option.some.injEq] at e ⊢; subst e; exact ⟨t, ht, TAttr.refl t⟩
  | scalar =>
    intro a' e
    simp only [onLeaf] at e ⊢
    cases v with
    | vis p =>
      simp only at e ⊢
      split at e
      · rename_i hv
        simp only [hv, if_true, Option.some.injEq] at e ⊢; subst e; exact ⟨t, ht, TAttr.refl t⟩
      · cases e
    | heal => simp only [Option.some.injEq] at e ⊢; subst e; exact ⟨t, ht, TAttr.refl t⟩
    | camel r => simp only [Option.some.injEq] at e ⊢; subst e; exact ⟨t, ht, TAttr.refl t⟩
    | sdir d w => simp only [Option.some.injEq] at e ⊢; subst e; exact ⟨t, ht, TAttr.refl t⟩
  | enum =>
    intro a' e
    simp only [onLeaf] at e ⊢
    cases v with
    | vis p =>
      simp only at e ⊢
      split at e
      · rename_i hv
        simp only [hv, if_true, Option.some.injEq] at e ⊢; subst e; exact ⟨t, ht, TAttr.refl t⟩
      · cases e
    | heal => simp only [Option.some.injEq] at e ⊢; subst e; exact ⟨t, ht, TAttr.refl t⟩
    | camel r => simp only [Option.some.injEq] at e ⊢; subst e; exact ⟨t, ht, TAttr.refl t⟩
    | sdir d w => simp only [Option.some.injEq] at e ⊢; subst e; exact ⟨t, ht, TAttr.refl t⟩

end PyGql.Heap.Own

/-
  THE MEMOISED SEARCH NEVER LOSES A REPORT, part 1: certificates for the search of `Validate/OverlapMemo.lean`.
  The search has TWO memos: the compared fragment pairs (`ctx.compared_fragment_pairs`) and the compared
  (field map, fragment, mutually exclusive) triples (`ctx.compared_fields_and_fragment`). `MemoM` is a set of keys of
  either kind (`Sum`). `CertM` is `Cert` of `ValidateOverlapCert.lean` with SHALLOW clauses for "fields of one
  sub-selection against a fragment spread in the other": not a certificate for every field reachable through the
  fragment (the search may have met the triple before and returned at once), only that the triple is COVERED by the
  memo (`FCov`). The memo is closed key by key: `KeyOblM` (pairs, as before), `FOblM` (triples: direct fields certified,
  nested spreads covered - UNLESS the fragment's body is the selection set itself: the code returns at the
  `field_map is fragment_field_map` test, nothing is claimed, and `lvFM_of` falls back on the `WithinCertM` of that set). `clause_of_certsM`: closed memo + a `WithinCertM` for every selection set ⇒ the clause of
  5.3.2 (induction on the height of the conflict; triples are chased through the memo along the spread path).
-/
import PyGqlModel.Lemmas.ValidateOverlapPost3
import PyGqlModel.Lemmas.ValidateOverlapWf
namespace PyGql.Validate
open PyGql PyGql.Validate.Spec

abbrev MKey := Sum (String × String × Bool) (Nat × String × Bool)
abbrev MemoM := MKey → Prop

/-- the keys of both memos of a context -/
def keysM (c : OCtx) : List MKey := c.pairs.map Sum.inl ++ c.ffp.map Sum.inr

theorem mem_keysM_inl {c : OCtx} {k : String × String × Bool} : Sum.inl k ∈ keysM c ↔ k ∈ c.pairs := by
  simp [keysM]

theorem mem_keysM_inr {c : OCtx} {k : Nat × String × Bool} : Sum.inr k ∈ keysM c ↔ k ∈ c.ffp := by
  simp [keysM]

def CovM (M : MemoM) (me : Bool) (f1 f2 : String) : Prop := f1 = "" ∨ f2 = "" ∨ f1 = f2 ∨ M (.inl (keyOf f1 f2 me))
def CovSM (M : MemoM) (me : Bool) (f1 f2 : String) : Prop := CovM M me f1 f2 ∨ CovM M me f2 f1
theorem CovSM.symm {M : MemoM} {me : Bool} {f1 f2 : String} (h : CovSM M me f1 f2) : CovSM M me f2 f1 := Or.symm h

/-- the fragment is not defined, or the triple (selection set, fragment, flag) is in the memo -/
def FCov (d : Doc) (M : MemoM) (me : Bool) (ssid : Nat) (g : String) : Prop :=
  AL.get? (fragTable d) g = none ∨ M (.inr (ssid, g, me))

inductive CertM (s : SchemaD) (d : Doc) (M : MemoM) : Bool → FEntry → FEntry → Prop where
  | mk {pme : Bool} {f1 f2 : FEntry} :
      ((pme || exclusiveParents s f1 f2) = false → f1.name = f2.name ∧ sameArguments f1.args f2.args = some true) →
      (∀ t1 t2, f1.fdef.map (·.type) = some t1 → f2.fdef.map (·.type) = some t2 → typesConflict s t1 t2 = false) →
      (f1.hasSub = true → f2.hasSub = true → ∀ rn e1 e2, CollD s f1.subParent f1.sub rn e1 →
        CollD s f2.subParent f2.sub rn e2 → CertM s d M (pme || exclusiveParents s f1 f2) e1 e2) →
      (f1.hasSub = true → f2.hasSub = true → ∀ g, SpreadD f2.sub g →
        FCov d M (pme || exclusiveParents s f1 f2) f1.ssid g) →
      (f1.hasSub = true → f2.hasSub = true → ∀ g, SpreadD f1.sub g →
        FCov d M (pme || exclusiveParents s f1 f2) f2.ssid g) →
      (f1.hasSub = true → f2.hasSub = true → ∀ g1 g2, SpreadD f1.sub g1 → SpreadD f2.sub g2 →
        CovM M (pme || exclusiveParents s f1 f2) g1 g2) →
      CertM s d M pme f1 f2

/-- what a key of the pairs memo stands for -/
def KeyOblM (s : SchemaD) (d : Doc) (M : MemoM) (k : String × String × Bool) : Prop :=
  (AL.get? (fragTable d) k.1).isSome = true → (AL.get? (fragTable d) k.2.1).isSome = true →
  (∀ rn e1 e2, DirF s d k.1 rn e1 → DirF s d k.2.1 rn e2 → CertM s d M k.2.2 e1 e2 ∨ CertM s d M k.2.2 e2 e1) ∧
  (∀ h, SprF d k.1 h → CovSM M k.2.2 h k.2.1) ∧
  (∀ h, SprF d k.2.1 h → CovSM M k.2.2 k.1 h)

/-- what a key of the (field map, fragment, flag) memo stands for: the fields of the selection set are certified
    against the DIRECT fields of the fragment, and the triples of the fragments it spreads are covered -/
def FOblM (s : SchemaD) (d : Doc) (M : MemoM) (k : Nat × String × Bool) : Prop :=
  -- unless the fragment's body IS the selection set (`if field_map is fragment_field_map: return`: nothing was compared)
  (∀ on fid fsels, AL.get? (fragTable d) k.2.1 = some (on, fid, fsels) → fid ≠ k.1) →
  (∀ sels p rn e1 e2, SelSet d k.1 sels → Adm s d k.1 p → CollD s p sels rn e1 → DirF s d k.2.1 rn e2 →
    CertM s d M k.2.2 e1 e2) ∧
  (∀ h, SprF d k.2.1 h → FCov d M k.2.2 k.1 h)

def OblM (s : SchemaD) (d : Doc) (M : MemoM) : MKey → Prop
  | .inl k => KeyOblM s d M k
  | .inr k => FOblM s d M k

structure WithinCertM (s : SchemaD) (d : Doc) (M : MemoM) (i : Nat) (p : Option String) (sels : List Sel) : Prop where
  direct : ∀ rn e1 e2, CollD s p sels rn e1 → CollD s p sels rn e2 → e1 ≠ e2 →
    CertM s d M false e1 e2 ∨ CertM s d M false e2 e1
  frag : ∀ g, SpreadD sels g → FCov d M false i g
  frags : ∀ g1 g2, SpreadD sels g1 → SpreadD sels g2 → CovSM M false g1 g2

theorem keyOblM_of_undefined {s : SchemaD} {d : Doc} {M : MemoM} {f1 f2 : String} {me : Bool}
    (h : AL.get? (fragTable d) f1 = none ∨ AL.get? (fragTable d) f2 = none) : KeyOblM s d M (keyOf f1 f2 me) := by
  intro h1 h2
  exfalso
  rcases sortedPair_cases f1 f2 with hsp | hsp <;> simp only [keyOf, hsp] at h1 h2 <;> rcases h with h | h <;>
    simp_all

theorem keyOblM_of_oriented {s : SchemaD} {d : Doc} {M : MemoM} {f1 f2 : String} {me : Bool}
    (o1 : ∀ rn e1 e2, DirF s d f1 rn e1 → DirF s d f2 rn e2 → CertM s d M me e1 e2 ∨ CertM s d M me e2 e1)
    (o2 : ∀ h, SprF d f1 h → CovSM M me h f2) (o3 : ∀ h, SprF d f2 h → CovSM M me f1 h) :
    KeyOblM s d M (keyOf f1 f2 me) := by
  intro _ _
  rcases sortedPair_cases f1 f2 with hsp | hsp
  · simp only [keyOf, hsp]; exact ⟨o1, o2, o3⟩
  · simp only [keyOf, hsp]
    exact ⟨fun rn e1 e2 d1 d2 => (o1 rn e2 e1 d2 d1).symm, fun h hh => (o3 h hh).symm, fun h hh => (o2 h hh).symm⟩

/-! ### certificates suffice -/

section
variable {s : SchemaD} {d : Doc} {M : MemoM}
variable (hpa : ParentsAgree s d) (hne : AL.get? (fragTable d) "" = none) (hw : WfIds d)
  (hK : ∀ k, M k → OblM s d M k)
  (hW : ∀ i sels, SelSet d i sels → ∀ p, Adm s d i p → WithinCertM s d M i p sels)

def LvAM (s : SchemaD) (d : Doc) (M : MemoM) (n : Nat) : Prop :=
  ∀ me e1 e2, Ent s d e1 → Ent s d e2 → CertM s d M me e1 e2 → ¬ ConfH s d n me e1 e2
def LvChaseM (s : SchemaD) (d : Doc) (M : MemoM) (n : Nat) : Prop :=
  ∀ k1 k2 g1 g2 me rn e1 e2, CovSM M me g1 g2 → CollFH s d k1 g1 rn e1 → CollFH s d k2 g2 rn e2 → ¬ ConfH s d n me e1 e2
/-- a covered triple: no field of the selection set conflicts (height `n`) with a field reachable through the fragment -/
def LvFM (s : SchemaD) (d : Doc) (M : MemoM) (n : Nat) : Prop :=
  ∀ k ssid sels p g me rn e1 e2, FCov d M me ssid g → SelSet d ssid sels → Adm s d ssid p → CollD s p sels rn e1 →
    CollFH s d k g rn e2 → ¬ ConfH s d n me e1 e2

include hpa hw hK hW in
theorem lvFM_of (n : Nat) (hA : LvAM s d M n) (hSelf : LvSelf s d n) : LvFM s d M n := by
  -- the fragment's body is the selection set itself: its fields were compared when the set was entered
  have own : ∀ ssid sels p rn e1 e2 me, SelSet d ssid sels → Adm s d ssid p → CollD s p sels rn e1 →
      CollD s p sels rn e2 → ¬ ConfH s d n me e1 e2 := by
    intro ssid sels p rn e1 e2 me hs ha c1 c2 hconf
    have hconf := relaxF hconf
    by_cases he : e1 = e2
    · subst he; exact hSelf _ (ent_of_collD hs ha c1) hconf
    · rcases (hW _ _ hs _ ha).direct _ _ _ c1 c2 he with hc | hc
      · exact hA _ _ _ (ent_of_collD hs ha c1) (ent_of_collD hs ha c2) hc hconf
      · exact hA _ _ _ (ent_of_collD hs ha c2) (ent_of_collD hs ha c1) hc hconf.symm
  intro k
  induction k with
  | zero =>
    intro ssid sels p g me rn e1 e2 hcov hs ha c1 h2
    cases h2 with
    | here t a c =>
      rcases hcov with hu | hm
      · rw [hu] at t; cases t
      · rename_i on fid fsels p'
        by_cases hid : fid = ssid
        · subst hid
          have := wf_selSet_unique hw (fragTable_selSet t) hs; subst this
          rw [hpa _ _ _ a ha] at c
          exact own _ _ _ _ _ _ me hs ha c1 c
        · have ob : FOblM s d M (ssid, g, me) := hK _ hm
          have ob' := ob (fun on' fid' fsels' t' => by rw [t] at t'; cases t'; exact hid)
          exact hA _ _ _ (ent_of_collD hs ha c1) (ent_of_collD (fragTable_selSet t) a c)
            (ob'.1 sels p rn e1 e2 hs ha c1 ⟨_, _, _, _, t, a, c⟩)
  | succ k ih =>
    intro ssid sels p g me rn e1 e2 hcov hs ha c1 h2
    cases h2 with
    | here t a c =>
      rcases hcov with hu | hm
      · rw [hu] at t; cases t
      · rename_i on fid fsels p'
        by_cases hid : fid = ssid
        · subst hid
          have := wf_selSet_unique hw (fragTable_selSet t) hs; subst this
          rw [hpa _ _ _ a ha] at c
          exact own _ _ _ _ _ _ me hs ha c1 c
        · have ob : FOblM s d M (ssid, g, me) := hK _ hm
          have ob' := ob (fun on' fid' fsels' t' => by rw [t] at t'; cases t'; exact hid)
          exact hA _ _ _ (ent_of_collD hs ha c1) (ent_of_collD (fragTable_selSet t) a c)
            (ob'.1 sels p rn e1 e2 hs ha c1 ⟨_, _, _, _, t, a, c⟩)
    | there t sp r =>
      rcases hcov with hu | hm
      · rw [hu] at t; cases t
      · rename_i on h fid fsels
        by_cases hid : fid = ssid
        · subst hid
          have := wf_selSet_unique hw (fragTable_selSet t) hs; subst this
          intro hconf
          exact ih _ _ p _ false rn e1 e2 ((hW _ _ hs _ ha).frag _ sp) hs ha c1 r (relaxF hconf)
        · have ob : FOblM s d M (ssid, g, me) := hK _ hm
          have ob' := ob (fun on' fid' fsels' t' => by rw [t] at t'; cases t'; exact hid)
          exact ih ssid sels p _ me rn e1 e2 (ob'.2 _ ⟨_, _, _, t, sp⟩) hs ha c1 r

include hpa in
theorem lvAM_step (n : Nat) (hA : LvAM s d M n) (hF : LvFM s d M n) (hC : LvChaseM s d M n) : LvAM s d M (n + 1) := by
  intro me f1 f2 hf1 hf2 hcert hconf
  cases hcert with
  | mk c1 c2 c3 c4 c5 c6 =>
    cases hconf with
    | args hme harg =>
      obtain ⟨a, b⟩ := c1 hme
      rcases harg with h | h
      · exact h a
      · rw [b] at h; cases h
    | types h1 h2 h3 => rw [c2 _ _ h1 h2] at h3; cases h3
    | sub s1 s2 a1 a2 x1 x2 hsub =>
      obtain ⟨hs1, ha1⟩ := hf1.sub s1
      obtain ⟨hs2, ha2⟩ := hf2.sub s2
      rw [hpa _ _ _ a1 ha1] at x1
      rw [hpa _ _ _ a2 ha2] at x2
      rcases x1 with x1 | ⟨g1, hg1, y1⟩ <;> rcases x2 with x2 | ⟨g2, hg2, y2⟩
      · exact hA _ _ _ (ent_of_collD hs1 ha1 x1) (ent_of_collD hs2 ha2 x2) (c3 s1 s2 _ _ _ x1 x2) hsub
      · obtain ⟨k2, z2⟩ := collF_collFH y2
        exact hF k2 _ _ _ _ _ _ _ _ (c4 s1 s2 g2 hg2) hs1 ha1 x1 z2 hsub
      · obtain ⟨k1, z1⟩ := collF_collFH y1
        exact hF k1 _ _ _ _ _ _ _ _ (c5 s1 s2 g1 hg1) hs2 ha2 x2 z1 hsub.symm
      · obtain ⟨k1, z1⟩ := collF_collFH y1
        obtain ⟨k2, z2⟩ := collF_collFH y2
        exact hC k1 k2 g1 g2 _ _ _ _ (Or.inl (c6 s1 s2 g1 g2 hg1 hg2)) z1 z2 hsub
    | subSwap s1 s2 a1 a2 x1 x2 hsub =>
      have hsub := hsub.symm
      obtain ⟨hs1, ha1⟩ := hf1.sub s1
      obtain ⟨hs2, ha2⟩ := hf2.sub s2
      rw [hpa _ _ _ a1 ha1] at x1
      rw [hpa _ _ _ a2 ha2] at x2
      rcases x1 with x1 | ⟨g1, hg1, y1⟩ <;> rcases x2 with x2 | ⟨g2, hg2, y2⟩
      · exact hA _ _ _ (ent_of_collD hs1 ha1 x1) (ent_of_collD hs2 ha2 x2) (c3 s1 s2 _ _ _ x1 x2) hsub
      · obtain ⟨k2, z2⟩ := collF_collFH y2
        exact hF k2 _ _ _ _ _ _ _ _ (c4 s1 s2 g2 hg2) hs1 ha1 x1 z2 hsub
      · obtain ⟨k1, z1⟩ := collF_collFH y1
        exact hF k1 _ _ _ _ _ _ _ _ (c5 s1 s2 g1 hg1) hs2 ha2 x2 z1 hsub.symm
      · obtain ⟨k1, z1⟩ := collF_collFH y1
        obtain ⟨k2, z2⟩ := collF_collFH y2
        exact hC k1 k2 g1 g2 _ _ _ _ (Or.inl (c6 s1 s2 g1 g2 hg1 hg2)) z1 z2 hsub

theorem lvAM_zero : LvAM s d M 0 := by
  intro me f1 f2 _ _ hcert hconf
  cases hcert with
  | mk c1 c2 _ _ _ _ =>
    cases hconf with
    | args hme harg =>
      obtain ⟨a, b⟩ := c1 hme
      rcases harg with h | h
      · exact h a
      · rw [b] at h; cases h
    | types h1 h2 h3 => rw [c2 _ _ h1 h2] at h3; cases h3

def ChPM (s : SchemaD) (d : Doc) (M : MemoM) (n k1 k2 : Nat) : Prop :=
  ∀ g1 g2 me rn e1 e2, CovSM M me g1 g2 → CollFH s d k1 g1 rn e1 → CollFH s d k2 g2 rn e2 → ¬ ConfH s d n me e1 e2

include hpa hW in
theorem bfPM_of (n : Nat) (hA : LvAM s d M n) (hF : LvFM s d M n) (hSelf : LvSelf s d n) (k1 k2 : Nat)
    (hC : ∀ a b, a + b + 2 ≤ k1 + k2 → ChPM s d M n a b) : BfP s d n k1 k2 := by
  intro g rn e1 e2 me h1 h2 hconf
  have hconf := relaxF hconf
  cases h1 with
  | here t1 a1 c1 =>
    cases h2 with
    | here t2 a2 c2 =>
      rw [t1] at t2; cases t2
      rw [hpa _ _ _ a2 a1] at c2
      have hs := fragTable_selSet t1
      by_cases he : e1 = e2
      · subst he; exact hSelf _ (ent_of_collD hs a1 c1) hconf
      · rcases (hW _ _ hs _ a1).direct _ _ _ c1 c2 he with hc | hc
        · exact hA _ _ _ (ent_of_collD hs a1 c1) (ent_of_collD hs a1 c2) hc hconf
        · exact hA _ _ _ (ent_of_collD hs a1 c2) (ent_of_collD hs a1 c1) hc hconf.symm
    | there t2 sp2 r2 =>
      rw [t1] at t2; cases t2
      have hs := fragTable_selSet t1
      exact hF _ _ _ _ _ _ _ _ _ ((hW _ _ hs _ a1).frag _ sp2) hs a1 c1 r2 hconf
  | @there k1' _ _ g1' _ _ _ _ t1 sp1 r1 =>
    cases h2 with
    | here t2 a2 c2 =>
      rw [t1] at t2; cases t2
      have hs := fragTable_selSet t1
      exact hF _ _ _ _ _ _ _ _ _ ((hW _ _ hs _ a2).frag _ sp1) hs a2 c2 r1 hconf.symm
    | @there k2' _ _ g2' _ _ _ _ t2 sp2 r2 =>
      rw [t1] at t2; cases t2
      have hs := fragTable_selSet t1
      obtain ⟨p, hp⟩ : ∃ p, Adm s d _ p := ⟨_, Adm.frag t1⟩
      exact hC k1' k2' (by omega) _ _ _ _ _ _ ((hW _ _ hs _ hp).frags _ _ sp1 sp2) r1 r2 hconf

include hne hK in
theorem chPM_oriented (n : Nat) (hA : LvAM s d M n) (k1 k2 : Nat) (hB : BfP s d n k1 k2)
    (hC : ∀ a b, a + b < k1 + k2 → ChPM s d M n a b)
    (g1 g2 : String) (me : Bool) (rn : String) (e1 e2 : FEntry) (hcov : CovM M me g1 g2)
    (h1 : CollFH s d k1 g1 rn e1) (h2 : CollFH s d k2 g2 rn e2) : ¬ ConfH s d n me e1 e2 := by
  intro hconf
  rcases hcov with rfl | rfl | rfl | hm
  · have := collFH_defined h1; rw [hne] at this; cases this
  · have := collFH_defined h2; rw [hne] at this; cases this
  · exact hB _ _ _ _ _ h1 h2 hconf
  · have ko : KeyOblM s d M (keyOf g1 g2 me) := hK _ hm
    have obl : (∀ rn e1 e2, DirF s d g1 rn e1 → DirF s d g2 rn e2 → CertM s d M me e1 e2 ∨ CertM s d M me e2 e1) ∧
        (∀ h, SprF d g1 h → CovSM M me h g2) ∧ (∀ h, SprF d g2 h → CovSM M me g1 h) := by
      rcases sortedPair_cases g1 g2 with hsp | hsp
      · simp only [keyOf, hsp] at ko
        exact ko (collFH_defined h1) (collFH_defined h2)
      · simp only [keyOf, hsp] at ko
        obtain ⟨o1, o2, o3⟩ := ko (collFH_defined h2) (collFH_defined h1)
        exact ⟨fun rn e1 e2 d1 d2 => (o1 rn e2 e1 d2 d1).symm, fun h hh => (o3 h hh).symm, fun h hh => (o2 h hh).symm⟩
    obtain ⟨o1, o2, o3⟩ := obl
    cases h1 with
    | here t1 a1 c1 =>
      cases h2 with
      | here t2 a2 c2 =>
        have en1 := ent_of_collD (fragTable_selSet t1) a1 c1
        have en2 := ent_of_collD (fragTable_selSet t2) a2 c2
        rcases o1 _ _ _ ⟨_, _, _, _, t1, a1, c1⟩ ⟨_, _, _, _, t2, a2, c2⟩ with hc | hc
        · exact hA _ _ _ en1 en2 hc hconf
        · exact hA _ _ _ en2 en1 hc hconf.symm
      | @there k2' _ _ h _ _ _ _ t2 sp2 r2 =>
        exact hC k1 k2' (by omega) _ _ _ _ _ _ (o3 h ⟨_, _, _, t2, sp2⟩) (.here t1 a1 c1) r2 hconf
    | @there k1' _ _ h _ _ _ _ t1 sp1 r1 =>
      exact hC k1' k2 (by omega) _ _ _ _ _ _ (o2 h ⟨_, _, _, t1, sp1⟩) r1 h2 hconf

include hpa hne hK hW in
theorem lvChaseM_of (n : Nat) (hA : LvAM s d M n) (hF : LvFM s d M n) (hSelf : LvSelf s d n) : LvChaseM s d M n := by
  have key : ∀ m k1 k2, k1 + k2 ≤ m → BfP s d n k1 k2 ∧ ChPM s d M n k1 k2 := by
    intro m
    induction m using Nat.strongRecOn with
    | _ m ih =>
      have hCh : ∀ a b, a + b < m → ChPM s d M n a b := fun a b hab => (ih (a + b) hab a b (Nat.le_refl _)).2
      have hBf : ∀ k1 k2, k1 + k2 ≤ m → BfP s d n k1 k2 := fun k1 k2 hk =>
        bfPM_of hpa hW n hA hF hSelf k1 k2 (fun a b hab => hCh a b (by omega))
      intro k1 k2 hk
      refine ⟨hBf k1 k2 hk, ?_⟩
      intro g1 g2 me rn e1 e2 hcov h1 h2
      rcases hcov with hcov | hcov
      · exact chPM_oriented hne hK n hA k1 k2 (hBf k1 k2 hk) (fun a b hab => hCh a b (by omega)) g1 g2 me rn e1 e2 hcov h1 h2
      · intro hconf
        exact chPM_oriented hne hK n hA k2 k1 (hBf k2 k1 (by omega)) (fun a b hab => hCh a b (by omega))
          g2 g1 me rn e2 e1 hcov h2 h1 hconf.symm
  intro k1 k2 g1 g2 me rn e1 e2 hcov h1 h2
  exact (key (k1 + k2) k1 k2 (Nat.le_refl _)).2 g1 g2 me rn e1 e2 hcov h1 h2

include hW in
theorem lvSetM_of (n : Nat) (hA : LvAM s d M n) (hF : LvFM s d M n) (hSelf : LvSelf s d n) (hC : LvChaseM s d M n) :
    LvSet s d n := by
  intro i sels p rn e1 e2 me hs ha c1 c2 hconf
  have hconf := relaxF hconf
  have W := hW i sels hs p ha
  rcases c1 with c1 | ⟨g1, sp1, y1⟩ <;> rcases c2 with c2 | ⟨g2, sp2, y2⟩
  · by_cases he : e1 = e2
    · subst he; exact hSelf _ (ent_of_collD hs ha c1) hconf
    · rcases W.direct _ _ _ c1 c2 he with hc | hc
      · exact hA _ _ _ (ent_of_collD hs ha c1) (ent_of_collD hs ha c2) hc hconf
      · exact hA _ _ _ (ent_of_collD hs ha c2) (ent_of_collD hs ha c1) hc hconf.symm
  · obtain ⟨k2, z2⟩ := collF_collFH y2
    exact hF k2 _ _ _ _ _ _ _ _ (W.frag _ sp2) hs ha c1 z2 hconf
  · obtain ⟨k1, z1⟩ := collF_collFH y1
    exact hF k1 _ _ _ _ _ _ _ _ (W.frag _ sp1) hs ha c2 z1 hconf.symm
  · obtain ⟨k1, z1⟩ := collF_collFH y1
    obtain ⟨k2, z2⟩ := collF_collFH y2
    exact hC k1 k2 _ _ _ _ _ _ (W.frags _ _ sp1 sp2) z1 z2 hconf

include hpa hne hw hK hW in
theorem levelsM (n : Nat) : LvAM s d M n ∧ LvSelf s d n ∧ LvChaseM s d M n ∧ LvSet s d n := by
  induction n with
  | zero =>
    have a := lvAM_zero (s := s) (d := d) (M := M)
    have b := lvSelf_zero (s := s) (d := d)
    have f := lvFM_of hpa hw hK hW 0 a b
    have c := lvChaseM_of hpa hne hK hW 0 a f b
    exact ⟨a, b, c, lvSetM_of hW 0 a f b c⟩
  | succ n ih =>
    obtain ⟨a0, b0, c0, s0⟩ := ih
    have f0 := lvFM_of hpa hw hK hW n a0 b0
    have a := lvAM_step hpa n a0 f0 c0
    have b := lvSelf_step hpa n s0
    have f := lvFM_of hpa hw hK hW (n + 1) a b
    have c := lvChaseM_of hpa hne hK hW (n + 1) a f b
    exact ⟨a, b, c, lvSetM_of hW (n + 1) a f b c⟩

include hpa hne hw hK hW in
/-- **certificates of the memoised search suffice** -/
theorem clause_of_certsM : Spec.overlappingFieldsCanBeMerged s d := by
  intro i sels hs p ha rn e1 e2 c1 c2 hconf
  obtain ⟨n, hn⟩ := conf_confH hconf
  exact (levelsM hpa hne hw hK hW n).2.2.2 i sels p rn e1 e2 false hs ha c1 c2 hn

end
end PyGql.Validate

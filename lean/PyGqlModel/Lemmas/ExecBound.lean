/-
  C08 — a BOUND on the number of completions of a run (audit round 2, item 8): `weight op` counts the tasks an operation can
  ever submit (one per deferred resolver, two per nested one); the potential `queue length + pot top` never increases under
  `deliver` and every completion removes one task from the queue.
-/
import PyGqlModel.AsyncExec

set_option linter.unusedVariables false
set_option linter.unusedSimpArgs false

namespace PyGql.AsyncExec

def wMode : Mode → Nat
  | .deferred => 1
  | .nested => 2
  | _ => 0

mutual
def wComp : Comp → Nat
  | .nonNull c => wComp c
  | .list items => wComps items
  | .obj fs => wFlds fs
  | _ => 0
def wComps : Comps → Nat
  | .nil => 0
  | .cons c cs => wComp c + wComps cs
def wFlds : Flds → Nat
  | .nil => 0
  | .cons _ mode out rest => wMode mode + wOut out + wFlds rest
def wOut : ROut → Nat
  | .ok c => wComp c
  | _ => 0
end

def potVal : Val → Nat
  | .raw c => wComp c
  | _ => 0

def potK : Cont → Nat
  | .serialCb _ _ _ args => wFlds args
  | _ => 0

mutual
/-- tasks that may still be SUBMITTED because of this node (its own outstanding tasks are in the queue) -/
def pot : Node → Nat
  | .val x => potVal x
  | .done r => pot r
  | .failed _ => 0
  | .task _ _ nested out => (if nested then 1 else 0) + wOut out
  | .chain src k => pot src + potK k
  | .unwrap src => pot src
  | .gather slots _ _ => pots slots
def pots : Nodes → Nat
  | .nil => 0
  | .cons n ns => pot n + pots ns
end

def potRes : Res Node → Nat
  | .ok n => pot n
  | .exc _ => 0

def potsRes : Res Nodes → Nat
  | .ok ns => pots ns
  | .exc _ => 0

def potResVal : Res Val → Nat
  | .ok x => potVal x
  | .exc _ => 0

/-- the callback `k` does not create more than it was accounted for -/
def ApPot (ap : ApplyCont) (k : Cont) : Prop :=
  ∀ r s, (ap k r s).2.queue.length + potRes (ap k r s).1 ≤ s.queue.length + potK k + potResVal r

theorem pot_plain_le (r : Node) : potVal r.plain ≤ pot r := by
  cases r <;> simp [Node.plain, pot, potVal]

theorem pot_unwrapCb : ∀ n : Node, pot (unwrapCb n) = pot n
  | .val x => by simp [unwrapCb, pot]
  | .failed e => by simp [unwrapCb, pot]
  | .done (.val x) => by simp [unwrapCb, pot]
  | .done (.done r) => by
    have := pot_unwrapCb (.done r)
    simpa [unwrapCb, pot] using this
  | .done (.failed e) => by simp [unwrapCb, pot]
  | .done (.task a b c d) => by simp [unwrapCb, pot]
  | .done (.chain a b) => by simp [unwrapCb, pot]
  | .done (.unwrap a) => by simp [unwrapCb, pot]
  | .done (.gather a b c) => by simp [unwrapCb, pot]
  | .task a b c d => by simp [unwrapCb, pot]
  | .chain a b => by simp [unwrapCb, pot]
  | .unwrap a => by simp [unwrapCb, pot]
  | .gather a b c => by simp [unwrapCb, pot]

theorem pot_unwrapValue (n : Node) : pot (unwrapValue n) = pot n := by
  cases n with
  | val x => rfl
  | _ => exact pot_unwrapCb _

theorem chainOnFinish_pot (ap : ApplyCont) (k : Cont) (hap : ApPot ap k) (src : Node) (s : ExecSt) :
    (chainOnFinish ap src k s).2.queue.length + pot (chainOnFinish ap src k s).1 ≤ s.queue.length + pot src + potK k := by
  unfold chainOnFinish
  cases src with
  | failed e =>
    have := hap (.exc e) s
    cases hr : ap k (.exc e) s with
    | mk r s' => rw [hr] at this; cases r <;> simp_all [potRes, pot, potResVal] <;> omega
  | done r0 =>
    have := hap (.ok r0.plain) s
    have hp := pot_plain_le r0
    cases hr : ap k (.ok r0.plain) s with
    | mk r s' => rw [hr] at this; cases r <;> simp_all [potRes, pot, potResVal] <;> omega
  | val x => simp only [pot]; omega
  | task a b c d => simp only [pot]; omega
  | chain a b => simp only [pot]; omega
  | unwrap a => simp only [pot]; omega
  | gather a b c => simp only [pot]; omega

theorem mapValue_pot (ap : ApplyCont) (k : Cont) (hap : ApPot ap k) (src : Node) (s : ExecSt) :
    (mapValue ap src k s).2.queue.length + potRes (mapValue ap src k s).1 ≤ s.queue.length + pot src + potK k := by
  unfold mapValue
  cases src with
  | val x => have := hap (.ok x) s; simp only [potResVal, pot] at this ⊢; omega
  | _ =>
    simp only
    split
    · simp only [potRes]; exact chainOnFinish_pot ap k hap _ s
    · simp only [potRes, pot]; omega

theorem applySimple_pot (k : Cont) : ApPot applySimple k := by
  intro r s
  cases r with
  | exc e => cases k <;> simp [applySimple, potRes, potResVal]
  | ok x =>
    cases k with
    | onFinish => simp [applySimple, potRes, pot, potResVal, potK]
    | collect keys =>
      cases x with
      | data v => cases v <;> simp [applySimple, potRes, pot, potVal, potResVal, potK, collect]
      | raw c => simp [applySimple, potRes, pot, potVal, potResVal, potK, collect]
      | junk => simp [applySimple, potRes, pot, potVal, potResVal, potK, collect]
    | nonNull path =>
      cases x with
      | data v => cases v <;> simp [applySimple, potRes, pot, potVal, potResVal, potK, handleNonNullableValue, ExecSt.addError]
      | raw c => simp [applySimple, potRes, pot, potVal, potResVal, potK, handleNonNullableValue]
      | junk => simp [applySimple, potRes, pot, potVal, potResVal, potK, handleNonNullableValue]
    | complete path => simp only [applySimple, potRes, pot, potVal, potResVal, potK]; omega
    | serialCb a b c d => simp only [applySimple, potRes, pot, potVal, potResVal, potK]; omega


theorem gatherFire_pot (done target : Nat) (d : Except Exc Node) (slots : Nodes) (d' : Nat) (outer : Node)
    (h : gatherFire done target d slots = (d', some outer)) : pot outer = 0 := by
  unfold gatherFire at h
  split at h <;> simp at h
  · rw [← h.2]; simp [pot]
  · rw [← h.2]; simp only [pot, valOfResults]; split <;> simp [potVal]

theorem gatherFires_pot (target : Nat) (slots : Nodes) : ∀ (fired : List (Except Exc Node)) (done d' : Nat) (outer : Node),
    gatherFires done target slots fired = (d', some outer) → pot outer = 0
  | [], done, d', outer, h => by simp [gatherFires] at h
  | d :: rest, done, d', outer, h => by
    simp only [gatherFires] at h
    cases hf : gatherFire done target d slots with
    | mk dn o =>
      rw [hf] at h
      cases o with
      | some out => simp at h; rw [← h.2]; exact gatherFire_pot _ _ _ _ _ _ hf
      | none => exact gatherFires_pot target slots rest dn d' outer h

theorem gatherValues_pot (source : Nodes) : pot (gatherValues source) ≤ pots source := by
  unfold gatherValues
  simp only
  split
  · simp [pot, potVal]
  · split
    · simp only [pot, valOfResults]; split <;> simp [potVal]
    · split
      · rename_i heq; rw [gatherFires_pot _ _ _ _ _ _ heq]; omega
      · simp [pot]

theorem failField_pot (path : Path) (s : ExecSt) :
    (failField path s).2.queue.length = s.queue.length ∧ pot (failField path s).1 = 0 := by
  simp [failField, ExecSt.addError, pot, potVal]

mutual
theorem completeValue_pot : ∀ (c : Comp) (path : Path) (s : ExecSt),
    (completeValue path c s).2.queue.length + potRes (completeValue path c s).1 ≤ s.queue.length + wComp c
  | .null, path, s => by simp [completeValue, potRes, pot, potVal]
  | .leaf v, path, s => by simp [completeValue, potRes, pot, potVal]
  | .bad, path, s => by simp [completeValue, potRes]
  | .nonNull c, path, s => by
    have ih := completeValue_pot c path s
    simp only [completeValue, wComp]
    cases hr : completeValue path c s with
    | mk r s1 =>
      rw [hr] at ih
      cases r with
      | exc e => simpa [potRes] using ih
      | ok n =>
        have := mapValue_pot applySimple (.nonNull path) (applySimple_pot _) n s1
        simp only [potRes, potK] at ih this ⊢
        omega
  | .list items, path, s => by
    have ih := completeItems_pot items path 0 s
    simp only [completeValue, wComp]
    cases hr : completeItems path 0 items s with
    | mk r s1 =>
      rw [hr] at ih
      cases r with
      | exc e => simpa [potRes, potsRes] using ih
      | ok ns =>
        have := gatherValues_pot ns
        simp only [potRes, potsRes] at ih ⊢
        omega
  | .obj fields, path, s => by
    have ih := resolveFields_pot fields path s
    simp only [completeValue, wComp]
    cases hr : resolveFields path fields s with
    | mk r s1 =>
      rw [hr] at ih
      cases r with
      | exc e => simpa [potRes, potsRes] using ih
      | ok ns =>
        have h1 := gatherValues_pot ns
        have h2 := mapValue_pot applySimple (.collect fields.keys) (applySimple_pot _) (gatherValues ns) s1
        simp only [potRes, potsRes, potK] at ih h2 ⊢
        omega
theorem completeItems_pot : ∀ (cs : Comps) (path : Path) (i : Nat) (s : ExecSt),
    (completeItems path i cs s).2.queue.length + potsRes (completeItems path i cs s).1 ≤ s.queue.length + wComps cs
  | .nil, path, i, s => by simp [completeItems, potsRes, pots, wComps]
  | .cons c cs, path, i, s => by
    have ih1 := completeValue_pot c (path ++ [.idx i]) s
    simp only [completeItems, wComps]
    cases hr : completeValue (path ++ [.idx i]) c s with
    | mk r s1 =>
      rw [hr] at ih1
      cases r with
      | exc e => simp only [potRes, potsRes] at ih1 ⊢; omega
      | ok n =>
        have ih2 := completeItems_pot cs path (i + 1) s1
        cases hr2 : completeItems path (i + 1) cs s1 with
        | mk r2 s2 =>
          rw [hr2] at ih2
          cases r2 <;> simp only [hr2, potRes, potsRes, pots] at ih1 ih2 ⊢ <;> omega
theorem resolveFields_pot : ∀ (fs : Flds) (path : Path) (s : ExecSt),
    (resolveFields path fs s).2.queue.length + potsRes (resolveFields path fs s).1 ≤ s.queue.length + wFlds fs
  | .nil, path, s => by simp [resolveFields, potsRes, pots, wFlds]
  | .cons key mode out rest, path, s => by
    have ih1 := resolveField_pot out (path ++ [.key key]) mode s
    simp only [resolveFields, wFlds]
    cases hr : resolveField (path ++ [.key key]) mode out s with
    | mk r s1 =>
      rw [hr] at ih1
      cases r with
      | exc e => simp only [potRes, potsRes] at ih1 ⊢; omega
      | ok n =>
        have ih2 := resolveFields_pot rest path s1
        cases hr2 : resolveFields path rest s1 with
        | mk r2 s2 =>
          rw [hr2] at ih2
          cases r2 <;> simp only [hr2, potRes, potsRes, pots] at ih1 ih2 ⊢ <;> omega
theorem resolveField_pot : ∀ (out : ROut) (path : Path) (mode : Mode) (s : ExecSt),
    (resolveField path mode out s).2.queue.length + potRes (resolveField path mode out s).1
      ≤ s.queue.length + wMode mode + wOut out
  | .rerr, path, mode, s => by
    cases mode <;> simp [resolveField, potRes, pot, potVal, potK, failField, ExecSt.submit, ExecSt.emit, ExecSt.addError, unwrapCb, wMode, wOut]
  | .exc, path, mode, s => by
    cases mode <;> simp [resolveField, potRes, pot, potVal, potK, ExecSt.submit, ExecSt.emit, wMode, wOut]
  | .ok c, path, mode, s => by
    cases mode with
    | deferred => simp [resolveField, potRes, pot, potK, ExecSt.submit, ExecSt.emit, wMode, wOut] <;> omega
    | nested => simp [resolveField, potRes, pot, potK, ExecSt.submit, ExecSt.emit, wMode, wOut] <;> omega
    | sync =>
      have ih := completeValue_pot c path ((s.emit (.call path)).emit (.done path))
      simp only [resolveField, wMode, wOut]
      cases hr : completeValue path c ((s.emit (.call path)).emit (.done path)) with
      | mk r s1 =>
        rw [hr] at ih
        cases r with
        | exc e =>
          cases e <;> simp only [potRes, failField, ExecSt.addError, pot, potVal, ExecSt.emit] at ih ⊢ <;> omega
        | ok n => simp only [potRes, pot_unwrapValue, ExecSt.emit] at ih ⊢; omega
    | ready =>
      have ih := completeValue_pot c path ((s.emit (.call path)).emit (.done path))
      simp only [resolveField, wMode, wOut]
      cases hr : completeValue path c ((s.emit (.call path)).emit (.done path)) with
      | mk r s1 =>
        rw [hr] at ih
        cases r with
        | exc e =>
          cases e <;> simp only [potRes, failField, ExecSt.addError, pot, potVal, ExecSt.emit, pot_unwrapCb] at ih ⊢ <;> omega
        | ok n => simp only [potRes, pot_unwrapCb, pot, ExecSt.emit] at ih ⊢; omega
end


theorem serialNext_pot (path : Path) : ∀ (args : Flds) (resolved : List (String × V)) (s : ExecSt),
    (serialNext path resolved args s).2.queue.length + potRes (serialNext path resolved args s).1 ≤ s.queue.length + wFlds args
  | .nil, resolved, s => by simp [serialNext, potRes, pot, potVal, wFlds]
  | .cons key mode out args, resolved, s => by
    have ih := fun r s' => serialNext_pot path args r s'
    have h1 := resolveField_pot out (path ++ [.key key]) mode s
    simp only [serialNext, wFlds]
    cases hr : resolveField (path ++ [.key key]) mode out s with
    | mk r s1 =>
      rw [hr] at h1
      simp only [potRes] at h1
      cases r with
      | exc e => simp only [potRes] at h1 ⊢; omega
      | ok n =>
        cases n with
        | val x =>
          cases x with
          | data v => have := ih (resolved ++ [(key, v)]) s1; simp only [pot, potVal] at h1; simp only; omega
          | raw c => simp only [potRes, pot, potVal] at h1 ⊢; omega
          | junk => simp only [potRes, pot, potVal] at h1 ⊢; omega
        | failed e => simp only [potRes, pot] at h1 ⊢; omega
        | task a b c d => simp only [potRes, pot, potK] at h1 ⊢; omega
        | chain a b => simp only [potRes, pot, potK] at h1 ⊢; omega
        | unwrap a => simp only [potRes, pot, potK] at h1 ⊢; omega
        | gather a b c => simp only [potRes, pot, potK] at h1 ⊢; omega
        | done r' =>
          cases r' with
          | val x =>
            cases x with
            | data v =>
              simp only
              have := ih (resolved ++ [(key, v)]) s1
              cases hn : serialNext path (resolved ++ [(key, v)]) args s1 with
              | mk rn sn =>
                rw [hn] at this
                cases rn <;> simp only [potRes, pot, potVal] at h1 this ⊢ <;> omega
            | raw c => simp only [potRes, pot, potK, potVal] at h1 ⊢; omega
            | junk => simp only [potRes, pot, potK, potVal] at h1 ⊢; omega
          | done a => simp only [potRes, pot, potK] at h1 ⊢; omega
          | failed a => simp only [potRes, pot, potK] at h1 ⊢; omega
          | task a b c d => simp only [potRes, pot, potK] at h1 ⊢; omega
          | chain a b => simp only [potRes, pot, potK] at h1 ⊢; omega
          | unwrap a => simp only [potRes, pot, potK] at h1 ⊢; omega
          | gather a b c => simp only [potRes, pot, potK] at h1 ⊢; omega

theorem applyCont_pot (k : Cont) : ApPot applyCont k := by
  intro r s
  cases k with
  | complete path =>
    cases r with
    | exc e => cases e <;> simp [applyCont, applySimple, potRes, potResVal, failField, ExecSt.addError, pot, potVal]
    | ok x =>
      cases x with
      | raw c =>
        have := completeValue_pot c path s
        simp only [applyCont]
        cases hr : completeValue path c s with
        | mk r s1 =>
          rw [hr] at this
          cases r with
          | exc e => cases e <;> simp only [potRes, potResVal, potVal, potK, failField, ExecSt.addError, pot] at this ⊢ <;> omega
          | ok n => simp only [potRes, potResVal, potVal, potK] at this ⊢; omega
      | data v => have := applySimple_pot (.complete path) (.ok (.data v)) s; simpa [applyCont] using this
      | junk => have := applySimple_pot (.complete path) (.ok .junk) s; simpa [applyCont] using this
  | serialCb path key resolved args =>
    cases r with
    | exc e => have := applySimple_pot (.serialCb path key resolved args) (.exc e) s; simpa [applyCont] using this
    | ok x =>
      cases x with
      | data v =>
        have := serialNext_pot path args (resolved ++ [(key, v)]) s
        simp only [applyCont, potK, potResVal, potVal]; omega
      | raw c => have := applySimple_pot (.serialCb path key resolved args) (.ok (.raw c)) s; simpa [applyCont] using this
      | junk => have := applySimple_pot (.serialCb path key resolved args) (.ok .junk) s; simpa [applyCont] using this
  | collect keys => have := applySimple_pot (.collect keys) r s; cases r <;> simpa [applyCont] using this
  | nonNull path => have := applySimple_pot (.nonNull path) r s; cases r <;> simpa [applyCont] using this
  | onFinish => have := applySimple_pot .onFinish r s; cases r <;> simpa [applyCont] using this

theorem finishTask_pot (path : Path) (nested : Bool) (out : ROut) (s : ExecSt) :
    (finishTask path nested out s).2.queue.length + pot (finishTask path nested out s).1
      ≤ s.queue.length + ((if nested then 1 else 0) + wOut out) := by
  unfold finishTask
  cases nested <;> cases out <;> simp [pot, potVal, ExecSt.submit, ExecSt.emit, wOut] <;> omega

mutual
theorem deliver_pot : ∀ (n : Node) (t : Nat) (s : ExecSt),
    (deliver applyCont t n s).2.queue.length + pot (deliver applyCont t n s).1 ≤ s.queue.length + pot n
  | .val x, t, s => by simp [deliver]
  | .done r, t, s => by simp [deliver]
  | .failed x, t, s => by simp [deliver]
  | .task id path nested out, t, s => by
    simp only [deliver]
    split
    · exact finishTask_pot _ _ _ _
    · simp
  | .chain src k, t, s => by
    have ih := deliver_pot src t s
    simp only [deliver]
    cases hd : deliver applyCont t src s with
    | mk src' s1 =>
      rw [hd] at ih
      have := chainOnFinish_pot applyCont k (applyCont_pot k) src' s1
      simp only [pot] at ih this ⊢
      omega
  | .unwrap src, t, s => by
    have ih := deliver_pot src t s
    simp only [deliver]
    cases hd : deliver applyCont t src s with
    | mk src' s1 => rw [hd] at ih; simp only [pot, pot_unwrapCb] at ih ⊢; exact ih
  | .gather slots done target, t, s => by
    have ih := deliverSlots_pot slots t s
    simp only [deliver]
    cases hd : deliverSlots applyCont t slots s with
    | mk slots' rest =>
      cases rest with
      | mk fired s1 =>
        rw [hd] at ih
        simp only at ih ⊢
        cases hgf : gatherFires done target slots' fired with
        | mk d o =>
          cases o with
          | some outer => simp only [gatherFires_pot _ _ _ _ _ _ hgf, pot] at ih ⊢; omega
          | none => simp only [pot] at ih ⊢; exact ih
theorem deliverSlots_pot : ∀ (ns : Nodes) (t : Nat) (s : ExecSt),
    (deliverSlots applyCont t ns s).2.2.queue.length + pots (deliverSlots applyCont t ns s).1 ≤ s.queue.length + pots ns
  | .nil, t, s => by simp [deliverSlots]
  | .cons n ns, t, s => by
    have ih1 := deliver_pot n t s
    simp only [deliverSlots]
    cases hd : deliver applyCont t n s with
    | mk n' s1 =>
      rw [hd] at ih1
      have ih2 := deliverSlots_pot ns t s1
      cases hd2 : deliverSlots applyCont t ns s1 with
      | mk ns' rest =>
        cases rest with
        | mk fired s2 =>
          rw [hd2] at ih2
          simp only [pots] at ih1 ih2 ⊢
          omega
end

end PyGql.AsyncExec

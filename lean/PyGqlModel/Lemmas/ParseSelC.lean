/-
  Layer 2 (completeness): selections.
-/
import PyGqlModel.Lemmas.ParseSel
namespace PyGql.Parse
open PyGql PyGql.Ast PyGql.Spec

/-- what follows a selection: not `:`, `(`, `@`, `{` (in a selection set: the next selection or `}`) -/
abbrev FollowSel (rest : List Tok) : Prop := NotK [.colon, .parenL, .atSign, .curlyL] rest

/-- what a selection-set parser must satisfy on token lists shorter than `B` -/
def CompleteSS (fl : Flags) (B : Nat) (pss : P SelectionSet) : Prop :=
  ∀ ss l ts l' rest, ts.length < B → wfSelectionSet ss = true →
    (selectionSetV ss).check fl l ts = some (l', rest) → pss ⟨ts, l⟩ = .ok (ss, ⟨rest, l'⟩)

theorem selectionSetV_first {fl : Flags} {ss : SelectionSet} {l : Tok} {ts : List Tok} {r : Tok × List Tok}
    (h : (selectionSetV ss).check fl l ts = some r) : ∃ t tl, ts = t :: tl ∧ t.kind = .curlyL := by
  rcases r with ⟨l', rest⟩
  cases ss with
  | mk sels loc =>
    simp only [selectionSetV, check_node, checkAll_cons, check_tok] at h
    obtain ⟨f, tl, rfl, ⟨l1, ts1, ⟨t, h1, hc, _⟩, _⟩, _⟩ := h
    cases h1; exact ⟨_, _, rfl, cls_kind hc⟩

theorem parseFieldWith_complete (fl : Flags) (fuel : Nat) (pss : P SelectionSet)
    (al : Option Name) (nm : Name) (as : List Argument) (ds : List Directive) (oss : Option SelectionSet) (loc : Loc)
    (l l' : Tok) (ts rest : List Tok)
    (w : wfSelection (.field al nm as ds oss loc) = true) (hf : ts.length ≤ fuel)
    (hpss : CompleteSS fl ts.length pss)
    (h : (selectionV (.field al nm as ds oss loc)).check fl l ts = some (l', rest)) (hfol : FollowSel rest) :
    parseFieldWith fl fuel pss ⟨ts, l⟩ = .ok (.field al nm as ds oss loc, ⟨rest, l'⟩) := by
  simp only [selectionV_field, check_node] at h
  obtain ⟨f, tl, rfl, hall, rfl⟩ := h
  rw [checkAll_append] at hall
  obtain ⟨la, tsa, hal, hall⟩ := hall
  rw [checkAll_cons] at hall
  obtain ⟨l1, ts1, hn, hall⟩ := hall
  have hall0 := hall
  rw [List.append_assoc, checkAll_append] at hall
  obtain ⟨l2, ts2, ha, hall⟩ := hall
  have hall1 := hall
  rw [checkAll_append] at hall
  obtain ⟨l3, ts3, hd, hss⟩ := hall
  simp only [wfSelection, Bool.and_eq_true, List.all_eq_true] at w
  obtain ⟨⟨wa, wd⟩, wss⟩ := w
  -- lengths
  have len1 : ts1.length < (f :: tl).length := by
    have a := checkAll_len hal
    have b := check_width fl _ _ _ _ _ hn
    simp [nameV, Item.yield, Item.yieldAll] at b; omega
  have len2 : ts2.length ≤ ts1.length := checkAll_len ha
  have len3 : ts3.length ≤ ts2.length := checkAll_len hd
  -- follow facts
  have f1 : NotK [.colon] ts1 :=
    ((firstIn_argumentsV fl as).append ((firstIn_directivesV fl ds).append (firstIn_optSelectionSetV fl oss))).use
      (by simpa [List.append_assoc] using hall0) (hfol.mono (by simp)) (by simp)
  have f2 : NotK [.parenL] ts2 :=
    ((firstIn_directivesV fl ds).append (firstIn_optSelectionSetV fl oss)).use hall1 (hfol.mono (by simp)) (by simp)
  have f3 : FollowDirs ts3 := (firstIn_optSelectionSetV fl oss).use hss (hfol.mono (by simp)) (by simp)
  have ca := parseArguments_complete fl fuel false as l1 l2 ts1 ts2 wa (by omega) (fun _ => f2) ha
  have cd := parseDirectives_complete fl fuel false ds l2 l3 ts2 ts3 wd (by omega) f3 hd
  -- the optional selection set
  have css : (do if (← peek).kind = .curlyL then do
                    let ss ← pss
                    pure (some ss)
                  else pure none : P (Option SelectionSet)) ⟨ts3, l3⟩ = .ok (oss, ⟨rest, l'⟩) := by
    cases oss with
    | none =>
      simp only [optSelectionSetV, checkAll_nil] at hss
      cases hss
      obtain ⟨t, tl', rfl, hk⟩ := hfol
      have hk' : t.kind ≠ .curlyL := by simp at hk; exact hk.2.2.2
      simp [bind_eq, peek_cons, hk', pure_eq]
    | some ss =>
      simp only [optSelectionSetV, checkAll_cons, checkAll_nil] at hss
      obtain ⟨l4, ts4, hs, hfin⟩ := hss
      cases hfin
      obtain ⟨t, tl', rfl, hk⟩ := selectionSetV_first hs
      have c := hpss ss l3 (t :: tl') l' rest (by omega) (by simpa [wfOptSelectionSet] using wss) hs
      simp [bind_eq, peek_cons, hk, c, pure_eq]
  simp only [bind_eq] at css
  cases al with
  | none =>
    simp only [aliasV, checkAll_nil] at hal
    cases hal
    have cn := parseName_complete fl _ _ _ _ _ hn
    obtain ⟨t1, tl1, rfl, hk1⟩ := f1
    have hk1' : t1.kind ≠ .colon := by simpa using hk1
    simp [parseFieldWith, bind_eq, peek_cons, cn, skip_neg hk1', ca, cd, css, mkLoc_eq, pure_eq]
  | some a =>
    simp only [aliasV, checkAll_cons, checkAll_nil, check_tok] at hal
    obtain ⟨l5, ts5, hna, l6, ts6, ⟨col, h6, hc6, rfl⟩, hfin⟩ := hal
    cases hfin; subst h6
    have cna := parseName_complete fl _ _ _ _ _ hna
    have cn := parseName_complete fl _ _ _ _ _ hn
    simp [parseFieldWith, bind_eq, peek_cons, cna, skip_pos (cls_kind hc6), cn, ca, cd, css, mkLoc_eq, pure_eq]


theorem parseFragmentName_complete (fl : Flags) (n : Name) (l l' : Tok) (ts rest : List Tok)
    (hne : n.value ≠ K.on) (h : (nameV n).check fl l ts = some (l', rest)) :
    parseFragmentName fl ⟨ts, l⟩ = .ok (n, ⟨rest, l'⟩) := by
  have c := parseName_complete fl n l l' ts rest h
  rcases n with ⟨v, loc⟩
  simp only [nameV, check_node, checkAll_cons, checkAll_nil, check_tok] at h
  obtain ⟨f, tl, rfl, ⟨l1, ts1, ⟨t, h1, hc, rfl⟩, h2⟩, rfl⟩ := h
  cases h2; cases h1
  have hv : l'.value = v := by
    have hk := cls_kind hc
    simpa [cls, hk, hasValue] using hc
  have : ¬ (l'.value = K.on) := by rw [hv]; exact hne
  simp [parseFragmentName, bind_eq, peek_cons, ite_app, this, c]

theorem parseFragmentWith_spread_complete (fl : Flags) (fuel : Nat) (pss : P SelectionSet)
    (nm : Name) (ds : List Directive) (loc : Loc) (l l' : Tok) (ts rest : List Tok)
    (w : wfSelection (.fragmentSpread nm ds loc) = true) (hf : ts.length ≤ fuel)
    (h : (selectionV (.fragmentSpread nm ds loc)).check fl l ts = some (l', rest)) (hfol : FollowSel rest) :
    parseFragmentWith fl fuel pss ⟨ts, l⟩ = .ok (.fragmentSpread nm ds loc, ⟨rest, l'⟩) := by
  simp only [selectionV, check_node, checkAll_cons, check_tok] at h
  obtain ⟨f, tl, rfl, ⟨l1, ts1, ⟨t, h1, hc, rfl⟩, l2, ts2, hn, hd⟩, rfl⟩ := h
  cases h1
  simp only [wfSelection, Bool.and_eq_true, decide_eq_true_eq] at w
  have cn := parseFragmentName_complete fl nm _ _ _ _ (by simpa using w.1) hn
  have cd := parseDirectives_complete fl fuel false ds l2 l' ts2 rest w.2
    (by have := check_len hn; simp at hf; omega) (hfol.mono (by simp)) hd
  -- the lead token is the name
  rcases nm with ⟨v, nloc⟩
  simp only [nameV, check_node, checkAll_cons, checkAll_nil, check_tok] at hn
  obtain ⟨f2, tl2, rfl, ⟨l3, ts3, ⟨t3, h3, hc3, rfl⟩, h4⟩, _⟩ := hn
  cases h4; cases h3
  have hk := cls_kind hc3
  have hv : l2.value = v := by simpa [cls, hk, hasValue] using hc3
  have hne : ¬ (l2.value = K.on) := by rw [hv]; simpa using w.1
  simp [parseFragmentWith, bind_eq, peek_cons, expect_pos (cls_kind hc), hk, hne, ite_app, cn, cd, mkLoc_eq, pure_eq]

theorem parseFragmentWith_inline_complete (fl : Flags) (fuel : Nat) (pss : P SelectionSet)
    (tc : Option NamedType) (ds : List Directive) (ss : SelectionSet) (loc : Loc) (l l' : Tok) (ts rest : List Tok)
    (w : wfSelection (.inlineFragment tc ds ss loc) = true) (hf : ts.length ≤ fuel)
    (hpss : CompleteSS fl ts.length pss)
    (h : (selectionV (.inlineFragment tc ds ss loc)).check fl l ts = some (l', rest)) :
    parseFragmentWith fl fuel pss ⟨ts, l⟩ = .ok (.inlineFragment tc ds ss loc, ⟨rest, l'⟩) := by
  simp only [selectionV_inline, check_node, checkAll_cons, check_tok] at h
  obtain ⟨f, tl, rfl, ⟨l1, ts1, ⟨t, h1, hc, rfl⟩, hall⟩, rfl⟩ := h
  cases h1
  rw [List.append_assoc, checkAll_append] at hall
  obtain ⟨l2, ts2, htc, hall⟩ := hall
  have hall1 := hall
  rw [checkAll_append] at hall
  obtain ⟨l3, ts3, hd, hs⟩ := hall
  simp only [checkAll_cons, checkAll_nil] at hs
  obtain ⟨l4, ts4, hs, hfin⟩ := hs
  cases hfin
  simp only [wfSelection, Bool.and_eq_true] at w
  obtain ⟨t3, tl3, rfl, hk3⟩ := selectionSetV_first hs
  have len2 : ts2.length ≤ tl.length := checkAll_len htc
  have len3 : (t3 :: tl3).length ≤ ts2.length := checkAll_len hd
  have cd := parseDirectives_complete fl fuel false ds l2 l3 ts2 (t3 :: tl3) w.1
    (by simp at hf; omega) (NotK.cons (by simp [hk3])) hd
  have cs := hpss ss l3 (t3 :: tl3) l' rest (by simp at len3 ⊢; omega) w.2 hs
  -- the first token after `...` (lead): `@` or `{` when there is no type condition
  have hlead : NotK [.name] ts2 :=
    (firstIn_directivesV fl ds).use hd (NotK.cons (by simp [hk3])) (by simp)
  cases tc with
  | none =>
    simp only [tcV, checkAll_nil] at htc
    cases htc
    obtain ⟨t2, tl2, rfl, hk2⟩ := hlead
    have hk2' : t2.kind ≠ .name := by simpa using hk2
    simp [parseFragmentWith, bind_eq, peek_cons, expect_pos (cls_kind hc), hk2', ite_app, cd, cs, mkLoc_eq, pure_eq]
  | some nt =>
    simp only [tcV, checkAll_cons, checkAll_nil, check_tok] at htc
    obtain ⟨l5, ts5, ⟨on_, h5, hc5, rfl⟩, l6, ts6, hnt, hfin⟩ := htc
    cases hfin; subst h5
    have hk5 := cls_kind hc5
    have hv5 : l5.value = K.on := by simpa [cls, hk5, hasValue] using hc5
    have cnt := parseNamedType_complete fl _ _ _ _ _ hnt
    simp [parseFragmentWith, bind_eq, peek_cons, expect_pos (cls_kind hc), hk5, hv5, ite_app, advance_cons, cnt, cd, cs,
      mkLoc_eq, pure_eq]


theorem selectionV_first {fl : Flags} {x : Selection} {l : Tok} {ts : List Tok} {r : Tok × List Tok}
    (h : (selectionV x).check fl l ts = some r) :
    ∃ t tl, ts = t :: tl ∧ (t.kind = .name ∨ t.kind = .ellip) := by
  rcases r with ⟨l', rest⟩
  cases x with
  | field al nm as ds oss loc =>
    simp only [selectionV_field, check_node] at h
    obtain ⟨f, tl, rfl, hall, _⟩ := h
    refine ⟨f, tl, rfl, Or.inl ?_⟩
    cases al with
    | none =>
      simp only [aliasV, List.nil_append, checkAll_cons] at hall
      obtain ⟨_, _, hn, _⟩ := hall
      obtain ⟨t, tl', e, hk⟩ := nameV_first hn
      cases e; exact hk
    | some a =>
      simp only [aliasV, List.cons_append, checkAll_cons] at hall
      obtain ⟨_, _, hn, _⟩ := hall
      obtain ⟨t, tl', e, hk⟩ := nameV_first hn
      cases e; exact hk
  | fragmentSpread nm ds loc =>
    simp only [selectionV, check_node, checkAll_cons, check_tok] at h
    obtain ⟨f, tl, rfl, ⟨l1, ts1, ⟨t, h1, hc, _⟩, _⟩, _⟩ := h
    cases h1; exact ⟨_, _, rfl, Or.inr (cls_kind hc)⟩
  | inlineFragment tc ds ss loc =>
    simp only [selectionV_inline, check_node, checkAll_cons, check_tok] at h
    obtain ⟨f, tl, rfl, ⟨l1, ts1, ⟨t, h1, hc, _⟩, _⟩, _⟩ := h
    cases h1; exact ⟨_, _, rfl, Or.inr (cls_kind hc)⟩

theorem selectionV_width (x : Selection) : 1 ≤ (selectionV x).yield.length := by
  cases x with
  | field al nm as ds oss loc =>
    cases al <;> simp [selectionV_field, aliasV, nameV, Item.yield, Item.yieldAll, yieldAll_append] <;> omega
  | fragmentSpread nm ds loc => simp [selectionV, Item.yield, Item.yieldAll]
  | inlineFragment tc ds ss loc => simp [selectionV_inline, Item.yield, Item.yieldAll]

theorem parseSelectionSetWith_complete (fl : Flags) (fuel : Nat) (psel : P Selection) (B : Nat)
    (hpsel : ∀ x l ts l' rest, ts.length < B → wfSelection x = true →
      (selectionV x).check fl l ts = some (l', rest) → FollowSel rest → psel ⟨ts, l⟩ = .ok (x, ⟨rest, l'⟩))
    (ss : SelectionSet) (l l' : Tok) (ts rest : List Tok) (hB : ts.length ≤ B) (hf : ts.length ≤ fuel)
    (w : wfSelectionSet ss = true) (h : (selectionSetV ss).check fl l ts = some (l', rest)) :
    parseSelectionSetWith fl fuel psel ⟨ts, l⟩ = .ok (ss, ⟨rest, l'⟩) := by
  cases ss with
  | mk sels loc =>
    simp only [selectionSetV, selectionsV_eq, check_node] at h
    obtain ⟨f, tl, rfl, hall, rfl⟩ := h
    simp only [wfSelectionSet, Bool.and_eq_true, wfSelections_eq] at w
    have hne : sels ≠ [] := by cases sels <;> simp_all
    have hlen : sels.length ≤ fuel := by
      have a := checkAll_width fl _ _ _ _ _ hall
      have b := length_le_yieldAll selectionV selectionV_width sels
      simp only [Item.yieldAll, yieldAll_append, List.length_append] at a
      omega
    have c := many_complete fl psel .curlyL .curlyR selectionV FollowSel fuel sels l l' (f :: tl) rest hne hlen
      (by
        intro x hx l ts' l' rest hl hc hfo
        -- the element's tokens come after `{`
        exact hpsel x l ts' l' rest (by omega) (w.2 x hx) hc hfo)
      (by
        intro x _ l ts r hc
        obtain ⟨t, tl', rfl, hk⟩ := selectionV_first hc
        rcases hk with hk | hk <;> exact ⟨NotK.cons (by simp [hk]), NotK.cons (by simp [hk])⟩)
      (by intro t tl hk; exact NotK.cons (by simp [hk]))
      hall
    simp [parseSelectionSetWith, bind_eq, peek_cons, c, mkLoc_eq, pure_eq]


theorem parseSelection_complete (fl : Flags) (fuel : Nat) : ∀ (n : Nat) (x : Selection) (l l' : Tok) (ts rest : List Tok),
    ts.length ≤ n → ts.length ≤ fuel → wfSelection x = true →
    (selectionV x).check fl l ts = some (l', rest) → FollowSel rest →
    parseSelection fl fuel n ⟨ts, l⟩ = .ok (x, ⟨rest, l'⟩) := by
  intro n
  induction n with
  | zero =>
    intro x l l' ts rest hn _ _ h
    obtain ⟨t, tl, rfl, _⟩ := selectionV_first h
    simp at hn
  | succ n ih =>
    intro x l l' ts rest hn hf w h hfol
    obtain ⟨t, tl, rfl, hk⟩ := selectionV_first h
    have hpss : CompleteSS fl (t :: tl).length (parseSelectionSetWith fl fuel (parseSelection fl fuel n)) := by
      intro ss l ts' l' rest hl wss hc
      apply parseSelectionSetWith_complete fl fuel _ ts'.length ?_ ss l l' ts' rest (Nat.le_refl _) (by omega) wss hc
      intro y l ts'' l' rest hl' wy hy hfy
      exact ih y l l' ts'' rest (by simp at hn hl; omega) (by omega) wy hy hfy
    cases x with
    | field al nm as ds oss loc =>
      have hk' : t.kind ≠ .ellip := by
        rcases hk with hk | hk
        · simp [hk]
        · exfalso
          simp only [selectionV_field, check_node] at h
          obtain ⟨f, tl', e, hall, _⟩ := h
          cases e
          cases al with
          | none =>
            simp only [aliasV, List.nil_append, checkAll_cons] at hall
            obtain ⟨_, _, hn', _⟩ := hall
            obtain ⟨t', tl'', e, hk'⟩ := nameV_first hn'
            cases e; simp [hk] at hk'
          | some a =>
            simp only [aliasV, List.cons_append, checkAll_cons] at hall
            obtain ⟨_, _, hn', _⟩ := hall
            obtain ⟨t', tl'', e, hk'⟩ := nameV_first hn'
            cases e; simp [hk] at hk'
      have c := parseFieldWith_complete fl fuel _ al nm as ds oss loc l l' (t :: tl) rest w hf hpss h hfol
      simp [parseSelection, bind_eq, peek_cons, hk', c]
    | fragmentSpread nm ds loc =>
      have hk' : t.kind = .ellip := by
        simp only [selectionV, check_node, checkAll_cons, check_tok] at h
        obtain ⟨f, tl', e, ⟨l1, ts1, ⟨t', h1, hc, _⟩, _⟩, _⟩ := h
        cases e; cases h1; exact cls_kind hc
      have c := parseFragmentWith_spread_complete fl fuel
        (parseSelectionSetWith fl fuel (parseSelection fl fuel n)) nm ds loc l l' (t :: tl) rest w hf h hfol
      simp [parseSelection, bind_eq, peek_cons, hk', c]
    | inlineFragment tc ds ss loc =>
      have hk' : t.kind = .ellip := by
        simp only [selectionV_inline, check_node, checkAll_cons, check_tok] at h
        obtain ⟨f, tl', e, ⟨l1, ts1, ⟨t', h1, hc, _⟩, _⟩, _⟩ := h
        cases e; cases h1; exact cls_kind hc
      have c := parseFragmentWith_inline_complete fl fuel _ tc ds ss loc l l' (t :: tl) rest w hf hpss h
      simp [parseSelection, bind_eq, peek_cons, hk', c]

theorem parseSelectionSet_complete (fl : Flags) (fuel : Nat) (ss : SelectionSet) (l l' : Tok) (ts rest : List Tok)
    (hf : ts.length ≤ fuel) (w : wfSelectionSet ss = true)
    (h : (selectionSetV ss).check fl l ts = some (l', rest)) :
    parseSelectionSet fl fuel ⟨ts, l⟩ = .ok (ss, ⟨rest, l'⟩) := by
  apply parseSelectionSetWith_complete fl fuel _ ts.length ?_ ss l l' ts rest (Nat.le_refl _) hf w h
  intro y l ts' l' rest hl wy hy hfy
  exact parseSelection_complete fl fuel fuel y l l' ts' rest (by omega) (by omega) wy hy hfy

end PyGql.Parse

/-
  C12 — the String-level printer model (`SdlPrint`) and the Text-level one (`SdlPrintT` / `SdlPrintTA`) print the same
  text, part 1: `T : String → Text` (code points) is a homomorphism for every `str` helper of the printer
  (`+`, `join`, `strip`, `json.dumps`, `wrapped_lines`, `split("\n")`, `replace('"""', …)`).
-/
import PyGqlModel.SdlPrintTA
namespace PyGql.SdlModels
open PyGql PyGql.Sdl PyGql.SdlPrintT

theorem T_def (s : String) : T s = s.toList.map Char.toNat := rfl
theorem T_append (a b : String) : T (a ++ b) = T a ++ T b := by simp [T_def, String.toList_append]
theorem T_ofList (l : List Char) : T (String.ofList l) = l.map Char.toNat := by simp [T_def]
theorem T_singleton (c : Char) : T (String.singleton c) = [c.toNat] := by simp [T_def]

theorem map_toNat_inj : ∀ {a b : List Char}, a.map Char.toNat = b.map Char.toNat → a = b
  | [], [], _ => rfl
  | [], _ :: _, h => by simp at h
  | _ :: _, [], h => by simp at h
  | x :: xs, y :: ys, h => by
    simp only [List.map_cons, List.cons.injEq] at h
    rw [Char.toNat_inj.mp h.1, map_toNat_inj h.2]

theorem T_inj {a b : String} : T a = T b ↔ a = b :=
  ⟨fun h => String.toList_inj.mp (map_toNat_inj h), fun h => by rw [h]⟩

theorem T_isEmpty (a : String) : (T a).isEmpty = a.isEmpty := by
  rw [Bool.eq_iff_iff, String.isEmpty_iff, List.isEmpty_iff, T_def, List.map_eq_nil_iff, String.toList_eq_nil_iff]

theorem T_length (a : String) : (T a).length = a.length := by simp [T_def, String.length_toList]

theorem T_bne (a b : String) : (T a != T b) = (a != b) := by
  rw [Bool.eq_iff_iff]; simp [T_inj]

theorem intercalate_map (f : Char → Nat) (sep : List Char) : ∀ l : List (List Char),
    (sep.intercalate l).map f = joinSep (sep.map f) (l.map (·.map f))
  | [] => by simp [List.intercalate, joinSep]
  | [x] => by simp [List.intercalate, joinSep]
  | x :: y :: r => by
    have ih := intercalate_map f sep (y :: r)
    simp [List.intercalate, joinSep] at ih ⊢
    rw [← ih]

theorem T_intercalate (sep : String) (l : List String) : T (sep.intercalate l) = joinSep (T sep) (l.map T) := by
  rw [T_def, String.toList_intercalate, intercalate_map, List.map_map]; rfl

theorem T_repeatStr (s : String) : ∀ n, T (SdlPrint.repeatStr s n) = repeatText (T s) n
  | 0 => rfl
  | n + 1 => by simp only [SdlPrint.repeatStr, repeatText, T_append, T_repeatStr s n]

/-! ### `strip` -/

theorem isWs_toNat (c : Char) : SdlPrint.isWs c = isWs c.toNat := by
  have e : ∀ d : Char, (c == d) = (c.toNat == d.toNat) := fun d => by
    rw [Bool.eq_iff_iff]; simp [Char.toNat_inj]
  simp only [SdlPrint.isWs, isWs, e]
  rfl

theorem isWs_comp : (isWs ∘ Char.toNat) = SdlPrint.isWs := funext fun c => (isWs_toNat c).symm

theorem T_lstrip (s : String) : T (SdlPrint.lstrip s) = lstrip (T s) := by
  simp only [SdlPrint.lstrip, lstrip, T_ofList]
  simp only [T_def, List.dropWhile_map, isWs_comp]

theorem T_rstrip (s : String) : T (SdlPrint.rstrip s) = rstrip (T s) := by
  simp only [SdlPrint.rstrip, rstrip, T_ofList]
  rw [T_def, ← List.map_reverse (l := s.toList), List.dropWhile_map, isWs_comp, List.map_reverse]

theorem T_strip (s : String) : T (SdlPrint.strip s) = strip (T s) := by
  simp only [SdlPrint.strip, strip, T_lstrip, T_rstrip]

/-! ### `json.dumps` -/

theorem hexDigit_toNat : ∀ k : Fin 16, (SdlPrint.hexDigit k.val).toNat = PrintString.hexDigitLower k.val := by decide

theorem hexDigit_toNat' (k : Nat) (h : k < 16) : (SdlPrint.hexDigit k).toNat = PrintString.hexDigitLower k :=
  hexDigit_toNat ⟨k, h⟩

theorem T_hex4 (n : Nat) : T (SdlPrint.hex4 n) =
    [(SdlPrint.hexDigit (n / 4096 % 16)).toNat, (SdlPrint.hexDigit (n / 256 % 16)).toNat, (SdlPrint.hexDigit (n / 16 % 16)).toNat,
     (SdlPrint.hexDigit (n % 16)).toNat] := T_ofList _

theorem T_jsonChar (c : Char) :
    T (let n := c.toNat
       if c == '"' then "\\\"" else if c == '\\' then "\\\\" else if c == '\n' then "\\n" else if c == '\r' then "\\r"
       else if c == '\t' then "\\t" else if n == 8 then "\\b" else if n == 12 then "\\f"
       else if n < 32 then "\\u" ++ SdlPrint.hex4 n
       else String.singleton c) = PrintString.jsonEscapeChar c.toNat := by
  have e : ∀ d : Char, (c == d) = (c.toNat == d.toNat) := fun d => by
    rw [Bool.eq_iff_iff]; simp [Char.toNat_inj]
  simp only [e, PrintString.jsonEscapeChar]
  by_cases h1 : c.toNat = 34
  · simp [h1]; decide
  by_cases h2 : c.toNat = 92
  · simp [h2]; decide
  by_cases h3 : c.toNat = 10
  · simp [h3]; decide
  by_cases h4 : c.toNat = 13
  · simp [h4]; decide
  by_cases h5 : c.toNat = 9
  · simp [h5]; decide
  by_cases h6 : c.toNat = 8
  · simp [h6]; decide
  by_cases h7 : c.toNat = 12
  · simp [h7]; decide
  by_cases h8 : c.toNat < 32
  · have a1 : c.toNat / 4096 % 16 = 0 := by omega
    have a2 : c.toNat / 256 % 16 = 0 := by omega
    have a3 : c.toNat / 16 % 16 = c.toNat / 16 := by omega
    have b3 : c.toNat / 16 < 16 := by omega
    have b4 : c.toNat % 16 < 16 := by omega
    have hz : (SdlPrint.hexDigit 0).toNat = 48 := by decide
    have hu : T "\\u" = [92, 117] := by decide
    simp [h1, h2, h3, h4, h5, h6, h7, h8, T_append, T_hex4, a1, a2, a3, hz, hu,
      hexDigit_toNat' _ b3, hexDigit_toNat' _ b4]
  · simp [h1, h2, h3, h4, h5, h6, h7, h8, T_singleton]

theorem T_join (l : List String) : T (String.join l) = l.flatMap T := by
  rw [T_def, String.toList_join, List.map_flatMap]; rfl

theorem jsonEscape_flatMap : ∀ t : Text, PrintString.jsonEscape t = t.flatMap PrintString.jsonEscapeChar
  | [] => rfl
  | c :: t => by simp [PrintString.jsonEscape, jsonEscape_flatMap t]

theorem T_jsonDumps (s : String) : T (SdlPrint.jsonDumps s) = PrintString.jsonDumps (T s) := by
  have hq : T "\"" = [34] := by decide
  unfold SdlPrint.jsonDumps PrintString.jsonDumps
  rw [T_append, T_append, T_join, hq, jsonEscape_flatMap, List.flatMap_map, T_def, List.flatMap_map]
  have : ∀ c : Char, T ((fun c : Char =>
      let n := c.toNat
      if c == '"' then "\\\"" else if c == '\\' then "\\\\" else if c == '\n' then "\\n" else if c == '\r' then "\\r"
      else if c == '\t' then "\\t" else if n == 8 then "\\b" else if n == 12 then "\\f"
      else if n < 32 then "\\u" ++ SdlPrint.hex4 n
      else String.singleton c) c) = PrintString.jsonEscapeChar c.toNat := T_jsonChar
  simp only [this]
  rfl

/-! ### `wrapped_lines` -/

theorem splitWords_map : ∀ (cs stack : List Char),
    (SdlPrint.splitWords cs stack).map T = splitWords (cs.map Char.toNat) (stack.map Char.toNat)
  | [], stack => by
    simp only [SdlPrint.splitWords, splitWords, List.map_nil, List.isEmpty_map]
    cases stack.isEmpty <;> simp [T_ofList]
  | c :: cs, stack => by
    have e : ∀ d : Char, (c == d) = (c.toNat == d.toNat) := fun d => by
      rw [Bool.eq_iff_iff]; simp [Char.toNat_inj]
    have h32 : (' ' : Char).toNat = 32 := rfl
    have h45 : ('-' : Char).toNat = 45 := rfl
    have h95 : ('_' : Char).toNat = 95 := rfl
    simp only [SdlPrint.splitWords, splitWords, List.map_cons, e, h32, h45, h95, List.isEmpty_map]
    split
    · have ih := splitWords_map cs []
      cases stack.isEmpty <;> simp [T_ofList, T_singleton, ih]
    · have ih := splitWords_map cs (c :: stack)
      simpa using ih

theorem T_space : T " " = [32] := by decide
theorem T_nil : T "" = [] := by decide

theorem wrapLine_map (m : Nat) : ∀ (es : List String) (w : String),
    (SdlPrint.wrapLine m es w).map T = wrapLine m (es.map T) (T w)
  | [], w => by
    simp only [SdlPrint.wrapLine, wrapLine, List.map_nil, T_isEmpty]
    cases w.isEmpty <;> simp
  | e :: es, w => by
    have hb : (T e != [32]) = (e != " ") := by rw [← T_space, T_bne]
    simp only [SdlPrint.wrapLine, wrapLine, List.map_cons, ← T_append, T_length, hb, T_isEmpty]
    split
    · simp only [List.map_cons]
      rw [wrapLine_map m es]
      cases (e != " ") <;> simp [T_nil]
    · rw [wrapLine_map m es]
      cases (e != " " || !w.isEmpty) <;> simp

theorem wrappedLines_map (lines : List String) (m : Nat) :
    (SdlPrint.wrappedLines lines m).map T = wrappedLines (lines.map T) m := by
  simp only [SdlPrint.wrappedLines, wrappedLines, List.map_flatMap, List.flatMap_map]
  congr 1
  funext l
  simp only [T_length]
  split
  · rfl
  · rw [wrapLine_map, splitWords_map]; rfl

/-! ### `split("\n")`, `replace('"""', '\\"""')` -/

theorem splitLFc_map : ∀ cs : List Char, (SdlPrint.splitLFc cs).map (·.map Char.toNat) = splitLF (cs.map Char.toNat)
  | [] => rfl
  | c :: cs => by
    have e : (c = '\n') ↔ (c.toNat = 10) := by
      rw [show (10 : Nat) = ('\n' : Char).toNat from rfl, Char.toNat_inj]
    have ih := splitLFc_map cs
    simp only [SdlPrint.splitLFc, splitLF, List.map_cons]
    by_cases h : c = '\n'
    · simp [h, ih]
    · have h' : ¬ c.toNat = 10 := fun x => h (e.mpr x)
      simp only [h, h', if_false]
      rw [← ih]
      cases SdlPrint.splitLFc cs <;> simp

theorem splitLines_map (d : String) : (SdlPrint.splitLines d).map T = splitLF (T d) := by
  simp only [SdlPrint.splitLines, List.map_map, T_def]
  rw [← splitLFc_map]
  congr 1
  funext l
  simp [T_def]

theorem isPrefixOf_map : ∀ (a b : List Char), (a.map Char.toNat).isPrefixOf (b.map Char.toNat) = a.isPrefixOf b
  | [], _ => by simp
  | _ :: _, [] => by simp
  | x :: xs, y :: ys => by
    have e : (x.toNat == y.toNat) = (x == y) := by rw [Bool.eq_iff_iff]; simp [Char.toNat_inj]
    simp [List.isPrefixOf, e, isPrefixOf_map xs ys]

theorem escTQc_map : ∀ (k : Nat) (cs : List Char),
    (SdlPrint.escTQc k cs).map Char.toNat = PrintString.escapeTQAux k (cs.map Char.toNat)
  | _, [] => by simp [SdlPrint.escTQc, PrintString.escapeTQAux]
  | k + 1, c :: t => by simp [SdlPrint.escTQc, PrintString.escapeTQAux, escTQc_map k t]
  | 0, c :: t => by
    have hp : ([34, 34, 34] : List Nat).isPrefixOf ((c :: t).map Char.toNat) = ['"', '"', '"'].isPrefixOf (c :: t) :=
      isPrefixOf_map ['"', '"', '"'] (c :: t)
    simp only [List.map_cons] at hp
    simp only [SdlPrint.escTQc, PrintString.escapeTQAux, List.map_cons, hp]
    split
    · simp [escTQc_map 2 t]
    · simp [escTQc_map 0 t]

theorem T_escTriple (s : String) : T (SdlPrint.escTriple s) = PrintString.escapeTripleQuotes (T s) := by
  simp only [SdlPrint.escTriple, PrintString.escapeTripleQuotes, T_ofList, escTQc_map]
  rfl

end PyGql.SdlModels

/-
  The scoped events of a document (`docEvs`) versus the declarative notions of `Spec/ValidSpecVars.lean`
  (`OpSpreads`, `FragSpreads`, `UsedDirectly`, `FragUses`, `defUsages`, `varDefFor`, `DefinedIn`).
-/
import PyGqlModel.Lemmas.ValidateVarsNodes
import PyGqlModel.Lemmas.ValidateVarsRun
namespace PyGql.Validate
open PyGql PyGql.Validate.Spec

def docEvs (s : SchemaD) (d : Doc) : List (Scope × VEv) := d.defs.flatMap (defEvs s)

theorem mem_useEvs (l : List (String × Usage)) (e : VEv) : e ∈ VC.useEvs l ↔ ∃ p ∈ l, e = .use p.1 p.2 := by
  simp [VC.useEvs, eq_comm]

theorem mem_vlog_spread (s : SchemaD) (l : List (Node × View)) (g : String) :
    VEv.spread g ∈ vlog s l ↔ ∃ dirs w, (Node.spread g dirs, w) ∈ l := by
  simp only [vlog, List.mem_flatMap]
  constructor
  · rintro ⟨⟨n, w⟩, hp, he⟩
    cases n <;> simp only [evOf, mem_useEvs, List.mem_singleton, List.not_mem_nil, reduceCtorEq, and_false,
      exists_false, VEv.spread.injEq] at he
    subst he
    exact ⟨_, _, hp⟩
  · rintro ⟨dirs, w, hp⟩
    exact ⟨_, hp, by simp [evOf]⟩

theorem mem_vlog_use (s : SchemaD) (l : List (Node × View)) (x : String) (u : Usage) :
    VEv.use x u ∈ vlog s l ↔ (x, u) ∈ l.flatMap (nodeUsages s) := by
  simp only [vlog, List.mem_flatMap]
  constructor
  · rintro ⟨⟨n, w⟩, hp, he⟩
    refine ⟨(n, w), hp, ?_⟩
    cases n <;> simp only [evOf, mem_useEvs, List.mem_singleton, List.not_mem_nil, reduceCtorEq, and_false,
      exists_false, VEv.use.injEq] at he
    obtain ⟨p, hp', rfl, rfl⟩ := he
    exact hp'
  · rintro ⟨⟨n, w⟩, hp, he⟩
    refine ⟨(n, w), hp, ?_⟩
    cases n <;> simp only [nodeUsages, List.not_mem_nil] at he
    simp only [evOf, mem_useEvs]
    exact ⟨_, he, rfl⟩

theorem mem_defEvs_op (s : SchemaD) (df : Def) (o : String) (e : VEv) :
    (Scope.op o, e) ∈ defEvs s df ↔ df.opKey? = some o ∧ e ∈ vlog s (tnDef s df) := by
  cases df with
  | op kind name vars dirs ssid sels =>
    simp only [defEvs, Def.opKey?, List.mem_map, Prod.mk.injEq, Scope.op.injEq, Option.some.injEq]
    constructor
    · rintro ⟨a, ha, rfl, rfl⟩; exact ⟨rfl, ha⟩
    · rintro ⟨rfl, ha⟩; exact ⟨e, ha, rfl, rfl⟩
  | frag name on dirs ssid sels => simp [defEvs, Def.opKey?]
  | ts a b => simp [defEvs, Def.opKey?]

theorem mem_defEvs_frag (s : SchemaD) (df : Def) (f : String) (e : VEv) :
    (Scope.frag f, e) ∈ defEvs s df ↔ df.fragName? = some f ∧ e ∈ vlog s (tnDef s df) := by
  cases df with
  | frag name on dirs ssid sels =>
    simp only [defEvs, Def.fragName?, List.mem_map, Prod.mk.injEq, Scope.frag.injEq, Option.some.injEq]
    constructor
    · rintro ⟨a, ha, rfl, rfl⟩; exact ⟨rfl, ha⟩
    · rintro ⟨rfl, ha⟩; exact ⟨e, ha, rfl, rfl⟩
  | op kind name vars dirs ssid sels => simp [defEvs, Def.fragName?]
  | ts a b => simp [defEvs, Def.fragName?]

theorem mem_defSpreads (s : SchemaD) (df : Def) (g : String) :
    VEv.spread g ∈ vlog s (tnDef s df) ↔ g ∈ defSpreads df := by
  rw [mem_vlog_spread, defSpreads, ← tnDef_fst s df]
  simp only [List.mem_flatMap, List.mem_map]
  constructor
  · rintro ⟨dirs, w, hp⟩
    exact ⟨_, ⟨_, hp, rfl⟩, by simp⟩
  · rintro ⟨n, ⟨⟨n', w⟩, hp, rfl⟩, hg⟩
    cases n' <;> simp only [List.mem_singleton, List.not_mem_nil] at hg
    subst hg
    exact ⟨_, _, hp⟩

theorem mem_defVarUses (s : SchemaD) (df : Def) (x : String) :
    (∃ u, (x, u) ∈ defUsages s df) ↔ x ∈ defVarUses df := by
  rw [defVarUses, ← tnDef_fst s df, defUsages]
  simp only [List.mem_flatMap, List.mem_map]
  constructor
  · rintro ⟨u, ⟨n, w⟩, hp, hu⟩
    refine ⟨n, ⟨_, hp, rfl⟩, ?_⟩
    cases n <;> simp only [nodeUsages, List.not_mem_nil] at hu
    simp only
    rw [← usesValue_fst s]
    exact List.mem_map.mpr ⟨_, hu, rfl⟩
  · rintro ⟨n, ⟨⟨n', w⟩, hp, rfl⟩, hx⟩
    cases n' <;> simp only [List.not_mem_nil] at hx
    rename_i a
    rw [← usesValue_fst s (argPos s w a.name)] at hx
    obtain ⟨⟨x', u⟩, hu, rfl⟩ := List.mem_map.mp hx
    exact ⟨u, _, hp, hu⟩

theorem docEvs_spread_op (s : SchemaD) (d : Doc) (o g : String) :
    (Scope.op o, VEv.spread g) ∈ docEvs s d ↔ OpSpreads d o g := by
  simp only [docEvs, List.mem_flatMap, mem_defEvs_op, mem_defSpreads, OpSpreads]

theorem docEvs_spread_frag (s : SchemaD) (d : Doc) (f g : String) :
    (Scope.frag f, VEv.spread g) ∈ docEvs s d ↔ FragSpreads d f g := by
  simp only [docEvs, List.mem_flatMap, mem_defEvs_frag, mem_defSpreads, FragSpreads]

theorem docEvs_use_op (s : SchemaD) (d : Doc) (o x : String) (u : Usage) :
    (Scope.op o, VEv.use x u) ∈ docEvs s d ↔ ∃ df ∈ d.defs, df.opKey? = some o ∧ (x, u) ∈ defUsages s df := by
  simp only [docEvs, List.mem_flatMap, mem_defEvs_op, mem_vlog_use, defUsages]

theorem docEvs_use_frag (s : SchemaD) (d : Doc) (f x : String) (u : Usage) :
    (Scope.frag f, VEv.use x u) ∈ docEvs s d ↔ ∃ df ∈ d.defs, df.fragName? = some f ∧ (x, u) ∈ defUsages s df := by
  simp only [docEvs, List.mem_flatMap, mem_defEvs_frag, mem_vlog_use, defUsages]

theorem docEvs_useK_op (s : SchemaD) (d : Doc) (o x : String) :
    (∃ u, (Scope.op o, VEv.use x u) ∈ docEvs s d) ↔ UsedDirectly d o x := by
  simp only [docEvs_use_op, UsedDirectly, ← mem_defVarUses s]
  constructor
  · rintro ⟨u, df, h1, h2, h3⟩; exact ⟨df, h1, h2, u, h3⟩
  · rintro ⟨df, h1, h2, u, h3⟩; exact ⟨u, df, h1, h2, h3⟩

theorem docEvs_useK_frag (s : SchemaD) (d : Doc) (f x : String) :
    (∃ u, (Scope.frag f, VEv.use x u) ∈ docEvs s d) ↔ FragUses d f x := by
  simp only [docEvs_use_frag, FragUses, ← mem_defVarUses s]
  constructor
  · rintro ⟨u, df, h1, h2, h3⟩; exact ⟨df, h1, h2, u, h3⟩
  · rintro ⟨df, h1, h2, u, h3⟩; exact ⟨u, df, h1, h2, h3⟩

/-! ### variable definitions, in order -/

def defnsOf (evs : List VEv) : List VarDef := evs.filterMap fun | .defn v => some v | _ => none
def varDefOf? : Node → Option VarDef | .varDef v => some v | _ => none

theorem defnsOf_useEvs (l : List (String × Usage)) : defnsOf (VC.useEvs l) = [] := by
  induction l with
  | nil => rfl
  | cons p l ih => simp [defnsOf, VC.useEvs]

theorem defnsOf_append (a b : List VEv) : defnsOf (a ++ b) = defnsOf a ++ defnsOf b := by simp [defnsOf]

theorem defnsOf_vlog (s : SchemaD) (l : List (Node × View)) : defnsOf (vlog s l) = (l.map (·.1)).filterMap varDefOf? := by
  induction l with
  | nil => rfl
  | cons p l ih =>
    obtain ⟨n, w⟩ := p
    rw [vlog_cons, defnsOf_append, ih, List.map_cons, List.filterMap_cons]
    cases n <;> first | rfl | (simp only [evOf, defnsOf_useEvs, varDefOf?, List.nil_append]) | (simp [evOf, varDefOf?, defnsOf])

theorem filterMap_varDef_nil (ns : List Node) (h : ∀ n ∈ ns, n.isVarDef = false) : ns.filterMap varDefOf? = [] := by
  rw [List.filterMap_eq_nil_iff]
  intro n hn
  have := h n hn
  cases n <;> simp_all [varDefOf?, Node.isVarDef]

theorem filterMap_varDefNodes (vars : List VarDef) : (vars.flatMap varDefNodes).filterMap varDefOf? = vars := by
  induction vars with
  | nil => rfl
  | cons v vs ih =>
    rw [List.flatMap_cons, List.filterMap_append, ih, varDefNodes, List.filterMap_cons]
    simp only [varDefOf?]
    rw [filterMap_varDef_nil]
    · rfl
    · intro n hn
      rcases List.mem_append.mp hn with hn | hn
      · cases hd : v.default with
        | none => rw [hd] at hn; cases hn
        | some dv => rw [hd] at hn; exact valueNodes_noVarDef dv n hn
      · rcases List.mem_cons.mp hn with rfl | hn
        · rfl
        · exact dirsNodes_noVarDef v.dirs n hn

theorem defnsOf_tnDef (s : SchemaD) (df : Def) : defnsOf (vlog s (tnDef s df)) = df.vars := by
  rw [defnsOf_vlog, tnDef_fst]
  cases df with
  | op kind name vars dirs ssid sels =>
    simp only [defNodes, List.filterMap_cons, varDefOf?, List.filterMap_append, filterMap_varDefNodes, Def.vars]
    rw [filterMap_varDef_nil _ (dirsNodes_noVarDef dirs), filterMap_varDef_nil _ (selsNodes_noVarDef sels)]
    simp
  | frag name on dirs ssid sels =>
    simp only [defNodes, List.filterMap_cons, varDefOf?, List.filterMap_append, Def.vars]
    rw [filterMap_varDef_nil _ (dirsNodes_noVarDef dirs), filterMap_varDef_nil _ (selsNodes_noVarDef sels)]
    rfl
  | ts a b => rfl

/-- the last definition named `x` in a list, `init` if there is none -/
def lastIn (x : String) : List VarDef → Option VarDef → Option VarDef
  | [], init => init
  | v :: vs, init => lastIn x vs (if x = v.name then some v else init)

theorem lastIn_append (x : String) (a b : List VarDef) (init : Option VarDef) :
    lastIn x (a ++ b) init = lastIn x b (lastIn x a init) := by
  induction a generalizing init with
  | nil => rfl
  | cons v vs ih => simp only [List.cons_append, lastIn, ih]

theorem lastDefn_append (o x : String) (a b : List (Scope × VEv)) (init : Option VarDef) :
    lastDefn o x (a ++ b) init = lastDefn o x b (lastDefn o x a init) := by
  induction a generalizing init with
  | nil => rfl
  | cons e es ih =>
    obtain ⟨sc, ev⟩ := e
    cases sc <;> cases ev <;> simp only [List.cons_append, lastDefn, ih]

theorem lastDefn_map_op (o x k : String) (evs : List VEv) (init : Option VarDef) :
    lastDefn o x (evs.map fun e => (Scope.op k, e)) init = if o = k then lastIn x (defnsOf evs) init else init := by
  induction evs generalizing init with
  | nil => simp [lastDefn, defnsOf, lastIn]
  | cons e es ih =>
    cases e <;> simp only [List.map_cons, lastDefn, ih, defnsOf, List.filterMap_cons, lastIn]
    by_cases h : o = k <;> simp [h]

theorem lastDefn_map_frag (o x f : String) (evs : List VEv) (init : Option VarDef) :
    lastDefn o x (evs.map fun e => (Scope.frag f, e)) init = init := by
  induction evs generalizing init with
  | nil => rfl
  | cons e es ih => cases e <;> simp only [List.map_cons, lastDefn, ih]

theorem lastDefn_defEvs (s : SchemaD) (o x : String) (df : Def) (init : Option VarDef) :
    lastDefn o x (defEvs s df) init = lastIn x (if df.opKey? = some o then df.vars else []) init := by
  cases df with
  | op kind name vars dirs ssid sels =>
    simp only [defEvs, lastDefn_map_op, defnsOf_tnDef, Def.opKey?, Def.vars, Option.some.injEq]
    by_cases h : o = name.getD ""
    · simp [h]
    · have : ¬ name.getD "" = o := fun e => h e.symm
      simp [h, this, lastIn]
  | frag name on dirs ssid sels => simp [defEvs, lastDefn_map_frag, Def.opKey?, lastIn]
  | ts a b => simp [defEvs, lastDefn, Def.opKey?, lastIn]

theorem lastDefn_docEvs (s : SchemaD) (o x : String) (ds : List Def) (init : Option VarDef) :
    lastDefn o x (ds.flatMap (defEvs s)) init =
      lastIn x (ds.flatMap fun df => if df.opKey? = some o then df.vars else []) init := by
  induction ds generalizing init with
  | nil => rfl
  | cons df ds ih => rw [List.flatMap_cons, List.flatMap_cons, lastDefn_append, lastIn_append, lastDefn_defEvs, ih]

theorem lastIn_eq_find (x : String) (L : List VarDef) (init : Option VarDef) :
    lastIn x L init = (L.reverse.find? (·.name == x)).or init := by
  induction L generalizing init with
  | nil => simp [lastIn]
  | cons v vs ih =>
    rw [lastIn, ih, List.reverse_cons, List.find?_append]
    by_cases h : x = v.name
    · subst h; cases (vs.reverse.find? fun w => w.name == v.name) <;> simp
    · have : ¬ v.name = x := fun e => h e.symm
      cases (vs.reverse.find? fun w => w.name == x) <;> simp [h, this]

/-- **the definition the collector holds for `$x` of operation `o` is `Spec.varDefFor`** -/
theorem docEvs_dfn (s : SchemaD) (d : Doc) (o x : String) : lastDefn o x (docEvs s d) none = varDefFor d o x := by
  rw [docEvs, lastDefn_docEvs, lastIn_eq_find, varDefFor]
  simp

theorem varDefFor_isSome (d : Doc) (o x : String) : (varDefFor d o x).isSome = true ↔ DefinedIn d o x := by
  rw [varDefFor, List.find?_isSome, DefinedIn]
  simp only [List.mem_reverse, List.mem_flatMap, beq_iff_eq, List.mem_map]
  constructor
  · rintro ⟨v, ⟨df, hdf, hv⟩, rfl⟩
    by_cases hk : df.opKey? = some o
    · rw [if_pos hk] at hv; exact ⟨df, hdf, hk, v, hv, rfl⟩
    · rw [if_neg hk] at hv; cases hv
  · rintro ⟨df, hdf, hk, v, hv, rfl⟩
    exact ⟨v, ⟨df, hdf, by rw [if_pos hk]; exact hv⟩, rfl⟩

end PyGql.Validate

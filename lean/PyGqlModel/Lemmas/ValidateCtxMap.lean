/-
  Contexts can be projected: if `φ` commutes with the two `down` functions, the context enumeration of the
  projected contexts is the projection of the enumeration (used to go from the full stacks of `TypeInfoVisitor`
  to the static views of the specification).
-/
import PyGqlModel.Spec.CtxNodes
namespace PyGql.Validate.Spec
open PyGql PyGql.Validate

section
variable {X Y : Type} (φ : X → Y) (down : Node → X → X) (down' : Node → Y → Y)

def pmap (l : List (Node × X)) : List (Node × Y) := l.map fun p => (p.1, φ p.2)

theorem pmap_cons (p : Node × X) (l : List (Node × X)) : pmap φ (p :: l) = (p.1, φ p.2) :: pmap φ l := rfl
theorem pmap_append (a b : List (Node × X)) : pmap φ (a ++ b) = pmap φ a ++ pmap φ b := by simp [pmap]
theorem pmap_nil : pmap φ ([] : List (Node × X)) = [] := rfl


mutual
theorem gnValue_map (hφ : ∀ n x, φ (down n x) = down' n (φ x)) : ∀ (v : Value) (x : X), pmap φ (gnValue down x v) = gnValue down' (φ x) v
  | .list vs, x => by rw [gnValue, gnValue, pmap_cons, gnValues_map hφ vs, hφ]
  | .obj fs, x => by rw [gnValue, gnValue, pmap_cons, gnObjFields_map hφ fs, hφ]
  | .var a, x => by rw [gnValue, gnValue, pmap_cons, pmap_nil, hφ]
  | .int a, x => by rw [gnValue, gnValue, pmap_cons, pmap_nil, hφ]
  | .float a, x => by rw [gnValue, gnValue, pmap_cons, pmap_nil, hφ]
  | .str a, x => by rw [gnValue, gnValue, pmap_cons, pmap_nil, hφ]
  | .bool a, x => by rw [gnValue, gnValue, pmap_cons, pmap_nil, hφ]
  | .null, x => by rw [gnValue, gnValue, pmap_cons, pmap_nil, hφ]
  | .enum a, x => by rw [gnValue, gnValue, pmap_cons, pmap_nil, hφ]
theorem gnValues_map (hφ : ∀ n x, φ (down n x) = down' n (φ x)) : ∀ (vs : List Value) (x : X), pmap φ (gnValues down x vs) = gnValues down' (φ x) vs
  | [], x => by rw [gnValues, gnValues, pmap_nil]
  | v :: vs, x => by rw [gnValues, gnValues, pmap_append, gnValue_map hφ v, gnValues_map hφ vs]
theorem gnObjField_map (hφ : ∀ n x, φ (down n x) = down' n (φ x)) : ∀ (f : ObjField) (x : X), pmap φ (gnObjField down x f) = gnObjField down' (φ x) f
  | .mk n v, x => by rw [gnObjField, gnObjField, pmap_cons, gnValue_map hφ v, hφ]
theorem gnObjFields_map (hφ : ∀ n x, φ (down n x) = down' n (φ x)) : ∀ (fs : List ObjField) (x : X), pmap φ (gnObjFields down x fs) = gnObjFields down' (φ x) fs
  | [], x => by rw [gnObjFields, gnObjFields, pmap_nil]
  | f :: fs, x => by rw [gnObjFields, gnObjFields, pmap_append, gnObjField_map hφ f, gnObjFields_map hφ fs]
end

theorem flatMap_map {α} (ln : X → α → List (Node × X)) (ln' : Y → α → List (Node × Y))
    (h : ∀ a x, pmap φ (ln x a) = ln' (φ x) a) (as : List α) (x : X) :
    pmap φ (as.flatMap (ln x)) = as.flatMap (ln' (φ x)) := by
  induction as with
  | nil => rfl
  | cons a as ih => rw [List.flatMap_cons, List.flatMap_cons, pmap_append, h, ih]

theorem gnArg_map (hφ : ∀ n x, φ (down n x) = down' n (φ x)) (a : Arg) (x : X) : pmap φ (gnArg down x a) = gnArg down' (φ x) a := by
  rw [gnArg, gnArg, pmap_cons, gnValue_map φ down down' hφ, hφ]
theorem gnArgs_map (hφ : ∀ n x, φ (down n x) = down' n (φ x)) (as : List Arg) (x : X) : pmap φ (gnArgs down x as) = gnArgs down' (φ x) as :=
  flatMap_map φ _ _ (fun a x => gnArg_map φ down down' hφ a x) as x
theorem gnDir_map (hφ : ∀ n x, φ (down n x) = down' n (φ x)) (d : Dir) (x : X) : pmap φ (gnDir down x d) = gnDir down' (φ x) d := by
  rw [gnDir, gnDir, pmap_cons, gnArgs_map φ down down' hφ, hφ]
theorem gnDirs_map (hφ : ∀ n x, φ (down n x) = down' n (φ x)) (ds : List Dir) (x : X) : pmap φ (gnDirs down x ds) = gnDirs down' (φ x) ds :=
  flatMap_map φ _ _ (fun a x => gnDir_map φ down down' hφ a x) ds x

mutual
theorem gnSel_map (hφ : ∀ n x, φ (down n x) = down' n (φ x)) : ∀ (s : Sel) (x : X), pmap φ (gnSel down x s) = gnSel down' (φ x) s
  | .field al name args dirs true id sub, x => by
    rw [gnSel, gnSel]
    simp only [↓reduceIte, pmap_cons, pmap_append, gnArgs_map φ down down' hφ, gnDirs_map φ down down' hφ, hφ,
      gnSels_map hφ sub]
  | .field al name args dirs false id sub, x => by
    rw [gnSel, gnSel]
    simp only [Bool.false_eq_true, ↓reduceIte, pmap_cons, pmap_append, pmap_nil, gnArgs_map φ down down' hφ,
      gnDirs_map φ down down' hφ, hφ]
  | .spread name dirs, x => by
    rw [gnSel, gnSel, pmap_cons, gnDirs_map φ down down' hφ, hφ]
  | .inline on dirs id sub, x => by
    rw [gnSel, gnSel]
    simp only [pmap_cons, pmap_append, gnDirs_map φ down down' hφ, hφ, gnSels_map hφ sub]
theorem gnSels_map (hφ : ∀ n x, φ (down n x) = down' n (φ x)) : ∀ (ss : List Sel) (x : X), pmap φ (gnSels down x ss) = gnSels down' (φ x) ss
  | [], x => by rw [gnSels, gnSels, pmap_nil]
  | s :: ss, x => by rw [gnSels, gnSels, pmap_append, gnSel_map hφ s, gnSels_map hφ ss]
end

theorem gnVarDef_map (hφ : ∀ n x, φ (down n x) = down' n (φ x)) (v : VarDef) (x : X) : pmap φ (gnVarDef down x v) = gnVarDef down' (φ x) v := by
  rw [gnVarDef, gnVarDef, pmap_cons, pmap_append, pmap_cons, gnDirs_map φ down down' hφ, hφ, hφ]
  cases v.default with
  | none => simp [pmap, hφ]
  | some dv => simp only [gnValue_map φ down down' hφ, hφ]

theorem gnDef_map (hφ : ∀ n x, φ (down n x) = down' n (φ x)) (d : Def) (x : X) : pmap φ (gnDef down x d) = gnDef down' (φ x) d := by
  cases d with
  | op kind name vars dirs id sels =>
    simp only [gnDef, pmap_cons, pmap_append, hφ, gnDirs_map φ down down' hφ, gnSels_map φ down down' hφ,
      flatMap_map φ _ _ (fun a x => gnVarDef_map φ down down' hφ a x)]
  | frag name on dirs id sels =>
    simp only [gnDef, pmap_cons, pmap_append, hφ, gnDirs_map φ down down' hφ, gnSels_map φ down down' hφ]
  | ts a b => simp [gnDef, pmap, hφ]

/-- the enumeration of projected contexts is the projection of the enumeration -/
theorem gnDoc_map (hφ : ∀ n x, φ (down n x) = down' n (φ x)) (d : Doc) (x : X) : pmap φ (gnDoc down x d) = gnDoc down' (φ x) d :=
  flatMap_map φ _ _ (fun a x => gnDef_map φ down down' hφ a x) d.defs x

/-- a property of (node, projected context) pairs holds on the projected enumeration ⇔ on the original one -/
theorem forall_gnDoc_map (hφ : ∀ n x, φ (down n x) = down' n (φ x)) (d : Doc) (x : X) (P : Node × Y → Prop) :
    (∀ q ∈ gnDoc down' (φ x) d, P q) ↔ (∀ p ∈ gnDoc down x d, P (p.1, φ p.2)) := by
  rw [← gnDoc_map φ down down' hφ d x]
  constructor
  · intro h p hp
    exact h _ (List.mem_map_of_mem hp)
  · intro h q hq
    obtain ⟨p, hp, rfl⟩ := List.mem_map.mp hq
    exact h p hp

end

end PyGql.Validate.Spec

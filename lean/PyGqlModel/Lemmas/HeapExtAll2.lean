/-
  C14 — closedness of the types the extension document DEFINES, of all directives of the result, and the assembly:
  every registry entry of `extend_schema`'s result has the closed shape.
-/
import PyGqlModel.Lemmas.HeapExtAll

set_option linter.unusedSimpArgs false
set_option linter.unusedVariables false

namespace PyGql.Heap.Own
open PyGql.Heap

/-- a type defined by the document -/
theorem extend_new_type_shape (cfg : Cfg) (hk : cfg.extKeepAll = true) (hin : cfg.extInputFieldExtended = true) (ext : Ext) (s : Schema) (h : Heap)
    (hnd : (s.types.map (·.1)).Nodup) (hnewnd : (ext.newTypes.map (·.1)).Nodup)
    (n : String) (fs : List ExtField) (hm : (n, fs) ∈ ext.newTypes)
    (hok : ∀ e, e ∈ ext.newTypes → FieldsOK (extend cfg ext s h).2.types e.2) :
    ∃ na, lookup (allocPlaceholders h ((s.types.filter fun e => !isProtected e.1).map (·.1) ++ ext.newTypes.map (·.1))).2 n = some na ∧
      typeShape (refOK (extend cfg ext s h).2.types) (extend cfg ext s h).1 na = true ∧ nameOK (extend cfg ext s h).1 (n, na) = true := by
  obtain ⟨na, hna⟩ := allocPlaceholders_some ((s.types.filter fun e => !isProtected e.1).map (·.1) ++ ext.newTypes.map (·.1)) h n
    (List.mem_append.mpr (Or.inr (List.mem_map.mpr ⟨(n, fs), hm, rfl⟩)))
  have hinj := allocPlaceholders_inj ((s.types.filter fun e => !isProtected e.1).map (·.1) ++ ext.newTypes.map (·.1)) h
  have hb := fun n x hx => allocPlaceholders_lookup ((s.types.filter fun e => !isProtected e.1).map (·.1) ++ ext.newTypes.map (·.1)) h n x hx
  refine ⟨na, hna, ?_⟩
  simp only [extend, hk, hin, if_true] at hok ⊢
  generalize hP : allocPlaceholders h ((s.types.filter fun e => !isProtected e.1).map (·.1) ++ ext.newTypes.map (·.1)) = p at hna hinj hb hok
  have f1 := (extendAll_spec cfg ext ((s.types.filter fun e => isProtected e.1) ++ p.2) ((s.types.filter fun e => isProtected e.1) ++ p.2)
    p.2 h hinj s.types p.1 (fun n x hx => (hb n x hx).2) hnd).1
  obtain ⟨t', hr', hn', hk', hif', hkids⟩ := buildNewTypes_closed ((s.types.filter fun e => isProtected e.1) ++ p.2) p.2 p.1.size
    (fun n x hx => (hb n x hx).2) hinj ext.newTypes
    (extendAll cfg ext ((s.types.filter fun e => isProtected e.1) ++ p.2) ((s.types.filter fun e => isProtected e.1) ++ p.2) p.2 h p.1 s.types)
    f1.1 hnewnd hok n fs na hm hna
  have f3 := extendDirsX (fun _ => False) cfg ((s.types.filter fun e => isProtected e.1) ++ p.2) s.dirs
    (buildNewTypes ((s.types.filter fun e => isProtected e.1) ++ p.2) p.2
      (extendAll cfg ext ((s.types.filter fun e => isProtected e.1) ++ p.2) ((s.types.filter fun e => isProtected e.1) ++ p.2) p.2 h p.1 s.types) ext.newTypes)
  have f4 := buildNewDirsX (fun _ => False) cfg ((s.types.filter fun e => isProtected e.1) ++ p.2) ext.newDirs
    (extendDirs cfg ((s.types.filter fun e => isProtected e.1) ++ p.2) (buildNewTypes ((s.types.filter fun e => isProtected e.1) ++ p.2) p.2
      (extendAll cfg ext ((s.types.filter fun e => isProtected e.1) ++ p.2) ((s.types.filter fun e => isProtected e.1) ++ p.2) p.2 h p.1 s.types) ext.newTypes) s.dirs).1
  have kf : KeepsFrom p.1.size (buildNewTypes ((s.types.filter fun e => isProtected e.1) ++ p.2) p.2
      (extendAll cfg ext ((s.types.filter fun e => isProtected e.1) ++ p.2) ((s.types.filter fun e => isProtected e.1) ++ p.2) p.2 h p.1 s.types) ext.newTypes)
      (buildNewDirs cfg ((s.types.filter fun e => isProtected e.1) ++ p.2)
        (extendDirs cfg ((s.types.filter fun e => isProtected e.1) ++ p.2) (buildNewTypes ((s.types.filter fun e => isProtected e.1) ++ p.2) p.2
          (extendAll cfg ext ((s.types.filter fun e => isProtected e.1) ++ p.2) ((s.types.filter fun e => isProtected e.1) ++ p.2) p.2 h p.1 s.types) ext.newTypes) s.dirs).1
        ext.newDirs).1 :=
    keepsFrom_of_frameX ((f3.trans f4).mono (fun _ hx => hx.elim))
  have hlt : na < (buildNewTypes ((s.types.filter fun e => isProtected e.1) ++ p.2) p.2
      (extendAll cfg ext ((s.types.filter fun e => isProtected e.1) ++ p.2) ((s.types.filter fun e => isProtected e.1) ++ p.2) p.2 h p.1 s.types) ext.newTypes).size :=
    readType_lt' hr'
  have hfinal : (buildNewDirs cfg ((s.types.filter fun e => isProtected e.1) ++ p.2)
        (extendDirs cfg ((s.types.filter fun e => isProtected e.1) ++ p.2) (buildNewTypes ((s.types.filter fun e => isProtected e.1) ++ p.2) p.2
          (extendAll cfg ext ((s.types.filter fun e => isProtected e.1) ++ p.2) ((s.types.filter fun e => isProtected e.1) ++ p.2) p.2 h p.1 s.types) ext.newTypes) s.dirs).1
        ext.newDirs).1.readType na = some t' := by
    rw [readType_frameX f4 (Nat.lt_of_lt_of_le hlt f3.1) (fun x => x), readType_frameX f3 hlt (fun x => x)]
    exact hr'
  constructor
  · refine (typeShape_iff _ _ na).mpr ⟨t', hfinal, ?_, ?_⟩
    · simp [typeRefs, hk', hif']
    · exact KidsC.membersOK (lo := p.1.size) (by rw [hk']; exact hkids.keep kf)
  · simp only [nameOK, hfinal, hn', beq_self_eq_true]

/-- every directive the result registers — rebuilt from the source or defined by the document — has closed arguments -/
theorem extend_dirs_shape (cfg : Cfg) (hk : cfg.extKeepAll = true) (hin : cfg.extInputFieldExtended = true) (ext : Ext) (s : Schema) (h : Heap)
    (w : WFs (refOK s.types) h s) (hok : ∀ e, e ∈ ext.newDirs → ArgsOK (extend cfg ext s h).2.types e.2.1) :
    ∀ e', e' ∈ (extend cfg ext s h).2.dirs → dirShape (refOK (extend cfg ext s h).2.types) (extend cfg ext s h).1 e'.2 = true := by
  have hreg : ∀ r, refOK s.types r = true → (lookup (extend cfg ext s h).2.types r.name).isSome = true := fun r hr =>
    extend_registers_source_names cfg hk ext s h w.nodup r.name (name_of_lookup (refOK_lookup hr))
  simp only [extend, hk, hin, if_true] at hok hreg ⊢
  generalize hP : allocPlaceholders h ((s.types.filter fun e => !isProtected e.1).map (·.1) ++ ext.newTypes.map (·.1)) = p at hok hreg
  have hfr0 : FrameX (fun x => h.size ≤ x) h p.1 := by rw [← hP]; exact allocPlaceholdersX _ _ h
  have hb : ∀ n x, lookup p.2 n = some x → h.size ≤ x ∧ x < p.1.size := by
    rw [← hP]; exact fun n x hx => allocPlaceholders_lookup _ h n x hx
  have hinj : ∀ n n' x, lookup p.2 n = some x → lookup p.2 n' = some x → n = n' := by
    rw [← hP]; exact allocPlaceholders_inj _ h
  have f1 := (extendAll_spec cfg ext ((s.types.filter fun e => isProtected e.1) ++ p.2) ((s.types.filter fun e => isProtected e.1) ++ p.2)
    p.2 h hinj s.types p.1 (fun n x hx => (hb n x hx).2) w.nodup).1
  have f2 := buildNewTypesX ((s.types.filter fun e => isProtected e.1) ++ p.2) p.2 ext.newTypes
    (extendAll cfg ext ((s.types.filter fun e => isProtected e.1) ++ p.2) ((s.types.filter fun e => isProtected e.1) ++ p.2) p.2 h p.1 s.types)
  have fr2 := (hfr0.trans (f1.mono (W' := fun x => h.size ≤ x) (fun x ⟨e, _, hx⟩ => (hb e.1 x hx).1))).trans
    (f2.mono (W' := fun x => h.size ≤ x) (fun x ⟨e, _, hx⟩ => (hb e.1 x hx).1))
  intro e' he'
  rcases List.mem_append.mp he' with he' | he'
  · refine extendDirs_closed cfg _ s.dirs h _ hreg fr2 w.dirs _ ?_ e' he'
    exact keepsFrom_of_frameX (buildNewDirsX _ cfg _ ext.newDirs _)
  · exact buildNewDirs_closed cfg _ ext.newDirs _ hok e' he'

/-- the names the extension document uses, relative to a notion of "defined" -/
structure ExtUses (Reg : String → Prop) (ext : Ext) : Prop where
  fields : ∀ nm f, f ∈ assocD ext.fields nm → Reg (tnBase f.ty) ∧ ∀ g, g ∈ f.args → Reg (tnBase g.ty)
  inputs : ∀ nm g, g ∈ assocD ext.inputFields nm → Reg (tnBase g.ty)
  members : ∀ nm m, m ∈ assocD ext.members nm → Reg m
  newTypes : ∀ e f, e ∈ ext.newTypes → f ∈ e.2 → Reg (tnBase f.ty) ∧ ∀ g, g ∈ f.args → Reg (tnBase g.ty)
  newDirs : ∀ e g, e ∈ ext.newDirs → g ∈ e.2.1 → Reg (tnBase g.ty)

/-- ASSEMBLY: the result of `extend_schema` is closed -/
theorem extend_closed_all (cfg : Cfg) (hk : cfg.extKeepAll = true) (hin : cfg.extInputFieldExtended = true) (ext : Ext) (s : Schema) (h : Heap)
    (w : WFs (refOK s.types) h s) (hnewnd : (ext.newTypes.map (·.1)).Nodup) (hnew : ∀ e, e ∈ ext.newTypes → e.1 ∉ s.types.map (·.1))
    (hu : ExtUses (fun x => (lookup (extend cfg ext s h).2.types x).isSome = true) ext)
    (hframe : ∀ a, a < h.size → (extend cfg ext s h).1.read a = h.read a) :
    closedB (extend cfg ext s h).1 (extend cfg ext s h).2 = true := by
  have htypes : (extend cfg ext s h).2.types = (s.types.filter fun e => isProtected e.1) ++
      (allocPlaceholders h ((s.types.filter fun e => !isProtected e.1).map (·.1) ++ ext.newTypes.map (·.1))).2 := by
    simp only [extend, hk, if_true]
  have hroots : (extend cfg ext s h).2.query = reRoot (extend cfg ext s h).2.types s.query ∧
      (extend cfg ext s h).2.mutation = reRoot (extend cfg ext s h).2.types s.mutation ∧
      (extend cfg ext s h).2.subscription = reRoot (extend cfg ext s h).2.types s.subscription := by
    simp [extend, hk]
  have hT : ∀ e, e ∈ (extend cfg ext s h).2.types →
      typeShape (refOK (extend cfg ext s h).2.types) (extend cfg ext s h).1 e.2 = true ∧ nameOK (extend cfg ext s h).1 e = true := by
    intro e he
    rw [htypes] at he
    rcases List.mem_append.mp he with he | he
    · -- a specified scalar: the very object of the source
      obtain ⟨hes, hp⟩ := List.mem_filter.mp he
      have hn := w.names e hes
      obtain ⟨t, ht⟩ : ∃ t, h.readType e.2 = some t := by
        simp only [nameOK] at hn
        split at hn
        · exact ⟨_, by assumption⟩
        · cases hn
      have hrd : (extend cfg ext s h).1.readType e.2 = h.readType e.2 := by
        simp only [Heap.readType, hframe e.2 (readType_lt' ht)]
      have hpl : protLeaf (extend cfg ext s h).1 e = true := by
        have := w.prot e hes
        simp only [protLeaf, hrd] at this ⊢
        exact this
      refine ⟨typeShape_prot _ _ e hp hpl, ?_⟩
      simp only [nameOK, hrd] at hn ⊢
      exact hn
    · -- a placeholder: a source type or a type of the document
      have hnames := allocPlaceholders_names ((s.types.filter fun e => !isProtected e.1).map (·.1) ++ ext.newTypes.map (·.1)) h
      have hsrcnd : ((s.types.filter fun e => !isProtected e.1).map (·.1)).Nodup :=
        List.Nodup.sublist (List.Sublist.map _ List.filter_sublist) w.nodup
      have hnsnd : ((s.types.filter fun e => !isProtected e.1).map (·.1) ++ ext.newTypes.map (·.1)).Nodup := by
        refine List.nodup_append.mpr ⟨hsrcnd, hnewnd, ?_⟩
        intro x hx y hy hxy
        subst hxy
        obtain ⟨e1, he1, rfl⟩ := List.mem_map.mp hx
        obtain ⟨e2, he2, hq⟩ := List.mem_map.mp hy
        exact hnew e2 he2 (by rw [hq]; exact List.mem_map.mpr ⟨e1, (List.mem_filter.mp he1).1, rfl⟩)
      have hlk := lookup_of_mem_nodup (by rw [hnames]; exact hnsnd) he
      have hmem : e.1 ∈ (s.types.filter fun e => !isProtected e.1).map (·.1) ++ ext.newTypes.map (·.1) := by
        rw [← hnames]; exact List.mem_map.mpr ⟨e, he, rfl⟩
      rcases List.mem_append.mp hmem with hsrc | hnw
      · obtain ⟨e0, he0, hq⟩ := List.mem_map.mp hsrc
        obtain ⟨he0s, hnp⟩ := List.mem_filter.mp he0
        have hnp' : isProtected e0.1 = false := by simpa using hnp
        have hn := w.names e0 he0s
        obtain ⟨t, ht⟩ : ∃ t, h.readType e0.2 = some t := by
          simp only [nameOK] at hn
          split at hn
          · exact ⟨_, by assumption⟩
          · cases hn
        obtain ⟨a', l1, l2, l3⟩ := extend_src_type_shape cfg hk hin ext s h w hnew e0.1 e0.2 t he0s hnp' ht
          (fun f hf => hu.fields _ f hf) (fun g hg => hu.inputs _ g hg) (fun m hm => hu.members _ m hm)
        have : a' = e.2 := by
          rw [htypes, lookup_append_right, hq, hlk] at l1
          · exact (Option.some.inj l1).symm
          · intro x hx
            have hpx := (List.mem_filter.mp hx).2
            cases hqx : (x.1 == e0.1) with
            | false => rfl
            | true =>
              simp only [beq_iff_eq] at hqx
              rw [hqx, hnp'] at hpx
              cases hpx
        subst this
        rw [hq] at l3
        exact ⟨l2, l3⟩
      · obtain ⟨e0, he0, hq⟩ := List.mem_map.mp hnw
        obtain ⟨na, l1, l2, l3⟩ := extend_new_type_shape cfg hk hin ext s h w.nodup hnewnd e0.1 e0.2 he0
          (fun e' he' f hf => hu.newTypes e' f he' hf)
        rw [hq, hlk] at l1
        have : na = e.2 := (Option.some.inj l1).symm
        subst this
        rw [hq] at l3
        exact ⟨l2, l3⟩
  have hD := extend_dirs_shape cfg hk hin ext s h w (fun e he g hg => hu.newDirs e g he hg)
  simp only [closedB, shapeB, Bool.and_eq_true, List.all_eq_true]
  refine ⟨⟨⟨⟨⟨fun e he => (hT e he).1, hD⟩, ?_⟩, ?_⟩, ?_⟩, fun e he => (hT e he).2⟩
  · rw [hroots.1]; exact rootOK_reRoot _ _
  · rw [hroots.2.1]; exact rootOK_reRoot _ _
  · rw [hroots.2.2]; exact rootOK_reRoot _ _

/-- the registry of the result: distinct names; specified scalars are still scalar leaves, no other entry carries a protected name -/
theorem extend_prot_nodup (cfg : Cfg) (hk : cfg.extKeepAll = true) (ext : Ext) (s : Schema) (h : Heap)
    (w : WFs (refOK s.types) h s) (hnewnd : (ext.newTypes.map (·.1)).Nodup) (hnew : ∀ e, e ∈ ext.newTypes → e.1 ∉ s.types.map (·.1))
    (hnp : ∀ e, e ∈ ext.newTypes → isProtected e.1 = false)
    (hframe : ∀ a, a < h.size → (extend cfg ext s h).1.read a = h.read a) :
    (∀ e, e ∈ (extend cfg ext s h).2.types → protLeaf (extend cfg ext s h).1 e = true) ∧
    ((extend cfg ext s h).2.types.map (·.1)).Nodup := by
  have htypes : (extend cfg ext s h).2.types = (s.types.filter fun e => isProtected e.1) ++
      (allocPlaceholders h ((s.types.filter fun e => !isProtected e.1).map (·.1) ++ ext.newTypes.map (·.1))).2 := by
    simp only [extend, hk, if_true]
  have hnames := allocPlaceholders_names ((s.types.filter fun e => !isProtected e.1).map (·.1) ++ ext.newTypes.map (·.1)) h
  have hsrcnd : ((s.types.filter fun e => !isProtected e.1).map (·.1)).Nodup :=
    List.Nodup.sublist (List.Sublist.map _ List.filter_sublist) w.nodup
  have hprotnd : ((s.types.filter fun e => isProtected e.1).map (·.1)).Nodup :=
    List.Nodup.sublist (List.Sublist.map _ List.filter_sublist) w.nodup
  have hnsnd : ((s.types.filter fun e => !isProtected e.1).map (·.1) ++ ext.newTypes.map (·.1)).Nodup := by
    refine List.nodup_append.mpr ⟨hsrcnd, hnewnd, ?_⟩
    intro x hx y hy hxy
    subst hxy
    obtain ⟨e1, he1, rfl⟩ := List.mem_map.mp hx
    obtain ⟨e2, he2, hq⟩ := List.mem_map.mp hy
    exact hnew e2 he2 (by rw [hq]; exact List.mem_map.mpr ⟨e1, (List.mem_filter.mp he1).1, rfl⟩)
  have hnsnp : ∀ x, x ∈ (s.types.filter fun e => !isProtected e.1).map (·.1) ++ ext.newTypes.map (·.1) → isProtected x = false := by
    intro x hx
    rcases List.mem_append.mp hx with hx | hx
    · obtain ⟨e1, he1, rfl⟩ := List.mem_map.mp hx
      simpa using (List.mem_filter.mp he1).2
    · obtain ⟨e2, he2, rfl⟩ := List.mem_map.mp hx
      exact hnp e2 he2
  constructor
  · intro e he
    rw [htypes] at he
    rcases List.mem_append.mp he with he | he
    · obtain ⟨hes, hp⟩ := List.mem_filter.mp he
      have hn := w.names e hes
      obtain ⟨t, ht⟩ : ∃ t, h.readType e.2 = some t := by
        simp only [nameOK] at hn
        split at hn
        · exact ⟨_, by assumption⟩
        · cases hn
      have hrd : (extend cfg ext s h).1.readType e.2 = h.readType e.2 := by
        simp only [Heap.readType, hframe e.2 (readType_lt' ht)]
      have := w.prot e hes
      simp only [protLeaf, hrd] at this ⊢
      exact this
    · have : isProtected e.1 = false := hnsnp e.1 (by rw [← hnames]; exact List.mem_map.mpr ⟨e, he, rfl⟩)
      simp [protLeaf, this]
  · rw [htypes, List.map_append, hnames]
    refine List.nodup_append.mpr ⟨hprotnd, hnsnd, ?_⟩
    intro x hx y hy hxy
    subst hxy
    obtain ⟨e1, he1, rfl⟩ := List.mem_map.mp hx
    have h1 := (List.mem_filter.mp he1).2
    rw [hnsnp e1.1 hy] at h1
    cases h1

end PyGql.Heap.Own

/-
  `OverlappingFieldsCanBeMergedChecker`, soundness half with fragment spreads, part 12: the walk of the rule run
  alone. A run that ends without a crash and without an error leaves a CLOSED memo and a certificate for every
  selection set of the document - hence (`clause_of_certs`) the clause.
-/
import PyGqlModel.Lemmas.ValidateOverlapPost7
namespace PyGql.Validate
open PyGql PyGql.Validate.Spec

private theorem enter_ov'' (s : SchemaD) (fx : Fixes) (n : Node) (st : St) :
    enter ⟨s, fx, [.overlappingFieldsCanBeMerged]⟩ n st =
      ({ ti := tiEnter s n st.ti, rs := (enterRule s fx .overlappingFieldsCanBeMerged n (tiEnter s n st.ti) st.rs).1 },
       (enterRule s fx .overlappingFieldsCanBeMerged n (tiEnter s n st.ti) st.rs).2) := by
  simp only [enter, enterRules]
  generalize enterRule s fx .overlappingFieldsCanBeMerged n (tiEnter s n st.ti) st.rs = p
  obtain ⟨a, b⟩ := p
  cases b <;> simp

private theorem leave_ov'' (s : SchemaD) (fx : Fixes) (n : Node) (st : St) :
    leave ⟨s, fx, [.overlappingFieldsCanBeMerged]⟩ n st = { ti := tiLeave n st.ti, rs := st.rs } := by
  simp only [leave, List.reverse_cons, List.reverse_nil, List.nil_append, List.foldl_cons, List.foldl_nil]
  congr 1

def WCertAt (s : SchemaD) (d : Doc) (M : Memo) (q : Node × View) : Prop :=
  match q.1 with
  | .selectionSet _ sels => WithinCert s d M q.2.parent sels
  | _ => True

/-- what a stretch of the walk establishes (the part about the rule state) -/
def OGp (s : SchemaD) (d : Doc) (l : List (Node × View)) (st st' : St) : Prop :=
  OInv s d st → OInv s d st' ∧ E st ≤ E st' ∧
    (st'.rs.crash = none → st.rs.crash = none ∧ (∀ k ∈ st.rs.octx.pairs, k ∈ st'.rs.octx.pairs) ∧
      (E st' = E st → ∀ M, Sup st'.rs.octx M →
        (∀ k ∈ st'.rs.octx.pairs, k ∈ st.rs.octx.pairs ∨ KeyObl s d M k) ∧ ∀ q ∈ l, WCertAt s d M q))

theorem OGp.refl (s : SchemaD) (d : Doc) (st : St) : OGp s d [] st st :=
  fun hi => ⟨hi, Nat.le_refl _, fun h => ⟨h, fun _ hk => hk, fun _ M _ => ⟨fun k hk => Or.inl hk, fun _ hq => nomatch hq⟩⟩⟩

theorem OGp.seq {s : SchemaD} {d : Doc} {a b : List (Node × View)} {s1 s2 s3 : St} (h1 : OGp s d a s1 s2)
    (h2 : OGp s d b s2 s3) : OGp s d (a ++ b) s1 s3 := by
  intro hi
  obtain ⟨i2, m2, k2⟩ := h1 hi
  obtain ⟨i3, m3, k3⟩ := h2 i2
  refine ⟨i3, Nat.le_trans m2 m3, fun hcr => ?_⟩
  obtain ⟨c2, p3, g3⟩ := k3 hcr
  obtain ⟨c1, p2, g2⟩ := k2 c2
  refine ⟨c1, fun k hk => p3 k (p2 k hk), fun he M hM => ?_⟩
  obtain ⟨x1, x2⟩ := g3 (by omega) M hM
  obtain ⟨y1, y2⟩ := g2 (by omega) M (fun k hk => hM k (p3 k hk))
  refine ⟨fun k hk => ?_, fun q hq => ?_⟩
  · rcases x1 k hk with h | h
    · exact y1 k h
    · exact Or.inr h
  · rcases List.mem_append.mp hq with hq | hq
    · exact y2 q hq
    · exact x2 q hq

/-- same state components relevant here ⇒ same property -/
theorem OGp.congr_right {s : SchemaD} {d : Doc} {l : List (Node × View)} {s1 s2 s2' : St} (h : OGp s d l s1 s2)
    (hrs : s2'.rs = s2.rs) : OGp s d l s1 s2' := by
  intro hi
  obtain ⟨i2, m2, k2⟩ := h hi
  refine ⟨?_, ?_, ?_⟩
  · unfold OInv at i2 ⊢; rw [hrs]; exact i2
  · unfold E at m2 ⊢; rw [hrs]; exact m2
  · rw [hrs]; unfold E at k2 ⊢; rw [hrs]; exact k2

def OG (s : SchemaD) (d : Doc) (l : List (Node × View)) (st st' : St) : Prop :=
  st'.ti = st.ti ∧ ((∀ p ∈ l, p ∈ typedNodes s d) → OGp s d l st st')

theorem og_alg (s : SchemaD) (fx : Fixes) (d : Doc) (h7 : fx.v7 = true) (hpa : ParentsAgree s d)
    (hnb : ∀ e, Ent s d e → e.hasSub = true → NotBody d e.ssid)
    (hAp : ∀ i sels, SelSet d i sels → ∀ g, SpreadD sels g → Apart d i g) :
    TAlg ⟨s, fx, [.overlappingFieldsCanBeMerged]⟩ (OG s d) where
  ti h := h.1
  nil st := ⟨rfl, fun _ => OGp.refl s d st⟩
  append h1 h2 := ⟨h2.1.trans h1.1, fun hm =>
    (h1.2 (fun p hp => hm p (List.mem_append_left _ hp))).seq (h2.2 (fun p hp => hm p (List.mem_append_right _ hp)))⟩
  node n body l st hn hd hb := by
    have hsk : (enter ⟨s, fx, [.overlappingFieldsCanBeMerged]⟩ n st).2 = false := by rw [enter_ov'']; exact ov_noskip ..
    rw [visitNode_false hsk, leave_ov'']
    have hti : (enter ⟨s, fx, [.overlappingFieldsCanBeMerged]⟩ n st).1.ti = tiEnter s n st.ti := by rw [enter_ov'']
    obtain ⟨b1, b2⟩ := hb _ hti
    refine ⟨?_, fun hm => ?_⟩
    · show tiLeave n (body _).ti = st.ti
      rw [b1, hti, tiLeave_tiEnter _ _ _ hd]
    · have hmem : (n, View.enter s n st.ti.view) ∈ typedNodes s d := hm _ (List.mem_cons_self ..)
      have hstep : OGp s d [(n, View.enter s n st.ti.view)] st (enter ⟨s, fx, [.overlappingFieldsCanBeMerged]⟩ n st).1 := by
        rw [enter_ov'']
        intro hi
        simp only [E]
        by_cases hs : n.isSelSet = true
        · cases n with
          | selectionSet i sels =>
            obtain ⟨k1, k2⟩ := ov_enter_sel s fx i sels (tiEnter s (.selectionSet i sels) st.ti) st.rs
            obtain ⟨k3, k4⟩ := ov_enter_sel_crash s fx i sels (tiEnter s (.selectionSet i sels) st.ti) st.rs
            have hpar : (tiEnter s (.selectionSet i sels) st.ti).parentType =
                (View.enter s (.selectionSet i sels) st.ti.view).parent := by rw [← view_enter]; rfl
            have hadm : Adm s d i (tiEnter s (.selectionSet i sels) st.ti).parentType := by
              rw [hpar]; exact Adm.walk hmem
            have hsel := selSet_of_typed hmem
            obtain ⟨w1, _⟩ := within_sound s fx d h7 _ i sels st.rs.octx hi.1 hsel hadm
            refine ⟨⟨by rw [k1]; exact w1, by rw [k1]; exact k4⟩, by rw [k2]; omega, fun hcr => ?_⟩
            obtain ⟨c1, c2⟩ := k3 hcr
            have g := within_post s fx d h7 hpa hnb _ i sels st.rs.octx hi.1 hsel hadm (hAp i sels hsel) c1
            refine ⟨c2, fun k hk => by rw [k1]; exact g.mono k hk, fun he M hM => ?_⟩
            obtain ⟨r1, r2⟩ := g.res (by rw [k2] at he; omega) M (by rw [k1] at hM; exact hM)
            refine ⟨fun k hk => r1 k (by rw [k1] at hk; exact hk), fun q hq => ?_⟩
            simp only [List.mem_singleton] at hq
            subst hq
            simp only [WCertAt]
            rw [← hpar]; exact r2
          | _ => cases hs
        · rw [ov_enter_other s fx n _ _ hn (by simpa using hs)]
          refine ⟨hi, Nat.le_refl _, fun h => ⟨h, fun _ hk => hk, fun _ M _ => ⟨fun k hk => Or.inl hk, fun q hq => ?_⟩⟩⟩
          simp only [List.mem_singleton] at hq
          subst hq
          cases n <;> first | trivial | (simp at hs)
      have hbody := b2 (fun p hp => hm p (List.mem_cons_of_mem _ hp))
      exact (hstep.seq hbody).congr_right rfl

/-- **soundness**: a run of the rule alone that ends without an error and without a crash establishes the clause -/
theorem ov_document_sound (s : SchemaD) (fx : Fixes) (d : Doc) (h7 : fx.v7 = true) (hpa : ParentsAgree s d)
    (hne : AL.get? (fragTable d) "" = none)
    (hnb : ∀ e, Ent s d e → e.hasSub = true → NotBody d e.ssid)
    (hAp : ∀ i sels, SelSet d i sels → ∀ g, SpreadD sels g → Apart d i g)
    (hE : E (visitDocument ⟨s, fx, [.overlappingFieldsCanBeMerged]⟩ d {}) = 0)
    (hC : (visitDocument ⟨s, fx, [.overlappingFieldsCanBeMerged]⟩ d {}).rs.crash = none) :
    Spec.overlappingFieldsCanBeMerged s d := by
  have he : enter ⟨s, fx, [.overlappingFieldsCanBeMerged]⟩ (.document d) {} =
      (({ ti := {}, rs := { ({} : RS) with octx := { ({} : OCtx) with frags := fragTable d } } } : St), false) := by
    rw [enter_ov'']; simp [enterRule, tiEnter, fragTable]
  rw [visitDocument] at hE hC
  unfold visitNode at hE hC
  rw [he] at hE hC
  simp only [Bool.false_eq_true, ↓reduceIte, leave_ov''] at hE hC
  have hw := visitDefsR (og_alg s fx d h7 hpa hnb hAp) d.defs
    ({ ti := {}, rs := { ({} : RS) with octx := { ({} : OCtx) with frags := fragTable d } } } : St) rfl
  obtain ⟨_, _, k⟩ := hw.2 (fun p hp => hp) ⟨⟨rfl, fun _ h => nomatch h⟩, fun h => by cases h⟩
  obtain ⟨_, _, g⟩ := k hC
  generalize hfin : (d.defs.foldl (fun st x => visitDef ⟨s, fx, [.overlappingFieldsCanBeMerged]⟩ x st)
    ({ ti := {}, rs := { ({} : RS) with octx := { ({} : OCtx) with frags := fragTable d } } } : St)) = fin at hE hC g
  obtain ⟨hkeys, hall⟩ := g (by simp only [E] at hE ⊢; rw [hE]; rfl) (fun k => k ∈ fin.rs.octx.pairs) (fun k hk => hk)
  refine clause_of_certs (M := fun k => k ∈ fin.rs.octx.pairs) hpa hne (fun k hk => ?_) (fun i sels hs p ha => ?_)
  · rcases hkeys k hk with h | h
    · cases h
    · exact h
  · have hmem : Node.selectionSet i sels ∈ (typedNodes s d).map (·.1) := by
      rw [typedNodes_fst]
      simp only [SelSet, nodes, List.mem_cons, reduceCtorEq, false_or] at hs
      exact hs
    obtain ⟨q, hq, hq1⟩ := List.mem_map.mp hmem
    obtain ⟨n, v⟩ := q
    simp only at hq1; subst hq1
    have := hall _ hq
    simp only [WCertAt] at this
    rw [hpa _ _ _ ha (Adm.walk hq)]
    exact this

end PyGql.Validate

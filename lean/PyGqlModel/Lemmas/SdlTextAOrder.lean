/-
  C12 text level, applied schema directives — the order of `s.types` / `s.directives` does not matter (applications are
  looked up by path, default values by type name), and erasing the applied custom directives from the denoted document
  gives the document of the directive-free printer.
-/
import PyGqlModel.Lemmas.SdlTextAFull
import PyGqlModel.Lemmas.SdlTextPrintOrder
namespace PyGql.SdlText
open PyGql PyGql.Sdl PyGql.SdlPrint

section
variable {s' s : SchemaD} (h : SameLits s' s)
include h

theorem printInputValueA_congr : SdlPrintTA.printInputValue s' = SdlPrintTA.printInputValue s := by
  funext c apps path a; simp only [SdlPrintTA.printInputValue, valueText_congr h]

theorem printArgsA_congr (c : SdlPrintTA.OptsA) (apps : Apps) (path : String) (depth : Nat) (multi : Bool) : ∀ (l : List ArgD) (i : Nat),
    SdlPrintTA.printArgs s' c apps path depth multi i l = SdlPrintTA.printArgs s c apps path depth multi i l
  | [], _ => rfl
  | a :: as, i => by simp only [SdlPrintTA.printArgs, printInputValueA_congr h, printArgsA_congr c apps path depth multi as]

theorem printArgumentsA_congr : SdlPrintTA.printArguments s' = SdlPrintTA.printArguments s := by
  funext c apps path args depth; simp only [SdlPrintTA.printArguments, printArgsA_congr h]

theorem printFieldA_congr : SdlPrintTA.printField s' = SdlPrintTA.printField s := by
  funext c apps tname i f; simp only [SdlPrintTA.printField, printArgumentsA_congr h]

theorem printFieldsA_congr (c : SdlPrintTA.OptsA) (apps : Apps) (tname : String) : ∀ (l : List FieldD) (i : Nat),
    SdlPrintTA.printFields s' c apps tname i l = SdlPrintTA.printFields s c apps tname i l
  | [], _ => rfl
  | f :: fs, i => by simp only [SdlPrintTA.printFields, printFieldA_congr h, printFieldsA_congr c apps tname fs]

theorem printInputFieldsA_congr (c : SdlPrintTA.OptsA) (apps : Apps) (tname : String) : ∀ (l : List ArgD) (i : Nat),
    SdlPrintTA.printInputFields s' c apps tname i l = SdlPrintTA.printInputFields s c apps tname i l
  | [], _ => rfl
  | f :: fs, i => by
    simp only [SdlPrintTA.printInputFields, SdlPrintTA.printInputField, printInputValueA_congr h, printInputFieldsA_congr c apps tname fs]

theorem printTypeA_congr : SdlPrintTA.printType s' = SdlPrintTA.printType s := by
  funext c apps t; simp only [SdlPrintTA.printType, printFieldsA_congr h, printInputFieldsA_congr h]

theorem printDirectiveDefinitionA_congr : SdlPrintTA.printDirectiveDefinition s' = SdlPrintTA.printDirectiveDefinition s := by
  funext c apps d; simp only [SdlPrintTA.printDirectiveDefinition, printArgumentsA_congr h]

end

theorem needsSchemaBlockA_printOrder (s : SchemaD) (c : SdlPrintTA.OptsA) (apps : Apps) :
    SdlPrintTA.needsSchemaBlockA (printOrder s) c apps = SdlPrintTA.needsSchemaBlockA s c apps := by
  simp only [SdlPrintTA.needsSchemaBlockA, needsSchemaBlock_printOrder]

theorem printSchemaTA_printOrder (c : SdlPrintTA.OptsA) (s : SchemaD) (apps : Apps) (h : namesUnique s = true) :
    SdlPrintTA.printSchemaTA c (printOrder s) apps = SdlPrintTA.printSchemaTA c s apps := by
  obtain ⟨ht, hd⟩ := unique_of_wf s h
  have hl := sameLits_printOrder s h
  have e1 : SdlPrintTA.printSchemaDefinition (printOrder s) c apps = SdlPrintTA.printSchemaDefinition s c apps := by
    have : SdlPrintT.rootLines c.base (printOrder s) = SdlPrintT.rootLines c.base s := rfl
    simp only [SdlPrintTA.printSchemaDefinition, needsSchemaBlockA_printOrder, this]
  have e2 : sortBy (·.name) (printOrder s).directives = sortBy (·.name) s.directives := sortBy_idem _ _ hd
  have e3 : sortBy (·.name) (printOrder s).types = sortBy (·.name) s.types := sortBy_idem _ _ ht
  simp only [SdlPrintTA.printSchemaTA, e1, e2, e3, printDirectiveDefinitionA_congr hl, printTypeA_congr hl]

theorem printTextWFA_printOrder (c : SdlPrintTA.OptsA) (s : SchemaD) (apps : Apps) (h : namesUnique s = true) :
    SdlPrintTA.printTextWFA c (printOrder s) apps = SdlPrintTA.printTextWFA c s apps := by
  have e1 : (printOrder s).types.all (SdlPrintTA.typeAppsOK c apps) = s.types.all (SdlPrintTA.typeAppsOK c apps) :=
    (types_perm s).all_eq
  have e2 : (printOrder s).directives.all (SdlPrintTA.directiveAppsOK c apps) = s.directives.all (SdlPrintTA.directiveAppsOK c apps) :=
    (directives_perm s).all_eq
  simp only [SdlPrintTA.printTextWFA, printTextWF_printOrder c.base s h, e1, e2, needsSchemaBlockA_printOrder, rootOps_printOrder]

theorem namesUnique_of_wfA (c : SdlPrintTA.OptsA) (s : SchemaD) (apps : Apps) (h : SdlPrintTA.printTextWFA c s apps = true) :
    namesUnique s = true := by
  simp only [SdlPrintTA.printTextWFA, Bool.and_eq_true] at h
  exact namesUnique_of_wf c.base s h.1.1.1.1

/-! ### erasure -/

theorem isSpec_depr (r : Option String) :
    (deprDirs r).filter SdlPrintTA.isSpecified = deprDirs r := by
  cases r with
  | none => rfl
  | some x =>
    by_cases hx : (x.isEmpty || x == DEFAULT_DEPRECATION) = true
    · have : deprDirs (some x) = [{ name := "deprecated" }] := by simp [deprDirs, hx]
      rw [this]; rfl
    · have hx' : (x.isEmpty || x == DEFAULT_DEPRECATION) = false := by simpa using hx
      have : deprDirs (some x) = [{ name := "deprecated", args := [("reason", .str x)] }] := by simp [deprDirs, hx']
      rw [this]; rfl

theorem filter_kept (c : SdlPrintTA.OptsA) (apps : Apps) (path : String) :
    (SdlPrintTA.keptAt c apps path).filter SdlPrintTA.isSpecified = [] := by
  rw [List.filter_eq_nil_iff]
  intro d hd
  unfold SdlPrintTA.keptAt at hd
  have := (List.mem_filter.1 hd).2
  simp only [SdlPrintTA.keepP, Bool.and_eq_true, Bool.not_eq_true'] at this
  simp only [SdlPrintTA.isSpecified, this.1, Bool.false_eq_true, not_false_eq_true]

theorem eraseIV_argToDefA (s : SchemaD) (c : SdlPrintTA.OptsA) (apps : Apps) (path : String) (a : ArgD) :
    SdlPrintTA.eraseIV (SdlPrintTA.argToDefA s c apps path a) = argToDef s a := by
  simp [SdlPrintTA.eraseIV, SdlPrintTA.argToDefA, filter_kept, argToDef]

theorem eraseField_fieldToDefA (s : SchemaD) (c : SdlPrintTA.OptsA) (apps : Apps) (tname : String) (f : FieldD) :
    SdlPrintTA.eraseField (SdlPrintTA.fieldToDefA s c apps tname f) = fieldToDef s f := by
  simp [SdlPrintTA.eraseField, SdlPrintTA.fieldToDefA, fieldToDef, List.filter_append, filter_kept, isSpec_depr,
    List.map_map, Function.comp_def, eraseIV_argToDefA]

theorem eraseEnumVal_enumValToDefA (c : SdlPrintTA.OptsA) (apps : Apps) (tname : String) (v : EnumValD) :
    SdlPrintTA.eraseEnumVal (SdlPrintTA.enumValToDefA c apps tname v) = enumValToDef v := by
  simp [SdlPrintTA.eraseEnumVal, SdlPrintTA.enumValToDefA, enumValToDef, List.filter_append, filter_kept, isSpec_depr]

theorem eraseType_typeToDefA (s : SchemaD) (c : SdlPrintTA.OptsA) (apps : Apps) (t : TypeD) :
    SdlPrintTA.eraseType (SdlPrintTA.typeToDefA s c apps t) = typeToDef s t := by
  simp [SdlPrintTA.eraseType, SdlPrintTA.typeToDefA, typeToDef, filter_kept, List.map_map, Function.comp_def,
    eraseIV_argToDefA, eraseField_fieldToDefA, eraseEnumVal_enumValToDefA]

/-- erasing the applied custom directives from the document the printer denotes gives the document of the directive-free
    printer — with the `schema` block under the directive printer's condition (`needsSchemaBlockA`) -/
theorem erase_schemaToDocA (s : SchemaD) (c : SdlPrintTA.OptsA) (apps : Apps) :
    (SdlPrintTA.schemaToDocA s c apps).map SdlPrintTA.eraseCustom =
      (if SdlPrintTA.needsSchemaBlockA s c apps then [.schema { ops := rootOps s }] else []) ++
      s.directives.map (fun d => .directive (directiveToDef s d)) ++ s.types.map (fun t => .type (typeToDef s t)) := by
  unfold SdlPrintTA.schemaToDocA
  simp only [List.map_append, List.map_map]
  congr 1
  · congr 1
    · split <;> simp [SdlPrintTA.eraseCustom, filter_kept]
    · apply List.map_congr_left
      intro d _
      simp [SdlPrintTA.eraseCustom, SdlPrintTA.directiveToDefA, directiveToDef, List.map_map, Function.comp_def, eraseIV_argToDefA]
  · apply List.map_congr_left
    intro t _
    simp [SdlPrintTA.eraseCustom, eraseType_typeToDefA]

/-- when no schema-level directive node forces the `schema` block, the erased document IS `schemaToDoc s` -/
theorem erase_schemaToDocA_eq (s : SchemaD) (c : SdlPrintTA.OptsA) (apps : Apps)
    (hb : SdlPrintTA.needsSchemaBlockA s c apps = needsSchemaBlock s) :
    (SdlPrintTA.schemaToDocA s c apps).map SdlPrintTA.eraseCustom = schemaToDoc s := by
  rw [erase_schemaToDocA, hb]; rfl



/-! ### the option off: the directive printer IS the directive-free printer -/

section
variable {c : SdlPrintTA.OptsA} (hc : c.custom = false)
include hc

theorem printDirectives_off (apps : Apps) (path : String) : SdlPrintTA.printDirectives c apps path = [] := by
  simp [SdlPrintTA.printDirectives, SdlPrintTA.nodesAt, hc]

theorem printInputValueA_off (s : SchemaD) (apps : Apps) (path : String) (a : ArgD) :
    SdlPrintTA.printInputValue s c apps path a = SdlPrintT.printInputValue s a := by
  simp only [SdlPrintTA.printInputValue, SdlPrintT.printInputValue, printDirectives_off hc, List.append_nil]

theorem printArgsA_off (s : SchemaD) (apps : Apps) (path : String) (depth : Nat) (multi : Bool) : ∀ (l : List ArgD) (i : Nat),
    SdlPrintTA.printArgs s c apps path depth multi i l = SdlPrintT.printArgs s c.base depth multi i l
  | [], _ => rfl
  | a :: as, i => by simp only [SdlPrintTA.printArgs, SdlPrintT.printArgs, printInputValueA_off hc, printArgsA_off s apps path depth multi as]

theorem printArgumentsA_off (s : SchemaD) (apps : Apps) (path : String) (args : List ArgD) (depth : Nat) :
    SdlPrintTA.printArguments s c apps path args depth = SdlPrintT.printArguments s c.base args depth := by
  simp only [SdlPrintTA.printArguments, SdlPrintT.printArguments, printArgsA_off hc]

theorem printFieldsA_off (s : SchemaD) (apps : Apps) (tname : String) : ∀ (l : List FieldD) (i : Nat),
    SdlPrintTA.printFields s c apps tname i l = SdlPrintT.printFields s c.base i l
  | [], _ => rfl
  | f :: fs, i => by
    simp only [SdlPrintTA.printFields, SdlPrintT.printFields, SdlPrintTA.printField, SdlPrintT.printField, printArgumentsA_off hc,
      printDirectives_off hc, List.append_nil, printFieldsA_off s apps tname fs]

theorem printEnumValuesA_off (apps : Apps) (tname : String) : ∀ (l : List EnumValD) (i : Nat),
    SdlPrintTA.printEnumValues c apps tname i l = SdlPrintT.printEnumValues c.base i l
  | [], _ => rfl
  | v :: vs, i => by
    simp only [SdlPrintTA.printEnumValues, SdlPrintT.printEnumValues, SdlPrintTA.printEnumValue, SdlPrintT.printEnumValue,
      printDirectives_off hc, List.append_nil, printEnumValuesA_off apps tname vs]

theorem printInputFieldsA_off (s : SchemaD) (apps : Apps) (tname : String) : ∀ (l : List ArgD) (i : Nat),
    SdlPrintTA.printInputFields s c apps tname i l = SdlPrintT.printInputFields s c.base i l
  | [], _ => rfl
  | f :: fs, i => by
    simp only [SdlPrintTA.printInputFields, SdlPrintT.printInputFields, SdlPrintTA.printInputField, SdlPrintT.printInputField,
      printInputValueA_off hc, printInputFieldsA_off s apps tname fs]

theorem printTypeA_off (s : SchemaD) (apps : Apps) (t : TypeD) : SdlPrintTA.printType s c apps t = SdlPrintT.printType s c.base t := by
  simp only [SdlPrintTA.printType, SdlPrintT.printType, printDirectives_off hc, List.append_nil, printFieldsA_off hc,
    printEnumValuesA_off hc, printInputFieldsA_off hc]
  cases t.kind <;> simp

theorem printDirectiveDefinitionA_off (s : SchemaD) (apps : Apps) (d : DirectiveD) :
    SdlPrintTA.printDirectiveDefinition s c apps d = SdlPrintT.printDirectiveDefinition s c.base d := by
  simp only [SdlPrintTA.printDirectiveDefinition, SdlPrintT.printDirectiveDefinition, printArgumentsA_off hc]

/-- with a falsy `include_custom_schema_directives` the model with directives prints what `printSchemaT` prints -/
theorem printSchemaTA_off (s : SchemaD) (apps : Apps) : SdlPrintTA.printSchemaTA c s apps = SdlPrintT.printSchemaT c.base s := by
  have e1 : SdlPrintTA.printSchemaDefinition s c apps = SdlPrintT.printSchemaDefinition c.base s := by
    simp [SdlPrintTA.printSchemaDefinition, SdlPrintT.printSchemaDefinition, SdlPrintTA.needsSchemaBlockA, SdlPrintTA.nodesAt, hc,
      printDirectives_off hc]
  have e2 : SdlPrintTA.printDirectiveDefinition s c apps = SdlPrintT.printDirectiveDefinition s c.base := by
    funext d; exact printDirectiveDefinitionA_off hc s apps d
  have e3 : SdlPrintTA.printType s c apps = SdlPrintT.printType s c.base := by
    funext t; exact printTypeA_off hc s apps t
  simp only [SdlPrintTA.printSchemaTA, SdlPrintT.printSchemaT, e1, e2, e3]

end

end PyGql.SdlText

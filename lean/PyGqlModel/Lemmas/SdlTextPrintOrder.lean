/-
  C12 text level — the order of `s.types` / `s.directives` does not matter: for a schema with pairwise distinct names,
  `printOrder s` is in printing order, prints the same text as `s` and satisfies `printTextWF` exactly when `s` does.
-/
import PyGqlModel.Lemmas.SdlTextOrderCongr
import PyGqlModel.Lemmas.SdlTextDoc
namespace PyGql.SdlText
open PyGql PyGql.Sdl PyGql.SdlPrint

theorem unique_of_wf (s : SchemaD) (h : namesUnique s = true) :
    (s.types.map (·.name)).Nodup ∧ (s.directives.map (·.name)).Nodup := by
  simpa [namesUnique] using h

theorem types_perm (s : SchemaD) : (printOrder s).types.Perm s.types := sortBy_perm (fun t : TypeD => t.name) s.types
theorem directives_perm (s : SchemaD) : (printOrder s).directives.Perm s.directives :=
  sortBy_perm (fun d : DirectiveD => d.name) s.directives

theorem inPrintOrder_printOrder (s : SchemaD) (h : namesUnique s = true) : InPrintOrder (printOrder s) := by
  obtain ⟨ht, hd⟩ := unique_of_wf s h
  exact ⟨sortBy_idem (·.name) s.directives hd, sortBy_idem (·.name) s.types ht⟩

theorem findType_printOrder (s : SchemaD) (h : namesUnique s = true) (n : String) :
    (printOrder s).findType n = s.findType n :=
  find?_perm (fun t : TypeD => t.name) n s.types _ (types_perm s) (unique_of_wf s h).1

theorem sameLits_printOrder (s : SchemaD) (h : namesUnique s = true) : SameLits (printOrder s) s :=
  fun v ty => (valueLit_congr s (printOrder s) (findType_printOrder s h) valueFuel).1 v ty

theorem needsSchemaBlock_printOrder (s : SchemaD) : needsSchemaBlock (printOrder s) = needsSchemaBlock s := by
  first
    | rfl
    | (have hp : ∀ f : TypeD → Bool, (printOrder s).types.any f = s.types.any f := fun f => (types_perm s).any_eq
       have e5 : (printOrder s).query = s.query := rfl
       have e6 : (printOrder s).mutation = s.mutation := rfl
       have e7 : (printOrder s).subscription = s.subscription := rfl
       simp only [needsSchemaBlock, rootImplied, hp, e5, e6, e7])

theorem rootOps_printOrder (s : SchemaD) : rootOps (printOrder s) = rootOps s := rfl

theorem printSchemaT_printOrder (o : SdlPrintT.OptsT) (s : SchemaD) (h : namesUnique s = true) :
    SdlPrintT.printSchemaT o (printOrder s) = SdlPrintT.printSchemaT o s := by
  obtain ⟨ht, hd⟩ := unique_of_wf s h
  have hl := sameLits_printOrder s h
  have e1 : SdlPrintT.printSchemaDefinition o (printOrder s) = SdlPrintT.printSchemaDefinition o s := by
    have : SdlPrintT.rootLines o (printOrder s) = SdlPrintT.rootLines o s := rfl
    simp only [SdlPrintT.printSchemaDefinition, needsSchemaBlock_printOrder, this]
  have e2 : sortBy (·.name) (printOrder s).directives = sortBy (·.name) s.directives := sortBy_idem _ _ hd
  have e3 : sortBy (·.name) (printOrder s).types = sortBy (·.name) s.types := sortBy_idem _ _ ht
  simp only [SdlPrintT.printSchemaT, e1, e2, e3, printDirectiveDefinition_congr hl, printType_congr hl]

theorem namesUnique_printOrder (s : SchemaD) : namesUnique (printOrder s) = namesUnique s := by
  have h1 := (((types_perm s).map (fun t : TypeD => t.name)).nodup_iff)
  have h2 := (((directives_perm s).map (fun d : DirectiveD => d.name)).nodup_iff)
  simp only [namesUnique, h1, h2]

theorem printTextWF_printOrder (o : SdlPrintT.OptsT) (s : SchemaD) (h : namesUnique s = true) :
    printTextWF o (printOrder s) = printTextWF o s := by
  have hl := sameLits_printOrder s h
  have e1 : (printOrder s).types.all (typeOKT s o.indent.length) = s.types.all (typeOKT s o.indent.length) :=
    (types_perm s).all_eq
  have e2 : (printOrder s).directives.all (directiveOKT s o.indent.length) = s.directives.all (directiveOKT s o.indent.length) :=
    (directives_perm s).all_eq
  have e3 : (printOrder s).types.isEmpty = s.types.isEmpty := (types_perm s).isEmpty_eq
  have e4 : (printOrder s).directives.isEmpty = s.directives.isEmpty := (directives_perm s).isEmpty_eq
  have e5 : (printOrder s).query = s.query := rfl
  have e6 : (printOrder s).mutation = s.mutation := rfl
  have e7 : (printOrder s).subscription = s.subscription := rfl
  simp only [printTextWF, typeOKT_congr hl, directiveOKT_congr hl, e1, e2, e3, e4, e5, e6, e7, needsSchemaBlock_printOrder,
    rootOps_printOrder, namesUnique_printOrder]

theorem namesUnique_of_wf (o : SdlPrintT.OptsT) (s : SchemaD) (h : printTextWF o s = true) : namesUnique s = true := by
  simp only [printTextWF, Bool.and_eq_true] at h
  exact h.2

end PyGql.SdlText

/-
  C09 — the `args` QUEUE of `execute_fields_serially` against the trace, as an invariant over the steps of
  EVERY schedule: the top-level resolvers invoked so far are exactly the fields in front of the queue, in
  document order (`topKeys trace ++ args.keys = fields.keys`); once the serial chain has finished or failed
  the invoked ones are a prefix of the document order.
-/
import PyGqlModel.Lemmas.ExecSerial

set_option linter.unusedVariables false
set_option linter.unusedSimpArgs false

namespace PyGql.AsyncExec

/-- the response key of a top-level resolver invocation -/
def topKey? : Ev → Option String
  | .call [.key k] => some k
  | _ => none

/-- top-level resolver invocations of a trace, in order -/
def topKeys (tr : List Ev) : List String := tr.filterMap topKey?

@[simp] theorem topKeys_nil : topKeys [] = [] := rfl
@[simp] theorem topKeys_append (a b : List Ev) : topKeys (a ++ b) = topKeys a ++ topKeys b := by simp [topKeys]
@[simp] theorem topKeys_cons_top (k : String) (l : List Ev) : topKeys (.call [.key k] :: l) = k :: topKeys l := by
  simp [topKeys, List.filterMap_cons, topKey?]

theorem topKey_nonTop (e : Ev) (h : nonTop e = true) : topKey? e = none := by
  cases e with
  | done p => rfl
  | call p =>
    cases p with
    | nil => rfl
    | cons a r =>
      cases r with
      | nil => cases a <;> simp_all [nonTop, topKey?]
      | cons b r' => cases a <;> rfl

theorem topKeys_nonTop : ∀ (Δ : List Ev), (∀ e ∈ Δ, nonTop e = true) → topKeys Δ = []
  | [], _ => rfl
  | e :: r, h => by
    have h1 := topKey_nonTop e (h e (by simp))
    have h2 := topKeys_nonTop r (fun x hx => h x (by simp [hx]))
    simp only [topKeys] at h2 ⊢
    simp [List.filterMap_cons, h1, h2]

/-- the queue held by a serial callback at the root of a chain -/
def cbArgs : Node → Option Flds
  | .chain _ (.serialCb [] _ _ args) => some args
  | _ => none

/-- … of a node returned by `_next` (finished Futures around it stripped) -/
def sArgs : Node → Option Flds
  | .done r => sArgs r
  | n => cbArgs n

/-- … below the outer `unwrap_value` of `execute` -/
def uArgs : Node → Option Flds
  | .unwrap c => cbArgs c
  | _ => none

/-- … of the overall result node of a mutation -/
def tArgs : Node → Option Flds
  | .chain u .onFinish => uArgs u
  | _ => none

/-- the queue invariant: with a live queue `args`, the top-level invocations so far followed by the queue are
    the document order; without one they are a prefix of it -/
def QOk (all : List String) (o : Option Flds) (tk : List String) : Prop :=
  match o with
  | some args => tk ++ args.keys = all
  | none => tk <+: all

theorem QOk.prefix {all : List String} {o : Option Flds} {tk : List String} (h : QOk all o tk) : tk <+: all := by
  cases o with
  | none => exact h
  | some args => exact ⟨args.keys, h⟩

theorem uArgs_unwrapCb : ∀ S : Node, uArgs (unwrapCb S) = sArgs S
  | .val x => by simp [unwrapCb, uArgs, sArgs, cbArgs]
  | .failed e => by simp [unwrapCb, uArgs, sArgs, cbArgs]
  | .done (.val x) => by simp [unwrapCb, uArgs, sArgs, cbArgs]
  | .done (.failed e) => by simp [unwrapCb, uArgs, sArgs, cbArgs]
  | .done (.done r) => by
    have := uArgs_unwrapCb (.done r)
    simpa [unwrapCb, sArgs] using this
  | .done (.chain F k) => by simp [unwrapCb, uArgs, sArgs]
  | .done (.task a b c d) => by simp [unwrapCb, uArgs, sArgs]
  | .done (.unwrap a) => by simp [unwrapCb, uArgs, sArgs]
  | .done (.gather a b c) => by simp [unwrapCb, uArgs, sArgs]
  | .chain F k => by simp [unwrapCb, uArgs, sArgs]
  | .task a b c d => by simp [unwrapCb, uArgs, sArgs]
  | .unwrap a => by simp [unwrapCb, uArgs, sArgs]
  | .gather a b c => by simp [unwrapCb, uArgs, sArgs]

/-- `_on_finish` of `execute` neither touches the trace nor the queue -/
theorem onFinish_q (U : Node) (s : ExecSt) :
    tArgs (chainOnFinish applyCont U .onFinish s).1 = uArgs U ∧ (chainOnFinish applyCont U .onFinish s).2 = s := by
  cases U with
  | done r => simp [chainOnFinish, applyCont, applySimple, tArgs, uArgs]
  | failed e => simp [chainOnFinish, applyCont, applySimple, tArgs, uArgs]
  | val x => simp [chainOnFinish, tArgs, uArgs]
  | task a b c d => simp [chainOnFinish, tArgs, uArgs]
  | chain a b => simp [chainOnFinish, tArgs, uArgs]
  | unwrap a => simp [chainOnFinish, tArgs, uArgs]
  | gather a b c => simp [chainOnFinish, tArgs, uArgs]

def QRes (all : List String) (r : Res Node × ExecSt) : Prop :=
  match r.1 with
  | .ok n => QOk all (sArgs n) (topKeys r.2.trace)
  | .exc _ => topKeys r.2.trace <+: all

/-- `_next` keeps the queue invariant -/
theorem serialNext_q (all : List String) : ∀ (args : Flds) (resolved : List (String × V)) (s : ExecSt),
    topKeys s.trace ++ args.keys = all → QRes all (serialNext [] resolved args s)
  | .nil, resolved, s, h => by
    simp only [serialNext, QRes, sArgs, cbArgs, QOk]
    exact ⟨[], by simpa [Flds.keys] using h⟩
  | .cons key mode out args, resolved, s, h => by
    obtain ⟨⟨Δ, t, hn, _⟩, _⟩ := resolveField_step out ([] ++ [.key key]) mode s (by simp)
    have ih := fun (w : V) (s1 : ExecSt) => serialNext_q all args (resolved ++ [(key, w)]) s1
    simp only [serialNext]
    cases hr : resolveField ([] ++ [.key key]) mode out s with
    | mk r s1 =>
      rw [hr] at t
      simp only at t
      have hk : topKeys s1.trace ++ args.keys = all := by
        rw [t]; simp [topKeys_nonTop Δ hn]; simpa [Flds.keys] using h
      have hp : topKeys s1.trace <+: all := ⟨args.keys, hk⟩
      split
      · rename_i h'; cases h'; exact hp
      · rename_i h'; cases h'; exact ih _ s1 hk
      · rename_i h'; cases h'; exact hp
      · rename_i h'; cases h'
        rename_i v
        have := ih v s1 hk
        split
        · rename_i h3; rw [h3] at this; simpa [QRes, sArgs] using this
        · rename_i h3; rw [h3] at this; simpa [QRes, sArgs, cbArgs, QOk] using this
      · rename_i h'; cases h'; exact hp
      · rename_i h'; cases h'
        rename_i n hn1 hn2 hn3 hn4
        simp only [QRes, sArgs, cbArgs, QOk]
        exact hk

/-- the invariant of a mutation run -/
def OrdInv (all : List String) (top : Node) (s : ExecSt) : Prop := QOk all (tArgs top) (topKeys s.trace)

/-- one completion seen from the spine keeps the queue invariant -/
theorem spineStep_q (all : List String) (F' : Node) (s1 : ExecSt) (key : String) (resolved : List (String × V)) (args : Flds)
    (h : topKeys s1.trace ++ args.keys = all) :
    OrdInv all (spineStep F' s1 key resolved args).1 (spineStep F' s1 key resolved args).2 := by
  have hp : topKeys s1.trace <+: all := ⟨args.keys, h⟩
  have key_step : ∀ (C : Node) (s2 : ExecSt), chainOnFinish applyCont F' (.serialCb [] key resolved args) s1 = (C, s2) →
      QOk all (sArgs C) (topKeys s2.trace) →
      OrdInv all (spineStep F' s1 key resolved args).1 (spineStep F' s1 key resolved args).2 := by
    intro C s2 heq hq
    rw [spineStep_of_inner _ _ _ _ _ _ _ heq]
    obtain ⟨a1, a2⟩ := onFinish_q (unwrapCb C) s2
    unfold OrdInv
    rw [a1, a2, uArgs_unwrapCb]
    exact hq
  cases F' with
  | task a b c d => exact key_step _ _ rfl (by simpa [sArgs, cbArgs, QOk] using h)
  | chain a b => exact key_step _ _ rfl (by simpa [sArgs, cbArgs, QOk] using h)
  | unwrap a => exact key_step _ _ rfl (by simpa [sArgs, cbArgs, QOk] using h)
  | gather a b c => exact key_step _ _ rfl (by simpa [sArgs, cbArgs, QOk] using h)
  | val x => exact key_step _ _ rfl (by simpa [sArgs, cbArgs, QOk] using h)
  | failed e =>
    exact key_step (.failed e) s1 (by simp [chainOnFinish, applyCont, applySimple]) (by simpa [sArgs, cbArgs, QOk] using hp)
  | done r =>
    cases hx : r.plain with
    | data v =>
      have hq := serialNext_q all args (resolved ++ [(key, v)]) s1 h
      cases hs : serialNext [] (resolved ++ [(key, v)]) args s1 with
      | mk r2 s2 =>
        rw [hs] at hq
        cases r2 with
        | ok S' =>
          exact key_step (.done S') s2 (by simp [chainOnFinish, hx, applyCont, hs]) (by simpa [QRes, sArgs] using hq)
        | exc e2 =>
          exact key_step (.failed e2) s2 (by simp [chainOnFinish, hx, applyCont, hs]) (by simpa [QRes, sArgs, cbArgs, QOk] using hq)
    | raw c' =>
      exact key_step (.done (.val .junk)) s1 (by simp [chainOnFinish, hx, applyCont, applySimple])
        (by simpa [sArgs, cbArgs, QOk] using hp)
    | junk =>
      exact key_step (.done (.val .junk)) s1 (by simp [chainOnFinish, hx, applyCont, applySimple])
        (by simpa [sArgs, cbArgs, QOk] using hp)

theorem deliver_q (all : List String) (top : Node) (t : Nat) (s : ExecSt) (hts : TopSerial top s) (h : OrdInv all top s) :
    OrdInv all (deliver applyCont t top s).1 (deliver applyCont t top s).2 := by
  obtain ⟨hshape, _, _⟩ := hts
  cases top with
  | val x => simpa only [deliver] using h
  | failed e => simpa only [deliver] using h
  | done r => simpa only [deliver] using h
  | task a b c d => simp [TShape] at hshape
  | unwrap a => simp [TShape] at hshape
  | gather a b c => simp [TShape] at hshape
  | chain U k =>
    cases k with
    | onFinish =>
      cases U with
      | unwrap C =>
        cases C with
        | chain F cb =>
          cases cb with
          | serialCb p key resolved args =>
            cases p with
            | cons q qs => simp [TShape] at hshape
            | nil =>
              simp only [TShape] at hshape
              obtain ⟨hg, hf, hre, hns⟩ := hshape
              obtain ⟨⟨Δ, t1, n1, _⟩, _⟩ := deliver_step F t s hg hns
              have heq : deliver applyCont t (.chain (.unwrap (.chain F (.serialCb [] key resolved args))) .onFinish) s
                  = spineStep (deliver applyCont t F s).1 (deliver applyCont t F s).2 key resolved args := by
                simp only [deliver, spineStep]
              rw [heq]
              apply spineStep_q
              rw [t1]
              simpa [topKeys_nonTop Δ n1, OrdInv, tArgs, uArgs, cbArgs, QOk] using h
          | _ => simp [TShape] at hshape
        | _ => simp [TShape] at hshape
      | _ => simp [TShape] at hshape
    | _ => cases U <;> simp [TShape] at hshape

theorem stepSched_q (all : List String) (top : Node) (s : ExecSt) (i : Nat) (hts : TopSerial top s) (h : OrdInv all top s) :
    OrdInv all (stepSched top s i).1 (stepSched top s i).2 := by
  unfold stepSched
  simp only
  split
  · exact h
  · rename_i t _
    exact deliver_q all top t { s with queue := removeAt s.queue (i % s.queue.length) } hts h

theorem runSched_q (all : List String) : ∀ (sched : List Nat) (top : Node) (s : ExecSt) (sizes : List Nat),
    TopSerial top s → OrdInv all top s →
    OrdInv all (runSched top s sizes sched).top (runSched top s sizes sched).st
  | [], top, s, sizes, _, h => by simpa [runSched] using h
  | i :: rest, top, s, sizes, hts, h => by
    simp only [runSched]
    split
    · exact h
    · have h1 := stepSched_serial top s i hts
      have h2 := stepSched_q all top s i hts h
      cases hs : stepSched top s i with
      | mk top' s' =>
        rw [hs] at h1 h2
        exact runSched_q all rest top' s' _ h1 h2

/-- `execute` of a mutation establishes the queue invariant (or has raised with a prefix invoked) -/
theorem execute_q (fields : Flds) :
    match execute ⟨.mutation, fields⟩ {} with
    | (.exc _, s) => topKeys s.trace <+: fields.keys
    | (.ok top, s) => OrdInv fields.keys top s := by
  have hq := serialNext_q fields.keys fields [] {} (by simp [topKeys])
  obtain ⟨_, j2, _⟩ := serialNext_top fields [] {} serialTr_nil rfl
  unfold execute
  simp only [executeFieldsSerially]
  cases hs : serialNext [] [] fields {} with
  | mk r s1 =>
    rw [hs] at hq j2
    cases r with
    | exc e => exact hq
    | ok n =>
      simp only [QRes] at hq
      simp only [SpineSRes] at j2
      simp only
      have fin : ∀ U : Node, USpine U → uArgs U = sArgs n →
          (match mapValue applyCont U .onFinish s1 with
           | (.exc _, s) => topKeys s.trace <+: fields.keys
           | (.ok top, s) => OrdInv fields.keys top s) := by
        intro U hU hu
        rw [mapValue_onFinish_spine _ _ hU]
        obtain ⟨a1, a2⟩ := onFinish_q U s1
        simp only [OrdInv]
        rw [a1, a2, hu]
        exact hq
      cases n with
      | val x =>
        have : mapValue applyCont (unwrapValue (.val x)) .onFinish s1 = (.ok (.val x), s1) := by
          simp [unwrapValue, mapValue, applyCont, applySimple]
        rw [this]
        simpa [OrdInv, tArgs, sArgs, cbArgs] using hq
      | done r =>
        have hv : unwrapValue (.done r) = unwrapCb (.done r) := rfl
        rw [hv]
        exact fin _ (unwrapCb_spine (.done r) j2) (uArgs_unwrapCb _)
      | failed e =>
        have hv : unwrapValue (.failed e) = unwrapCb (.failed e) := rfl
        rw [hv]
        exact fin _ (unwrapCb_spine (.failed e) j2) (uArgs_unwrapCb _)
      | chain F k =>
        have hv : unwrapValue (.chain F k) = unwrapCb (.chain F k) := rfl
        rw [hv]
        exact fin _ (unwrapCb_spine (.chain F k) j2) (uArgs_unwrapCb _)
      | task a b c d => simp [SpineS] at j2
      | unwrap a => simp [SpineS] at j2
      | gather a b c => simp [SpineS] at j2

end PyGql.AsyncExec

/-
  Value nodes of TYPE-SYSTEM definitions (arguments of directives everywhere, default values of arguments and input
  fields): sub-nodes of the definition's view, well-formed when the definition is.
-/
import PyGqlModel.Lemmas.SpanVals
namespace PyGql.Ast
open PyGql

def InputValueDefinition.vals (d : InputValueDefinition) : List Value := defaultVals d.defaultValue ++ dirsVals d.directives
def FieldDefinition.vals (d : FieldDefinition) : List Value :=
  d.arguments.flatMap InputValueDefinition.vals ++ dirsVals d.directives
def EnumValueDefinition.vals (d : EnumValueDefinition) : List Value := dirsVals d.directives

/-- every value node of a definition -/
def Definition.vals : Definition → List Value
  | .operation d => d.vals
  | .fragment d => d.vals
  | .schemaDefinition dirs _ _ => dirsVals dirs
  | .scalarTypeDefinition _ _ dirs _ => dirsVals dirs
  | .objectTypeDefinition _ _ _ dirs fields _ => dirsVals dirs ++ fields.flatMap FieldDefinition.vals
  | .interfaceTypeDefinition _ _ dirs fields _ => dirsVals dirs ++ fields.flatMap FieldDefinition.vals
  | .unionTypeDefinition _ _ dirs _ _ => dirsVals dirs
  | .enumTypeDefinition _ _ dirs values _ => dirsVals dirs ++ values.flatMap EnumValueDefinition.vals
  | .inputObjectTypeDefinition _ _ dirs fields _ => dirsVals dirs ++ fields.flatMap InputValueDefinition.vals
  | .directiveDefinition _ _ args _ _ => args.flatMap InputValueDefinition.vals
  | .schemaExtension dirs _ _ => dirsVals dirs
  | .scalarTypeExtension _ dirs _ => dirsVals dirs
  | .objectTypeExtension _ _ dirs fields _ => dirsVals dirs ++ fields.flatMap FieldDefinition.vals
  | .interfaceTypeExtension _ dirs fields _ => dirsVals dirs ++ fields.flatMap FieldDefinition.vals
  | .unionTypeExtension _ dirs _ _ => dirsVals dirs
  | .enumTypeExtension _ dirs values _ => dirsVals dirs ++ values.flatMap EnumValueDefinition.vals
  | .inputObjectTypeExtension _ dirs fields _ => dirsVals dirs ++ fields.flatMap InputValueDefinition.vals

end PyGql.Ast

namespace PyGql.Spec
open PyGql PyGql.Ast PyGql.Parse

/-- search: the hypothesis `SubL j part` in context, the goal `SubL j (… part …)` built from `++` and `::` -/
syntax "subl" : tactic
macro_rules
  | `(tactic| subl) => `(tactic| first
      | assumption
      | (apply SubL.tail; subl)
      | (apply SubL.left; subl)
      | (apply SubL.right; subl))

theorem SubL.block {α} {j : Item} (f : α → Item) {xs : List α} {x : α} (hx : x ∈ xs) (h : Item.Sub j (f x)) :
    SubL j (blockV f xs) := by
  unfold blockV
  have : xs.isEmpty = false := by cases xs with | nil => cases hx | cons _ _ => rfl
  simp only [this, Bool.false_eq_true, if_false]
  exact (SubL.map f hx h).left _ |>.tail _

theorem inputValue_vals (d : InputValueDefinition) (w : Value) (h : w ∈ d.vals) :
    Item.Sub (valueV w) (inputValueV d) ∧ (wfInputValue d = true → wfValue false w = true) := by
  unfold InputValueDefinition.vals at h
  unfold inputValueV
  simp only [wfInputValue, Bool.and_eq_true]
  rcases List.mem_append.1 h with h | h
  · obtain ⟨h1, h2⟩ := default_vals d.defaultValue w h
    exact ⟨by apply SubL.node; subl, fun hh => h2 hh.1.2⟩
  · obtain ⟨h1, h2⟩ := directives_vals true d.directives w h
    exact ⟨by apply SubL.node; subl, fun hh => h2 hh.2⟩

theorem inputValues_vals (ds : List InputValueDefinition) (w : Value) (h : w ∈ ds.flatMap InputValueDefinition.vals) :
    (SubL (valueV w) (groupV .parenL .parenR inputValueV ds) ∧ SubL (valueV w) (blockV inputValueV ds)) ∧
    (ds.all wfInputValue = true → wfValue false w = true) := by
  obtain ⟨d, hd, hw⟩ := mem_flatMap' h
  obtain ⟨h1, h2⟩ := inputValue_vals d w hw
  exact ⟨⟨SubL.group _ _ inputValueV hd h1, SubL.block inputValueV hd h1⟩, fun hh => h2 (all_mem hh hd)⟩

theorem fieldDefinition_vals (d : FieldDefinition) (w : Value) (h : w ∈ d.vals) :
    Item.Sub (valueV w) (fieldDefinitionV d) ∧ (wfFieldDefinition d = true → wfValue false w = true) := by
  unfold FieldDefinition.vals at h
  unfold fieldDefinitionV
  simp only [wfFieldDefinition, Bool.and_eq_true]
  rcases List.mem_append.1 h with h | h
  · obtain ⟨⟨h1, _⟩, h2⟩ := inputValues_vals d.arguments w h
    exact ⟨by apply SubL.node; subl, fun hh => h2 hh.1.1⟩
  · obtain ⟨h1, h2⟩ := directives_vals true d.directives w h
    exact ⟨by apply SubL.node; subl, fun hh => h2 hh.2⟩

theorem fieldDefinitions_vals (ds : List FieldDefinition) (w : Value) (h : w ∈ ds.flatMap FieldDefinition.vals) :
    SubL (valueV w) (blockV fieldDefinitionV ds) ∧ (ds.all wfFieldDefinition = true → wfValue false w = true) := by
  obtain ⟨d, hd, hw⟩ := mem_flatMap' h
  obtain ⟨h1, h2⟩ := fieldDefinition_vals d w hw
  exact ⟨SubL.block fieldDefinitionV hd h1, fun hh => h2 (all_mem hh hd)⟩

theorem enumValueDefinition_vals (d : EnumValueDefinition) (w : Value) (h : w ∈ d.vals) :
    Item.Sub (valueV w) (enumValueDefinitionV d) ∧ (wfEnumValueDefinition d = true → wfValue false w = true) := by
  unfold EnumValueDefinition.vals at h
  unfold enumValueDefinitionV
  simp only [wfEnumValueDefinition, Bool.and_eq_true]
  obtain ⟨h1, h2⟩ := directives_vals true d.directives w h
  exact ⟨by apply SubL.node; subl, fun hh => h2 hh.2⟩

theorem enumValueDefinitions_vals (ds : List EnumValueDefinition) (w : Value) (h : w ∈ ds.flatMap EnumValueDefinition.vals) :
    SubL (valueV w) (blockV enumValueDefinitionV ds) ∧ (ds.all wfEnumValueDefinition = true → wfValue false w = true) := by
  obtain ⟨d, hd, hw⟩ := mem_flatMap' h
  obtain ⟨h1, h2⟩ := enumValueDefinition_vals d w hw
  exact ⟨SubL.block enumValueDefinitionV hd h1, fun hh => h2 (all_mem hh hd)⟩

/-- every value node of every definition -/
theorem definition_vals (fl : Flags) (x : Definition) (w : Value) (h : w ∈ x.vals) :
    Item.Sub (valueV w) (definitionV x) ∧ (wfDefinition fl x = true → wfValue false w = true) := by
  cases x with
  | operation d => exact operation_vals d w h
  | fragment d => exact fragment_vals fl d w h
  | schemaDefinition dirs ops loc =>
    obtain ⟨h1, h2⟩ := directives_vals true dirs w h
    exact ⟨by simp only [definitionV]; apply SubL.node; subl, fun hh => h2 (by simp [wfDefinition] at hh; exact hh.1.1)⟩
  | scalarTypeDefinition desc name dirs loc =>
    obtain ⟨h1, h2⟩ := directives_vals true dirs w h
    exact ⟨by simp only [definitionV]; apply SubL.node; subl, fun hh => h2 (by simpa [wfDefinition] using hh)⟩
  | objectTypeDefinition desc name ifs dirs fields loc =>
    simp only [Definition.vals, List.mem_append] at h
    rcases h with h | h
    · obtain ⟨h1, h2⟩ := directives_vals true dirs w h
      exact ⟨by simp only [definitionV]; apply SubL.node; subl, fun hh => h2 (by simp [wfDefinition] at hh; exact hh.1)⟩
    · obtain ⟨h1, h2⟩ := fieldDefinitions_vals fields w h
      exact ⟨by simp only [definitionV]; apply SubL.node; subl, fun hh => h2 (by simp [wfDefinition] at hh; simpa using hh.2)⟩
  | interfaceTypeDefinition desc name dirs fields loc =>
    simp only [Definition.vals, List.mem_append] at h
    rcases h with h | h
    · obtain ⟨h1, h2⟩ := directives_vals true dirs w h
      exact ⟨by simp only [definitionV]; apply SubL.node; subl, fun hh => h2 (by simp [wfDefinition] at hh; exact hh.1)⟩
    · obtain ⟨h1, h2⟩ := fieldDefinitions_vals fields w h
      exact ⟨by simp only [definitionV]; apply SubL.node; subl, fun hh => h2 (by simp [wfDefinition] at hh; simpa using hh.2)⟩
  | unionTypeDefinition desc name dirs types loc =>
    obtain ⟨h1, h2⟩ := directives_vals true dirs w h
    exact ⟨by simp only [definitionV]; apply SubL.node; subl, fun hh => h2 (by simpa [wfDefinition] using hh)⟩
  | enumTypeDefinition desc name dirs values loc =>
    simp only [Definition.vals, List.mem_append] at h
    rcases h with h | h
    · obtain ⟨h1, h2⟩ := directives_vals true dirs w h
      exact ⟨by simp only [definitionV]; apply SubL.node; subl, fun hh => h2 (by simp [wfDefinition] at hh; exact hh.1)⟩
    · obtain ⟨h1, h2⟩ := enumValueDefinitions_vals values w h
      exact ⟨by simp only [definitionV]; apply SubL.node; subl, fun hh => h2 (by simp [wfDefinition] at hh; simpa using hh.2)⟩
  | inputObjectTypeDefinition desc name dirs fields loc =>
    simp only [Definition.vals, List.mem_append] at h
    rcases h with h | h
    · obtain ⟨h1, h2⟩ := directives_vals true dirs w h
      exact ⟨by simp only [definitionV]; apply SubL.node; subl, fun hh => h2 (by simp [wfDefinition] at hh; exact hh.1)⟩
    · obtain ⟨⟨_, h1⟩, h2⟩ := inputValues_vals fields w h
      exact ⟨by simp only [definitionV]; apply SubL.node; subl, fun hh => h2 (by simp [wfDefinition] at hh; simpa using hh.2)⟩
  | directiveDefinition desc name args locations loc =>
    obtain ⟨⟨h1, _⟩, h2⟩ := inputValues_vals args w h
    exact ⟨by simp only [definitionV]; apply SubL.node; subl, fun hh => h2 (by simp [wfDefinition] at hh; simpa using hh.1.1)⟩
  | schemaExtension dirs ops loc =>
    obtain ⟨h1, h2⟩ := directives_vals true dirs w h
    exact ⟨by simp only [definitionV]; apply SubL.node; subl, fun hh => h2 (by simp [wfDefinition] at hh; exact hh.1.1)⟩
  | scalarTypeExtension name dirs loc =>
    obtain ⟨h1, h2⟩ := directives_vals true dirs w h
    exact ⟨by simp only [definitionV]; apply SubL.node; subl, fun hh => h2 (by simp [wfDefinition] at hh; exact hh.1)⟩
  | objectTypeExtension name ifs dirs fields loc =>
    simp only [Definition.vals, List.mem_append] at h
    rcases h with h | h
    · obtain ⟨h1, h2⟩ := directives_vals true dirs w h
      exact ⟨by simp only [definitionV]; apply SubL.node; subl, fun hh => h2 (by simp [wfDefinition] at hh; exact hh.1.1)⟩
    · obtain ⟨h1, h2⟩ := fieldDefinitions_vals fields w h
      exact ⟨by simp only [definitionV]; apply SubL.node; subl, fun hh => h2 (by simp [wfDefinition] at hh; simpa using hh.1.2)⟩
  | interfaceTypeExtension name dirs fields loc =>
    simp only [Definition.vals, List.mem_append] at h
    rcases h with h | h
    · obtain ⟨h1, h2⟩ := directives_vals true dirs w h
      exact ⟨by simp only [definitionV]; apply SubL.node; subl, fun hh => h2 (by simp [wfDefinition] at hh; exact hh.1.1)⟩
    · obtain ⟨h1, h2⟩ := fieldDefinitions_vals fields w h
      exact ⟨by simp only [definitionV]; apply SubL.node; subl, fun hh => h2 (by simp [wfDefinition] at hh; simpa using hh.1.2)⟩
  | unionTypeExtension name dirs types loc =>
    obtain ⟨h1, h2⟩ := directives_vals true dirs w h
    exact ⟨by simp only [definitionV]; apply SubL.node; subl, fun hh => h2 (by simp [wfDefinition] at hh; exact hh.1)⟩
  | enumTypeExtension name dirs values loc =>
    simp only [Definition.vals, List.mem_append] at h
    rcases h with h | h
    · obtain ⟨h1, h2⟩ := directives_vals true dirs w h
      exact ⟨by simp only [definitionV]; apply SubL.node; subl, fun hh => h2 (by simp [wfDefinition] at hh; exact hh.1.1)⟩
    · obtain ⟨h1, h2⟩ := enumValueDefinitions_vals values w h
      exact ⟨by simp only [definitionV]; apply SubL.node; subl, fun hh => h2 (by simp [wfDefinition] at hh; simpa using hh.1.2)⟩
  | inputObjectTypeExtension name dirs fields loc =>
    simp only [Definition.vals, List.mem_append] at h
    rcases h with h | h
    · obtain ⟨h1, h2⟩ := directives_vals true dirs w h
      exact ⟨by simp only [definitionV]; apply SubL.node; subl, fun hh => h2 (by simp [wfDefinition] at hh; exact hh.1.1)⟩
    · obtain ⟨⟨_, h1⟩, h2⟩ := inputValues_vals fields w h
      exact ⟨by simp only [definitionV]; apply SubL.node; subl, fun hh => h2 (by simp [wfDefinition] at hh; simpa using hh.1.2)⟩

end PyGql.Spec

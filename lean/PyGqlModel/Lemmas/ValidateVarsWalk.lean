/-
  The walk of a chain that carries a `VariablesCollector` (the three rules built on it), in relational form:
  visiting a sub-tree restores the stacks of `TypeInfoVisitor` and transforms the collector by the list of
  EVENTS of the sub-tree (`vlog`): a variable definition, a fragment spread, a variable usage at its static
  position - the positions being those of `Spec/ValidSpecVars.lean` (`usesValue`, `argPos`), computed without stacks.
  Part 1: events, the generic node lemma, values, arguments, directives.
-/
import PyGqlModel.Lemmas.ValidateTyped
import PyGqlModel.Spec.ValidSpecVars
namespace PyGql.Validate
open PyGql PyGql.Validate.Spec

inductive VEv where
  | use (x : String) (u : Usage)
  | spread (f : String)
  | defn (v : VarDef)

/-- the position `VariablesCollector.enter_variable` reads from `TypeInfoVisitor` -/
def TI.pos (t : TI) : Usage :=
  { inputType := t.inputType, locDefault := (t.inputValueDef.map (·.hasDefault)).getD false }

namespace VC

/-- `enter_variable` with the position given -/
def useVar (fx : Fixes) (x : String) (u : Usage) (c : VC) : VC :=
  if c.inVarDef then c
  else match c.op, c.frag with
    | some o, _ => { c with opVars := AL.modify c.opVars o [] (fun m => record fx m x u) }
    | none, some f => { c with fragVars := AL.modify c.fragVars f [] (fun m => record fx m x u) }
    | none, none => c

theorem enterVariable_eq (fx : Fixes) (x : String) (ti : TI) (c : VC) :
    enterVariable fx x ti c = useVar fx x ti.pos c := rfl

/-- the lasting effect of `enter_variable_definition` -/
def defineVar (v : VarDef) (c : VC) : VC :=
  match c.op with
  | some o => { c with opDefined := AL.modify c.opDefined o [] (fun m => AL.set m v.name v) }
  | none => c

def applyEv (fx : Fixes) : VEv → VC → VC
  | .use x u, c => c.useVar fx x u
  | .spread f, c => c.enterSpread f
  | .defn v, c => c.defineVar v

def applyAll (fx : Fixes) (l : List VEv) (c : VC) : VC := l.foldl (fun c e => applyEv fx e c) c

theorem applyAll_nil (fx : Fixes) (c : VC) : applyAll fx [] c = c := rfl
theorem applyAll_append (fx : Fixes) (a b : List VEv) (c : VC) :
    applyAll fx (a ++ b) c = applyAll fx b (applyAll fx a c) := by simp [applyAll]
theorem applyAll_cons (fx : Fixes) (e : VEv) (l : List VEv) (c : VC) :
    applyAll fx (e :: l) c = applyAll fx l (applyEv fx e c) := rfl

theorem applyEv_scope (fx : Fixes) (e : VEv) (c : VC) :
    (applyEv fx e c).op = c.op ∧ (applyEv fx e c).frag = c.frag ∧ (applyEv fx e c).inVarDef = c.inVarDef := by
  cases e with
  | use x u =>
    simp only [applyEv, useVar]
    split
    · exact ⟨rfl, rfl, rfl⟩
    · split <;> exact ⟨rfl, rfl, rfl⟩
  | spread f =>
    simp only [applyEv, enterSpread]
    split
    · exact ⟨rfl, rfl, rfl⟩
    · split <;> exact ⟨rfl, rfl, rfl⟩
    · exact ⟨rfl, rfl, rfl⟩
  | defn v =>
    simp only [applyEv, defineVar]
    split <;> exact ⟨rfl, rfl, rfl⟩

theorem applyAll_scope (fx : Fixes) (l : List VEv) (c : VC) :
    (applyAll fx l c).op = c.op ∧ (applyAll fx l c).frag = c.frag ∧ (applyAll fx l c).inVarDef = c.inVarDef := by
  induction l generalizing c with
  | nil => exact ⟨rfl, rfl, rfl⟩
  | cons e l ih =>
    rw [applyAll_cons]
    obtain ⟨a1, a2, a3⟩ := ih (applyEv fx e c)
    obtain ⟨b1, b2, b3⟩ := applyEv_scope fx e c
    exact ⟨a1.trans b1, a2.trans b2, a3.trans b3⟩

/-- usages as events -/
def useEvs (l : List (String × Usage)) : List VEv := l.map fun p => .use p.1 p.2

theorem useEvs_append (a b : List (String × Usage)) : useEvs (a ++ b) = useEvs a ++ useEvs b := by simp [useEvs]

/-- inside a variable definition usages are ignored -/
theorem applyAll_useEvs_inVarDef (fx : Fixes) (l : List (String × Usage)) (c : VC) (h : c.inVarDef = true) :
    applyAll fx (useEvs l) c = c := by
  induction l with
  | nil => rfl
  | cons p l ih =>
    simp only [useEvs, List.map_cons, applyAll_cons, applyEv, useVar, h, ↓reduceIte]
    exact ih

theorem leaveVarDef_enterVarDef (v : VarDef) (c : VC) (h : c.inVarDef = false) :
    (c.enterVarDef v).leaveVarDef = c.defineVar v := by
  cases c with
  | mk op frag ivd a b c d e =>
    simp only at h; subst h
    cases op <;> simp [enterVarDef, leaveVarDef, defineVar]

end VC

/-- `VariablesCollector.enter` -/
def vcEnter (fx : Fixes) (n : Node) (ti : TI) (c : VC) : VC :=
  match n with
  | .operation _ name _ _ _ => c.enterOperation name
  | .fragmentDef name _ _ => c.enterFragmentDef name
  | .spread name _ => c.enterSpread name
  | .varDef v => c.enterVarDef v
  | .value (.var x) => c.enterVariable fx x ti
  | _ => c

/-- `VariablesCollector.leave` (below the document) -/
def vcLeave (n : Node) (c : VC) : VC :=
  match n with
  | .operation .. => c.leaveOperation
  | .fragmentDef .. => c.leaveFragmentDef
  | .varDef _ => c.leaveVarDef
  | _ => c

/-- a chain that never skips below the document and whose state projection `π` is a `VariablesCollector` -/
structure VCC (c : Cfg) (π : St → VC) : Prop where
  noskip : ∀ n st, n.isDoc = false → (enter c n st).2 = false
  enterπ : ∀ n st, n.isDoc = false → π (enter c n st).1 = vcEnter c.fixes n (tiEnter c.schema n st.ti) (π st)
  leaveπ : ∀ n st, n.isDoc = false → π (leave c n st) = vcLeave n (π st)

/-- the events of one (node, static context) pair -/
def evOf (s : SchemaD) : Node × View → List VEv
  | (.argument a, v) => VC.useEvs (usesValue s (argPos s v a.name) a.value)
  | (.spread f _, _) => [.spread f]
  | (.varDef vd, _) => [.defn vd]
  | _ => []

def vlog (s : SchemaD) (l : List (Node × View)) : List VEv := l.flatMap (evOf s)

theorem vlog_nil (s : SchemaD) : vlog s [] = [] := rfl
theorem vlog_cons (s : SchemaD) (p : Node × View) (l : List (Node × View)) : vlog s (p :: l) = evOf s p ++ vlog s l := by
  simp [vlog]
theorem vlog_append (s : SchemaD) (a b : List (Node × View)) : vlog s (a ++ b) = vlog s a ++ vlog s b := by
  simp [vlog]

/-- a visit restores the stacks and applies the listed events to the collector -/
def VW (π : St → VC) (fx : Fixes) (evs : List VEv) (st st' : St) : Prop :=
  st'.ti = st.ti ∧ π st' = (π st).applyAll fx evs

variable {c : Cfg} {π : St → VC}

theorem VW.nil (st : St) : VW π c.fixes [] st st := ⟨rfl, rfl⟩
theorem VW.append {a b : List VEv} {s1 s2 s3 : St} (h1 : VW π c.fixes a s1 s2) (h2 : VW π c.fixes b s2 s3) :
    VW π c.fixes (a ++ b) s1 s3 := ⟨h2.1.trans h1.1, by rw [h2.2, h1.2, VC.applyAll_append]⟩

/-- the generic node: enter, body, leave -/
theorem visitNodeV (h : VCC c π) (n : Node) (body : St → St) (evs : List VEv) (st : St)
    (hn : n.isDoc = false) (hd : ∀ d, n = .directive d → st.ti.directive = none)
    (hb : ∀ st1, st1.ti = tiEnter c.schema n st.ti → π st1 = vcEnter c.fixes n (tiEnter c.schema n st.ti) (π st) →
      VW π c.fixes evs st1 (body st1)) :
    (visitNode c n body st).ti = st.ti ∧
    π (visitNode c n body st) =
      vcLeave n ((vcEnter c.fixes n (tiEnter c.schema n st.ti) (π st)).applyAll c.fixes evs) := by
  have e1 := h.enterπ n st hn
  have e2 := h.noskip n st hn
  have e3 := enter_ti c n st
  unfold visitNode
  revert e1 e2 e3
  generalize enter c n st = p
  obtain ⟨st1, sk⟩ := p
  intro e1 e2 e3
  simp only at e1 e2 e3
  subst e2
  simp only [Bool.false_eq_true, ↓reduceIte]
  obtain ⟨b1, b2⟩ := hb st1 e3 e1
  refine ⟨?_, ?_⟩
  · rw [leave_ti, b1, e3, tiLeave_tiEnter _ _ _ hd]
  · rw [h.leaveπ n _ hn, b2, e1]

/-- a node the collector ignores -/
theorem visitNodeV_idle (h : VCC c π) (n : Node) (body : St → St) (evs : List VEv) (st : St)
    (hn : n.isDoc = false) (hd : ∀ d, n = .directive d → st.ti.directive = none)
    (hE : ∀ ti cc, vcEnter c.fixes n ti cc = cc) (hL : ∀ cc, vcLeave n cc = cc)
    (hb : ∀ st1, st1.ti = tiEnter c.schema n st.ti → π st1 = π st → VW π c.fixes evs st1 (body st1)) :
    VW π c.fixes evs st (visitNode c n body st) := by
  have := visitNodeV h n body evs st hn hd (fun st1 e1 e2 => hb st1 e1 (by rw [e2, hE]))
  rw [hL, hE] at this
  exact this

/-! ### positions -/

theorem peek_cons {α} (a : Option α) (l : List (Option α)) : TI.peek (a :: l) = a := by
  simp [TI.peek]

theorem pos_list (s : SchemaD) (vs : List Value) (t : TI) :
    (tiEnter s (.value (.list vs)) t).pos = listItemPos s t.pos := by
  simp [tiEnter, TI.enterListValue, TI.pos, listItemPos, TI.inputType, TI.inputValueDef, peek_cons]

theorem pos_objField (s : SchemaD) (name : String) (t : TI) :
    (tiEnter s (.objField name) t).pos = objFieldPos s t.pos name := by
  simp only [tiEnter, TI.enterObjectField, TI.pos, objFieldPos, TI.inputType]
  cases hm : TI.peek t.inputStack with
  | none => simp [TI.inputValueDef, peek_cons]
  | some ty =>
    by_cases hi : isInputObject s ty.base = true <;> simp [hi, TI.inputValueDef, peek_cons]

theorem pos_argument (s : SchemaD) (a : Arg) (t : TI) :
    (tiEnter s (.argument a) t).pos = argPos s t.view a.name := by
  simp only [tiEnter, TI.enterArgument, TI.pos, argPos, TI.view]
  cases hd : t.directive with
  | some d => simp [TI.inputType, TI.inputValueDef, peek_cons]
  | none =>
    cases hf : t.field <;> simp [TI.inputType, TI.inputValueDef, peek_cons]

/-! ### values -/

mutual
theorem visitValueV (h : VCC c π) : ∀ (v : Value) (st : St),
    VW π c.fixes (VC.useEvs (usesValue c.schema st.ti.pos v)) st (visitValue c v st)
  | .list vs, st => by
    rw [visitValue, usesValue]
    refine visitNodeV_idle h (.value (.list vs)) _ _ st rfl (fun _ e => by cases e) (fun _ _ => rfl) (fun _ => rfl)
      (fun st1 e _ => ?_)
    have := visitValuesV h vs st1
    rwa [e, pos_list] at this
  | .obj fs, st => by
    rw [visitValue, usesValue]
    refine visitNodeV_idle h (.value (.obj fs)) _ _ st rfl (fun _ e => by cases e) (fun _ _ => rfl) (fun _ => rfl)
      (fun st1 e _ => ?_)
    have := visitObjFieldsV h fs st1
    rwa [e] at this
  | .var x, st => by
    rw [visitValue]
    have := visitNodeV h (.value (.var x)) id [] st rfl (fun _ e => by cases e) (fun st1 _ _ => VW.nil st1)
    exact this
  | .int x, st => by
    rw [visitValue]
    exact visitNodeV_idle h (.value (.int x)) id [] st rfl (fun _ e => by cases e) (fun _ _ => rfl) (fun _ => rfl)
      (fun st1 _ _ => VW.nil st1)
  | .float x, st => by
    rw [visitValue]
    exact visitNodeV_idle h (.value (.float x)) id [] st rfl (fun _ e => by cases e) (fun _ _ => rfl) (fun _ => rfl)
      (fun st1 _ _ => VW.nil st1)
  | .str x, st => by
    rw [visitValue]
    exact visitNodeV_idle h (.value (.str x)) id [] st rfl (fun _ e => by cases e) (fun _ _ => rfl) (fun _ => rfl)
      (fun st1 _ _ => VW.nil st1)
  | .bool x, st => by
    rw [visitValue]
    exact visitNodeV_idle h (.value (.bool x)) id [] st rfl (fun _ e => by cases e) (fun _ _ => rfl) (fun _ => rfl)
      (fun st1 _ _ => VW.nil st1)
  | .null, st => by
    rw [visitValue]
    exact visitNodeV_idle h (.value .null) id [] st rfl (fun _ e => by cases e) (fun _ _ => rfl) (fun _ => rfl)
      (fun st1 _ _ => VW.nil st1)
  | .enum x, st => by
    rw [visitValue]
    exact visitNodeV_idle h (.value (.enum x)) id [] st rfl (fun _ e => by cases e) (fun _ _ => rfl) (fun _ => rfl)
      (fun st1 _ _ => VW.nil st1)
theorem visitValuesV (h : VCC c π) : ∀ (vs : List Value) (st : St),
    VW π c.fixes (VC.useEvs (usesValues c.schema st.ti.pos vs)) st (visitValues c vs st)
  | [], st => by rw [visitValues, usesValues]; exact VW.nil st
  | v :: vs, st => by
    rw [visitValues, usesValues, VC.useEvs_append]
    have h1 := visitValueV h v st
    have h2 := visitValuesV h vs (visitValue c v st)
    rw [h1.1] at h2
    exact h1.append h2
theorem visitObjFieldV (h : VCC c π) : ∀ (x : ObjField) (st : St),
    VW π c.fixes (VC.useEvs (usesValue c.schema (objFieldPos c.schema st.ti.pos x.name) x.value)) st (visitObjField c x st)
  | .mk n v, st => by
    rw [visitObjField]
    refine visitNodeV_idle h (.objField n) _ _ st rfl (fun _ e => by cases e) (fun _ _ => rfl) (fun _ => rfl)
      (fun st1 e _ => ?_)
    have := visitValueV h v st1
    rwa [e, pos_objField] at this
theorem visitObjFieldsV (h : VCC c π) : ∀ (fs : List ObjField) (st : St),
    VW π c.fixes (VC.useEvs (usesObjFields c.schema st.ti.pos fs)) st (visitObjFields c fs st)
  | [], st => by rw [visitObjFields, usesObjFields]; exact VW.nil st
  | .mk n v :: fs, st => by
    rw [visitObjFields, usesObjFields, VC.useEvs_append]
    have h1 := visitObjFieldV h (.mk n v) st
    have h2 := visitObjFieldsV h fs (visitObjField c (.mk n v) st)
    rw [h1.1] at h2
    exact h1.append h2
end

end PyGql.Validate

/-
  C19 — simulation lemmas for the hook of proposed fix C19-H4 (`skipSelectionT3`: @skip and @include evaluated on their own).

  Same development as Lemmas/DepthTolerant.lean with ONE definition changed: `Sep.eraseD` drops each directive that cannot
  be evaluated ON ITS OWN (DepthTolerant's `eraseD` drops both as soon as one cannot). Everything else is literally the same
  text inside the namespace `PyGql.Depth.Lemmas.Sep` (the names shadow those of the enclosing namespace): `skipT_eq`,
  `collect_sim`, `nestingLevels_sim`, `pot_erase`, `boundL_erase`, `acyclic_erase`, `fuel_erase`.
-/
import PyGqlModel.Lemmas.DepthTolerant
import PyGqlModel.DepthSeparate

set_option linter.unusedVariables false
set_option linter.unusedSimpArgs false

namespace PyGql.Depth.Lemmas.Sep
open PyGql.Depth PyGql.DepthSpec

/-- EACH directive that cannot be evaluated with `vars` is dropped on its own (an evaluable one next to it stays) -/
def eraseD (vars : Vars) (d : Dirs) : Dirs :=
  ⟨if optBound vars d.skip then d.skip else none, if optBound vars d.incl then d.incl else none⟩

mutual
def eraseSel (vars : Vars) : Sel → Sel
  | .field a n d sub => .field a n (eraseD vars d) (eraseL vars sub)
  | .inline d ss => .inline (eraseD vars d) (eraseL vars ss)
  | .spread n d => .spread n (eraseD vars d)
def eraseL (vars : Vars) : List Sel → List Sel
  | [] => []
  | s :: ss => eraseSel vars s :: eraseL vars ss
end

def eraseFld (vars : Vars) (f : Fld) : Fld := ⟨f.alias, f.name, eraseL vars f.sub⟩
def eraseG (vars : Vars) (G : Grouped) : Grouped := G.map fun kv => (kv.1, kv.2.map (eraseFld vars))
def eraseFrag (vars : Vars) (f : Frag) : Frag := ⟨f.name, eraseL vars f.sels⟩
def eraseFrags (vars : Vars) (frags : List Frag) : List Frag := frags.map (eraseFrag vars)
def eraseOp (vars : Vars) (op : Op) : Op := ⟨op.name, eraseL vars op.sels⟩
def eraseDoc (vars : Vars) (doc : Doc) : Doc := ⟨doc.ops.map (eraseOp vars), eraseFrags vars doc.frags⟩

theorem eraseL_cons (vars : Vars) (s ss) : eraseL vars (s :: ss) = eraseSel vars s :: eraseL vars ss := by
  simp [eraseL]

theorem eraseL_append (vars : Vars) (a b : List Sel) : eraseL vars (a ++ b) = eraseL vars a ++ eraseL vars b := by
  induction a with
  | nil => simp [eraseL]
  | cons x xs ih => simp [eraseL_cons, ih]

theorem eraseL_eq_map (vars : Vars) (l : List Sel) : eraseL vars l = l.map (eraseSel vars) := by
  induction l with
  | nil => simp [eraseL]
  | cons x xs ih => simp [eraseL_cons, ih]

/-! ### `_skip_unless_unknown` = strict evaluation of the erased directives -/

theorem dirsBound_erase (vars : Vars) (d : Dirs) : dirsBound vars (eraseD vars d) = true := by
  have hone : ∀ o : Option Cond, optBound vars (if optBound vars o then o else none) = true := by
    intro o
    cases h : optBound vars o with
    | true => simp [h]
    | false => simp [optBound]
  simp only [eraseD, dirsBound, hone, Bool.and_self]

private theorem evalOpt_erased (vars : Vars) (o : Option Cond) :
    evalOpt vars (if optBound vars o then o else none) =
      .ok (if optBound vars o then o.map (condVal vars) else none) := by
  cases hb : optBound vars o with
  | true => simp [evalOpt_ok vars o hb]
  | false => simp [evalOpt]

private theorem skipPart (vars : Vars) (o : Option Cond) :
    knownTrue (evalOpt vars o) = (if optBound vars o then o.map (condVal vars) else none).getD false := by
  cases hb : optBound vars o with
  | true =>
    rw [evalOpt_ok vars o hb]
    cases h : o.map (condVal vars) with
    | none => simp [knownTrue, knownFalse]
    | some b => cases b <;> simp [knownTrue, knownFalse]
  | false =>
    obtain ⟨e, he⟩ := evalOpt_err hb
    simp [he, knownTrue, knownFalse]

private theorem inclPart (vars : Vars) (o : Option Cond) :
    knownFalse (evalOpt vars o) = !((if optBound vars o then o.map (condVal vars) else none).getD true) := by
  cases hb : optBound vars o with
  | true =>
    rw [evalOpt_ok vars o hb]
    cases h : o.map (condVal vars) with
    | none => simp [knownTrue, knownFalse]
    | some b => cases b <;> simp [knownTrue, knownFalse]
  | false =>
    obtain ⟨e, he⟩ := evalOpt_err hb
    simp [he, knownTrue, knownFalse]

/-- the hook of C19-H4 = strict evaluation of the directives erased ONE BY ONE -/
theorem skipT_eq (vars : Vars) (d : Dirs) : skipSelectionT3 d vars = skipSelection (eraseD vars d) vars := by
  unfold skipSelectionT3 skipSelection eraseD
  simp only [evalOpt_erased, skipPart, inclPart]

/-- on a request whose directive variables are all available nothing is erased -/
theorem skipT_ok (vars : Vars) (d : Dirs) : skipSelectionT3 d vars = .ok (skipped vars (eraseD vars d)) := by
  rw [skipT_eq, skipSelection_ok vars _ (dirsBound_erase vars d)]

/-! ### grouped fields commute with erasure -/

theorem eraseG_extendKey (vars : Vars) (G : Grouped) (key : String) (fs : List Fld) :
    eraseG vars (extendKey G key fs) = extendKey (eraseG vars G) key (fs.map (eraseFld vars)) := by
  induction G with
  | nil => simp [extendKey, eraseG]
  | cons kv rest ih =>
    obtain ⟨k, xs⟩ := kv
    simp only [extendKey, eraseG, List.map_cons] at ih ⊢
    split
    · simp [List.map_append]
    · simp [ih]

theorem eraseG_merge (vars : Vars) (g into : Grouped) :
    eraseG vars (merge g into) = merge (eraseG vars g) (eraseG vars into) := by
  unfold merge
  induction g generalizing into with
  | nil => simp [eraseG]
  | cons kv rest ih =>
    simp only [List.foldl_cons]
    rw [ih, eraseG_extendKey]
    simp [eraseG]

theorem lookupFrag_erase (vars : Vars) (frags : List Frag) (n : String) :
    lookupFrag (eraseFrags vars frags) n = (lookupFrag frags n).map (eraseFrag vars) := by
  unfold lookupFrag eraseFrags
  rw [← List.map_reverse]
  induction frags.reverse with
  | nil => simp
  | cons f fs ih =>
    simp only [List.map_cons, List.find?_cons]
    have : (eraseFrag vars f).name = f.name := rfl
    rw [this]
    cases f.name == n <;> simp [ih]

/-! ### simulation -/

def eraseSt (vars : Vars) (r : Except Err CState) : Except Err CState :=
  match r with
  | .error e => .error e
  | .ok (g, s) => .ok (eraseG vars g, s)

theorem step_sim (vars : Vars) (frags : List Frag)
    (rec recE : List Sel → List String → Except Err CState)
    (hrec : ∀ ss sn, recE (eraseL vars ss) sn = eraseSt vars (rec ss sn))
    (G : Grouped) (S : List String) (s : Sel) :
    collectStep recE (eraseFrags vars frags) vars (eraseG vars G, S) (eraseSel vars s) =
      eraseSt vars (collectStepG skipSelectionT3 rec frags vars (G, S) s) := by
  cases s with
  | field a n d sub =>
    simp only [eraseSel, collectStep, collectStepG, skipT_ok, skipSelection_ok vars _ (dirsBound_erase vars d)]
    cases skipped vars (eraseD vars d) with
    | true => simp [eraseSt]
    | false => simp [eraseSt, eraseG_extendKey, eraseFld]
  | inline d ss =>
    simp only [eraseSel, collectStep, collectStepG, skipT_ok, skipSelection_ok vars _ (dirsBound_erase vars d)]
    cases skipped vars (eraseD vars d) with
    | true => simp [eraseSt]
    | false =>
      simp only [hrec]
      cases rec ss S with
      | error e => simp [eraseSt]
      | ok r => obtain ⟨g, s'⟩ := r; simp [eraseSt, eraseG_merge]
  | spread n d =>
    simp only [eraseSel, collectStep, collectStepG, skipT_ok, skipSelection_ok vars _ (dirsBound_erase vars d)]
    cases skipped vars (eraseD vars d) with
    | true => simp [eraseSt]
    | false =>
      simp only [Bool.false_eq_true, if_false]
      by_cases hc : S.contains n = true
      · simp only [hc, ↓reduceIte, eraseSt]
      · have hc' : S.contains n = false := by simpa using hc
        simp only [hc', Bool.false_eq_true, ↓reduceIte, lookupFrag_erase]
        cases lookupFrag frags n with
        | none => simp [eraseSt]
        | some fr =>
          simp only [Option.map_some]
          have : (eraseFrag vars fr).sels = eraseL vars fr.sels := rfl
          rw [this, hrec]
          cases rec fr.sels S with
          | error e => simp [eraseSt]
          | ok r => obtain ⟨g, s'⟩ := r; simp [eraseSt, eraseG_merge]

theorem loop_sim (vars : Vars) (frags : List Frag)
    (rec recE : List Sel → List String → Except Err CState)
    (hrec : ∀ ss sn, recE (eraseL vars ss) sn = eraseSt vars (rec ss sn)) :
    ∀ (sels : List Sel) (G : Grouped) (S : List String),
      loopM (collectStep recE (eraseFrags vars frags) vars) (eraseG vars G, S) (eraseL vars sels) =
        eraseSt vars (loopM (collectStepG skipSelectionT3 rec frags vars) (G, S) sels) := by
  intro sels
  induction sels with
  | nil => intro G S; simp [loopM, eraseL, eraseSt]
  | cons s ss ih =>
    intro G S
    simp only [eraseL_cons, loopM]
    rw [step_sim vars frags rec recE hrec G S s]
    cases collectStepG skipSelectionT3 rec frags vars (G, S) s with
    | error e => simp [eraseSt]
    | ok st => obtain ⟨G1, S1⟩ := st; simp only [eraseSt]; exact ih G1 S1

theorem collect_sim (vars : Vars) (frags : List Frag) :
    ∀ (k : Nat) (sels : List Sel) (seen : List String),
      collectFieldsUntyped k (eraseL vars sels) (eraseFrags vars frags) vars seen =
        eraseSt vars (collectFieldsUntypedG skipSelectionT3 k sels frags vars seen) := by
  intro k
  induction k with
  | zero => intro sels seen; simp [collectFieldsUntyped, collectFieldsUntypedG, eraseSt]
  | succ k ih =>
    intro sels seen
    have h1 : collectFieldsUntyped (k + 1) (eraseL vars sels) (eraseFrags vars frags) vars seen =
        loopM (collectStep (fun ss sn => collectFieldsUntyped k ss (eraseFrags vars frags) vars sn)
          (eraseFrags vars frags) vars) ([], seen) (eraseL vars sels) := rfl
    have h2 : collectFieldsUntypedG skipSelectionT3 (k + 1) sels frags vars seen =
        loopM (collectStepG skipSelectionT3 (fun ss sn => collectFieldsUntypedG skipSelectionT3 k ss frags vars sn)
          frags vars) ([], seen) sels := rfl
    rw [h1, h2]
    have := loop_sim vars frags (fun ss sn => collectFieldsUntypedG skipSelectionT3 k ss frags vars sn)
      (fun ss sn => collectFieldsUntyped k ss (eraseFrags vars frags) vars sn) (fun ss sn => ih ss sn) sels [] seen
    simpa [eraseG] using this

theorem flatMap_sub_erase (vars : Vars) (fs : List Fld) :
    (fs.map (eraseFld vars)).flatMap (·.sub) = eraseL vars (fs.flatMap (·.sub)) := by
  induction fs with
  | nil => simp [eraseL]
  | cons f rest ih => simp [eraseFld, eraseL_append, ih]

theorem levelsLoop_sim (vars : Vars) (rec recE : List Sel → Except Err Nat)
    (hrec : ∀ ss, recE (eraseL vars ss) = rec ss) :
    ∀ (G : Grouped) (lv : Nat), levelsLoop recE lv (eraseG vars G) = levelsLoop rec lv G := by
  intro G
  induction G with
  | nil => intro lv; simp [levelsLoop, eraseG]
  | cons kv rest ih =>
    intro lv
    obtain ⟨k, fs⟩ := kv
    simp only [eraseG, List.map_cons, levelsLoop, flatMap_sub_erase, hrec] at ih ⊢
    cases rec (fs.flatMap (·.sub)) with
    | error e => rfl
    | ok n => exact ih _

/-- **simulation**: `_nesting_levels` with the tolerant hook = strict `_nesting_levels` on the erased document -/
theorem nestingLevels_sim (vars : Vars) (frags : List Frag) :
    ∀ (k : Nat) (sels : List Sel),
      nestingLevels k (eraseL vars sels) (eraseFrags vars frags) vars =
        nestingLevelsG skipSelectionT3 k sels frags vars := by
  intro k
  induction k with
  | zero => intro sels; rfl
  | succ k ih =>
    intro sels
    have h1 : nestingLevels (k + 1) (eraseL vars sels) (eraseFrags vars frags) vars =
        (match collectFieldsUntyped (k + 1) (eraseL vars sels) (eraseFrags vars frags) vars [] with
         | .error e => .error e
         | .ok (collected, _) =>
           levelsLoop (fun ss => nestingLevels k ss (eraseFrags vars frags) vars) 0 collected) := rfl
    have h2 : nestingLevelsG skipSelectionT3 (k + 1) sels frags vars =
        (match collectFieldsUntypedG skipSelectionT3 (k + 1) sels frags vars [] with
         | .error e => .error e
         | .ok (collected, _) => levelsLoop (fun ss => nestingLevelsG skipSelectionT3 k ss frags vars) 0 collected) := rfl
    rw [h1, h2, collect_sim vars frags (k + 1) sels []]
    cases collectFieldsUntypedG skipSelectionT3 (k + 1) sels frags vars [] with
    | error e => rfl
    | ok r =>
      obtain ⟨G, S'⟩ := r
      simp only [eraseSt]
      exact levelsLoop_sim vars _ _ (fun ss => ih ss) G 0

/-! ### the erased document: same potential / fuel / acyclicity, every directive variable available -/

mutual
theorem pot_erase (vars : Vars) (w : String → Nat) : ∀ s : Sel, pot w (eraseSel vars s) = pot w s
  | .field a n d sub => by simp only [eraseSel]; rw [pot_field, pot_field, potL_erase vars w sub]
  | .inline d ss => by simp only [eraseSel]; rw [pot_inline, pot_inline, potL_erase vars w ss]
  | .spread n d => by simp only [eraseSel]; rw [pot_spread, pot_spread]
theorem potL_erase (vars : Vars) (w : String → Nat) : ∀ l : List Sel, potL w (eraseL vars l) = potL w l
  | [] => by simp [eraseL]
  | s :: ss => by rw [eraseL_cons, potL_cons, potL_cons, pot_erase vars w s, potL_erase vars w ss]
end

mutual
theorem boundSel_erase (vars : Vars) : ∀ s : Sel, boundSel vars (eraseSel vars s) = true
  | .field a n d sub => by simp [eraseSel, boundSel, dirsBound_erase, boundL_erase vars sub]
  | .inline d ss => by simp [eraseSel, boundSel, dirsBound_erase, boundL_erase vars ss]
  | .spread n d => by simp [eraseSel, boundSel, dirsBound_erase]
theorem boundL_erase (vars : Vars) : ∀ l : List Sel, boundL vars (eraseL vars l) = true
  | [] => by simp [eraseL, boundL]
  | s :: ss => by rw [eraseL_cons, boundL_cons, boundSel_erase vars s, boundL_erase vars ss]; rfl
end

theorem eraseD_id (vars : Vars) (d : Dirs) (h : dirsBound vars d = true) : eraseD vars d = d := by
  simp only [dirsBound, Bool.and_eq_true] at h
  simp [eraseD, h.1, h.2]

mutual
theorem eraseSel_id (vars : Vars) : ∀ s : Sel, boundSel vars s = true → eraseSel vars s = s
  | .field a n d sub, h => by
    simp only [boundSel, Bool.and_eq_true] at h
    simp [eraseSel, eraseD_id vars d h.1, eraseL_id vars sub h.2]
  | .inline d ss, h => by
    simp only [boundSel, Bool.and_eq_true] at h
    simp [eraseSel, eraseD_id vars d h.1, eraseL_id vars ss h.2]
  | .spread n d, h => by
    simp only [boundSel] at h
    simp [eraseSel, eraseD_id vars d h]
theorem eraseL_id (vars : Vars) : ∀ l : List Sel, boundL vars l = true → eraseL vars l = l
  | [], _ => by simp [eraseL]
  | s :: ss, h => by
    simp only [boundL_cons, Bool.and_eq_true] at h
    rw [eraseL_cons, eraseSel_id vars s h.1, eraseL_id vars ss h.2]
end

theorem weightStep_erase (vars : Vars) (frags : List Frag) (tbl : List (String × Nat)) :
    weightStep (eraseFrags vars frags) tbl = weightStep frags tbl := by
  simp [weightStep, eraseFrags, eraseFrag, potL_erase, List.map_map, Function.comp_def]

theorem weights_erase (vars : Vars) (frags : List Frag) : weights (eraseFrags vars frags) = weights frags := by
  unfold weights
  have hlen : (eraseFrags vars frags).length = frags.length := by simp [eraseFrags]
  rw [hlen]
  have : weightStep (eraseFrags vars frags) = weightStep frags := funext (weightStep_erase vars frags)
  rw [this]

theorem acyclic_erase (vars : Vars) (frags : List Frag) : acyclic (eraseFrags vars frags) = acyclic frags := by
  unfold acyclic
  rw [weights_erase]
  simp [eraseFrags, eraseFrag, List.all_map, potL_erase, Function.comp_def]

theorem fuel_erase (vars : Vars) (doc : Doc) : (eraseDoc vars doc).fuel = doc.fuel := by
  unfold Doc.fuel eraseDoc
  simp only [weights_erase]
  simp [eraseOp, potL_erase, List.map_map, Function.comp_def]

end PyGql.Depth.Lemmas.Sep

/-
  Token classes → matcher, with the optional separators (`optTok`) and look-ahead restrictions (`nla`) of the views:
  `plainF i fol` — the item is matched by its canonical yield when the classes `fol` follow it.
-/
import PyGqlModel.Lemmas.PrintMatchExec
namespace PyGql.PrintMatch
open PyGql PyGql.Ast PyGql.Parse PyGql.Spec

mutual
def plainF : Item → List TokClass → Bool
  | .tok _ _, _ => true
  | .optTok k v, fol => fol.head? != some (k, v)
  | .nla k, fol => (fol.head?.map Prod.fst) != some k
  | .node loc is, fol => loc.isNone && plainAllF is fol && !(Item.yieldAll is ++ fol).isEmpty
def plainAllF : List Item → List TokClass → Bool
  | [], _ => true
  | i :: is, fol => plainF i (Item.yieldAll is ++ fol) && plainAllF is fol
end

mutual
theorem check_of_plainF (fl : Flags) (hnl : fl.noLocation = true) :
    ∀ (i : Item) (l : Tok) (ts rest : List Tok), plainF i (classes rest) = true → classes ts = i.yield →
      i.check fl l (ts ++ rest) = some (Item.lastOf l ts, rest)
  | .tok k v, l, ts, rest, _, hy => by
    simp only [Item.yield] at hy
    match ts, hy with
    | [t], hy =>
      simp only [classes, List.map_cons, List.map_nil, List.cons.injEq, and_true] at hy
      rw [check_tok]
      exact ⟨t, rfl, hy, by simp [Item.lastOf]⟩
  | .optTok k v, l, ts, rest, hp, hy => by
    simp only [Item.yield, classes, List.map_eq_nil_iff] at hy
    subst hy
    simp only [plainF, bne_iff_ne, ne_eq] at hp
    rw [check_optTok]
    right
    refine ⟨by simp [Item.lastOf], rfl, ?_⟩
    intro t tl e hc
    simp only [List.nil_append] at e
    subst e
    exact hp (by simp [classes, hc])
  | .nla k, l, ts, rest, hp, hy => by
    simp only [Item.yield, classes, List.map_eq_nil_iff] at hy
    subst hy
    simp only [plainF, bne_iff_ne, ne_eq] at hp
    rw [check_nla]
    refine ⟨by simp [Item.lastOf], rfl, ?_⟩
    intro t tl e hk
    simp only [List.nil_append] at e
    subst e
    exact hp (by simp [classes, cls, hk])
  | .node loc is, l, ts, rest, hp, hy => by
    simp only [plainF, Bool.and_eq_true, Option.isNone_iff_eq_none, Bool.not_eq_true', List.isEmpty_eq_false_iff] at hp
    obtain ⟨⟨hloc, hpl⟩, hne⟩ := hp
    simp only [Item.yield] at hy
    have := checkAll_of_plainF fl hnl is l ts rest hpl hy
    have hne' : ts ++ rest ≠ [] := by
      intro e
      have : classes (ts ++ rest) = [] := by rw [e]; rfl
      simp only [classes, List.map_append] at this
      rw [show List.map cls ts = Item.yieldAll is from hy] at this
      exact hne this
    cases hts : ts ++ rest with
    | nil => exact absurd hts hne'
    | cons f tl =>
      rw [hts] at this
      rw [check_node]
      exact ⟨f, tl, rfl, this, by simp [hloc, locOf, hnl]⟩
theorem checkAll_of_plainF (fl : Flags) (hnl : fl.noLocation = true) :
    ∀ (is : List Item) (l : Tok) (ts rest : List Tok), plainAllF is (classes rest) = true → classes ts = Item.yieldAll is →
      Item.checkAll fl is l (ts ++ rest) = some (Item.lastOf l ts, rest)
  | [], l, ts, rest, _, hy => by
    simp only [Item.yieldAll, classes, List.map_eq_nil_iff] at hy
    subst hy
    simp [Item.checkAll, Item.lastOf]
  | i :: is, l, ts, rest, hp, hy => by
    simp only [plainAllF, Bool.and_eq_true] at hp
    simp only [Item.yieldAll, classes] at hy
    obtain ⟨t1, t2, rfl, h1, h2⟩ := List.map_eq_append_iff.1 hy
    rw [checkAll_cons]
    refine ⟨Item.lastOf l t1, t2 ++ rest, ?_, ?_⟩
    · rw [List.append_assoc]
      apply check_of_plainF fl hnl i l t1 (t2 ++ rest) _ h1
      have : classes (t2 ++ rest) = Item.yieldAll is ++ classes rest := by
        simp only [classes, List.map_append]; rw [show List.map cls t2 = Item.yieldAll is from h2]
      rw [this]; exact hp.1
    · rw [lastOf_append]; exact checkAll_of_plainF fl hnl is _ t2 rest hp.2 h2
end

mutual
/-- a `plain` item needs no look-ahead -/
theorem plainF_of_plain : ∀ (i : Item) (fol : List TokClass), plain i = true → plainF i fol = true
  | .tok _ _, _, _ => rfl
  | .optTok _ _, _, h => by simp [plain] at h
  | .nla _, _, h => by simp [plain] at h
  | .node loc is, fol, h => by
    simp only [plain, Bool.and_eq_true, Bool.not_eq_true', List.isEmpty_eq_false_iff] at h
    simp only [plainF, Bool.and_eq_true, Bool.not_eq_true', List.isEmpty_eq_false_iff]
    refine ⟨⟨h.1.1, plainAllF_of_plainAll is fol h.1.2⟩, ?_⟩
    intro e; exact h.2 (List.append_eq_nil_iff.1 e).1
theorem plainAllF_of_plainAll : ∀ (is : List Item) (fol : List TokClass), plainAll is = true → plainAllF is fol = true
  | [], _, _ => rfl
  | i :: is, fol, h => by
    simp only [plainAll, Bool.and_eq_true] at h
    simp only [plainAllF, Bool.and_eq_true]
    exact ⟨plainF_of_plain i _ h.1, plainAllF_of_plainAll is fol h.2⟩
end

theorem plainAllF_append (a b : List Item) (fol : List TokClass) :
    plainAllF (a ++ b) fol = (plainAllF a (Item.yieldAll b ++ fol) && plainAllF b fol) := by
  induction a with
  | nil => simp [plainAllF]
  | cons i is ih => simp [plainAllF, ih, yieldAll_append, Bool.and_assoc, List.append_assoc]

end PyGql.PrintMatch

/-
  C14 — one `on_schema` round: well-formedness is carried to the next round, and a round that replaces no type
  leaves a schema whose every reference is the registered object.
-/
import PyGqlModel.Lemmas.HeapClosedTypes

set_option linter.unusedSimpArgs false
set_option linter.unusedVariables false
set_option linter.unnecessarySimpa false

namespace PyGql.Heap.Own
open PyGql.Heap

/-! ### weaker checks -/

theorem argShape_mono {chk chk' : Ref → Bool} (hm : ∀ r, chk r = true → chk' r = true) (h : Heap) (a : Addr)
    (hs : argShape chk h a = true) : argShape chk' h a = true := by
  cases hg : h.readArg a with
  | none => simp [argShape, hg] at hs
  | some g => simp only [argShape, hg] at hs ⊢; exact hm _ hs

theorem fieldShape_mono {chk chk' : Ref → Bool} (hm : ∀ r, chk r = true → chk' r = true) (h : Heap) (a : Addr)
    (hs : fieldShape chk h a = true) : fieldShape chk' h a = true := by
  obtain ⟨f, hf, h1, h2⟩ := (fieldShape_iff chk h a).mp hs
  exact (fieldShape_iff chk' h a).mpr ⟨f, hf, hm _ h1, fun c hc => argShape_mono hm h c (h2 c hc)⟩

theorem typeShape_mono {chk chk' : Ref → Bool} (hm : ∀ r, chk r = true → chk' r = true) (h : Heap) (a : Addr)
    (hs : typeShape chk h a = true) : typeShape chk' h a = true := by
  obtain ⟨t, ht, h1, h2⟩ := (typeShape_iff chk h a).mp hs
  refine (typeShape_iff chk' h a).mpr ⟨t, ht, ?_, ?_⟩
  · simp only [List.all_eq_true] at h1 ⊢; exact fun r hr => hm r (h1 r hr)
  · simp only [typeMembersOK] at h2 ⊢
    cases hk : t.kind <;> simp only [hk, List.all_eq_true] at h2 ⊢ <;>
      first
        | exact fun c hc => fieldShape_mono hm h c (h2 c hc)
        | exact fun c hc => argShape_mono hm h c (h2 c hc)

theorem dirShape_mono {chk chk' : Ref → Bool} (hm : ∀ r, chk r = true → chk' r = true) (h : Heap) (a : Addr)
    (hs : dirShape chk h a = true) : dirShape chk' h a = true := by
  cases hd : h.readDir a with
  | none => simp [dirShape, hd] at hs
  | some d =>
    simp only [dirShape, hd, List.all_eq_true] at hs ⊢
    exact fun c hc => argShape_mono hm h c (hs c hc)

/-- the invariant carried from round to round -/
structure WFs (chk : Ref → Bool) (h : Heap) (s : Schema) : Prop where
  types : ∀ e, e ∈ s.types → typeShape chk h e.2 = true
  dirs : ∀ e, e ∈ s.dirs → dirShape chk h e.2 = true
  names : ∀ e, e ∈ s.types → nameOK h e = true
  prot : ∀ e, e ∈ s.types → protLeaf h e = true
  nodup : (s.types.map (·.1)).Nodup

theorem WFs.mono {chk chk' : Ref → Bool} (hm : ∀ r, chk r = true → chk' r = true) {h : Heap} {s : Schema} (w : WFs chk h s) : WFs chk' h s :=
  ⟨fun e he => typeShape_mono hm h _ (w.types e he), fun e he => dirShape_mono hm h _ (w.dirs e he), w.names, w.prot, w.nodup⟩

theorem nameOK_keep {chk : Ref → Bool} {h h' : Heap} (st : StepImp chk h h') (e : String × Addr) (hn : nameOK h e = true) : nameOK h' e = true := by
  simp only [nameOK] at hn
  split at hn
  · rename_i t ht
    obtain ⟨t', ht', _, hnm⟩ := readType_keep st e.2 t ht
    simp only [nameOK, ht', hnm]; exact hn
  · cases hn

theorem protLeaf_keep {chk : Ref → Bool} {h h' : Heap} (st : StepImp chk h h') (e : String × Addr) (hn : protLeaf h e = true) : protLeaf h' e = true := by
  simp only [protLeaf, Bool.or_eq_true] at hn ⊢
  rcases hn with hn | hn
  · exact Or.inl hn
  · right
    split at hn
    · rename_i t ht
      obtain ⟨t', ht', hk, _⟩ := readType_keep st e.2 t ht
      simp only [ht', hk]; exact hn
    · cases hn

/-- a protected entry (a specified scalar) has every shape -/
theorem typeShape_prot (chk : Ref → Bool) (h : Heap) (e : String × Addr) (hp : isProtected e.1 = true) (hl : protLeaf h e = true) :
    typeShape chk h e.2 = true := by
  simp only [protLeaf, hp, Bool.not_true, Bool.false_or] at hl
  split at hl
  · rename_i t ht
    simp only [beq_iff_eq] at hl
    rw [typeShape_eq _ _ _ _ ht]
    simp [typeRefs, typeMembersOK, hl]
  · cases hl

/-! ### the loops of `on_schema` -/

theorem visitTypes_est (v : Visitor) (reg : List (String × Addr)) (chk0 : Ref → Bool) (hc : Compat v reg chk0) :
    ∀ (l : List (String × Addr)) (h : Heap), (∀ e, e ∈ l → isProtected e.1 = false → typeShape chk0 h e.2 = true) →
      StepAll v reg h (visitTypes v reg h l).1 ∧
      (∀ e, e ∈ l → isProtected e.1 = false →
        (∃ x, x ∈ (visitTypes v reg h l).2 ∧ x.1 = e.1) ∨ typeShape (outChk v reg chk0) (visitTypes v reg h l).1 e.2 = true) ∧
      (∀ x, x ∈ (visitTypes v reg h l).2 → ∃ e, e ∈ l ∧ e.1 = x.1 ∧ isProtected e.1 = false ∧ x.2 ≠ some e.2 ∧
        ∀ a', x.2 = some a' → typeShape (outChk v reg chk0) (visitTypes v reg h l).1 a' = true ∧
          ∃ t t', h.readType e.2 = some t ∧ (visitTypes v reg h l).1.readType a' = some t' ∧ t'.kind = t.kind ∧ t'.name = t.name) := by
  intro l
  induction l with
  | nil => intro h _; exact ⟨StepAll.refl v reg h, by simp, by simp [visitTypes]⟩
  | cons e0 rest ih =>
    intro h hin
    obtain ⟨n, a⟩ := e0
    simp only [visitTypes]
    split
    · rename_i hp
      obtain ⟨s1, f1, f2⟩ := ih h (fun e he => hin e (by simp [he]))
      refine ⟨s1, ?_, ?_⟩
      · intro e he hnp
        simp only [List.mem_cons] at he
        rcases he with rfl | he
        · simp [hnp] at hp
        · exact f1 e he hnp
      · intro x hx
        obtain ⟨e, he, r⟩ := f2 x hx
        exact ⟨e, by simp [he], r⟩
    · rename_i hp
      have hnp : isProtected n = false := by simpa using hp
      obtain ⟨t, ht, test⟩ := onType_est v reg chk0 hc h a (hin (n, a) (by simp) hnp)
      have st0 := onType_step v reg h a
      obtain ⟨s1, f1, f2⟩ := ih (onType v reg h a).1
        (fun e he hq => typeShape_keep (st0 chk0 hc) e.2 (hin e (by simp [he]) hq))
      have sout := s1 _ (compat_out v reg chk0 hc)
      refine ⟨st0.trans s1, ?_, ?_⟩
      · intro e he hq
        simp only [List.mem_cons] at he
        rcases he with rfl | he
        · split
          · exact Or.inl ⟨(n, (onType v reg h a).2), by simp, rfl⟩
          · rename_i hsame
            right
            have hsm : (onType v reg h a).2 = some a := by simpa using hsame
            exact typeShape_keep sout a (test a hsm).1
        · rcases f1 e he hq with ⟨x, hx, hxe⟩ | h2
          · left
            split
            · exact ⟨x, by simp [hx], hxe⟩
            · exact ⟨x, hx, hxe⟩
          · right
            split <;> exact h2
      · intro x hx
        have hrest : x ∈ (visitTypes v reg (onType v reg h a).1 rest).2 → _ := fun hx' => f2 x hx'
        split at hx
        · rename_i hdiff
          simp only [List.mem_cons] at hx
          rcases hx with rfl | hx
          · refine ⟨(n, a), by simp, rfl, hnp, by simpa using hdiff, ?_⟩
            intro a' ea
            obtain ⟨hsh, t', ht', hk', hn'⟩ := test a' ea
            obtain ⟨t'', ht'', hk'', hn''⟩ := readType_keep sout a' t' ht'
            exact ⟨typeShape_keep sout a' hsh, t, t'', ht, ht'', by rw [hk'', hk'], by rw [hn'', hn']⟩
          · obtain ⟨e, he, h1, h2, h3, h4⟩ := f2 x hx
            refine ⟨e, by simp [he], h1, h2, h3, ?_⟩
            intro a' ea
            obtain ⟨hsh, t1, t2, ht1, ht2, hk, hn⟩ := h4 a' ea
            -- the source object is read in the heap before this step
            have hpre : typeShape chk0 h e.2 = true := hin e (by simp [he]) h2
            obtain ⟨t0, ht0, _, _⟩ := (typeShape_iff chk0 h e.2).mp hpre
            obtain ⟨t1', ht1', hk1, hn1⟩ := readType_keep (st0 chk0 hc) e.2 t0 ht0
            rw [ht1] at ht1'; cases ht1'
            exact ⟨hsh, t0, t2, ht0, ht2, by rw [hk, hk1], by rw [hn, hn1]⟩
        · obtain ⟨e, he, h1, h2, h3, h4⟩ := f2 x hx
          refine ⟨e, by simp [he], h1, h2, h3, ?_⟩
          intro a' ea
          obtain ⟨hsh, t1, t2, ht1, ht2, hk, hn⟩ := h4 a' ea
          have hpre : typeShape chk0 h e.2 = true := hin e (by simp [he]) h2
          obtain ⟨t0, ht0, _, _⟩ := (typeShape_iff chk0 h e.2).mp hpre
          obtain ⟨t1', ht1', hk1, hn1⟩ := readType_keep (st0 chk0 hc) e.2 t0 ht0
          rw [ht1] at ht1'; cases ht1'
          exact ⟨hsh, t0, t2, ht0, ht2, by rw [hk, hk1], by rw [hn, hn1]⟩

theorem visitDirs_est (v : Visitor) (reg : List (String × Addr)) (chk0 : Ref → Bool) (hc : Compat v reg chk0) :
    ∀ (l : List (String × Addr)) (h : Heap), (∀ e, e ∈ l → dirShape chk0 h e.2 = true) →
      StepAll v reg h (visitDirs v reg h l).1 ∧
      (∀ e, e ∈ l → (∃ x, x ∈ (visitDirs v reg h l).2 ∧ x.1 = e.1) ∨ dirShape (outChk v reg chk0) (visitDirs v reg h l).1 e.2 = true) ∧
      (∀ x, x ∈ (visitDirs v reg h l).2 → ∀ a', x.2 = some a' → dirShape (outChk v reg chk0) (visitDirs v reg h l).1 a' = true) := by
  intro l
  induction l with
  | nil => intro h _; exact ⟨StepAll.refl v reg h, by simp, by simp [visitDirs]⟩
  | cons e0 rest ih =>
    intro h hin
    obtain ⟨n, a⟩ := e0
    simp only [visitDirs]
    have test := onDirective_est v reg chk0 hc h a (hin (n, a) (by simp))
    have st0 := onDirective_step v reg h a
    obtain ⟨s1, f1, f2⟩ := ih (onDirective v reg h a).1 (fun e he => dirShape_keep (st0 chk0 hc) e.2 (hin e (by simp [he])))
    have sout := s1 _ (compat_out v reg chk0 hc)
    refine ⟨st0.trans s1, ?_, ?_⟩
    · intro e he
      simp only [List.mem_cons] at he
      rcases he with rfl | he
      · split
        · exact Or.inl ⟨(n, (onDirective v reg h a).2), by simp, rfl⟩
        · rename_i hsame
          right
          have hsm : (onDirective v reg h a).2 = some a := by simpa using hsame
          exact dirShape_keep sout a (test a hsm)
      · rcases f1 e he with ⟨x, hx, hxe⟩ | h2
        · left
          split
          · exact ⟨x, by simp [hx], hxe⟩
          · exact ⟨x, hx, hxe⟩
        · right
          exact h2
    · intro x hx a' ea
      split at hx
      · simp only [List.mem_cons] at hx
        rcases hx with rfl | hx
        · exact dirShape_keep sout a' (test a' ea)
        · exact f2 x hx a' ea
      · exact f2 x hx a' ea

end PyGql.Heap.Own

/-
  `ValuesOfCorrectTypeChecker` as an instance of the context walk `CTXQ` (context = the stacks of
  `TypeInfoVisitor`): what the rule adds at a node depends on the node and on the stacks only; an object literal
  at a position that is not an input object raises SkipNode - without any error when the position's type is unknown,
  and then nothing below it can be wrong.
-/
import PyGqlModel.Lemmas.ValidateValuesCtx
import PyGqlModel.Lemmas.ValidateTyped
import PyGqlModel.Spec.ValidSpecValues
namespace PyGql.Validate
open PyGql PyGql.Validate.Spec

theorem parseLiteralFails_some (sc : String) (v : Value) : ∃ b, parseLiteralFails sc v = some b := by
  unfold parseLiteralFails
  split
  · exact ⟨_, rfl⟩
  · cases v <;> exact ⟨_, rfl⟩

theorem checkScalar_some (s : SchemaD) (ti : TI) (v : Value) : ∃ k, checkScalar s ti v = some k := by
  unfold checkScalar
  cases ti.inputType with
  | none => exact ⟨0, rfl⟩
  | some it =>
    simp only
    by_cases hs : isScalar s it.base = true
    · obtain ⟨b, hb⟩ := parseLiteralFails_some it.base v
      simp only [hs, Bool.not_true, Bool.false_eq_true, ↓reduceIte, hb]
      cases b <;> exact ⟨_, rfl⟩
    · simp only [hs, Bool.not_false, ↓reduceIte]; exact ⟨1, rfl⟩

/-- errors of `_check_scalar` -/
def scalarErrs (s : SchemaD) (ti : TI) (v : Value) : Nat := (checkScalar s ti v).getD 0

theorem addOpt_len (r : Rule) (s : SchemaD) (ti : TI) (v : Value) (rs : RS) :
    (rs.addOpt r (checkScalar s ti v)).errs.length = rs.errs.length + scalarErrs s ti v := by
  obtain ⟨k, hk⟩ := checkScalar_some s ti v
  simp [scalarErrs, hk, RS.addOpt, RS.errN, Nat.add_comm]

/-- the node raises SkipNode: an object literal at a position that is not of input-object type AND that
    `_check_scalar` rejects (proposed_fixes/C06-H5; before: whether rejected or not) -/
def vocBad (s : SchemaD) : Node → TI → Bool
  | .value (.obj fs), t =>
    match t.inputType.map (·.base) with
    | some b => !isInputObject s b && scalarErrs s t (.obj fs) != 0
    | none => scalarErrs s t (.obj fs) != 0
  | _, _ => false

theorem scalarSkip_eq (s : SchemaD) (ti : TI) (v : Value) : scalarSkip (checkScalar s ti v) = (scalarErrs s ti v != 0) := by
  obtain ⟨k, hk⟩ := checkScalar_some s ti v
  simp only [scalarSkip, scalarErrs, hk, Option.getD_some]
  cases k <;> simp

/-- errors added by a node that raises SkipNode -/
def vocS (s : SchemaD) : Node → TI → Nat
  | .value (.obj fs), t => scalarErrs s t (.obj fs)
  | _, _ => 0

/-- errors added on entering a node that does not raise SkipNode -/
def vocF (s : SchemaD) (fx : Fixes) : Node → TI → Nat
  | .value (.int x), t => scalarErrs s t (.int x)
  | .value (.float x), t => scalarErrs s t (.float x)
  | .value (.str x), t => scalarErrs s t (.str x)
  | .value (.bool x), t => scalarErrs s t (.bool x)
  | .value .null, t => match t.inputType with | some (.nonNull _) => 1 | _ => 0
  | .value (.enum x), t =>
    match t.inputType.map (·.base) with
    | none => 0
    | some b => if !isEnum s b then scalarErrs s t (.enum x) else if enumHas s b x then 0 else 1
  | .value (.obj fs), t =>
    match t.inputType.map (·.base) with
    | some b =>
      if isInputObject s b then
        ((inputFields s b).filter fun fd => ArgD.required fd && !(fs.map (·.name)).contains fd.name).length
      else 0
    | none => 0
  | .objField _, t =>
    match t.inputType, t.parentInputType s fx with
    | none, some _ => 1
    | _, _ => 0
  | _, _ => 0

theorem voc_enter (s : SchemaD) (fx : Fixes) (n : Node) (ti : TI) (rs : RS) :
    (enterRule s fx .valuesOfCorrectType n ti rs).2 = vocBad s n ti ∧
    (enterRule s fx .valuesOfCorrectType n ti rs).1.errs.length =
      rs.errs.length + (if vocBad s n ti = true then vocS s n ti else vocF s fx n ti) := by
  cases n with
  | value v =>
    cases v with
    | int x => simp [enterRule, vocBad, vocF, addOpt_len]
    | float x => simp [enterRule, vocBad, vocF, addOpt_len]
    | str x => simp [enterRule, vocBad, vocF, addOpt_len]
    | bool x => simp [enterRule, vocBad, vocF, addOpt_len]
    | var x => simp [enterRule, vocBad, vocF]
    | list vs => simp [enterRule, vocBad, vocF]
    | null =>
      simp only [enterRule, vocBad, vocF, Bool.false_eq_true, ↓reduceIte, true_and]
      cases ti.inputType with
      | none => simp
      | some it => cases it <;> simp [RS.err]
    | enum x =>
      simp only [enterRule, vocBad, vocF, Bool.false_eq_true, ↓reduceIte, true_and]
      cases hit : ti.inputType with
      | none => simp
      | some it =>
        simp only [Option.map_some]
        by_cases he : isEnum s it.base = true
        · by_cases hh : enumHas s it.base x = true <;> simp [he, hh, RS.err]
        · simp [he, addOpt_len]
    | obj fs =>
      have hopt : ti.inputType = none ∨ ∃ it, ti.inputType = some it := by cases ti.inputType <;> simp
      rcases hopt with hit | ⟨it, hit⟩
      · simp only [enterRule, vocBad, vocF, vocS, hit, Option.map_none, addOpt_len, scalarSkip_eq, true_and]
        by_cases hz : scalarErrs s ti (.obj fs) = 0 <;> simp [hz]
      · by_cases hi : isInputObject s it.base = true
        · simp [enterRule, vocBad, vocF, vocS, hit, hi, RS.errN]; omega
        · simp only [enterRule, vocBad, vocF, vocS, hit, Option.map_some, hi, Bool.false_eq_true, ↓reduceIte,
            addOpt_len, scalarSkip_eq, Bool.not_false, Bool.true_and, true_and]
          by_cases hz : scalarErrs s ti (.obj fs) = 0 <;> simp [hz]
  | objField name =>
    simp only [enterRule, vocBad, vocF, Bool.false_eq_true, ↓reduceIte, true_and]
    cases ti.inputType <;> cases ti.parentInputType s fx <;> simp [RS.err]
  | _ => simp [enterRule, vocBad, vocF]

theorem voc_leave (s : SchemaD) (fx : Fixes) (n : Node) (ti : TI) (rs : RS) :
    leaveRule s fx .valuesOfCorrectType n ti rs = rs := by
  unfold leaveRule
  split <;> first | rfl | contradiction

end PyGql.Validate

/-
  The walk of a chain that carries a `VariablesCollector`, part 2: arguments, directives, selections, variable
  definitions, definitions. Result (`visitDefV`): visiting a definition transforms the collector by
  `defEffect` = enter the scope, apply the events of `Spec.tnDef` (every (node, static context) pair) in order,
  leave the scope.
-/
import PyGqlModel.Lemmas.ValidateVarsWalk
namespace PyGql.Validate
open PyGql PyGql.Validate.Spec

/-! value nodes carry no event of their own (the usages are attributed to the enclosing argument) -/
mutual
theorem vlog_value (s : SchemaD) (w : View) : ∀ v : Value, vlog s (withView w (valueNodes v)) = []
  | .list vs => by rw [valueNodes, withView_cons, vlog_cons, vlog_values s w vs]; rfl
  | .obj fs => by rw [valueNodes, withView_cons, vlog_cons, vlog_objFields s w fs]; rfl
  | .var _ => rfl
  | .int _ => rfl
  | .float _ => rfl
  | .str _ => rfl
  | .bool _ => rfl
  | .null => rfl
  | .enum _ => rfl
theorem vlog_values (s : SchemaD) (w : View) : ∀ vs : List Value, vlog s (withView w (valuesNodes vs)) = []
  | [] => rfl
  | v :: vs => by rw [valuesNodes, withView_append, vlog_append, vlog_value s w v, vlog_values s w vs]; rfl
theorem vlog_objField (s : SchemaD) (w : View) : ∀ f : ObjField, vlog s (withView w (objFieldNodes f)) = []
  | .mk n v => by rw [objFieldNodes, withView_cons, vlog_cons, vlog_value s w v]; rfl
theorem vlog_objFields (s : SchemaD) (w : View) : ∀ fs : List ObjField, vlog s (withView w (objFieldsNodes fs)) = []
  | [] => rfl
  | f :: fs => by rw [objFieldsNodes, withView_append, vlog_append, vlog_objField s w f, vlog_objFields s w fs]; rfl
end

theorem vlog_argNodes (s : SchemaD) (w : View) (a : Arg) :
    vlog s (withView w (argNodes a)) = VC.useEvs (usesValue s (argPos s w a.name) a.value) := by
  rw [argNodes, withView_cons, vlog_cons, vlog_value, List.append_nil]; rfl

variable {c : Cfg} {π : St → VC}

/-- a fold over children whose visits restore the stacks: the static context is the same for all of them -/
theorem foldlV {α} (P : St → Prop) (visit : α → St → St) (ns : View → α → List (Node × View))
    (hv : ∀ a st, P st → VW π c.fixes (vlog c.schema (ns st.ti.view a)) st (visit a st) ∧ P (visit a st)) :
    ∀ (as : List α) (st : St), P st →
      VW π c.fixes (vlog c.schema (as.flatMap (ns st.ti.view))) st (as.foldl (fun st a => visit a st) st) ∧
      P (as.foldl (fun st a => visit a st) st)
  | [], st, hp => ⟨by simpa [vlog] using VW.nil (π := π) (c := c) st, hp⟩
  | a :: as, st, hp => by
    rw [List.foldl_cons, List.flatMap_cons, vlog_append]
    obtain ⟨h1, hp1⟩ := hv a st hp
    obtain ⟨h2, hp2⟩ := foldlV P visit ns hv as (visit a st) hp1
    rw [h1.1] at h2
    exact ⟨h1.append h2, hp2⟩

theorem visitArgumentV (h : VCC c π) (a : Arg) (st : St) :
    VW π c.fixes (vlog c.schema (withView st.ti.view (argNodes a))) st (visitArgument c a st) := by
  rw [visitArgument, vlog_argNodes]
  refine visitNodeV_idle h (.argument a) _ _ st rfl (fun _ e => by cases e) (fun _ _ => rfl) (fun _ => rfl)
    (fun st1 e _ => ?_)
  have := visitValueV h a.value st1
  rwa [e, pos_argument] at this

theorem visitArgumentsV (h : VCC c π) (as : List Arg) (st : St) :
    VW π c.fixes (vlog c.schema (withView st.ti.view (argsNodes as))) st (visitArguments c as st) := by
  have := (foldlV (π := π) (c := c) (fun _ => True) (visitArgument c) (fun v a => withView v (argNodes a))
    (fun a st _ => ⟨visitArgumentV h a st, trivial⟩) as st trivial).1
  have e : as.flatMap (fun a => withView st.ti.view (argNodes a)) = withView st.ti.view (argsNodes as) := by
    simp [withView, argsNodes, List.map_flatMap]
  rw [e] at this
  exact this

theorem visitDirectiveV (h : VCC c π) (d : Dir) (st : St) (hd : st.ti.directive = none) :
    VW π c.fixes (vlog c.schema (tnDir c.schema st.ti.view d)) st (visitDirective c d st) := by
  rw [visitDirective, tnDir, vlog_cons]
  show VW π c.fixes ([] ++ _) st _
  rw [List.nil_append]
  refine visitNodeV_idle h (.directive d) _ _ st rfl (fun _ _ => hd) (fun _ _ => rfl) (fun _ => rfl)
    (fun st1 e _ => ?_)
  have := visitArgumentsV h d.args st1
  rwa [e, view_enter] at this

theorem visitDirectivesV (h : VCC c π) (ds : List Dir) (st : St) (hd : st.ti.directive = none) :
    VW π c.fixes (vlog c.schema (tnDirs c.schema st.ti.view ds)) st (visitDirectives c ds st) :=
  (foldlV (π := π) (c := c) (fun st => st.ti.directive = none) (visitDirective c) (fun v d => tnDir c.schema v d)
    (fun d st hp => ⟨visitDirectiveV h d st hp, by rw [(visitDirectiveV h d st hp).1]; exact hp⟩) ds st hd).1

mutual
theorem visitSelV (h : VCC c π) : ∀ (x : Sel) (st : St), st.ti.directive = none →
    VW π c.fixes (vlog c.schema (tnSel c.schema st.ti.view x)) st (visitSel c x st)
  | .field al name args dirs true ssid sub, st, hd => by
    rw [visitSel, tnSel, vlog_cons]
    show VW π c.fixes ([] ++ _) st _
    rw [List.nil_append]
    refine visitNodeV_idle h (.field name args dirs true) _ _ st rfl (fun _ e => by cases e) (fun _ _ => rfl)
      (fun _ => rfl) (fun st1 e _ => ?_)
    have hd1 : st1.ti.directive = none := by rw [e, directive_tiEnter _ _ _ (fun _ => by simp)]; exact hd
    have hv1 : st1.ti.view = View.enter c.schema (.field name args dirs true) st.ti.view := by rw [e, view_enter]
    simp only [↓reduceIte]
    have h1 := visitArgumentsV h args st1
    have h2 := visitDirectivesV h dirs (visitArguments c args st1) (by rw [h1.1]; exact hd1)
    have h3 : VW π c.fixes (vlog c.schema (tnSels c.schema (View.enter c.schema (.selectionSet ssid sub)
          (visitDirectives c dirs (visitArguments c args st1)).ti.view) sub))
        (visitDirectives c dirs (visitArguments c args st1))
        (visitNode c (.selectionSet ssid sub) (visitSels c sub) (visitDirectives c dirs (visitArguments c args st1))) :=
      visitNodeV_idle h (.selectionSet ssid sub) (visitSels c sub) _ _ rfl (fun _ e => by cases e) (fun _ _ => rfl)
        (fun _ => rfl) (fun st2 e2 _ => by
          have := visitSelsV h sub st2 (by rw [e2, directive_tiEnter _ _ _ (fun _ => by simp), h2.1, h1.1]; exact hd1)
          rwa [e2, view_enter] at this)
    rw [h2.1, h1.1] at h3
    rw [h1.1] at h2
    rw [hv1] at h1 h2 h3
    rw [vlog_append, vlog_append, vlog_cons]
    show VW π c.fixes (_ ++ _ ++ ([] ++ _)) st1 _
    rw [List.nil_append]
    exact (h1.append h2).append h3
  | .field al name args dirs false ssid sub, st, hd => by
    rw [visitSel, tnSel, vlog_cons]
    show VW π c.fixes ([] ++ _) st _
    rw [List.nil_append]
    refine visitNodeV_idle h (.field name args dirs false) _ _ st rfl (fun _ e => by cases e) (fun _ _ => rfl)
      (fun _ => rfl) (fun st1 e _ => ?_)
    have hd1 : st1.ti.directive = none := by rw [e, directive_tiEnter _ _ _ (fun _ => by simp)]; exact hd
    have hv1 : st1.ti.view = View.enter c.schema (.field name args dirs false) st.ti.view := by rw [e, view_enter]
    simp only [Bool.false_eq_true, ↓reduceIte, List.append_nil]
    have h1 := visitArgumentsV h args st1
    have h2 := visitDirectivesV h dirs (visitArguments c args st1) (by rw [h1.1]; exact hd1)
    rw [h1.1] at h2
    rw [hv1] at h1 h2
    rw [vlog_append]
    exact h1.append h2
  | .spread name dirs, st, hd => by
    rw [visitSel, tnSel, vlog_cons]
    have := visitNodeV h (.spread name dirs) (visitDirectives c dirs) (vlog c.schema (tnDirs c.schema st.ti.view dirs)) st rfl
      (fun _ e => by cases e) (fun st1 e _ => by
        have := visitDirectivesV h dirs st1 (by rw [e, directive_tiEnter _ _ _ (fun _ => by simp)]; exact hd)
        rwa [e, view_enter] at this)
    exact ⟨this.1, by rw [this.2]; rfl⟩
  | .inline on dirs ssid sub, st, hd => by
    rw [visitSel, tnSel, vlog_cons]
    show VW π c.fixes ([] ++ _) st _
    rw [List.nil_append]
    refine visitNodeV_idle h (.inline on dirs) _ _ st rfl (fun _ e => by cases e) (fun _ _ => rfl)
      (fun _ => rfl) (fun st1 e _ => ?_)
    have hd1 : st1.ti.directive = none := by rw [e, directive_tiEnter _ _ _ (fun _ => by simp)]; exact hd
    have hv1 : st1.ti.view = View.enter c.schema (.inline on dirs) st.ti.view := by rw [e, view_enter]
    have h2 := visitDirectivesV h dirs st1 hd1
    have h3 : VW π c.fixes (vlog c.schema (tnSels c.schema (View.enter c.schema (.selectionSet ssid sub)
          (visitDirectives c dirs st1).ti.view) sub))
        (visitDirectives c dirs st1)
        (visitNode c (.selectionSet ssid sub) (visitSels c sub) (visitDirectives c dirs st1)) :=
      visitNodeV_idle h (.selectionSet ssid sub) (visitSels c sub) _ _ rfl (fun _ e => by cases e) (fun _ _ => rfl)
        (fun _ => rfl) (fun st2 e2 _ => by
          have := visitSelsV h sub st2 (by rw [e2, directive_tiEnter _ _ _ (fun _ => by simp), h2.1]; exact hd1)
          rwa [e2, view_enter] at this)
    rw [h2.1] at h3
    rw [hv1] at h2 h3
    rw [vlog_append, vlog_cons]
    show VW π c.fixes (_ ++ ([] ++ _)) st1 _
    rw [List.nil_append]
    exact h2.append h3
theorem visitSelsV (h : VCC c π) : ∀ (xs : List Sel) (st : St), st.ti.directive = none →
    VW π c.fixes (vlog c.schema (tnSels c.schema st.ti.view xs)) st (visitSels c xs st)
  | [], st, _ => by rw [visitSels, tnSels]; exact VW.nil st
  | x :: xs, st, hd => by
    rw [visitSels, tnSels, vlog_append]
    have h1 := visitSelV h x st hd
    have h2 := visitSelsV h xs (visitSel c x st) (by rw [h1.1]; exact hd)
    rw [h1.1] at h2
    exact h1.append h2
end

end PyGql.Validate

/-
  A single-rule chain whose rule is a `VariablesCollector` subclass: the number of errors after the document is
  what the rule's `leave_document` counts on the flattened final collector.
-/
import PyGqlModel.Lemmas.ValidateVarsFinal
namespace PyGql.Validate
open PyGql PyGql.Validate.Spec

theorem enterRules_single' (c : Cfg) (n : Node) (ti : TI) (r : Rule) (rs : RS) :
    enterRules c n ti [r] rs = enterRule c.schema c.fixes r n ti rs := by
  simp only [enterRules]
  generalize enterRule c.schema c.fixes r n ti rs = p
  obtain ⟨a, b⟩ := p
  cases b <;> simp

/-- what makes rule `r` a `VariablesCollector` whose collector is `π` and whose `leave_document` adds `errF` errors -/
structure VCRule (s : SchemaD) (fx : Fixes) (r : Rule) (π : RS → VC) (errF : VC → Nat) : Prop where
  init : π {} = {}
  enter : ∀ n ti rs, (enterRule s fx r n ti rs).2 = false ∧ π (enterRule s fx r n ti rs).1 = vcEnter fx n ti (π rs) ∧
    (enterRule s fx r n ti rs).1.errs = rs.errs
  leave : ∀ n ti rs, n.isDoc = false → π (leaveRule s fx r n ti rs) = vcLeave n (π rs) ∧
    (leaveRule s fx r n ti rs).errs = rs.errs
  leaveDoc : ∀ d ti rs, (leaveRule s fx r (.document d) ti rs).errs.length = rs.errs.length + errF ((π rs).flatten fx)

theorem vc_rule_errors {s : SchemaD} {fx : Fixes} {r : Rule} {π : RS → VC} {errF : VC → Nat}
    (h : VCRule s fx r π errF) (d : Doc) :
    E (visitDocument ⟨s, fx, [r]⟩ d {}) = errF ((finalVC fx s d).flatten fx) := by
  have henter : ∀ n st, enter ⟨s, fx, [r]⟩ n st =
      ({ ti := tiEnter s n st.ti, rs := (enterRule s fx r n (tiEnter s n st.ti) st.rs).1 },
       (enterRule s fx r n (tiEnter s n st.ti) st.rs).2) := by
    intro n st; simp only [enter, enterRules_single']
  have hleave : ∀ n st, leave ⟨s, fx, [r]⟩ n st = { ti := tiLeave n st.ti, rs := leaveRule s fx r n st.ti st.rs } := by
    intro n st
    simp only [leave, List.reverse_cons, List.reverse_nil, List.nil_append, List.foldl_cons, List.foldl_nil]
  have hvcc : VCC ⟨s, fx, [r]⟩ (fun st => π st.rs) :=
    { noskip := fun n st _ => by rw [henter]; exact (h.enter n _ _).1
      enterπ := fun n st _ => by rw [henter]; exact (h.enter n _ _).2.1
      leaveπ := fun n st hn => by rw [hleave]; exact (h.leave n _ _ hn).1 }
  have hcf : CF ⟨s, fx, [r]⟩ (fun _ => 0) (fun _ => 0) :=
    { noskip := fun n st _ => by rw [henter]; exact (h.enter n _ _).1
      enterE := fun n st _ => by rw [henter]; simp only [E, (h.enter n _ _).2.2, Nat.add_zero]
      leaveE := fun n st hn => by rw [hleave]; simp only [E, (h.leave n _ _ hn).2, Nat.add_zero] }
  have hs := (h.enter (.document d) (tiEnter s (.document d) ({} : St).ti) ({} : St).rs)
  rw [visitDocument]
  unfold visitNode
  rw [henter, hs.1]
  simp only [Bool.false_eq_true, ↓reduceIte]
  generalize hst1 : St.mk (tiEnter s (.document d) ({} : St).ti)
      (enterRule s fx r (.document d) (tiEnter s (.document d) ({} : St).ti) ({} : St).rs).1 = st1
  have ht1 : st1.ti = {} := by rw [← hst1]; rfl
  have hp1 : π st1.rs = {} := by rw [← hst1]; exact hs.2.1.trans h.init
  have he1 : E st1 = 0 := by rw [← hst1]; simp only [E, hs.2.2]; rfl
  obtain ⟨_, w2⟩ := visitDefsV hvcc d.defs st1 ht1 (by rw [hp1]; exact ⟨rfl, rfl, rfl⟩)
  have e2 := visitDefs_E hcf d.defs st1
  rw [hleave]
  simp only [E] at e2 he1 ⊢
  rw [h.leaveDoc, e2, he1]
  simp only at w2
  rw [w2, hp1]
  have : total (fun _ => 0) (fun _ => 0) (d.defs.flatMap defNodes) = 0 := by
    generalize d.defs.flatMap defNodes = ns
    induction ns with
    | nil => rfl
    | cons a as ih => rw [total_cons, ih]
  rw [this]
  simp [finalVC]

end PyGql.Validate

/-
  C14 — the clone of a closed, well-formed schema: shapes of the copies, the clone's registry, and
  `CloneClosedWF`.
-/
import PyGqlModel.Lemmas.HeapFuel

set_option linter.unusedSimpArgs false
set_option linter.unusedVariables false
set_option linter.unnecessarySimpa false

namespace PyGql.Heap.Own
open PyGql.Heap

theorem stepImp_of_pres {h h' : Heap} (p : Pres h.size h h') (chk : Ref → Bool) : StepImp chk h h' := by
  intro a o hr
  exact ⟨o, by rw [p.2.2 a (read_lt h a o hr)]; exact hr, Evolves.refl chk o⟩

theorem copyArgs_step (chk : Ref → Bool) (h : Heap) (as : List Addr) : StepImp chk h (copyArgs h as).1 :=
  stepImp_of_pres (copyArgs_ok h.size as h (inv_self h)).1 chk
theorem copyFields_step (chk : Ref → Bool) (h : Heap) (as : List Addr) : StepImp chk h (copyFields h as).1 :=
  stepImp_of_pres (copyFields_ok h.size as h (inv_self h)).1 chk
theorem cloneType_step (cfg : Cfg) (hd : cfg.deepClone = true) (chk : Ref → Bool) (h : Heap) (t : TypeO) : StepImp chk h (cloneType cfg h t).1 :=
  stepImp_of_pres (cloneType_ok h.size cfg hd h t (inv_self h)).1 chk
theorem cloneDir_step (cfg : Cfg) (hd : cfg.deepClone = true) (chk : Ref → Bool) (h : Heap) (d : DirO) : StepImp chk h (cloneDir cfg h d).1 :=
  stepImp_of_pres (cloneDir_ok h.size cfg hd h d (inv_self h)).1 chk
theorem cloneTypes_step (cfg : Cfg) (hd : cfg.deepClone = true) (chk : Ref → Bool) (h : Heap) (l : List (String × Addr)) :
    StepImp chk h (cloneTypes cfg h l).1 := stepImp_of_pres (cloneTypes_ok h.size cfg hd l h (inv_self h)).1 chk
theorem cloneDirs_step (cfg : Cfg) (hd : cfg.deepClone = true) (chk : Ref → Bool) (h : Heap) (l : List (String × Addr)) :
    StepImp chk h (cloneDirs cfg h l).1 := stepImp_of_pres (cloneDirs_ok h.size cfg hd l h (inv_self h)).1 chk

/-! ### shapes of the copies -/

theorem argShape_iff (chk : Ref → Bool) (h : Heap) (a : Addr) : argShape chk h a = true ↔ ∃ g, h.readArg a = some g ∧ chk g.ty.base = true := by
  cases hg : h.readArg a with
  | none => simp [argShape, hg]
  | some g => simp [argShape, hg]

theorem copyArgs_est (chk : Ref → Bool) : ∀ (as : List Addr) (h : Heap), (∀ c, c ∈ as → argShape chk h c = true) →
    ∀ c, c ∈ (copyArgs h as).2 → argShape chk (copyArgs h as).1 c = true := by
  intro as
  induction as with
  | nil => intro h _ c hc; simp [copyArgs] at hc
  | cons a as ih =>
    intro h hin c hc
    obtain ⟨g, hg, hchk⟩ := (argShape_iff chk h a).mp (hin a (by simp))
    simp only [copyArgs, hg] at hc ⊢
    have hrest : ∀ c, c ∈ as → argShape chk (h.alloc (.arg g)).1 c = true :=
      fun c hcm => argShape_keep (step_alloc chk h _) c (hin c (by simp [hcm]))
    simp only [List.mem_cons] at hc
    rcases hc with rfl | hc
    · exact argShape_keep (copyArgs_step chk _ as) _ ((argShape_iff chk _ _).mpr ⟨g, readArg_alloc_new h g, hchk⟩)
    · exact ih _ hrest c hc

theorem copyFields_est (chk : Ref → Bool) : ∀ (as : List Addr) (h : Heap), (∀ c, c ∈ as → fieldShape chk h c = true) →
    ∀ c, c ∈ (copyFields h as).2 → fieldShape chk (copyFields h as).1 c = true := by
  intro as
  induction as with
  | nil => intro h _ c hc; simp [copyFields] at hc
  | cons a as ih =>
    intro h hin c hc
    obtain ⟨f, hf, hty, hargs⟩ := (fieldShape_iff chk h a).mp (hin a (by simp))
    simp only [copyFields, hf] at hc ⊢
    have st1 : StepImp chk h ((copyArgs h f.args).1.alloc (.field { f with args := (copyArgs h f.args).2 })).1 :=
      (copyArgs_step chk h f.args).trans (step_alloc chk _ _)
    have hrest : ∀ c, c ∈ as → fieldShape chk ((copyArgs h f.args).1.alloc (.field { f with args := (copyArgs h f.args).2 })).1 c = true :=
      fun c hcm => fieldShape_keep st1 c (hin c (by simp [hcm]))
    simp only [List.mem_cons] at hc
    rcases hc with rfl | hc
    · apply fieldShape_keep (copyFields_step chk _ as)
      refine (fieldShape_iff chk _ _).mpr ⟨_, readField_alloc_new _ _, hty, ?_⟩
      intro x hx
      exact argShape_keep (step_alloc chk _ _) x (copyArgs_est chk f.args h hargs x hx)
    · exact ih _ hrest c hc

theorem cloneType_est (cfg : Cfg) (hd : cfg.deepClone = true) (chk : Ref → Bool) (h : Heap) (a : Addr) (t : TypeO) (ht : h.readType a = some t)
    (hs : typeShape chk h a = true) :
    typeShape chk (cloneType cfg h t).1 (cloneType cfg h t).2 = true ∧
    ∃ t', (cloneType cfg h t).1.readType (cloneType cfg h t).2 = some t' ∧ t'.kind = t.kind ∧ t'.name = t.name := by
  rw [typeShape_eq chk h a t ht, Bool.and_eq_true] at hs
  obtain ⟨hrefs, hm⟩ := hs
  simp only [cloneType, hd, if_true]
  cases hk : t.kind with
  | input =>
    simp only
    refine ⟨?_, _, readType_alloc_new _ _, rfl, rfl⟩
    rw [typeShape_eq _ _ _ _ (readType_alloc_new _ _), Bool.and_eq_true]
    refine ⟨by simpa [typeRefs, hk] using hrefs, ?_⟩
    have hin : ∀ c, c ∈ t.fields → argShape chk h c = true := by simpa [typeMembersOK, hk, List.all_eq_true] using hm
    simp only [typeMembersOK, hk, List.all_eq_true]
    exact fun c hc => argShape_keep (step_alloc chk _ _) c (copyArgs_est chk t.fields h hin c hc)
  | object =>
    simp only
    refine ⟨?_, _, readType_alloc_new _ _, rfl, rfl⟩
    rw [typeShape_eq _ _ _ _ (readType_alloc_new _ _), Bool.and_eq_true]
    refine ⟨by simpa [typeRefs, hk] using hrefs, ?_⟩
    have hin : ∀ c, c ∈ t.fields → fieldShape chk h c = true := by simpa [typeMembersOK, hk, List.all_eq_true] using hm
    simp only [typeMembersOK, hk, List.all_eq_true]
    exact fun c hc => fieldShape_keep (step_alloc chk _ _) c (copyFields_est chk t.fields h hin c hc)
  | interface =>
    simp only
    refine ⟨?_, _, readType_alloc_new _ _, rfl, rfl⟩
    rw [typeShape_eq _ _ _ _ (readType_alloc_new _ _), Bool.and_eq_true]
    refine ⟨by simpa [typeRefs, hk] using hrefs, ?_⟩
    have hin : ∀ c, c ∈ t.fields → fieldShape chk h c = true := by simpa [typeMembersOK, hk, List.all_eq_true] using hm
    simp only [typeMembersOK, hk, List.all_eq_true]
    exact fun c hc => fieldShape_keep (step_alloc chk _ _) c (copyFields_est chk t.fields h hin c hc)
  | union =>
    simp only
    refine ⟨?_, _, readType_alloc_new _ _, rfl, rfl⟩
    rw [typeShape_eq _ _ _ _ (readType_alloc_new _ _), Bool.and_eq_true]
    exact ⟨by simpa [typeRefs, hk] using hrefs, by simp [typeMembersOK, hk]⟩
  | scalar =>
    simp only
    refine ⟨?_, _, readType_alloc_new _ _, rfl, rfl⟩
    rw [typeShape_eq _ _ _ _ (readType_alloc_new _ _), Bool.and_eq_true]
    exact ⟨by simpa [typeRefs, hk] using hrefs, by simp [typeMembersOK, hk]⟩
  | enum =>
    simp only
    refine ⟨?_, _, readType_alloc_new _ _, rfl, rfl⟩
    rw [typeShape_eq _ _ _ _ (readType_alloc_new _ _), Bool.and_eq_true]
    exact ⟨by simpa [typeRefs, hk] using hrefs, by simp [typeMembersOK, hk]⟩

theorem cloneDir_est (cfg : Cfg) (hd : cfg.deepClone = true) (chk : Ref → Bool) (h : Heap) (a : Addr) (d : DirO) (hr : h.readDir a = some d)
    (hs : dirShape chk h a = true) : dirShape chk (cloneDir cfg h d).1 (cloneDir cfg h d).2 = true := by
  simp only [dirShape, hr, List.all_eq_true] at hs
  simp only [cloneDir, hd, if_true, dirShape, readDir_alloc_new, List.all_eq_true]
  exact fun c hc => argShape_keep (step_alloc chk _ _) c (copyArgs_est chk d.args h hs c hc)

theorem cloneTypes_est (cfg : Cfg) (hd : cfg.deepClone = true) (chk : Ref → Bool) : ∀ (l : List (String × Addr)) (h : Heap),
    (∀ e, e ∈ l → isProtected e.1 = false → typeShape chk h e.2 = true ∧ nameOK h e = true) →
    ∀ x, x ∈ (cloneTypes cfg h l).2 → (∃ e, e ∈ l ∧ e.1 = x.1) ∧
      ∀ a', x.2 = some a' → typeShape chk (cloneTypes cfg h l).1 a' = true ∧ nameOK (cloneTypes cfg h l).1 (x.1, a') = true := by
  intro l
  induction l with
  | nil => intro h _ x hx; simp [cloneTypes] at hx
  | cons e0 rest ih =>
    intro h hin x hx
    obtain ⟨n, a⟩ := e0
    by_cases hp : isProtected n = true
    · simp only [cloneTypes, hp, if_true] at hx ⊢
      obtain ⟨⟨e, he, h1⟩, h2⟩ := ih h (fun e he => hin e (by simp [he])) x hx
      exact ⟨⟨e, by simp [he], h1⟩, h2⟩
    · have hnp : isProtected n = false := by simpa using hp
      cases ht : h.readType a with
      | none =>
        simp only [cloneTypes, hnp, Bool.false_eq_true, if_false, ht] at hx ⊢
        obtain ⟨⟨e, he, h1⟩, h2⟩ := ih h (fun e he => hin e (by simp [he])) x hx
        exact ⟨⟨e, by simp [he], h1⟩, h2⟩
      | some t =>
        simp only [cloneTypes, hnp, Bool.false_eq_true, if_false, ht] at hx ⊢
        obtain ⟨hsh, hnm⟩ := hin (n, a) (by simp) hnp
        obtain ⟨hcs, t', ht', hk', hn'⟩ := cloneType_est cfg hd chk h a t ht hsh
        have st := cloneType_step cfg hd chk h t
        have hrest : ∀ e, e ∈ rest → isProtected e.1 = false →
            typeShape chk (cloneType cfg h t).1 e.2 = true ∧ nameOK (cloneType cfg h t).1 e = true :=
          fun e he hq => ⟨typeShape_keep st e.2 (hin e (by simp [he]) hq).1, nameOK_keep st e (hin e (by simp [he]) hq).2⟩
        simp only [List.mem_cons] at hx
        rcases hx with rfl | hx
        · refine ⟨⟨(n, a), by simp, rfl⟩, ?_⟩
          intro a' ea
          simp only [Option.some.injEq] at ea
          subst ea
          have st2 := cloneTypes_step cfg hd chk (cloneType cfg h t).1 rest
          refine ⟨typeShape_keep st2 _ hcs, ?_⟩
          obtain ⟨t'', ht'', _, hn''⟩ := readType_keep st2 _ t' ht'
          simp only [nameOK, ht] at hnm
          simp only [nameOK, ht'', hn'', hn']
          exact hnm
        · obtain ⟨⟨e, he, h1⟩, h2⟩ := ih _ hrest x hx
          exact ⟨⟨e, by simp [he], h1⟩, h2⟩

theorem cloneDirs_est (cfg : Cfg) (hd : cfg.deepClone = true) (chk : Ref → Bool) : ∀ (l : List (String × Addr)) (h : Heap),
    (∀ e, e ∈ l → dirShape chk h e.2 = true) →
    ∀ x, x ∈ (cloneDirs cfg h l).2 → ∀ a', x.2 = some a' → dirShape chk (cloneDirs cfg h l).1 a' = true := by
  intro l
  induction l with
  | nil => intro h _ x hx; simp [cloneDirs] at hx
  | cons e0 rest ih =>
    intro h hin x hx a' ea
    obtain ⟨n, a⟩ := e0
    cases hr : h.readDir a with
    | none =>
      simp only [cloneDirs, hr] at hx ⊢
      exact ih h (fun e he => hin e (by simp [he])) x hx a' ea
    | some d =>
      simp only [cloneDirs, hr] at hx ⊢
      have st := cloneDir_step cfg hd chk h d
      simp only [List.mem_cons] at hx
      rcases hx with rfl | hx
      · simp only [Option.some.injEq] at ea
        subst ea
        exact dirShape_keep (cloneDirs_step cfg hd chk _ rest) _ (cloneDir_est cfg hd chk h a d hr (hin (n, a) (by simp)))
      · exact ih _ (fun e he => dirShape_keep st e.2 (hin e (by simp [he]))) x hx a' ea

end PyGql.Heap.Own
